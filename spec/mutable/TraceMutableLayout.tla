-------------------------- MODULE TraceMutableLayout --------------------------
(* Trace validation of the real share proxies of allmydata/mutable/layout.py against MutableLayout.tla.
   harness/mutlayout_driver.py drives SDMFSlotWriteProxy / MDMFSlotWriteProxy / pack_share, MDMFSlotReadProxy /
   unpack_share on one slot of a real StorageServer behind a recording IStorageServer, and after every event that can
   change the slot reads the container (MutableShareFile) directly: the *image* <<byte, offset, count>>.
   All byte strings arrive as run lists; every field the harness puts is filled with its own tag byte.

   Events            judged by
     NewWriter       -
     Put             Rule: refused calls raise LayoutInvalid, send nothing; accepted calls return
     SetCS / GetCS   checkstring book-keeping
     Finish          Rule; the test vector sent (TestvOK), the server's verdict (Matches), the container afterwards
                     (ImageHolds: header numbers, offset table, every field and block where Table() puts it), or
                     the container untouched
     Pack            pack_prefix + pack_share: the packed string is the SDMF table
     Read            Expect (value or BadShareError), Covered (no remote read for prefetched bytes), round trips
     Unpack          unpack_share on the container's bytes
     UnpackSmall     get_version_from_checkstring, unpack_sdmf_checkstring / unpack_mdmf_checkstring, unpack_header
     Damage          the environment truncated / poked / removed the container: only the image is taken over

   consts.soft: clauses listed as known findings (see extras/mutable_layout/check.py): printed as VF_NOTE
   "K:<clause>:<event>" (kept short: TLC wraps long lines), the code's behaviour is taken over, validation continues. *)
EXTENDS MutableLayout, Json, IOUtils, TLCExt

Traces == JsonDeserialize(IOEnv.TRACE_FILE)

VARIABLES tid, l, bad,
          img,      \* the container as last observed
          ws,       \* writer id -> writer (MutableLayout!NewWriter) + expected contents
          rs,       \* reader id -> [pre, everything, hdr]
          hd        \* DecodeHeader(img), computed when the image changes
tvars == <<tid, l, bad, img, ws, rs, hd>>

Events == Traces[tid].events
Ev == Events[l]
Soft(c) == c \in ToSet(Traces[tid].consts.soft)
Known(c, evname) == Soft(c) /\ PrintT(<<"VF_NOTE", tid, l, "K:" \o c \o ":" \o evname>>)

R(c, i, w, r) == [c |-> c, img |-> i, ws |-> w, rs |-> r]
Fail(c) == R(c, img, ws, rs)
Img(o) == [exists |-> o.exists, runs |-> o.runs]
With(f, k, v) == [x \in DOMAIN f \cup {k} |-> IF x = k THEN v ELSE f[x]]

(* ------------------------------- writers -------------------------------------- *)
NoVals == [verification_key |-> <<>>, signature |-> <<>>, share_hash_chain |-> <<>>, block_hash_tree |-> <<>>, enc_privkey |-> <<>>]
TraceWriter(e) ==
  LET P == [fmt |-> e.fmt, k |-> e.k, n |-> e.n, segsize |-> e.segsize, datalen |-> e.datalen, seqnum |-> e.seqnum]
  IN [w |-> NewWriter(P, e.shnum), vals |-> NoVals, root |-> <<>>, salt |-> <<>>, toldEmpty |-> FALSE,
      segs |-> {}, blocks |-> [s \in 0..Max(0, NumSegs(P) - 1) |-> <<>>], salts |-> [s \in 0..Max(0, NumSegs(P) - 1) |-> <<>>]]

ChainRuns(entries) == Canon(Flatten([i \in 1..Len(entries) |-> NumRuns(entries[i][1], 2) \o Blob(entries[i][2], HashSize)]))
TreeRuns(tags, hlen) == Canon(Flatten([i \in 1..Len(tags) |-> Blob(tags[i], hlen)]))

\* the call of a Put event in the vocabulary of Rule / Put
CallOf(e) ==
  CASE e.what = "block" -> [what |-> "block", seg |-> e.seg, dlen |-> e.dlen, slen |-> e.slen]
    [] e.what = "salt" -> [what |-> "salt", slen |-> e.slen]
    [] e.what = "blockhashes" -> [what |-> "blockhashes", cnt |-> Len(e.tags)]
    [] e.what = "sharehashes" -> [what |-> "sharehashes", cnt |-> Len(e.entries)]
    [] OTHER -> [what |-> e.what, len |-> e.len]

Record(T, e) ==
  LET T1 == [T EXCEPT !.w = Put(T.w, CallOf(e))] IN
  CASE e.what = "block" -> [T1 EXCEPT !.segs = @ \cup {e.seg}, !.blocks[e.seg] = Blob(e.dtag, e.dlen),
                                      !.salts[e.seg] = Blob(e.stag, e.slen), !.salt = Blob(e.stag, e.slen)]
    [] e.what = "salt" -> [T1 EXCEPT !.salt = Blob(e.stag, e.slen), !.segs = {}]
    [] e.what = "root_hash" -> [T1 EXCEPT !.root = Blob(e.tag, e.len)]
    [] e.what = "blockhashes" -> [T1 EXCEPT !.vals.block_hash_tree = TreeRuns(e.tags, HashSize)]
    [] e.what = "sharehashes" -> [T1 EXCEPT !.vals.share_hash_chain = ChainRuns(e.entries)]
    [] e.what = "encprivkey" -> [T1 EXCEPT !.vals.enc_privkey = Blob(e.tag, e.len)]
    [] e.what = "signature" -> [T1 EXCEPT !.vals.signature = Blob(e.tag, e.len)]
    [] e.what = "verification_key" -> [T1 EXCEPT !.vals.verification_key = Blob(e.tag, e.len)]

VPut(e) ==
  LET T == ws[e.w]
      rule == Rule(T.w, CallOf(e))
      strict == T.w.fmt = "mdmf"                \* [doc] MDMF refusals are LayoutInvalid; SDMF only asserts
  IN IF e.ncalls # 0 THEN Fail("W_put_sent_something")
     ELSE IF rule = "accept" /\ e.res # "ok" THEN Fail("W_refused_legal_call")
     ELSE IF rule = "refuse" /\ e.res = "ok" THEN Fail("W_accepted_out_of_order_call")
     ELSE IF rule = "refuse" /\ strict /\ e.res # "LayoutInvalid" THEN Fail("W_refusal_not_LayoutInvalid")
     ELSE IF rule = "either" /\ e.res \notin {"ok", "LayoutInvalid"} THEN Fail("W_unexpected_exception")
     ELSE IF e.res = "ok" THEN R("", img, With(ws, e.w, Record(T, e)), rs)
     ELSE R("", img, ws, rs)

VSetCS(e) ==
  LET T == ws[e.w]
      bytes == IF e.mode = "lit" THEN e.bytes
               ELSE CheckstringOf(T.w.fmt, e.seqnum, Blob(e.rtag, HashSize), IF T.w.fmt = "sdmf" THEN Blob(e.stag, SaltSize) ELSE <<>>)
  IN IF e.res # "ok" THEN Fail("T_set_checkstring_failed")
     ELSE R("", img, With(ws, e.w, [T EXCEPT !.w = SetCheckstring(T.w, bytes), !.toldEmpty = (Len(bytes) = 0)]), rs)

\* [doc] MDMF: "what the checkstring for that share on the server will look like"; SDMF: what it was told
OwnCheckstring(T) == CheckstringOf(T.w.fmt, T.w.P.seqnum, IF Len(T.root) = 0 THEN Blob(0, HashSize) ELSE T.root, T.salt)
VGetCS(e) ==
  LET T == ws[e.w]
      want == IF T.w.fmt = "mdmf" THEN OwnCheckstring(T) ELSE T.w.cs.bytes
  IN IF e.val # want THEN Fail("T_get_checkstring") ELSE R("", img, ws, rs)

\* first clause that fails when image I is supposed to hold the share of writer T ("" = it does)
ImageHolds(T, I, fresh) ==
  LET H == DecodeHeader(I)
      P == T.w.P
      t == Table(P, T.w.lens)
      keyf == {"verification_key", "signature", "share_hash_chain", "block_hash_tree", "enc_privkey"}
      X(f) == RExtent(P.fmt, t, f)
  IN IF H.status # "ok" THEN "L_header_unreadable"
     ELSE IF H.fmt # P.fmt THEN "L_version_byte"
     ELSE IF H.seqnum # P.seqnum THEN "L_sequence_number"
     ELSE IF H.root # T.root THEN "L_root_hash"
     ELSE IF P.fmt = "sdmf" /\ H.salt # T.salt THEN "L_iv"
     ELSE IF <<H.k, H.n, H.segsize, H.datalen>> # <<P.k, P.n, P.segsize, P.datalen>> THEN "L_encoding_parameters"
     ELSE IF \E nm \in EntryNames(P.fmt) : H.offs[nm] # t[nm] THEN "L_offset_table"
     ELSE IF \E f \in keyf : Slice(I, X(f)[1], X(f)[2]) # T.vals[f] THEN "L_field_not_where_the_table_says"
     ELSE IF \E s \in T.segs :
                LET bx == BlockRExtent(P, t, s)
                IN Slice(I, bx[1], bx[2]) # (IF P.fmt = "sdmf" THEN T.blocks[s] ELSE Canon(T.salts[s] \o T.blocks[s]))
          THEN "L_block_not_where_the_table_says"
     ELSE IF ImgSize(I) < t.EOF \/ (fresh /\ ImgSize(I) # t.EOF) THEN "L_share_size"
     ELSE ""

OnlyTreeMissing(w) == "block_hash_tree" \notin w.put /\
                      {"enc_privkey", "share_hash_chain", "root_hash", "signature", "verification_key"} \subseteq w.put
VFinish(e) ==
  LET T == ws[e.w]
      rule == Rule(T.w, [what |-> "finish"])
      I2 == Img(e.img)
      strict == T.w.fmt = "mdmf"
  IN IF rule = "refuse" THEN
        (IF e.res = "ok" THEN Fail("W_finish_accepted_incomplete_share")
         ELSE IF Len(e.calls) # 0 THEN Fail("W_refused_finish_sent_something")
         ELSE IF I2 # img THEN Fail("W_refused_finish_changed_container")
         ELSE IF strict /\ e.res # "LayoutInvalid" /\ OnlyTreeMissing(T.w)
                 /\ ~Known("W_finish_without_tree_KeyError", "Finish") THEN Fail("W_finish_without_tree_KeyError")
         ELSE IF strict /\ e.res # "LayoutInvalid" /\ ~OnlyTreeMissing(T.w) THEN Fail("W_refusal_not_LayoutInvalid")
         ELSE R("", img, ws, rs))
     ELSE IF e.res # "ok" THEN Fail("W_refused_legal_call")
     ELSE IF Len(e.calls) # 1 THEN Fail("T_finish_is_one_test_and_set")
     ELSE LET c == e.calls[1]
              should == Matches(T.w, img)
              tvok == TestvOK(T.w, c.testv)
          IN IF c.shnums # <<T.w.shnum>> THEN Fail("T_other_share_addressed")
             ELSE IF ~tvok /\ T.w.cs.kind = "unset" /\ T.w.fmt = "sdmf" /\ T.toldEmpty /\ c.testv = <<<<0, 0, <<>>>>>>
                     /\ ~Known("T_sdmf_empty_checkstring", "Finish") THEN Fail("T_sdmf_empty_checkstring")
             ELSE IF ~tvok /\ T.w.cs.kind = "unset" /\ ~(T.w.fmt = "sdmf" /\ T.toldEmpty /\ c.testv = <<<<0, 0, <<>>>>>>)
                  THEN Fail("T_new_share_must_be_absent")
             ELSE IF ~tvok /\ T.w.cs.kind # "unset" THEN Fail("T_existing_share_checkstring")
             ELSE IF tvok /\ c.wrote # should THEN Fail("T_server_verdict")
             ELSE IF ~c.wrote THEN (IF I2 # img THEN Fail("T_rejected_write_changed_container") ELSE R("", img, ws, rs))
             ELSE LET h == ImageHolds(T, I2, ~img.exists)
                      T2 == IF T.w.fmt = "mdmf"
                            THEN [T EXCEPT !.w.written = TRUE, !.w.cs = [kind |-> "lit", bytes |-> OwnCheckstring(T)]]
                            ELSE T
                  IN IF h # "" THEN Fail(h)
                     ELSE R("", I2, With(ws, e.w, T2), [x \in {} |-> 0])

\* pack_prefix + pack_share: the string itself is the image (the harness also stores it in the slot)
VPack(e) ==
  LET T == ws[e.w]
      I2 == Img(e.img)
      h == ImageHolds(T, I2, TRUE)
  IN IF e.res # "ok" THEN Fail("L_pack_share_failed")
     ELSE IF h # "" THEN Fail(h)
     ELSE R("", I2, ws, [x \in {} |-> 0])

(* ------------------------------- readers -------------------------------------- *)
\* the chain is handed out as a dict: order is lost, and of two entries with one node number only one survives
ChainEq(v, want) ==
  LET ids == {want[i][1] : i \in 1..Len(want)}
  IN IF Cardinality(ids) = Len(want) THEN ToSet(v) = ToSet(want)
     ELSE {v[i][1] : i \in 1..Len(v)} = ids /\ ToSet(v) \subseteq ToSet(want)
ValEmpty(get, v) == IF get = "block" THEN Len(v[1]) = 0 ELSE Len(v) = 0
ValEq(get, H, v, want) ==
  IF get = "verinfo"
  THEN /\ <<v.seqnum, v.root, v.salt, v.segsize, v.datalen, v.k, v.n, v.prefix>> =
          <<want.seqnum, want.root, want.salt, want.segsize, want.datalen, want.k, want.n, want.prefix>>
       /\ \A nm \in EntryNames(H.fmt) : nm \in DOMAIN v.offs /\ v.offs[nm] = want.offs[nm]
  ELSE IF get = "sharehashes" THEN ChainEq(v, want)
  ELSE v = want

VRead(e) ==
  LET r == IF e.new THEN [pre |-> e.pre, everything |-> e.everything, hdr |-> FALSE] ELSE rs[e.r]
      V == IF r.everything THEN Truncate(img, r.pre) ELSE img
      H == IF r.everything /\ r.pre < MdmfHeaderLen THEN DecodeHeader(V) ELSE hd
      emptyNeeded == e.needed = "empty"
      okres == e.res.st = "ok"
      rs2 == With(rs, e.r, [r EXCEPT !.hdr = r.hdr \/ (okres /\ ~emptyNeeded)])
      Done == R("", img, ws, rs2)
  IN IF r.everything /\ Len(e.remote) # 0 THEN Fail("R_remote_read_although_data_is_everything")
     ELSE IF Len(e.remote) > (IF r.hdr THEN 1 ELSE 2) THEN Fail("R_more_round_trips_than_header_plus_field")
     ELSE IF H.status # "ok" THEN
          (IF e.get \in {"blockhashes", "sharehashes"} /\ emptyNeeded /\ okres THEN Done
           ELSE IF e.res.st = "bad" THEN Done
           ELSE IF okres THEN Fail("R_unreadable_header_not_rejected")
           ELSE Fail("R_unreadable_header_wrong_exception"))
     ELSE LET x == NeedExtent(H, e.get, e.seg)
              E == Expect(V, H, e.get, e.seg, emptyNeeded)
          IN IF ~e.force /\ Covered(r.pre, r.hdr, x) /\ x[2] >= x[1] /\ Len(e.remote) # 0 THEN Fail("R_remote_read_of_prefetched_bytes")
             ELSE IF e.res.st \notin {"ok", "bad"} THEN
                  (IF E.st = "bad|empty" /\ Known("R_backwards_table_exception", "Read") THEN Done
                   ELSE IF E.st = "bad|empty" THEN Fail("R_backwards_table_exception")
                   ELSE Fail("R_unexpected_exception"))
             ELSE IF E.st = "ok" /\ ~okres THEN Fail("R_rejected_readable_field")
             ELSE IF E.st = "bad" /\ okres THEN Fail("R_bad_share_not_rejected")
             ELSE IF E.st = "bad|empty" /\ okres /\ ~ValEmpty(e.get, e.res.val) THEN Fail("R_backwards_table_misparsed")
             ELSE IF E.st \in {"ok", "ok|bad"} /\ okres /\ ~ValEq(e.get, H, e.res.val, E.val) THEN
                  (IF e.get \in HeaderGets THEN Fail("R_header_value") ELSE Fail("R_field_is_not_what_the_table_denotes"))
             ELSE Done

\* unpack_share(data) on the bytes of the container (SDMF only, at least a header long)
VUnpack(e) ==
  LET H == hd
      okres == e.res.st = "ok"
  IN IF img.exists /\ ImgSize(img) >= SdmfHeaderLen /\ ByteAt(img, 0) # 0 THEN
        (IF e.res.st = "bad" THEN R("", img, ws, rs) ELSE Fail("U_unknown_version_not_rejected"))
     ELSE IF H.status # "ok" THEN Fail("harness_unpack_on_short_data")
     ELSE LET o == H.offs
              monotone == /\ SdmfHeaderLen <= o.signature /\ o.signature <= o.share_hash_chain
                          /\ o.share_hash_chain <= o.block_hash_tree /\ o.block_hash_tree <= o.share_data
                          /\ o.share_data <= o.enc_privkey /\ o.enc_privkey <= o.EOF
              G(get) == Expect(img, H, get, 0, FALSE)
          IN IF ImgSize(img) < o.EOF THEN (IF e.res.st = "bad" THEN R("", img, ws, rs) ELSE Fail("U_short_share_not_rejected"))
             ELSE IF ~monotone THEN (IF e.res.st \in {"ok", "bad"} THEN R("", img, ws, rs) ELSE Fail("U_unexpected_exception"))
             ELSE IF (o.block_hash_tree - o.share_hash_chain) % ShEntry # 0 \/ (o.share_data - o.block_hash_tree) % HashSize # 0
                  THEN (IF e.res.st = "bad" THEN R("", img, ws, rs) ELSE Fail("U_ragged_hashes_not_rejected"))
             ELSE IF ~okres THEN Fail("U_rejected_good_share")
             ELSE LET v == e.res.val IN
                  IF <<v.seqnum, v.root, v.salt, v.k, v.n, v.segsize, v.datalen>> #
                     <<H.seqnum, H.root, H.salt, H.k, H.n, H.segsize, H.datalen>> THEN Fail("U_header_value")
                  ELSE IF v.pubkey # G("verification_key").val \/ v.signature # G("signature").val
                          \/ v.enc_privkey # G("encprivkey").val \/ ~ChainEq(v.share_hash_chain, G("sharehashes").val)
                          \/ v.block_hash_tree # G("blockhashes").val
                          \/ v.share_data # Slice(img, o.share_data, o.enc_privkey) THEN Fail("U_field_is_not_what_the_table_denotes")
                  ELSE R("", img, ws, rs)

\* get_version_from_checkstring + unpack_sdmf_checkstring / unpack_mdmf_checkstring, and unpack_header for SDMF, on a
\* container that holds a complete header of a known version
VUnpackSmall(e) ==
  LET H == hd IN
  IF H.status # "ok" THEN Fail("harness_unpack_small_without_header")
  ELSE IF e.res.st # "ok" THEN Fail("U_checkstring_helpers_failed")
  ELSE LET v == e.res.val IN
       IF <<v.version, v.seqnum, v.root, v.salt>> # <<Version(H.fmt), H.seqnum, H.root, H.salt>> THEN Fail("U_checkstring_fields")
       ELSE IF H.fmt = "sdmf" /\
               (\/ <<v.hdr.version, v.hdr.seqnum, v.hdr.root, v.hdr.salt, v.hdr.k, v.hdr.n, v.hdr.segsize, v.hdr.datalen>> #
                     <<0, H.seqnum, H.root, H.salt, H.k, H.n, H.segsize, H.datalen>>
                \/ \E nm \in EntryNames("sdmf") : nm \notin DOMAIN v.hdr.offs \/ v.hdr.offs[nm] # H.offs[nm])
            THEN Fail("U_unpack_header")
       ELSE R("", img, ws, rs)

Verdict(e) ==
  CASE e.ev = "NewWriter" -> IF e.res = "ok" THEN R("", img, With(ws, e.w, TraceWriter(e)), rs) ELSE Fail("W_constructor_failed")
    [] e.ev = "Put"       -> VPut(e)
    [] e.ev = "SetCS"     -> VSetCS(e)
    [] e.ev = "GetCS"     -> VGetCS(e)
    [] e.ev = "Finish"    -> VFinish(e)
    [] e.ev = "Pack"      -> VPack(e)
    [] e.ev = "Read"      -> VRead(e)
    [] e.ev = "Unpack"    -> VUnpack(e)
    [] e.ev = "UnpackSmall" -> VUnpackSmall(e)
    [] e.ev = "Damage"    -> R("", Img(e.img), ws, [x \in {} |-> 0])
    [] e.ev = "Crash"     -> Fail("harness_unexpected_exception_" \o e.exc)
    [] OTHER              -> Fail("unknown_event")

TraceInit ==
  /\ tid \in 1..Len(Traces)
  /\ l = 1
  /\ bad = "none"
  /\ img = NoShare
  /\ ws = [x \in {} |-> 0]
  /\ rs = [x \in {} |-> 0]
  /\ hd = DecodeHeader(NoShare)

TraceNext ==
  /\ bad = "none"
  /\ l <= Len(Events)
  /\ \E v \in {Verdict(Ev)} :
       IF v.c = ""
       THEN /\ img' = v.img /\ ws' = v.ws /\ rs' = v.rs /\ l' = l + 1 /\ bad' = "none"
            /\ hd' = IF v.img = img THEN hd ELSE DecodeHeader(v.img)
            /\ (l = Len(Events) => PrintT(<<"VF_ACCEPT", tid, l>>))
       ELSE /\ bad' = v.c /\ UNCHANGED <<img, ws, rs, l, hd>>
            /\ PrintT(<<"VF_REJECT", tid, l, v.c>>)
  /\ UNCHANGED tid

TraceSpec == TraceInit /\ [][TraceNext]_tvars
TraceOK == bad = "none"
=============================================================================
