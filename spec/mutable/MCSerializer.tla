---------------------------- MODULE MCSerializer ----------------------------
(* Design-level model of MutableFileNode._do_serialized, shaped like the code:

     d = defer.Deferred()
     self._serializer.addCallback(lambda ignore: cb(...))                 -- entry "cb"
     self._serializer.addBoth(lambda res: eventually(d.callback, res))    -- entry "both"
     self._serializer.addErrback(log.err)                                 -- entry "eb"
     return d

   `chain` is the callback list of the one long-lived Deferred self._serializer,
   `cur` its current result (success or Failure), `active` the operations whose
   cb returned a Deferred that has not fired (the chain is paused on it).  Drain is
   twisted's _runCallbacks: entries run until the chain is empty or pauses.  A
   "cb" entry is skipped when the current result is a Failure (addCallback); a
   "both" entry always runs, schedules the delivery of the current result to the
   caller with eventually() and -- because eventually() returns None -- turns the
   current result into a success; an "eb" entry only runs on a Failure.

   An operation itself is a read-modify-write on the node: it takes a snapshot of
   the contents when it starts (servermap update + retrieve) and publishes
   Apply(op, snapshot) when it finishes; it may fail by itself (modifier raises,
   NoSuchChild/ExistingChild) or because of the grid (Fault outcomes; the new
   version may or may not have reached the servers).

   Mech selects the mechanism: "chain" is the code; "immediate" (cb invoked at
   once) and "noresume" (result only forwarded on success, Failure left in the
   chain) are the two classic ways to get it wrong, kept to show that the
   properties below are violated by them (run with expect_ok = FALSE).

   Properties, stated over ghost variables (reqd, started, fin, ret, ref, lost)
   and, as a refinement, by running the abstract serializer of Serializer.tla in
   lock step (A, bad). *)
EXTENDS Serializer

CONSTANTS N,        \* number of operations requested
          Kind,     \* "file" | "dir"
          Mech,     \* "chain" | "immediate" | "noresume"
          Faults    \* BOOLEAN: grid failures may hit an operation

Ids == 1..N

VARIABLES ops, reqd, chain, cur, active, started, fin, evq, ret, contents, snap, ref, lost, A, bad
vars == <<ops, reqd, chain, cur, active, started, fin, evq, ret, contents, snap, ref, lost, A, bad>>

Catalog(id) ==
  IF Kind = "file"
    THEN {[kind |-> "read"], [kind |-> "over", data |-> <<id>>],
          [kind |-> "mod", fn |-> "append", tok |-> id], [kind |-> "mod", fn |-> "raise", tok |-> id],
          [kind |-> "mod", fn |-> "noop", tok |-> id]}
    ELSE {[kind |-> "read"],
          [kind |-> "set", entries |-> [n \in {"a"} |-> id], ow |-> TRUE],
          [kind |-> "set", entries |-> [n \in {"a"} |-> id], ow |-> FALSE],
          [kind |-> "set", entries |-> [n \in {"a", "b"} |-> id], ow |-> TRUE],
          [kind |-> "del", name |-> "a"]}

C0 == IF Kind = "file" THEN <<0>> ELSE [n \in {"b"} |-> 0]

Init ==
  /\ ops = <<>> /\ reqd = <<>> /\ chain = <<>> /\ cur = "ok" /\ active = {} /\ started = <<>>
  /\ fin = [i \in Ids |-> "none"] /\ evq = {} /\ ret = [i \in Ids |-> "none"]
  /\ contents = C0 /\ snap = <<>> /\ ref = C0 /\ lost = FALSE
  /\ A = AInit(C0) /\ bad = ""

(* twisted's _runCallbacks on self._serializer.  st = [chain, cur, active, evq, startedop] *)
RECURSIVE Drain(_)
Drain(st) ==
  IF st.chain = <<>> \/ st.active # {} THEN st
  ELSE LET e == Head(st.chain)
           rest == [st EXCEPT !.chain = Tail(st.chain)]
       IN CASE e.t = "cb" ->
                 IF st.cur = "ok" THEN [rest EXCEPT !.active = {e.op}, !.startedop = e.op]   \* cb() returns a pending Deferred
                                  ELSE Drain(rest)                                           \* addCallback: skipped on Failure
            [] e.t = "both" -> Drain([rest EXCEPT !.evq = st.evq \cup {<<e.op, IF st.cur = "ok" THEN "ok" ELSE "err">>},
                                                  !.cur = "ok"])
            [] e.t = "cbfire" -> IF st.cur = "ok" THEN Drain([rest EXCEPT !.evq = st.evq \cup {<<e.op, "ok">>}])
                                                  ELSE Drain(rest)
            [] e.t = "eb" -> Drain([rest EXCEPT !.cur = "ok"])

Entries(id) ==
  IF Mech = "noresume" THEN << [t |-> "cb", op |-> id], [t |-> "cbfire", op |-> id] >>
  ELSE << [t |-> "cb", op |-> id], [t |-> "both", op |-> id], [t |-> "eb", op |-> id] >>

\* the abstract serializer of Serializer.tla run in lock step: Ab = [A, bad]
AbsStep(Ab, e) ==
  IF Ab.bad # "" THEN Ab
  ELSE LET X == Ab.A
           c == CASE e.e = "request" -> ARequestClause(X, e.id)
                  [] e.e = "start"   -> AStartClause(X, e.id)
                  [] e.e = "finish"  -> AFinishClause(X, e.id, e.st, e.faulty, e.res)
                  [] e.e = "return"  -> AReturnClause(X, e.id, e.st)
                  [] e.e = "none"    -> ""
       IN IF c # "" THEN [A |-> X, bad |-> c]
          ELSE [A |-> CASE e.e = "request" -> ARequest(X, e.id, e.o)
                        [] e.e = "start"   -> AStart(X, e.id)
                        [] e.e = "finish"  -> AFinish(X, e.id, e.st, e.faulty, e.res)
                        [] e.e = "return"  -> AReturn(X, e.id)
                        [] e.e = "none"    -> X,
                bad |-> ""]
StartEv(id) == IF id = 0 THEN [e |-> "none"] ELSE [e |-> "start", id |-> id]

\* (\E x \in {e} : ...) instead of LET x == e: TLC then evaluates e once
Request ==
  \E o \in Catalog(Len(reqd) + 1) :
  \E id \in {Len(reqd) + 1} :
  \E Ab1 \in {AbsStep([A |-> A, bad |-> bad], [e |-> "request", id |-> id, o |-> o])} :
    /\ id <= N
    /\ reqd' = Append(reqd, id)
    /\ ops' = Ext(ops, id, o)
    /\ IF Mech = "immediate"
         THEN /\ active' = active \cup {id}
              /\ started' = Append(started, id)
              /\ snap' = Ext(snap, id, contents)
              /\ \E Ab2 \in {AbsStep(Ab1, StartEv(id))} : A' = Ab2.A /\ bad' = Ab2.bad
              /\ UNCHANGED <<chain, cur, evq>>
         ELSE \E st \in {Drain([chain |-> chain \o Entries(id), cur |-> cur, active |-> active, evq |-> evq, startedop |-> 0])} :
              \E Ab2 \in {AbsStep(Ab1, StartEv(st.startedop))} :
              /\ chain' = st.chain /\ cur' = st.cur /\ active' = st.active /\ evq' = st.evq
              /\ A' = Ab2.A /\ bad' = Ab2.bad
              /\ IF st.startedop # 0
                   THEN started' = Append(started, st.startedop) /\ snap' = Ext(snap, st.startedop, contents)
                   ELSE UNCHANGED <<started, snap>>
    /\ UNCHANGED <<fin, ret, contents, ref, lost>>

\* outcomes of operation o started on snapshot s: <<status, applied, faulty>>
Outcomes(o, s) ==
  LET r == Apply(o, s) IN
  {<<r.st, r.st = "ok", FALSE>>} \cup
  (IF Faults THEN {<<"err", FALSE, TRUE>>} \cup (IF r.st = "ok" /\ r.pub THEN {<<"err", TRUE, TRUE>>} ELSE {}) ELSE {})

Finish ==
  \E id \in active : \E oc \in Outcomes(ops[id], snap[id]) :
  \E o \in {ops[id]} : \E st \in {oc[1]} :
  \E newc \in {IF oc[2] THEN Apply(o, snap[id]).c ELSE contents} :
  \E newref \in {IF oc[2] /\ Apply(o, ref).st = "ok" THEN Apply(o, ref).c ELSE ref} :
  \E Ab1 \in {AbsStep([A |-> A, bad |-> bad], [e |-> "finish", id |-> id, st |-> st, faulty |-> oc[3], res |-> snap[id]])} :
    /\ fin' = [fin EXCEPT ![id] = st]
    /\ contents' = newc
    /\ ref' = newref
    /\ lost' = (lost \/ (IsRead(o) /\ st = "ok" /\ snap[id] # ref))
    /\ IF Mech = "immediate"
         THEN /\ active' = active \ {id}
              /\ evq' = evq \cup {<<id, st>>}
              /\ A' = Ab1.A /\ bad' = Ab1.bad
              /\ UNCHANGED <<chain, cur, started, snap>>
         ELSE \E st2 \in {Drain([chain |-> chain, cur |-> (IF st = "ok" THEN "ok" ELSE "fail"), active |-> active \ {id},
                                 evq |-> evq, startedop |-> 0])} :
              \E Ab2 \in {AbsStep(Ab1, StartEv(st2.startedop))} :
              /\ chain' = st2.chain /\ cur' = st2.cur /\ active' = st2.active /\ evq' = st2.evq
              /\ A' = Ab2.A /\ bad' = Ab2.bad
              /\ IF st2.startedop # 0
                   THEN started' = Append(started, st2.startedop) /\ snap' = Ext(snap, st2.startedop, newc)
                   ELSE UNCHANGED <<started, snap>>
    /\ UNCHANGED <<ops, reqd, ret>>

\* foolscap eventually(d.callback, res): the caller gets its result in a later turn
Deliver ==
  \E p \in evq :
  \E Ab1 \in {AbsStep([A |-> A, bad |-> bad], [e |-> "return", id |-> p[1], st |-> p[2]])} :
    /\ evq' = evq \ {p}
    /\ ret' = [ret EXCEPT ![p[1]] = p[2]]
    /\ A' = Ab1.A /\ bad' = Ab1.bad
    /\ UNCHANGED <<ops, reqd, chain, cur, active, started, fin, contents, snap, ref, lost>>

Next == Request \/ Finish \/ Deliver
Spec == Init /\ [][Next]_vars /\ WF_vars(Finish) /\ WF_vars(Deliver)

(* ------------------------------- properties ------------------------------- *)
InProgress == {i \in ToSet(started) : fin[i] = "none"}

C13_Mutex == Cardinality(InProgress) <= 1
C13_FIFO == IsPrefixOf(started, reqd)
\* safety form of "a failed operation does not block later ones": never idle with a request waiting
C13_NoIdleWait == (InProgress = {}) => (Len(started) = Len(reqd))
\* liveness form (under weak fairness of Finish and Deliver): every request starts, finishes and is answered
C13_NoBlock == \A i \in Ids : (i \in ToSet(reqd)) ~> (ret[i] # "none")
\* the caller is told the status of its own operation
C13_OwnResult == \A i \in Ids : ret[i] # "none" => ret[i] = fin[i]
\* no edit is lost: the contents are those of the serial application, in request order, of the operations
\* that took effect, and every read saw exactly that
C13_NoLostEdit == ~lost /\ (InProgress = {} => contents = ref)
\* the code-shaped mechanism refines the abstract serializer used for trace validation
C13_Refines == bad = ""
\* when nothing can happen any more, the abstract serializer agrees that the system may be quiescent
C13_QuiescentDone == (Len(reqd) = N /\ active = {} /\ evq = {} /\ bad = "") => AQuiesceClause(A) = ""
=============================================================================
