--------------------------- MODULE GenMutableOps ---------------------------
(* GEN mode for C09: the Spec enumerates single-update cases (old size, offset,
   length) for the MDMF segment size of the harness together with the contents it
   expects afterwards and the class of the case; the driver replays them into the
   real code (create, update, download, partial reads) and the recorded events are
   validated by TraceMutableOps.  One TLC state per case. *)
EXTENDS MutableOps, Json, IOUtils, SequencesExt

CONSTANTS SS, MaxN, Lens

Old(n) == [i \in 1..n |-> (i % 7) + 1]
New(l) == [i \in 1..l |-> 9]

Class(n, o, l) ==
  IF ~HasStartSegment(Old(n), o, SS) THEN "append_at_segment_boundary"
  ELSE IF o = n THEN "append"
  ELSE IF o + l > n THEN "extend"
  ELSE IF o \div SS = (o + l - 1) \div SS THEN "inside_one_segment"
  ELSE "across_segments"

Cases == {[n |-> n, o |-> o, len |-> l, class |-> Class(n, o, l),
           pow2 |-> NextPow2(Max(1, NumSegs(n, SS))) # NextPow2(Max(1, NumSegs(Max(n, o + l), SS))),
           expect |-> RefUpdate(Old(n), New(l), o), old |-> Old(n), data |-> New(l)] :
            n \in 0..MaxN, o \in 0..MaxN, l \in Lens} 
GoodCases == {c \in Cases : c.o <= c.n /\ Len(c.expect) <= 64}

ASSUME ndJsonSerialize(IOEnv.OUT_FILE, SetToSeq(GoodCases))

VARIABLE c
Init == c \in GoodCases
Next == UNCHANGED c
Spec == Init /\ [][Next]_c
\* the expected contents satisfy the locality clause of the property
C09_UpdateLocal ==
  /\ Len(c.expect) = Max(c.n, c.o + c.len)
  /\ \A i \in 1..Len(c.expect) : IF i > c.o /\ i <= c.o + c.len THEN c.expect[i] = 9 ELSE c.expect[i] = c.old[i]
=============================================================================
