-------------------------- MODULE TraceSerializer --------------------------
(* Trace validation of real MutableFileNode / DirectoryNode executions against
   the abstract serializer of Serializer.tla.  harness/serializer_driver.py wraps
   MutableFileNode._do_serialized (class-wide, keyed by the node's cap string) and
   records, for one cap,
     Request(op, what was asked)   _do_serialized called
     Start(op)                     the chain invoked the operation's callable
     Finish(op, ok|err, res, faulty)  the callable's Deferred fired (res: contents a read returned,
                                   faulty: faults were injected while it ran)
     Return(op, ok|err)            the caller's Deferred fired
     Cancel(ops)                   the requester of these operations went away (Deferred.cancel())
     Quiesce                       nothing in flight, no timer pending
     Final(readable, c)            contents read back through an independent node object
   The verdict of an event is the first clause of Serializer.tla that fails. *)
EXTENDS Serializer, Json, IOUtils, TLCExt

Traces == JsonDeserialize(IOEnv.TRACE_FILE)

VARIABLES tid, l, A, can, bad
tvars == <<tid, l, A, can, bad>>

Events == Traces[tid].events
Ev == Events[l]

\* JSON objects come back as records; an empty object is the empty function
NormC(kind, c) == IF kind = "dir" THEN [n \in DOMAIN c |-> c[n]] ELSE c

NormOp(kind, e) ==
  CASE e.kind = "read"   -> [kind |-> "read"]
    [] e.kind = "smap"   -> [kind |-> "smap"]
    [] e.kind = "over"   -> [kind |-> "over", data |-> e.data]
    [] e.kind = "upload" -> [kind |-> "upload", data |-> e.data, smap |-> e.smap]
    [] e.kind = "mod"    -> [kind |-> "mod", fn |-> e.fn, tok |-> e.tok]
    [] e.kind = "set"    -> [kind |-> "set", entries |-> [n \in DOMAIN e.entries |-> e.entries[n]], ow |-> e.ow]
    [] e.kind = "del"    -> [kind |-> "del", name |-> e.name]

V(c, s) == [c |-> c, s |-> s]

Verdict(kind, e) ==
  CASE e.ev = "Request" -> LET c == ARequestClause(A, e.op) IN
                           IF c # "" THEN V(c, A) ELSE V("", ARequest(A, e.op, NormOp(kind, e)))
    [] e.ev = "Start"   -> LET c == IF e.op \notin DOMAIN A.ops THEN "C13_FIFO" ELSE AStartClause(A, e.op) IN
                           IF c # "" THEN V(c, A) ELSE V("", AStart(A, e.op))
    [] e.ev = "Finish"  -> LET res == NormC(kind, e.res)
                               c == AFinishClause(A, e.op, e.st, e.faulty, res) IN
                           IF c # "" THEN V(c, A) ELSE V("", AFinish(A, e.op, e.st, e.faulty, res))
    \* the requester of a cancelled request has its answer (CancelledError) at once; the operation itself is owed
    \* nothing less: it still starts in turn, runs alone and to its end
    [] e.ev = "Return"  -> IF e.op \in can THEN V("", AReturn(A, e.op))
                           ELSE LET c == AReturnClause(A, e.op, e.st) IN
                                IF c # "" THEN V(c, A) ELSE V("", AReturn(A, e.op))
    [] e.ev = "Cancel"  -> V("", A)
    [] e.ev = "Quiesce" -> V(AQuiesceClause(A), A)
    [] e.ev = "Final"   -> IF ~e.readable THEN V("C13_NoLostEdit_unreadable", A)
                           ELSE V(AFinalClause(A, NormC(kind, e.c)), A)
    [] OTHER            -> V("unknown_event", A)

TraceInit ==
  /\ tid \in 1..Len(Traces)
  /\ l = 1
  /\ A = AInit(NormC(Traces[tid].consts.kind, Traces[tid].consts.init))
  /\ can = {}
  /\ bad = "none"

TraceNext ==
  /\ bad = "none"
  /\ l <= Len(Events)
  /\ LET v == Verdict(Traces[tid].consts.kind, Ev) IN
       IF v.c = ""
         THEN /\ A' = v.s /\ l' = l + 1 /\ bad' = "none"
              /\ can' = IF Ev.ev = "Cancel" THEN can \cup ToSet(Ev.ops) ELSE can
              /\ (l = Len(Events) => PrintT(<<"VF_ACCEPT", tid, l>>))
         ELSE /\ bad' = v.c /\ UNCHANGED <<A, l, can>>
              /\ PrintT(<<"VF_REJECT", tid, l, v.c>>)
  /\ UNCHANGED tid

TraceSpec == TraceInit /\ [][TraceNext]_tvars
TraceOK == bad = "none"
=============================================================================
