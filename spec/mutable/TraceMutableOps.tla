-------------------------- MODULE TraceMutableOps --------------------------
(* Trace validation of one writer's operations on a real mutable file (C09)
   against the reference semantics of MutableOps.tla.  harness/mutops_driver.py
   records, per file,
     Create(fmt, data)                nodemaker.create_mutable_file
     Overwrite(data, st)              MutableFileNode.overwrite
     Modify(m, st)                    MutableFileNode.modify
     Update(data, o, st)              get_best_mutable_version().update(MutableData(data), o)
     Download(res, st)                MutableFileNode.download_best_version
     Read(o, n, res, st)              get_best_readable_version().read(consumer, o, n); n = -1: to the end
   st is "ok" or "err".  The verdict of an event is the first clause that fails. *)
EXTENDS MutableOps, Json, IOUtils, TLCExt

Traces == JsonDeserialize(IOEnv.TRACE_FILE)

VARIABLES tid, l, S, bad
tvars == <<tid, l, S, bad>>
\* S = [c: contents (reference), ns: ghost copy of MutableFileNode._most_recent_size as the code maintains it,
\*      taint: an MDMF in-place update ran while ns differed from the real size]
\* ns and taint never decide whether an event is accepted; they only name the class of a rejected one.

Events == Traces[tid].events
Ev == Events[l]
K == Traces[tid].consts

V(c, s) == [c |-> c, s |-> s]
NormM(m) == [fn |-> m.fn, data |-> m.data, n |-> m.n]
C == S.c
\* every operation starts with a servermap update; _get_servermap refreshes the cached size only if it is 0/None
Ns0 == IF S.ns = 0 THEN Len(C) ELSE S.ns
With(c, ns, taint) == [c |-> c, ns |-> ns, taint |-> taint]
Mismatch(base) == IF S.taint THEN base \o "_stale_size" ELSE base

\* Publish.update computes the new data length from the cached size: wrong iff this differs from the real one
WrongLength(e) == Max(Ns0, e.o + Len(e.data)) # Max(Len(C), e.o + Len(e.data))

Verdict(e) ==
  CASE e.ev = "Create" ->
         IF e.st # "ok" THEN V("C09_create_failed", S) ELSE V("", With(e.data, Len(e.data), FALSE))
    [] e.ev = "Overwrite" ->
         IF e.st # "ok" THEN V(Mismatch("C09_overwrite_failed"), S) ELSE V("", With(e.data, Len(e.data), FALSE))
    [] e.ev = "Modify" ->
         IF e.st # "ok" THEN V(Mismatch("C09_modify_failed"), S) ELSE V("", With(ModApply(C, NormM(e.m)), Ns0, S.taint))
    [] e.ev = "Update" ->
         IF e.o < 0 \/ e.o > Len(C) THEN V("harness_offset_outside_domain", S)
         ELSE IF e.st # "ok" THEN
              \* name the class of the failing input
              (IF K.fmt = "MDMF" /\ ~HasStartSegment(C, e.o, K.ss) THEN V("C09_update_failed_append_at_segment_boundary", S)
               ELSE IF K.fmt = "SDMF" /\ Len(C) = 0 THEN V("C09_update_failed_empty_sdmf_file", S)
               ELSE IF K.fmt = "MDMF" /\ (S.taint \/ WrongLength(e)) THEN V("C09_update_failed_stale_size", S)
               ELSE V("C09_update_failed", S))
         ELSE V("", With(RefUpdate(C, e.data, e.o), Ns0,
                         S.taint \/ (K.fmt = "MDMF" /\ HasStartSegment(C, e.o, K.ss) /\ WrongLength(e))))
    [] e.ev = "Download" ->
         IF e.st # "ok" THEN V(Mismatch("C09_download_failed"), S)
         ELSE IF e.res # C THEN
              (IF Len(e.res) # Len(C) THEN V(Mismatch("C09_ReadYourWrites_length"), S) ELSE V(Mismatch("C09_ReadYourWrites"), S))
         ELSE V("", With(C, Len(C), S.taint))
    [] e.ev = "Read" ->
         LET n == IF e.n < 0 THEN Len(C) - e.o ELSE e.n IN
         IF ~(e.n < 0 /\ e.o = Len(C)) /\ ~ReadDomain(C, e.o, n) THEN V("harness_read_outside_domain", S)
         ELSE IF e.st # "ok" THEN V(Mismatch("C09_read_failed"), S)
         ELSE IF e.res # RefRead(C, e.o, n) THEN V(Mismatch("C09_ReadYourWrites_partial_read"), S)
         ELSE V("", With(C, Ns0, S.taint))
    [] OTHER -> V("unknown_event", S)

TraceInit ==
  /\ tid \in 1..Len(Traces)
  /\ l = 1
  /\ S = With(<<>>, 0, FALSE)
  /\ bad = "none"

TraceNext ==
  /\ bad = "none"
  /\ l <= Len(Events)
  /\ LET v == Verdict(Ev) IN
       IF v.c = ""
         THEN /\ S' = v.s /\ l' = l + 1 /\ bad' = "none"
              /\ (l = Len(Events) => PrintT(<<"VF_ACCEPT", tid, l>>))
         ELSE /\ bad' = v.c /\ UNCHANGED <<S, l>>
              /\ PrintT(<<"VF_REJECT", tid, l, v.c>>)
  /\ UNCHANGED tid

TraceSpec == TraceInit /\ [][TraceNext]_tvars
TraceOK == bad = "none"
=============================================================================
