----------------------------- MODULE PublishPlan -----------------------------
(* The mutable publisher as a protocol towards the storage servers: from the servermap it
   is handed to the requests it sends, the answers it accepts, its result and the servermap
   it leaves behind.  (allmydata/mutable/publish.py: Publish.publish / update / update_goal /
   finish_publishing / _got_write_answer / _connection_problem / _push / _done / _failure;
   mutable/layout.py: the test vectors of SDMFSlotWriteProxy / MDMFSlotWriteProxy;
   mutable/filenode.py: MutableFileNode.upload, MutableFileVersion.update / modify.)

   This module EXTENDS the servermap vocabulary (ServermapModes -> MutableFile: versions
   [seq, rh], servermaps server -> shnum -> version, KnownShares, MaxSeq, Best, Recoverable)
   and re-uses the publisher operators of PublishProtocol.tla (C12 / C47) through an
   instance: UpdateGoal (share placement), SurpriseUnder (_got_write_answer), Expected
   (_push in DONE_STATE).  PublishProtocol starts every behaviour from the canonical placement
   of one version and abstracts a share to one version id; here the publisher starts from an
   arbitrary servermap over an arbitrary grid:

     * shares of several versions (older seqnums, a competitor with the same seqnum), several
       copies of a share number, missing share numbers, more shares than servers;
     * slots the map marks bad (no valid signature, or marked by a reader) with the
       checkstring that was recorded for them;
     * servers the map never heard of (unreachable, or beyond the MODE_WRITE boundary);
     * servers without upload permission (grid manager certificates);
     * a grid that changed after the survey (the map is out of date);
     * the seqnum of the new version; the servermap after the publish;
     * the in-place MDMF update (Publish.update) next to the full publish.

   Sources of the stated behaviour
     docs/specifications/mutable.rst  "use seqnum which is one higher than the old version"; "if share is
         not already present, allocate-and-set, otherwise try to modify existing share: send
         testv_and_writev"; testv_and_writev "is used to detect simultaneous writers, and to reduce the
         chance that an update will lose data recently written by some other party (written after the
         last time this slot was read)"; "if any servers wound up with a different version, report error to
         application"; "keep going until N servers have the same version, or we run out of servers";
         Recovery: "each client keeps writing until at least one version has N shares. This uses additional
         servers, if necessary"; "Use new servers if necessary".
     publish.py   class docstring "I will only publish my data if the servermap I am using still represents
         the current state of the world"; publish(): "we will push a version that is one larger than anything
         present in the grid, according to the servermap", "we use the servermap to populate the initial goal:
         this way we will try to update each existing share in place", "then we add in all the shares that
         were bad ... We want to replace these"; update_goal(): "if an old share X is on a node, put the new
         share X there too", the sort order; update(): "this process will not upload new shares",
         "since we're updating, we ignore damaged and missing shares -- callers must do a repair";
         _got_write_answer(): surprise shares, "our testv failed, so the write did not happen", "mark the
         server as bad (so we don't ask them again) ... The loop() will find a new server";
         "When self.placed == self.goal, we're done".
     servermap.py  ServerMap.add_new_share "We've written a new share out, replacing any that was there
         before"; mark_bad_share "... so that a repair operation can do the test-and-set using it as a
         reference".
     filenode.py   MutableFileVersion.modify docstring (the retry loop in pseudocode: "update_servermap;
         old = retrieve_best_version(); ... except UncoordinatedWriteError: backoffer; continue").
     docs/managed-grid.rst  "the client will only upload to a storage server that has a valid certificate".

   Checkstring codes.  What a server holds in a slot is abstracted to the code of the share's checkstring
   (seqnum, root hash[, IV]): 0 = no share, v = the genuine checkstring of version v (1 <= v < 100),
   v + 100*x (x >= 1) = a damaged copy of it (every damaged prefix has its own x).  A test vector is
   [kind, c]: "eq" (the share starts with checkstring c), "absent" (layout.py: (0, 1, b"") - nothing but
   the empty share passes), "none" (no test), "other".

   All operators are over explicit values: MCPublishPlan builds a model from them and
   TracePublishPlan judges recorded operations of the real code with them. *)
EXTENDS ServermapModes

PP == INSTANCE PublishProtocol

Genuine(c) == c > 0 /\ c < 100
NoCode == 0 - 1                    \* a checkstring that equals no stored one (a 75-byte specimen against a 57-byte read)
ShSeq == [i \in 1..N |-> i - 1]    \* share numbers ascending

(* ---- the servermap the publisher is handed --------------------------------------------
   M     server -> shnum -> version id (0 = no entry)           ServerMap.get_known_shares
   Bad   set of [s, sh, c]: slots marked bad with the code of the recorded checkstring   get_bad_shares
   reach servers whose answer the map update processed          get_reachable_servers *)
BadSlots(Bad) == {<<b.s, b.sh>> : b \in Bad}
BadCode(Bad, p) == (CHOOSE b \in Bad : b.s = p[1] /\ b.sh = p[2]).c
\* what the map believes slot p holds (a code; 0 = nothing)
MapSaw(M, Bad, p) == IF M[p[1]][p[2]] # 0 THEN M[p[1]][p[2]] ELSE IF p \in BadSlots(Bad) THEN BadCode(Bad, p) ELSE 0

\* publish(): "one larger than anything present in the grid, according to the servermap"
NewSeq(V, M) == MaxSeq(V, M) + 1

(* ---- the goal ---------------------------------------------------------------------------
   publish: every known and every bad slot is rewritten in place; homeless share numbers go round-robin over
   the servers that may be uploaded to, sorted by (slots already planned there, position in the permuted list).
   update:  the known shares only ("will not upload new shares"). *)
Eligible(ord, perm) == SelectSeq(ord, LAMBDA s : s \in perm)
Slots0(M, Bad) == KnownShares(M) \cup BadSlots(Bad)
Homeless(M, Bad) == Shnums \ {p[2] : p \in Slots0(M, Bad)}
PlanFails(M, Bad, ord, perm) == Homeless(M, Bad) # {} /\ Eligible(ord, perm) = <<>>   \* "Ran out of non-bad servers"
PublishGoalOf(M, Bad, ord, perm) ==
  IF Homeless(M, Bad) = {} THEN Slots0(M, Bad) ELSE PP!UpdateGoal(Slots0(M, Bad), Eligible(ord, perm), ShSeq)
\* the in-place update as documented: the shares of the version that is being updated
UpdateGoalDoc(M, base) == {p \in KnownShares(M) : M[p[1]][p[2]] = base}
\* ... and as written: every known share, whatever its version
UpdateGoalCode(M) == KnownShares(M)

\* the test vector of the proxy for slot p: the surveyed checkstring, the checkstring recorded for a bad slot, else "must not exist"
TestOf(M, Bad, p) ==
  IF MapSaw(M, Bad, p) # 0 THEN [kind |-> "eq", c |-> MapSaw(M, Bad, p)] ELSE [kind |-> "absent", c |-> 0]

(* ---- the server side: one read-test-write on one slot holding code c --------------------- *)
Passes(c, t) == CASE t.kind = "absent" -> c = 0
                  [] t.kind = "eq"     -> c # 0 /\ c = t.c
                  [] t.kind = "none"   -> TRUE
                  [] OTHER             -> FALSE
\* the read vector returned with the answer: the checkstring of every share the server held before the write
ReadsOf(Ls) == [sh \in {x \in DOMAIN Ls : Ls[x] # 0} |-> Ls[sh]]

(* ---- Publish._checkstring: what surprise shares are compared with ---------------------------
   MDMF proxies answer get_checkstring() with the checkstring they write, SDMF proxies with the one they test
   for; "some writer" depends on set order, so the Spec keeps the candidates.  A bad slot's specimen (75 bytes)
   never equals a checkstring read back (57 bytes). *)
CsCands(fmt, M, Bad, goal, newc) ==
  IF fmt = "MDMF" THEN {newc}
  ELSE {IF M[p[1]][p[2]] # 0 THEN M[p[1]][p[2]] ELSE IF p \in BadSlots(Bad) THEN NoCode ELSE 0 : p \in goal}

(* ---- the publisher while its requests are out ------------------------------------------------
   P = [goal, newc, pend, live, acked, sfor, cands] (live = self.writers, acked = answered "wrote",
   sfor = candidates under which self.surprised has been set) *)
Start(fmt, M, Bad, goal, newc) ==
  [goal |-> goal, newc |-> newc, pend |-> goal, live |-> goal, acked |-> {}, sfor |-> {},
   cands |-> CsCands(fmt, M, Bad, goal, newc)]
GotAnswer(P, s, sh, wrote, reads) ==
  [P EXCEPT !.pend = @ \ {<<s, sh>>},
            !.sfor = @ \cup {cs \in P.cands : PP!SurpriseUnder(P, s, sh, wrote, reads, cs)},
            !.acked = IF wrote THEN @ \cup {<<s, sh>>} ELSE @]
ConnProblem(P, s, sh) == [P EXCEPT !.pend = @ \ {<<s, sh>>}, !.live = @ \ {<<s, sh>>}]
\* the results the rules allow when every request has been answered
Results(P) == {PP!Expected(P, K, cs) : cs \in P.cands}
\* the servermap afterwards: add_new_share for every acknowledged write
MapAfter(M, P, newv) == [s \in DOMAIN M |-> [sh \in Shnums |-> IF <<s, sh>> \in P.acked THEN newv ELSE M[s][sh]]]
BadAfter(Bad, P) == {b \in Bad : <<b.s, b.sh>> \notin P.acked}

(* ---- the vocabulary of the properties (independent of the operators above) ---------------- *)
\* evidence of somebody else's write in one answer (besides a failed test): the server held a share outside this
\* publisher's goal whose version is neither the one being published nor one the survey had seen (C12: MetOther)
ForeignIn(M, Bad, goal, newc, s, reads) ==
  \E x \in DOMAIN reads : <<s, x>> \notin goal /\ reads[x] \notin ({newc} \cup VersIn(M))
\* the documented retry: a share number whose request failed moves to a server that has not been tried
Untried(ord, perm, tried) == SelectSeq(Eligible(ord, perm), LAMBDA s : s \notin tried)
=============================================================================
