------------------------- MODULE MCPublishProtocol -------------------------
(* Every interleaving of W concurrent publishers of one mutable file over NS
   storage servers (PublishProtocol.tla): map-update queries, read-test-write
   requests (executed, failed before execution, executed with the answer lost),
   answers, finish.  Properties C12 (test-and-set, detection, survival) and
   C47 (success guard, error when fewer than k) are stated over ghost variables
   that are maintained here from the raw server states and the raw answers,
   not from the publisher's own bookkeeping.

   Version ids: 1 = the version on the grid initially, w + 1 = writer w's. *)
EXTENDS PublishProtocol

CONSTANTS W,            \* number of writers
          Configs,      \* set of records [NS, N, K, Create, SurveyFaults, Faults, SplitAnswers, Fmt]: one TLC run explores them all
          Variant       \* "code" | "notest" (publisher sends no test vector) | "ignorefail" (publisher ignores wrote = FALSE)
(* a configuration:
     NS, N, K       number of servers, shares.total, shares.needed
     Create         TRUE: the file does not exist yet (initial publish)
     SurveyFaults   a map-update query may fail / not be awaited
     Faults         subset of {"none", "pre", "post"}: outcome of a delivered request (pre: fails before it is
                    executed; post: executed, the answer is replaced by a connection error)
     SplitAnswers   answers travel separately from the execution of the request
     Fmt            "SDMF" | "MDMF" (they differ in what Publish._checkstring holds) *)
CfgF(ns, n, k, create, sf, faults, split, fmt) ==
  [NS |-> ns, N |-> n, K |-> k, Create |-> create, SurveyFaults |-> sf, Faults |-> faults, SplitAnswers |-> split, Fmt |-> fmt]
Cfg(ns, n, k, create, sf, faults, split) == CfgF(ns, n, k, create, sf, faults, split, "MDMF")
AllF == {"none", "pre", "post"}
\* named configuration sets (selected in the .cfg by  Configs <- Name)
C12Quick == {Cfg(3, 3, 1, FALSE, FALSE, {"none"}, TRUE), Cfg(3, 3, 2, FALSE, FALSE, {"none"}, FALSE)}
C12Tiny1 == {Cfg(3, 3, 1, FALSE, FALSE, {"none"}, FALSE)}
C12Tiny2F == {Cfg(3, 3, 2, FALSE, FALSE, {"none", "pre"}, FALSE)}
C12Thorough == {Cfg(3, 3, 2, FALSE, FALSE, {"none"}, TRUE), Cfg(4, 4, 1, FALSE, FALSE, {"none"}, TRUE),
                Cfg(3, 4, 1, FALSE, FALSE, {"none"}, TRUE), Cfg(4, 3, 1, FALSE, FALSE, {"none"}, TRUE),
                Cfg(3, 3, 1, FALSE, TRUE, AllF, FALSE), CfgF(3, 3, 2, FALSE, TRUE, AllF, FALSE, "SDMF")}
C12W3 == {Cfg(3, 3, 1, FALSE, FALSE, {"none"}, FALSE), Cfg(3, 3, 2, FALSE, FALSE, {"none"}, FALSE)}
C47Quick == {CfgF(ns, 3, 2, cr, ~cr, AllF, TRUE, fmt) : ns \in 1..3, cr \in BOOLEAN, fmt \in {"SDMF", "MDMF"}}
C47Thorough == {CfgF(ns, 3, 2, cr, ~cr, AllF, TRUE, fmt) : ns \in 1..5, cr \in BOOLEAN, fmt \in {"SDMF", "MDMF"}}
               \cup {CfgF(4, 4, 2, cr, ~cr, AllF, TRUE, fmt) : cr \in BOOLEAN, fmt \in {"SDMF", "MDMF"}}
C47W2 == {CfgF(3, 3, 2, FALSE, FALSE, AllF, FALSE, fmt) : fmt \in {"SDMF", "MDMF"}}

VARIABLES c,        \* the configuration of this behaviour (chosen in Init, constant along it)
          srv,      \* server -> Storage state
          wr,       \* writer -> writer record
          pick,     \* writer -> which candidate Publish._checkstring holds
          ans,      \* writer -> answers on their way back
          g_met,    \* ghost: writer was shown evidence of another write (failed test / share outside its goal)
          g_acked,  \* ghost: (s, sh) whose write the server reported done, as processed by the writer
          g_stored  \* ghost: (s, sh) that at some moment held the writer's version on the server
vars == <<c, srv, wr, pick, ans, g_met, g_acked, g_stored>>

Writers == 1..W
Servers == 1..c.NS
Shn == 0..(c.N - 1)
Order == [i \in 1..c.NS |-> i]
ShOrder == [i \in 1..c.N |-> i - 1]
NewV(w) == w + 1
N == c.N
K == c.K
Create == c.Create
SurveyFaults == c.SurveyFaults
Faults == c.Faults
SplitAnswers == c.SplitAnswers

InitLayout == UpdateGoal({}, Order, ShOrder)      \* where the creation put the N shares
Init ==
  /\ c \in Configs
  /\ srv = [s \in Servers |-> ServerWith([sh \in Shn |-> IF ~Create /\ <<s, sh>> \in InitLayout THEN 1 ELSE 0])]
  /\ wr = [w \in Writers |-> [W0(Servers, Shn) EXCEPT !.phase = "survey"]]
  /\ pick = [w \in Writers |-> 0]
  /\ ans = [w \in Writers |-> {}]
  /\ g_met = [w \in Writers |-> FALSE]
  /\ g_acked = [w \in Writers |-> {}]
  /\ g_stored = [w \in Writers |-> {}]

TestOf(ws, s, sh) == IF Variant = "notest" THEN [kind |-> "none", v |-> 0] ELSE TestFor(ws, s, sh)

\* the writer processes answer a (ghosts are computed from the raw answer)
Process(w, ws, a) ==
  /\ wr' = [wr EXCEPT ![w] = IF a.kind = "err" THEN ConnProblem(ws, a.s, a.sh)
                             ELSE GotAnswer(ws, a.s, a.sh, IF Variant = "ignorefail" THEN TRUE ELSE a.wrote, a.reads)]
  /\ g_met' = [g_met EXCEPT ![w] = @ \/ (a.kind = "ok" /\ MetOther(ws, a.s, a.wrote, a.reads))]
  /\ g_acked' = [g_acked EXCEPT ![w] = IF a.kind = "ok" /\ a.wrote THEN @ \cup {<<a.s, a.sh>>} ELSE @]

Survey(w, s) ==
  /\ ~Create /\ wr[w].phase = "survey" /\ wr[w].seen[s].st = "todo"
  /\ wr' = [wr EXCEPT ![w] = SurveyAnswer(@, s, VerMap(srv[s]))]
  /\ UNCHANGED <<pick, c, srv, ans, g_met, g_acked, g_stored>>

SurveySkip(w, s) ==
  /\ SurveyFaults /\ ~Create /\ wr[w].phase = "survey" /\ wr[w].seen[s].st = "todo"
  /\ wr' = [wr EXCEPT ![w].seen[s].st = "skipped"]
  /\ UNCHANGED <<pick, c, srv, ans, g_met, g_acked, g_stored>>

StartPublish(w) ==
  /\ wr[w].phase = "survey"
  /\ Create \/ \A s \in Servers : wr[w].seen[s].st # "todo"
  /\ IF Create \/ SeenRecoverable(wr[w], K)
       THEN LET ps == PublishStart(wr[w], UpdateGoal(Known(wr[w]), Order, ShOrder), NewV(w), c.Fmt)
            IN \E cs \in ps.cands : /\ wr' = [wr EXCEPT ![w] = ps]           \* "some writer"
                                     /\ pick' = [pick EXCEPT ![w] = cs]
       ELSE wr' = [wr EXCEPT ![w] = Finished(@, "Unrecoverable")] /\ UNCHANGED pick
  /\ UNCHANGED <<c, srv, ans, g_met, g_acked, g_stored>>

Deliver(w, p, f) ==
  LET s == p[1]
      sh == p[2]
      ws == wr[w]
      t == TestOf(ws, s, sh)
      T == IF f = "pre" THEN srv[s] ELSE ServerRTW(srv[s], sh, t, ws.newv)
      a == IF f = "none" THEN [s |-> s, sh |-> sh, kind |-> "ok", wrote |-> ServerRTWStatus(srv[s], sh, t, ws.newv) = "ok", reads |-> PreReads(srv[s])]
           ELSE [s |-> s, sh |-> sh, kind |-> "err", wrote |-> FALSE, reads |-> <<>>]
  IN /\ ws.phase = "write" /\ p \in ws.pend
     /\ UNCHANGED <<c, pick>>
     /\ srv' = [srv EXCEPT ![s] = T]
     /\ g_stored' = [x \in Writers |-> g_stored[x] \cup {<<s, y>> : y \in {z \in Shn : Ver(T, z) = NewV(x) /\ Ver(srv[s], z) # NewV(x)}}]
     /\ IF SplitAnswers
          THEN /\ wr' = [wr EXCEPT ![w] = Delivered(ws, s, sh)]
               /\ ans' = [ans EXCEPT ![w] = @ \cup {a}]
               /\ UNCHANGED <<g_met, g_acked>>
          ELSE /\ Process(w, Delivered(ws, s, sh), a)
               /\ UNCHANGED ans

Answer(w, a) ==
  /\ a \in ans[w]
  /\ ans' = [ans EXCEPT ![w] = @ \ {a}]
  /\ Process(w, wr[w], a)
  /\ UNCHANGED <<c, pick, srv, g_stored>>

Finish(w) ==
  /\ wr[w].phase = "write" /\ wr[w].pend = {} /\ ans[w] = {}
  /\ wr' = [wr EXCEPT ![w] = Finished(@, Expected(@, K, pick[w]))]
  /\ UNCHANGED <<pick, c, srv, ans, g_met, g_acked, g_stored>>

Next ==
  \E w \in Writers :
    \/ \E s \in Servers : Survey(w, s) \/ SurveySkip(w, s)
    \/ StartPublish(w)
    \/ \E p \in wr[w].pend : \E f \in Faults : Deliver(w, p, f)
    \/ \E a \in ans[w] : Answer(w, a)
    \/ Finish(w)

Spec == Init /\ [][Next]_vars

(* ------------------------------ properties ------------------------------ *)
AllDone == \A w \in Writers : wr[w].phase = "done"
Published(w) == wr[w].newv # 0

\* C12: a share changes only to the version of a publishing writer w, and only if it still held what w saw
\* on that server (or did not exist)
C12_TAS ==
  [][\A s \in Servers : \A sh \in Shn :
        Ver(srv'[s], sh) # Ver(srv[s], sh) =>
          \E w \in Writers : /\ wr[w].phase = "write" /\ Ver(srv'[s], sh) = NewV(w)
                             /\ Ver(srv[s], sh) \in {SeenOf(wr[w], s, sh), 0}]_vars
\* C12: a writer that was shown another write finishes with UncoordinatedWriteError
C12_Detect == \A w \in Writers : (wr[w].phase = "done" /\ g_met[w]) => wr[w].res = "UCWE"
\* C12: nobody stopped midway and (W+1)k <= N: some version (old or new) has k distinct share numbers
C12_Survive == (AllDone /\ ~Create /\ (W + 1) * K <= N) => RecoverableSet(srv, K) # {}
\* the same without the bound: expected to be violated when (W+1)k > N (shows the bound matters)
C12_SurviveWithoutBound == (AllDone /\ ~Create) => RecoverableSet(srv, K) # {}

\* C47: success is claimed only with k distinct share numbers acknowledged and nothing unexpected met
C47_SuccessGuard ==
  [][\A w \in Writers : (wr'[w].res = "ok" /\ wr[w].res = "none") =>
        /\ Cardinality({p[2] : p \in g_acked[w]}) >= K
        /\ ~g_met[w]]_vars
\* C47: what was acknowledged had been stored
C47_AckStored == \A w \in Writers : g_acked[w] \subseteq g_stored[w]
\* C47: with a single writer a successful publish leaves the new version recoverable
C47_Recoverable == W = 1 => \A w \in Writers : wr[w].res = "ok" => Recoverable(srv, NewV(w), K)
\* C47: fewer than k share numbers placed -> an error is reported
C47_ErrorWhenFew == \A w \in Writers : (wr[w].phase = "done" /\ Published(w) /\ Cardinality({p[2] : p \in g_acked[w]}) < K)
                                         => wr[w].res \in {"NotEnough", "UCWE"}
\* C47: the publisher always reaches a verdict once every request is answered
C47_Reports == \A w \in Writers : (wr[w].phase = "write" /\ wr[w].pend = {} /\ ans[w] = {}) => ENABLED Finish(w)

TypeOK == \A w \in Writers : /\ wr[w].phase \in {"survey", "write", "done"}
                            /\ wr[w].res \in {"none", "ok", "UCWE", "NotEnough", "Unrecoverable"}
                            /\ wr[w].live \subseteq wr[w].goal /\ wr[w].acked \subseteq wr[w].goal
=============================================================================
