--------------------------- MODULE MCMutableLayout ---------------------------
(* The call protocol of the MDMF / SDMF write proxies as a machine: any sequence of put_* calls (with two lengths
   per field, right and wrong block sizes) and finish_publishing against the rule of MutableLayout.tla (Rule / Put).
   Every accepted put queues a write at the offset the proxy can derive at that moment (MDMF; an SDMF writer
   only collects pieces).  The machine checks that the rule is *sufficient and necessary for the reason the
   layout comment gives*: each offset is the previous one plus a length, so

     W_FieldsIntact     when finish_publishing is accepted, every field lies exactly where the final offset table
                        says and no later write of another field (or of an older length) touches it
     W_FinishComplete   finish_publishing is accepted only when every field of the share has been put
     W_OffsetsStable    a length that an already placed field was derived from never changes afterwards
     W_RefuseIsSilent   a refused call queues nothing and leaves the writer as it was
     W_CanFinish        (not a dead protocol) from every state the documented order still completes the share
   The constant Weaken drops one clause of the rule ("none" = the rule itself) to show that the properties are
   not vacuous: with any other value TLC finds a violation (W_OffsetsStable first, it is the shallowest; W_FieldsIntact
   deeper; W_FinishComplete for "finish_without_tree"). *)
EXTENDS MutableLayout

CONSTANTS Fmts, MaxCalls, Weaken

VARIABLES W,        \* the writer (MutableLayout!NewWriter)
          ext,      \* field -> <<from, to>> of its latest accepted put, <<-1, -1>> when not put    (ghost)
          dirty,    \* fields whose latest put has been written over since                           (ghost)
          frozen,   \* [lens of the moment a dependent field was placed], per length name, -1 = free  (ghost)
          last,     \* what happened in the last step: [call, verdict]                                (ghost)
          n
vars == <<W, ext, dirty, frozen, last, n>>

Neg == 0 - 1
Ps == {[fmt |-> f, k |-> 2, n |-> 3, segsize |-> 4, datalen |-> IF f = "sdmf" THEN 4 ELSE 7, seqnum |-> 1] : f \in Fmts}

\* two lengths where a later offset depends on the length, one where none does
Calls(P) ==
  {[what |-> "encprivkey", len |-> x] : x \in {3, 5}} \cup
  {[what |-> "signature", len |-> x] : x \in {2, 4}} \cup
  {[what |-> "verification_key", len |-> 2]} \cup
  {[what |-> "blockhashes", cnt |-> 2]} \cup
  {[what |-> "sharehashes", cnt |-> x] : x \in {1, 2}} \cup
  {[what |-> "root_hash", len |-> x] : x \in {HashSize, HashSize - 1}} \cup
  {[what |-> "block", seg |-> 0, dlen |-> BlockLen(P, 0), slen |-> SaltSize],
   [what |-> "block", seg |-> 0, dlen |-> BlockLen(P, 0) + 1, slen |-> SaltSize],
   [what |-> "block", seg |-> NumSegs(P), dlen |-> BlockLen(P, 0), slen |-> SaltSize]} \cup
  {[what |-> "finish"]}

PFor == [f \in Fmts |-> CHOOSE P \in Ps : P.fmt = f]
CallsFor == [f \in Fmts |-> Calls(PFor[f])]          \* constant: evaluated once

\* the rule under test (Weaken removes one guard)
RuleW(w, c) ==
  LET r == Rule(w, c) IN
  IF Weaken = "encprivkey_after_chain" /\ c.what = "encprivkey" THEN "accept"
  ELSE IF Weaken = "chain_after_signature" /\ c.what = "sharehashes" /\ "enc_privkey" \in w.put THEN "accept"
  ELSE IF Weaken = "signature_after_key" /\ c.what = "signature" /\ "share_hash_chain" \in w.put /\ "root_hash" \in w.put THEN "accept"
  ELSE IF Weaken = "finish_without_tree" /\ c.what = "finish" /\ "verification_key" \in w.put THEN "accept"
  ELSE r

\* where the proxy writes an accepted put: MDMF knows the offset from what was put before, SDMF assembles at the end
WriteExtent(w, c) ==
  LET t == Table(w.P, w.lens) IN
  IF w.fmt = "sdmf" THEN <<Neg, Neg>>
  ELSE CASE c.what = "encprivkey"       -> <<t.enc_privkey, t.enc_privkey + c.len>>
         [] c.what = "sharehashes"      -> <<t.share_hash_chain, t.share_hash_chain + ShEntry * c.cnt>>
         [] c.what = "signature"        -> <<t.signature, t.signature + c.len>>
         [] c.what = "verification_key" -> <<t.verification_key, t.verification_key + c.len>>
         [] c.what = "blockhashes"      -> <<t.block_hash_tree, t.block_hash_tree + HashSize * c.cnt>>
         [] OTHER -> <<Neg, Neg>>
Overlap(a, b) == a[1] < b[2] /\ b[1] < a[2]
KeyFields == {"enc_privkey", "share_hash_chain", "signature", "verification_key", "block_hash_tree"}
\* the length name each field's own length is kept under, and the lengths its offset is derived from
OwnLen(f) == CASE f = "enc_privkey" -> "epk" [] f = "share_hash_chain" -> "nsh" [] f = "signature" -> "sig"
               [] f = "verification_key" -> "vk" [] f = "block_hash_tree" -> "nbh"
DerivedFrom(fmt, f) ==
  IF fmt = "sdmf" THEN {}
  ELSE CASE f = "share_hash_chain" -> {"epk"} [] f = "signature" -> {"epk", "nsh"}
         [] f = "verification_key" -> {"epk", "nsh", "sig"} [] OTHER -> {}

Init ==
  /\ \E P \in Ps : W = NewWriter(P, 0)
  /\ ext = [f \in KeyFields |-> <<Neg, Neg>>]
  /\ dirty = {}
  /\ frozen = [x \in {"epk", "nsh", "sig", "vk", "nbh"} |-> Neg]
  /\ last = [call |-> [what |-> "none"], verdict |-> "none"]
  /\ n = 0

Do(c) ==
  LET r == RuleW(W, c)
      verdict == IF r = "either" THEN "accept" ELSE r        \* the implementation accepts what no offset forbids
  IN /\ n < MaxCalls
     /\ n' = n + 1
     /\ last' = [call |-> c, verdict |-> verdict]
     /\ IF verdict = "refuse" \/ c.what = "finish"
        THEN UNCHANGED <<W, ext, dirty, frozen>>
        ELSE LET f == PutName(c.what)
                 x == WriteExtent(W, c)
             IN /\ W' = Put(W, c)
                /\ IF f \in KeyFields
                   THEN /\ ext' = [ext EXCEPT ![f] = x]
                        /\ dirty' = (dirty \ {f}) \cup {g \in KeyFields \ {f} : ext[g][1] >= 0 /\ Overlap(x, ext[g])}
                        /\ frozen' = [y \in DOMAIN frozen |-> IF y \in DerivedFrom(W.fmt, f) /\ frozen[y] = Neg
                                                              THEN W.lens[y] ELSE frozen[y]]
                   ELSE UNCHANGED <<ext, dirty, frozen>>

Next == \E c \in CallsFor[W.fmt] : Do(c)
Spec == Init /\ [][Next]_vars

(* ------------------------------- properties ---------------------------------- *)
Finished == last.call.what = "finish" /\ last.verdict = "accept"
FinalExtent(f) == RExtent(W.fmt, Table(W.P, W.lens), f)

W_FieldsIntact ==
  (Finished /\ W.fmt = "mdmf") => /\ dirty = {}
                                  /\ \A f \in KeyFields : ext[f] = FinalExtent(f)
W_FinishComplete ==
  Finished => {"enc_privkey", "share_hash_chain", "signature", "verification_key", "block_hash_tree", "root_hash"} \subseteq W.put
W_OffsetsStable == \A y \in DOMAIN frozen : frozen[y] # Neg => W.lens[y] = frozen[y]
W_RefuseIsSilent == [][last'.verdict = "refuse" => UNCHANGED <<W, ext, dirty>>]_vars
\* the documented order is always still possible: what is missing can be put in layout order
Missing == {"enc_privkey", "block_hash_tree", "share_hash_chain", "root_hash", "signature", "verification_key"} \ W.put
NextInOrder ==
  LET ord == <<"encprivkey", "blockhashes", "sharehashes", "root_hash", "signature", "verification_key">>
      todo == SelectSeq(ord, LAMBDA x : PutName(x) \in Missing)
  IN IF Len(todo) = 0 THEN "finish" ELSE todo[1]
W_CanFinish == W.fmt = "mdmf" => \E c \in CallsFor[W.fmt] : c.what = NextInOrder /\ Rule(W, c) # "refuse"
=============================================================================
