---------------------------- MODULE TraceMutableFile ----------------------------
(* Trace validation of real mutable-file operations against MutableFile.tla.

   A trace (harness/mutread_driver.py) carries the ground truth the harness built:
   the version table (published versions, versions fabricated with another key)
   and, in "Layout" events, which share of which version sits on which server and
   which of its fields were tampered with.  The other events are observations of
   the real code: every servermap update ("Map": mode, the servers whose answers
   were processed, the shares it accepted, best_recoverable_version()), and the
   result of download_best_version ("Read"), check ("Check"), repair ("Repair")
   and overwrite ("Publish").  The verdict for an event is the name of the first
   clause of C10/C11/C14 that does not hold ("" = accepted). *)
EXTENDS MutableFile, Json, IOUtils, TLCExt

Traces == JsonDeserialize(IOEnv.TRACE_FILE)

VARIABLES tid, l, S, bad
tvars == <<tid, l, S, bad>>

C == Traces[tid].consts
Events == Traces[tid].events
Ev == Events[l]
V == SubSeq(C.vers, 1, S.nv)     \* the versions that exist at this point: sequence of [seq, rh, content, signer]
Srv == ToSet(C.servers)

NormL(j) == [s \in Srv |-> [sh \in Shnums |->
               IF s \in DOMAIN j /\ ToString(sh) \in DOMAIN j[s]
                 THEN [v |-> j[s][ToString(sh)].v, cls |-> j[s][ToString(sh)].cls] ELSE Absent]]
NormM(j) == [s \in Srv |-> [sh \in Shnums |->
               IF s \in DOMAIN j /\ ToString(sh) \in DOMAIN j[s] THEN j[s][ToString(sh)] ELSE 0]]

R(c, s) == [c |-> c, s |-> s]

PublishedContents == {V[v].content : v \in OwnerVersions(V)}
IntactShnums(L, v, Q) == {sh \in Shnums : \E s \in Q : L[s][sh] = [v |-> v, cls |-> "intact"]}
Available(L, Q) == Newest(V) # 0 /\ Cardinality(IntactShnums(L, Newest(V), Q)) >= K

\* structural cause of an availability failure, so that a known defect does not hide others
HasOffsBad(L, up) == \E s \in up, sh \in Shnums : L[s][sh].cls = "offsbad"
HasDupCorrupt(L, up) == \E sh \in Shnums : \E s1, s2 \in up :
    s1 # s2 /\ Present(L[s1][sh]) /\ Present(L[s2][sh]) /\ L[s1][sh].v = L[s2][sh].v /\ MayAccept(V, L[s1][sh]) /\ ~BodyValid(L[s1][sh])
Cause(L, up) == IF HasOffsBad(L, up) THEN "_offsets_variant"
                ELSE IF HasDupCorrupt(L, up) THEN "_dup_shnum_corrupt_copy" ELSE ""

VLayout(e) == R("", [L |-> NormL(e.L), up |-> ToSet(e.up), maps |-> <<>>, nv |-> e.nv])

VMap(e) ==
  LET M == NormM(e.M)
      Q == ToSet(e.Q)
      L == S.L
  IN IF ~(Q \subseteq S.up) THEN R("harness_query_outside_up", S)
     ELSE IF \E s \in Srv, sh \in Shnums : M[s][sh] # 0 /\ ~(s \in Q /\ MayAccept(V, L[s][sh]) /\ M[s][sh] = L[s][sh].v)
          THEN R("C10_map_accepts_invalid", S)
     ELSE IF \E s \in Q, sh \in Shnums : MustAccept(V, L[s][sh]) /\ M[s][sh] # L[s][sh].v
          THEN R("C10_map_drops_valid", S)
     ELSE IF e.mode = "READ" /\ Q # S.up /\ (Cardinality(Q) < 2 * K \/ Recoverable(M) = {})
          THEN R("C11_KeepLooking_too_few", S)
     ELSE IF e.mode = "READ" /\ Q # S.up /\ UnrecNewer(V, M) # {}
          THEN R("C11_KeepLooking_newer_known", S)
     ELSE IF e.mode \in {"CHECK", "REPAIR"} /\ Q # S.up
          THEN R("C14_survey_not_complete", S)
     ELSE IF e.best # Best(V, M) THEN R("C11_best_not_max", S)
     ELSE R("", [S EXCEPT !.maps = Append(S.maps, [mode |-> e.mode, Q |-> Q, M |-> M])])

VRead(e) ==
  LET maps == S.maps
      m1 == maps[1]
      ml == maps[Len(maps)]
      L == S.L
      cause == Cause(L, S.up)
      T == [S EXCEPT !.maps = <<>>]
      b == Best(V, ml.M)
  IN IF maps = <<>> \/ m1.mode # "READ" THEN R("harness_no_read_map", S)
     ELSE IF e.res.kind = "livelock" THEN R("C10_read_never_returns" \o cause, S)
     ELSE IF e.res.kind = "data" THEN
          (IF e.res.content \notin PublishedContents THEN R("C10_OnlyPublished", S)
           ELSE IF Available(L, m1.Q) /\ e.res.content # V[Newest(V)].content THEN R("C10_Available" \o cause, S)
           ELSE IF b = 0 \/ V[b].content # e.res.content THEN R("C11_ReadBest", S)
           ELSE IF ~RetrieveMaybe(L, ml.M, b) THEN R("C10_read_used_invalid_shares", S)
           ELSE R("", T))
     ELSE \* error
          (IF Available(L, m1.Q) THEN R("C10_Available" \o cause, S)
           ELSE IF RetrieveOK(L, ml.M, b) THEN R("C11_read_error_unexplained" \o cause, S)
           ELSE R("", T))

LastOfMode(maps, mode) ==
  LET idx == {i \in 1..Len(maps) : maps[i].mode = mode} IN IF idx = {} THEN 0 ELSE SetMax(idx)

VCheck(e) ==
  LET i == LastOfMode(S.maps, "CHECK")
      M == S.maps[i].M
      outs == CheckOutcomes(V, S.L, M, e.verify)
      cause == IF HasDupCorrupt(S.L, S.up) THEN "_dup_shnum_corrupt_copy" ELSE ""
      T == [S EXCEPT !.maps = <<>>]
  IN IF i = 0 THEN R("harness_no_check_map", S)
     ELSE IF e.res = "livelock" THEN R("C14_check_never_returns" \o cause, S)
     ELSE IF e.healthy /\ (TRUE \notin {o.healthy : o \in outs}) THEN R("C14_Health_false_healthy" \o cause, S)
     ELSE IF ~e.healthy /\ (FALSE \notin {o.healthy : o \in outs}) THEN R("C14_Health_false_unhealthy" \o cause, S)
     ELSE IF [healthy |-> e.healthy, recoverable |-> e.recoverable] \notin outs THEN R("C14_recoverable_flag", S)
     ELSE R("", T)

VRepair(e) ==
  LET maps == S.maps
      Mr == maps[1].M
      dec == RepairDecision(V, Mr, e.force)
      b == Best(V, Mr)
      j == LastOfMode(maps, "READ")
      retr == j # 0 /\ b \in Recoverable(maps[j].M) /\ RetrieveOK(S.L, maps[j].M, b)
      cause == IF HasDupCorrupt(S.L, S.up) THEN "_dup_shnum_corrupt_copy" ELSE ""
      T == [S EXCEPT !.maps = <<>>]
  IN IF maps = <<>> \/ maps[1].mode # "REPAIR" THEN R("harness_no_repair_map", S)
     ELSE IF dec = "mustforce" /\ e.res # "mustforce" THEN
          (IF UnrecNewer(V, Mr) # {} THEN R("C14_NoDiscardNewer", S) ELSE R("C14_NoPickCompetitor", S))
     ELSE IF e.res = "mustforce" /\ dec # "mustforce" THEN R("C14_refused_without_cause", S)
     ELSE IF e.res # "ok" /\ e.post.changed THEN R("C14_failed_repair_changed_shares", S)
     ELSE IF dec = "unsuccessful" /\ e.res # "unsuccessful" THEN R("C14_unsuccessful_flag", S)
     ELSE IF e.res = "unsuccessful" /\ dec # "unsuccessful" THEN R("C14_unsuccessful_flag", S)
     ELSE IF e.res = "livelock" THEN R("C14_repair_never_returns" \o cause, S)
     ELSE IF dec = "go" /\ e.res = "error" THEN
          (IF retr THEN R("C14_repair_failed_unexpectedly" \o cause, S) ELSE R("", T))
     ELSE IF dec = "go" /\ e.res = "ok" THEN
          (IF e.post.content # V[b].content THEN R("C14_RepairPreserves_content", S)
           ELSE IF e.post.nnew # N THEN R("C14_RepairPreserves_shares", S)
           ELSE IF e.post.newseq <= MaxSeq(V, Mr) THEN R("C14_RepairPreserves_seq", S)
           ELSE IF e.post.stale # 0 THEN R("C14_RepairPreserves_stale_left", S)
           ELSE R("", T))
     ELSE R("", T)

VPublish(e) ==
  LET i == LastOfMode(S.maps, "WRITE")
      Q == S.maps[i].Q
      T == [S EXCEPT !.maps = <<>>]
  IN IF e.res # "ok" THEN R("", T)
     ELSE IF i = 0 THEN R("harness_no_write_map", S)
     ELSE IF \E s \in Q, sh \in Shnums : MustAccept(V, S.L[s][sh]) /\ V[S.L[s][sh].v].seq >= e.newseq
          THEN R("C11_Monotone", S)
     ELSE IF e.newseq # MaxSeq(V, S.maps[i].M) + 1 THEN R("C11_Monotone_successor", S)
     ELSE R("", T)

Verdict(e) ==
  CASE e.ev = "Layout"  -> VLayout(e)
    [] e.ev = "Map"     -> VMap(e)
    [] e.ev = "Read"    -> VRead(e)
    [] e.ev = "Check"   -> VCheck(e)
    [] e.ev = "Repair"  -> VRepair(e)
    [] e.ev = "Publish" -> VPublish(e)
    [] OTHER            -> R("unknown_event", S)

TraceInit ==
  /\ tid \in 1..Len(Traces)
  /\ l = 1
  /\ S = [L |-> [s \in ToSet(Traces[tid].consts.servers) |-> [sh \in Shnums |-> Absent]], up |-> {}, maps |-> <<>>, nv |-> 0]
  /\ bad = "none"

TraceNext ==
  /\ bad = "none"
  /\ l <= Len(Events)
  /\ LET r == Verdict(Ev) IN
     IF r.c = ""
       THEN /\ S' = r.s /\ l' = l + 1 /\ bad' = "none"
            /\ (l = Len(Events) => PrintT(<<"VF_ACCEPT", tid, l>>))
       ELSE /\ bad' = r.c /\ UNCHANGED <<S, l>>
            /\ PrintT(<<"VF_REJECT", tid, l, r.c>>)
  /\ UNCHANGED tid

TraceSpec == TraceInit /\ [][TraceNext]_tvars
TraceOK == bad = "none"
=============================================================================
