---------------------------- MODULE TraceMutableFile ----------------------------
(* Trace validation of real mutable-file operations against MutableFile.tla.

   A trace (harness/mutread_driver.py) carries the ground truth the harness built:
   the version table (published versions, versions fabricated with another key)
   and, in "Layout" events, which share of which version sits on which server and
   which of its fields were tampered with.  The other events are observations of
   the real code: every servermap update ("Map": mode, the servers whose answers
   were processed, the shares it accepted, best_recoverable_version()), and the
   result of download_best_version ("Read"), check ("Check"), repair ("Repair")
   and overwrite ("Publish").  The verdict for an event is the name of the first
   clause of C10/C11/C14 that does not hold ("" = accepted). *)
EXTENDS MutableFile, Json, IOUtils, TLCExt

Traces == JsonDeserialize(IOEnv.TRACE_FILE)

VARIABLES tid, l, S, bad
tvars == <<tid, l, S, bad>>

C == Traces[tid].consts
Events == Traces[tid].events
Ev == Events[l]
V == SubSeq(C.vers, 1, S.nv)     \* the versions that exist at this point: sequence of [seq, rh, content, signer]
Srv == ToSet(C.servers)

NormL(j) == [s \in Srv |-> [sh \in Shnums |->
               IF s \in DOMAIN j /\ ToString(sh) \in DOMAIN j[s]
                 THEN [v |-> j[s][ToString(sh)].v, cls |-> j[s][ToString(sh)].cls] ELSE Absent]]
NormM(j) == [s \in Srv |-> [sh \in Shnums |->
               IF s \in DOMAIN j /\ ToString(sh) \in DOMAIN j[s] THEN j[s][ToString(sh)] ELSE 0]]

CONSTANT Focus       \* "C10" | "C11" | "C14": clauses of the other properties do not stop the replay; "ALL": every clause does
R(p, c, s) == [p |-> p, c |-> IF p = "harness" THEN c ELSE p \o "_" \o c, s |-> s]
OK(s) == [p |-> "", c |-> "", s |-> s]
Rel(p) == Focus = "ALL" \/ p = Focus

PublishedContents == {V[v].content : v \in OwnerVersions(V)}
IntactShnums(L, v, Q) == {sh \in Shnums : \E s \in Q : L[s][sh] = [v |-> v, cls |-> "intact"]}
CleanFor(L, v, s) == \A sh \in Shnums : (MayAccept(V, L[s][sh]) /\ L[s][sh].v = v) => BodyValid(L[s][sh])
CleanIntactShnums(L, v, Q) == {sh \in Shnums : \E s \in Q : L[s][sh] = [v |-> v, cls |-> "intact"] /\ CleanFor(L, v, s)}
Available(L, Q) == Newest(V) # 0 /\ Cardinality(CleanIntactShnums(L, Newest(V), Q)) >= K

\* structural cause of an availability failure, so that a known defect does not hide others
HasOffsBad(L, up) == \E s \in up, sh \in Shnums : L[s][sh].cls = "offsbad"
HasDupCorrupt(L, up) == \E sh \in Shnums : \E s1, s2 \in up :
    s1 # s2 /\ MayAccept(V, L[s1][sh]) /\ MayAccept(V, L[s2][sh]) /\ L[s1][sh].v = L[s2][sh].v /\ ~BodyValid(L[s1][sh])
Cause(L, up) == IF HasOffsBad(L, up) THEN "_offsets_variant"
                ELSE IF HasDupCorrupt(L, up) THEN "_dup_shnum_corrupt_copy" ELSE ""
MidDup(M, L) == \E sh \in Shnums : \E s1, s2 \in DOMAIN M :
    s1 # s2 /\ M[s1][sh] # 0 /\ M[s1][sh] = M[s2][sh] /\ (~BodyValid(L[s1][sh]) \/ ~MayAccept(V, L[s1][sh]))
LiveCause(L, up) == IF HasDupCorrupt(L, up) THEN "_dup_shnum_corrupt_copy"
                    ELSE IF HasOffsBad(L, up) THEN "_offsets_variant" ELSE ""

\* (keepmaps: the layout changed in the middle of an operation, after its survey - a server that serves something else at the
\* second request: the maps recorded so far stay with the operation, which is judged against the layout it ends on)
VLayout(e) == OK([L |-> NormL(e.L), up |-> ToSet(e.up),
                  maps |-> IF "keepmaps" \in DOMAIN e /\ e.keepmaps THEN S.maps ELSE <<>>, nv |-> e.nv])

VMap(e) ==
  LET M == NormM(e.M)
      Q == ToSet(e.Q)
      L == S.L
      oc == IF HasOffsBad(L, S.up) THEN "_offsets_variant" ELSE ""
      T == [S EXCEPT !.maps = Append(S.maps, [mode |-> e.mode, Q |-> Q, M |-> M])]
  IN IF ~(Q \subseteq S.up) THEN R("harness", "harness_query_outside_up", S)
     ELSE IF Rel("C10") /\ \E s \in Srv, sh \in Shnums : M[s][sh] # 0 /\ ~(s \in Q /\ MayAccept(V, L[s][sh]) /\ M[s][sh] = L[s][sh].v)
          THEN R("C10", "map_accepts_invalid", T)
     ELSE IF Rel("C10") /\ \E s \in Q, sh \in Shnums : MustAccept(V, L[s][sh]) /\ M[s][sh] # L[s][sh].v
          THEN R("C10", "map_drops_valid", T)
     ELSE IF Rel("C11") /\ e.mode = "READ" /\ Q # S.up /\ (Cardinality(Q) < 2 * K \/ Recoverable(M) = {})
          THEN R("C11", "KeepLooking_too_few", T)
     ELSE IF Rel("C11") /\ e.mode = "READ" /\ Q # S.up /\ UnrecNewer(V, M) # {}
          THEN R("C11", "KeepLooking_newer_known", T)
     ELSE IF Rel("C14") /\ e.mode \in {"CHECK", "REPAIR"} /\ Q # S.up
          THEN R("C14", "survey_not_complete", T)
     ELSE IF Rel("C11") /\ e.best # Best(V, M) THEN R("C11", "best_not_max" \o oc, T)
     ELSE OK(T)

VRead(e) ==
  LET maps == S.maps
      m1 == maps[1]
      ml == maps[Len(maps)]
      L == S.L
      cause == Cause(L, S.up)
      T == [S EXCEPT !.maps = <<>>]
      b == Best(V, ml.M)
  IN IF maps = <<>> \/ m1.mode # "READ" THEN R("harness", "harness_no_read_map", S)
     \* (a time-of-tamper read: the cause "one share number accepted from two servers, one copy then fails validation" is read off
     \* the map of the read's own survey, the layout having changed since)
     ELSE IF Rel("C10") /\ (e.res.kind = "livelock") THEN
          R("C10", "read_never_returns" \o (IF "mid" \in DOMAIN e /\ e.mid /\ MidDup(ml.M, L) THEN "_dup_shnum_corrupt_copy" ELSE LiveCause(L, S.up)), T)
     \* a read during which the servers changed what they serve (after the survey): which bytes the reader had fetched before
     \* the change is not observable, so only the statement itself is judged - what is returned is a published version
     ELSE IF "mid" \in DOMAIN e /\ e.mid THEN
          (IF Rel("C10") /\ e.res.kind = "data" /\ (e.res.content \notin PublishedContents) THEN R("C10", "OnlyPublished_time_of_tamper", T)
           \* a share that only vanished after the survey (nothing else changed): if k clean intact shares of the newest
           \* version are still on the surveyed servers (L is the layout after the change), the read delivers that version
           ELSE IF Rel("C10") /\ "vanish" \in DOMAIN e /\ e.vanish /\ Available(L, m1.Q)
                   /\ (e.res.kind # "data" \/ e.res.content # V[Newest(V)].content) THEN R("C10", "Available_after_vanish", T)
           ELSE OK(T))
     ELSE IF e.res.kind = "data" THEN
          (IF Rel("C10") /\ (e.res.content \notin PublishedContents) THEN R("C10", "OnlyPublished", T)
           ELSE IF Rel("C10") /\ (Available(L, m1.Q) /\ e.res.content # V[Newest(V)].content) THEN R("C10", "Available" \o cause, T)
           ELSE IF Rel("C11") /\ (b = 0 \/ V[b].content # e.res.content) THEN R("C11", "ReadBest", T)
           ELSE IF Rel("C10") /\ (~RetrieveMaybe(L, ml.M, b)) THEN R("C10", "read_used_invalid_shares", T)
           ELSE OK(T))
     ELSE \* error
          (IF Rel("C10") /\ (Available(L, m1.Q)) THEN R("C10", "Available" \o cause, T)
           ELSE IF Rel("C11") /\ (RetrieveOK(L, ml.M, b)) THEN R("C11", "read_error_unexplained" \o cause, T)
           ELSE OK(T))

LastOfMode(maps, mode) ==
  LET idx == {i \in 1..Len(maps) : maps[i].mode = mode} IN IF idx = {} THEN 0 ELSE SetMax(idx)

VCheck(e) ==
  LET i == LastOfMode(S.maps, "CHECK")
      M == S.maps[i].M
      outs == CheckOutcomes(V, S.L, M, e.verify)
      \* structural causes of the two known verify defects; a plain check (verify = FALSE) never gets a suffix
      cause == IF ~e.verify THEN ""
               ELSE IF HasDupCorrupt(S.L, S.up) THEN "_dup_shnum_corrupt_copy"
               ELSE IF Best(V, M) # 0 /\ Cardinality(MustFlag(S.L, M, Best(V, M))) >= 2 THEN "_verify_skips_after_corrupt"
               ELSE ""
      T == [S EXCEPT !.maps = <<>>]
  IN IF i = 0 THEN R("harness", "harness_no_check_map", S)
     ELSE IF Rel("C14") /\ (e.res = "livelock") THEN R("C14", "check_never_returns" \o cause, T)
     ELSE IF Rel("C14") /\ (e.healthy /\ (TRUE \notin {o.healthy : o \in outs})) THEN R("C14", "Health_false_healthy" \o cause, T)
     ELSE IF Rel("C14") /\ (~e.healthy /\ (FALSE \notin {o.healthy : o \in outs})) THEN R("C14", "Health_false_unhealthy" \o cause, T)
     ELSE IF Rel("C14") /\ ([healthy |-> e.healthy, recoverable |-> e.recoverable] \notin outs) THEN R("C14", "recoverable_flag" \o cause, T)
     ELSE OK(T)

MidWrite(e) == IF "midwrite" \in DOMAIN e THEN e.midwrite ELSE 0
VRepair(e) ==
  LET maps == S.maps
      Mr == maps[1].M
      dec == RepairDecision(V, Mr, e.force)
      b == Best(V, Mr)
      j == LastOfMode(maps, "READ")
      retr == j # 0 /\ b \in Recoverable(maps[j].M) /\ RetrieveOK(S.L, maps[j].M, b)
      cause == IF HasDupCorrupt(S.L, S.up) THEN "_dup_shnum_corrupt_copy" ELSE ""
      T == [S EXCEPT !.maps = <<>>]
  IN IF maps = <<>> \/ maps[1].mode # "REPAIR" THEN R("harness", "harness_no_repair_map", S)
     ELSE IF Rel("C14") /\ dec = "mustforce" /\ e.res # "mustforce" THEN
          (IF UnrecNewer(V, Mr) # {} THEN R("C14", "NoDiscardNewer", T) ELSE R("C14", "NoPickCompetitor", T))
     ELSE IF Rel("C14") /\ (e.res = "mustforce" /\ dec # "mustforce") THEN R("C14", "refused_without_cause", T)
     \* midwrite: a second client's complete overwrite (version e.midwrite, registered in V) landed while the repairer's writes
     \* were on the wire.  The repair may fail; whatever it reports, the newer contents are what the file holds afterwards
     ELSE IF MidWrite(e) # 0 THEN
          (IF Rel("C14") /\ e.res = "ok" /\ e.post.content # V[MidWrite(e)].content THEN R("C14", "NoDiscardNewer_concurrent_overwrite", T)
           ELSE OK(T))
     ELSE IF Rel("C14") /\ (e.res # "ok" /\ e.post.changed) THEN R("C14", "failed_repair_changed_shares", T)
     ELSE IF Rel("C14") /\ (dec = "unsuccessful" /\ e.res # "unsuccessful") THEN R("C14", "unsuccessful_flag", T)
     ELSE IF Rel("C14") /\ (e.res = "unsuccessful" /\ dec # "unsuccessful") THEN R("C14", "unsuccessful_flag", T)
     ELSE IF Rel("C14") /\ (e.res = "livelock") THEN R("C14", "repair_never_returns" \o cause, T)
     \* midfault: a server stopped answering between the repairer's survey and its download - the repair may fail (then
     \* nothing changed) or succeed without that server; if it succeeds the contents are those of the version it chose
     ELSE IF dec = "go" /\ e.res = "error" THEN
          (IF Rel("C14") /\ (retr) /\ e.midfault = "" THEN R("C14", "repair_failed_unexpectedly" \o cause, T) ELSE OK(T))
     ELSE IF dec = "go" /\ e.res = "ok" THEN
          (IF Rel("C14") /\ (e.post.content # V[b].content) THEN R("C14", "RepairPreserves_content", T)
           ELSE IF e.midfault # "" THEN OK(T)
           ELSE IF Rel("C14") /\ (e.post.nnew # N) THEN R("C14", "RepairPreserves_shares", T)
           ELSE IF Rel("C14") /\ (e.post.newseq <= MaxSeq(V, Mr)) THEN R("C14", "RepairPreserves_seq", T)
           ELSE IF Rel("C14") /\ (e.post.stale # 0) THEN R("C14", "RepairPreserves_stale_left", T)
           ELSE OK(T))
     ELSE OK(T)

VPublish(e) ==
  LET i == LastOfMode(S.maps, "WRITE")
      Q == S.maps[i].Q
      T == [S EXCEPT !.maps = <<>>]
  IN IF e.res # "ok" THEN OK(T)
     ELSE IF i = 0 THEN R("harness", "harness_no_write_map", S)
     ELSE IF Rel("C11") /\ \E s \in Q, sh \in Shnums : MustAccept(V, S.L[s][sh]) /\ V[S.L[s][sh].v].seq >= e.newseq
          THEN R("C11", "Monotone", T)
     ELSE IF Rel("C11") /\ (e.newseq # MaxSeq(V, S.maps[i].M) + 1) THEN R("C11", "Monotone_successor", T)
     ELSE OK(T)

Verdict(e) ==
  CASE e.ev = "Layout"  -> VLayout(e)
    [] e.ev = "Map"     -> VMap(e)
    [] e.ev = "Read"    -> VRead(e)
    [] e.ev = "Check"   -> VCheck(e)
    [] e.ev = "Repair"  -> VRepair(e)
    [] e.ev = "Publish" -> VPublish(e)
    [] OTHER            -> R("harness", "unknown_event", S)

TraceInit ==
  /\ tid \in 1..Len(Traces)
  /\ l = 1
  /\ S = [L |-> [s \in ToSet(Traces[tid].consts.servers) |-> [sh \in Shnums |-> Absent]], up |-> {}, maps |-> <<>>, nv |-> 0]
  /\ bad = "none"

TraceNext ==
  /\ bad = "none"
  /\ l <= Len(Events)
  /\ LET r == Verdict(Ev) IN
     IF r.c = ""
       THEN /\ S' = r.s /\ l' = l + 1 /\ bad' = "none"
            /\ (l = Len(Events) => PrintT(<<"VF_ACCEPT", tid, l>>))
       ELSE /\ bad' = r.c /\ UNCHANGED <<S, l>>
            /\ PrintT(<<"VF_REJECT", tid, l, r.c>>)
  /\ UNCHANGED tid

TraceSpec == TraceInit /\ [][TraceNext]_tvars
TraceOK == bad = "none"
=============================================================================
