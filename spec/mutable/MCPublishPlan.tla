---------------------------- MODULE MCPublishPlan ----------------------------
(* One mutable publish (Publish.publish) or in-place update (Publish.update) from an arbitrary servermap
   over an arbitrary grid, built from the operators of PublishPlan.tla:

     setup     any layout of at most MaxShares shares (codes CellCodes: versions 1 = seq1, 2 = seq2, 3 = a
               competitor with seq2, 10v = version v with a damaged prefix) over NumServers servers (the
               permuted order is 1, 2, ...), any set of at most MaxUnperm servers without upload permission
     Survey    the map update reached all but at most MaxUnreached servers: genuine shares enter the map,
               damaged ones are recorded as bad; up to MaxMarks known shares are marked bad by the caller
     Interfere up to MaxInterf times somebody else changes a slot (a share of the competitor appears or
               replaces what was there, a share vanishes) - after the survey, before or between the writes
     Start     goal, test vectors, new seqnum (PublishPlan)
     Deliver   one request: executed and answered / failed before execution ("pre") / executed, answer lost
               ("post"); at most MaxFaults failures.  Loop = "doc": a share whose request failed moves to the
               next server that has not been tried (the retry the documents describe), Loop = "code": it does not
               (the code as written)
     Finish    result (ok / UCWE / NotEnough) and the servermap afterwards

   The new version has id 4.  UpdateRule = "doc": an in-place update touches the shares of the version it
   updates; "code": every known share (as written) - a share of another version rewritten in place is not a
   valid share (cell.ok = FALSE).

   The properties are stated over the raw grid, the raw answers (the ghost variables) and the servermap afterwards,
   not over the publisher's bookkeeping. *)
EXTENDS PublishPlan

CONSTANTS NumServers, CellCodes, BadCodes, MaxShares, Ops, Fmts, MaxUnperm, MaxUnreached, MaxInterf, MaxFaults, MaxMarks,
          Feats,         \* subset of {"plain", "unreached", "interf", "faults", "retry", "perm", "bad"}: a behaviour explores ONE of
                         \* these dimensions ("retry" = failing requests with the documented retry loop)
          Combine,       \* TRUE: every behaviour explores all dimensions at once (the product; thorough tier)
          Loop,          \* "code" | "doc"
          UpdateRule,    \* "code" | "doc"
          Order          \* "fixed" (requests are delivered in slot order, changes of the grid happen before the writes) | "any"

VARIABLES cfg,      \* [op, fmt, feat] of this behaviour
          L,        \* server -> shnum -> [c, ok]: checkstring code on disk, share validates
          perm,     \* servers with upload permission
          mp,       \* [M, Bad, reach]: the servermap the publisher is handed
          phase,    \* "setup" | "surveyed" | "writing" | "done"
          P,        \* the publisher (PublishPlan.Start) + tried: servers it has sent a request to
          newseq, res, mafter, base,
          nint, nmark, act,
          g_failed,   \* ghost: some answer said "test failed"
          g_foreign,  \* ghost: some answer showed a share outside the goal of a version the publisher neither writes nor saw
          g_faults,   \* ghost: requests that ended in a connection error
          g_stored    \* ghost: slots that held the new version at some moment
vars == <<cfg, L, perm, mp, phase, P, newseq, res, mafter, base, nint, nmark, act, g_failed, g_foreign, g_faults, g_stored>>

Servers == 1..NumServers
Ord == [i \in 1..NumServers |-> i]
Slots == Servers \X Shnums
NewV == 4
V3 == << [seq |-> 1, rh |-> 1, content |-> 1, signer |-> "owner"], [seq |-> 2, rh |-> 1, content |-> 2, signer |-> "owner"],
         [seq |-> 2, rh |-> 2, content |-> 3, signer |-> "owner"] >>
VAll == Append(V3, [seq |-> newseq, rh |-> 1, content |-> 4, signer |-> "owner"])
Cell(c) == [c |-> c, ok |-> TRUE]
Codes(s) == [sh \in Shnums |-> L[s][sh].c]
EmptyP == [goal |-> {}, newc |-> 0, pend |-> {}, live |-> {}, acked |-> {}, sfor |-> {}, cands |-> {}, tried |-> {}]
sent == phase \in {"writing", "done"} /\ P.goal # {}
\* the bound of dimension f in this behaviour
Lim(f, max) == IF Combine \/ cfg.feat = f \/ (f = "faults" /\ cfg.feat = "retry") THEN max ELSE 0
DocLoop == Loop = "doc" \/ cfg.feat = "retry"

Init ==
  /\ cfg \in [op : Ops, fmt : Fmts, feat : Feats]
  /\ (cfg.op = "update" => cfg.fmt = "MDMF")            \* SDMF files are never updated in place
  /\ \E S \in SUBSET Slots : /\ Cardinality(S) <= MaxShares
                             /\ \E f \in [S -> CellCodes \cup (IF Combine \/ cfg.feat = "bad" THEN BadCodes ELSE {})] :
                                  L = [s \in Servers |-> [sh \in Shnums |-> IF <<s, sh>> \in S THEN Cell(f[<<s, sh>>]) ELSE Cell(0)]]
  /\ \E U \in SUBSET Servers : Cardinality(U) <= Lim("perm", MaxUnperm) /\ perm = Servers \ U
  /\ mp = [M |-> EmptyMap(Servers), Bad |-> {}, reach |-> {}]
  /\ phase = "setup" /\ P = EmptyP /\ newseq = 0 /\ res = "" /\ mafter = EmptyMap(Servers) /\ base = 0
  /\ nint = 0 /\ nmark = 0 /\ act = "init"
  /\ g_failed = FALSE /\ g_foreign = FALSE /\ g_faults = 0 /\ g_stored = {}

Survey ==
  /\ phase = "setup"
  /\ \E R \in SUBSET Servers :
       /\ Cardinality(Servers \ R) <= Lim("unreached", MaxUnreached)
       /\ mp' = [M |-> [s \in Servers |-> [sh \in Shnums |-> IF s \in R /\ Genuine(L[s][sh].c) THEN L[s][sh].c ELSE 0]],
                 Bad |-> {[s |-> p[1], sh |-> p[2], c |-> L[p[1]][p[2]].c] : p \in {q \in R \X Shnums : L[q[1]][q[2]].c >= 100}},
                 reach |-> R]
  /\ phase' = "surveyed" /\ act' = "survey"
  /\ UNCHANGED <<cfg, L, perm, P, newseq, res, mafter, base, nint, nmark, g_failed, g_foreign, g_faults, g_stored>>

\* the caller marks a share of the map bad (a reader found it invalid): checkstring = the version's own
MarkBad ==
  /\ phase = "surveyed" /\ nmark < Lim("bad", MaxMarks) /\ cfg.op = "publish"
  /\ \E p \in KnownShares(mp.M) :
       mp' = [mp EXCEPT !.M = MarkBadM(mp.M, p[1], p[2]), !.Bad = @ \cup {[s |-> p[1], sh |-> p[2], c |-> mp.M[p[1]][p[2]]]}]
  /\ nmark' = nmark + 1 /\ act' = "mark"
  /\ UNCHANGED <<cfg, L, perm, phase, P, newseq, res, mafter, base, nint, g_failed, g_foreign, g_faults, g_stored>>

Interfere ==
  /\ phase \in (IF Order = "any" THEN {"surveyed", "writing"} ELSE {"surveyed"}) /\ nint < Lim("interf", MaxInterf)
  /\ \E p \in Slots : \E c \in {0, 3} :
       /\ L[p[1]][p[2]].c # c
       /\ L' = [L EXCEPT ![p[1]][p[2]] = Cell(c)]
  /\ nint' = nint + 1 /\ act' = "interfere"
  /\ UNCHANGED <<cfg, perm, mp, phase, P, newseq, res, mafter, base, nmark, g_failed, g_foreign, g_faults, g_stored>>

GiveUp(r) ==
  /\ phase' = "done" /\ res' = r /\ act' = "giveup"
  /\ UNCHANGED <<cfg, L, perm, mp, P, newseq, mafter, nint, nmark, g_failed, g_foreign, g_faults, g_stored>>

\* Start of PublishPlan plus `tried`: the servers this publisher has sent a request to
StartT(fmt, M, Bad, goal, newc) == Start(fmt, M, Bad, goal, newc) @@ [tried |-> {p[1] : p \in goal}]

Begin(goal) ==
  /\ newseq' = NewSeq(V3, mp.M)
  /\ P' = StartT(cfg.fmt, mp.M, mp.Bad, goal, NewV)
  /\ phase' = "writing" /\ act' = "start"
  /\ UNCHANGED <<cfg, L, perm, mp, res, mafter, nint, nmark, g_failed, g_foreign, g_faults, g_stored>>

StartOp ==
  /\ phase = "surveyed"
  /\ IF cfg.op = "publish" THEN
       /\ base' = 0
       /\ IF PlanFails(mp.M, mp.Bad, Ord, perm) THEN GiveUp("NotEnough")
          ELSE Begin(PublishGoalOf(mp.M, mp.Bad, Ord, perm))
     ELSE
       LET b == Best(V3, mp.M)
           goal == IF UpdateRule = "doc" THEN UpdateGoalDoc(mp.M, b) ELSE UpdateGoalCode(mp.M)
       IN /\ base' = b
          /\ IF b = 0 THEN GiveUp("Unrecoverable")          \* no version to update
             ELSE IF Cardinality({p[2] : p \in goal}) < K THEN GiveUp("NotEnough")
             ELSE Begin(goal)

NextPending == CHOOSE p \in P.pend : \A q \in P.pend : p[1] < q[1] \/ (p[1] = q[1] /\ p[2] <= q[2])

Deliver ==
  /\ phase = "writing"
  /\ \E p \in P.pend : \E fault \in {"none", "pre", "post"} :
       LET s == p[1]
           sh == p[2]
           pre == L[s][sh].c
           t == TestOf(mp.M, mp.Bad, p)
           executed == fault # "pre"
           wrote == executed /\ Passes(pre, t)
           answered == fault = "none"
           reads == ReadsOf(Codes(s))
           valid == cfg.op # "update" \/ pre = base
           P1 == IF answered THEN GotAnswer(P, s, sh, wrote, reads) ELSE ConnProblem(P, s, sh)
           u == Untried(Ord, perm, P.tried)
           replace == ~answered /\ DocLoop /\ cfg.op = "publish" /\ u # <<>>
           P2 == IF replace
                   THEN [P1 EXCEPT !.goal = @ \cup {<<u[1], sh>>}, !.pend = @ \cup {<<u[1], sh>>}, !.live = @ \cup {<<u[1], sh>>},
                                   !.tried = @ \cup {u[1]}]
                   ELSE P1
       IN /\ (Order = "fixed" => p = NextPending)
          /\ (fault # "none" => g_faults < Lim("faults", MaxFaults))
          /\ L' = IF wrote THEN [L EXCEPT ![s][sh] = [c |-> NewV, ok |-> valid]] ELSE L
          /\ P' = P2
          /\ g_failed' = (g_failed \/ (answered /\ ~wrote))
          /\ g_foreign' = (g_foreign \/ (answered /\ ForeignIn(mp.M, mp.Bad, P.goal, NewV, s, reads)))
          /\ g_faults' = IF answered THEN g_faults ELSE g_faults + 1
          /\ g_stored' = IF wrote THEN g_stored \cup {p} ELSE g_stored
  /\ act' = "deliver"
  /\ UNCHANGED <<cfg, perm, mp, phase, newseq, res, mafter, base, nint, nmark>>

Finish ==
  /\ phase = "writing" /\ P.pend = {}
  /\ res' \in Results(P)              \* Publish._checkstring holds one of the candidates
  /\ mafter' = MapAfter(mp.M, P, NewV)
  /\ phase' = "done" /\ act' = "finish"
  /\ UNCHANGED <<cfg, L, perm, mp, P, newseq, base, nint, nmark, g_failed, g_foreign, g_faults, g_stored>>

Next == Survey \/ MarkBad \/ Interfere \/ StartOp \/ Deliver \/ Finish
Spec == Init /\ [][Next]_vars

(* ------------------------------------ properties ------------------------------------ *)
TypeOK ==
  /\ phase \in {"setup", "surveyed", "writing", "done"}
  /\ res \in {"", "ok", "UCWE", "NotEnough", "Unrecoverable"}
  /\ P.pend \subseteq P.goal /\ P.acked \subseteq P.goal /\ P.live \subseteq P.goal
  /\ (phase = "done") = (res # "")

\* "use seqnum which is one higher than the old version" / "one larger than anything present in the grid, according to the servermap"
X_SeqAboveEverythingSeen == sent => \A v \in VersIn(mp.M) : V3[v].seq < newseq
\* every share number gets a home (a full publish)
X_GoalCoversAllShares == sent /\ cfg.op = "publish" => {p[2] : p \in P.goal} = Shnums
\* managed-grid.rst: new shares only go to servers the client may upload to
X_NewSharesOnlyOnPermittedServers == sent => \A p \in P.goal \ Slots0(mp.M, mp.Bad) : p[1] \in perm
\* "I will only publish my data if the servermap I am using still represents the current state of the world": a share
\* changes only by an interference, or in a slot of the goal, to the new version, from exactly what the map saw there
X_ConditionalWrites ==
  [][\A p \in Slots : L'[p[1]][p[2]].c # L[p[1]][p[2]].c =>
        \/ act' = "interfere"
        \/ (sent /\ p \in P.goal /\ L'[p[1]][p[2]].c = NewV /\ L[p[1]][p[2]].c = MapSaw(mp.M, mp.Bad, p))]_vars
\* "if any servers wound up with a different version, report error to application"
X_FailedTestIsReported == res = "ok" => ~g_failed
X_ForeignShareIsReported == res = "ok" => ~g_foreign
X_SuccessMeansKAcknowledged == res = "ok" => Cardinality({p[2] : p \in P.acked}) >= K
\* without failing requests a successful publish has placed every share of its goal, hence every share number
X_SuccessPlacesEveryShare ==
  res = "ok" /\ g_faults = 0 => P.goal \subseteq g_stored /\ (cfg.op = "publish" => {p[2] : p \in g_stored} = Shnums)
\* the servermap afterwards ("We've written a new share out"): claims the new version only where it was written, knows every
\* acknowledged share, and offers the new version as the best one after a success
X_MapClaimsOnlyWrittenShares == phase = "done" => \A p \in Slots : mafter[p[1]][p[2]] = NewV => p \in g_stored
X_MapKnowsAcknowledgedShares == phase = "done" /\ sent => \A p \in P.acked : mafter[p[1]][p[2]] = NewV
X_BestVersionAfterSuccess == res = "ok" => Best(VAll, mafter) = NewV
\* whatever carries the new version's checkstring is a share of the new version
X_WrittenSharesAreValid == \A p \in Slots : L[p[1]][p[2]].c = NewV => L[p[1]][p[2]].ok
\* mutable.rst: "keep going until N servers have the same version, or we run out of servers" / "Use new servers if necessary"
AllPlacedOrNoServerLeft == {p[2] : p \in P.acked} = Shnums \/ Untried(Ord, perm, P.tried) = <<>> \/ cfg.op # "publish"
X_FailedServersAreReplaced == res = "ok" /\ DocLoop => AllPlacedOrNoServerLeft
\* the same, demanded of the code as written (no retry loop): TLC must refute it
X_FailedServersAreReplaced_AsWritten == res = "ok" => AllPlacedOrNoServerLeft
\* a retry goes to a server that has not been sent a request yet and that may be uploaded to
X_RetryOnlyUntriedServers ==
  [][phase = "writing" /\ P'.goal # P.goal => \A p \in P'.goal \ P.goal : p[1] \notin P.tried /\ p[1] \in perm]_vars
=============================================================================
