------------------------------ MODULE MutableFile ------------------------------
(* Mutable files (SDMF/MDMF) as seen by readers, checkers and repairers:
   servers x share numbers x signed versions, with an adversary over the
   fields of every stored share.

   A version is a record [seq, rh, content, signer]:
     seq      sequence number in the signed prefix
     rh       rank of the root hash among the versions of the file (tie-break of
              ServerMap.best_recoverable_version, which sorts verinfo tuples)
     content  identifier of the plaintext
     signer   "owner" (signed with the key the cap's fingerprint pins) or "other"
              (anything a read-cap/verify-cap holder or a server can fabricate:
              another RSA key, another file, a stale share with a bumped seqnum).
   Versions are numbered 1..Len(V); 0 stands for "none".

   A stored share is [v, cls]: the version its signed prefix claims and what the
   adversary did to its fields
     "intact"     every field genuine for (v, this share number)
     "prefixbad"  signed prefix / version byte / k,N,segsize,datalen changed, or the
                  signature does not verify for the prefix: never enters a servermap
                  (ServermapUpdater._got_signature_one_share, _got_corrupt_share)
     "softbad"    only the verification-key field or only the signature bytes are
                  damaged while the prefix equals a validly signed one: the code
                  checks the key only until the node has one (_try_to_set_pubkey) and
                  the signature only once per verinfo (_valid_versions), so the share
                  is accepted or rejected depending on arrival order
     "bodybad"    blocks, salts, block-hash tree or share-hash chain do not validate
                  against the signed root hash (also: a genuine share stored under
                  another share number, a body of another version): accepted by the
                  servermap, rejected by Retrieve._validate_block
     "privbad"    only the encrypted private key is damaged
     "chainbad"   only the share-hash chain is damaged: Retrieve fetches the chain of a share only
                  while its share-hash tree still lacks nodes, so the damage is noticed or not
                  depending on which shares were validated before (never a wrong plaintext)
     "offsbad"    only the (unsigned) offset table is damaged so that blocks are read
                  from the wrong place: body does not validate
   Shares of a version whose signer is "other" are rejected whatever their class:
   fingerprint pin (_try_to_set_pubkey) or signature check.

   All operators are over explicit values so that the model checker (MCMutableFile)
   and the trace validator (TraceMutableFile) share one definition. *)
EXTENDS Common

CONSTANTS K, N
Shnums == 0..(N - 1)

Absent == [v |-> 0, cls |-> "absent"]
Present(sh) == sh.cls # "absent"
Signed(V, sh) == Present(sh) /\ sh.v \in 1..Len(V) /\ V[sh.v].signer = "owner"
MustAccept(V, sh) == Signed(V, sh) /\ sh.cls \in {"intact", "bodybad", "privbad", "chainbad"}
MayAccept(V, sh) == Signed(V, sh) /\ sh.cls \in {"intact", "bodybad", "privbad", "chainbad", "softbad", "offsbad"}
BodyValid(sh) == sh.cls \in {"intact", "softbad", "privbad"}
BodyMaybe(sh) == BodyValid(sh) \/ sh.cls = "chainbad"

OwnerVersions(V) == {v \in 1..Len(V) : V[v].signer = "owner"}
Rank(V, v) == V[v].seq * 1000 + V[v].rh
MaxRank(V, S) == CHOOSE v \in S : \A w \in S : Rank(V, w) <= Rank(V, v)
Newest(V) == IF OwnerVersions(V) = {} THEN 0 ELSE MaxRank(V, OwnerVersions(V))

(* ---- servermaps: server -> shnum -> version (0 = no entry) ---------------- *)
EmptyMap(Srv) == [s \in Srv |-> [sh \in Shnums |-> 0]]

\* M is a possible result of a map update that got answers from the servers Q
MapOK(V, L, Q, M) ==
  \A s \in DOMAIN L : \A sh \in Shnums :
    /\ (s \notin Q => M[s][sh] = 0)
    /\ (M[s][sh] # 0 => MayAccept(V, L[s][sh]) /\ M[s][sh] = L[s][sh].v)
    /\ (s \in Q /\ MustAccept(V, L[s][sh]) => M[s][sh] = L[s][sh].v)

SoftSlots(V, L, Q) == {p \in Q \X Shnums : MayAccept(V, L[p[1]][p[2]]) /\ ~MustAccept(V, L[p[1]][p[2]])}
MapWith(V, L, Q, A) ==
  [s \in DOMAIN L |-> [sh \in Shnums |->
     IF s \in Q /\ (MustAccept(V, L[s][sh]) \/ <<s, sh>> \in A) THEN L[s][sh].v ELSE 0]]
Maps(V, L, Q) == {MapWith(V, L, Q, A) : A \in SUBSET SoftSlots(V, L, Q)}

VersIn(M) == {M[s][sh] : s \in DOMAIN M, sh \in Shnums} \ {0}
ShnumsOf(M, v) == {sh \in Shnums : \E s \in DOMAIN M : M[s][sh] = v}
Recoverable(M) == {v \in VersIn(M) : Cardinality(ShnumsOf(M, v)) >= K}      \* ServerMap.recoverable_versions
Unrecoverable(M) == VersIn(M) \ Recoverable(M)                              \* ServerMap.unrecoverable_versions
Best(V, M) == IF Recoverable(M) = {} THEN 0 ELSE MaxRank(V, Recoverable(M)) \* ServerMap.best_recoverable_version
MaxSeq(V, M) == IF VersIn(M) = {} THEN 0 ELSE SetMax({V[v].seq : v \in VersIn(M)})  \* ServerMap.highest_seqnum
HighestRecSeq(V, M) == IF Recoverable(M) = {} THEN 0 - 1 ELSE SetMax({V[v].seq : v \in Recoverable(M)})
UnrecNewer(V, M) == {v \in Unrecoverable(M) : V[v].seq > HighestRecSeq(V, M)} \* ServerMap.unrecoverable_newer_versions
NeedsMerge(V, M) == \E v, w \in Recoverable(M) : v # w /\ V[v].seq = V[w].seq  \* ServerMap.needs_merge

(* ---- ServermapUpdater._check_for_done, MODE_READ ---------------------------
   completed = number of answered queries; the updater keeps asking further
   servers while fewer than K+epsilon (= 2K) answered, nothing is recoverable, or
   an unrecoverable version with a higher seqnum than every recoverable one is known *)
ReadWantsMore(V, M, completed) ==
  \/ completed < 2 * K
  \/ Recoverable(M) = {}
  \/ UnrecNewer(V, M) # {}

(* ---- Retrieve --------------------------------------------------------------
   Retrieve takes the k lowest share numbers of the chosen version, validates every block
   against the block-hash tree, the share-hash chain and the signed root hash, and replaces
   a share that fails by further share numbers.  A server that delivered a failing share is
   dropped with all its shares (Retrieve._mark_bad_share / _handle_bad_share: "removing the
   remote server from further activity"), so whether a valid share that is co-located with a
   corrupt one gets used depends on the order.  Sure success: k valid share numbers on servers
   all of whose shares of that version are valid.  Possible success: k valid share numbers. *)
CleanServer(L, M, v, s) == \A sh \in Shnums : M[s][sh] = v => BodyValid(L[s][sh])
GoodShnums(L, M, v) == {sh \in Shnums : \E s \in DOMAIN M : M[s][sh] = v /\ BodyValid(L[s][sh]) /\ CleanServer(L, M, v, s)}
RetrieveOK(L, M, v) == v # 0 /\ Cardinality(GoodShnums(L, M, v)) >= K
RetrieveMaybe(L, M, v) == v # 0 /\ Cardinality({sh \in Shnums : \E s \in DOMAIN M : M[s][sh] = v /\ BodyMaybe(L[s][sh])}) >= K
\* versions download_best_version may deliver on map M (0 = error)
RetrieveOutcomes(L, M, v) == IF RetrieveOK(L, M, v) THEN {v} ELSE IF RetrieveMaybe(L, M, v) THEN {v, 0} ELSE {0}
ReadVersions(V, L, M) == RetrieveOutcomes(L, M, Best(V, M))

(* ---- MutableChecker ------------------------------------------------------- *)
HealthyMap(V, M) ==
  /\ Unrecoverable(M) = {}
  /\ Cardinality(Recoverable(M)) = 1
  /\ Cardinality(ShnumsOf(M, Best(V, M))) >= N
RemoveEntries(M, B) == [s \in DOMAIN M |-> [sh \in Shnums |-> IF <<s, sh>> \in B THEN 0 ELSE M[s][sh]]]
EntriesOf(M, v) == {p \in (DOMAIN M) \X Shnums : M[p[1]][p[2]] = v}
\* verify=True: every share of the best version is fetched and validated; the bad ones leave the map
MustFlag(L, M, v) == {p \in EntriesOf(M, v) : ~BodyMaybe(L[p[1]][p[2]])}
MayFlag(L, M, v) == {p \in EntriesOf(M, v) : ~BodyValid(L[p[1]][p[2]]) \/ L[p[1]][p[2]].cls = "privbad"}
FlagSets(V, L, M, verify) ==
  IF ~verify \/ Best(V, M) = 0 THEN {{}}
  ELSE {X \in SUBSET MayFlag(L, M, Best(V, M)) : MustFlag(L, M, Best(V, M)) \subseteq X}
\* possible (healthy, recoverable) answers of check(verify)
CheckOutcomes(V, L, M, verify) ==
  {[healthy |-> HealthyMap(V, RemoveEntries(M, B)), recoverable |-> (Recoverable(RemoveEntries(M, B)) # {})] :
     B \in FlagSets(V, L, M, verify)}
CheckVerdicts(V, L, M, verify) == {o.healthy : o \in CheckOutcomes(V, L, M, verify)}

(* ---- Repairer._got_full_servermap ------------------------------------------ *)
RepairDecision(V, M, force) ==
  IF Best(V, M) = 0 THEN "unsuccessful"
  ELSE IF ~force /\ (UnrecNewer(V, M) # {} \/ NeedsMerge(V, M)) THEN "mustforce"
  ELSE "go"

(* ---- Publish.update_goal: which (server, shnum) slots the new version is written to.
   Every share found on an answering server is replaced in place (known shares and
   shares recorded as bad); homeless share numbers go to the servers sorted by
   (number of shares already planned there, position in the permuted list). *)
Goal0(L, Q) == {p \in Q \X Shnums : Present(L[p[1]][p[2]])}
RECURSIVE SortByKey(_, _)
SortByKey(S, key) ==
  IF S = {} THEN <<>>
  ELSE LET m == CHOOSE x \in S : \A y \in S : key[x] <= key[y] IN <<m>> \o SortByKey(S \ {m}, key)
PublishGoal(L, ord) ==
  LET Q == ToSet(ord)
      g0 == Goal0(L, Q)
      homeless == Shnums \ {p[2] : p \in g0}
      hl == SortByKey(homeless, [sh \in homeless |-> sh])
      idx == 1..Len(ord)
      key == [i \in idx |-> Cardinality({p \in g0 : p[1] = ord[i]}) * 100 + i]
      srt == SortByKey(idx, key)
  IN IF ord = <<>> THEN {}
     ELSE g0 \cup {<<ord[srt[((j - 1) % Len(srt)) + 1]], hl[j]>> : j \in 1..Len(hl)}
WriteVersion(L, G, v) ==
  [s \in DOMAIN L |-> [sh \in Shnums |-> IF <<s, sh>> \in G THEN [v |-> v, cls |-> "intact"] ELSE L[s][sh]]]
=============================================================================
