---------------------------- MODULE MCMutableOps ----------------------------
(* Model checking of the mutable-file operations (C09), two configurations:

   Mode = "table": one state per case (format, old size, offset, length, segment
     size) -- the segment-wise, implementation-shaped update and read of
     MutableOps.tla are compared with the reference byte-string semantics; the
     old contents are the distinct symbols 1..n and the new data 101..100+len, so
     a case stands for all byte values (the algorithms never look at the bytes).

   Mode = "seq": sequences of Create / Overwrite / Modify / Update on one file,
     each byte carrying the index of the operation that wrote it; the file
     evolves through the implementation-shaped operators, the properties are
     stated over the history of operations (ghost `hist`) with the reference
     semantics only. *)
EXTENDS MutableOps

CONSTANTS Mode, Formats, SegSizes, MaxN, MaxL, MaxSteps

VARIABLES fmt, ss, content, hist, case
vars == <<fmt, ss, content, hist, case>>

Fresh(id, len) == [i \in 1..len |-> id]

(* ------------------------------- table --------------------------------- *)
Cases == {[fmt |-> f, ss |-> s, n |-> n, o |-> o, len |-> l] :
            f \in Formats, s \in SegSizes, n \in 0..MaxN, o \in 0..MaxN, l \in 1..MaxL}
Old(n) == [i \in 1..n |-> i]
New(l) == [i \in 1..l |-> 100 + i]

(* ------------------------------ sequences ------------------------------ *)
RECURSIVE RefFold(_)
RefFold(h) ==
  IF h = <<>> THEN <<>>
  ELSE LET c == RefFold(SubSeq(h, 1, Len(h) - 1))
           e == h[Len(h)]
       IN CASE e.op = "create"    -> e.data
            [] e.op = "overwrite" -> e.data
            [] e.op = "modify"    -> ModApply(c, e.m)
            [] e.op = "update"    -> RefUpdate(c, e.data, e.o)

NoCase == [fmt |-> "", ss |-> 0, n |-> 0, o |-> 0, len |-> 0]

Init ==
  IF Mode = "table"
    THEN /\ case = NoCase /\ fmt = "MDMF" /\ ss = 2 /\ content = <<>> /\ hist = <<>>
    ELSE /\ fmt \in Formats /\ ss \in SegSizes /\ case = NoCase
         /\ \E n \in 0..MaxN :
              /\ content = Fresh(1, n)
              /\ hist = << [op |-> "create", data |-> Fresh(1, n)] >>

Id == Len(hist) + 1
CurSS == SegSizeOf(fmt, content, ss)

Overwrite ==
  \E n \in 0..MaxN :
    /\ content' = Fresh(Id, n)
    /\ hist' = Append(hist, [op |-> "overwrite", data |-> Fresh(Id, n)])

Modify ==
  \E m \in {[fn |-> "append", data |-> Fresh(Id, l), n |-> 0] : l \in 1..MaxL}
           \cup {[fn |-> "truncate", data |-> <<>>, n |-> n] : n \in 0..MaxN}
           \cup {[fn |-> "prepend", data |-> Fresh(Id, 1), n |-> 0]} :
    /\ Len(ModApply(content, m)) <= MaxN + MaxL
    /\ content' = ModApply(content, m)          \* _modify_once: download everything, apply, publish everything
    /\ hist' = Append(hist, [op |-> "modify", m |-> m])

Update ==
  \E o \in 0..Len(content), l \in 1..MaxL :
    LET r == ImplUpdate(fmt, content, Fresh(Id, l), o, ss) IN
    /\ r.ok                                      \* a failing update is a violation of C09_UpdateSucceeds below
    /\ content' = r.c
    /\ hist' = Append(hist, [op |-> "update", data |-> Fresh(Id, l), o |-> o])

\* table mode: one step from the initial state to each case (so that the workers share the cases)
Pick ==
  /\ Mode = "table" /\ case = NoCase
  /\ \E k \in Cases : k.o <= k.n /\ case' = k /\ fmt' = k.fmt /\ ss' = k.ss /\ content' = Old(k.n)
  /\ UNCHANGED hist

Next ==
  \/ Pick
  \/ /\ Mode = "seq"
     /\ Len(hist) < MaxSteps
     /\ (Overwrite \/ Modify \/ Update)
     /\ UNCHANGED <<fmt, ss, case>>

Spec == Init /\ [][Next]_vars

(* ------------------------------ properties ----------------------------- *)
\* table: the segment-wise update equals the reference for every case
C09_UpdateRefines ==
  (Mode = "table" /\ case # NoCase) =>
    LET r == ImplUpdate(case.fmt, Old(case.n), New(case.len), case.o, case.ss) IN
    r.ok /\ r.c = RefUpdate(Old(case.n), New(case.len), case.o)

\* every read of the valid domain returns the reference sub-string (table: of the old file; seq: of every
\* reachable file), for the segment size of the format
C09_ReadRefines ==
  (Mode = "table" => (case.o = 0 /\ case.len = 1)) =>     \* table: once per (format, size, segment size)
  \A o \in 0..Len(content), n \in 1..(Len(content) + 1) :
    ReadDomain(content, o, n) => ImplRead(content, o, n, CurSS) = RefRead(content, o, n)

\* seq: every update of the stated domain succeeds
C09_UpdateSucceeds ==
  Mode = "seq" => \A o \in 0..Len(content), l \in 1..MaxL : ImplUpdate(fmt, content, Fresh(0, l), o, ss).ok

\* seq: the file is what the operations, applied in order to a byte string, give
C09_ReadYourWrites == Mode = "seq" => content = RefFold(hist)

\* seq: an update changes only the bytes it writes and extends the file if it writes past the end
C09_UpdateLocal ==
  [][(Mode = "seq" /\ hist' # hist /\ hist'[Len(hist')].op = "update") =>
       LET e == hist'[Len(hist')] IN
       /\ Len(content') = Max(Len(content), e.o + Len(e.data))
       /\ \A i \in 1..Len(content') :
            IF i > e.o /\ i <= e.o + Len(e.data) THEN content'[i] = e.data[i - e.o]
            ELSE content'[i] = content[i]]_vars
=============================================================================
