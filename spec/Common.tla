------------------------------ MODULE Common ------------------------------
(* Shared vocabulary of the Tahoe-LAFS specification: byte arrays as sequences
   of small integers, interval arithmetic, the arithmetic helpers the layout
   modules use, and small set/sequence utilities. *)
EXTENDS Integers, Sequences, FiniteSets, TLC

Min(a, b) == IF a <= b THEN a ELSE b
Max(a, b) == IF a >= b THEN a ELSE b

DivCeil(n, d) == (n + d - 1) \div d
NextMultiple(n, k) == DivCeil(n, k) * k
RECURSIVE NextPow2From(_, _)
NextPow2From(x, p) == IF p >= x THEN p ELSE NextPow2From(x, 2 * p)
NextPow2(x) == NextPow2From(x, 1)

Range(f) == {f[x] : x \in DOMAIN f}
ToSet(s) == {s[i] : i \in 1..Len(s)}

RECURSIVE SetSum(_)
SetSum(S) == IF S = {} THEN 0 ELSE LET x == CHOOSE y \in S : TRUE IN x + SetSum(S \ {x})

RECURSIVE SumOver(_, _)
\* Sum of f[x] for x in S
SumOver(f, S) == IF S = {} THEN 0 ELSE LET x == CHOOSE y \in S : TRUE IN f[x] + SumOver(f, S \ {x})

SetMax(S) == CHOOSE x \in S : \A y \in S : y <= x
SetMin(S) == CHOOSE x \in S : \A y \in S : x <= y

(* ---- byte arrays -------------------------------------------------------- *)
Zeros(n) == [i \in 1..n |-> 0]

\* read clipped at the current length; offsets are 0-based as in the code
ReadAt(d, off, len) ==
  IF off >= Len(d) \/ len <= 0 THEN <<>>
  ELSE SubSeq(d, off + 1, Min(Len(d), off + len))

\* write with zero fill of a gap between the current end and off
WriteAt(d, off, data) ==
  LET pre  == IF off <= Len(d) THEN SubSeq(d, 1, off) ELSE d \o Zeros(off - Len(d))
      endw == off + Len(data)
      post == IF endw < Len(d) THEN SubSeq(d, endw + 1, Len(d)) ELSE <<>>
  IN pre \o data \o post

\* positions covered by a write
Span(off, len) == {off + i : i \in 0..(len - 1)}

IsPrefixOf(a, b) == Len(a) <= Len(b) /\ SubSeq(b, 1, Len(a)) = a
=============================================================================
