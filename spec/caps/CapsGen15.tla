----------------------------- MODULE CapsGen15 -----------------------------
(* C15, GEN mode: the Spec enumerates abstract cap strings (every kind's canonical
   token sequence and its token-level mutations: replace / insert / delete a token)
   together with the result Caps!Parse assigns to them; the adapter concretises
   every abstract character and replays the string into uri.from_string / to_string.
   The invariants state the property on the Spec's own table. *)
EXTENDS Caps, Json, IOUtils, SequencesExt

CONSTANTS FullKinds,    \* kinds whose skeleton is mutated with the full token alphabet (the others: small alphabet)
          Kinds2        \* kinds whose skeleton also gets double mutations (small alphabet)

SmallAlphabet == {"COLON", "X", "NL", "N1", "N-lz", "K128/t4", "K128/t2", "H256/t16", "H256/t8",
                  "L6", "b", "ro.", "imm."}

M1(k, A) == Mut1(Skeleton(k), A) \cup {Skeleton(k)}
M2(k) == UNION {Mut1(m, SmallAlphabet) : m \in Mut1(Skeleton(k), SmallAlphabet)}
Strings == UNION {M1(k, IF k \in FullKinds THEN Tokens ELSE SmallAlphabet) : k \in Kinds}
             \cup UNION {M2(k) : k \in Kinds2}
\* deep-immutable context: canonical strings and their mutations with prefixes / separators / junk
DeepAlphabet == {"ro.", "imm.", "X", "NL", "COLON"}
DeepStrings == UNION {M1(k, IF k \in Kinds2 THEN SmallAlphabet ELSE DeepAlphabet) : k \in Kinds}

\* composite strings: a kind's prefix, optional junk, then a complete well-formed cap (doubled
\* prefix, cap embedded after junk), and two complete caps glued together.  They lie outside the
\* grammar as a whole although a suffix (or prefix) of them is a well-formed cap: a parser whose
\* pattern is not anchored at both ends mis-reads them.
GlueKinds == {"CHK", "CHK-Verifier", "LIT", "SSK", "SSK-RO", "SSK-Verifier", "MDMF", "DIR2", "DIR2-CHK", "DIR2-RO"} \cap Kinds
Junks == {<<>>, <<"X">>, <<"COLON">>, <<"X", "COLON">>}
Glued == {<<Skeleton(k)[1]>> \o j \o Skeleton(k) : k \in GlueKinds, j \in Junks}
           \cup {Skeleton(k) \o j \o Skeleton(k2) : k \in GlueKinds, k2 \in GlueKinds, j \in {<<>>, <<"COLON">>}}
           \cup {<<"ro.">> \o <<Skeleton(k)[1]>> \o <<"X">> \o Skeleton(k) : k \in GlueKinds}

Case(ts, deep) ==
  LET cs == Expand(ts)  r == Parse(cs, deep) IN
  [toks |-> ts, deep |-> deep, kind |-> r.kind, err |-> r.err, why |-> r.why, lo |-> r.lo, hi |-> r.hi]
Cases == {Case(ts, FALSE) : ts \in Strings \cup Glued} \cup {Case(ts, TRUE) : ts \in DeepStrings}

ASSUME JsonSerialize(IOEnv.TOK_FILE, TokenTable)
ASSUME ndJsonSerialize(IOEnv.OUT_FILE, SetToSeq(Cases))

\* Serialize(c) parses back to the same kind, whole string, in the plain context
ASSUME \A k \in Kinds : LET r == Parse(Expand(Skeleton(k)), FALSE) IN
         r.kind = k /\ r.lo = 1 /\ r.hi = Len(Expand(Skeleton(k)))

\* One-step machine over the emitted table (read back from the file, so that what is checked is
\* exactly what the adapter replays); the invariants are evaluated in the second phase, where
\* TLC's workers share the cases.
VARIABLES c, phase
vars == <<c, phase>>
Init == phase = 0 /\ c \in ToSet(ndJsonDeserialize(IOEnv.OUT_FILE))
Evaluate == phase = 0 /\ phase' = 1 /\ c' = c
Next == Evaluate \/ (phase = 1 /\ UNCHANGED vars)
Spec == Init /\ [][Next]_vars

\* --- the property, stated on the table itself -------------------------------
TableOK(P(_, _)) == phase = 1 => LET chars == Expand(c.toks) IN P(chars, SubSeq(chars, c.lo, c.hi))

\* the Spec's verdict does not hinge on an imprecise character class
Decid(chars, canon) == Decidable(chars)
C15_Decidable == TableOK(Decid)
\* an accepted string is canonical: it re-serialises to itself (after the alleged prefix),
\* except for the extension fields of the MDMF kinds
Canonical(chars, canon) ==
  c.kind # "Unknown" =>
     /\ c.lo = StripAlleged(chars).off + 1
     /\ \/ c.hi = Len(chars)
        \/ HasExt(Inner(c.kind)) /\ chars[c.hi + 1] = ":"
C15_Canonical == TableOK(Canonical)
\* the canonical string is a fixpoint and keeps its kind
RoundTrip(chars, canon) ==
  c.kind # "Unknown" =>
     LET r == Parse(canon, c.deep) IN r.kind = c.kind /\ r.lo = 1 /\ r.hi = Len(canon)
C15_RoundTrip == TableOK(RoundTrip)
\* never mis-read as a different kind than the prefix says; unknown strings are kept verbatim
NeverMisread(chars, canon) ==
  IF c.kind # "Unknown" THEN chars[c.lo] = KindAtom(c.kind) ELSE c.lo = 1 /\ c.hi = Len(chars)
C15_NeverMisread == TableOK(NeverMisread)
\* context: alleged read-only never yields a write kind, alleged immutable / deep never a mutable kind
Context(chars, canon) ==
  /\ (chars # <<>> /\ chars[1] \in {"ro.", "imm."}) => c.kind \notin WriteKinds
  /\ ((chars # <<>> /\ chars[1] = "imm.") \/ c.deep) => c.kind \notin WriteKinds \cup MutReadKinds
C15_Context == TableOK(Context)
=============================================================================
