----------------------------- MODULE CapsGen16 -----------------------------
(* C16, GEN mode.  Three tables, each with the Spec's expected outcome:
   "atten": every kind with the kinds, flags and field terms of its read-only and verify
            derivations (get_readonly / get_verify_cap, twice along the chain);
   "ctx":   every kind, the future-format test caps and an unknown format, under every alleged
            prefix and context, with Parse's verdict and what NodeMaker.create_from_cap
            must build from it (node class, flags, UnknownNode slots), given as write cap,
            as read cap, or as both;
   "un":    UnknownNode(rw, ro, deep) over a set of cap strings of every interesting shape.
   The invariants state C16 on the tables themselves. *)
EXTENDS Caps, Json, IOUtils, SequencesExt
KD == INSTANCE KeyDerivation
CONSTANT UNKinds     \* kinds whose canonical strings are among the strings given to UnknownNode

AllegedPfx == {<<>>, <<"ro.">>, <<"imm.">>}
\* bodies of caps of formats this version does not know
FutureStrs == {<<"Q:URI:FOO:", "L6">>, <<FutureW, "L6">>, <<FutureM, "L6">>}

(* ---- attenuation table ---- *)
Flags(k) == IF k = "None" THEN [kind |-> "None", ro |-> FALSE, mut |-> FALSE, lvl |-> 0]
            ELSE [kind |-> k, ro |-> IsReadonly(k), mut |-> IsMutable(k), lvl |-> Level(k)]
Atten(k) ==
  LET rk == ReadonlyKind(k)  vk == VerifyKind(k) IN
  [t |-> "atten", toks |-> Skeleton(k), self |-> Flags(k),
   readonly |-> Flags(rk), ro_fields |-> RoFieldTerms(Inner(k)),
   verify |-> Flags(vk), v_fields |-> IF vk = "None" THEN <<>> ELSE VFieldTerms(Inner(k)),
   \* along the chain: verify cap of the read-only cap, read-only / verify cap of the verify cap
   ro_verify |-> Flags(VerifyKind(rk)),
   rov_fields |-> IF vk = "None" THEN <<>>
                  ELSE [i \in 1..NFields(Inner(k)) |-> Subst(VFieldTerms(Inner(rk))[i], RoFieldTerms(Inner(k)))],
   v_readonly |-> Flags(IF vk = "None" THEN "None" ELSE ReadonlyKind(vk)),
   v_verify |-> Flags(IF vk = "None" THEN "None" ELSE VerifyKind(vk)),
   si |-> SITerm(Inner(k)),
   secret |-> SecretField(Inner(k))]
AttenCases == {Atten(k) : k \in Kinds}

(* ---- context table ---- *)
SlotOut(x) == IF x.present THEN x ELSE [present |-> FALSE, src |-> "", drop |-> 0, add |-> ""]
UNOut(u) == [err |-> u.err, rw |-> SlotOut(u.rw), ro |-> SlotOut(u.ro)]
Ctx(body, pre, deep, slots) ==
  LET ts == pre \o body
      s == Expand(ts)
      p == Parse(s, deep)
      w == IF slots \in {"w", "wr"} THEN Some(s) ELSE None
      r == IF slots \in {"r", "wr"} THEN Some(s) ELSE None
      n == CreateFromCap(w, r, deep)
  IN [t |-> "ctx", toks |-> ts, deep |-> deep, slots |-> slots,
      kind |-> p.kind, err |-> p.err, lo |-> p.lo, hi |-> p.hi,
      cls |-> n.cls,
      flags |-> Flags(IF p.kind = "Unknown" THEN "None" ELSE p.kind),
      ro_kind |-> IF p.kind = "Unknown" THEN "None" ELSE ReadonlyKind(p.kind),
      un |-> UNOut(n.un)]
CtxCases == {Ctx(b, pre, deep, sl) : b \in {Skeleton(k) : k \in Kinds} \cup FutureStrs,
                                     pre \in AllegedPfx, deep \in BOOLEAN, sl \in {"w", "r", "wr"}}

(* ---- UnknownNode table ---- *)
UNBodies == FutureStrs \cup {Skeleton(k) : k \in UNKinds} \cup {<<KindAtom("SSK"), "b">>}
UNStrs == {pre \o b : pre \in AllegedPfx, b \in UNBodies} \cup {<<>>}
UNSlots == {None} \cup {Some(ts) : ts \in UNStrs}      \* at token level
UNCase(rw, ro, deep) ==
  LET X(x) == IF x.present THEN Some(Expand(x.s)) ELSE None
      u == UnknownNode(X(rw), X(ro), deep)
  IN [t |-> "un", deep |-> deep,
      rw_given |-> rw.present, rw_toks |-> IF rw.present THEN rw.s ELSE <<>>,
      ro_given |-> ro.present, ro_toks |-> IF ro.present THEN ro.s ELSE <<>>,
      un |-> UNOut(u)]
UNCases == {UNCase(rw, ro, deep) : rw \in UNSlots, ro \in UNSlots, deep \in BOOLEAN}

ASSUME JsonSerialize(IOEnv.TOK_FILE, TokenTable)
ASSUME JsonSerialize(IOEnv.KD_FILE, KD!Deriv)
ASSUME ndJsonSerialize(IOEnv.OUT_FILE, SetToSeq(AttenCases) \o SetToSeq(CtxCases) \o SetToSeq(UNCases))

VARIABLES c, phase
vars == <<c, phase>>
Init == phase = 0 /\ c \in AttenCases \cup CtxCases \cup UNCases
Evaluate == phase = 0 /\ phase' = 1 /\ c' = c
Next == Evaluate \/ (phase = 1 /\ UNCHANGED vars)
Spec == Init /\ [][Next]_vars

(* ---- C16 on the tables ---- *)
Is(t) == phase = 1 /\ c.t = t
\* the chain write > read > verify never climbs, and flags follow the level
C16_Lattice ==
  Is("atten") =>
    /\ c.readonly.ro /\ (c.verify.kind # "None" => c.verify.ro /\ ~c.verify.mut)
    /\ (~c.self.ro => c.self.mut)                      \* only mutable objects have write caps
    /\ c.readonly.mut = c.self.mut                     \* diminishing to read-only does not change what the object is
    /\ c.ro_verify = c.verify                          \* both routes to the verify cap agree
    /\ (c.verify.kind # "None" => c.v_readonly = c.verify /\ c.v_verify = c.verify)   \* verify caps are bottom
\* same storage index and integrity field along the chain, expressed over the original fields
C16_SameSI ==
  Is("atten") /\ c.verify.kind # "None" =>
    LET k == c.self.kind  fk == Inner(k) IN
    /\ Subst(SITerm(Inner(c.readonly.kind)), c.ro_fields) = c.si
    /\ Subst(SITerm(Inner(c.verify.kind)), c.v_fields) = c.si
    /\ c.rov_fields = c.v_fields
    /\ c.ro_fields[2] = F(2) /\ c.v_fields[2] = F(2)
\* a derived cap of a lower level never carries the secret verbatim
C16_NoLeak ==
  Is("atten") =>
    /\ (Level(c.readonly.kind) < Level(c.self.kind) => Reveals(c.ro_fields) \cap c.secret = {})
    /\ (c.verify.kind # "None" /\ Level(c.verify.kind) < Level(c.self.kind) => Reveals(c.v_fields) \cap c.secret = {})
\* the derivations named in the field terms are those of KeyDerivation.tla, applied to the value they are
\* defined on, and the weaker cap's secret is not something from which the stronger one can be computed
RECURSIVE DNames(_)
DNames(t) == IF t.op = "d" THEN {t.name} \cup DNames(t.arg) ELSE {}
C16_Derivations ==
  Is("atten") =>
    /\ \A i \in 1..Len(c.ro_fields) : DNames(c.ro_fields[i]) \subseteq KD!Names
    /\ \A i \in 1..Len(c.v_fields) : DNames(c.v_fields[i]) \subseteq KD!Names
    /\ "ssk_writekey" \notin KD!Derivable(KD!SSKReadCap \cup KD!Public)
    /\ "ssk_readkey" \notin KD!Derivable(KD!SSKVerifyCap \cup KD!Public)
    /\ "chk_key" \notin KD!Derivable(KD!CHKVerifyCap \cup KD!Public)
\* alleged read-only is never writeable, alleged immutable / deep-immutable context never mutable
AllegedRO == c.toks # <<>> /\ c.toks[1] \in {"ro.", "imm."}
AllegedImm == (c.toks # <<>> /\ c.toks[1] = "imm.") \/ c.deep
C16_Alleged ==
  Is("ctx") =>
    /\ (AllegedRO \/ c.deep) => (c.kind = "Unknown" \/ c.flags.ro)
    /\ AllegedImm => (c.kind = "Unknown" \/ ~c.flags.mut)
\* UnknownNode: an error makes the node opaque; a deep-immutable context keeps no write cap and an
\* imm.-prefixed read cap; otherwise the read cap carries an alleged prefix
UNRo == IF c.t = "un" THEN Expand(c.ro_toks) ELSE Expand(c.toks)
UNRw == IF c.t = "un" THEN Expand(c.rw_toks) ELSE Expand(c.toks)
KeptStr(slot) == SlotStr(slot, Some(UNRw), Some(UNRo))
C16_UnknownNode ==
  (phase = 1 /\ (c.t = "un" \/ (c.t = "ctx" /\ c.cls = "UnknownNode"))) =>
    /\ c.un.err # "none" => ~c.un.rw.present /\ ~c.un.ro.present
    /\ c.deep => ~c.un.rw.present
    /\ (c.deep /\ c.un.ro.present) => KeptStr(c.un.ro)[1] = "imm."
    /\ (~c.deep /\ c.un.ro.present) => KeptStr(c.un.ro)[1] \in {"ro.", "imm."}
    /\ c.un.rw.present => KeptStr(c.un.rw) = UNRw
=============================================================================
