------------------------------ MODULE CapsEval ------------------------------
(* The Spec as judge of concrete strings: the adapter abstracts each concrete string
   (seeded mutations, serialisations of real cap objects, random printable strings)
   into the exact character classes of Caps.tla; this module evaluates Caps!Parse on
   every one of them and writes the expected result for the comparison.  (Exact classes only:
   the imprecise characters Bl / Bx / Dg never occur here, so every string is Decidable.) *)
EXTENDS Caps, Json, IOUtils

ASSUME LET in == JsonDeserialize(IOEnv.IN_FILE) IN
       ndJsonSerialize(IOEnv.OUT_FILE,
          [i \in 1..Len(in) |->
             LET r == Parse(in[i].chars, in[i].deep) IN
             [kind |-> r.kind, err |-> r.err, why |-> r.why, lo |-> r.lo, hi |-> r.hi]])

VARIABLE x
Init == x = 0
Next == UNCHANGED x
Spec == Init /\ [][Next]_x
=============================================================================
