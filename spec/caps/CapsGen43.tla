----------------------------- MODULE CapsGen43 -----------------------------
(* C43, GEN mode: pairs of capabilities and of nodes, built independently, with the
   Spec's verdict on ==, != and hash.
     Eq(a, b)  ==  Serialize(a) = Serialize(b)      (same sort of object)
     Ne        ==  ~Eq
     Eq => equal hashes
   A pair is given as two token sequences plus the set of token positions that are
   concretised identically ("share"); the other field positions get different values.
   Nodes are what NodeMaker.create_from_cap builds for the cap; an UnknownNode's identity
   is its pair of kept cap strings (Caps!UnknownNode), so two opaque nodes are equal. *)
EXTENDS Caps, Json, IOUtils, SequencesExt

FieldPos(k) == {p \in 1..Len(Skeleton(k)) : p > 1 /\ Skeleton(k)[p] # "COLON"}
\* symbolic serialisation of one side of a pair
Sym(k, share, side) ==
  [p \in 1..Len(Skeleton(k)) |->
     IF p \in FieldPos(k) THEN (IF p \in share THEN <<p, 0>> ELSE <<p, side>>) ELSE <<Skeleton(k)[p], 0>>]
SymEq(k1, k2, share) == Sym(k1, share, 1) = Sym(k2, share, 2)

SameShape2(k1, k2) == Len(Skeleton(k1)) = Len(Skeleton(k2)) /\ (Inner(k1) = "LIT") = (Inner(k2) = "LIT")
Shares(k) == {FieldPos(k)} \cup {FieldPos(k) \ {p} : p \in FieldPos(k)}
PairsOf(k1, k2) == IF ~SameShape2(k1, k2) THEN {}
                   ELSE {<<k1, k2, sh>> : sh \in (IF k1 = k2 THEN Shares(k1) ELSE {FieldPos(k1)})}
Pairs == UNION {PairsOf(k1, k2) : k1 \in Kinds, k2 \in Kinds}

Verdict(eq) == [eq |-> eq, ne |-> ~eq, hash_eq |-> eq]

CapCase(k1, k2, sh) ==
  [t |-> "cap", toks1 |-> Skeleton(k1), toks2 |-> Skeleton(k2), share |-> SetToSeq(sh), k1 |-> k1, k2 |-> k2,
   cls1 |-> "cap", cls2 |-> "cap", v |-> Verdict(SymEq(k1, k2, sh))]

\* node identity: known classes by their cap; UnknownNode by its kept slots (both opaque here:
\* an unprefixed cap without node class given as the only cap is refused, unknown.py)
NodeEq(k1, k2, sh) ==
  LET c1 == NodeClass(k1)  c2 == NodeClass(k2) IN
  IF c1 = "UnknownNode" /\ c2 = "UnknownNode"
    THEN LET u1 == UnknownNode(Some(Expand(Skeleton(k1))), None, FALSE)
             u2 == UnknownNode(Some(Expand(Skeleton(k2))), None, FALSE)
         IN u1.rw = None /\ u1.ro = None /\ u2.rw = None /\ u2.ro = None   \* both opaque: (None, None) = (None, None)
    ELSE c1 = c2 /\ SymEq(k1, k2, sh)
NodeCase(k1, k2, sh) ==
  [t |-> "node", toks1 |-> Skeleton(k1), toks2 |-> Skeleton(k2), share |-> SetToSeq(sh), k1 |-> k1, k2 |-> k2,
   cls1 |-> NodeClass(k1), cls2 |-> NodeClass(k2), v |-> Verdict(NodeEq(k1, k2, sh))]

\* UnknownNodes that keep a cap: future-format strings under alleged prefixes, in either slot
UPre == {<<>>, <<"ro.">>, <<"imm.">>}
UStr(pre) == pre \o <<"Q:URI:FOO:", "L6">>
UShape == {[pre |-> p, slot |-> s, deep |-> d] : p \in UPre, s \in {"w", "r"}, d \in BOOLEAN}
UNode(sh, side, samePayload) ==
  LET s == UStr(sh.pre)
      sym == [p \in 1..Len(s) |-> IF s[p] = "L6" THEN (IF samePayload THEN "pay0" ELSE IF side = 1 THEN "pay1" ELSE "pay2") ELSE s[p]]
      w == IF sh.slot = "w" THEN Some(sym) ELSE None
      r == IF sh.slot = "r" THEN Some(sym) ELSE None
      u == UnknownNode(w, r, sh.deep)
      str(x) == IF x.present THEN Some(SlotStr(x, w, r)) ELSE None
  IN [rw |-> str(u.rw), ro |-> str(u.ro)]
UCase(s1, s2, same) ==
  [t |-> "unode", toks1 |-> UStr(s1.pre), toks2 |-> UStr(s2.pre), share |-> IF same THEN <<Len(UStr(s1.pre))>> ELSE <<>>,
   k1 |-> "Unknown", k2 |-> "Unknown", cls1 |-> "UnknownNode", cls2 |-> "UnknownNode",
   slot1 |-> s1.slot, slot2 |-> s2.slot, deep1 |-> s1.deep, deep2 |-> s2.deep,
   v |-> Verdict(UNode(s1, 1, same) = UNode(s2, 2, same))]

\* cap objects for unknown formats (uri.UnknownURI): equal iff the strings are
UCapCase(p1, p2, same) ==
  [t |-> "ucap", toks1 |-> UStr(p1), toks2 |-> UStr(p2), share |-> IF same THEN <<Len(UStr(p1))>> ELSE <<>>,
   k1 |-> "Unknown", k2 |-> "Unknown", cls1 |-> "cap", cls2 |-> "cap", v |-> Verdict(p1 = p2 /\ same)]

\* objects of different sorts are never equal
Sorts == {"cap", "node", "bytes", "none"}
CrossCase(k, a, b) ==
  [t |-> "cross", toks1 |-> Skeleton(k), toks2 |-> Skeleton(k), share |-> SetToSeq(FieldPos(k)), k1 |-> k, k2 |-> k,
   cls1 |-> a, cls2 |-> b, v |-> Verdict(FALSE)]

Cases == {CapCase(p[1], p[2], p[3]) : p \in Pairs} \cup {NodeCase(p[1], p[2], p[3]) : p \in Pairs}
           \cup {UCase(s1, s2, same) : s1 \in UShape, s2 \in UShape, same \in BOOLEAN}
           \cup {UCapCase(p1, p2, same) : p1 \in UPre, p2 \in UPre, same \in BOOLEAN}
           \cup {CrossCase(x[1], x[2], x[3]) : x \in {y \in Kinds \X {"cap", "node"} \X Sorts : y[2] # y[3]}}

ASSUME JsonSerialize(IOEnv.TOK_FILE, TokenTable)
ASSUME ndJsonSerialize(IOEnv.OUT_FILE, SetToSeq(Cases))

VARIABLE c
Init == c \in Cases
Next == UNCHANGED c
Spec == Init /\ [][Next]_c

\* the verdicts are consistent: != is the negation of ==, equal objects must hash equally
C43_NeIsNegation == c.v.ne = ~c.v.eq
C43_HashFollowsEq == c.v.eq => c.v.hash_eq
\* equality of caps is equality of canonical strings: same kind and every field shared
C43_EqIffSameString ==
  c.t = "cap" => (c.v.eq <=> (c.k1 = c.k2 /\ ToSet(c.share) = FieldPos(c.k1)))
\* nodes with a node class compare like their caps
C43_NodesLikeCaps ==
  (c.t = "node" /\ c.cls1 # "UnknownNode" /\ c.cls2 # "UnknownNode") =>
     (c.v.eq <=> (c.k1 = c.k2 /\ ToSet(c.share) = FieldPos(c.k1)))
=============================================================================
