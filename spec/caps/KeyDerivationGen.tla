-------------------------- MODULE KeyDerivationGen --------------------------
(* C17: structural checks of the derivation table (one state per derivation) and GEN of the
   table for the independent interpreter of the adapter. *)
EXTENDS KeyDerivation, Json, IOUtils, SequencesExt

(* ------------------------------------------------------- GEN + checks *)
ASSUME ndJsonSerialize(IOEnv.OUT_FILE, <<[inputs |-> InputLen, table |-> Deriv]>>)

\* one state per derivation; the invariants below are evaluated on each
VARIABLE cur
Init == cur \in Names
Next == UNCHANGED cur
Spec == Init /\ [][Next]_cur

\* every name used is an input with a documented length or another derivation
C17_Closed == Deps(cur) \subseteq Names \cup Inputs
\* no derivation depends on itself
C17_Acyclic == cur \notin AllDeps(cur)
\* domain separation: every derivation has a separating literal and no two share it
C17_TagsDistinct == DomainLit(cur) # "" /\ \A m \in Names \ {cur} : DomainLit(m) # DomainLit(cur)
\* lengths: keys / storage indexes / salts are 16 bytes, secrets and hashes 32; and a derived value
\* used where an input of documented length is expected has that length
C17_Lengths ==
  /\ Deriv[cur].len \in {KeyLen, Full}
  /\ (cur \in {"chk_storage_index", "convergence_key", "ssk_writekey", "ssk_readkey", "ssk_storage_index",
             "ssk_datakey", "dirnode_rwcap_salt", "dirnode_rwcap_key"} <=> Deriv[cur].len = KeyLen)
\* the authority lattice
C17_Lattice ==
  /\ SSKReadCap \subseteq Derivable(SSKWriteCap \cup Public)
  /\ SSKVerifyCap \subseteq Derivable(SSKReadCap \cup Public)
  /\ CHKVerifyCap \subseteq Derivable(CHKReadCap \cup Public)
  /\ {"write_enabler", "dirnode_rwcap_key", "ssk_datakey"} \subseteq Derivable(SSKWriteCap \cup Public \cup {"child_rw_uri"})
  /\ "ssk_datakey" \in Derivable(SSKReadCap \cup Public)
\* ... and what must NOT be computable by the weaker party
C17_NoEscalation ==
  /\ Derivable(SSKReadCap \cup Public \cup {"child_rw_uri", "dirnode_rwcap_salt"})
        \cap {"ssk_writekey", "write_enabler_master", "write_enabler", "dirnode_rwcap_key", "privkey_der"} = {}
  /\ Derivable(SSKVerifyCap \cup Public) \cap {"ssk_readkey", "ssk_datakey", "ssk_writekey"} = {}
  /\ Derivable(CHKVerifyCap \cup Public) \cap {"chk_key"} = {}
  /\ Derivable(ServerView \cup Public)
        \cap {"ssk_readkey", "ssk_writekey", "write_enabler_master", "file_renewal_secret", "file_cancel_secret",
              "client_renewal_secret", "client_cancel_secret", "lease_secret"} = {}
=============================================================================
