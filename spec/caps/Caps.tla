------------------------------- MODULE Caps -------------------------------
(* Capability strings of Tahoe-LAFS (allmydata/uri.py, unknown.py, nodemaker.py).

   A cap string is a sequence of ABSTRACT CHARACTERS.  An abstract character is
   either a literal atom (a cap prefix such as "URI:CHK:", an alleged prefix
   "ro." / "imm.") or a CLASS of concrete characters.  The classes partition
   the printable characters finely enough to state the grammar exactly:

     t16 t8 t4 t2 t1   base32 letters a-z whose alphabet index is divisible by
                       exactly 16 / 8 / 4 / 2 / 1  ({a,q} {i,y} {e,m,u} {c,g,k,o,s,w} odd)
     d4 d2 d1          base32 digits: '4' (index 28), '2','6' (26,30), '3','5','7'
     d0 d9             the digits that are not base32: '0' ; '1','8','9'
     U  X  SP NL ":"   upper-case letter, other printable, space, newline, colon
     Bl Bx Dg          "some base32 letter", "some base32 character", "some digit"
                       (only used inside tokens of generated strings; a string is
                       Decidable when no grammar decision depends on them)

   The grammar (Parse) is the INTENDED one: every known kind is matched on the
   whole string, 128/256-bit fields must be canonical base32 (unused low bits
   zero), numbers are canonical decimals, only the MDMF kinds may carry
   extension fields (":" followed by anything).  Everything else is Unknown.
   Parse is shaped like uri.from_string: strip one alleged prefix, dispatch on
   the kind prefix, check the context constraint, then match the body; the
   directory kinds delegate to the body grammar of their file kind
   (_DirectoryBaseURI.init_from_string). *)
EXTENDS Common

(* ------------------------------------------------------------------ kinds *)
FileKinds == {"CHK", "CHK-Verifier", "LIT", "SSK", "SSK-RO", "SSK-Verifier",
              "MDMF", "MDMF-RO", "MDMF-Verifier"}
DirKinds  == {"DIR2", "DIR2-RO", "DIR2-Verifier", "DIR2-CHK", "DIR2-CHK-Verifier", "DIR2-LIT",
              "DIR2-MDMF", "DIR2-MDMF-RO", "DIR2-MDMF-Verifier"}
Kinds == FileKinds \cup DirKinds

\* the file kind whose body grammar / fields a kind uses (INNER_URI_CLASS)
Inner(k) ==
  CASE k = "DIR2" -> "SSK" [] k = "DIR2-RO" -> "SSK-RO" [] k = "DIR2-Verifier" -> "SSK-Verifier"
    [] k = "DIR2-CHK" -> "CHK" [] k = "DIR2-CHK-Verifier" -> "CHK-Verifier" [] k = "DIR2-LIT" -> "LIT"
    [] k = "DIR2-MDMF" -> "MDMF" [] k = "DIR2-MDMF-RO" -> "MDMF-RO" [] k = "DIR2-MDMF-Verifier" -> "MDMF-Verifier"
    [] OTHER -> k
IsDir(k) == k \in DirKinds
\* wrap_dirnode_cap / the verifier wrappers
Wrap(fk) == CHOOSE k \in DirKinds : Inner(k) = fk
SameShape(k, fk) == IF IsDir(k) THEN Wrap(fk) ELSE fk

WriteKinds   == {"SSK", "MDMF", "DIR2", "DIR2-MDMF"}
MutReadKinds == {"SSK-RO", "MDMF-RO", "DIR2-RO", "DIR2-MDMF-RO"}
VerifyKinds  == {k \in Kinds : Inner(k) \in {"CHK-Verifier", "SSK-Verifier", "MDMF-Verifier"}}

\* authority lattice: write > read > verify
Level(k) == IF k \in WriteKinds THEN 3 ELSE IF k \in VerifyKinds THEN 1 ELSE 2

ReadonlyFileKind(fk) == CASE fk = "SSK" -> "SSK-RO" [] fk = "MDMF" -> "MDMF-RO" [] OTHER -> fk
VerifyFileKind(fk) ==
  CASE fk \in {"CHK", "CHK-Verifier"} -> "CHK-Verifier"
    [] fk \in {"SSK", "SSK-RO", "SSK-Verifier"} -> "SSK-Verifier"
    [] fk \in {"MDMF", "MDMF-RO", "MDMF-Verifier"} -> "MDMF-Verifier"
    [] OTHER -> "None"                       \* LIT: nothing to verify
ReadonlyKind(k) == SameShape(k, ReadonlyFileKind(Inner(k)))
VerifyKind(k) == IF VerifyFileKind(Inner(k)) = "None" THEN "None" ELSE SameShape(k, VerifyFileKind(Inner(k)))

IsReadonly(k) == Level(k) < 3
\* "somebody can change what this cap designates" as the cap classes report it:
\* write- and read-caps of mutable objects; verify caps report FALSE
IsMutable(k) == k \in WriteKinds \cup MutReadKinds

(* ------------------------------------------------------ abstract characters *)
KindAtom(k) == "P:" \o k
IsKindAtom(c) == \E k \in Kinds : KindAtom(k) = c
KindOfAtom(c) == CHOOSE k \in Kinds : KindAtom(k) = c
FutureW == "F:x-tahoe-future-test-writeable:"
FutureM == "F:x-tahoe-future-test-mutable:"

SureB32(c)    == c \in {"Bl", "Bx", "t16", "t8", "t4", "t2", "t1", "d4", "d2", "d1"}
MaybeB32(c)   == SureB32(c) \/ c = "Dg"
SureDigit(c)  == c \in {"d4", "d2", "d1", "d0", "d9", "Dg"}
MaybeDigit(c) == SureDigit(c) \/ c = "Bx"
Exact(c)      == c \notin {"Bl", "Bx", "Dg"}
\* largest power of two (up to 16) dividing the base32 alphabet index of the character
TailMult(c) == CASE c = "t16" -> 16 [] c = "t8" -> 8 [] c \in {"t4", "d4"} -> 4
                 [] c \in {"t2", "d2"} -> 2 [] OTHER -> 1

AllSure(f, P(_)) == \A i \in 1..Len(f) : P(f[i])

(* ------------------------------------------------------------ field grammar *)
\* canonical base32 of exactly `bits` bits: n = ceil(bits/5) characters, the unused
\* low bits of the last character are zero (BASE32STR_128bits / _256bits)
B32Fixed(f, n, mult) ==
  /\ Len(f) = n
  /\ AllSure(f, SureB32)
  /\ Exact(f[n]) /\ TailMult(f[n]) >= mult
K128(f) == B32Fixed(f, 26, 4)
H256(f) == B32Fixed(f, 52, 16)

\* canonical base32 of any whole number of bytes (BASE32STR_anybytes)
B32Any(f) ==
  /\ AllSure(f, SureB32)
  /\ LET r == Len(f) % 8 IN
       \/ r = 0
       \/ r \in {2, 4, 5, 7} /\ Exact(f[Len(f)])
            /\ TailMult(f[Len(f)]) >= (CASE r = 2 -> 4 [] r = 4 -> 16 [] r = 5 -> 2 [] OTHER -> 8)

\* decimal number; canonical = no leading zero (the cap re-serialises numbers with %d)
Digits(f) == Len(f) >= 1 /\ AllSure(f, SureDigit)
Num(f, lenient) == Digits(f) /\ (lenient \/ Len(f) = 1 \/ (Exact(f[1]) /\ f[1] # "d0"))

FieldOK(type, f, lenient) ==
  CASE type = "K128" -> K128(f) [] type = "H256" -> H256(f)
    [] type = "NUM" -> Num(f, lenient) [] type = "ANY" -> B32Any(f)

\* a field on which the Sure-predicates cannot decide (only possible with Bl/Bx/Dg)
Ambiguous(f) ==
  /\ f # <<>>
  /\ \/ AllSure(f, MaybeB32) /\ ~(AllSure(f, SureB32) /\ Exact(f[Len(f)]))
     \/ AllSure(f, MaybeDigit) /\ ~(AllSure(f, SureDigit) /\ Exact(f[1]))

\* the fields between the colons
RECURSIVE Ascending(_)
Ascending(S) == IF S = {} THEN <<>> ELSE LET m == SetMin(S) IN <<m>> \o Ascending(S \ {m})
Split(b) ==
  LET cs == <<0>> \o Ascending({i \in 1..Len(b) : b[i] = ":"}) \o <<Len(b) + 1>>
  IN [j \in 1..(Len(cs) - 1) |-> SubSeq(b, cs[j] + 1, cs[j + 1] - 1)]

Pattern(fk) ==
  CASE fk \in {"CHK", "CHK-Verifier"} -> <<"K128", "H256", "NUM", "NUM", "NUM">>
    [] fk = "LIT" -> <<"ANY">>
    [] OTHER -> <<"K128", "H256">>
\* only the MDMF formats may be followed by extension fields
HasExt(fk) == fk \in {"MDMF", "MDMF-RO", "MDMF-Verifier"}

\* do the fields fs of a body (characters after the kind prefix, split at the colons)
\* belong to the grammar of file kind fk ?
FieldsOK(fk, fs, lenient) ==
  LET p == Pattern(fk) IN
  /\ IF HasExt(fk) THEN Len(fs) >= Len(p) ELSE Len(fs) = Len(p)
  /\ \A i \in 1..Len(p) : FieldOK(p[i], fs[i], lenient)
BodyOK(fk, body, lenient) == FieldsOK(fk, Split(body), lenient)

\* length of the part of the body that is the cap proper (extension fields are dropped)
RECURSIVE SumLen(_, _)
SumLen(fs, n) == IF n = 0 THEN 0 ELSE Len(fs[n]) + SumLen(fs, n - 1)
CoreLen(fk, fs) == LET n == Len(Pattern(fk)) IN SumLen(fs, n) + (n - 1)

\* Why is a body outside the grammar?  Only used to name the disagreement when the
\* implementation accepts it: "num_leading_zero" (all that is wrong is a non-canonical
\* number), "trailing_newline" / "trailing_junk" (a proper prefix is a cap), "malformed".
WhyNot(fk, fs) ==
  LET p == Pattern(fk)  n == Len(p) IN
  IF FieldsOK(fk, fs, TRUE) THEN "num_leading_zero"
  ELSE IF Len(fs) < n \/ \E i \in 1..(n - 1) : ~FieldOK(p[i], fs[i], TRUE) THEN "malformed"
  ELSE LET last == fs[n]
           cut == {j \in 0..Len(last) : FieldOK(p[n], SubSeq(last, 1, j), TRUE)
                                        /\ (j < Len(last) \/ Len(fs) > n)}
       IN IF cut = {} THEN "malformed"
          ELSE IF Len(fs) = n /\ (Len(last) - 1) \in cut /\ last[Len(last)] = "NL"
               THEN "trailing_newline" ELSE "trailing_junk"

(* ------------------------------------------------------------------- Parse *)
StripAlleged(s) ==
  IF s # <<>> /\ s[1] = "imm." THEN [canW |-> FALSE, canM |-> FALSE, off |-> 1]
  ELSE IF s # <<>> /\ s[1] = "ro." THEN [canW |-> FALSE, canM |-> TRUE, off |-> 1]
  ELSE [canW |-> TRUE, canM |-> TRUE, off |-> 0]

UnknownRes(s, err, why) == [kind |-> "Unknown", err |-> err, why |-> why, lo |-> 1, hi |-> Len(s)]

\* Parse(s, deep): kind ("Unknown" if not a cap of a known kind in this context),
\* err: "none" | "bad" (known prefix, body outside the grammar) | "ro" | "imm" (context
\* constraint not met: MustBeReadonlyError / MustBeDeepImmutableError),
\* lo..hi: the characters of s that the canonical re-serialisation consists of.
Parse(s, deep) ==
  LET a == StripAlleged(s)
      canW == a.canW /\ ~deep
      canM == a.canM /\ ~deep
      rest == SubSeq(s, a.off + 1, Len(s))
      cerr == IF ~canM THEN "imm" ELSE "ro"
  IN
  IF rest = <<>> THEN UnknownRes(s, "none", "no_prefix")
  ELSE IF rest[1] = FutureW /\ ~canW THEN UnknownRes(s, cerr, "constraint")
  ELSE IF rest[1] = FutureM /\ ~canM THEN UnknownRes(s, cerr, "constraint")
  ELSE IF ~IsKindAtom(rest[1]) THEN UnknownRes(s, "none", "no_prefix")
  ELSE
    LET k == KindOfAtom(rest[1])
        fs == Split(Tail(rest))
    IN IF k \in WriteKinds /\ ~canW THEN UnknownRes(s, cerr, "constraint")
       ELSE IF k \in MutReadKinds /\ ~canM THEN UnknownRes(s, cerr, "constraint")
       ELSE IF FieldsOK(Inner(k), fs, FALSE)
            THEN [kind |-> k, err |-> "none", why |-> "ok", lo |-> a.off + 1,
                  hi |-> a.off + 1 + CoreLen(Inner(k), fs)]
            ELSE UnknownRes(s, "bad", WhyNot(Inner(k), fs))

\* no decision of Parse on s hinges on an imprecise character
Decidable(s) == LET fs == Split(s) IN \A i \in 1..Len(fs) : ~Ambiguous(fs[i])

Canon(s, deep) == LET r == Parse(s, deep) IN SubSeq(s, r.lo, r.hi)

(* ------------------------------------------------- tokens of generated strings *)
Rep(c, n) == [i \in 1..n |-> c]
B32Tok(n, tail) == <<"Bl">> \o Rep("Bx", n - 2) \o <<tail>>

\* token name -> abstract characters.  Every token ends (and numbers start) with an exact character.
\* (written as a CASE, not as a table: TLC re-evaluates a table-valued definition at every use)
K128Toks == {"K128/t16", "K128/t8", "K128/t4", "K128/d4", "K128/t2", "K128/d2", "K128/t1", "K128/d1"}
H256Toks == {"H256/t16", "H256/t8", "H256/t4", "H256/d4", "H256/t2", "H256/d2", "H256/t1", "H256/d1"}
TailOf(t) == CASE t \in {"K128/t16", "H256/t16"} -> "t16"
               [] t \in {"K128/t8", "H256/t8"} -> "t8"
               [] t \in {"K128/t4", "H256/t4"} -> "t4"
               [] t \in {"K128/d4", "H256/d4"} -> "d4"
               [] t \in {"K128/t2", "H256/t2"} -> "t2"
               [] t \in {"K128/d2", "H256/d2"} -> "d2"
               [] t \in {"K128/t1", "H256/t1"} -> "t1"
               [] t \in {"K128/d1", "H256/d1"} -> "d1"
PlainToks == {"K128-short", "K128-long", "H256-short", "H256-long", "K128-upper", "K128-nonb32", "H256-upper",
              "N1", "N3", "N25", "N0", "N-lz", "N-lz2", "N-neg",
              "L0", "L1", "L2", "L3", "L4", "L5", "L6", "L20", "L1-nc", "L2-nc", "L3-nc", "L4-nc", "L-len1", "L-len3", "L-len6",
              "COLON", "X", "UP", "NL", "SP", "b", "NLNL", "XNL"}
\* tokens that are one literal atom: the token name is the abstract character
AtomToks == {"ro.", "imm.", FutureW, FutureM,
             "Q:URI:FOO:", "Q:uri:chk:", "Q:URI:CHK-Verifer:", "Q:URI:DIR2-SSK:", "Q:http://"}
               \cup {KindAtom(k) : k \in Kinds}
Tokens == K128Toks \cup H256Toks \cup PlainToks \cup AtomToks

TokChars(t) ==
  CASE t \in K128Toks -> B32Tok(26, TailOf(t))
    [] t \in H256Toks -> B32Tok(52, TailOf(t))
    [] t = "K128-short" -> B32Tok(25, "t16") [] t = "K128-long" -> B32Tok(27, "t16")
    [] t = "H256-short" -> B32Tok(51, "t16") [] t = "H256-long" -> B32Tok(53, "t16")
    [] t = "K128-upper" -> <<"Bl", "U">> \o Rep("Bx", 23) \o <<"t16">>
    [] t = "K128-nonb32" -> <<"Bl", "d9">> \o Rep("Bx", 23) \o <<"t16">>
    [] t = "H256-upper" -> <<"Bl", "U">> \o Rep("Bx", 49) \o <<"t16">>
    [] t = "N1" -> <<"d1">> [] t = "N3" -> <<"d9", "Dg", "d9">>
    [] t = "N25" -> <<"d9">> \o Rep("Dg", 23) \o <<"d9">>
    [] t = "N0" -> <<"d0">> [] t = "N-lz" -> <<"d0", "d9">> [] t = "N-lz2" -> <<"d0", "d0", "d1">>
    [] t = "N-neg" -> <<"X", "d9">>
    [] t = "L0" -> <<>> [] t = "L1" -> <<"Bl", "t4">> [] t = "L2" -> B32Tok(4, "t16") [] t = "L3" -> B32Tok(5, "d2")
    [] t = "L4" -> B32Tok(7, "t8") [] t = "L5" -> B32Tok(8, "t1") [] t = "L6" -> B32Tok(10, "d4")
    [] t = "L20" -> B32Tok(32, "d1")
    [] t = "L1-nc" -> <<"Bl", "t2">> [] t = "L2-nc" -> B32Tok(4, "t8") [] t = "L3-nc" -> B32Tok(5, "t1")
    [] t = "L4-nc" -> B32Tok(7, "d4") [] t = "L-len1" -> <<"t16">> [] t = "L-len3" -> B32Tok(3, "t16")
    [] t = "L-len6" -> B32Tok(6, "t16")
    [] t = "COLON" -> <<":">> [] t = "X" -> <<"X">> [] t = "UP" -> <<"U">> [] t = "NL" -> <<"NL">>
    [] t = "SP" -> <<"SP">> [] t = "b" -> <<"t1">> [] t = "NLNL" -> <<"NL", "NL">> [] t = "XNL" -> <<"X", "NL">>
    [] OTHER -> <<t>>
TokenTable == [t \in Tokens |-> TokChars(t)]

RECURSIVE Expand(_)
Expand(ts) == IF ts = <<>> THEN <<>> ELSE TokChars(Head(ts)) \o Expand(Tail(ts))

\* the canonical token sequence of each kind (what to_string produces, with one choice of
\* tail classes and number shapes)
Skeleton(k) ==
  <<KindAtom(k)>> \o
  (CASE Inner(k) \in {"CHK", "CHK-Verifier"} ->
          <<"K128/t4", "COLON", "H256/t16", "COLON", "N1", "COLON", "N3", "COLON", "N25">>
     [] Inner(k) = "LIT" -> <<"L6">>
     [] OTHER -> <<"K128/t4", "COLON", "H256/t16">>)

\* token-level mutations
Replace1(ts, A) == {[ts EXCEPT ![i] = t] : i \in 1..Len(ts), t \in A}
Insert1(ts, A) == {SubSeq(ts, 1, i) \o <<t>> \o SubSeq(ts, i + 1, Len(ts)) : i \in 0..Len(ts), t \in A}
Delete1(ts) == {SubSeq(ts, 1, i - 1) \o SubSeq(ts, i + 1, Len(ts)) : i \in 1..Len(ts)}
Mut1(ts, A) == Replace1(ts, A) \cup Insert1(ts, A) \cup Delete1(ts)

(* ------------------------------------------------------ UnknownNode (unknown.py) *)
\* A cap string slot is either absent or an abstract string.  UnknownNode(rw, ro, deep) keeps
\* (rw_uri, ro_uri) or records an error and becomes opaque (both None).  A kept slot is
\* described by where its text comes from: the given string `src` ("rw" or "ro") with its
\* first `drop` characters removed and the alleged prefix `add` put in front.
None == [present |-> FALSE]
Some(s) == [present |-> TRUE, s |-> s]
Kept(src, drop, add) == [present |-> TRUE, src |-> src, drop |-> drop, add |-> add]
HasPfx(x, p) == x.present /\ x.s # <<>> /\ x.s[1] = p
Alleged(x) == HasPfx(x, "ro.") \/ HasPfx(x, "imm.")
Opaque(err) == [err |-> err, rw |-> None, ro |-> None]

\* second half of UnknownNode.__init__: `ro` (taken from slot rosrc) is the read cap, apply the context
UNFinish(rwkept, ro, rosrc, deep) ==
  LET perr == IF ro.present THEN Parse(ro.s, deep) ELSE [kind |-> "Unknown", err |-> "none"] IN
  IF ro.present /\ perr.kind = "Unknown" /\ perr.err # "none" THEN Opaque(perr.err)
  \* a cap of a known kind in the read slot must not be a write cap (it would be stored in the clear
  \* part of a directory entry): rejected like any cap failing the read-only constraint
  \* (behaviour since the "fix: UnknownNode accepted a known write-cap in the ro_uri slot" commit)
  ELSE IF ro.present /\ perr.kind \in WriteKinds THEN Opaque("ro")
  ELSE IF deep THEN
         [err |-> "none", rw |-> None,
          ro |-> IF ~ro.present THEN None
                 ELSE IF HasPfx(ro, "imm.") THEN Kept(rosrc, 0, "")
                 ELSE IF HasPfx(ro, "ro.") THEN Kept(rosrc, 1, "imm.")
                 ELSE Kept(rosrc, 0, "imm.")]
       ELSE
         [err |-> "none", rw |-> rwkept,
          ro |-> IF ~ro.present THEN None
                 ELSE IF Alleged(ro) THEN Kept(rosrc, 0, "") ELSE Kept(rosrc, 0, "ro.")]

\* empty strings count as absent (given_rw_uri or None)
Norm(x) == IF x.present /\ x.s = <<>> THEN None ELSE x
UnknownNode(rw0, ro0, deep) ==
  LET rw == Norm(rw0)  ro == Norm(ro0) IN
  IF rw.present THEN
    IF deep /\ ~(HasPfx(rw, "imm.") /\ ~ro.present)
      THEN Opaque(IF ~ro.present THEN "unknown_rw" ELSE "imm")
    ELSE IF ~ro.present THEN
      IF ~Alleged(rw) THEN Opaque("unknown_rw")
      ELSE UNFinish(None, rw, "rw", deep)          \* an alleged cap alone is treated as given in the ro slot
    ELSE IF HasPfx(ro, "imm.") THEN Opaque("imm")
    ELSE UNFinish(Kept("rw", 0, ""), ro, "ro", deep)
  ELSE UNFinish(None, ro, "ro", deep)

\* the abstract string a kept slot stands for
SlotStr(slot, rw0, ro0) ==
  LET src == IF slot.src = "rw" THEN rw0.s ELSE ro0.s IN
  (IF slot.add = "" THEN <<>> ELSE <<slot.add>>) \o SubSeq(src, slot.drop + 1, Len(src))

(* ------------------------------------------------------- nodes (nodemaker.py) *)
NodeClass(k) ==
  CASE k = "LIT" -> "LiteralFileNode" [] k = "CHK" -> "ImmutableFileNode"
    [] k = "CHK-Verifier" -> "CiphertextFileNode"
    [] k \in {"SSK", "SSK-RO", "MDMF", "MDMF-RO"} -> "MutableFileNode"
    [] k \in DirKinds \ VerifyKinds -> "DirectoryNode"
    [] OTHER -> "UnknownNode"          \* Unknown, and the verify caps that have no node class

\* create_from_cap(writecap, readcap, deep): the node class and, for an UnknownNode, its slots
CreateFromCap(w, r, deep) ==
  LET big == IF Norm(w).present THEN Norm(w) ELSE Norm(r) IN
  IF ~big.present THEN [cls |-> "UnknownNode", kind |-> "Unknown", un |-> UnknownNode(None, None, FALSE)]
  ELSE LET p == Parse(big.s, deep)  cls == NodeClass(p.kind) IN
       [cls |-> cls, kind |-> p.kind,
        un |-> IF cls = "UnknownNode" THEN UnknownNode(w, r, deep) ELSE Opaque("n/a")]

(* ---------------------------------------------- attenuation (get_readonly / get_verify_cap) *)
\* The fields of a derived cap as terms over the fields of the cap it is derived from:
\* F(i) copies field i, D(name, t) applies the key derivation `name` of KeyDerivation.tla.
F(i) == [op |-> "f", i |-> i]
D(name, t) == [op |-> "d", name |-> name, arg |-> t]
NFields(fk) == Len(Pattern(fk))
Identity(fk) == [i \in 1..NFields(fk) |-> F(i)]
RoFieldTerms(fk) == IF fk \in {"SSK", "MDMF"} THEN <<D("ssk_readkey", F(1)), F(2)>> ELSE Identity(fk)
VFieldTerms(fk) ==
  CASE fk = "CHK" -> <<D("chk_storage_index", F(1)), F(2), F(3), F(4), F(5)>>
    [] fk \in {"SSK", "MDMF"} -> <<D("ssk_storage_index", D("ssk_readkey", F(1))), F(2)>>
    [] fk \in {"SSK-RO", "MDMF-RO"} -> <<D("ssk_storage_index", F(1)), F(2)>>
    [] OTHER -> Identity(fk)
\* storage index and integrity field (fingerprint / UEB hash) of a cap, over its own fields
SITerm(fk) ==
  CASE fk = "CHK" -> D("chk_storage_index", F(1))
    [] fk \in {"SSK", "MDMF"} -> D("ssk_storage_index", D("ssk_readkey", F(1)))
    [] fk \in {"SSK-RO", "MDMF-RO"} -> D("ssk_storage_index", F(1))
    [] fk = "LIT" -> [op |-> "none"]
    [] OTHER -> F(1)
\* term t over the fields of a derived cap, rewritten over the fields of the original
RECURSIVE Subst(_, _)
Subst(t, fts) == IF t.op = "f" THEN fts[t.i] ELSE IF t.op = "d" THEN D(t.name, Subst(t.arg, fts)) ELSE t
\* the field of the cap that is its secret (what distinguishes its level from the next lower one)
SecretField(fk) == IF fk \in {"CHK", "SSK", "SSK-RO", "MDMF", "MDMF-RO"} THEN {1} ELSE {}
\* fields revealed verbatim by a list of field terms
Reveals(fts) == {fts[i].i : i \in {j \in 1..Len(fts) : fts[j].op = "f"}}

(* ------------------------------------------------------------- identity (==, !=, hash) *)
\* a cap with symbolic field values; two caps are equal iff their serialisations are
RECURSIVE JoinColon(_)
JoinColon(vs) == IF Len(vs) = 0 THEN <<>> ELSE IF Len(vs) = 1 THEN <<vs[1]>> ELSE <<vs[1], ":">> \o JoinColon(Tail(vs))
SerializeSym(kind, vals) == <<KindAtom(kind)>> \o JoinColon(vals)
CapEq(k1, v1, k2, v2) == SerializeSym(k1, v1) = SerializeSym(k2, v2)
=============================================================================
