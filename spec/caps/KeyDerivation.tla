--------------------------- MODULE KeyDerivation ---------------------------
(* Every key, storage index and secret Tahoe-LAFS derives, as a TERM over named values.

     V(n)               the value named n: an input (random secret, key material, ...) or,
                        if n is itself in the table, the value derived for it
     Lit(s)             the ASCII bytes of s
     Dec(n)             the decimal ASCII representation of the integer named n
     NS(t)              netstring of t:  len ":" bytes ","
     Cat(<<t1, ...>>)   concatenation
     TH(tag, x, len)    tagged hash       SHA256d(NS(tag) ++ x)            truncated to len bytes
     TPH(tag, a, b, len) tagged pair hash SHA256d(NS(tag) ++ NS(a) ++ NS(b)) truncated to len bytes

   SHA-256 itself is outside TLA+.  What this module states is WHICH tag, WHICH inputs, in
   WHICH order and WHICH truncation every derivation uses, and the structural properties
   that make the scheme sound: distinct tags (domain separation), no cycles, and the
   authority lattice (what can and cannot be computed from what a weaker party holds).

   Sources: docs/specifications/lease.rst and derive_renewal_secret.py (lease secret chain,
   including the historical argument order of the client secrets: the lease secret is in the
   TAG position), file-encoding.rst (storage index of immutable files), mutable.rst and
   dirnodes.rst (chains in prose).  The tag strings not spelled out in those documents are
   the deployed constants; changing any of them makes existing files unreachable, which is
   why they are frozen here. *)
EXTENDS Common

V(n) == [op |-> "v", name |-> n]
Lit(s) == [op |-> "lit", s |-> s]
Dec(n) == [op |-> "dec", name |-> n]
NS(t) == [op |-> "ns", arg |-> t]
Cat(ts) == [op |-> "cat", parts |-> ts]
TH(tag, x, len) == [op |-> "th", tag |-> tag, arg |-> x, len |-> len]
TPH(tag, a, b, len) == [op |-> "tph", tag |-> tag, a |-> a, b |-> b, len |-> len]

Full == 32      \* an untruncated SHA-256d output
KeyLen == 16    \* AES-128 keys, storage indexes, salts

(* ------------------------------------------------------------ the table *)
Deriv ==
  \* --- immutable files
  "chk_storage_index"   :> TH(Lit("allmydata_immutable_key_to_storage_index_v1"), V("chk_key"), KeyLen) @@
  "convergence_key"     :> TH(Cat(<<Lit("allmydata_immutable_content_to_key_with_added_secret_v1+"),
                                    NS(V("convergence_secret")),
                                    NS(Cat(<<Dec("k"), Lit(","), Dec("n"), Lit(","), Dec("segsize")>>))>>),
                              V("plaintext"), KeyLen) @@
  "uri_extension_hash"      :> TH(Lit("allmydata_uri_extension_v1"), V("data"), Full) @@
  "block_hash"              :> TH(Lit("allmydata_encoded_subshare_v1"), V("data"), Full) @@
  "plaintext_hash"          :> TH(Lit("allmydata_plaintext_v1"), V("data"), Full) @@
  "crypttext_hash"          :> TH(Lit("allmydata_crypttext_v1"), V("data"), Full) @@
  "crypttext_segment_hash"  :> TH(Lit("allmydata_crypttext_segment_v1"), V("data"), Full) @@
  "plaintext_segment_hash"  :> TH(Lit("allmydata_plaintext_segment_v1"), V("data"), Full) @@
  "merkle_empty_leaf"       :> TH(Lit("Merkle tree empty leaf"), Dec("i"), Full) @@
  "merkle_pair"             :> TPH(Lit("Merkle tree internal node"), V("left"), V("right"), Full) @@
  \* --- lease secrets: client -> file -> bucket (per server).  NB the client level hashes with the
  \*     lease secret in the tag position and the tag string as the value (lease.rst, reference implementation)
  "client_renewal_secret" :> TH(V("lease_secret"), Lit("allmydata_client_renewal_secret_v1"), Full) @@
  "client_cancel_secret"  :> TH(V("lease_secret"), Lit("allmydata_client_cancel_secret_v1"), Full) @@
  "file_renewal_secret"   :> TPH(Lit("allmydata_file_renewal_secret_v1"), V("client_renewal_secret"), V("storage_index"), Full) @@
  "file_cancel_secret"    :> TPH(Lit("allmydata_file_cancel_secret_v1"), V("client_cancel_secret"), V("storage_index"), Full) @@
  "bucket_renewal_secret" :> TPH(Lit("allmydata_bucket_renewal_secret_v1"), V("file_renewal_secret"), V("peerid"), Full) @@
  "bucket_cancel_secret"  :> TPH(Lit("allmydata_bucket_cancel_secret_v1"), V("file_cancel_secret"), V("peerid"), Full) @@
  \* --- mutable files: signing key -> write key -> read key -> storage index
  "ssk_writekey"      :> TH(Lit("allmydata_mutable_privkey_to_writekey_v1"), V("privkey_der"), KeyLen) @@
  "ssk_fingerprint"   :> TH(Lit("allmydata_mutable_pubkey_to_fingerprint_v1"), V("pubkey_der"), Full) @@
  "ssk_readkey"       :> TH(Lit("allmydata_mutable_writekey_to_readkey_v1"), V("ssk_writekey"), KeyLen) @@
  "ssk_storage_index" :> TH(Lit("allmydata_mutable_readkey_to_storage_index_v1"), V("ssk_readkey"), KeyLen) @@
  "ssk_datakey"       :> TPH(Lit("allmydata_mutable_readkey_to_datakey_v1"), V("iv"), V("ssk_readkey"), KeyLen) @@
  "write_enabler_master" :> TH(Lit("allmydata_mutable_writekey_to_write_enabler_master_v1"), V("ssk_writekey"), Full) @@
  "write_enabler"     :> TPH(Lit("allmydata_mutable_write_enabler_master_and_nodeid_to_write_enabler_v1"),
                             V("write_enabler_master"), V("peerid"), Full) @@
  \* --- directories: the key that hides a child's write cap from holders of the read cap
  "dirnode_rwcap_salt" :> TH(Lit("allmydata_dirnode_child_rwcap_to_salt_v1"), V("child_rw_uri"), KeyLen) @@
  "dirnode_rwcap_key"  :> TPH(Lit("allmydata_mutable_writekey_and_salt_to_dirnode_child_capkey_v1"),
                              V("dirnode_rwcap_salt"), V("ssk_writekey"), KeyLen) @@
  \* --- backup database
  "backupdb_dirhash"   :> TH(Lit("allmydata_backupdb_dirhash_v1"), V("data"), Full)

Names == DOMAIN Deriv

\* documented lengths of the inputs (bytes); 0 = any length / not a byte string
InputLen ==
  "chk_key" :> 16 @@ "convergence_secret" :> 32 @@ "plaintext" :> 0 @@ "data" :> 0 @@ "left" :> 32 @@ "right" :> 32 @@
  "lease_secret" :> 32 @@ "storage_index" :> 16 @@ "peerid" :> 20 @@ "privkey_der" :> 0 @@ "pubkey_der" :> 0 @@
  "iv" :> 16 @@ "child_rw_uri" :> 0 @@ "k" :> 0 @@ "n" :> 0 @@ "segsize" :> 0 @@ "i" :> 0
Inputs == DOMAIN InputLen

(* --------------------------------------------------------- structure *)
RECURSIVE Refs(_)
\* names whose value a term uses
Refs(t) ==
  CASE t.op \in {"v", "dec"} -> {t.name}
    [] t.op = "lit" -> {}
    [] t.op = "ns" -> Refs(t.arg)
    [] t.op = "cat" -> UNION {Refs(t.parts[i]) : i \in 1..Len(t.parts)}
    [] t.op = "th" -> Refs(t.tag) \cup Refs(t.arg)
    [] t.op = "tph" -> Refs(t.tag) \cup Refs(t.a) \cup Refs(t.b)
Deps(n) == Refs(Deriv[n])

RECURSIVE Lits(_)
\* literal strings occurring in a term, with the position they occur in
Lits(t) ==
  CASE t.op \in {"v", "dec"} -> {}
    [] t.op = "lit" -> {t.s}
    [] t.op = "ns" -> Lits(t.arg)
    [] t.op = "cat" -> UNION {Lits(t.parts[i]) : i \in 1..Len(t.parts)}
    [] t.op = "th" -> Lits(t.tag) \cup Lits(t.arg)
    [] t.op = "tph" -> Lits(t.tag) \cup Lits(t.a) \cup Lits(t.b)
\* the literal that separates the domain of derivation n from all others: the first literal of its
\* tag, or (client secrets: the secret is in the tag position) the literal in the value position
DomainLit(n) ==
  LET t == Deriv[n]
      firstLit(x) == IF x.op = "lit" THEN x.s ELSE IF x.op = "cat" /\ x.parts[1].op = "lit" THEN x.parts[1].s ELSE ""
  IN IF firstLit(t.tag) # "" THEN firstLit(t.tag) ELSE IF t.op = "th" THEN firstLit(t.arg) ELSE ""

\* transitive dependencies
RECURSIVE DepsUpTo(_, _)
DepsUpTo(n, d) == IF d = 0 THEN {} ELSE Deps(n) \cup UNION {DepsUpTo(m, d - 1) : m \in Deps(n) \cap Names}
AllDeps(n) == DepsUpTo(n, Cardinality(Names))

\* what can be computed from a set K of known values (and public knowledge Pub)
RECURSIVE Closure(_, _)
Closure(K, fuel) ==
  LET more == {n \in Names : Deps(n) \subseteq K} IN
  IF fuel = 0 \/ more \subseteq K THEN K ELSE Closure(K \cup more, fuel - 1)
Derivable(K) == Closure(K, Cardinality(Names))

\* values anyone may know: server identities, salts/IVs stored next to the data, public keys, parameters
Public == {"peerid", "iv", "pubkey_der", "k", "n", "segsize", "i"}

(* what each party holds *)
SSKWriteCap  == {"ssk_writekey", "ssk_fingerprint"}
SSKReadCap   == {"ssk_readkey", "ssk_fingerprint"}
SSKVerifyCap == {"ssk_storage_index", "ssk_fingerprint"}
CHKReadCap   == {"chk_key", "uri_extension_hash"}
CHKVerifyCap == {"chk_storage_index", "uri_extension_hash"}
\* a storage server holding a mutable share: the write enabler and lease secrets it was given, for its own peerid
ServerView   == {"write_enabler", "bucket_renewal_secret", "bucket_cancel_secret", "ssk_storage_index", "storage_index"}
=============================================================================
