---------------------------- MODULE MCIntroducer ----------------------------
(* Model checking of Introducer.tla: an adversary hands the client arbitrary
   batches of genuine, replayed, reordered, forged (wrong key / tampered),
   malformed, seqnum-less and non-integer-seqnum items.

   The state is the client's store only.  C34_Monotone is an action property
   over every transition.  The clauses that talk about the batch are stated as
   invariants quantified over every batch the adversary could send next (the
   same set the transitions are generated from), which keeps the batch out of
   the state: a history variable holding it multiplies the state space by the
   number of batches. *)
EXTENDS Introducer

CONSTANTS Keys, Services, Subs0, MaxSeq, Bodies, MaxBatch, MaxStep, LateSubscribe

VARIABLES S
vars == <<S>>

Seqs == {[k |-> "none", n |-> 0], [k |-> "nonint", n |-> 0]} \cup {[k |-> "int", n |-> n] : n \in 0..MaxSeq}
\* who produced the signature: the claimed key, another key, nobody; or the encoding is broken
Forgeries == {[origin |-> o, wellformed |-> TRUE] : o \in Keys \cup {"none"}} \cup {[origin |-> "none", wellformed |-> FALSE]}
Items == {[svc |-> s, key |-> k, origin |-> f.origin, wellformed |-> f.wellformed, seq |-> q, body |-> b] :
             s \in Services, k \in Keys, f \in Forgeries, q \in Seqs, b \in Bodies}
Batches == UNION {[1..n -> Items] : n \in 0..MaxBatch}

Init == S = InitS(Services, Keys, Subs0)

\* transitions: batches of at most MaxStep items (longer batches reach the same states)
DoReceive == \E b \in UNION {[1..n -> Items] : n \in 0..MaxStep} : S' = Receive(S, b).S
DoSubscribe == LateSubscribe /\ \E svc \in Services \ S.subs : S' = Subscribe(S, svc)
Next == DoReceive \/ DoSubscribe
Spec == Init /\ [][Next]_vars

TypeOK == /\ \A i \in DOMAIN S.store : S.store[i] = Absent \/ (S.store[i].present /\ S.store[i].seq \in Seqs /\ S.store[i].body \in Bodies)
          /\ \A i \in DOMAIN S.store : S.store[i].present => i[1] \in S.subs

C34_Monotone == [][MonotoneStep(S, S')]_vars
\* Per-item clauses: every store a batch passes through is itself a reachable state, so quantifying
\* over single items from every reachable state covers every position of every batch.
C34_Authentic == \A it \in Items : LET r == Receive(S, <<it>>) IN AuthenticStep(S, r.S, <<it>>, r.out)
C34_Attribution == \A it \in Items : LET r == Receive(S, <<it>>) IN AttributionStep(<<it>>, r.out)
C34_BatchIndependent == \A b \in Batches : LET r == Receive(S, b) IN BatchIndependentStep(S, r.S, b, r.out)
\* an exact duplicate of what is stored is not delivered again; a subscriber that joins later is told exactly the stored entries
C34_NoDuplicateDelivery ==
  \A it \in Items : (S.store[Idx(it)] = Entry(it)) => Receive(S, <<it>>).out = <<>>
C34_LateSubscriber ==
  \A svc \in S.subs : \A d \in StoredFor(S, svc) : S.store[<<d.svc, d.key>>] = [present |-> TRUE, seq |-> d.seq, body |-> d.body]
=============================================================================
