---------------------- MODULE TraceStorageClientState ----------------------
(* Trace validation of a real StorageFarmBroker (and the NativeStorageServer
   objects it creates) against StorageClientState.tla.

   consts: sids, lids, tubs (every tub id that occurs), anns[sid][kind] =
           [ann, sup, tub, nick], vers[v] = [avail]
   events (each carries `obs`, what the real objects answer after the event):
     Static(entries)        set_static_servers / servers.yaml, entries = [sid, kind, ok] in processing order
     Announce(sid, kind)    the introducer client delivers an announcement
     Connect(obj, ver, resets)   the reconnector of obj hands over a connection whose get_version answers ver
     ConnectDead(obj)       ... the connection dies before the version answer
     Lose(obj)              the connection of obj is lost (notifyOnDisconnect)
     Listen(lid, th)        when_connected_enough(th)
     Tick(dt)               time passes
     Stop                   StorageFarmBroker.stopService (last event)
   The verdict is the name of the first observable that differs from the Spec's state ("" = all agree).
   Contract level: objects are compared through their public answers; for a superseded object only "makes no
   more connection attempts" and its immutable answers are judged; while a server is disconnected its version
   information may be the stale one or none (the class docstring and _lost() disagree about it). *)
EXTENDS StorageClientState, Json, IOUtils, TLCExt

Traces == JsonDeserialize(IOEnv.TRACE_FILE)

VARIABLES tid, l, S, bad
tvars == <<tid, l, S, bad>>

C == Traces[tid].consts
Events == Traces[tid].events
Ev == Events[l]
Sids == ToSet(C.sids)
Lids == ToSet(C.lids)
Tubs == ToSet(C.tubs)

AnnOf(sid, kind) == C.anns[sid][kind]
Entry(e) == AnnOf(e.sid, e.kind) @@ [sid |-> e.sid, ok |-> e.ok]

V(c, s) == [c |-> c, s |-> s]

(* ---- one object's answers against its Spec record ------------------------ *)
ObjClause(x, o, isCur, stopped) ==
  IF x.sid # o.sid THEN "XS_object_serverid"
  ELSE IF x.ann # o.ann THEN "XS_object_announcement"
  ELSE IF x.nick # o.nick THEN "XS_object_nickname"
  ELSE IF x.quiet # o.quiet THEN (IF o.quiet THEN "XS_superseded_still_connecting" ELSE "XS_current_server_stopped")
  ELSE IF ~isCur \/ stopped THEN ""
  ELSE IF o.sup /\ x.starts # 1 THEN "XS_connection_started_once"
  ELSE IF ~x.inbroker THEN "XS_current_server_not_child_of_broker"
  ELSE IF x.conn # o.conn THEN "XS_is_connected"
  ELSE IF x.lc # o.lc THEN "XS_last_connect_time"
  ELSE IF x.ll # o.ll THEN "XS_last_loss_time"
  ELSE IF x.storage # o.ever \/ x.rref # o.ever THEN "XS_storage_server_after_first_connect"
  ELSE IF o.conn /\ x.ver # o.ver THEN "XS_version_at_connect"
  ELSE IF ~o.conn /\ x.ver \notin {o.ver, "none"} THEN "XS_version_at_connect"
  ELSE IF x.nots # o.nots THEN "XS_status_notifications"
  ELSE IF o.conn /\ x.avail_err THEN (IF o.ver = "default" THEN "XS_default_version_unusable" ELSE "XS_available_space")
  ELSE IF o.conn /\ x.avail # C.vers[o.ver].avail THEN "XS_available_space"
  ELSE ""

RECURSIVE FirstObjClause(_, _, _, _)
FirstObjClause(T, obs, o, stopped) ==
  IF o > Len(T.objs) THEN ""
  ELSE LET c == ObjClause(obs.objs[o], T.objs[o], o \in Known(T), stopped)
       IN IF c # "" THEN c ELSE FirstObjClause(T, obs, o + 1, stopped)

FiredClause(T, obs) ==
  IF \E x \in Lids : obs.fired[x] > 1 THEN "XS_threshold_fired_twice"
  ELSE IF \E x \in Lids : obs.fired[x] > T.fired[x] THEN "XS_threshold_fired_early"
  ELSE IF \E x \in Lids : obs.fired[x] < T.fired[x] THEN "XS_threshold_not_fired"
  ELSE ""

(* ---- the broker's answers against the Spec state T ----------------------- *)
Judge(T, e, stopped) ==
  LET obs == e.obs IN
  IF e.raised # "" THEN "XS_entry_point_raised"
  \* nothing may fail behind the scenes (exception in an eventual-send turn, unhandled Deferred failure); the one
  \* expected log entry is the DeadReferenceError of a connection that died before its version answer
  ELSE IF e.ev # "ConnectDead" /\ obs.errors > 0 THEN "XS_error_logged"
  ELSE IF obs.nobjs # Len(T.objs) THEN
    (IF obs.nobjs > Len(T.objs) THEN "XS_unexpected_server_object_created" ELSE "XS_server_object_not_created")
  ELSE IF ToSet(obs.ids) # AllIds(T) THEN "XS_all_serverids"
  ELSE IF \E s \in Sids : obs.cur[s] # T.cur[s] THEN "XS_server_object_identity"
  ELSE IF ToSet(obs.known) # Known(T) THEN "XS_known_servers"
  ELSE IF FirstObjClause(T, obs, 1, stopped) # "" THEN FirstObjClause(T, obs, 1, stopped)
  ELSE IF stopped THEN ""
  ELSE IF ToSet(obs.connected) # ConnectedObjs(T) THEN "XS_connected_servers"
  \* peer selection is offered exactly the connected servers, each once (their order: ServerOrder.tla, C32)
  ELSE IF ToSet(obs.psi) # ConnectedObjs(T) \/ Len(obs.psi) # Cardinality(ConnectedObjs(T)) THEN "XS_servers_for_psi"
  ELSE IF \E s \in Sids \cup {"unknown"} : obs.nick[s] # Nick(T, s) THEN "XS_nickname_for_serverid"
  ELSE IF \E s \in Sids \cup {"unknown"} : obs.stub_sid[s] # StubBySid(T, s) THEN "XS_stub_server_by_serverid"
  ELSE IF \E t \in Tubs : obs.stub_tub[t] # StubByTub(T, t) THEN "XS_stub_server_by_tubid"
  ELSE IF ~obs.stub_unknown_ok THEN "XS_stub_server_made_up"
  ELSE IF FiredClause(T, obs) # "" THEN FiredClause(T, obs)
  ELSE IF e.ev = "Connect" /\ ~(MustReset(T, e.obj) \subseteq ToSet(e.resets)) THEN "XS_reconnect_timers_reset"
  ELSE ""

Apply(e) ==
  CASE e.ev = "Static"      -> AddStatic(S, [i \in 1..Len(e.entries) |-> Entry(e.entries[i])])
    [] e.ev = "Announce"    -> Announce(S, e.sid, AnnOf(e.sid, e.kind))
    [] e.ev = "Connect"     -> Connect(S, e.obj, e.ver)
    [] e.ev = "ConnectDead" -> ConnectDead(S, e.obj)
    [] e.ev = "Lose"        -> Lose(S, e.obj)
    [] e.ev = "Listen"      -> Listen(S, e.lid, e.th)
    [] e.ev = "Tick"        -> Tick(S, e.dt)
    [] e.ev = "Stop"        -> Shutdown(S)

\* a connection callback on an object the Spec has stopped means the code never stopped its reconnector
Pre(e) ==
  CASE e.ev \in {"Connect", "ConnectDead"} ->
         IF ~IsObj(S, e.obj) THEN "XS_unexpected_server_object_created"
         ELSE IF S.objs[e.obj].quiet THEN "XS_superseded_still_connecting"
         ELSE IF ~CanConnect(S, e.obj) THEN "driver_connect_not_enabled" ELSE ""
    [] e.ev = "Lose" -> IF ~IsObj(S, e.obj) THEN "XS_unexpected_server_object_created"
                        ELSE IF ~S.objs[e.obj].conn THEN "XS_is_connected" ELSE ""
    [] e.ev \in {"Static", "Announce", "Listen", "Tick", "Stop"} -> ""
    [] OTHER -> "unknown_event"

Verdict(e) ==
  IF Pre(e) # "" THEN V(Pre(e), S)
  ELSE LET T == Apply(e) IN V(Judge(T, e, e.ev = "Stop"), T)

TraceInit ==
  /\ tid \in 1..Len(Traces)
  /\ l = 1
  /\ S = InitState(Sids, Lids)
  /\ bad = "none"

TraceNext ==
  /\ bad = "none"
  /\ l <= Len(Events)
  /\ LET v == Verdict(Ev)
     IN IF v.c = ""
          THEN /\ S' = v.s /\ l' = l + 1 /\ bad' = "none"
               /\ (l = Len(Events) => PrintT(<<"VF_ACCEPT", tid, l>>))
          ELSE /\ bad' = v.c /\ UNCHANGED <<S, l>>
               /\ PrintT(<<"VF_REJECT", tid, l, v.c>>)
  /\ UNCHANGED tid

TraceSpec == TraceInit /\ [][TraceNext]_tvars
TraceOK == bad = "none"
=============================================================================
