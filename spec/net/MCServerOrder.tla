---------------------------- MODULE MCServerOrder ----------------------------
(* The decision table of ServerOrder.tla over all small inputs: the state
   space is the set of cases (connected set, preferred set, rank permutation,
   configured keys, one certificate kind per server, time). *)
EXTENDS ServerOrder, FiniteSetsExt

CONSTANTS Servers, Nows,
          Kinds    \* certificate kinds a server can present: subset of
                   \* {"nocert", "valid20", "valid10", "othersubject", "unconfigured", "tampered"}

VARIABLES connected, preferred, rank, keys, kind, now, forUpload
vars == <<connected, preferred, rank, keys, kind, now, forUpload>>

Other(s) == CHOOSE o \in Servers : o # s
CertsOf(s, k) ==
  CASE k = "nocert"       -> {}
    [] k = "valid20"      -> {[signer |-> "g1", subject |-> s, expires |-> 20, tamper |-> "none"]}
    [] k = "valid10"      -> {[signer |-> "g1", subject |-> s, expires |-> 10, tamper |-> "none"]}
    [] k = "othersubject" -> {[signer |-> "g1", subject |-> Other(s), expires |-> 20, tamper |-> "none"]}
    [] k = "unconfigured" -> {[signer |-> "g3", subject |-> s, expires |-> 20, tamper |-> "none"]}
    [] k = "tampered"     -> {[signer |-> "g1", subject |-> s, expires |-> 20, tamper |-> "cert"]}
Certs == [s \in Servers |-> CertsOf(s, kind[s])]
Perms == {f \in [Servers -> 1..Cardinality(Servers)] : \A a, b \in Servers : a # b => f[a] # f[b]}

Init == /\ connected \in SUBSET Servers
        /\ preferred \in SUBSET Servers
        /\ rank \in Perms
        /\ keys \in {{}, {"g1"}}
        /\ kind \in [Servers -> Kinds]
        /\ now \in Nows
        /\ forUpload \in BOOLEAN
Next == UNCHANGED vars
Spec == Init /\ [][Next]_vars

Res == ServersForPsi(connected, preferred, rank, forUpload, keys, Certs, now)
Good(s) == \E c \in Certs[s] : c.signer \in keys /\ c.tamper = "none" /\ c.subject = s /\ now < c.expires

\* every client computes the same order: the result depends on nothing but the set of connected servers (no insertion order)
C32_Permutation == NoDup(Res) /\ ToSet(Res) \subseteq connected /\ (~forUpload => ToSet(Res) = connected)
C32_PreferredFirst == PreferredFirst(Res, preferred)
C32_RankAscending == RankAscending(Res, preferred, rank)
\* uploads go exactly to the connected servers holding a currently valid certificate (all of them when no keys are configured)
C32_UploadFilter == forUpload => ToSet(Res) = {s \in connected : keys = {} \/ Good(s)}
\* the upload order is the read order restricted to the permitted servers
C32_UploadIsSubsequence ==
  forUpload => Res = SelectSeq(ServersForPsi(connected, preferred, rank, FALSE, keys, Certs, now), LAMBDA s : s \in ToSet(Res))
=============================================================================
