----------------------------- MODULE Introducer -----------------------------
(* The announcement store of an introducer client
   (allmydata/introducer/client.py IntroducerClient.got_announcements /
   _process_announcement, introducer/common.py unsign_from_foolscap).

   An item of a batch is abstracted to
     svc        the service name inside the message
     key        the key the item claims to come from (third element of the tuple)
     origin     the key whose owner really produced the signature over exactly
                this message, "none" if nobody did (flipped message/signature bytes)
     wellformed FALSE if the key / signature encodings cannot be decoded
     seq        [k |-> "none" | "nonint" | "int", n |-> Nat]  the "seqnum" field
     body       identity of the rest of the message
   The store keeps one entry per (svc, key); S = [store, subs]. *)
EXTENDS Common

NoSeq == [k |-> "none", n |-> 0]
Absent == [present |-> FALSE, seq |-> NoSeq, body |-> ""]
Entry(it) == [present |-> TRUE, seq |-> it.seq, body |-> it.body]
Idx(it) == <<it.svc, it.key>>
Delivery(it) == [svc |-> it.svc, key |-> it.key, seq |-> it.seq, body |-> it.body]

\* unsign_from_foolscap: the signature verifies for the claimed key
Verifies(it) == it.wellformed /\ it.origin = it.key

\* _process_announcement: "is this announcement a duplicate?"
Duplicate(old, it) == old.present /\ old.seq = it.seq /\ old.body = it.body

\* _process_announcement: "must beat previous sequence number to replace".
\* A stored non-integer seqnum cannot be beaten (no order is defined).
Fresh(old, it) ==
  \/ ~old.present
  \/ old.seq.k = "none"
  \/ (old.seq.k = "int" /\ it.seq.k = "int" /\ it.seq.n > old.seq.n)

Accepts(S, it) ==
  /\ Verifies(it)
  /\ it.svc \in S.subs                       \* "announcement for a service we don't care about"
  /\ ~Duplicate(S.store[Idx(it)], it)
  /\ Fresh(S.store[Idx(it)], it)

Process(S, it) == IF Accepts(S, it) THEN [S EXCEPT !.store[Idx(it)] = Entry(it)] ELSE S

\* got_announcements: every item of the batch is looked at, whatever happened to the items before it
RECURSIVE ReceiveFrom(_, _, _)
ReceiveFrom(S, out, batch) ==
  IF batch = <<>> THEN [S |-> S, out |-> out]
  ELSE IF Accepts(S, Head(batch))
         THEN ReceiveFrom([S EXCEPT !.store[Idx(Head(batch))] = Entry(Head(batch))], Append(out, Delivery(Head(batch))), Tail(batch))
         ELSE ReceiveFrom(S, out, Tail(batch))
\* the resulting state and the announcements handed to the subscribers, in order
Receive(S, batch) == ReceiveFrom(S, <<>>, batch)

\* subscribe_to: a (late) subscriber is told what is stored for its service
StoredFor(S, svc) ==
  {[svc |-> i[1], key |-> i[2], seq |-> S.store[i].seq, body |-> S.store[i].body] :
      i \in {j \in DOMAIN S.store : j[1] = svc /\ S.store[j].present}}
Subscribe(S, svc) == [S EXCEPT !.subs = @ \cup {svc}]

InitS(services, keys, subs) == [store |-> [i \in services \X keys |-> Absent], subs |-> subs]

(* ---- the property clauses, over one step  S --batch--> T  with deliveries out ---- *)
Matches(d, it) == it.svc = d.svc /\ it.seq = d.seq /\ it.body = d.body
\* every delivery / store change is backed by an item of the batch whose signature verifies
AuthenticStep(S, T, batch, out) ==
  /\ \A n \in DOMAIN out : \E j \in DOMAIN batch : Matches(out[n], batch[j]) /\ batch[j].wellformed /\ batch[j].origin # "none"
                                                    /\ batch[j].origin = batch[j].key
  /\ \A i \in DOMAIN S.store : T.store[i] # S.store[i] =>
        \E n \in DOMAIN out : <<out[n].svc, out[n].key>> = i /\ T.store[i] = [present |-> TRUE, seq |-> out[n].seq, body |-> out[n].body]
\* ... and is filed under the key that signed it
AttributionStep(batch, out) ==
  \A n \in DOMAIN out : \E j \in DOMAIN batch : Matches(out[n], batch[j]) /\ batch[j].wellformed /\ batch[j].origin = out[n].key
\* an index is never forgotten; an integer seqnum is only ever replaced by a larger integer seqnum
MonotoneStep(S, T) ==
  \A i \in DOMAIN S.store :
     /\ S.store[i].present => T.store[i].present
     /\ (S.store[i].present /\ S.store[i].seq.k = "int" /\ T.store[i] # S.store[i])
           => (T.store[i].seq.k = "int" /\ T.store[i].seq.n > S.store[i].seq.n)
\* the items that do not verify have no influence on what happens to the others
BatchIndependentStep(S, T, batch, out) ==
  LET r == Receive(S, SelectSeq(batch, Verifies)) IN r.S = T /\ r.out = out
=============================================================================
