----------------------- MODULE MCIntroducerService -----------------------
(* Model checking of IntroducerService.tla: one introducer, publishing and
   subscribing clients, connections as FIFO queues per direction, connect /
   disconnect / kill+restart of a client (sequencer and cache file survive) /
   restart of the introducer (its memory does not), first connection attempt
   failing (start from the cache), an outsider who publishes again what was
   published before (replay) or something unsigned.

   The properties are stated over books the environment keeps itself (what was
   published, what each local subscriber was last told, what the server sent over
   each connection), not over the operators. *)
EXTENDS IntroducerService

CONSTANTS Clients, Pubs, Subs, PubSvcs, SubSvcs, Services, Bodies, MaxSeq,
          MaxKill, MaxSrvRestart, MaxDisc, MaxInject, StartMayFail, LateSubscribe,
          Remembered, TwoKeys, Resign

VARIABLES srv, cl, seqctr, cache, c2s, s2c,       \* the system
          pubd, want, last, sentOn, dupSent,      \* the environment's books
          nkill, nrest, ndisc, ninj
vars == <<srv, cl, seqctr, cache, c2s, s2c, pubd, want, last, sentOn, dupSent, nkill, nrest, ndisc, ninj>>

\* a node signs with its own key; with TwoKeys the service "other" is offered under a second key
KeyFor(c, svc) == IF TwoKeys /\ svc = "other" THEN c \o "b" ELSE c
Keys == Clients \cup (IF TwoKeys THEN {c \o "b" : c \in Clients} ELSE {})
Indexes == Services \X Keys
NoWant == [present |-> FALSE, key |-> "", body |-> "", since |-> 0]

Init ==
  /\ srv = SrvInit(Services, Keys)
  /\ cl = [c \in Clients |-> ClInit(Services, Keys)]
  /\ seqctr = [c \in Clients |-> 0]
  /\ cache = [c \in Clients |-> {}]
  /\ c2s = [c \in Clients |-> <<>>]
  /\ s2c = [c \in Clients |-> <<>>]
  /\ pubd = {}
  /\ want = [c \in Clients |-> [s \in Services |-> NoWant]]
  /\ last = [c \in Clients |-> [i \in Indexes |-> Absent]]
  /\ sentOn = [c \in Clients |-> {}]
  /\ dupSent = FALSE
  /\ nkill = 0 /\ nrest = 0 /\ ndisc = 0 /\ ninj = 0

Z(V) == [V EXCEPT !.cnt = ZeroCnt]       \* the counters are bound by the traces, not explored here

\* the local subscribers of c are told the announcements in ds (a set or the elements of a sequence)
Told(l, ds) == [i \in Indexes |-> IF \E d \in ds : IdxOf(d) = i THEN EntryOf(CHOOSE d \in ds : IdxOf(d) = i) ELSE l[i]]

\* the server puts batch b on the connections of the clients in `to`
Send(to, b) ==
  /\ s2c' = [x \in Clients |-> IF x \in to /\ b # {} THEN Append(s2c[x], b) ELSE s2c[x]]
  /\ sentOn' = [x \in Clients |-> IF x \in to THEN sentOn[x] \cup b ELSE sentOn[x]]
  /\ dupSent' = (dupSent \/ \E x \in to : sentOn[x] \cap b # {})

Publish(c, svc, b) ==
  /\ c \in Pubs /\ svc \in PubSvcs /\ seqctr[c] < MaxSeq
  /\ LET seq == seqctr[c] + 1
         r == ClPublish(cl[c], svc, KeyFor(c, svc), b, seq, Resign)
         w2 == [want[c] EXCEPT ![svc] = [present |-> TRUE, key |-> KeyFor(c, svc), body |-> b, since |-> seq]]
     IN /\ cl' = [cl EXCEPT ![c] = r.C]
        /\ seqctr' = [seqctr EXCEPT ![c] = seq]
        /\ c2s' = [c2s EXCEPT ![c] = @ \o r.sends]
        /\ want' = [want EXCEPT ![c] = w2]
        \* what the node has now announced, by the documented rule: every service it offers, under the key
        \* it was offered with, with the new seqnum
        /\ pubd' = pubd \cup {[svc |-> s, key |-> w2[s].key, seq |-> IntSeq(seq), body |-> w2[s].body] :
                                 s \in {t \in Services : w2[t].present}}
  /\ UNCHANGED <<srv, cache, s2c, last, sentOn, dupSent, nkill, nrest, ndisc, ninj>>

SubscribeLocal(c, svc) ==
  /\ c \in Subs /\ svc \in SubSvcs /\ svc \notin cl[c].lsubs
  /\ (LateSubscribe \/ ~cl[c].run)
  /\ LET r == ClSubscribeLocal(cl[c], svc)
     IN /\ cl' = [cl EXCEPT ![c] = r.C]
        /\ c2s' = [c2s EXCEPT ![c] = @ \o r.sends]
        /\ last' = [last EXCEPT ![c] = Told(@, r.out)]
  /\ UNCHANGED <<srv, seqctr, cache, s2c, pubd, want, sentOn, dupSent, nkill, nrest, ndisc, ninj>>

Start(c, ok) ==
  /\ ~cl[c].run
  /\ (ok \/ StartMayFail)
  /\ IF ok
       THEN /\ cl' = [cl EXCEPT ![c].run = TRUE, ![c].conn = "wait"]
            /\ c2s' = [c2s EXCEPT ![c] = <<GvMsg>>]
            /\ UNCHANGED last
       ELSE LET r == ClLoadCache(cl[c], cache[c], Remembered)
            IN /\ cl' = [cl EXCEPT ![c] = [r.C EXCEPT !.run = TRUE]]
               /\ last' = [last EXCEPT ![c] = Told(@, r.out)]
               /\ UNCHANGED c2s
  /\ UNCHANGED <<srv, seqctr, cache, s2c, pubd, want, sentOn, dupSent, nkill, nrest, ndisc, ninj>>

Connect(c) ==
  /\ cl[c].run /\ cl[c].conn = "down"
  /\ cl' = [cl EXCEPT ![c].conn = "wait"]
  /\ c2s' = [c2s EXCEPT ![c] = <<GvMsg>>]
  /\ UNCHANGED <<srv, seqctr, cache, s2c, pubd, want, last, sentOn, dupSent, nkill, nrest, ndisc, ninj>>

DeliverC2S(c) ==
  /\ c2s[c] # <<>>
  /\ LET m == Head(c2s[c]) IN
     CASE m.m = "get_version" ->
            LET r == ClGotVersion(cl[c])
            IN /\ cl' = [cl EXCEPT ![c] = r.C]
               /\ c2s' = [c2s EXCEPT ![c] = Tail(@) \o r.sends]
               /\ UNCHANGED <<srv, s2c, sentOn, dupSent>>
       [] m.m = "publish" ->
            LET r == SrvPublish(srv, m.item)
            IN /\ srv' = Z(r.V)
               /\ Send(r.to, r.batch)
               /\ c2s' = [c2s EXCEPT ![c] = Tail(@)]
               /\ UNCHANGED cl
       [] m.m = "subscribe" ->
            LET r == SrvSubscribe(srv, c, m.svc)
            IN /\ srv' = Z(r.V)
               /\ Send({c}, r.batch)
               /\ c2s' = [c2s EXCEPT ![c] = Tail(@)]
               /\ UNCHANGED cl
  /\ UNCHANGED <<seqctr, cache, pubd, want, last, nkill, nrest, ndisc, ninj>>

DeliverS2C(c) ==
  /\ s2c[c] # <<>>
  /\ LET r == ClReceive(cl[c], Head(s2c[c]), cache[c])
     IN /\ cl' = [cl EXCEPT ![c] = r.C]
        /\ cache' = [cache EXCEPT ![c] = r.cache]
        /\ last' = [last EXCEPT ![c] = Told(@, ToSet(r.out))]
  /\ s2c' = [s2c EXCEPT ![c] = Tail(@)]
  /\ UNCHANGED <<srv, seqctr, c2s, pubd, want, sentOn, dupSent, nkill, nrest, ndisc, ninj>>

\* both ends notice at once
Drop(c) ==
  /\ srv' = SrvDrop(srv, c)
  /\ c2s' = [c2s EXCEPT ![c] = <<>>]
  /\ s2c' = [s2c EXCEPT ![c] = <<>>]
  /\ sentOn' = [sentOn EXCEPT ![c] = {}]

Disconnect(c) ==
  /\ cl[c].conn # "down" /\ ndisc < MaxDisc
  /\ ndisc' = ndisc + 1
  /\ Drop(c)
  /\ cl' = [cl EXCEPT ![c] = ClDisconnected(@)]
  /\ UNCHANGED <<seqctr, cache, pubd, want, last, dupSent, nkill, nrest, ninj>>

Kill(c) ==
  /\ nkill < MaxKill /\ nkill' = nkill + 1
  /\ Drop(c)
  /\ cl' = [cl EXCEPT ![c] = ClInit(Services, Keys)]
  /\ want' = [want EXCEPT ![c] = [s \in Services |-> NoWant]]
  /\ last' = [last EXCEPT ![c] = [i \in Indexes |-> Absent]]
  /\ UNCHANGED <<seqctr, cache, pubd, dupSent, nrest, ndisc, ninj>>

SrvRestart ==
  /\ nrest < MaxSrvRestart /\ nrest' = nrest + 1
  /\ srv' = SrvInit(Services, Keys)
  /\ cl' = [c \in Clients |-> IF cl[c].conn # "down" THEN ClDisconnected(cl[c]) ELSE cl[c]]
  /\ c2s' = [c \in Clients |-> <<>>]
  /\ s2c' = [c \in Clients |-> <<>>]
  /\ sentOn' = [c \in Clients |-> {}]
  /\ UNCHANGED <<seqctr, cache, pubd, want, last, dupSent, nkill, ndisc, ninj>>

\* somebody who is not one of the nodes publishes again what he once heard, or something nobody signed
Inject(it) ==
  /\ ninj < MaxInject /\ ninj' = ninj + 1
  /\ LET r == SrvPublish(srv, it)
     IN /\ srv' = Z(r.V)
        /\ Send(r.to, r.batch)
  /\ UNCHANGED <<cl, seqctr, cache, c2s, pubd, want, last, nkill, nrest, ndisc>>
Injectable == {ItemOf(d) : d \in pubd} \cup {[ItemOf(d) EXCEPT !.origin = "none"] : d \in pubd}

Next ==
  \/ \E c \in Clients, svc \in Services, b \in Bodies : Publish(c, svc, b)
  \/ \E c \in Clients, svc \in Services : SubscribeLocal(c, svc)
  \/ \E c \in Clients, ok \in BOOLEAN : Start(c, ok)
  \/ \E c \in Clients : Connect(c) \/ DeliverC2S(c) \/ DeliverS2C(c) \/ Disconnect(c) \/ Kill(c)
  \/ SrvRestart
  \/ \E it \in Injectable : Inject(it)
Spec == Init /\ [][Next]_vars

(* ---------------------------------------------------------------- properties *)
Up(c) == cl[c].conn = "up"
Quiet == \A c \in Clients : c2s[c] = <<>> /\ s2c[c] = <<>>
AllStored == UNION {Stored(cl[c].S) : c \in Clients} \cup Stored(srv.st)
InFlight == UNION {UNION ToSet(s2c[c]) : c \in Clients}
Heard(c) == {[svc |-> i[1], key |-> i[2], seq |-> last[c][i].seq, body |-> last[c][i].body] : i \in {j \in Indexes : last[c][j].present}}

\* everything stored, cached, in flight or handed to a local subscriber was announced by the node whose key it is
\* filed under, for that service (authentic, and attributed to the right key)
XI_Authentic ==
  (AllStored \cup InFlight \cup UNION {cache[c] \cup Heard(c) : c \in Clients}) \subseteq pubd

\* "we increment the seqnum every time we publish something new": one (service, key, seqnum) is one announcement
XI_SeqnumIdentifies == \A d1, d2 \in pubd : (IdxOf(d1) = IdxOf(d2) /\ d1.seq = d2.seq) => d1 = d2

\* the introducer replaces an announcement only by a newer one of the same (service, key), until it is restarted
XI_ServerMonotone == [][nrest' # nrest \/ MonotoneStep(srv.st, srv'.st)]_vars

\* the introducer has subscriptions only of connected clients, for services they asked for
XI_SubscribersAreConnected == \A s \in srv.subs : Up(s[1]) /\ s[2] \in cl[s[1]].sent /\ s[2] \in cl[s[1]].lsubs

\* nothing is sent or delivered for a service that was not subscribed to
XI_OnlySubscribedServices ==
  /\ \A c \in Clients : \A i \in Indexes : last[c][i].present => i[1] \in cl[c].lsubs
  /\ \A c \in Clients : \A k \in 1..Len(s2c[c]) : \A d \in s2c[c][k] : <<c, d.svc>> \in srv.subs

\* a subscription misses nothing: what the introducer holds for the service is known to the subscriber or on its way
XI_NothingLost ==
  \A s \in srv.subs : \A i \in Indexes :
     (i[1] = s[2] /\ srv.st.store[i].present) =>
        \/ (cl[s[1]].S.store[i].present /\ cl[s[1]].S.store[i].seq.n >= srv.st.store[i].seq.n)
        \/ \E k \in 1..Len(s2c[s[1]]) : \E d \in s2c[s[1]][k] : IdxOf(d) = i /\ EntryOf(d) = srv.st.store[i]

\* ... and nothing is sent twice over one connection
XI_AtMostOnce == ~dupSent

\* once everything is delivered: what a connected node offers is what the introducer holds for it ...
XI_PublishedReachesServer ==
  Quiet => \A p \in Clients : Up(p) => \A svc \in Services : want[p][svc].present =>
     LET e == srv.st.store[<<svc, want[p][svc].key>>]
     IN e.present /\ e.body = want[p][svc].body /\ e.seq.k = "int" /\ e.seq.n >= want[p][svc].since /\ e.seq.n <= seqctr[p]

\* ... and what every connected subscriber of that service was last told
XI_SubscriberHearsLatest ==
  Quiet => \A p \in Clients : Up(p) => \A svc \in Services : want[p][svc].present =>
     \A s \in Clients : (Up(s) /\ svc \in cl[s].lsubs) =>
        LET e == last[s][<<svc, want[p][svc].key>>]
        IN e.present /\ e.body = want[p][svc].body /\ e.seq.n >= want[p][svc].since

\* a subscriber that connected late knows what one that connected early knows: neither is behind the introducer, and
\* without an outsider replaying old announcements both hold exactly what the introducer holds
XI_LateEqualsEarly ==
  Quiet => \A s \in srv.subs : \A i \in Indexes : (i[1] = s[2] /\ srv.st.store[i].present) =>
     /\ cl[s[1]].S.store[i].present /\ cl[s[1]].S.store[i].seq.n >= srv.st.store[i].seq.n
     /\ MaxInject = 0 => cl[s[1]].S.store[i] = srv.st.store[i]

\* what a local subscriber is told about one (service, key) never goes backwards while the process lives
XI_NeverBackwards ==
  [][\A c \in Clients : \A i \in Indexes :
       (last[c][i].present /\ last'[c][i].present) => last'[c][i].seq.n >= last[c][i].seq.n]_vars

\* the cache file: one entry per (service, key) ("replace the cached entry, not duplicate it"), and everything
\* the client holds is in it ("announcements received ... are written to that ... cache file")
XI_CacheOnePerIndex == \A c \in Clients : \A d1, d2 \in cache[c] : IdxOf(d1) = IdxOf(d2) => d1 = d2
XI_CacheHoldsStore == \A c \in Clients : Stored(cl[c].S) # {} => cache[c] = Stored(cl[c].S)

\* the cache never loses what this process has told its subscribers ("we never forget an index")
XI_CacheNeverForgets ==
  \A c \in Clients : \A i \in Indexes : last[c][i].present =>
     \E d \in cache[c] : IdxOf(d) = i /\ d.seq.n >= last[c][i].seq.n

\* a process that started from its cache tells every local subscriber what the cache holds for its service,
\* whenever it subscribes ("memory for clients who subscribe after startup")
XI_LateLocalSubscriber ==
  \A c \in Clients : cl[c].ld => \A d \in cache[c] : d.svc \in cl[c].lsubs => last[c][IdxOf(d)].present

TypeOK ==
  /\ \A c \in Clients : cl[c].conn \in {"down", "wait", "up"} /\ cl[c].sent \subseteq cl[c].lsubs /\ cl[c].S.subs = cl[c].lsubs
  /\ \A c \in Clients : (cl[c].conn = "down") => (c2s[c] = <<>> /\ s2c[c] = <<>>)
  /\ \A c \in Clients : seqctr[c] \in 0..MaxSeq
=============================================================================
