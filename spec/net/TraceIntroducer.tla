--------------------------- MODULE TraceIntroducer ---------------------------
(* Trace validation of a real IntroducerClient against Introducer.tla.
   Events recorded by harness/introducer_driver.py:
     Batch      items (abstracted), out = deliveries to the subscribers in order,
                store = _inbound_announcements read back after the call
     Subscribe  svc, out = what the new subscriber was told immediately *)
EXTENDS Introducer, Json, IOUtils, TLCExt

Traces == JsonDeserialize(IOEnv.TRACE_FILE)

VARIABLES tid, l, S, bad
tvars == <<tid, l, S, bad>>

Events == Traces[tid].events
Ev == Events[l]

NormSeq(q) == [k |-> q.k, n |-> q.n]
NormItem(it) == [svc |-> it.svc, key |-> it.key, origin |-> it.origin, wellformed |-> it.wellformed,
                 seq |-> NormSeq(it.seq), body |-> it.body]
NormDel(d) == [svc |-> d.svc, key |-> d.key, seq |-> NormSeq(d.seq), body |-> d.body]
NormSeqOf(f(_), s) == [i \in 1..Len(s) |-> f(s[i])]
ObsStore(T, lst) ==
  [i \in DOMAIN T.store |->
     IF \E n \in 1..Len(lst) : <<lst[n].svc, lst[n].key>> = i
       THEN LET n == CHOOSE n \in 1..Len(lst) : <<lst[n].svc, lst[n].key>> = i
            IN [present |-> TRUE, seq |-> NormSeq(lst[n].seq), body |-> lst[n].body]
       ELSE Absent]
ObsInDomain(T, lst) == \A n \in 1..Len(lst) : <<lst[n].svc, lst[n].key>> \in DOMAIN T.store

V(c, s) == [c |-> c, s |-> s]

IsStrictPrefix(a, b) == Len(a) < Len(b) /\ SubSeq(b, 1, Len(a)) = a

VBatch(e) ==
  LET batch == NormSeqOf(NormItem, e.items)
      out == NormSeqOf(NormDel, e.out)
      r == Receive(S, batch)
      backed(d) == \E j \in DOMAIN batch : Matches(d, batch[j]) /\ Verifies(batch[j])
      attributed(d) == \E j \in DOMAIN batch : Matches(d, batch[j]) /\ Verifies(batch[j]) /\ batch[j].key = d.key
      stale(d) == LET i == <<d.svc, d.key>> IN
                  i \in DOMAIN S.store /\ S.store[i].present /\ S.store[i].seq.k = "int"
                  /\ ~(d.seq.k = "int" /\ d.seq.n > S.store[i].seq.n)
  IN IF ~("nostore" \in DOMAIN e /\ e.nostore) /\ ~ObsInDomain(S, e.store) THEN V("C34_Attribution_unknown_index", S)
     \* while the cache file cannot be written the client may fail to tell its subscribers (what it has accepted it remembers
     \* all the same): fewer deliveries than the Spec's are tolerated for that batch, other deliveries are not
     ELSE IF "cachewrite" \in DOMAIN e /\ e.cachewrite = "fails" /\ (\A n \in DOMAIN out : \E j \in DOMAIN r.out : out[n] = r.out[j])
          THEN V("", r.S)
     ELSE IF out # r.out THEN
          (IF \E n \in DOMAIN out : ~backed(out[n]) THEN V("C34_Authentic", S)
           ELSE IF \E n \in DOMAIN out : ~attributed(out[n]) THEN V("C34_Attribution", S)
           ELSE IF IsStrictPrefix(out, r.out) THEN V("C34_BatchIndependent", S)
           ELSE IF \E n \in DOMAIN out : stale(out[n]) THEN V("C34_Monotone", S)
           ELSE V("C34_deliveries_differ", S))
     \* (nostore: the cache file could not be written during this history - it is not looked at; the deliveries are)
     ELSE IF "nostore" \in DOMAIN e /\ e.nostore THEN V("", r.S)
     ELSE LET T == [S EXCEPT !.store = ObsStore(S, e.store)] IN
          IF T # r.S THEN
             (IF ~MonotoneStep(S, T) THEN V("C34_Monotone_store", S)
              ELSE IF ~AuthenticStep(S, T, batch, out) THEN V("C34_Authentic_store", S)
              ELSE V("C34_store_differs", S))
          ELSE V("", r.S)

VSubscribe(e) ==
  IF {NormDel(e.out[n]) : n \in 1..Len(e.out)} # StoredFor(S, e.svc) \/ Len(e.out) # Cardinality(StoredFor(S, e.svc))
    THEN V("C34_LateSubscriber", S)
    ELSE V("", Subscribe(S, e.svc))

\* the node restarts offline and falls back to its announcement cache: every stored announcement of a subscribed service
\* is delivered again, and stays THE stored announcement of its (service, key) - the sequence-number rule keeps applying
VRestart(e) ==
  LET want == UNION {StoredFor(S, svc) : svc \in S.subs}
      got == {NormDel(e.out[n]) : n \in 1..Len(e.out)}
  IN IF got # want \/ Len(e.out) # Cardinality(want) THEN V("C34_cache_delivery", S)
     ELSE IF ~ObsInDomain(S, e.store) THEN V("C34_Attribution_unknown_index", S)
     ELSE IF ObsStore(S, e.store) # S.store THEN V("C34_cache_differs_from_store", S)
     ELSE V("", S)

Verdict(e) ==
  CASE e.ev = "Batch"     -> VBatch(e)
    [] e.ev = "Restart"   -> VRestart(e)
    [] e.ev = "Subscribe" -> VSubscribe(e)
    [] OTHER              -> V("unknown_event", S)

TraceInit ==
  /\ tid \in 1..Len(Traces)
  /\ l = 1
  /\ S = InitS(ToSet(Traces[tid].consts.services), ToSet(Traces[tid].consts.keys), ToSet(Traces[tid].consts.subs0))
  /\ bad = "none"

TraceNext ==
  /\ bad = "none"
  /\ l <= Len(Events)
  /\ LET v == Verdict(Ev)
         c == IF v.c # "" THEN v.c
              ELSE IF ~MonotoneStep(S, v.s) THEN "C34_Monotone_step"
              ELSE ""
     IN IF c = ""
          THEN /\ S' = v.s /\ l' = l + 1 /\ bad' = "none"
               /\ (l = Len(Events) => PrintT(<<"VF_ACCEPT", tid, l>>))
          ELSE /\ bad' = c /\ UNCHANGED <<S, l>>
               /\ PrintT(<<"VF_REJECT", tid, l, c>>)
  /\ UNCHANGED tid

TraceSpec == TraceInit /\ [][TraceNext]_tvars
TraceOK == bad = "none"
=============================================================================
