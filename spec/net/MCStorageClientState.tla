------------------------ MODULE MCStorageClientState ------------------------
(* Exhaustive exploration of StorageClientState.tla: a few server ids (some
   static), two announcement versions per id (optionally one without a usable
   FURL), connect / dead-connect / disconnect interleavings, listeners with
   thresholds, time.  The environment (network, introducer) keeps its own
   books in ghost variables; the invariants relate the broker's answers to
   those books, they do not mention the operators. *)
EXTENDS StorageClientState

CONSTANTS Sids,        \* server ids
          StaticSids,  \* subset of Sids configured in servers.yaml (announcement version "a1")
          AnnKinds,    \* announcement versions, subset of {"a1", "a2", "u1"} ("u1" = no usable FURL)
          Vers,        \* version answers, e.g. {"v1", "v2"}
          Lids,        \* listener names (numbers here: they register in increasing order, which halves the symmetric cases)
          Thresholds,  \* thresholds a listener may ask for
          MaxObjs, MaxTime,
          MaxConnects, \* bound on the connections one object establishes
          MaxTotalConnects, \* bound on the connections established altogether
          WithDead     \* BOOLEAN: explore connections that die before the version answer (a no-op of the Spec)

VARIABLES S,        \* the broker and its server objects (StorageClientState)
          link,     \* ghost: objects whose connection is up, as the network knows it
          peak,     \* ghost: the largest number of current servers whose connection was up at the same time
          annLog,   \* ghost: sid -> last announcement version delivered by the introducer ("none")
          lastVer,  \* ghost: object -> version answer of its latest connection
          reg       \* ghost: listener -> threshold it registered (0 = not registered)
vars == <<S, link, peak, annLog, lastVer, reg>>

\* the same server keeps its tub id over announcement versions, except s1 whose "a2" moved to a new tub
AnnRec(sid, k) == [ann |-> k, sup |-> k # "u1", tub |-> IF sid = "s1" /\ k = "a2" THEN "t-" \o sid \o "-b" ELSE "t-" \o sid,
                   nick |-> "nick-" \o sid \o "-" \o k]
RECURSIVE SeqOfSet(_)
SeqOfSet(X) == IF X = {} THEN <<>> ELSE LET x == CHOOSE y \in X : TRUE IN <<x>> \o SeqOfSet(X \ {x})

UpNow(T, lk) == Cardinality({o \in Known(T) : o \in lk})

Init ==
  /\ S = AddStatic(InitState(Sids, Lids),
                   [i \in 1..Cardinality(StaticSids) |->
                      LET sid == SeqOfSet(StaticSids)[i] IN AnnRec(sid, "a1") @@ [sid |-> sid, ok |-> TRUE]])
  /\ link = {}
  /\ peak = 0
  /\ annLog = [s \in Sids |-> "none"]
  /\ lastVer = <<>>
  /\ reg = [l \in Lids |-> 0]

Observe(T, lk) == peak' = Max(peak, UpNow(T, lk))

DoAnnounce(sid, k) ==
  /\ Len(S.objs) < MaxObjs
  /\ LET T == Announce(S, sid, AnnRec(sid, k))
         \* the network: a replaced server's tub is shut down, its connection goes away
         lk == IF T.cur[sid] # S.cur[sid] /\ S.cur[sid] # 0 THEN link \ {S.cur[sid]} ELSE link
     IN /\ S' = T /\ link' = lk /\ Observe(T, lk)
  /\ annLog' = [annLog EXCEPT ![sid] = k]
  /\ UNCHANGED <<lastVer, reg>>

DoConnect(o, v) ==
  /\ CanConnect(S, o) /\ o \notin link /\ S.objs[o].nots < MaxConnects
  /\ SumOver([x \in 1..Len(S.objs) |-> S.objs[x].nots], 1..Len(S.objs)) < MaxTotalConnects
  /\ S' = Connect(S, o, v)
  /\ link' = link \cup {o}
  /\ Observe(S', link')
  /\ lastVer' = (o :> v) @@ lastVer
  /\ UNCHANGED <<annLog, reg>>

DoConnectDead(o) ==
  /\ WithDead /\ CanConnect(S, o) /\ o \notin link
  /\ S' = ConnectDead(S, o)
  /\ UNCHANGED <<link, peak, annLog, lastVer, reg>>

DoLose(o) ==
  /\ CanLose(S, o) /\ o \in link
  /\ S' = Lose(S, o)
  /\ link' = link \ {o}
  /\ UNCHANGED <<peak, annLog, lastVer, reg>>

DoListen(l, th) ==
  /\ reg[l] = 0 /\ \A x \in Lids : x < l => reg[x] # 0
  /\ S' = Listen(S, l, th)
  /\ reg' = [reg EXCEPT ![l] = th]
  /\ UNCHANGED <<link, peak, annLog, lastVer>>

DoTick ==
  /\ S.now < MaxTime
  /\ S' = Tick(S, 1)
  /\ UNCHANGED <<link, peak, annLog, lastVer, reg>>

Next ==
  \/ \E sid \in Sids, k \in AnnKinds : DoAnnounce(sid, k)
  \/ \E o \in 1..MaxObjs, v \in Vers : DoConnect(o, v)
  \/ \E o \in 1..MaxObjs : DoConnectDead(o)
  \/ \E o \in 1..MaxObjs : DoLose(o)
  \/ \E l \in Lids, th \in Thresholds : DoListen(l, th)
  \/ DoTick

Spec == Init /\ [][Next]_vars

Objs == 1..Len(S.objs)

(* ---- the rules, stated from the environment's books ---------------------- *)
\* get_connected_servers = exactly the current servers whose connection is up
XS_ConnectedExact == ConnectedObjs(S) = {o \in Known(S) : o \in link}
\* one current object per server id; the known ids are the static ones plus every id ever announced
XS_IdsKnown == AllIds(S) = StaticSids \cup {s \in Sids : annLog[s] # "none"}
XS_OneObjectPerId == \A a, b \in AllIds(S) : a # b => S.cur[a] # S.cur[b]
XS_ObjectOfItsId == \A s \in AllIds(S) : S.objs[S.cur[s]].sid = s
\* the current object carries the latest announcement; a static server keeps its configured one
XS_LatestAnnouncement ==
  \A s \in AllIds(S) : S.objs[S.cur[s]].ann = (IF s \in StaticSids THEN "a1" ELSE annLog[s])
\* the object of a server id changes only when an announcement that differs from the previous one arrives,
\* never for a static server, and never because of connection events
XS_ReplaceOnlyWhenDifferent ==
  [][\A s \in Sids : (S'.cur[s] # S.cur[s]) => (s \notin StaticSids /\ annLog'[s] # annLog[s])]_vars
XS_IdenticalIgnored ==
  [][\A s \in Sids : (annLog'[s] = annLog[s]) => (S'.cur[s] = S.cur[s])]_vars
\* superseded objects are stopped, current ones are not
XS_SupersededQuiet == \A o \in Objs : S.objs[o].quiet <=> (o \notin Known(S))
\* objects never disappear or change identity; their clocks never run backwards
XS_Monotone ==
  [][/\ Len(S'.objs) >= Len(S.objs)
     /\ \A o \in Objs : /\ S'.objs[o].sid = S.objs[o].sid /\ S'.objs[o].ann = S.objs[o].ann
                        /\ S'.objs[o].lc >= S.objs[o].lc /\ S'.objs[o].ll >= S.objs[o].ll
                        /\ S'.objs[o].lc <= S'.now /\ S'.objs[o].ll <= S'.now
                        /\ (S.objs[o].ever => S'.objs[o].ever)]_vars
\* connected => the last connect is not older than the last loss; disconnected after a connection => the reverse
XS_TimesConsistent ==
  \A o \in Known(S) : /\ (S.objs[o].conn => S.objs[o].lc >= S.objs[o].ll /\ S.objs[o].lc > 0)
                      /\ (~S.objs[o].conn /\ S.objs[o].ever => S.objs[o].ll >= S.objs[o].lc /\ S.objs[o].ll > 0)
                      /\ (~S.objs[o].ever <=> S.objs[o].lc = 0)
\* version information is the answer given at the latest connection; none before the first
XS_VersionFresh == \A o \in Objs : IF o \in DOMAIN lastVer THEN S.objs[o].ver = lastVer[o] ELSE S.objs[o].ver = "none"
\* an announcement without a usable FURL makes a known server that never connects and shows no nickname
XS_UnsupportedNeverConnects == \A o \in Objs : ~S.objs[o].sup => (~S.objs[o].ever /\ S.objs[o].nick = "")
\* the high water mark is the real peak
XS_HighWater == S.hwm = peak
\* a when_connected_enough Deferred fires exactly once, in the very step in which the peak reaches its threshold
\* (at registration when it already had)
XS_FiredExactly == \A l \in Lids : S.fired[l] = (IF reg[l] # 0 /\ peak >= reg[l] THEN 1 ELSE 0)
XS_PendingExactly == S.pend = {[lid |-> l, th |-> reg[l]] : l \in {x \in Lids : reg[x] # 0 /\ peak < reg[x]}}
\* one status notification per established connection
XS_NotifiedPerConnect == [][\A o \in Objs : S'.objs[o].nots - S.objs[o].nots = (IF o \in link' \ link THEN 1 ELSE 0)]_vars
\* lookups
XS_Nickname == \A s \in Sids : Nick(S, s).known = (s \in AllIds(S)) /\ (Nick(S, s).known => Nick(S, s).nick = S.objs[S.cur[s]].nick)
XS_StubLookup == \A s \in Sids : StubBySid(S, s) = S.cur[s]
XS_StubByTub == \A o \in Known(S) : S.objs[o].sup => StubByTub(S, S.objs[o].tub) = o
XS_StubOldTubForgotten == \A o \in Objs : (o \notin Known(S) /\ S.objs[o].sup /\ IsKnown(S, S.objs[o].sid)
                                           /\ S.objs[S.cur[S.objs[o].sid]].tub # S.objs[o].tub) => StubByTub(S, S.objs[o].tub) = 0
=============================================================================
