---------------------------- MODULE GenGridManager ----------------------------
(* GEN mode for C33: every set of at most MaxCerts certificates over all flag
   combinations, every set of configured keys, evaluated at every time of Nows
   (before / at / after each expiry).  Each case carries the Spec's verdicts;
   the case set is also the state space, and the property clauses are checked
   as invariants over it. *)
EXTENDS GridManager, Json, IOUtils, SequencesExt, FiniteSetsExt

CONSTANTS Signers,       \* all grid-manager keys that exist
          Configurable,  \* those a client may have configured
          Subjects, Expiries, Nows, MaxCerts

Self == "self"
Tampers == {"none", "cert", "sig"}
Certs == [signer : Signers, subject : Subjects, expires : Expiries, tamper : Tampers]
CertSets == UNION {kSubset(k, Certs) : k \in 0..MaxCerts}
NowSeq == SetToSortSeq(Nows, <)
SignerSeq == SetToSeq(Signers)

Case(keys, cs) ==
  LET cseq == SetToSeq(cs) IN
  [keys |-> SetToSeq(keys),
   certs |-> cseq,
   sigok |-> [i \in 1..Len(cseq) |-> [j \in 1..Len(SignerSeq) |-> SigOK(SignerSeq[j], cseq[i])]],
   signers |-> SignerSeq,
   nows |-> NowSeq,
   verdicts |-> [i \in 1..Len(NowSeq) |-> GMVerdict(keys, cs, Self, NowSeq[i])]]

Cases == {Case(keys, cs) : keys \in SUBSET Configurable, cs \in CertSets}

ASSUME ndJsonSerialize(IOEnv.OUT_FILE, SetToSeq(Cases))

VARIABLES keys, cs
vars == <<keys, cs>>
Init == keys \in SUBSET Configurable /\ cs \in CertSets
Next == UNCHANGED vars
Spec == Init /\ [][Next]_vars

(* ---- the property, stated without the operators' structure ---- *)
Good(c, now) == c.signer \in keys /\ c.tamper = "none" /\ c.subject = Self /\ now < c.expires
\* permission exactly when some certificate is signed by a configured key, names this server and is unexpired
C33_Exact == \A now \in Nows : Permitted(keys, cs, Self, now) <=> (keys = {} \/ \E c \in cs : Good(c, now))
\* tampered, expired, wrong-key and other-server certificates never grant anything: dropping them changes nothing
C33_BadCertsIrrelevant ==
  \A now \in Nows : Permitted(keys, cs, Self, now) = Permitted(keys, {c \in cs : Good(c, now)}, Self, now)
C33_NoKeysPermitsAll == keys = {} => \A now \in Nows : GMVerdict(keys, cs, Self, now) = "permit"
\* permission only ever ends with time, and more certificates never revoke
C33_ExpiryMonotone == \A n1, n2 \in Nows : (n1 <= n2 /\ Permitted(keys, cs, Self, n2)) => Permitted(keys, cs, Self, n1)
C33_MoreCertsNeverRevoke == \A c \in cs : \A now \in Nows : Permitted(keys, cs \ {c}, Self, now) => Permitted(keys, cs, Self, now)
=============================================================================
