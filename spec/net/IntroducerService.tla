------------------------- MODULE IntroducerService -------------------------
(* The introducer as a whole: the introducer server, the publishing and the
   subscribing side of the introducer client, the client's announcement cache.
   (allmydata/introducer/server.py IntroducerService, introducer/client.py
   IntroducerClient.)  The announcement store of a client and its seqnum /
   duplicate rules are those of Introducer.tla (C34); the server applies the same
   rules without a service filter.

   Sources of the rules
     introducer/interfaces.py RIIntroducerPublisherAndSubscriberService_v2:
       "give me your announcement message. I will deliver a copy to all connected
        subscribers" / "I will call its announce_v2() method with any announcements
        that match the desired service name. I will ignore duplicate subscriptions."
     IIntroducerClient.publish: "Each announcement is characterized by a
        (service_name, serverid) pair. When the server sees two announcements with
        the same pair, the later one will replace the earlier one. The serverid is
        derived from the signing_key" / "signing_key will be used to sign the
        announcement"
     IIntroducerClient.subscribe_to: "I will run your callback for both new
        announcements and for announcements that have changed, but you must be
        prepared to tolerate duplicates"
     server.py / client.py comments: "must beat previous sequence number to replace",
        "this re-publishes everything. The Introducer ignores duplicates",
        "we increment the seqnum every time we publish something new",
        "publish all announcements with the new seqnum and nonce",
        "_inbound_announcements remembers one announcement per (servicename,serverid)
         pair ... It also provides memory for clients who subscribe after startup",
        "we never forget an index, but we might update its value",
        startService: the first connection attempt failed -> "Using server data from cache"
     test_introducer.py test_client_cache: "Announcements received by an introducer
        client are written to that introducer client's cache file", "a new announcement
        that replaces the first should replace the cached entry, not duplicate it"
     docs/architecture.rst: "Each client connects to the introducer at startup, and
        receives a list of all servers from it"; "once a client has been introduced to
        everybody, it does not need the introducer again until it is restarted"
     docs/servers.rst: "Storage servers advertise their location by announcing it to
        the Introducer, which then broadcasts the location to all clients"

   Values.  An announcement on the wire or in a store is a record
   d = [svc, key, seq, body] (Introducer.tla Delivery); ItemOf(d) is the same thing
   as a validly signed item.  One operator per entry point; a result record holds
   the next state and what is sent / delivered. *)
EXTENDS Introducer

ItemOf(d) == [svc |-> d.svc, key |-> d.key, origin |-> d.key, wellformed |-> TRUE, seq |-> d.seq, body |-> d.body]
EntryOf(d) == [present |-> TRUE, seq |-> d.seq, body |-> d.body]
IdxOf(d) == <<d.svc, d.key>>
IntSeq(n) == [k |-> "int", n |-> n]
\* everything a store holds, in wire form
Stored(S) == {[svc |-> i[1], key |-> i[2], seq |-> S.store[i].seq, body |-> S.store[i].body] :
                 i \in {j \in DOMAIN S.store : S.store[j].present}}

RECURSIVE SeqOfSet(_)
SeqOfSet(X) == IF X = {} THEN <<>> ELSE LET x == CHOOSE y \in X : TRUE IN <<x>> \o SeqOfSet(X \ {x})

(* ---- the introducer server ------------------------------------------------
   V = [st, subs, cnt]: st is an Introducer.tla store that cares about every
   service, subs the set of <<client, service>> subscriptions, cnt the
   _debug_counts ("hooks for unit tests"). *)
ZeroCnt == [inbound_message |-> 0, inbound_duplicate |-> 0, inbound_no_seqnum |-> 0, inbound_old_replay |-> 0,
            inbound_update |-> 0, outbound_message |-> 0, outbound_announcements |-> 0, inbound_subscribe |-> 0]
SrvInit(services, keys) == [st |-> InitS(services, keys, services), subs |-> {}, cnt |-> ZeroCnt]

\* _publish: which branch an announcement takes
PubClass(V, it) ==
  IF ~Verifies(it) \/ Idx(it) \notin DOMAIN V.st.store THEN "rejected"      \* unsign_from_foolscap raises
  ELSE LET old == V.st.store[Idx(it)] IN
    IF ~old.present THEN "new"
    ELSE IF Duplicate(old, it) THEN "duplicate"                 \* "but we already knew it, ignoring"
    ELSE IF old.seq.k = "none" THEN "update"
    ELSE IF it.seq.k # "int" THEN "no_seqnum"                   \* "not replacing old ann, no valid seqnum"
    ELSE IF old.seq.k # "int" THEN "uncomparable"               \* a stored non-integer seqnum cannot be beaten
    ELSE IF it.seq.n <= old.seq.n THEN "old_replay"             \* "new seqnum is too old (replay attack?)"
    ELSE "update"
PubAccepted(c) == c \in {"new", "update"}

\* publish_v2: next state, the subscribers it is forwarded to, the (one element) batch each of them gets
SrvPublish(V, it) ==
  LET c == PubClass(V, it)
      to == IF PubAccepted(c) THEN {s[1] : s \in {x \in V.subs : x[2] = it.svc}} ELSE {}
      n == Cardinality(to)
      bump(f) == IF (f = "inbound_duplicate" /\ c = "duplicate") \/ (f = "inbound_no_seqnum" /\ c = "no_seqnum")
                    \/ (f = "inbound_old_replay" /\ c = "old_replay") \/ (f = "inbound_update" /\ c = "update")
                    \/ f = "inbound_message" THEN 1
                 ELSE IF f \in {"outbound_message", "outbound_announcements"} THEN n ELSE 0
      st2 == IF PubAccepted(c) THEN [V.st EXCEPT !.store[Idx(it)] = Entry(it)] ELSE V.st
  IN [V |-> [st |-> st2, subs |-> V.subs, cnt |-> [f \in DOMAIN V.cnt |-> V.cnt[f] + bump(f)]],
      to |-> to, batch |-> {Delivery(it)}, class |-> c]

\* subscribe_v2: a new subscriber is told every current announcement of its service, once; a second request is ignored
SrvSubscribe(V, c, svc) ==
  LET dup == <<c, svc>> \in V.subs
      backlog == IF dup THEN {} ELSE {d \in Stored(V.st) : d.svc = svc}
      bump(f) == IF f = "inbound_subscribe" THEN 1
                 ELSE IF f = "outbound_message" /\ backlog # {} THEN 1
                 ELSE IF f = "outbound_announcements" THEN Cardinality(backlog) ELSE 0
  IN [V |-> [st |-> V.st, subs |-> V.subs \cup {<<c, svc>>}, cnt |-> [f \in DOMAIN V.cnt |-> V.cnt[f] + bump(f)]],
      batch |-> backlog]

\* the subscriber's connection is gone: "unsubscribing"
SrvDrop(V, c) == [V EXCEPT !.subs = {s \in @ : s[1] # c}]

(* ---- one introducer client --------------------------------------------------
   C = [run, conn, outb, lsubs, sent, S, ld]
     run    startService has been called
     conn   "down" | "wait" (connected, get_version not yet answered) | "up"
     outb   per service the signed announcement it publishes: [present, key, seq, body]
     lsubs  services with local subscribers, sent the subscriptions sent over the current connection
     S      Introducer.tla store (S.subs = lsubs)
     ld     this incarnation started from its cache
   Outside C and outliving it: the sequencer's counter and the cache file (a set of d records). *)
NoAnn == [present |-> FALSE, key |-> "", seq |-> 0, body |-> ""]
ClInit(services, keys) ==
  [run |-> FALSE, conn |-> "down", outb |-> [s \in services |-> NoAnn], lsubs |-> {}, sent |-> {},
   S |-> InitS(services, keys, {}), ld |-> FALSE]

OutItems(C) == {[svc |-> s, key |-> C.outb[s].key, origin |-> C.outb[s].key, wellformed |-> TRUE,
                 seq |-> IntSeq(C.outb[s].seq), body |-> C.outb[s].body] : s \in {t \in DOMAIN C.outb : C.outb[t].present}}
PubMsgs(C) == SeqOfSet({[m |-> "publish", item |-> it, svc |-> it.svc] : it \in OutItems(C)})
SubMsgs(svcs) == SeqOfSet({[m |-> "subscribe", item |-> ItemOf([svc |-> s, key |-> "", seq |-> NoSeq, body |-> ""]), svc |-> s] : s \in svcs})
GvMsg == [m |-> "get_version", item |-> ItemOf([svc |-> "", key |-> "", seq |-> NoSeq, body |-> ""]), svc |-> ""]

\* publish(): a new seqnum; every announcement of this node is signed again with it.
\* resign = FALSE: each keeps the key it was published with (IIntroducerClient.publish);
\* resign = TRUE:  as built, all of them are signed with the key of the latest call.
ClPublish(C, svc, key, body, seq, resign) ==
  LET ob == [s \in DOMAIN C.outb |->
               IF s = svc THEN [present |-> TRUE, key |-> key, seq |-> seq, body |-> body]
               ELSE IF C.outb[s].present THEN [C.outb[s] EXCEPT !.seq = seq, !.key = IF resign THEN key ELSE @]
               ELSE C.outb[s]]
      C2 == [C EXCEPT !.outb = ob]
  IN [C |-> C2, sends |-> IF C.conn = "up" THEN PubMsgs(C2) ELSE <<>>]      \* "want to publish, but no introducer yet"

\* subscribe_to(): the new local subscriber is told what is stored for its service
ClSubscribeLocal(C, svc) ==
  LET ask == C.conn = "up" /\ svc \notin C.sent
  IN [C |-> [C EXCEPT !.lsubs = @ \cup {svc}, !.S = Subscribe(@, svc), !.sent = IF ask THEN @ \cup {svc} ELSE @],
      out |-> StoredFor(C.S, svc),
      sends |-> IF ask THEN SubMsgs({svc}) ELSE <<>>]

\* _got_versioned_introducer: publish everything, subscribe to everything
ClGotVersion(C) ==
  [C |-> [C EXCEPT !.conn = "up", !.sent = C.lsubs], sends |-> PubMsgs(C) \o SubMsgs(C.lsubs)]

ClDisconnected(C) == [C EXCEPT !.conn = "down", !.sent = {}]

\* announce_v2(batch): Introducer.tla Receive; every accepted announcement rewrites the cache file from the store
ClReceive(C, batch, cache) ==
  LET r == Receive(C.S, SeqOfSet({ItemOf(d) : d \in batch}))
  IN [C |-> [C EXCEPT !.S = r.S], out |-> r.out, cache |-> IF r.out # <<>> THEN Stored(r.S) ELSE cache]

\* startService when the first connection attempt fails: the cached announcements are delivered to the local
\* subscribers.  remembered = TRUE: they also enter the store (the store "provides memory for clients who subscribe
\* after startup", "we never forget an index"); remembered = FALSE: as built, they are delivered and forgotten.
ClLoadCache(C, cache, remembered) ==
  LET st2 == [i \in DOMAIN C.S.store |->
                IF \E d \in cache : IdxOf(d) = i THEN EntryOf(CHOOSE d \in cache : IdxOf(d) = i) ELSE C.S.store[i]]
  IN [C |-> [C EXCEPT !.ld = TRUE, !.S.store = IF remembered THEN st2 ELSE @],
      out |-> {d \in cache : d.svc \in C.lsubs}]
=============================================================================
