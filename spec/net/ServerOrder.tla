----------------------------- MODULE ServerOrder -----------------------------
(* Server selection order (allmydata/storage_client.py
   StorageFarmBroker.get_servers_for_psi):  the connected servers -- for an
   upload only those whose grid-manager verifier permits it now -- sorted by
   (is_unpreferred, permuted hash).  The permuted hash enters as `rank`, a
   function server -> Nat supplied with the event (computed by an independent
   interpreter of SHA1(peer_selection_index + permutation_seed)). *)
EXTENDS Common, SequencesExt, GridManager

\* _permuted(server) = (is_unpreferred, permute_server_hash(psi, seed)), compared as a tuple
Before(a, b, preferred, rank) ==
  \/ (a \in preferred /\ b \notin preferred)
  \/ ((a \in preferred) = (b \in preferred) /\ rank[a] < rank[b])

Order(servers, preferred, rank) == SetToSortSeq(servers, LAMBDA a, b : Before(a, b, preferred, rank))

\* "if for_upload: connected_servers = [srv for srv in connected_servers if srv.upload_permitted()]";
\* every server built by _make_storage_server has a verifier (it permits everything when no keys are configured)
ForUpload(servers, keys, certs, now) == {s \in servers : UploadPermitted(TRUE, keys, certs[s], s, now)}

Pool(connected, forUpload, keys, certs, now) == IF forUpload THEN ForUpload(connected, keys, certs, now) ELSE connected

ServersForPsi(connected, preferred, rank, forUpload, keys, certs, now) ==
  Order(Pool(connected, forUpload, keys, certs, now), preferred, rank)

(* ---- property clauses over a result sequence ---- *)
NoDup(res) == \A i, j \in DOMAIN res : i # j => res[i] # res[j]
PreferredFirst(res, preferred) == \A i, j \in DOMAIN res : (i < j /\ res[j] \in preferred) => res[i] \in preferred
RankAscending(res, preferred, rank) ==
  \A i, j \in DOMAIN res : (i < j /\ (res[i] \in preferred) = (res[j] \in preferred)) => rank[res[i]] < rank[res[j]]
=============================================================================
