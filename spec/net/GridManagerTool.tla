--------------------------- MODULE GridManagerTool ---------------------------
(* The grid manager itself: allmydata/grid_manager.py (create_grid_manager, load_grid_manager,
   save_grid_manager, _GridManager.add_storage_server / remove_storage_server / sign) and the command
   line allmydata/cli/grid_manager.py (create, public-identity, add, remove, list, sign; --config DIR or
   --config - for a configuration on stdin).  The client side of the certificates is GridManager.tla
   (property C33); this module EXTENDS it and judges every certificate the tool issues or stores with
   the operators clients use (SigOK, Permitted).

   Sources of the rules (docs/managed-grid.rst unless said otherwise):
     create    "If you specify --config - then a new grid-manager configuration is written to stdout.
               Otherwise, a new grid-manager is created in the directory specified by the --config
               option. It is an error if the directory already exists."
     public-identity "Print out a grid-manager's public key. This key is derived from the private-key of
               the grid-manager, so a valid grid-manager config must be given via --config"
     add       "Takes two args: name pubkey. The name is an arbitrary local identifier for the new storage
               node ... This adds a new storage-server to a Grid Manager's configuration. (Since it mutates
               the configuration, if you used --config - the new configuration will be printed to stdout)";
               a second add of the same name is refused (code: "A storage-server called '..' already exists")
     remove    (cli docstring) "Remove an existing storage-server by name from a Grid Manager"; its
               certificate files go with it (cli: the loop over <name>.cert.<n>)
     list      "Lists all storage-servers that have previously been added using grid-manager add";
               per certificate "cert <n>: valid until .. / expired .." (cli)
     sign      "Takes two args: name expiry_days. The name is a nickname used previously in a grid-manager
               add command and expiry_days is the number of days in the future when the certificate should
               expire. Note that this mutates the state of the grid-manager if it is on disk, by adding this
               certificate to our collection of issued certificates. If you used --config -, the certificate
               isn't persisted anywhere except to stdout ... The new certificate is printed to stdout. If you
               stored the config on disk, the new certificate will (also) be in a file named like
               alice.cert.0"; expiry_days is click.IntRange(1, 5*365) (cli)
     config    "a JSON document ... contains a version number in the grid_manager_config_version key";
               load_grid_manager docstring: ":raises: ValueError if the confguration is invalid or IOError if
               expected files can't be opened"; _load_certificates_for docstring: ":raises:
               ed25519.BadSignature if any certificate signature fails to verify"; "Unknown certificate
               version" (ValueError) for a stored certificate whose version is not 1
     "All commands require the --config option and they all behave similarly for 'data from stdin' versus
      'data from disk'. ... in 'stdin / stdout' mode, an issued certificate is only ever available on stdout."

   One state value s for the three bindings (field s.leg):
     "dir"   the command line with --config DIR: s is the directory
     "stdin" the command line with --config -: s is the document the user pipes through (stdout of the last
             successful create / add / remove); nothing else persists
     "api"   the functions of grid_manager.py on one live _GridManager object
   s = [leg, ex, srv, certs, dmg, now]: ex = the directory / document / object exists; srv[n] = public key of
   server n or "-"; certs[n] = the stored certificates of n in file order (<n>.cert.0, .1, ...) as
   GridManager.tla certificate records plus a format version; dmg = damage somebody did to the files
   behind the tool's back (overlay, undone by "restore"); now = the day.  Time: a command runs at day
   s.now plus a little (the clock never stands still), a probe p of a client happens at midday of day p, so
   "valid at p" is p < expires in whole days, with GridManager.tla's Validate. *)
EXTENDS GridManager

CONSTANTS Legs,         \* the bindings to build: a subset of {"dir", "stdin", "api"}
          NameSet,      \* the server names (a subset of AllNamesSorted)
          Unsafe,       \* names containing a path separator
          Keys,         \* storage-server public keys
          DayChoices,   \* expiry arguments offered to sign (naturals)
          NegDays,      \* also offer -1
          MaxNow,       \* days that may pass
          MaxCerts,     \* bound on stored certificates (dir)
          DamageKinds,  \* kinds of damage the environment may do
          Probes        \* days at which a client's verifier is asked

\* the names the model may use, in the order `list` prints them (sorted(), code points); a cfg file cannot hold a sequence
AllNamesSorted == <<"a", "b", "c", "x/y">>
Names == NameSet
NameOrder == SelectSeq(AllNamesSorted, LAMBDA n : n \in NameSet)
ASSUME /\ Legs \subseteq {"dir", "stdin", "api"}
       /\ NameSet \subseteq ToSet(AllNamesSorted)
       /\ Unsafe \subseteq Names

GM == "gm"             \* the manager's own key pair
Foreign == "other"     \* some other grid manager's key
Absent == "-"
MaxDays == 1825        \* 5 * 365 (cli: click.IntRange(1, 5*365))
Days == DayChoices \cup (IF NegDays THEN {-1} ELSE {})

ConfigKinds == {"notjson", "noversion", "badversion", "noprivkey", "badprivkey"}
ServerKinds == {"srv_nopubkey", "srv_keynoprefix", "srv_keyshort"}
CertKinds == {"cert_sig", "cert_forged", "cert_ver2"}
NoDmg == [kind |-> "none", n |-> Absent, i |-> 0]

Fresh(leg, now) == [leg |-> leg, ex |-> TRUE, srv |-> [n \in Names |-> Absent], certs |-> [n \in Names |-> <<>>], dmg |-> NoDmg, now |-> now]
InitState(leg) == [Fresh(leg, 0) EXCEPT !.ex = FALSE]
InitStates == {InitState(leg) : leg \in Legs}
Has(s, n) == s.srv[n] # Absent
NCerts(s) == SumOver([n \in Names |-> Len(s.certs[n])], Names)

(* ---- certificates ------------------------------------------------------------------------------ *)
\* _GridManager.sign: version 1, the server's public key, now + expiry, signed with the manager's key
Cert(subject, expires) == [signer |-> GM, subject |-> subject, expires |-> expires, tamper |-> "none", ver |-> 1]

\* the certificate a reader finds in <n>.cert.<i-1>
DiskCert(s, n, i) ==
  LET c == s.certs[n][i] IN
  IF s.dmg.n = n /\ s.dmg.i = i
  THEN CASE s.dmg.kind = "cert_sig" -> [c EXCEPT !.tamper = "sig"]        \* signature bytes changed
         [] s.dmg.kind = "cert_forged" -> [c EXCEPT !.tamper = "cert"]     \* content re-written, old signature
         [] s.dmg.kind = "cert_ver2" -> [c EXCEPT !.ver = 2]               \* a properly signed certificate of another version
         [] OTHER -> c
  ELSE c

\* _load_certificates_for: the signature verifies under the manager's key (C33's SigOK) and the version is 1
CertFileOK(c) == SigOK(GM, c) /\ c.ver = 1

\* what a client configured with the manager's key (C33's Permitted) answers for this certificate presented by
\* a server with key k, at the probe days; and what a client of another grid manager answers
\* (create_grid_manager_verifier checks the signatures once - ValidCerts - and is then asked at every probe - Validate)
Permits(valid, k) == {p \in Probes : Validate(valid, k, p)}
CertObs(c) == LET mine == ValidCerts({GM}, {c})
                  theirs == ValidCerts({Foreign}, {c})
              IN [subject |-> c.subject, expires |-> c.expires,
                  permits |-> [k \in Keys |-> Permits(mine, k)],
                  foreign |-> UNION {Permits(theirs, k) : k \in Keys}]
NoCertObs == [subject |-> Absent, expires |-> 0, permits |-> [k \in Keys |-> {}], foreign |-> {}]

(* ---- load / save --------------------------------------------------------------------------------- *)
\* load_grid_manager on what the leg reads
LoadClass(s) ==
  IF ~s.ex THEN (IF s.leg = "stdin" THEN "invalid" ELSE "ioerror")     \* empty stdin is not JSON; no directory
  ELSE IF s.dmg.kind = "missing" THEN "ioerror"
  ELSE IF s.dmg.kind \in ConfigKinds \cup ServerKinds THEN "invalid"
  ELSE IF \E n \in Names : \E i \in 1..Len(s.certs[n]) : ~CertFileOK(DiskCert(s, n, i)) THEN "invalid"
  ELSE "ok"

\* _GridManager.marshal / save_grid_manager and load_grid_manager on a good document: the certificates are
\* files next to it, not part of it
Marshal(s) == [version |-> 0, key |-> GM, servers |-> {<<n, s.srv[n]>> : n \in {m \in Names : Has(s, m)}}]
Unmarshal(leg, doc, certs, now) ==
  [leg |-> leg, ex |-> TRUE,
   srv |-> [n \in Names |-> IF \E p \in doc.servers : p[1] = n THEN (CHOOSE p \in doc.servers : p[1] = n)[2] ELSE Absent],
   certs |-> certs, dmg |-> NoDmg, now |-> now]
RoundTrip(s) == IF s.ex /\ s.dmg = NoDmg => Unmarshal(s.leg, Marshal(s), s.certs, s.now) = s THEN "same" ELSE "differs"

(* ---- what is printed --------------------------------------------------------------------------- *)
NoOut == [t |-> "none", cert |-> NoCertObs, rows |-> <<>>, srv |-> [n \in Names |-> Absent]]
DocOut(s) == [NoOut EXCEPT !.t = "doc", !.srv = s.srv]
MutOut(s) == IF s.leg = "stdin" THEN DocOut(s) ELSE NoOut       \* "if you used --config - the new configuration will be printed"
\* list: servers in sorted order with their key; per stored certificate its number and whether it is still valid
ListRows(s) ==
  LET present == SelectSeq(NameOrder, LAMBDA n : Has(s, n)) IN
  [j \in 1..Len(present) |->
     LET n == present[j] IN
     [name |-> n, key |-> s.srv[n],
      certs |-> [i \in 1..Len(s.certs[n]) |->
                   LET c == s.certs[n][i] IN
                   [index |-> i - 1, expires |-> c.expires,
                    status |-> IF Validate({c}, c.subject, s.now) THEN "valid" ELSE "expired"]]]]

(* ---- commands ---------------------------------------------------------------------------------- *)
Cmd(op, n, k, d, kind, i) == [op |-> op, n |-> n, k |-> k, d |-> d, kind |-> kind, i |-> i]
Simple(op) == Cmd(op, Absent, Absent, 0, "none", 0)
KeysOffered(s) == IF s.leg = "api" THEN Keys ELSE Keys \cup {"garbage"}

Cmds(s) ==
  IF s.leg = "api" /\ ~s.ex THEN {Simple("create")}
  ELSE {Simple("create"), Simple("identity"), Simple("list")}
       \cup {Cmd("add", n, k, 0, "none", 0) : n \in Names, k \in KeysOffered(s)}
       \cup {Cmd("remove", n, Absent, 0, "none", 0) : n \in Names}
       \cup (IF NCerts(s) < MaxCerts THEN {Cmd("sign", n, Absent, d, "none", 0) : n \in Names, d \in Days} ELSE {})
       \cup (IF s.now < MaxNow THEN {Simple("tick")} ELSE {})
       \cup (IF s.ex /\ s.dmg = NoDmg /\ s.leg # "api"
             THEN {Cmd("damage", Absent, Absent, 0, kind, 0) : kind \in DamageKinds \cap (ConfigKinds \cup (IF s.leg = "dir" THEN {"missing"} ELSE {}))}
                  \cup {Cmd("damage", n, Absent, 0, kind, 0) : n \in {m \in Names : Has(s, m)}, kind \in DamageKinds \cap ServerKinds}
                  \cup UNION {{Cmd("damage", n, Absent, 0, kind, i) : i \in 1..Len(s.certs[n]), kind \in DamageKinds \cap CertKinds} : n \in Names}
             ELSE {})
       \cup (IF s.dmg # NoDmg THEN {Simple("restore")} ELSE {})

Fail(s, why) == {[rc |-> "fail", why |-> why, out |-> NoOut, s2 |-> s]}
Ok(s2, out) == {[rc |-> "ok", why |-> "ok", out |-> out, s2 |-> s2]}

\* the allowed outcomes of command c in state s: [rc, why, out, s2]; why is informative only
Step(s, c) ==
  LET lc == LoadClass(s) IN
  CASE c.op = "create" ->
         IF s.leg = "dir" /\ s.ex THEN Fail(s, "exists")
         ELSE Ok(Fresh(s.leg, s.now), MutOut(Fresh(s.leg, s.now)))
    [] c.op = "identity" -> IF lc # "ok" THEN Fail(s, lc) ELSE Ok(s, [NoOut EXCEPT !.t = "id"])
    [] c.op = "list" -> IF lc # "ok" THEN Fail(s, lc) ELSE Ok(s, [NoOut EXCEPT !.t = "list", !.rows = ListRows(s)])
    [] c.op = "add" ->
         IF lc # "ok" THEN Fail(s, lc)
         ELSE IF c.k \notin Keys THEN Fail(s, "badkey")
         ELSE IF Has(s, c.n) THEN Fail(s, "duplicate")
         ELSE LET s2 == [s EXCEPT !.srv[c.n] = c.k] IN
              \* "The name is an arbitrary local identifier": any name works; a tool that refuses a name it cannot
              \* use as part of a file name, cleanly and before changing anything, is accepted as well
              Ok(s2, MutOut(s2)) \cup (IF c.n \in Unsafe THEN Fail(s, "unsafe_name_refused") ELSE {})
    [] c.op = "remove" ->
         IF lc # "ok" THEN Fail(s, lc)
         ELSE IF ~Has(s, c.n) THEN Fail(s, "unknown")
         ELSE LET s2 == [s EXCEPT !.srv[c.n] = Absent, !.certs[c.n] = <<>>] IN Ok(s2, MutOut(s2))
    [] c.op = "sign" ->
         IF s.leg # "api" /\ c.d \notin 1..MaxDays THEN Fail(s, "usage")
         ELSE IF lc # "ok" THEN Fail(s, lc)
         ELSE IF ~Has(s, c.n) THEN Fail(s, "unknown")
         ELSE LET cert == Cert(s.srv[c.n], s.now + c.d)
                  s2 == IF s.leg = "dir" THEN [s EXCEPT !.certs[c.n] = Append(@, cert)] ELSE s
              IN Ok(s2, [NoOut EXCEPT !.t = "cert", !.cert = CertObs(cert)])
    [] c.op = "tick" -> Ok([s EXCEPT !.now = @ + 1], NoOut)
    [] c.op = "damage" -> Ok([s EXCEPT !.dmg = [kind |-> c.kind, n |-> c.n, i |-> c.i]], NoOut)
    [] c.op = "restore" -> Ok([s EXCEPT !.dmg = NoDmg], NoOut)

\* what an observer of the directory / document / object sees in state s
ExpObs(s) ==
  [leg |-> s.leg, ex |-> s.ex, srv |-> s.srv,
   certs |-> [n \in Names |-> [i \in 1..Len(s.certs[n]) |-> CertObs(s.certs[n][i])]],
   load |-> LoadClass(s), dmg |-> s.dmg.kind, rt |-> RoundTrip(s)]
=============================================================================
