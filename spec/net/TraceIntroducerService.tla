--------------------- MODULE TraceIntroducerService ---------------------
(* Trace validation of a real IntroducerService and real IntroducerClients
   (harness/introsvc_driver.py) against IntroducerService.tla.

   consts: clients, services, keys, remembered (does a client that started from
           its cache remember what it loaded - see ClLoadCache), cls
   events (each with `obs`: what the real objects answer after the step)
     Publish(c, svc, key, body, seq)   IntroducerClient.publish; seq = the sequencer's number afterwards
     Subscribe(c, svc)                 subscribe_to
     Start(c, ok)                      startService; the first connection attempt succeeds / fails
     Connect(c)                        the reconnector establishes a connection
     C2S(c, msg)                       the oldest call of c's connection reaches the introducer
                                       (get_version / publish item / subscribe svc), the answer travels back
     S2C(c, batch)                     the oldest announce_v2 of c's connection reaches the client
     RawSubscribe(c, svc)              c asks again for a service it is subscribed to (arrives later as C2S)
     Disconnect(c) Kill(c) ServerRestart
     Inject(item)                      somebody else publishes item directly
     Quiescent                         nothing is in flight

   Two levels (DESIGN.md 5.3a).  The introducer's reaction to a call and a client's
   reaction to an announce_v2 / a subscribe_to / a start are deterministic and judged
   exactly (store, subscribers, what is sent to whom, what local subscribers are told,
   the cache file).  *What* a client sends and when is its own business: a publish
   call must carry an announcement the node really made (right key, a seqnum it
   issued, the body it offered) and at Quiescent everything a connected node offers
   must have arrived and every subscription must stand.  The verdict is the name of
   the first clause that fails. *)
EXTENDS IntroducerService, Json, IOUtils, TLCExt

Traces == JsonDeserialize(IOEnv.TRACE_FILE)

VARIABLES tid, l, W, bad
tvars == <<tid, l, W, bad>>

K == Traces[tid].consts
Events == Traces[tid].events
Ev == Events[l]
Clients == ToSet(K.clients)
Services == ToSet(K.services)
Keys == ToSet(K.keys)
Indexes == Services \X Keys
NoWant == [present |-> FALSE, key |-> "", body |-> "", since |-> 0]

NormSeq(q) == [k |-> q.k, n |-> q.n]
NormItem(it) == [svc |-> it.svc, key |-> it.key, origin |-> it.origin, wellformed |-> it.wellformed,
                 seq |-> NormSeq(it.seq), body |-> it.body]
NormD(d) == [svc |-> d.svc, key |-> d.key, seq |-> NormSeq(d.seq), body |-> d.body]
DSet(lst) == {NormD(lst[n]) : n \in 1..Len(lst)}

Told(lst, ds) == [i \in Indexes |-> IF \E d \in ds : IdxOf(d) = i THEN EntryOf(CHOOSE d \in ds : IdxOf(d) = i) ELSE lst[i]]

W0 == [srv |-> SrvInit(Services, Keys),
       cl |-> [c \in Clients |-> ClInit(Services, Keys)],
       seqctr |-> [c \in Clients |-> 0],
       cache |-> [c \in Clients |-> {}],
       s2c |-> [c \in Clients |-> <<>>],
       want |-> [c \in Clients |-> [s \in Services |-> NoWant]],
       made |-> [c \in Clients |-> {}],
       last |-> [c \in Clients |-> [i \in Indexes |-> Absent]]]

NoFwd == [c \in Clients |-> <<>>]
NoOut == [c \in Clients |-> {}]
\* result of a step: clause ("" = fine so far), next state, what the introducer sends to whom, what local subscribers are told
R(c, s, fwd, out) == [c |-> c, s |-> s, fwd |-> fwd, out |-> out]
Queue(T, fwd) == [T EXCEPT !.s2c = [c \in Clients |-> T.s2c[c] \o fwd[c]]]

VPublish(e) ==
  LET c == e.c
      r == ClPublish(W.cl[c], e.svc, e.key, e.body, e.seq, FALSE)
      w2 == [W.want[c] EXCEPT ![e.svc] = [present |-> TRUE, key |-> e.key, body |-> e.body, since |-> e.seq]]
      T == [W EXCEPT !.cl[c] = r.C, !.seqctr[c] = e.seq, !.want[c] = w2,
                     !.made[c] = @ \cup {[svc |-> s, key |-> w2[s].key, seq |-> IntSeq(e.seq), body |-> w2[s].body] :
                                            s \in {t \in Services : w2[t].present}}]
  IN IF e.seq <= W.seqctr[c] THEN R("XI_seqnum_not_incremented_on_publish", W, NoFwd, NoOut)
     ELSE R("", T, NoFwd, NoOut)

VSubscribe(e) ==
  LET c == e.c
      r == ClSubscribeLocal(W.cl[c], e.svc)
  IN R("", [W EXCEPT !.cl[c] = r.C, !.last[c] = Told(@, r.out)], NoFwd, [NoOut EXCEPT ![c] = r.out])

VStart(e) ==
  LET c == e.c IN
  IF e.ok THEN R("", [W EXCEPT !.cl[c].run = TRUE, !.cl[c].conn = "wait"], NoFwd, NoOut)
  ELSE LET r == ClLoadCache(W.cl[c], W.cache[c], K.remembered)
       IN R("", [W EXCEPT !.cl[c] = [r.C EXCEPT !.run = TRUE], !.last[c] = Told(@, r.out)], NoFwd, [NoOut EXCEPT ![c] = r.out])

VConnect(e) == R("", [W EXCEPT !.cl[e.c].conn = "wait"], NoFwd, NoOut)

\* is the announcement in a publish call one this node really made (in this incarnation)?  made[c] holds, per publish()
\* call, every service the node offered at that moment under the key it was offered with, with the seqnum of the call
SentClause(c, it) ==
  LET d == Delivery(it)
      w == W.want[c]
  IN IF ~(it.wellformed /\ it.origin = it.key) THEN "XI_client_published_unverifiable_announcement"
     ELSE IF d \in W.made[c] THEN ""
     ELSE IF \E x \in W.made[c] : x.svc = d.svc /\ x.seq = d.seq /\ x.body = d.body THEN
        (IF \E s \in Services : w[s].present /\ w[s].key = it.key THEN "XI_published_under_key_of_other_service"
         ELSE "XI_published_under_unknown_key")
     ELSE "XI_client_published_announcement_it_never_made"

VC2S(e) ==
  LET c == e.c
      m == e.msg
  IN IF m.m = "get_version" THEN R("", [W EXCEPT !.cl[c] = ClGotVersion(@).C], NoFwd, NoOut)
     ELSE IF m.m = "publish" THEN
        LET it == NormItem(m.item)
            sc == SentClause(c, it)
            r == SrvPublish(W.srv, it)
            fwd == [x \in Clients |-> IF x \in r.to THEN <<r.batch>> ELSE <<>>]
        IN IF sc # "" THEN R(sc, W, NoFwd, NoOut)
           ELSE R("", Queue([W EXCEPT !.srv = r.V], fwd), fwd, NoOut)
     ELSE IF m.m = "subscribe" THEN
        LET r == SrvSubscribe(W.srv, c, m.svc)
            fwd == [x \in Clients |-> IF x = c /\ r.batch # {} THEN <<r.batch>> ELSE <<>>]
        IN IF m.svc \notin W.cl[c].lsubs THEN R("XI_client_subscribed_to_service_nobody_asked_for", W, NoFwd, NoOut)
           ELSE R("", Queue([W EXCEPT !.srv = r.V, !.cl[c].sent = @ \cup {m.svc}], fwd), fwd, NoOut)
     ELSE R("XI_unknown_remote_call", W, NoFwd, NoOut)

VS2C(e) ==
  LET c == e.c IN
  IF W.s2c[c] = <<>> \/ Head(W.s2c[c]) # DSet(e.batch) THEN R("XI_wire_batch_differs", W, NoFwd, NoOut)
  ELSE LET r == ClReceive(W.cl[c], Head(W.s2c[c]), W.cache[c])
       IN R("", [W EXCEPT !.cl[c] = r.C, !.cache[c] = r.cache, !.s2c[c] = Tail(@), !.last[c] = Told(@, ToSet(r.out))],
            NoFwd, [NoOut EXCEPT ![c] = ToSet(r.out)])

Dropped(T, c) == [T EXCEPT !.srv = SrvDrop(@, c), !.s2c[c] = <<>>]
VDisconnect(e) == R("", [Dropped(W, e.c) EXCEPT !.cl[e.c] = ClDisconnected(@)], NoFwd, NoOut)
VKill(e) ==
  R("", [Dropped(W, e.c) EXCEPT !.cl[e.c] = ClInit(Services, Keys), !.want[e.c] = [s \in Services |-> NoWant], !.made[e.c] = {},
                                !.last[e.c] = [i \in Indexes |-> Absent]], NoFwd, NoOut)
VServerRestart ==
  R("", [W EXCEPT !.srv = SrvInit(Services, Keys),
                  !.cl = [c \in Clients |-> IF W.cl[c].conn # "down" THEN ClDisconnected(W.cl[c]) ELSE W.cl[c]],
                  !.s2c = [c \in Clients |-> <<>>]], NoFwd, NoOut)

VInject(e) ==
  LET it == NormItem(e.item)
      r == SrvPublish(W.srv, it)
      fwd == [x \in Clients |-> IF x \in r.to THEN <<r.batch>> ELSE <<>>]
  IN IF PubAccepted(r.class) /\ e.obs.raised # "" THEN R("XI_publish_of_acceptable_announcement_failed", W, NoFwd, NoOut)
     ELSE R("", Queue([W EXCEPT !.srv = r.V], fwd), fwd, NoOut)

\* nothing in flight: what connected nodes offer has arrived, subscriptions stand, subscribers are up to date
Up(c) == W.cl[c].conn = "up"
VQuiescent(e) ==
  LET reached(p, svc) == LET x == W.srv.st.store[<<svc, W.want[p][svc].key>>]
                         IN x.present /\ x.body = W.want[p][svc].body /\ x.seq.k = "int"
                            /\ x.seq.n >= W.want[p][svc].since /\ x.seq.n <= W.seqctr[p]
      heard(p, svc, s) == LET x == W.last[s][<<svc, W.want[p][svc].key>>]
                          IN x.present /\ x.body = W.want[p][svc].body /\ x.seq.n >= W.want[p][svc].since
      offers == {ps \in Clients \X Services : Up(ps[1]) /\ W.want[ps[1]][ps[2]].present}
  IN IF \E c \in Clients : e.obs.pending[c] # 0 \/ W.s2c[c] # <<>> THEN R("driver_not_quiescent", W, NoFwd, NoOut)
     ELSE IF \E ps \in offers : ~reached(ps[1], ps[2]) THEN R("XI_PublishedReachesServer", W, NoFwd, NoOut)
     ELSE IF \E c \in Clients : Up(c) /\ \E svc \in W.cl[c].lsubs : <<c, svc>> \notin W.srv.subs
        THEN R("XI_SubscriptionStands", W, NoFwd, NoOut)
     ELSE IF \E ps \in offers : \E s \in Clients : Up(s) /\ ps[2] \in W.cl[s].lsubs /\ ~heard(ps[1], ps[2], s)
        THEN R("XI_SubscriberHearsLatest", W, NoFwd, NoOut)
     ELSE IF \E s \in W.srv.subs : \E i \in Indexes :
                i[1] = s[2] /\ W.srv.st.store[i].present
                /\ ~(W.cl[s[1]].S.store[i].present /\ W.cl[s[1]].S.store[i].seq.n >= W.srv.st.store[i].seq.n)
        THEN R("XI_LateEqualsEarly", W, NoFwd, NoOut)
     ELSE R("", W, NoFwd, NoOut)

Step(e) ==
  CASE e.ev = "Publish"       -> VPublish(e)
    [] e.ev = "Subscribe"     -> VSubscribe(e)
    [] e.ev = "Start"         -> VStart(e)
    [] e.ev = "Connect"       -> VConnect(e)
    [] e.ev = "C2S"           -> VC2S(e)
    [] e.ev = "S2C"           -> VS2C(e)
    [] e.ev = "RawSubscribe"  -> R("", W, NoFwd, NoOut)
    [] e.ev = "Disconnect"    -> VDisconnect(e)
    [] e.ev = "Kill"          -> VKill(e)
    [] e.ev = "ServerRestart" -> VServerRestart
    [] e.ev = "Inject"        -> VInject(e)
    [] e.ev = "Quiescent"     -> VQuiescent(e)
    [] OTHER                  -> R("unknown_event", W, NoFwd, NoOut)

(* ---- what the real objects answer after the step, against the Spec's next state ---- *)
FwdClause(c, exp, obs) ==
  IF Len(obs) # Len(exp) THEN (IF Len(obs) > Len(exp) THEN "XI_forwarded_unexpectedly" ELSE "XI_not_forwarded")
  ELSE IF \E k \in 1..Len(exp) : DSet(obs[k]) # exp[k] \/ Len(obs[k]) # Cardinality(exp[k]) THEN "XI_forwarded_batch_differs"
  ELSE ""
\* what the local subscribers of c were told in this step.  A client that started from its cache may tell a subscriber
\* again what it was last told ("you must be prepared to tolerate duplicates"); nothing else may be added or left out
OutClause(c, exp, obs, ld) ==
  LET got == DSet(obs)
      dupl(d) == ld /\ W.last[c][IdxOf(d)] = EntryOf(d)
      older(d) == W.last[c][IdxOf(d)].present /\ d.seq.n < W.last[c][IdxOf(d)].seq.n
  IN IF \E n \in 1..Len(obs) : obs[n].cb # obs[n].svc THEN "XI_delivered_to_subscriber_of_other_service"
     ELSE IF \E d \in got \ exp : ~dupl(d) THEN
        (IF \E d \in got \ exp : ~dupl(d) /\ older(d) THEN "XI_NeverBackwards_delivery" ELSE "XI_delivered_unexpectedly")
     ELSE IF \E d \in exp : d \notin got THEN "XI_not_delivered"
     ELSE IF Len(obs) # Cardinality(got) THEN "XI_delivered_more_than_once"
     ELSE ""
First(f(_), S) == IF \E c \in S : f(c) # "" THEN f(CHOOSE c \in S : f(c) # "") ELSE ""

LossEvents == {"Disconnect", "Kill", "ServerRestart"}
Judge(e, r) ==
  LET o == e.obs
      T == r.s
      refused == (e.ev = "Inject" /\ ~PubAccepted(PubClass(W.srv, NormItem(e.item))))
                 \/ (e.ev = "C2S" /\ e.msg.m = "publish" /\ ~PubAccepted(PubClass(W.srv, NormItem(e.msg.item))))
      fwdc == First(LAMBDA c : FwdClause(c, r.fwd[c], o.fwd[c]), Clients)
      outc == First(LAMBDA c : OutClause(c, r.out[c], o.out[c], T.cl[c].ld), Clients)
      back == \E c \in Clients : \E i \in Indexes :
                 /\ W.last[c][i].present /\ T.last[c][i].present /\ e.ev # "Kill" /\ T.last[c][i].seq.n < W.last[c][i].seq.n
                 /\ (K.remembered \/ ~T.cl[c].ld)
  IN IF r.c # "" THEN r.c
     ELSE IF e.ev # "Inject" /\ o.raised # "" THEN "XI_entry_point_raised"
     ELSE IF DSet(o.anns) # Stored(T.srv.st) \/ Len(o.anns) # Cardinality(Stored(T.srv.st)) THEN
        (IF \E d \in DSet(o.anns) : d \notin Stored(T.srv.st) THEN "XI_server_holds_unexpected_announcement"
         ELSE "XI_server_lost_announcement")
     ELSE IF {<<o.subs[n][2], o.subs[n][1]>> : n \in 1..Len(o.subs)} # T.srv.subs \/ Len(o.subs) # Cardinality(T.srv.subs)
        THEN "XI_server_subscribers"
     ELSE IF fwdc # "" THEN fwdc
     ELSE IF outc # "" THEN outc
     ELSE IF \E c \in Clients : o.conn[c] # (T.cl[c].conn = "up") THEN "XI_connected_to_introducer"
     ELSE IF \E c \in Clients : DSet(o.cache[c]) # T.cache[c] \/ Len(o.cache[c]) # Cardinality(T.cache[c]) THEN
        (IF \E c \in Clients : Len(o.cache[c]) > Cardinality(DSet(o.cache[c])) THEN "XI_cache_entry_duplicated"
         ELSE IF \E c \in Clients : \E d \in T.cache[c] : d \notin DSet(o.cache[c]) THEN "XI_cache_lost_announcement"
         ELSE "XI_cache_file_differs")
     ELSE IF o.counts.present /\ \E f \in DOMAIN T.srv.cnt : o.counts[f] # T.srv.cnt[f] THEN "XI_debug_counts"
     ELSE IF o.errors > 0 /\ e.ev \notin LossEvents /\ ~refused THEN "XI_error_logged"
     ELSE IF back THEN "XI_NeverBackwards"
     ELSE ""

TraceInit ==
  /\ tid \in 1..Len(Traces)
  /\ l = 1
  /\ W = W0
  /\ bad = "none"

TraceNext ==
  /\ bad = "none"
  /\ l <= Len(Events)
  /\ LET r == Step(Ev)
         c == Judge(Ev, r)
     IN IF c = ""
          THEN /\ W' = r.s /\ l' = l + 1 /\ bad' = "none"
               /\ (l = Len(Events) => PrintT(<<"VF_ACCEPT", tid, l>>))
          ELSE /\ bad' = c /\ UNCHANGED <<W, l>>
               /\ PrintT(<<"VF_REJECT", tid, l, c>>)
  /\ UNCHANGED tid

TraceSpec == TraceInit /\ [][TraceNext]_tvars
TraceOK == bad = "none"
=============================================================================
