-------------------------- MODULE TraceServerOrder --------------------------
(* Trace validation of real StorageFarmBrokers against ServerOrder.tla.
   consts: servers, keys (configured grid-manager keys), preferred, certs[s] (abstract certificates announced by s)
   events: Set(client, sid, connected)   a server is made known / connected / disconnected in one client
           Query(client, psi, forUpload, now, rank, res)
           QueryBoth(psi, forUpload, now, rank, resA, resB)   the two clients are asked the same question *)
EXTENDS ServerOrder, Json, IOUtils, TLCExt

Traces == JsonDeserialize(IOEnv.TRACE_FILE)

VARIABLES tid, l, S, bad
tvars == <<tid, l, S, bad>>

C == Traces[tid].consts
Events == Traces[tid].events
Ev == Events[l]
AllServers == ToSet(C.servers)
Keys == ToSet(C.keys)
Preferred == ToSet(C.preferred)
CertsOf == [s \in AllServers |-> {[signer |-> c.signer, subject |-> c.subject, expires |-> c.expires, tamper |-> c.tamper] : c \in ToSet(C.certs[s])}]

V(c, s) == [c |-> c, s |-> s]

\* names the first clause a result breaks ("" = it is the Spec's answer)
Judge(conn, e, res) ==
  LET pool == Pool(conn, e.forUpload, Keys, CertsOf, e.now)
      exp == ServersForPsi(conn, Preferred, e.rank, e.forUpload, Keys, CertsOf, e.now)
  IN IF res = exp THEN ""
     ELSE IF ~NoDup(res) \/ ~(ToSet(res) \subseteq conn) THEN "C32_not_connected_or_duplicate"
     ELSE IF e.forUpload /\ ~(ToSet(res) \subseteq pool) THEN "C32_UploadFilter"
     ELSE IF ToSet(res) # pool THEN "C32_server_missing"
     ELSE IF ~PreferredFirst(res, Preferred) THEN "C32_PreferredFirst"
     ELSE IF ~RankAscending(res, Preferred, e.rank) THEN "C32_RankOrder"
     ELSE "C32_order_differs"

VSet(e) == V("", [S EXCEPT ![e.client] = IF e.connected THEN @ \cup {e.sid} ELSE @ \ {e.sid}])
VQuery(e) == V(Judge(S[e.client], e, e.res), S)
VQueryBoth(e) ==
  IF S["A"] = S["B"] /\ e.resA # e.resB THEN V("C32_Consistent", S)
  ELSE IF Judge(S["A"], e, e.resA) # "" THEN V(Judge(S["A"], e, e.resA), S)
  ELSE V(Judge(S["B"], e, e.resB), S)

Verdict(e) ==
  CASE e.ev = "Set"       -> VSet(e)
    [] e.ev = "Query"     -> VQuery(e)
    [] e.ev = "QueryBoth" -> VQueryBoth(e)
    [] OTHER              -> V("unknown_event", S)

TraceInit ==
  /\ tid \in 1..Len(Traces)
  /\ l = 1
  /\ S = [c \in {"A", "B"} |-> {}]
  /\ bad = "none"

TraceNext ==
  /\ bad = "none"
  /\ l <= Len(Events)
  /\ LET v == Verdict(Ev)
     IN IF v.c = ""
          THEN /\ S' = v.s /\ l' = l + 1 /\ bad' = "none"
               /\ (l = Len(Events) => PrintT(<<"VF_ACCEPT", tid, l>>))
          ELSE /\ bad' = v.c /\ UNCHANGED <<S, l>>
               /\ PrintT(<<"VF_REJECT", tid, l, v.c>>)
  /\ UNCHANGED tid

TraceSpec == TraceInit /\ [][TraceNext]_tvars
TraceOK == bad = "none"
=============================================================================
