-------------------------- MODULE TraceServerOrder --------------------------
(* Trace validation of real StorageFarmBrokers against ServerOrder.tla.
   consts: servers, keys (configured grid-manager keys), preferred, certs[s] (abstract certificates announced by s)
   events: Set(client, sid, connected)   a server is made known / connected / disconnected in one client
           Query(client, psi, forUpload, now, rank, res)
           QueryBoth(psi, forUpload, now, rank, resA, resB)   the two clients are asked the same question *)
EXTENDS ServerOrder, Json, IOUtils, TLCExt

Traces == JsonDeserialize(IOEnv.TRACE_FILE)

VARIABLES tid, l, S, bad
tvars == <<tid, l, S, bad>>

C == Traces[tid].consts
Events == Traces[tid].events
Ev == Events[l]
AllServers == ToSet(C.servers)
Keys == ToSet(C.keys)
Preferred == ToSet(C.preferred)
AbsCerts(cs) == {[signer |-> c.signer, subject |-> c.subject, expires |-> c.expires, tamper |-> c.tamper] : c \in ToSet(cs)}
\* tamper = "malformed": an announced entry that is not a well-formed certificate; it verifies for no key (SigOK needs "none")

\* S.conn[client]: connected servers; S.certs[client][server]: the certificates of the announcement the client accepted last
V(c, s) == [c |-> c, s |-> s]

\* names the first clause a result breaks ("" = it is the Spec's answer)
\* grid-manager keys are configured, but none of the configured entries is a key (damaged text): the client either
\* refuses the configuration (ConfigRefused) or runs with "no key vouches for anybody" - never with "no grid manager"
NoUsableKey == "configured" \in DOMAIN C /\ C.configured > 0 /\ Keys = {}
Judge(cl, e, res) ==
  LET conn == S.conn[cl]
      pool == IF e.forUpload /\ NoUsableKey THEN {} ELSE Pool(conn, e.forUpload, Keys, S.certs[cl], e.now)
      exp == IF e.forUpload /\ NoUsableKey THEN <<>> ELSE ServersForPsi(conn, Preferred, e.rank, e.forUpload, Keys, S.certs[cl], e.now)
  IN IF res = exp THEN ""
     ELSE IF ~NoDup(res) \/ ~(ToSet(res) \subseteq conn) THEN "C32_not_connected_or_duplicate"
     ELSE IF e.forUpload /\ ~(ToSet(res) \subseteq pool) THEN "C32_UploadFilter"
     ELSE IF ToSet(res) # pool THEN "C32_server_missing"
     ELSE IF ~PreferredFirst(res, Preferred) THEN "C32_PreferredFirst"
     ELSE IF ~RankAscending(res, Preferred, e.rank) THEN "C32_RankOrder"
     ELSE "C32_order_differs"

SetConn(cl, sid, on) == [S EXCEPT !.conn[cl] = IF on THEN @ \cup {sid} ELSE @ \ {sid}]
VSet(e) == V("", SetConn(e.client, e.sid, e.connected))
\* An announcement handed to the broker.  Whether the broker keeps the connection, and whether it accepts an
\* announcement with an entry that is no certificate at all, is not the properties' business (observed); once it
\* has accepted an announcement, that announcement's certificates are the ones the server "currently holds".
VAnnounce(e) ==
  LET T == SetConn(e.client, e.sid, e.connected) IN
  IF e.connected /\ ~e.known THEN V("C32_connected_server_unknown", S)
  ELSE IF e.accepted THEN V("", [T EXCEPT !.certs[e.client][e.sid] = AbsCerts(e.certs)])
  ELSE V("", T)
VQuery(e) == V(Judge(e.client, e, e.res), S)
SameView(e) == /\ S.conn["A"] = S.conn["B"]
               /\ Pool(S.conn["A"], e.forUpload, Keys, S.certs["A"], e.now) = Pool(S.conn["B"], e.forUpload, Keys, S.certs["B"], e.now)
VQueryBoth(e) ==
  IF SameView(e) /\ e.resA # e.resB THEN V("C32_Consistent", S)
  ELSE IF Judge("A", e, e.resA) # "" THEN V(Judge("A", e, e.resA), S)
  ELSE V(Judge("B", e, e.resB), S)
\* C33 at the place where the client consults it: upload_permitted() of the server objects
VPermits(e) ==
  LET bad1 == {s \in DOMAIN e.res : e.res[s] /\ (NoUsableKey \/ GMVerdict(Keys, S.certs[e.client][s], s, e.now) = "deny")}
      bad2 == {s \in DOMAIN e.res : ~e.res[s] /\ GMVerdict(Keys, S.certs[e.client][s], s, e.now) = "permit"}
  IN IF bad1 # {} THEN V("C33_permitted_without_valid_certificate", S)
     ELSE IF bad2 # {} THEN V("C33_valid_certificate_denied", S)
     ELSE V("", S)

Verdict(e) ==
  CASE e.ev = "Set"       -> VSet(e)
    [] e.ev = "Announce"  -> VAnnounce(e)
    [] e.ev = "Query"     -> VQuery(e)
    [] e.ev = "QueryBoth" -> VQueryBoth(e)
    [] e.ev = "Permits"   -> VPermits(e)
    [] e.ev = "ConfigRefused" -> V("", S)
    [] OTHER              -> V("unknown_event", S)

TraceInit ==
  /\ tid \in 1..Len(Traces)
  /\ l = 1
  /\ S = [conn |-> [c \in {"A", "B"} |-> {}], certs |-> [c \in {"A", "B"} |-> [s \in AllServers |-> {}]]]
  /\ bad = "none"

TraceNext ==
  /\ bad = "none"
  /\ l <= Len(Events)
  /\ LET v == Verdict(Ev)
     IN IF v.c = ""
          THEN /\ S' = v.s /\ l' = l + 1 /\ bad' = "none"
               /\ (l = Len(Events) => PrintT(<<"VF_ACCEPT", tid, l>>))
          ELSE /\ bad' = v.c /\ UNCHANGED <<S, l>>
               /\ PrintT(<<"VF_REJECT", tid, l, v.c>>)
  /\ UNCHANGED tid

TraceSpec == TraceInit /\ [][TraceNext]_tvars
TraceOK == bad = "none"
=============================================================================
