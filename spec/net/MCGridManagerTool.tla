--------------------------- MODULE MCGridManagerTool ---------------------------
(* The grid manager as a state machine: TLC explores every sequence of commands (valid and invalid ones,
   damage and repair of the files, days passing) within the bounds and checks what the documentation
   promises, stated over the environment's own books (what was asked and answered, which certificate
   was handed out when) rather than over the operators of GridManagerTool.tla.

   A behaviour alternates "a command is answered" (last holds the command, its answer and the state before)
   and "the answer has been read" (last is cleared), so that every (state, command) pair is evaluated once.
   With Emit = TRUE every state is also printed as one JSON line: the reachable states with the observation
   the Spec expects there (ExpObs) and every (state, command, allowed outcome) - the transition table that
   harness/gmtool_driver.py walks through the real command line and functions. *)
EXTENDS GridManagerTool, Json

CONSTANT Emit

VARIABLES s,        \* the directory / document / object
          last,     \* the last command, its outcome, the state before it, and (sign) the certificate handed out
          log       \* dir: per name the certificates issued since the name was (last) added, in order
vars == <<s, last, log>>

NoCmd == Simple("init")
NoIssue == [cert |-> Cert(Absent, 0), at |-> 0, d |-> 0]
Read(st) == [c |-> NoCmd, rc |-> "ok", why |-> "ok", out |-> NoOut, pre |-> st, issue |-> NoIssue]
Init == /\ s \in InitStates
        /\ last = Read(s)
        /\ log = [n \in Names |-> <<>>]

Do == \E c \in Cmds(s) : \E o \in Step(s, c) :
          LET signed == o.rc = "ok" /\ c.op = "sign"
              cert == Cert(s.srv[c.n], s.now + c.d)          \* the environment's own idea of what was asked for
          IN /\ s' = o.s2
             /\ last' = [c |-> c, rc |-> o.rc, why |-> o.why, out |-> o.out, pre |-> s,
                         issue |-> IF signed THEN [cert |-> cert, at |-> s.now, d |-> c.d] ELSE NoIssue]
             /\ log' = IF s.leg # "dir" THEN log
                       ELSE IF signed THEN [log EXCEPT ![c.n] = Append(@, cert)]
                       ELSE IF o.rc = "ok" /\ c.op = "remove" THEN [log EXCEPT ![c.n] = <<>>]
                       ELSE IF o.rc = "ok" /\ c.op = "create" THEN [n \in Names |-> <<>>]
                       ELSE log
Next == IF last.c = NoCmd THEN Do ELSE (s' = s /\ log' = log /\ last' = Read(s))
Spec == Init /\ [][Next]_vars

\* the table (always true; prints)
XG_Emit == Emit => PrintT(ToJson(IF last.c = NoCmd THEN [t |-> "state", s |-> s, obs |-> ExpObs(s)]
                                 ELSE [t |-> "out", s |-> last.pre, c |-> last.c, rc |-> last.rc, why |-> last.why, out |-> last.out, s2 |-> s]))

Signed == last.rc = "ok" /\ last.c.op = "sign"
Loading == {"identity", "list", "add", "remove", "sign"}
Reading == {"identity", "list"}

TypeOK == /\ s.leg \in Legs /\ s.leg = last.pre.leg /\ s.ex \in BOOLEAN /\ s.now \in 0..MaxNow
          /\ \A n \in Names : s.srv[n] \in Keys \cup {Absent}
          /\ \A n \in Names : \A i \in 1..Len(s.certs[n]) : s.certs[n][i].subject \in Keys

\* a stored certificate always names the key its server has now, and a name that is not a server has none
\* (remove takes the certificates along: a later server of the same name does not inherit them)
XG_CertsNameCurrentKey == \A n \in Names : /\ (~Has(s, n) => s.certs[n] = <<>>)
                                           /\ \A i \in 1..Len(s.certs[n]) : s.certs[n][i].subject = s.srv[n]
\* on disk: <name>.cert.<i> is the i-th certificate issued for the name, nothing lost, nothing renumbered;
\* from stdin / through the functions nothing is stored
XG_Numbering == IF s.leg = "dir" THEN \A n \in Names : s.certs[n] = log[n] ELSE \A n \in Names : s.certs[n] = <<>>
\* a certificate signed for a server verifies under the manager's public key with the validation clients use
\* (C33: Permitted), for exactly that server, until its expiry, and under no other manager's key
\* -- for the certificate just printed and for every stored one
XG_IssuedVerify == Signed => LET x == last.issue IN
                     /\ last.out.cert = CertObs(x.cert)
                     /\ \A p \in Probes : \A k \in Keys :
                          /\ p \in last.out.cert.permits[k] <=> (k = last.pre.srv[last.c.n] /\ p < x.at + x.d)
                          /\ p \notin last.out.cert.foreign
XG_StoredVerify == \A n \in Names : \A i \in 1..Len(s.certs[n]) : \A p \in Probes : \A k \in Keys :
                     /\ Permitted({GM}, {s.certs[n][i]}, k, p) <=> (k = s.srv[n] /\ p < s.certs[n][i].expires)
                     /\ ~Permitted({Foreign}, {s.certs[n][i]}, k, p)
\* the command line only issues certificates that expire in the future (1..1825 days) ...
XG_CliExpiryInFuture == (s.leg # "api" /\ Signed) => LET x == last.issue IN x.d \in 1..MaxDays /\ (x.at \in Probes => x.at \in last.out.cert.permits[x.cert.subject])
\* ... and a certificate signed through the function with a zero or negative expiry is never valid from its first day on
XG_NonPositiveNeverValid == (Signed /\ last.issue.d <= 0) => \A p \in Probes : p >= last.issue.at => \A k \in Keys : p \notin last.out.cert.permits[k]
\* certificates are only issued for servers the manager knows, naming the key it has for them at that moment
XG_IssuedForKnown == Signed => (Has(last.pre, last.c.n) /\ last.out.cert.subject = last.pre.srv[last.c.n])
\* a command that fails changes nothing and prints nothing
XG_FailChangesNothing == last.rc = "fail" => (s = last.pre /\ last.out = NoOut)
XG_ReadOnlyCommands == last.c.op \in Reading => s = last.pre
\* a damaged or missing configuration is refused by every command that needs it
XG_DamagedRefuses == (last.c.op \in Loading /\ (last.pre.dmg # NoDmg \/ ~last.pre.ex)) => last.rc = "fail"
XG_CreateOnlyOnce == (s.leg = "dir" /\ last.c.op = "create" /\ last.pre.ex) => last.rc = "fail"
XG_DuplicateRefused == (last.c.op = "add" /\ Has(last.pre, last.c.n)) => last.rc = "fail"
XG_UnknownRefused == (last.c.op \in {"remove", "sign"} /\ ~Has(last.pre, last.c.n)) => last.rc = "fail"
XG_AddAdds == (last.c.op = "add" /\ last.rc = "ok") =>
                /\ s.srv[last.c.n] = last.c.k /\ last.c.k \in Keys
                /\ \A n \in Names \ {last.c.n} : s.srv[n] = last.pre.srv[n]
                /\ s.certs = last.pre.certs
XG_RemoveForgets == (last.c.op = "remove" /\ last.rc = "ok") =>
                      /\ ~Has(s, last.c.n) /\ s.certs[last.c.n] = <<>>
                      /\ \A n \in Names \ {last.c.n} : s.srv[n] = last.pre.srv[n] /\ s.certs[n] = last.pre.certs[n]
XG_SignOnlyAppends == (last.c.op = "sign" /\ last.rc = "ok") =>
                        /\ s.srv = last.pre.srv
                        /\ \A n \in Names : IsPrefixOf(last.pre.certs[n], s.certs[n])
                        /\ NCerts(s) = NCerts(last.pre) + (IF s.leg = "dir" THEN 1 ELSE 0)
\* list shows exactly the servers, sorted, and every stored certificate with its number
XG_ListShowsAll == (last.c.op = "list" /\ last.rc = "ok") =>
                     /\ {last.out.rows[j].name : j \in 1..Len(last.out.rows)} = {n \in Names : Has(s, n)}
                     /\ \A j \in 1..Len(last.out.rows) : LET r == last.out.rows[j] IN
                          /\ r.key = s.srv[r.name] /\ Len(r.certs) = Len(s.certs[r.name])
                          /\ \A i \in 1..Len(r.certs) : r.certs[i].index = i - 1 /\ (r.certs[i].status = "valid" <=> s.now < r.certs[i].expires)
\* load . save = identity on every configuration the tool accepts
XG_LoadSaveIdentity == RoundTrip(s) = "same"
\* with the configuration on stdin the new configuration is printed by everything that changes it
XG_StdinPrintsConfig == (s.leg = "stdin" /\ last.rc = "ok" /\ last.c.op \in {"create", "add", "remove"}) => (last.out.t = "doc" /\ last.out.srv = s.srv)
=============================================================================
