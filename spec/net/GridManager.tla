----------------------------- MODULE GridManager -----------------------------
(* Grid-manager certificates (allmydata/grid_manager.py).
   A certificate is abstracted to
     signer   the grid-manager key that produced the signature
     subject  the storage server the certificate names
     expires  its expiry time
     tamper   "none", "cert" (certificate bytes changed after signing) or "sig" (signature bytes changed)
   One operator per function of the code. *)
EXTENDS Common

\* validate_grid_manager_certificate(key, cert): the signature verifies for this key
SigOK(key, c) == c.signer = key /\ c.tamper = "none"

\* create_grid_manager_verifier: at creation, keep the certificates that verify for one of the configured keys
ValidCerts(keys, certs) == {c \in certs : \E k \in keys : SigOK(k, c)}

\* the predicate validate(): some kept certificate names this server and has not expired
Validate(valid, server, now) == \E c \in valid : c.subject = server /\ now < c.expires
ValidateLax(valid, server, now) == \E c \in valid : c.subject = server /\ now <= c.expires

\* "if we have zero grid-manager keys then everything is valid"
Permitted(keys, certs, server, now) == keys = {} \/ Validate(ValidCerts(keys, certs), server, now)
PermittedLax(keys, certs, server, now) == keys = {} \/ ValidateLax(ValidCerts(keys, certs), server, now)

\* the instant now = expires of the last valid certificate is excluded from the verdict: either answer is accepted
GMVerdict(keys, certs, server, now) ==
  IF Permitted(keys, certs, server, now) THEN "permit"
  ELSE IF PermittedLax(keys, certs, server, now) THEN "either"
  ELSE "deny"

\* upload_permitted() of a server object: no verifier at all means permitted
UploadPermitted(hasVerifier, keys, certs, server, now) == ~hasVerifier \/ Permitted(keys, certs, server, now)
=============================================================================
