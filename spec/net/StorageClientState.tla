------------------------- MODULE StorageClientState -------------------------
(* The client's view of the storage servers as a state machine
   (allmydata/storage_client.py: StorageFarmBroker + NativeStorageServer).
   ServerOrder.tla (C32) orders the *connected* servers; this module says
   which server objects exist, which of them is the current one of a server
   id, which are connected, what they remember, and when the
   when_connected_enough() Deferreds fire.

   Sources of the rules (docs = /repo/docs, code = docstrings/comments):
   * docs/configuration.rst "Static Server Definitions": servers.yaml entries
     take part like announced servers; "to override the published announcement
     ... the server ID must exactly match"; code _should_ignore_announcement:
     "Let local static configuration always override any announcement".
   * _should_ignore_announcement: an announcement equal to the one we already
     have changes nothing; _got_announcement: "It's a replacement, get rid of
     the old one" (stop_connecting + disownServiceParent), "now we forget
     about them and start using the new one".
   * IStorageBroker (interfaces.py): get_connected_servers = "frozenset of
     connected IServer instances", get_known_servers, get_all_serverids,
     get_nickname_for_serverid = "unicode nickname, or None".
   * NativeStorageServer docstring: last_connect_time "when we last
     established a connection", last_loss_time "when we last lost a
     connection"; IServer.get_storage_server: "Before a server is connected
     for the first time, I return None" and it stays available after a loss
     (_lost: "We leave the stale reference in place").
   * when_connected_enough: "a Deferred that fires if/when our high water mark
     for number of connected servers becomes (or ever was) above threshold"
     (the code and test_storage_client use >=).
   * _trigger_connections: "when one connection is established, reset the
     timers on all others" (#374).
   * get_stub_server: server id, else the old tubid of a known server, else a
     StubServer.

   The state is one explicit value S; every entry point of the code is an
   operator S -> S', every query an operator over S.  MCStorageClientState
   explores it and states the rules independently; TraceStorageClientState
   replays recorded executions of the real classes through the same
   operators. *)
EXTENDS Common

(* An object = one NativeStorageServer instance ever created by the broker.
   sid   server id it was made for        ann   announcement version it carries
   sup   the announcement offers a way to connect (FURL); FALSE = "<unsupported>"
   tub   tub id of its FURL ("" when unsupported)   nick  nickname it reports
   conn  is_connected()                    ever  connected at least once
   ver   version information of the most recent connection ("none" before)
   lc,ll last_connect_time / last_loss_time (0 = never)
   quiet superseded or shut down: makes no more connection attempts
   nots  number of on_status_changed notifications delivered *)
NewObj(sid, a) ==
  [sid |-> sid, ann |-> a.ann, sup |-> a.sup, tub |-> IF a.sup THEN a.tub ELSE "",
   nick |-> IF a.sup THEN a.nick ELSE "", conn |-> FALSE, ever |-> FALSE, ver |-> "none",
   lc |-> 0, ll |-> 0, quiet |-> FALSE, nots |-> 0]

InitState(Sids, Lids) ==
  [objs |-> <<>>, cur |-> [s \in Sids |-> 0], static |-> {}, hwm |-> 0,
   pend |-> {}, fired |-> [l \in Lids |-> 0], now |-> 1]

(* ---- queries ------------------------------------------------------------ *)
AllIds(S) == {s \in DOMAIN S.cur : S.cur[s] # 0}                     \* get_all_serverids
Known(S) == {S.cur[s] : s \in AllIds(S)}                             \* get_known_servers
ConnectedObjs(S) == {o \in Known(S) : S.objs[o].conn}                \* get_connected_servers
IsKnown(S, sid) == sid \in DOMAIN S.cur /\ S.cur[sid] # 0
\* get_nickname_for_serverid: the current object's nickname, None for an unknown id
Nick(S, sid) == IF IsKnown(S, sid) THEN [known |-> TRUE, nick |-> S.objs[S.cur[sid]].nick]
                ELSE [known |-> FALSE, nick |-> ""]
\* get_stub_server by server id / by tub id: object number, 0 = a StubServer is made up
StubBySid(S, sid) == IF IsKnown(S, sid) THEN S.cur[sid] ELSE 0
StubByTub(S, tub) ==
  LET c == {o \in Known(S) : S.objs[o].sup /\ S.objs[o].tub = tub}
  IN IF c = {} THEN 0 ELSE CHOOSE o \in c : TRUE

(* ---- _check_connected_high_water_mark ----------------------------------- *)
CheckHWM(S) ==
  LET h == Max(S.hwm, Cardinality(ConnectedObjs(S)))
      go == {p \in S.pend : h >= p.th}
  IN [S EXCEPT !.hwm = h,
               !.pend = S.pend \ go,
               !.fired = [l \in DOMAIN S.fired |-> S.fired[l] + Cardinality({p \in go : p.lid = l})]]

(* ---- set_static_servers: entries in the order they are processed -------- *)
AddStaticOne(S, e) ==
  IF ~e.ok THEN S                       \* _make_storage_server failed: entry skipped, the others still count
  ELSE [S EXCEPT !.objs = Append(S.objs, NewObj(e.sid, e)),
                 !.cur[e.sid] = Len(S.objs) + 1,
                 !.static = S.static \cup {e.sid}]
RECURSIVE AddStatic(_, _)
AddStatic(S, es) == IF es = <<>> THEN S ELSE AddStatic(AddStaticOne(S, Head(es)), Tail(es))

(* ---- _got_announcement --------------------------------------------------- *)
Ignored(S, sid, a) == sid \in S.static \/ (IsKnown(S, sid) /\ S.objs[S.cur[sid]].ann = a.ann)
Announce(S, sid, a) ==
  IF Ignored(S, sid, a) THEN S
  ELSE LET old == S.cur[sid]
           objs1 == IF old = 0 THEN S.objs ELSE [S.objs EXCEPT ![old].quiet = TRUE]
       IN [S EXCEPT !.objs = Append(objs1, NewObj(sid, a)), !.cur[sid] = Len(S.objs) + 1]

(* ---- connection callbacks of one object ---------------------------------- *)
IsObj(S, o) == o \in 1..Len(S.objs)
\* a Reconnector only calls back while it is running and the previous connection is gone
CanConnect(S, o) == IsObj(S, o) /\ S.objs[o].sup /\ ~S.objs[o].quiet /\ ~S.objs[o].conn
\* _got_connection -> version answer -> _got_versioned_service -> status observers -> broker high water mark
Connect(S, o, v) ==
  CheckHWM([S EXCEPT !.objs[o].conn = TRUE, !.objs[o].ever = TRUE, !.objs[o].ver = v,
                     !.objs[o].lc = S.now, !.objs[o].nots = S.objs[o].nots + 1])
\* the connection dies before the version answer arrives: nothing is recorded
ConnectDead(S, o) == S
CanLose(S, o) == IsObj(S, o) /\ S.objs[o].conn /\ ~S.objs[o].quiet
Lose(S, o) == [S EXCEPT !.objs[o].conn = FALSE, !.objs[o].ll = S.now]
\* servers whose reconnection timer has to be reset when o's connection is established (#374)
MustReset(S, o) == {x \in Known(S) : x # o /\ S.objs[x].sup /\ ~S.objs[x].conn}

(* ---- when_connected_enough ---------------------------------------------- *)
Listen(S, lid, th) == CheckHWM([S EXCEPT !.pend = S.pend \cup {[lid |-> lid, th |-> th]}])

Tick(S, dt) == [S EXCEPT !.now = S.now + dt]
\* StorageFarmBroker.stopService: every child stops
Shutdown(S) == [S EXCEPT !.objs = [o \in 1..Len(S.objs) |-> [S.objs[o] EXCEPT !.quiet = TRUE]]]
=============================================================================
