--------------------------- MODULE AsyncUtilProps ---------------------------
(* What the utilities promise, stated over the client-visible history h = <<[cmd, out], ...>> of one object, without
   reference to the operators of AsyncUtil.tla (sources: see the header of AsyncUtil.tla).  MCAsyncUtil checks every
   P_* as an invariant of every interleaving the Spec allows; TraceAsyncUtil evaluates the same predicates on the
   histories of the real classes to name the rule an execution breaks. *)
EXTENDS Common

Idx(h) == 1..Len(h)
Op(h, i) == h[i].cmd.op
Cnt(S) == Cardinality(S)
RECURSIVE PSorted(_)
PSorted(S) == IF S = {} THEN <<>> ELSE LET m == SetMin(S) IN <<m>> \o PSorted(S \ {m})

(* ---------------- OneShotObserverList / LazyOneShotObserverList ---------------- *)
RECURSIVE OSLog(_)
OSLog(h) == IF h = <<>> THEN <<>> ELSE OSLog(SubSeq(h, 1, Len(h) - 1)) \o h[Len(h)].out.notified
OSFires(h) == {i \in Idx(h) : Op(h, i) \in {"fire", "fire_if"}}
OSFirst(h) == IF OSFires(h) = {} THEN 0 ELSE SetMin(OSFires(h))
OSSubs(h) == {i \in Idx(h) : Op(h, i) = "sub"}
\* a watcher's Deferred fires at most once
P_OS_AtMostOnce(h) == LET L == OSLog(h) IN \A i, j \in 1..Len(L) : i # j => L[i].w # L[j].w
\* ... never before the event
P_OS_NotBeforeFire(h) == \A i \in Idx(h) : h[i].out.notified # <<>> => (OSFirst(h) # 0 /\ OSFirst(h) <= i)
\* ... with the result of the (first) fire
P_OS_SameValue(h) == OSFirst(h) # 0 => \A e \in ToSet(OSLog(h)) : e.v = h[OSFirst(h)].cmd.v
\* fire() on a fired list is refused, fire_if_not_fired() is ignored
P_OS_FireOnce(h) == \A i \in OSFires(h) : h[i].out.status = (IF i # OSFirst(h) /\ Op(h, i) = "fire" THEN "refused" ELSE "ok")
\* [obs-ev] no watcher runs inside fire()
P_OS_FireNotReentrant(h) == \A i \in OSFires(h) : h[i].out.notified = <<>>
\* the watchers that waited for the event are served in the order in which they subscribed
P_OS_SubscriptionOrder(h) ==
  LET n0 == Cnt({i \in OSSubs(h) : OSFirst(h) = 0 \/ i < OSFirst(h)})
      L == SelectSeq(OSLog(h), LAMBDA e : e.w <= n0)
  IN \A i \in 1..(Len(L) - 1) : L[i].w < L[i + 1].w
\* after the event and a reactor turn every watcher (also the late ones and those created by callbacks) has its result
P_OS_AllServedAfterTurn(h) ==
  (h # <<>> /\ Op(h, Len(h)) = "turn" /\ OSFirst(h) # 0) =>
     LET L == OSLog(h) IN Len(L) = Cnt(OSSubs(h)) + Cnt({k \in 1..Len(L) : L[k].re})

(* ---------------- ObserverList ---------------- *)
OLCalled(h, k, o) == \E m \in 1..Len(h[k].out.calls) : h[k].out.calls[m].o = o
OLSubSteps(h, i, o) == {j \in 1..(i - 1) : /\ Op(h, j) = "sub" /\ h[j].cmd.o = o
                                           /\ \A k \in (j + 1)..(i - 1) : ~(Op(h, k) = "unsub" /\ h[k].cmd.o = o)
                                           /\ (o = "s" => \A k \in (j + 1)..(i - 1) : ~(Op(h, k) = "notify" /\ OLCalled(h, k, "s")))}
OLIsSub(h, i, o) == OLSubSteps(h, i, o) # {}
OLNotifies(h) == {i \in Idx(h) : Op(h, i) = "notify"}
OLObs == {"p", "q", "x", "s", "k"}
\* events are distributed immediately: nothing is delivered outside notify()
P_OL_Immediate(h) == \A i \in Idx(h) \ OLNotifies(h) : h[i].out.calls = <<>>
\* only subscribed observers, each once
P_OL_OnlySubscribedOnce(h) == \A i \in OLNotifies(h) : LET cs == h[i].out.calls IN
    /\ \A m \in 1..Len(cs) : OLIsSub(h, i, cs[m].o)
    /\ \A m, n \in 1..Len(cs) : m # n => cs[m].o # cs[n].o
\* an error in (or the departure of) one observer does not stop the others; only KeyboardInterrupt escapes
P_OL_AllNotified(h) == \A i \in OLNotifies(h) : LET cs == h[i].out.calls IN
    /\ (~OLCalled(h, i, "k")) => \A o \in OLObs : OLIsSub(h, i, o) => OLCalled(h, i, o)
    /\ (h[i].out.status = "KeyboardInterrupt") <=> OLCalled(h, i, "k")
    /\ h[i].out.status \in {"ok", "KeyboardInterrupt"}
\* in subscription order, with the arguments of notify()
P_OL_Order(h) == \A i \in OLNotifies(h) : LET cs == h[i].out.calls IN
    \A m \in 1..(Len(cs) - 1) : (OLIsSub(h, i, cs[m].o) /\ OLIsSub(h, i, cs[m + 1].o)) =>
         SetMax(OLSubSteps(h, i, cs[m].o)) < SetMax(OLSubSteps(h, i, cs[m + 1].o))
P_OL_ArgsPassed(h) == \A i \in OLNotifies(h) : \A m \in 1..Len(h[i].out.calls) :
    h[i].out.calls[m].v = h[i].cmd.v /\ h[i].out.calls[m].kw = h[i].cmd.kw

(* ---------------- EventStreamObserver ---------------- *)
RECURSIVE ESLog(_)
ESLog(h) == IF h = <<>> THEN <<>> ELSE ESLog(SubSeq(h, 1, Len(h) - 1)) \o h[Len(h)].out.delivered
ESNotifies(h) == {i \in Idx(h) : Op(h, i) = "notify"}
ESSubAt(h) == IF \E i \in Idx(h) : Op(h, i) = "subscribe" THEN SetMin({i \in Idx(h) : Op(h, i) = "subscribe"}) ELSE 0
\* events reach the subscriber through an eventual-send: never inside notify() / subscribe()
P_ES_Eventual(h) == \A i \in Idx(h) : Op(h, i) # "turn" => h[i].out.delivered = <<>>
P_ES_NoneBeforeSubscribe(h) == \A i \in Idx(h) : h[i].out.delivered # <<>> => (ESSubAt(h) # 0 /\ ESSubAt(h) < i)
\* every event exactly once, in the order of notify() (events are numbered 1, 2, ... in that order)
P_ES_InOrderOnce(h) == LET L == ESLog(h) IN /\ \A k \in 1..Len(L) : L[k].v = k
                                           /\ Len(L) <= Cnt(ESNotifies(h))
P_ES_AllAfterTurn(h) == (h # <<>> /\ Op(h, Len(h)) = "turn" /\ ESSubAt(h) # 0) => Len(ESLog(h)) = Cnt(ESNotifies(h))
\* the subscriber's keyword arguments are added to (and win over) those of the event
ESNth(h, k) == CHOOSE i \in ESNotifies(h) : Cnt({j \in ESNotifies(h) : j <= i}) = k
P_ES_WatcherKwargs(h) == LET L == ESLog(h) IN \A k \in 1..Len(L) :
    (k <= Cnt(ESNotifies(h)) /\ ESSubAt(h) # 0) =>
       L[k].tag = (IF h[ESSubAt(h)].cmd.tag # "" THEN h[ESSubAt(h)].cmd.tag ELSE h[ESNth(h, k)].cmd.tag)
\* cancel() reaches the canceller iff it is still alive (weak reference)
ESCancState(h, i) == LET J == {j \in 1..(i - 1) : Op(h, j) \in {"set_canceler", "drop_canceler"}} IN
                     IF J = {} THEN "unset" ELSE Op(h, SetMax(J))
P_ES_Cancel(h) == \A i \in Idx(h) : h[i].out.cancels = (IF Op(h, i) = "cancel" /\ ESCancState(h, i) = "set_canceler" THEN 1 ELSE 0)

(* ---------------- PollMixin.poll ---------------- *)
PMNow(h, i) == Cnt({j \in 1..i : Op(h, j) = "tick"})        \* the time at (the end of) step i
PMStartStep(h, p) == CHOOSE i \in Idx(h) : Op(h, i) = "start" /\ h[i].cmd.id = p
PMIds(h) == {h[i].cmd.id : i \in {j \in Idx(h) : Op(h, j) = "start"}}
PMMode(h, i, p) == LET J == {j \in 1..i : Op(h, j) \in {"start", "set"} /\ h[j].cmd.id = p} IN h[SetMax(J)].cmd.mode
PMStatus(h, i, p) == h[i].out[p].status
PMSteps_(h, p) == {i \in Idx(h) : i >= PMStartStep(h, p)}
\* the Deferred fires once; afterwards the check function is left alone
P_PM_Once(h) == \A p \in PMIds(h) : \A i \in PMSteps_(h, p) : (i > PMStartStep(h, p) /\ PMStatus(h, i - 1, p) # "pending") =>
                    (PMStatus(h, i, p) = PMStatus(h, i - 1, p) /\ h[i].out[p].called = 0)
\* it fires (with None) only when check_f returned True, with check_f's exception when it raised
P_PM_Cause(h) == \A p \in PMIds(h) : \A i \in PMSteps_(h, p) :
    (PMStatus(h, i, p) # "pending" /\ (i = PMStartStep(h, p) \/ PMStatus(h, i - 1, p) = "pending")) =>
       CASE PMStatus(h, i, p) = "ok" -> h[i].out[p].called = 1 /\ PMMode(h, i, p) = "true"
         [] PMStatus(h, i, p) = "ValueError" -> h[i].out[p].called = 1 /\ PMMode(h, i, p) = "raise"
         [] PMStatus(h, i, p) = "TimeoutError" -> LET s == h[PMStartStep(h, p)].cmd IN
                                                   s.timeout >= 0 /\ PMNow(h, i) > PMNow(h, PMStartStep(h, p)) + s.timeout
         [] OTHER -> FALSE
\* a call of check_f that answers True / raises ends the poll at once
P_PM_Prompt(h) == \A p \in PMIds(h) : \A i \in PMSteps_(h, p) :
    (h[i].out[p].called = 1 /\ PMMode(h, i, p) # "false") => PMStatus(h, i, p) # "pending"
\* check_f is called at the start and then every pollinterval seconds, as long as the time is within the timeout
P_PM_Periodic(h) == \A p \in PMIds(h) : \A i \in PMSteps_(h, p) :
    LET s == h[PMStartStep(h, p)].cmd
        t0 == PMNow(h, PMStartStep(h, p))
        t == PMNow(h, i)
        running == i = PMStartStep(h, p) \/ PMStatus(h, i - 1, p) = "pending"
        due == i = PMStartStep(h, p) \/ (Op(h, i) = "tick" /\ (t - t0) % s.interval = 0)
        intime == s.timeout < 0 \/ t <= t0 + s.timeout
    IN h[i].out[p].called = (IF running /\ due /\ intime THEN 1 ELSE 0)
\* with a timeout the poll ends: at the first poll after the timeout has passed
P_PM_Terminates(h) == \A p \in PMIds(h) : \A i \in PMSteps_(h, p) :
    LET s == h[PMStartStep(h, p)].cmd t0 == PMNow(h, PMStartStep(h, p)) IN
    (s.timeout >= 0 /\ PMNow(h, i) >= t0 + s.timeout + s.interval) => PMStatus(h, i, p) # "pending"

(* ---------------- gatherResults / DeferredListShouldSucceed ---------------- *)
GAMade(h) == h # <<>> /\ Op(h, 1) = "make"
GAN(h) == h[1].cmd.n
GADoneAt(h, i) == {h[j].cmd.i : j \in {k \in 2..i : Op(h, k) \in {"cb", "eb"}}}
GAStepOf(h, x) == CHOOSE j \in Idx(h) : Op(h, j) \in {"cb", "eb"} /\ h[j].cmd.i = x
GAFailedAt(h, i) == {x \in GADoneAt(h, i) : Op(h, GAStepOf(h, x)) = "eb"}
GAValsAt(h) == [x \in 1..GAN(h) |-> h[GAStepOf(h, x)].cmd.v]
\* the result fires once and keeps its value
P_GA_Once(h) == \A i \in 2..Len(h) : h[i - 1].out.status # "pending" => h[i].out = h[i - 1].out
\* success: exactly when every input has succeeded, with the results in the order of the inputs
P_GA_Success(h) == GAMade(h) => \A i \in Idx(h) :
    (h[i].out.status = "ok") <=> (GADoneAt(h, i) = 1..GAN(h) /\ GAFailedAt(h, i) = {})
P_GA_Values(h) == GAMade(h) => \A i \in Idx(h) : (h[i].out.status = "ok" /\ GADoneAt(h, i) = 1..GAN(h) /\ GAFailedAt(h, i) = {}) => h[i].out.vals = GAValsAt(SubSeq(h, 1, i))
\* gatherResults: the first failure (in time) is the result, at once, unwrapped; no input failure is left unhandled
P_GA_FailFast(h) == GAMade(h) => \A i \in Idx(h) :
    IF GAFailedAt(h, i) = {} THEN h[i].out.status # "fail"
    ELSE LET f == SetMin({j \in 1..i : Op(h, j) = "eb"}) IN h[i].out.status = "fail" /\ h[i].out.err = h[f].cmd.e
P_GA_NoLeak(h) == \A i \in Idx(h) : h[i].out.leaked = 0
\* DeferredListShouldSucceed: waits for every input; then the failure of the first failed input in list order
P_DL_WaitsForAll(h) == GAMade(h) => \A i \in Idx(h) : (h[i].out.status # "pending") <=> (GADoneAt(h, i) = 1..GAN(h))
P_DL_FirstFailureInListOrder(h) == GAMade(h) => \A i \in Idx(h) :
    (GADoneAt(h, i) = 1..GAN(h) /\ GAFailedAt(h, i) # {}) =>
       (h[i].out.status = "fail" /\ h[i].out.err = h[GAStepOf(h, SetMin(GAFailedAt(h, i)))].cmd.e)

(* ---------------- race ---------------- *)
RAN(h) == Len(h[1].cmd.kinds)
RACbs(h, i) == {j \in 2..i : Op(h, j) = "cb"}
RACancelAt(h, i) == {j \in 2..i : Op(h, j) = "cancel"}
\* the result fires once
P_RA_Once(h) == \A i \in 2..Len(h) : h[i - 1].out.status # "pending" =>
     (h[i].out.status = h[i - 1].out.status /\ h[i].out.idx = h[i - 1].out.idx /\ h[i].out.v = h[i - 1].out.v /\ h[i].out.errs = h[i - 1].out.errs)
\* the first success (in time) wins: index and value
P_RA_FirstSuccessWins(h) == GAMade(h) => \A i \in Idx(h) :
    RACbs(h, i) # {} => LET f == SetMin(RACbs(h, i)) IN
                        (RACancelAt(h, f) = {}) => (h[i].out.status = "ok" /\ h[i].out.idx = h[f].cmd.i /\ h[i].out.v = h[f].cmd.v)
\* once there is a winner every other input that has not fired is cancelled, exactly once; the winner never
P_RA_CancelTheRest(h) == GAMade(h) => \A i \in Idx(h) : h[i].out.status = "ok" =>
    \A x \in 1..RAN(h) :
       LET firedBefore == \E j \in 2..i : Op(h, j) \in {"cb", "eb"} /\ h[j].cmd.i = x IN
       h[i].out.ncancel[x] = (IF x = h[i].out.idx /\ RACancelAt(h, i) = {} THEN 0 ELSE IF firedBefore THEN 0 ELSE 1)
P_RA_NoCancelWhilePending(h) == GAMade(h) => \A i \in Idx(h) : h[i].out.status = "pending" => \A x \in 1..RAN(h) : h[i].out.ncancel[x] = 0
\* MultiFailure only when every input failed, with the failures in the order of the inputs
P_RA_MultiFailure(h) == GAMade(h) => \A i \in Idx(h) : h[i].out.status = "MultiFailure" =>
    /\ Len(h[i].out.errs) = RAN(h)
    /\ RACbs(h, i) = {}
    /\ \A x \in 1..RAN(h) : LET J == {j \in 2..i : Op(h, j) = "eb" /\ h[j].cmd.i = x} IN
          IF J # {} THEN h[i].out.errs[x] = h[SetMin(J)].cmd.e ELSE (RACancelAt(h, i) # {} /\ h[i].out.errs[x] = "CancelledError")
P_RA_AllFailed(h) == GAMade(h) => \A i \in Idx(h) :
    (\A x \in 1..RAN(h) : \E j \in 2..i : Op(h, j) = "eb" /\ h[j].cmd.i = x) => h[i].out.status = "MultiFailure"
\* cancelling the result cancels every input that has not fired
P_RA_CancelCancelsAll(h) == GAMade(h) => \A i \in Idx(h) : (Op(h, i) = "cancel" /\ h[i - 1].out.status = "pending") =>
    /\ h[i].out.status # "pending"
    /\ \A x \in 1..RAN(h) : h[i].out.ncancel[x] = (IF \E j \in 2..i : Op(h, j) = "eb" /\ h[j].cmd.i = x THEN 0 ELSE 1)

(* ---------------- timeout_call ---------------- *)
TONow(h, i) == Cnt({j \in 1..i : Op(h, j) = "tick"})
TOAnswer(h, i) == {j \in 2..i : Op(h, j) \in {"cb", "eb"}}
P_TO_Once(h) == \A i \in 2..Len(h) : h[i - 1].out.status # "pending" => (h[i].out.status = h[i - 1].out.status /\ h[i].out.v = h[i - 1].out.v)
\* the result of d, unless the timeout expires first
P_TO_Outcome(h) == GAMade(h) => \A i \in Idx(h) :
    LET T == h[1].cmd.timeout
        a == IF TOAnswer(h, i) = {} THEN 0 ELSE SetMin(TOAnswer(h, i))
        intime == a # 0 /\ TONow(h, a) < T
    IN IF intime THEN h[i].out.status = (IF Op(h, a) = "cb" THEN "ok" ELSE "fail") /\ h[i].out.v = (IF Op(h, a) = "cb" THEN h[a].cmd.v ELSE h[a].cmd.e)
       ELSE IF TONow(h, i) >= T THEN h[i].out.status = "TimeoutError"
       ELSE h[i].out.status = "pending"
\* no timer is left behind once the result is known
P_TO_NoTimerLeft(h) == \A i \in Idx(h) : h[i].out.timers = (IF h[i].out.status = "pending" THEN 1 ELSE 0)

(* ---------------- HookMixin ---------------- *)
RECURSIVE HKLog(_)
HKLog(h) == IF h = <<>> THEN <<>> ELSE HKLog(SubSeq(h, 1, Len(h) - 1)) \o h[Len(h)].out.fired
HKSets(h) == {i \in Idx(h) : Op(h, i) = "set" /\ h[i].out.status = "ok"}
\* a hook's Deferred is fired at most once
P_HK_AtMostOnce(h) == LET L == HKLog(h) IN \A i, j \in 1..Len(L) : i # j => L[i].d # L[j].d
\* _call_hook passes its argument through
P_HK_PassThrough(h) == \A i \in Idx(h) : Op(h, i) = "call" => (h[i].out.ret = h[i].cmd.res /\ h[i].out.status = "ok")
\* set_hook is refused for an unknown name, a negative count, or a hook that is already set (not fired yet)
HKCallsOf(h, n, a, b) == {j \in (a + 1)..(b - 1) : Op(h, j) = "call" /\ h[j].cmd.name = n}
HKIsSet(h, i, n) == \E j \in {k \in HKSets(h) : k < i} : h[j].cmd.name = n /\ Cnt(HKCallsOf(h, n, j, i)) <= h[j].cmd.ign
P_HK_SetRefusal(h) == \A i \in Idx(h) : Op(h, i) = "set" =>
    (h[i].out.status = (IF h[i].cmd.name \notin {"a", "b"} \/ h[i].cmd.ign < 0 \/ HKIsSet(h, i, h[i].cmd.name) THEN "refused" ELSE "ok"))
\* the (ignore_count + 1)-th call after set_hook fires the hook with that call's argument: synchronously, or in a
\* later turn with async
P_HK_FiresAtCount(h) == \A s \in HKSets(h) : \A i \in Idx(h) :
    (i > s /\ Op(h, i) = "call" /\ h[i].cmd.name = h[s].cmd.name /\ Cnt(HKCallsOf(h, h[s].cmd.name, s, i)) = h[s].cmd.ign) =>
       IF h[i].cmd.async THEN h[i].out.fired = <<>> ELSE (Len(h[i].out.fired) = 1 /\ h[i].out.fired[1].res = h[i].cmd.res)
HKFiring(h, j) == Op(h, j) = "call" /\ \E s \in HKSets(h) : s < j /\ h[s].cmd.name = h[j].cmd.name
                                                 /\ Cnt(HKCallsOf(h, h[j].cmd.name, s, j)) = h[s].cmd.ign
P_HK_AsyncAtNextTurn(h) == \A i \in Idx(h) : Op(h, i) = "turn" =>
    LET T == {j \in 1..(i - 1) : Op(h, j) = "turn"}
        t0 == IF T = {} THEN 0 ELSE SetMax(T)
        J == PSorted({j \in (t0 + 1)..(i - 1) : HKFiring(h, j) /\ h[j].cmd.async})
    IN Len(h[i].out.fired) = Len(J) /\ \A m \in 1..Len(J) : m <= Len(h[i].out.fired) => h[i].out.fired[m].res = h[J[m]].cmd.res
P_HK_NothingSpurious(h) == \A i \in Idx(h) : h[i].out.fired # <<>> =>
    (Op(h, i) = "turn" \/ (Op(h, i) = "call" /\ ~h[i].cmd.async /\ HKFiring(h, i)))

(* ---------------- until ---------------- *)
\* h[1] = start(K, pat): the k-th call of the action returns a value ("s"), a Deferred ("a", also beyond the pattern)
\* or raises E1 ("x"); the condition is "the action has been called K times"
UNMade(h) == h # <<>> /\ Op(h, 1) = "start"
UNPatAt(h, k) == IF k <= Len(h[1].cmd.pat) THEN h[1].cmd.pat[k] ELSE "a"
UNAsync(h, n) == Cnt({k \in 1..n : UNPatAt(h, k) = "a"})
UNCompletes(h, i) == Cnt({j \in 2..i : Op(h, j) = "complete"})
\* the action is called again only when the Deferred of the previous call has fired (and then it is: no hang)
P_UN_NoOverlap(h) == UNMade(h) => \A i \in Idx(h) :
    /\ UNAsync(h, h[i].out.calls) <= UNCompletes(h, i) + 1
    /\ h[i].out.status = "pending" => UNAsync(h, h[i].out.calls) = UNCompletes(h, i) + 1
\* the loop stops as soon as the condition holds, and only then
P_UN_StopsAtCondition(h) == UNMade(h) => \A i \in Idx(h) :
    /\ h[i].out.calls >= 1 /\ h[i].out.calls <= h[1].cmd.K
    /\ h[i].out.status = "ok" => h[i].out.calls = h[1].cmd.K
\* a failing action ends the loop with its failure
P_UN_FailurePropagates(h) == UNMade(h) => \A i \in Idx(h) :
    /\ (Op(h, i) = "complete" /\ ~h[i].cmd.ok /\ h[i - 1].out.status = "pending") => h[i].out.status = "E2"
    /\ (h[i].out.status = "E1") <=> (UNPatAt(h, h[i].out.calls) = "x" /\ \A j \in 1..i : h[j].out.status # "E2")
P_UN_Once(h) == \A i \in 2..Len(h) : h[i - 1].out.status # "pending" => h[i].out = h[i - 1].out

(* ---------------- eventual_chain ---------------- *)
P_EC_Eventual(h) == \A i \in Idx(h) : Op(h, i) \in {"cb", "eb"} => h[i].out.target = "pending"
P_EC_SameResult(h) == \A i \in Idx(h) : h[i].out.target # "pending" =>
    \E j \in 1..(i - 1) : Op(h, j) \in {"cb", "eb"} /\ h[i].out.target = (IF Op(h, j) = "cb" THEN "ok" ELSE "fail")
                                                     /\ h[i].out.tv = (IF Op(h, j) = "cb" THEN h[j].cmd.v ELSE h[j].cmd.e)
P_EC_AfterTurn(h) == \A i \in Idx(h) : (Op(h, i) = "turn" /\ \E j \in 1..(i - 1) : Op(h, j) \in {"cb", "eb"}) => h[i].out.target # "pending"
P_EC_PassThrough(h) == \A i \in Idx(h) : Op(h, i) \in {"cb", "eb"} => h[i].out.pass = (IF Op(h, i) = "cb" THEN h[i].cmd.v ELSE h[i].cmd.e)

(* ---------------- async_to_deferred ---------------- *)
\* the wrapper returns a Deferred (not a coroutine) and the body has started when it returns
P_A2_ReturnsDeferred(h) == \A i \in Idx(h) : h[i].out.isdeferred /\ h[i].out.started
\* the coroutine's return value / exception is the Deferred's result, also across an await
P_A2_Result(h) == (h # <<>> /\ Op(h, 1) = "call") => \A i \in Idx(h) :
    LET m == h[1].cmd.mode
        A == {j \in 2..i : Op(h, j) \in {"cb", "eb"}} IN
    CASE m = "ret" -> h[i].out.status = "ok" /\ h[i].out.v = "r"
      [] m = "raise" -> h[i].out.status = "fail" /\ h[i].out.v = "E1"
      [] OTHER -> IF A = {} THEN h[i].out.status = "pending"
                  ELSE LET a == SetMin(A) IN IF Op(h, a) = "cb" THEN h[i].out.status = "ok" /\ h[i].out.v = "r:" \o h[a].cmd.v
                                             ELSE h[i].out.status = "fail" /\ h[i].out.v = h[a].cmd.e

(* ---------------- WaitForDelayedCallsMixin ---------------- *)
WDTicks(h, i) == {j \in 1..i : Op(h, j) = "tick"}
RECURSIVE WDNow(_, _)
WDNow(h, i) == IF i = 0 THEN 0 ELSE WDNow(h, i - 1) + (IF Op(h, i) = "tick" THEN h[i].cmd.dt ELSE 0)
WDCallTimes(h, i) == {WDNow(h, j) + h[j].cmd.dt : j \in {k \in 1..i : Op(h, k) = "later"}}
WDWaitStep(h) == LET W == {j \in Idx(h) : Op(h, j) = "wait"} IN IF W = {} THEN 0 ELSE SetMin(W)
WDFired(h, i) == h[i].out.status \in {"ok", "fail"}
\* the Deferred fires with the argument of wait_for_delayed_calls (a failure stays a failure), once
P_WD_PassThrough(h) == \A i \in Idx(h) : WDFired(h, i) =>
    LET r == h[WDWaitStep(h)].cmd.res IN
    /\ WDWaitStep(h) # 0 /\ WDWaitStep(h) <= i
    /\ IF r = "F:E1" THEN h[i].out.status = "fail" /\ h[i].out.v = "E1" ELSE h[i].out.status = "ok" /\ h[i].out.v = r
    /\ \A j \in i..Len(h) : h[j].out = h[i].out
\* not while a DelayedCall is due within the next 10 seconds: when it fires there was an instant since the last
\* observation at which every pending call was at least 10 s away
P_WD_NotEarly(h) == \A i \in Idx(h) : (WDFired(h, i) /\ (i = 1 \/ ~WDFired(h, i - 1))) =>
    LET t0 == WDNow(h, i - 1) t1 == WDNow(h, i) P == {c \in WDCallTimes(h, i - 1) : c > t0} IN
    IF Op(h, i) = "wait" THEN \A c \in P : c >= t0 + 10
    ELSE Op(h, i) = "tick" /\ \E n \in t0..t1 : \A c \in P : c <= n \/ c >= n + 10
\* and not later than that: a whole second during which no pending call was due within 10 s ends the wait
P_WD_NotLate(h) == \A i \in Idx(h) : (WDWaitStep(h) # 0 /\ WDWaitStep(h) <= i /\ ~WDFired(h, i)) =>
    LET t0 == WDNow(h, i - 1) t1 == WDNow(h, i) P == {c \in WDCallTimes(h, i - 1) : c > t0} IN
    IF Op(h, i) = "wait" THEN \E c \in P : c < t0 + 10
    ELSE Op(h, i) = "tick" => \A n \in t0..(t1 - 1) : \E c \in P : n + 1 <= c /\ c <= n + 10

(* ---------------- MemoryConsumer / download_to_data ---------------- *)
\* the bytes [offset, offset+size) of the file, whatever the producer's style and chunking
P_CN_Data(h) == \A i \in Idx(h) : LET c == h[i].cmd
                                      hi == IF c.size < 0 THEN Len(c.data) ELSE Min(Len(c.data), c.offset + c.size) IN
    h[i].out.status = "ok" /\ h[i].out.data = [k \in 1..Max(0, hi - c.offset) |-> c.data[c.offset + k]]
\* a streaming producer is started once; a non-streaming one is resumed until it unregisters
P_CN_Resumes(h) == \A i \in Idx(h) : h[i].cmd.node = "push" => h[i].out.resumes = 1

(* ---------------- DictOfSets ---------------- *)
\* a key is present iff its set is not empty
P_DS_NoEmptySets(h) == \A i \in Idx(h) : \A t \in {"d", "o"} : \A k \in DOMAIN h[i].out[t] : h[i].out[t][k] # <<>>
\* an operation on one object does not show in the other (update copies the sets)
P_DS_NoAlias(h) == \A i \in 2..Len(h) : LET t == h[i].cmd.t u == IF t = "d" THEN "o" ELSE "d" IN h[i].out[u] = h[i - 1].out[u]
P_DS_AddDiscard(h) == \A i \in Idx(h) : LET c == h[i].cmd IN
    /\ Op(h, i) = "add" => (c.k \in DOMAIN h[i].out[c.t] /\ \E m \in 1..Len(h[i].out[c.t][c.k]) : h[i].out[c.t][c.k][m] = c.v)
    /\ Op(h, i) = "discard" => (c.k \notin DOMAIN h[i].out[c.t] \/ \A m \in 1..Len(h[i].out[c.t][c.k]) : h[i].out[c.t][c.k][m] # c.v)

(* ---------------- AuxValueDict ---------------- *)
\* setting the main value clears the auxvalue; set_with_aux sets both; a deleted key has neither
P_AV_SetClearsAux(h) == \A i \in Idx(h) : Op(h, i) = "set" => (h[i].out.aux[h[i].cmd.k] = "none" /\ h[i].out.main[h[i].cmd.k] = h[i].cmd.v)
P_AV_SetWithAux(h) == \A i \in Idx(h) : Op(h, i) = "setaux" => (h[i].out.aux[h[i].cmd.k] = h[i].cmd.a /\ h[i].out.main[h[i].cmd.k] = h[i].cmd.v)
P_AV_DelRemovesBoth(h) == \A i \in 2..Len(h) : (Op(h, i) = "del" /\ h[i].cmd.k \in DOMAIN h[i - 1].out.main) =>
    (h[i].cmd.k \notin DOMAIN h[i].out.main /\ h[i].out.aux[h[i].cmd.k] = "none")
\* "I behave like a regular dict": deleting a present key succeeds, deleting an absent one raises KeyError
P_AV_DelBehavesLikeDict(h) == \A i \in 2..Len(h) : Op(h, i) = "del" =>
    h[i].out.status = (IF h[i].cmd.k \in DOMAIN h[i - 1].out.main THEN "ok" ELSE "KeyError")
P_AV_ReadsChangeNothing(h) == \A i \in 2..Len(h) : Op(h, i) \in {"get", "getaux"} => (h[i].out.main = h[i - 1].out.main /\ h[i].out.aux = h[i - 1].out.aux)

(* ---------------- BytesKeyDict / UnicodeKeyDict ---------------- *)
TKStr(k) == k \in {"s1", "s2"}
TKOk(h, k) == IF h[1].cmd.flavor = "unicode" THEN TKStr(k) ELSE ~TKStr(k)
\* a key of the wrong type is refused with TypeError by the constructor and by every overridden method, and never stored
P_TK_TypeEnforced(h) == \A i \in Idx(h) :
    /\ \A k \in DOMAIN h[i].out.content : TKOk(h, k)
    /\ IF i = 1 THEN (h[i].out.status = "TypeError") <=> (\E k \in ToSet(h[i].cmd.keys) : ~TKOk(h, k))
       ELSE (h[i].out.status = "TypeError") <=> ~TKOk(h, h[i].cmd.k)
P_TK_RefusalChangesNothing(h) == \A i \in 2..Len(h) : h[i].out.status # "ok" => h[i].out.content = h[i - 1].out.content

(* ---------------- the rule list of a kind: <<name, holds>> ---------------- *)
Rule(n, b) == [n |-> n, ok |-> b]
PropList(k, h) ==
  CASE k \in {"oneshot", "lazy"} ->
         <<Rule("OS_AtMostOnce", P_OS_AtMostOnce(h)), Rule("OS_NotBeforeFire", P_OS_NotBeforeFire(h)), Rule("OS_SameValue", P_OS_SameValue(h)),
           Rule("OS_FireOnce", P_OS_FireOnce(h)), Rule("OS_SubscriptionOrder", P_OS_SubscriptionOrder(h)),
           Rule("OS_AllServedAfterTurn", P_OS_AllServedAfterTurn(h)), Rule("OS_FireNotReentrant", P_OS_FireNotReentrant(h))>>
    [] k = "obslist" ->
         <<Rule("OL_Immediate", P_OL_Immediate(h)), Rule("OL_OnlySubscribedOnce", P_OL_OnlySubscribedOnce(h)), Rule("OL_AllNotified", P_OL_AllNotified(h)),
           Rule("OL_Order", P_OL_Order(h)), Rule("OL_ArgsPassed", P_OL_ArgsPassed(h))>>
    [] k = "stream" ->
         <<Rule("ES_Eventual", P_ES_Eventual(h)), Rule("ES_NoneBeforeSubscribe", P_ES_NoneBeforeSubscribe(h)), Rule("ES_InOrderOnce", P_ES_InOrderOnce(h)),
           Rule("ES_AllAfterTurn", P_ES_AllAfterTurn(h)), Rule("ES_WatcherKwargs", P_ES_WatcherKwargs(h)), Rule("ES_Cancel", P_ES_Cancel(h))>>
    [] k = "poll" ->
         <<Rule("PM_Once", P_PM_Once(h)), Rule("PM_Cause", P_PM_Cause(h)), Rule("PM_Prompt", P_PM_Prompt(h)), Rule("PM_Periodic", P_PM_Periodic(h)),
           Rule("PM_Terminates", P_PM_Terminates(h))>>
    [] k = "gather" ->
         <<Rule("GA_Once", P_GA_Once(h)), Rule("GA_Success", P_GA_Success(h)), Rule("GA_Values", P_GA_Values(h)), Rule("GA_FailFast", P_GA_FailFast(h)),
           Rule("GA_NoLeak", P_GA_NoLeak(h))>>
    [] k = "dlss" ->
         <<Rule("GA_Once", P_GA_Once(h)), Rule("GA_Success", P_GA_Success(h)), Rule("GA_Values", P_GA_Values(h)), Rule("DL_WaitsForAll", P_DL_WaitsForAll(h)),
           Rule("DL_FirstFailureInListOrder", P_DL_FirstFailureInListOrder(h))>>
    [] k = "race" ->
         <<Rule("RA_Once", P_RA_Once(h)), Rule("RA_FirstSuccessWins", P_RA_FirstSuccessWins(h)), Rule("RA_CancelTheRest", P_RA_CancelTheRest(h)),
           Rule("RA_NoCancelWhilePending", P_RA_NoCancelWhilePending(h)), Rule("RA_MultiFailure", P_RA_MultiFailure(h)), Rule("RA_AllFailed", P_RA_AllFailed(h)),
           Rule("RA_CancelCancelsAll", P_RA_CancelCancelsAll(h))>>
    [] k = "timeout" -> <<Rule("TO_Once", P_TO_Once(h)), Rule("TO_Outcome", P_TO_Outcome(h)), Rule("TO_NoTimerLeft", P_TO_NoTimerLeft(h))>>
    [] k = "hook" ->
         <<Rule("HK_AtMostOnce", P_HK_AtMostOnce(h)), Rule("HK_PassThrough", P_HK_PassThrough(h)), Rule("HK_SetRefusal", P_HK_SetRefusal(h)),
           Rule("HK_FiresAtCount", P_HK_FiresAtCount(h)), Rule("HK_AsyncAtNextTurn", P_HK_AsyncAtNextTurn(h)),
           Rule("HK_NothingSpurious", P_HK_NothingSpurious(h))>>
    [] k = "until" ->
         <<Rule("UN_NoOverlap", P_UN_NoOverlap(h)), Rule("UN_StopsAtCondition", P_UN_StopsAtCondition(h)),
           Rule("UN_FailurePropagates", P_UN_FailurePropagates(h)), Rule("UN_Once", P_UN_Once(h))>>
    [] k = "evchain" ->
         <<Rule("EC_Eventual", P_EC_Eventual(h)), Rule("EC_SameResult", P_EC_SameResult(h)), Rule("EC_AfterTurn", P_EC_AfterTurn(h)),
           Rule("EC_PassThrough", P_EC_PassThrough(h))>>
    [] k = "a2d" -> <<Rule("A2_ReturnsDeferred", P_A2_ReturnsDeferred(h)), Rule("A2_Result", P_A2_Result(h))>>
    [] k = "waitdc" -> <<Rule("WD_PassThrough", P_WD_PassThrough(h)), Rule("WD_NotEarly", P_WD_NotEarly(h)), Rule("WD_NotLate", P_WD_NotLate(h))>>
    [] k = "consumer" -> <<Rule("CN_Data", P_CN_Data(h)), Rule("CN_Resumes", P_CN_Resumes(h))>>
    [] k = "dictofsets" -> <<Rule("DS_NoEmptySets", P_DS_NoEmptySets(h)), Rule("DS_NoAlias", P_DS_NoAlias(h)), Rule("DS_AddDiscard", P_DS_AddDiscard(h))>>
    [] k = "auxdict" ->
         <<Rule("AV_SetClearsAux", P_AV_SetClearsAux(h)), Rule("AV_SetWithAux", P_AV_SetWithAux(h)), Rule("AV_DelRemovesBoth", P_AV_DelRemovesBoth(h)),
           Rule("AV_ReadsChangeNothing", P_AV_ReadsChangeNothing(h)), Rule("AV_DelBehavesLikeDict", P_AV_DelBehavesLikeDict(h))>>
    [] k = "typedkeys" -> <<Rule("TK_TypeEnforced", P_TK_TypeEnforced(h)), Rule("TK_RefusalChangesNothing", P_TK_RefusalChangesNothing(h))>>
    [] OTHER -> <<>>
\* the first rule of the list that the history breaks ("" = none)
FirstBroken(k, h) == LET L == PropList(k, h) B == {i \in 1..Len(L) : ~L[i].ok} IN IF B = {} THEN "" ELSE L[SetMin(B)].n
AllHold(k, h) == FirstBroken(k, h) = ""
\* ... leaving out the rules X
FirstBrokenExcept(k, h, X) == LET L == PropList(k, h) B == {i \in 1..Len(L) : ~L[i].ok /\ L[i].n \notin X} IN IF B = {} THEN "" ELSE L[SetMin(B)].n
=============================================================================
