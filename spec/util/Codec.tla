------------------------------- MODULE Codec -------------------------------
(* Erasure coding of one file as done by allmydata (C36): codec.py CRSEncoder /
   CRSDecoder, the segment/tail arithmetic and zero padding of
   immutable/encode.py (Encoder._got_all_encoding_parameters, _gather_data) and
   the trimming of immutable/downloader/node.py (_calculate_sizes,
   _decode_blocks).

   The GF(2^8) arithmetic of zfec is NOT modelled.  The code is abstracted to
   what the property needs: Encode turns k pieces into N blocks; block i < k is
   piece i itself (the code is systematic), the others are opaque; ANY k
   distinct blocks, presented in any order, determine the pieces.  What the Spec
   contributes is every size (block size = DivCeil(data size, k), tail segment
   padded to a multiple of k), where the padding goes, which blocks are used,
   and the identity  decode(any k blocks of segment) = segment.

   File content is symbolic: byte at offset x (0-based) is the number x + 1;
   0 is a padding byte. *)
EXTENDS Common

(* ---- CRSEncoder.set_params / CRSDecoder.set_params -------------------------- *)
BlockSize(datasize, k) == DivCeil(datasize, k)           \* share_size = div_ceil(data_size, required_shares)
CodecPadding(datasize, k) == k * BlockSize(datasize, k) - datasize   \* bytes the caller must add to the last piece

(* ---- segments of a file (encode.py / node.py) -------------------------------- *)
\* segsize is a multiple of k (asserted by both sides)
NumSegments(size, seg)   == DivCeil(size, seg)
TailSize(size, seg)      == IF size % seg = 0 THEN seg ELSE size % seg
TailPadded(size, seg, k) == NextMultiple(TailSize(size, seg), k)
IsTail(size, seg, s)     == s = NumSegments(size, seg) - 1
SegOffset(seg, s)        == s * seg
SegLen(size, seg, s)     == IF IsTail(size, seg, s) THEN TailSize(size, seg) ELSE seg
\* the data size the codec of segment s is configured with
SegCodecSize(size, seg, k, s) == IF IsTail(size, seg, s) THEN TailPadded(size, seg, k) ELSE seg
SegBlockSize(size, seg, k, s) == BlockSize(SegCodecSize(size, seg, k, s), k)

File(size) == [i \in 1..size |-> i]
Segment(size, seg, s) == SubSeq(File(size), SegOffset(seg, s) + 1, SegOffset(seg, s) + SegLen(size, seg, s))
\* _gather_data: zero padding at the END of a short tail
PadTo(d, n) == d \o Zeros(n - Len(d))
\* the k input pieces, each of the block size
Pieces(p, k) == LET bs == Len(p) \div k IN [j \in 0..(k - 1) |-> SubSeq(p, j * bs + 1, (j + 1) * bs)]
SegPieces(size, seg, k, s) == Pieces(PadTo(Segment(size, seg, s), SegCodecSize(size, seg, k, s)), k)
RECURSIVE JoinFrom(_, _, _)
JoinFrom(ps, j, k) == IF j = k THEN <<>> ELSE ps[j] \o JoinFrom(ps, j + 1, k)
Join(ps, k) == JoinFrom(ps, 0, k)
\* _decode_blocks: join the decoded pieces, cut the tail back to its real length
Trim(d, n) == SubSeq(d, 1, n)

(* ---- the abstract erasure code ------------------------------------------------ *)
Block(ps, k, i) == [id |-> i, src |-> ps, visible |-> IF i < k THEN [known |-> TRUE, data |-> ps[i]] ELSE [known |-> FALSE, data |-> <<>>]]
Encode(ps, k, n) == [i \in 0..(n - 1) |-> Block(ps, k, i)]
\* order: sequence of block ids in the order they are presented to the decoder
Decodable(order, k, n) == Len(order) = k /\ Cardinality(ToSet(order)) = k /\ ToSet(order) \subseteq 0..(n - 1)
Decode(blocks, order, k) == blocks[order[1]].src

DecodeSegment(size, seg, k, n, s, order) ==
  Trim(Join(Decode(Encode(SegPieces(size, seg, k, s), k, n), order, k), k), SegLen(size, seg, s))

(* ---- external description of a piece: which file bytes, how many zeros -------- *)
PieceDesc(size, seg, k, s, j) ==
  LET bs    == SegBlockSize(size, seg, k, s)
      start == SegOffset(seg, s) + j * bs
      avail == Max(0, Min(bs, SegOffset(seg, s) + SegLen(size, seg, s) - start))
  IN [start |-> start, len |-> avail, zeros |-> bs - avail]
=============================================================================
