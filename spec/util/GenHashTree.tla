---------------------------- MODULE GenHashTree ----------------------------
(* GEN mode for C35: the behaviours of MCHashTree written out as cases for replay
   into a real IncompleteHashTree.  A case is a sequence of one or two calls of
   set_hashes with the Spec's verdict (set of allowed outcomes) and the tree
   expected afterwards.  For n <= FullPairsMax every pair of calls is written;
   for larger n every transition of the state graph is covered: every single
   call from the root-only tree, and every call from every tree reached by an
   accepted first call (a rejected first call leaves the root-only tree, whose
   outgoing transitions are the single-call cases).
   Hashes are written in the external notation of HashTree.tla (Enc). *)
EXTENDS HashTree, Json, IOUtils, SequencesExt

CONSTANTS MinLeaves, MaxLeaves, FullPairsMax, Alts, DupsSmall, DupsLarge

Chain(nn, leaf) == {FirstLeaf(nn) + leaf} \cup NeededFor(FirstLeaf(nn) + leaf)
ChoicesAt(i) == IF i = 0 THEN Alts \ {"s"} ELSE Alts
ValueOf(nn, i, c) == CASE c = "g" -> Genuine(nn, i)
                       [] c = "s" -> Genuine(nn, Sibling(i))
                       [] c = "f" -> ForgedH(i)
HashesArg(nn, leaf, ch, dup) ==
  LET li == FirstLeaf(nn) + leaf
      dom == {i \in Chain(nn, leaf) \ {li} : ch[i] # "m"} \cup (IF dup # "no" /\ ch[li] # "m" THEN {li} ELSE {})
  IN [i \in dom |-> IF i = li /\ dup = "diff" THEN ForgedH(1000 + i) ELSE ValueOf(nn, i, ch[i])]
LeavesArg(nn, leaf, ch) ==
  LET li == FirstLeaf(nn) + leaf IN
  [l \in (IF ch[li] # "m" THEN {leaf} ELSE {}) |-> ValueOf(nn, li, ch[li])]

Dups(nn) == IF nn <= FullPairsMax THEN DupsSmall ELSE DupsLarge
ChoiceFns(nn, leaf) == {c \in [Chain(nn, leaf) -> Alts] : \A i \in Chain(nn, leaf) : c[i] \in ChoicesAt(i)}
CallSet(nn) == UNION {{[leaf |-> leaf, ch |-> ch, dup |-> dup] : dup \in Dups(nn), ch \in ChoiceFns(nn, leaf)} :
                        leaf \in 0..(nn - 1)}
Apply(nn, t, c) == SetHashes(nn, t, HashesArg(nn, c.leaf, c.ch, c.dup), LeavesArg(nn, c.leaf, c.ch))

\* external form of a call with its verdict
PairsOf(nn, f) == SetToSeq({<<i, Enc(nn, f[i])>> : i \in DOMAIN f})
TreeOut(nn, t) == [i \in 1..Size(nn) |-> Enc(nn, t[i - 1])]
CallOut(nn, t, c, res, t2) ==
  [leaf |-> c.leaf, dup |-> c.dup,
   hashes |-> PairsOf(nn, HashesArg(nn, c.leaf, c.ch, c.dup)),
   leaves |-> PairsOf(nn, LeavesArg(nn, c.leaf, c.ch)),
   needed |-> SetToSeq(NeededHashes(nn, t, c.leaf, TRUE)),
   res |-> SetToSeq(res), tree |-> TreeOut(nn, t2)]

Shape(nn) == [i \in 1..Size(nn) |-> GenuineShape(nn, i - 1)]

VARIABLES n, tree, hist
vars == <<n, tree, hist>>

Init == /\ n \in MinLeaves..MaxLeaves
        /\ tree = RootOnly(n)
        /\ hist = <<>>
        /\ PrintT(ToJson([n |-> n, shape |-> Shape(n), size |-> Size(n), first_leaf |-> FirstLeaf(n)]))

\* every transition is one case: the calls made so far with the Spec's verdicts and trees
Call == /\ Len(hist) < 2
        /\ Len(hist) = 1 => (n <= FullPairsMax \/ hist[1].res = <<"ok">>)
        /\ \E c \in CallSet(n) :
              LET r == Apply(n, tree, c) IN
              /\ tree' = r.tree
              /\ hist' = Append(hist, CallOut(n, tree, c, r.res, tree'))
        /\ UNCHANGED n
        /\ PrintT(ToJson([n |-> n, calls |-> hist']))

Next == Call
Spec == Init /\ [][Next]_vars
=============================================================================
