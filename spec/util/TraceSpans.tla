----------------------------- MODULE TraceSpans -----------------------------
(* Trace validation of the real allmydata.util.spans.Spans / DataSpans against
   Spans.tla (C37).  A trace is a seeded history of operations on named objects
   (Spans "A","B","C"; DataSpans "D","E"); every event carries the value the real
   operation returned and, for operations that build or change an object, what
   the object shows afterwards (iteration list / get_chunks).  Observed lists are
   abstracted here: a list of runs is accepted iff it is canonical (ascending,
   runs separated by a gap, lengths >= 1) and denotes the Spec's set -- by
   C37_RunsDenoteSet (GenSpans) that is the same as being equal to RunsSeq. *)
EXTENDS Spans, Json, IOUtils, TLCExt

Traces == JsonDeserialize(IOEnv.TRACE_FILE)

VARIABLES tid, l, T, bad
tvars == <<tid, l, T, bad>>

Events == Traces[tid].events
Ev == Events[l]

CanonicalRuns(rs) == \A i \in 1..Len(rs) : rs[i][2] >= 1 /\ (i > 1 => rs[i][1] > rs[i-1][1] + rs[i-1][2])
ShowsSet(obs, S) == CanonicalRuns(obs) /\ SetOfRuns(obs) = S
ChunkRuns(cs) == [k \in 1..Len(cs) |-> <<cs[k][1], Len(cs[k][2])>>]
MapOf(cs) == [x \in SetOfRuns(ChunkRuns(cs)) |->
                LET k == CHOOSE j \in 1..Len(cs) : x \in Rng(cs[j][1], Len(cs[j][2])) IN cs[k][2][x - cs[k][1] + 1]]
ShowsMap(obs, M) == CanonicalRuns(ChunkRuns(obs)) /\ MapOf(obs) = M

V(c, s) == [c |-> c, s |-> s]
Set(t, v) == [T EXCEPT ![t] = v]

Verdict(e) ==
  CASE e.ev = "s_new_empty" -> IF ShowsSet(e.obs, SEmpty) THEN V("", Set(e.t, SEmpty)) ELSE V("C37_Spans_constructor", T)
    [] e.ev = "s_new_range" -> IF ShowsSet(e.obs, SOf(e.start, e.len)) THEN V("", Set(e.t, SOf(e.start, e.len))) ELSE V("C37_Spans_constructor", T)
    [] e.ev = "s_new_list"  -> IF ShowsSet(e.obs, SetOfRuns(e.runs)) THEN V("", Set(e.t, SetOfRuns(e.runs))) ELSE V("C37_Spans_constructor_from_list", T)
    [] e.ev = "s_copy"      -> IF ~ShowsSet(e.obs_src, T[e.src]) THEN V("C37_Spans_copy_changed_source", T)
                               ELSE IF ShowsSet(e.obs, T[e.src]) THEN V("", Set(e.t, T[e.src])) ELSE V("C37_Spans_copy", T)
    [] e.ev = "s_add"       -> LET S2 == SAdd(T[e.t], e.start, e.len) IN
                               IF ShowsSet(e.obs, S2) THEN V("", Set(e.t, S2)) ELSE V("C37_Spans_add", T)
    [] e.ev = "s_remove"    -> LET S2 == SRemove(T[e.t], e.start, e.len) IN
                               IF ShowsSet(e.obs, S2) THEN V("", Set(e.t, S2)) ELSE V("C37_Spans_remove", T)
    [] e.ev = "s_bin"       -> LET R == CASE e.op = "union" -> SUnion(T[e.a], T[e.b])
                                          [] e.op = "diff"  -> SDiff(T[e.a], T[e.b])
                                          [] e.op = "inter" -> SInter(T[e.a], T[e.b]) IN
                               IF ~ShowsSet(e.obs_a, T[e.a]) \/ ~ShowsSet(e.obs_b, T[e.b]) THEN V("C37_Spans_operator_changed_operand", T)
                               ELSE IF ShowsSet(e.obs, R) THEN V("", Set(e.t, R)) ELSE V("C37_Spans_" \o e.op, T)
    [] e.ev = "s_iop"       -> LET R == IF e.op = "iadd" THEN SUnion(T[e.t], T[e.b]) ELSE SDiff(T[e.t], T[e.b]) IN
                               IF ~ShowsSet(e.obs_b, T[e.b]) THEN V("C37_Spans_operator_changed_operand", T)
                               ELSE IF ShowsSet(e.obs, R) THEN V("", Set(e.t, R)) ELSE V("C37_Spans_" \o e.op, T)
    [] e.ev = "s_contains"  -> IF e.res = SContains(T[e.t], e.start, e.len) THEN V("", T) ELSE V("C37_Spans_contains", T)
    [] e.ev = "s_len"       -> IF e.res = SLen(T[e.t]) /\ e.bool = SBool(T[e.t]) THEN V("", T) ELSE V("C37_Spans_len", T)
    [] e.ev = "s_iter"      -> IF ShowsSet(e.res, T[e.t]) THEN V("", T) ELSE V("C37_Spans_iter", T)
    [] e.ev = "s_each"      -> IF ToSet(e.res) = T[e.t] /\ Len(e.res) = SLen(T[e.t])
                                  /\ (\A i \in 2..Len(e.res) : e.res[i-1] < e.res[i]) THEN V("", T) ELSE V("C37_Spans_each", T)
    [] e.ev = "d_new"       -> IF ShowsMap(e.obs, DEmpty) THEN V("", Set(e.t, DEmpty)) ELSE V("C37_DataSpans_constructor", T)
    [] e.ev = "d_copy"      -> IF ~ShowsMap(e.obs_src, T[e.src]) THEN V("C37_DataSpans_copy_changed_source", T)
                               ELSE IF ShowsMap(e.obs, T[e.src]) THEN V("", Set(e.t, T[e.src])) ELSE V("C37_DataSpans_copy", T)
    [] e.ev = "d_add"       -> LET M == DAdd(T[e.t], e.start, e.data) IN
                               IF ShowsMap(e.obs, M) THEN V("", Set(e.t, M)) ELSE V("C37_DataSpans_add", T)
    [] e.ev = "d_remove"    -> LET M == DRemove(T[e.t], e.start, e.len) IN
                               IF ShowsMap(e.obs, M) THEN V("", Set(e.t, M)) ELSE V("C37_DataSpans_remove", T)
    [] e.ev = "d_get"       -> IF ~(e.res = DGet(T[e.t], e.start, e.len)) THEN V("C37_DataSpans_get", T)
                               ELSE IF ~ShowsMap(e.obs, T[e.t]) THEN V("C37_DataSpans_get_changed_state", T) ELSE V("", T)
    [] e.ev = "d_pop"       -> LET M == DPop(T[e.t], e.start, e.len) IN
                               IF ~(e.res = DGet(T[e.t], e.start, e.len)) THEN V("C37_DataSpans_pop_result", T)
                               ELSE IF ShowsMap(e.obs, M) THEN V("", Set(e.t, M)) ELSE V("C37_DataSpans_pop_state", T)
    [] e.ev = "d_len"       -> IF e.res = DLen(T[e.t]) THEN V("", T) ELSE V("C37_DataSpans_len", T)
    [] e.ev = "d_spans"     -> IF ShowsSet(e.res, DSpans(T[e.t])) THEN V("", T) ELSE V("C37_DataSpans_get_spans", T)
    [] OTHER                -> V("unknown_event", T)

TraceInit ==
  /\ tid \in 1..Len(Traces)
  /\ l = 1
  /\ T = [A |-> SEmpty, B |-> SEmpty, C |-> SEmpty, D |-> DEmpty, E |-> DEmpty]
  /\ bad = "none"

TraceNext ==
  /\ bad = "none"
  /\ l <= Len(Events)
  /\ LET v0 == Verdict(Ev)
         \* objects the operation did not name must show what they showed before (no aliasing)
         othersOK == ("others" \notin DOMAIN Ev) \/
                     \A nm \in DOMAIN Ev.others :
                        IF nm \in {"A", "B", "C"} THEN ShowsSet(Ev.others[nm], T[nm]) ELSE ShowsMap(Ev.others[nm], T[nm])
         v == IF v0.c = "" /\ ~othersOK THEN V("C37_other_object_changed", T) ELSE v0
     IN
     IF v.c = ""
       THEN /\ T' = v.s /\ l' = l + 1 /\ bad' = "none"
            /\ (l = Len(Events) => PrintT(<<"VF_ACCEPT", tid, l>>))
       ELSE /\ bad' = v.c /\ UNCHANGED <<T, l>>
            /\ PrintT(<<"VF_REJECT", tid, l, v.c>>)
  /\ UNCHANGED tid

TraceSpec == TraceInit /\ [][TraceNext]_tvars
TraceOK == bad = "none"
=============================================================================
