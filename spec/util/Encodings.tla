----------------------------- MODULE Encodings -----------------------------
(* On-disk and wire encodings of tahoe-lafs (C38), as the formats are meant to be:
   strict, canonical decoders -- an encoding that is not the encoding of some
   value is rejected.
     base32    util/base32.py  b2a / a2b / could_be_base32_encoded
     base62    util/base62.py  b2a / a2b
     netstring util/netstring.py netstring / split_netstring
     UEB       uri.py pack_extension / unpack_extension
     structs   storage/lease.py LeaseInfo.to_* / from_*, storage/*_schema.py header
   Byte strings are sequences of numbers 0..255.  Base-32 / base-62 text is a
   sequence of symbol values (0..31 / 0..61; larger numbers stand for characters
   outside the alphabet).  A decoder answers [ok |-> BOOLEAN, why |-> STRING, ...]. *)
EXTENDS Common

Reject(why) == [ok |-> FALSE, why |-> why, val |-> <<>>, pos |-> 0]
Accept(v)   == [ok |-> TRUE, why |-> "", val |-> v, pos |-> 0]

RECURSIVE Pow(_, _)
Pow(b, e) == IF e = 0 THEN 1 ELSE b * Pow(b, e - 1)

(* ---- bit regrouping ------------------------------------------------------------ *)
\* the bits of a sequence of w-bit numbers, most significant first
BitsOf(s, w) == [j \in 1..(w * Len(s)) |-> (s[((j - 1) \div w) + 1] \div Pow(2, w - 1 - ((j - 1) % w))) % 2]
RECURSIVE BitsVal(_, _, _)
BitsVal(bits, a, b) == IF a > b THEN 0 ELSE 2 * BitsVal(bits, a, b - 1) + bits[b]

(* ---- base32 ---------------------------------------------------------------------- *)
\* 8 -> 5 bit regrouping, zero bits appended to fill the last quintet, no '=' padding
B32Encode(bs) ==
  LET n    == DivCeil(8 * Len(bs), 5)
      bits == BitsOf(bs, 8) \o Zeros(5 * n - 8 * Len(bs))
  IN [k \in 1..n |-> BitsVal(bits, 5 * (k - 1) + 1, 5 * k)]
B32LegitLength(n) == (n % 8) \in {0, 2, 4, 5, 7}
B32PadBits(sy) == LET bits == BitsOf(sy, 5) IN BitsVal(bits, 8 * ((5 * Len(sy)) \div 8) + 1, 5 * Len(sy))
B32NumPadBits(n) == 5 * n - 8 * ((5 * n) \div 8)
\* what the symbols say when the unused trailing bits are ignored
B32DecodeLoose(sy) ==
  LET bits == BitsOf(sy, 5) IN [k \in 1..((5 * Len(sy)) \div 8) |-> BitsVal(bits, 8 * (k - 1) + 1, 8 * k)]
\* canonical decoding: the string must be the encoding of some byte string
B32Decode(sy) ==
  IF \E i \in 1..Len(sy) : sy[i] > 31 THEN Reject("alphabet")
  ELSE IF ~B32LegitLength(Len(sy)) THEN Reject("length")
  ELSE IF B32PadBits(sy) # 0 THEN Reject("padbits")
  ELSE Accept(B32DecodeLoose(sy))

(* ---- base62 ---------------------------------------------------------------------- *)
RECURSIVE NumVal(_, _)
NumVal(s, base) == IF s = <<>> THEN 0 ELSE base * NumVal(SubSeq(s, 1, Len(s) - 1), base) + s[Len(s)]
RECURSIVE NumDigits(_, _, _)
NumDigits(v, base, w) == IF w = 0 THEN <<>> ELSE NumDigits(v \div base, base, w - 1) \o <<v % base>>
\* b2a_l emits one character per base-62 digit of 256^numos (so the empty string encodes to "0")
RECURSIVE CountDigits(_, _)
CountDigits(v, base) == IF v = 0 THEN 0 ELSE 1 + CountDigits(v \div base, base)
B62Chars(numos) == CountDigits(Pow(256, numos), 62)
RECURSIVE GreatestO(_, _)
GreatestO(numcs, o) == IF Pow(256, o + 1) <= Pow(62, numcs) THEN GreatestO(numcs, o + 1) ELSE o
B62Octets(numcs) == GreatestO(numcs, 0)              \* num_octets_that_encode_to_this_many_chars
B62Encode(bs) == NumDigits(NumVal(bs, 256), 62, B62Chars(Len(bs)))
B62Decode(ds) ==
  IF \E i \in 1..Len(ds) : ds[i] > 61 THEN Reject("alphabet")
  ELSE IF B62Chars(B62Octets(Len(ds))) # Len(ds) THEN Reject("length")      \* no byte string encodes to this many characters
  ELSE IF NumVal(ds, 62) >= Pow(256, B62Octets(Len(ds))) THEN Reject("overflow")
  ELSE Accept(NumDigits(NumVal(ds, 62), 256, B62Octets(Len(ds))))
\* what a decoder that keeps only the low octets would say
B62DecodeLoose(ds) == NumDigits(NumVal(ds, 62) % Pow(256, B62Octets(Len(ds))), 256, B62Octets(Len(ds)))

(* ---- netstrings ------------------------------------------------------------------ *)
Colon == 58
Comma == 44
IsDigit(b) == b >= 48 /\ b <= 57
RECURSIVE DecStr(_)
DecStr(n) == IF n < 10 THEN <<48 + n>> ELSE DecStr(n \div 10) \o <<48 + (n % 10)>>
Netstring(s) == DecStr(Len(s)) \o <<Colon>> \o s \o <<Comma>>

\* index of the first b at or after p (1-based), 0 if none
FirstAt(data, p, b) == IF \E q \in p..Len(data) : data[q] = b
                         THEN CHOOSE q \in p..Len(data) : data[q] = b /\ \A r \in p..(q - 1) : data[r] # b
                         ELSE 0
\* canonical decimal: digits only, no leading zero except "0" itself
StrictLen(d) == IF d = <<>> \/ (\E i \in 1..Len(d) : ~IsDigit(d[i])) \/ (Len(d) > 1 /\ d[1] = 48) \/ Len(d) > 6
                  THEN -1 ELSE NumVal([i \in 1..Len(d) |-> d[i] - 48], 10)
\* what Python's int() makes of it: surrounding white space, a sign, leading zeros, single underscores
IsSpace(b) == b = 32 \/ (b >= 9 /\ b <= 13)
RECURSIVE LStrip(_)
LStrip(d) == IF d # <<>> /\ IsSpace(d[1]) THEN LStrip(Tail(d)) ELSE d
RECURSIVE RStrip(_)
RStrip(d) == IF d # <<>> /\ IsSpace(d[Len(d)]) THEN RStrip(SubSeq(d, 1, Len(d) - 1)) ELSE d
LenientMag(d0) ==
  LET d1 == RStrip(LStrip(d0))
      neg == d1 # <<>> /\ d1[1] = 45
      d2 == IF d1 # <<>> /\ (d1[1] = 43 \/ d1[1] = 45) THEN Tail(d1) ELSE d1
      okUnders == \A i \in 1..Len(d2) : d2[i] = 95 => (i > 1 /\ i < Len(d2) /\ IsDigit(d2[i - 1]) /\ IsDigit(d2[i + 1]))
      d3 == SelectSeq(d2, LAMBDA b : b # 95)
  IN IF d3 = <<>> \/ (\E i \in 1..Len(d3) : ~IsDigit(d3[i])) \/ ~okUnders \/ Len(d3) > 6 THEN [ok |-> FALSE, neg |-> FALSE, v |-> 0]
     ELSE [ok |-> TRUE, neg |-> neg, v |-> NumVal([i \in 1..Len(d3) |-> d3[i] - 48], 10)]
\* as a length: a negative length never matches the data that follows, except -0
LenientLen(d) == LET m == LenientMag(d) IN IF ~m.ok \/ (m.neg /\ m.v > 0) THEN -1 ELSE m.v
\* an integer value: [ok, n]
ParseInt(d, lenient) ==
  IF lenient THEN LET m == LenientMag(d) IN [ok |-> m.ok, n |-> IF m.neg THEN 0 - m.v ELSE m.v]
  ELSE [ok |-> StrictLen(d) >= 0, n |-> IF StrictLen(d) >= 0 THEN StrictLen(d) ELSE 0]

\* split_netstring(data, numstrings, position, required_trailer); pos0 is 0-based as in the code.
\* The length-prefix parser is StrictLen (the format) or, with lenient = TRUE, LenientLen (Python's int()).
LenOf(d, lenient) == IF lenient THEN LenientLen(d) ELSE StrictLen(d)
RECURSIVE SplitFrom(_, _, _, _, _)
SplitFrom(data, num, p, elems, lenient) ==           \* p: 1-based index of the next unread byte
  IF Len(elems) = num \/ p > Len(data) THEN [elems |-> elems, p |-> p, ok |-> TRUE]
  ELSE LET q == FirstAt(data, p, Colon) IN
    IF q = 0 THEN [elems |-> elems, p |-> p, ok |-> FALSE]
    ELSE LET n == LenOf(SubSeq(data, p, q - 1), lenient) IN
      IF n < 0 \/ q + n + 1 > Len(data) \/ data[q + n + 1] # Comma THEN [elems |-> elems, p |-> p, ok |-> FALSE]
      ELSE SplitFrom(data, num, q + n + 2, Append(elems, SubSeq(data, q + 1, q + n)), lenient)
Split(data, num, pos0, hasTrailer, trailer, lenient) ==
  LET r == SplitFrom(data, num, pos0 + 1, <<>>, lenient) IN
  IF ~r.ok THEN Reject("malformed")
  ELSE IF Len(r.elems) < num THEN Reject("ran out of netstrings")
  ELSE IF hasTrailer /\ SubSeq(data, r.p, Len(data)) # trailer THEN Reject("leftover data")
  ELSE [ok |-> TRUE, why |-> "", val |-> r.elems, pos |-> (r.p - 1) + (IF hasTrailer THEN Len(trailer) ELSE 0)]
SplitNetstring(data, num, pos0, hasTrailer, trailer) == Split(data, num, pos0, hasTrailer, trailer, FALSE)
SplitNetstringLenient(data, num, pos0, hasTrailer, trailer) == Split(data, num, pos0, hasTrailer, trailer, TRUE)

(* ---- URI extension block ------------------------------------------------------------ *)
\* items: sequence of <<key, value>> (byte strings) with distinct keys
RECURSIVE BytesLess(_, _)
BytesLess(a, b) == IF a = <<>> THEN b # <<>> ELSE IF b = <<>> THEN FALSE
                   ELSE IF a[1] # b[1] THEN a[1] < b[1] ELSE BytesLess(Tail(a), Tail(b))
RECURSIVE SortItems(_)
SortItems(S) == IF S = {} THEN <<>>
                ELSE LET m == CHOOSE x \in S : \A y \in S : x = y \/ BytesLess(x[1], y[1]) IN <<m>> \o SortItems(S \ {m})
RECURSIVE PackItems(_)
PackItems(seq) == IF seq = <<>> THEN <<>> ELSE seq[1][1] \o <<Colon>> \o Netstring(seq[1][2]) \o PackItems(Tail(seq))
PackExtension(items) == PackItems(SortItems(ToSet(items)))
\* key ':' netstring(value), repeated to the end of the data; keys are non-empty, distinct
RECURSIVE UnpackFrom(_, _, _, _)
UnpackFrom(data, p, acc, lenient) ==
  IF p > Len(data) THEN [ok |-> TRUE, items |-> acc]
  ELSE LET q == FirstAt(data, p, Colon) IN
    IF q = 0 THEN [ok |-> FALSE, items |-> acc]
    ELSE LET r == SplitFrom(data, 1, q + 1, <<>>, lenient) IN
      IF ~r.ok \/ Len(r.elems) < 1 THEN [ok |-> FALSE, items |-> acc]
      ELSE UnpackFrom(data, r.p, Append(acc, <<SubSeq(data, p, q - 1), r.elems[1]>>), lenient)
Unpack(data, lenient) ==
  LET r == UnpackFrom(data, 1, <<>>, lenient) IN
  IF ~r.ok THEN Reject("malformed")
  ELSE IF \E i, j \in 1..Len(r.items) : i < j /\ r.items[i][1] = r.items[j][1] THEN Reject("duplicate key")
  ELSE IF \E i \in 1..Len(r.items) : r.items[i][1] = <<>> THEN Reject("empty key")
  ELSE Accept(SortItems(ToSet(r.items)))
UnpackExtension(data) == Unpack(data, FALSE)
UnpackExtensionLenient(data) == Unpack(data, TRUE)

(* ---- fixed-layout records (struct) -------------------------------------------------- *)
\* a layout is a sequence of fields [name, width]; a value assigns to every field a byte string of
\* exactly that width (numbers are big-endian); the record is the concatenation in layout order
RECURSIVE PackFields(_, _)
PackFields(layout, v) == IF layout = <<>> THEN <<>> ELSE v[layout[1].name] \o PackFields(Tail(layout), v)
RECURSIVE LayoutSize(_)
LayoutSize(layout) == IF layout = <<>> THEN 0 ELSE layout[1].width + LayoutSize(Tail(layout))
RECURSIVE FieldOffset(_, _)
FieldOffset(layout, nm) == IF layout[1].name = nm THEN 0 ELSE layout[1].width + FieldOffset(Tail(layout), nm)
UnpackFields(layout, data) ==
  IF Len(data) # LayoutSize(layout) THEN Reject("size")
  ELSE Accept([i \in 1..Len(layout) |->
                 <<layout[i].name, SubSeq(data, FieldOffset(layout, layout[i].name) + 1,
                                          FieldOffset(layout, layout[i].name) + layout[i].width)>>])
F(nm, w) == [name |-> nm, width |-> w]
\* storage/lease.py IMMUTABLE_FORMAT ">L32s32sL" and MUTABLE_FORMAT ">LL32s32s20s"
ImmutableLease == <<F("owner_num", 4), F("renew_secret", 32), F("cancel_secret", 32), F("expiration_time", 4)>>
MutableLease   == <<F("owner_num", 4), F("expiration_time", 4), F("renew_secret", 32), F("cancel_secret", 32), F("nodeid", 20)>>
\* storage/immutable_schema.py header ">LLL": version, share data length (saturating at 2^32-1), number of leases
ImmutableHeader == <<F("version", 4), F("legacy_length", 4), F("num_leases", 4)>>
\* max_size given as 8 big-endian bytes
Saturate32(be8) == IF SubSeq(be8, 1, 4) # <<0, 0, 0, 0>> THEN <<255, 255, 255, 255>> ELSE SubSeq(be8, 5, 8)
\* storage/mutable_schema.py header ">32s20s32sQQ", then room for 4 leases, then ">L" extra lease count
MutableHeader == <<F("magic", 32), F("nodeid", 20), F("write_enabler", 32), F("data_length", 8),
                   F("extra_lease_offset", 8), F("lease_slots", 4 * LayoutSize(MutableLease)), F("extra_lease_count", 4)>>
MutableExtraLeaseOffset == 32 + 20 + 32 + 8 + 8 + 4 * LayoutSize(MutableLease)
=============================================================================
