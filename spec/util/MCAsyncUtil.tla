----------------------------- MODULE MCAsyncUtil -----------------------------
(* Design level of X-util_async: every interleaving (up to a depth per kind) of the client calls and environment steps
   (reactor turns, clock ticks, answers of input Deferreds, garbage collection of the canceller) that AsyncUtil.tla
   allows, for every kind of object.  The client-visible history (command, observation) is the ghost variable; the
   documented rules of AsyncUtilProps.tla, stated over that history only, are the invariants.
   With PrintHist = TRUE the command sequence of every behaviour that reaches the depth, or a state without further
   commands, is printed as <<"VF_HIST", kind, commands as JSON>>: the harness replays these TLC-generated behaviours
   against the real classes (exhaustive run: a sample of the maximal behaviours; -simulate with Wide: longer ones). *)
EXTENDS AsyncUtil, AsyncUtilProps, Json

CONSTANTS Kinds,        \* subset of AllKinds
          Scale,        \* 0 = quick depths, 1 = thorough (+1), ...
          Wide,         \* BOOLEAN: the wide command alphabets and depth SimDepth (for -simulate) instead of the narrow ones
          PrintHist,    \* BOOLEAN: print the maximal behaviours
          SimDepth      \* depth of the behaviours with Wide

VARIABLES kind, st, hist
vars == <<kind, st, hist>>

BaseDepth(k) == CASE k = "oneshot" -> 5 [] k = "lazy" -> 4 [] k = "obslist" -> 4 [] k = "stream" -> 4 [] k = "poll" -> 3
                  [] k \in {"gather", "dlss"} -> 5 [] k = "race" -> 4 [] k = "timeout" -> 6 [] k = "hook" -> 3
                  [] k = "until" -> 5 [] k = "evchain" -> 5 [] k = "a2d" -> 3 [] k = "waitdc" -> 4 [] k = "consumer" -> 1 [] k = "dictofsets" -> 3
                  [] k = "auxdict" -> 3 [] k = "typedkeys" -> 3 [] OTHER -> 3
DepthOf(k) == IF k = "consumer" THEN 1 ELSE IF Wide THEN SimDepth ELSE BaseDepth(k) + Scale

Init == kind \in Kinds /\ st = InitSt(kind) /\ hist = <<>>
Next == /\ Len(hist) < DepthOf(kind)
        /\ \E c \in Cmds(kind, st, Wide) : \E r \in Steps(kind, st, c) :
              /\ st' = r.st
              /\ hist' = Append(hist, [cmd |-> c, out |-> r.out])
        /\ UNCHANGED kind
Spec == Init /\ [][Next]_vars

\* ---- the documented rules, one invariant per rule ----
Is(ks) == kind \in ks
OS == {"oneshot", "lazy"}
OS_AtMostOnce == Is(OS) => P_OS_AtMostOnce(hist)
OS_NotBeforeFire == Is(OS) => P_OS_NotBeforeFire(hist)
OS_SameValue == Is(OS) => P_OS_SameValue(hist)
OS_FireOnce == Is(OS) => P_OS_FireOnce(hist)
OS_FireNotReentrant == Is(OS) => P_OS_FireNotReentrant(hist)
OS_SubscriptionOrder == Is(OS) => P_OS_SubscriptionOrder(hist)
OS_AllServedAfterTurn == Is(OS) => P_OS_AllServedAfterTurn(hist)
\* [obs-lazy] the bounds of the producer calls are consistent: nobody needs a result that cannot have been produced
LZ_ProducerBounds == Is({"lazy"}) => (st.pneed => st.pmax >= 1) /\ (~st.fired => st.pmax = 0)
OL_Immediate == Is({"obslist"}) => P_OL_Immediate(hist)
OL_OnlySubscribedOnce == Is({"obslist"}) => P_OL_OnlySubscribedOnce(hist)
OL_AllNotified == Is({"obslist"}) => P_OL_AllNotified(hist)
OL_Order == Is({"obslist"}) => P_OL_Order(hist)
OL_ArgsPassed == Is({"obslist"}) => P_OL_ArgsPassed(hist)
ES_Eventual == Is({"stream"}) => P_ES_Eventual(hist)
ES_NoneBeforeSubscribe == Is({"stream"}) => P_ES_NoneBeforeSubscribe(hist)
ES_InOrderOnce == Is({"stream"}) => P_ES_InOrderOnce(hist)
ES_AllAfterTurn == Is({"stream"}) => P_ES_AllAfterTurn(hist)
ES_WatcherKwargs == Is({"stream"}) => P_ES_WatcherKwargs(hist)
ES_Cancel == Is({"stream"}) => P_ES_Cancel(hist)
PM_Once == Is({"poll"}) => P_PM_Once(hist)
PM_Cause == Is({"poll"}) => P_PM_Cause(hist)
PM_Prompt == Is({"poll"}) => P_PM_Prompt(hist)
PM_Periodic == Is({"poll"}) => P_PM_Periodic(hist)
PM_Terminates == Is({"poll"}) => P_PM_Terminates(hist)
GA_Once == Is({"gather", "dlss"}) => P_GA_Once(hist)
GA_Success == Is({"gather", "dlss"}) => P_GA_Success(hist)
GA_Values == Is({"gather", "dlss"}) => P_GA_Values(hist)
GA_FailFast == Is({"gather"}) => P_GA_FailFast(hist)
GA_NoLeak == Is({"gather"}) => P_GA_NoLeak(hist)
DL_WaitsForAll == Is({"dlss"}) => P_DL_WaitsForAll(hist)
DL_FirstFailureInListOrder == Is({"dlss"}) => P_DL_FirstFailureInListOrder(hist)
RA_Once == Is({"race"}) => P_RA_Once(hist)
RA_FirstSuccessWins == Is({"race"}) => P_RA_FirstSuccessWins(hist)
RA_CancelTheRest == Is({"race"}) => P_RA_CancelTheRest(hist)
RA_NoCancelWhilePending == Is({"race"}) => P_RA_NoCancelWhilePending(hist)
RA_MultiFailure == Is({"race"}) => P_RA_MultiFailure(hist)
RA_AllFailed == Is({"race"}) => P_RA_AllFailed(hist)
RA_CancelCancelsAll == Is({"race"}) => P_RA_CancelCancelsAll(hist)
TO_Once == Is({"timeout"}) => P_TO_Once(hist)
TO_Outcome == Is({"timeout"}) => P_TO_Outcome(hist)
TO_NoTimerLeft == Is({"timeout"}) => P_TO_NoTimerLeft(hist)
HK_AtMostOnce == Is({"hook"}) => P_HK_AtMostOnce(hist)
HK_PassThrough == Is({"hook"}) => P_HK_PassThrough(hist)
HK_SetRefusal == Is({"hook"}) => P_HK_SetRefusal(hist)
HK_FiresAtCount == Is({"hook"}) => P_HK_FiresAtCount(hist)
HK_AsyncAtNextTurn == Is({"hook"}) => P_HK_AsyncAtNextTurn(hist)
HK_NothingSpurious == Is({"hook"}) => P_HK_NothingSpurious(hist)
UN_NoOverlap == Is({"until"}) => P_UN_NoOverlap(hist)
UN_StopsAtCondition == Is({"until"}) => P_UN_StopsAtCondition(hist)
UN_FailurePropagates == Is({"until"}) => P_UN_FailurePropagates(hist)
UN_Once == Is({"until"}) => P_UN_Once(hist)
EC_Eventual == Is({"evchain"}) => P_EC_Eventual(hist)
EC_SameResult == Is({"evchain"}) => P_EC_SameResult(hist)
EC_AfterTurn == Is({"evchain"}) => P_EC_AfterTurn(hist)
EC_PassThrough == Is({"evchain"}) => P_EC_PassThrough(hist)
A2_ReturnsDeferred == Is({"a2d"}) => P_A2_ReturnsDeferred(hist)
A2_Result == Is({"a2d"}) => P_A2_Result(hist)
WD_PassThrough == Is({"waitdc"}) => P_WD_PassThrough(hist)
WD_NotEarly == Is({"waitdc"}) => P_WD_NotEarly(hist)
WD_NotLate == Is({"waitdc"}) => P_WD_NotLate(hist)
CN_Data == Is({"consumer"}) => P_CN_Data(hist)
CN_Resumes == Is({"consumer"}) => P_CN_Resumes(hist)
DS_NoEmptySets == Is({"dictofsets"}) => P_DS_NoEmptySets(hist)
DS_NoAlias == Is({"dictofsets"}) => P_DS_NoAlias(hist)
DS_AddDiscard == Is({"dictofsets"}) => P_DS_AddDiscard(hist)
AV_SetClearsAux == Is({"auxdict"}) => P_AV_SetClearsAux(hist)
AV_SetWithAux == Is({"auxdict"}) => P_AV_SetWithAux(hist)
AV_DelRemovesBoth == Is({"auxdict"}) => P_AV_DelRemovesBoth(hist)
AV_DelBehavesLikeDict == Is({"auxdict"}) => P_AV_DelBehavesLikeDict(hist)
AV_ReadsChangeNothing == Is({"auxdict"}) => P_AV_ReadsChangeNothing(hist)
TK_TypeEnforced == Is({"typedkeys"}) => P_TK_TypeEnforced(hist)
TK_RefusalChangesNothing == Is({"typedkeys"}) => P_TK_RefusalChangesNothing(hist)
\* the rule list used by trace validation is the same set of rules
RuleListAgrees == AllHold(kind, hist)
\* the Spec never allows a step without saying what the client sees
StepsTotal == \A c \in Cmds(kind, st, Wide) : Steps(kind, st, c) # {}

\* ---- necessity: the deviations of the code as it is are outside the rules (used with expect_ok = FALSE) ----
NextDev == /\ Len(hist) < 3 + Scale
           /\ \E c \in Cmds(kind, st, Wide) : \E r \in Steps(kind, st, c) \cup DevSteps(kind, st, c) :
                 /\ st' = r.st
                 /\ hist' = Append(hist, [cmd |-> c, out |-> r.out])
           /\ UNCHANGED kind
SpecDev == Init /\ [][NextDev]_vars

\* ---- behaviours for the harness ----
HistPrinted == (PrintHist /\ (Len(hist) = DepthOf(kind) \/ Cmds(kind, st, Wide) = {})) =>
                  PrintT(<<"VF_HIST", kind, ToJson([i \in 1..Len(hist) |-> hist[i].cmd])>>)
=============================================================================
