---------------------------- MODULE GenEncodings ----------------------------
(* GEN mode for C38: enumerates encodings and single-token mutations of valid
   encodings; every state is one case, printed with the verdict of Encodings.tla
   (the decoded value, or reject).  For netstrings and the URI extension block two
   verdicts are printed: `strict` (the format) and `lenient` (the same grammar but
   with the length prefix / integer values read the way Python's int() reads them,
   later duplicate keys winning and empty keys allowed): the check compares with
   `strict`, and where the code differs but agrees with `lenient` the case is
   counted as a lenient form and kept out of the verdict (DESIGN.md section 10).
   A case is a record [kind, a, b, c] (meaning of a, b, c depends on the kind). *)
EXTENDS Encodings, Json, IOUtils, SequencesExt

CONSTANT Kinds      \* which families to enumerate (quick/thorough choose)

P(kind, a, b, c) == [kind |-> kind, a |-> a, b |-> b, c |-> c]

(* ---- single-token mutations ---------------------------------------------------- *)
Del(s, i)    == SubSeq(s, 1, i - 1) \o SubSeq(s, i + 1, Len(s))
Rep(s, i, x) == SubSeq(s, 1, i - 1) \o <<x>> \o SubSeq(s, i + 1, Len(s))
Ins(s, i, x) == SubSeq(s, 1, i - 1) \o <<x>> \o SubSeq(s, i, Len(s))
Muts(s, R) == {s} \cup {Del(s, i) : i \in 1..Len(s)}
                  \cup {Rep(s, i, x) : i \in 1..Len(s), x \in R}
                  \cup {Ins(s, i, x) : i \in 1..(Len(s) + 1), x \in R}
\* '0' '1' '2' '9' ':' ',' 'a' '+' ' ' '-'
MutBytes == {48, 49, 50, 57, 58, 44, 97, 43, 32, 45}

RECURSIVE Concat(_)
Concat(ss) == IF ss = <<>> THEN <<>> ELSE ss[1] \o Concat(Tail(ss))
Fill(n, x) == [i \in 1..n |-> x]
Alt(n, x, y) == [i \in 1..n |-> IF i % 2 = 1 THEN x ELSE y]

(* ---- base32 ---------------------------------------------------------------------- *)
Sym == 0..34           \* 32..34: characters outside the alphabet
B32DecCases ==
  {<<>>} \cup {<<x>> : x \in Sym} \cup {<<x, y>> : x \in Sym, y \in Sym}
  \cup {<<x, y, z>> : x \in {0, 1, 31, 33}, y \in {0, 1, 31, 33}, z \in {0, 1, 31, 33}}
  \cup UNION {{pre \o <<z>> : pre \in {Fill(n - 1, 0), Fill(n - 1, 31), Alt(n - 1, 10, 21)}, z \in Sym} : n \in {4, 5, 6, 7, 8, 9, 10, 12, 13, 15, 16}}
ByteEdges == {0, 1, 127, 128, 255}
B32EncCases ==
  {<<>>} \cup {<<x>> : x \in 0..255} \cup {<<x, y>> : x \in {0, 1, 128, 255}, y \in 0..255}
  \cup UNION {{pre \o <<z>> : pre \in {Fill(n - 1, 0), Fill(n - 1, 255), Alt(n - 1, 165, 90)}, z \in ByteEdges} : n \in 3..11}

(* ---- base62 (values below 2^16 keep TLC's 32-bit integers safe) -------------------- *)
B62EncCases == {<<>>} \cup {<<x>> : x \in 0..255} \cup {<<x, y>> : x \in {0, 1, 128, 255}, y \in 0..255}
B62DecCases == {<<>>} \cup {<<x>> : x \in 0..61} \cup {<<x, y>> : x \in 0..61, y \in 0..61}
               \cup {<<x, y, z>> : x \in {0, 1, 17, 61}, y \in {0, 3, 61}, z \in 0..61}
               \cup {<<x, y, z, w>> : x \in {0, 1}, y \in {0, 40, 61}, z \in {0, 61}, w \in {0, 1, 61}}

(* ---- netstrings -------------------------------------------------------------------- *)
\* base cases: <<prefix, elements, numstrings, hasTrailer, trailer>>
NetBases == {
  <<<<>>, <<<<97, 98, 99>>>>, 1, 0, <<>>>>,
  <<<<>>, <<<<97>>, <<98, 99>>>>, 2, 1, <<>>>>,
  <<<<120, 120>>, <<<<>>, <<97, 98>>>>, 2, 1, <<84>>>>,
  <<<<>>, <<<<48, 49, 50, 51, 52, 53, 54, 55, 56, 57>>>>, 1, 0, <<>>>>,
  <<<<>>, <<<<97>>, <<98>>, <<99>>>>, 2, 0, <<>>>>,
  <<<<>>, <<<<97>>, <<98>>, <<99>>>>, 2, 1, <<49, 58, 99, 44>>>> }
NetData(b) == b[1] \o Concat([i \in 1..Len(b[2]) |-> Netstring(b[2][i])]) \o
              (IF b[4] = 1 /\ b[5] # <<49, 58, 99, 44>> THEN b[5] ELSE <<>>)
NetSplitCases == UNION {{P("netsplit", d, <<b[3], Len(b[1]), b[4]>>, b[5]) : d \in Muts(NetData(b), MutBytes)} : b \in NetBases}
NetEncCases == {P("netenc", e, <<>>, <<>>) : e \in {<<>>, <<97>>, <<58, 44>>, Fill(9, 97), Fill(10, 98), Fill(100, 99), Fill(101, 0)}}

(* ---- URI extension block ------------------------------------------------------------ *)
KSize == <<115, 105, 122, 101>>                           \* "size"
KCodec == <<99, 111, 100, 101, 99, 95, 110, 97, 109, 101>> \* "codec_name"
IntKeys == {KSize, <<110, 117, 109, 95, 115, 101, 103, 109, 101, 110, 116, 115>>}   \* "size", "num_segments" (of the five integer keys)
UebBases == {
  <<<<<<97>>, <<120>>>>, <<KSize, <<49, 50>>>>>>,
  <<<<KCodec, <<99, 114, 115>>>>, <<<<98>>, <<>>>>>>,
  <<<<<<98>>, <<49>>>>, <<<<97>>, <<50>>>>, <<<<97, 98>>, <<51>>>>, <<<<66>>, <<52>>>>>>,
  <<>> }
UebUnpackCases == UNION {{P("uebunpack", d, <<>>, <<>>) : d \in Muts(PackExtension(b), MutBytes)} : b \in UebBases}
UebPackCases == {P("uebpack", b, <<>>, <<>>) : b \in UebBases}
\* integer-valued keys: the value must be a number; reported as the number
IntItemsOK(items, lenient) == \A i \in 1..Len(items) : items[i][1] \in IntKeys => ParseInt(items[i][2], lenient).ok
IntsOf(items, lenient) == [i \in 1..Len(items) |-> IF items[i][1] \in IntKeys THEN [is |-> TRUE, n |-> ParseInt(items[i][2], lenient).n]
                                                                              ELSE [is |-> FALSE, n |-> 0]]
\* lenient reading of keys: later duplicates win, empty keys allowed
RECURSIVE LastWins(_)
LastWins(items) == IF items = <<>> THEN <<>>
                   ELSE LET rest == LastWins(Tail(items)) IN
                        IF \E j \in 1..Len(rest) : rest[j][1] = items[1][1] THEN rest ELSE <<items[1]>> \o rest
UebVerdict(data, lenient) ==
  IF lenient
    THEN LET r == UnpackFrom(data, 1, <<>>, TRUE) IN
         IF ~r.ok \/ ~IntItemsOK(r.items, TRUE) THEN [ok |-> FALSE, why |-> "malformed", items |-> <<>>, ints |-> <<>>]
         ELSE LET it == SortItems(ToSet(LastWins(r.items))) IN [ok |-> TRUE, why |-> "", items |-> it, ints |-> IntsOf(it, TRUE)]
    ELSE LET u == UnpackExtension(data) IN
         IF ~u.ok THEN [ok |-> FALSE, why |-> u.why, items |-> <<>>, ints |-> <<>>]
         ELSE IF ~IntItemsOK(u.val, FALSE) THEN [ok |-> FALSE, why |-> "integer value", items |-> <<>>, ints |-> <<>>]
         ELSE [ok |-> TRUE, why |-> "", items |-> u.val, ints |-> IntsOf(u.val, FALSE)]

(* ---- structs -------------------------------------------------------------------------- *)
U32Edges == {<<0, 0, 0, 0>>, <<0, 0, 0, 1>>, <<127, 255, 255, 255>>, <<128, 0, 0, 0>>, <<255, 255, 255, 255>>, <<1, 2, 3, 4>>}
Renew  == [i \in 1..32 |-> i]
Cancel == [i \in 1..32 |-> 100 + i]
NodeId == [i \in 1..20 |-> 200 + i]
LeaseValue(o, e) == [owner_num |-> o, expiration_time |-> e, renew_secret |-> Renew, cancel_secret |-> Cancel, nodeid |-> NodeId]
\* a = <<variant>> (1 immutable, 2 mutable), b = <<owner_num, expiration_time>> as big-endian bytes
LeaseCases == {P("lease", <<v>>, <<o, e>>, <<>>) : v \in {1, 2}, o \in U32Edges, e \in U32Edges}
LeaseLayout(v) == IF v = 1 THEN ImmutableLease ELSE MutableLease
\* decoding of damaged records: one byte dropped / added
LeaseBadCases == {P("leasebad", <<v>>, <<d>>, <<>>) : v \in {1, 2}, d \in {-1, 1}}
U64Edges == {<<0, 0, 0, 0, 0, 0, 0, 0>>, <<0, 0, 0, 0, 0, 0, 0, 1>>, <<0, 0, 0, 0, 127, 255, 255, 255>>, <<0, 0, 0, 0, 128, 0, 0, 0>>,
             <<0, 0, 0, 0, 255, 255, 255, 254>>, <<0, 0, 0, 0, 255, 255, 255, 255>>, <<0, 0, 0, 1, 0, 0, 0, 0>>, <<0, 0, 1, 0, 0, 0, 0, 5>>,
             <<127, 255, 255, 255, 255, 255, 255, 255>>}
ImmHeaderCases == {P("immheader", <<v>>, m, <<>>) : v \in {1, 2}, m \in U64Edges}
MutHeaderCases == {P("mutheader", <<v>>, <<>>, <<>>) : v \in {1, 2}}
BE(n, w) == NumDigits(n, 256, w)
\* "Tahoe mutable container v<N>\n" + 5 bytes (v1: fixed; later versions: a tagged hash, written -1 here and filled in by the driver)
MutMagic(v) == <<84, 97, 104, 111, 101, 32, 109, 117, 116, 97, 98, 108, 101, 32, 99, 111, 110, 116, 97, 105, 110, 101, 114, 32, 118, 48 + v, 10>>
               \o (IF v = 1 THEN <<117, 9, 68, 3, 142>> ELSE <<-1, -1, -1, -1, -1>>)
WriteEnabler == [i \in 1..32 |-> 60 + i]
MutHeaderValue(v) == [magic |-> MutMagic(v), nodeid |-> NodeId, write_enabler |-> WriteEnabler, data_length |-> BE(0, 8),
                      extra_lease_offset |-> BE(MutableExtraLeaseOffset, 8), lease_slots |-> Zeros(4 * LayoutSize(MutableLease)),
                      extra_lease_count |-> BE(0, 4)]

(* ---- cases and their verdicts ------------------------------------------------------------ *)
CasesOf(kind) ==
  CASE kind = "b32dec"    -> {P("b32dec", s, <<>>, <<>>) : s \in B32DecCases}
    [] kind = "b32enc"    -> {P("b32enc", s, <<>>, <<>>) : s \in B32EncCases}
    [] kind = "b62enc"    -> {P("b62enc", s, <<>>, <<>>) : s \in B62EncCases}
    [] kind = "b62dec"    -> {P("b62dec", s, <<>>, <<>>) : s \in B62DecCases}
    [] kind = "netsplit"  -> NetSplitCases
    [] kind = "netenc"    -> NetEncCases
    [] kind = "uebunpack" -> UebUnpackCases
    [] kind = "uebpack"   -> UebPackCases
    [] kind = "lease"     -> LeaseCases \cup LeaseBadCases
    [] kind = "header"    -> ImmHeaderCases \cup MutHeaderCases

PadClass(sy) == IF B32LegitLength(Len(sy)) /\ (\A i \in 1..Len(sy) : sy[i] <= 31) /\ B32PadBits(sy) # 0
                  THEN (IF B32PadBits(sy) = Pow(2, B32NumPadBits(Len(sy)) - 1) THEN "top_pad_bit_only" ELSE "other_pad_bits")
                  ELSE ""

Out(p) ==
  CASE p.kind = "b32dec" -> [kind |-> p.kind, text |-> p.a, strict |-> B32Decode(p.a),
                             loose |-> IF \A i \in 1..Len(p.a) : p.a[i] <= 31 THEN B32DecodeLoose(p.a) ELSE <<>>, padclass |-> PadClass(p.a)]
    [] p.kind = "b32enc" -> [kind |-> p.kind, bytes |-> p.a, text |-> B32Encode(p.a), back |-> B32Decode(B32Encode(p.a))]
    [] p.kind = "b62enc" -> [kind |-> p.kind, bytes |-> p.a, text |-> B62Encode(p.a), back |-> B62Decode(B62Encode(p.a))]
    [] p.kind = "b62dec" -> [kind |-> p.kind, text |-> p.a, strict |-> B62Decode(p.a), loose |-> B62DecodeLoose(p.a)]
    [] p.kind = "netsplit" -> [kind |-> p.kind, data |-> p.a, num |-> p.b[1], pos |-> p.b[2], has_trailer |-> p.b[3] = 1, trailer |-> p.c,
                               strict |-> SplitNetstring(p.a, p.b[1], p.b[2], p.b[3] = 1, p.c),
                               lenient |-> SplitNetstringLenient(p.a, p.b[1], p.b[2], p.b[3] = 1, p.c)]
    [] p.kind = "netenc" -> [kind |-> p.kind, bytes |-> p.a, enc |-> Netstring(p.a),
                             back |-> SplitNetstring(Netstring(p.a), 1, 0, TRUE, <<>>)]
    [] p.kind = "uebunpack" -> [kind |-> p.kind, data |-> p.a, strict |-> UebVerdict(p.a, FALSE), lenient |-> UebVerdict(p.a, TRUE)]
    [] p.kind = "uebpack" -> [kind |-> p.kind, items |-> p.a, ints |-> IntsOf(p.a, FALSE), enc |-> PackExtension(p.a),
                              back |-> UebVerdict(PackExtension(p.a), FALSE)]
    [] p.kind = "lease" -> LET lay == LeaseLayout(p.a[1])
                               rec == PackFields(lay, LeaseValue(p.b[1], p.b[2])) IN
                           [kind |-> p.kind, variant |-> p.a[1], value |-> LeaseValue(p.b[1], p.b[2]), enc |-> rec,
                            size |-> LayoutSize(lay), back |-> UnpackFields(lay, rec)]
    [] p.kind = "leasebad" -> LET lay == LeaseLayout(p.a[1])
                                  rec == PackFields(lay, LeaseValue(<<0, 0, 0, 1>>, <<0, 0, 0, 2>>))
                                  bad == IF p.b[1] = -1 THEN SubSeq(rec, 1, Len(rec) - 1) ELSE rec \o <<0>> IN
                              [kind |-> p.kind, variant |-> p.a[1], data |-> bad, strict |-> UnpackFields(lay, bad)]
    [] p.kind = "immheader" -> [kind |-> p.kind, version |-> p.a[1], max_size |-> p.b,
                                enc |-> PackFields(ImmutableHeader, [version |-> BE(p.a[1], 4), legacy_length |-> Saturate32(p.b), num_leases |-> BE(0, 4)])]
    [] p.kind = "mutheader" -> [kind |-> p.kind, version |-> p.a[1], nodeid |-> NodeId, write_enabler |-> WriteEnabler,
                                enc |-> PackFields(MutableHeader, MutHeaderValue(p.a[1])), size |-> LayoutSize(MutableHeader),
                                extra_lease_offset |-> MutableExtraLeaseOffset]

VARIABLE c
Init == (\E k \in Kinds : c \in CasesOf(k)) /\ PrintT(ToJson(Out(c)))
Next == UNCHANGED c
Spec == Init /\ [][Next]_c

(* ---- round-trip laws of the Spec itself, checked on every case ------------------------------ *)
C38_RoundTrip ==
  CASE c.kind = "b32enc" -> B32Decode(B32Encode(c.a)) = Accept(c.a)
    [] c.kind = "b62enc" -> B62Decode(B62Encode(c.a)) = Accept(c.a)
    [] c.kind = "netenc" -> SplitNetstring(Netstring(c.a), 1, 0, TRUE, <<>>).val = <<c.a>>
    [] c.kind = "uebpack" -> UnpackExtension(PackExtension(c.a)) = Accept(SortItems(ToSet(c.a)))
    [] c.kind = "lease" -> LET lay == LeaseLayout(c.a[1]) IN
                           UnpackFields(lay, PackFields(lay, LeaseValue(c.b[1], c.b[2]))).ok
    [] OTHER -> TRUE
\* a strict decoder accepts only canonical encodings: whatever it accepts re-encodes to the same text
C38_Canonical ==
  CASE c.kind = "b32dec" -> (B32Decode(c.a).ok => B32Encode(B32Decode(c.a).val) = c.a)
    [] c.kind = "b62dec" -> (B62Decode(c.a).ok => B62Encode(B62Decode(c.a).val) = c.a)
    [] c.kind = "netsplit" -> LET r == SplitNetstring(c.a, c.b[1], c.b[2], c.b[3] = 1, c.c) IN
                              (r.ok /\ c.b[3] = 1) =>
                                 SubSeq(c.a, c.b[2] + 1, Len(c.a)) = Concat([i \in 1..Len(r.val) |-> Netstring(r.val[i])]) \o c.c
    [] c.kind = "uebunpack" -> (UnpackExtension(c.a).ok => UnpackExtension(PackExtension(UnpackExtension(c.a).val)) = UnpackExtension(c.a))
    [] OTHER -> TRUE
\* the lenient reading extends the strict one
C38_LenientExtendsStrict ==
  CASE c.kind = "netsplit" -> LET s == SplitNetstring(c.a, c.b[1], c.b[2], c.b[3] = 1, c.c) IN
                              s.ok => SplitNetstringLenient(c.a, c.b[1], c.b[2], c.b[3] = 1, c.c) = s
    [] c.kind = "uebunpack" -> (UebVerdict(c.a, FALSE).ok => UebVerdict(c.a, TRUE) = UebVerdict(c.a, FALSE))
    [] OTHER -> TRUE
=============================================================================
