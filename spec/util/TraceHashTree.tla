--------------------------- MODULE TraceHashTree ---------------------------
(* Trace validation of a real allmydata.hashtree.IncompleteHashTree against
   HashTree.tla (C35).  Each trace (harness/hashtree_driver.py) is the history of
   one real tree: the shape of the real HashTree that produced the root, then
   calls of needed_hashes and set_hashes with the exception class and the whole
   node list read back after every call.  Real hashes are abstracted to the
   external notation of HashTree.tla by the driver (real HashTree node k ->
   <<"G",k>>, random bytes -> <<"F",j>>, pair_hash of known hashes -> <<"N",a,b>>). *)
EXTENDS HashTree, Json, IOUtils, TLCExt

Traces == JsonDeserialize(IOEnv.TRACE_FILE)

VARIABLES tid, l, T, bad
tvars == <<tid, l, T, bad>>

Events == Traces[tid].events
Ev == Events[l]
N == Traces[tid].consts.n

FnOf(pairs) == LET S == ToSet(pairs) IN
  [i \in {p[1] : p \in S} |-> Dec(N, (CHOOSE p \in S : p[1] = i)[2])]
TreeOf(seq) == [i \in Nodes(N) |-> Dec(N, seq[i + 1])]

V(c, s) == [c |-> c, s |-> s]

VShape(e) ==
  IF e.size # Size(N) \/ e.first_leaf # FirstLeaf(N) \/ Len(e.shape) # Size(N) THEN V("C35_tree_shape", T)
  ELSE IF \E i \in Nodes(N) : e.shape[i + 1] # GenuineShape(N, i) THEN V("C35_genuine_tree_padding", T)
  ELSE V("", T)

VNeeded(e) ==
  IF ToSet(e.res) # NeededHashes(N, T, e.leaf, e.incl) THEN V("C35_needed_hashes", T) ELSE V("", T)

VSet(e) ==
  LET r   == SetHashes(N, T, FnOf(e.hashes), FnOf(e.leaves))
      obs == TreeOf(e.tree)
  IN IF e.res = "ok" /\ "ok" \notin r.res THEN V("C35_Sound_accepted_what_the_Spec_rejects", T)
     ELSE IF e.res # "ok" /\ r.res = {"ok"} THEN V("C35_Complete_rejected_what_the_Spec_accepts", T)
     ELSE IF e.res # "ok" /\ obs # T THEN V("C35_Rollback_tree_changed_by_rejected_call", T)
     ELSE IF e.res \notin r.res THEN V("C35_exception_class", T)
     ELSE IF obs # r.tree THEN V("C35_tree_contents_after_accepted_call", T)
     ELSE V("", r.tree)

Verdict(e) ==
  CASE e.ev = "shape"  -> VShape(e)
    [] e.ev = "needed" -> VNeeded(e)
    [] e.ev = "set"    -> VSet(e)
    [] OTHER           -> V("unknown_event", T)

\* C35 on the states of a real execution that started from the trusted root
SoundState(t) == \A i \in Nodes(N) : t[i] # None => t[i] = Genuine(N, i)

TraceInit ==
  /\ tid \in 1..Len(Traces)
  /\ l = 1
  /\ T = EmptyTree(Traces[tid].consts.n)
  /\ bad = "none"

TraceNext ==
  /\ bad = "none"
  /\ l <= Len(Events)
  /\ LET v == Verdict(Ev)
         c == IF v.c # "" THEN v.c
              ELSE IF Traces[tid].consts.trusted_root /\ ~SoundState(v.s) THEN "C35_Sound_state" ELSE ""
     IN IF c = ""
          THEN /\ T' = v.s /\ l' = l + 1 /\ bad' = "none"
               /\ (l = Len(Events) => PrintT(<<"VF_ACCEPT", tid, l>>))
          ELSE /\ bad' = c /\ UNCHANGED <<T, l>>
               /\ PrintT(<<"VF_REJECT", tid, l, c>>)
  /\ UNCHANGED tid

TraceSpec == TraceInit /\ [][TraceNext]_tvars
TraceOK == bad = "none"
=============================================================================
