------------------------------ MODULE AsyncUtil ------------------------------
(* X-util_async: the small asynchronous utilities of allmydata.util that everything else relies on, as state
   machines over explicit state values.  For every component ("kind") there is
       <K>Init            the state of a fresh object,
       <K>Cmds(S)         the client calls / environment steps that may happen next (finite, for MC and -simulate),
       <K>Steps(S, c)     the SET of allowed results of command c in state S, each [st |-> next state, out |-> what a
                          client observes during the command]  (a set: where the documentation leaves a choice, e.g.
                          whether a late subscriber gets an already-fired Deferred or an eventual-send).
   MCAsyncUtil explores every interleaving of the commands; TraceAsyncUtil replays commands executed against the
   real classes on the virtual reactor and compares `out` after every step.

   Sources of the rules (docstrings / comments of the code, and callers):
   [obs-idiom]  util/observer.py module docstring: when_something() returns a Deferred that fires when it happens
   [obs-os]     OneShotObserverList "A one-shot event distributor": fire() asserts not fired; fire_if_not_fired();
                when_fired() after the event returns a fired Deferred
   [obs-ev]     immutable/downloader/finder.py:198-207 "the OneShotObserverList I was using inserts an eventual-send
                between ... To resolve this would require an immediate ObserverList instead of an eventual-send-based
                one": watchers are not run inside fire()
   [obs-lazy]   LazyOneShotObserverList docstring: retains a callable, called "if and when needed"; "once upon initial
                firing, and potentially once more for each subsequent when_fired()"; "if not, don't call result_producer"
   [obs-ol]     ObserverList "Immediately distribute events to a number of subscribers"; test_observer.py: reentrant
                (an observer may unsubscribe itself), an error in an earlier observer does not prevent later ones,
                KeyboardInterrupt escapes
   [obs-es]     EventStreamObserver "distribute multiple events to a single subscriber ... arbitrary kwargs";
                downloader/share.py get_block docstring; set_canceler "I will call c.METHNAME(self) when somebody
                cancels me", weak reference
   [poll]       util/pollmixin.py poll() comment: call check_f periodically until it returns True, then the Deferred
                fires; exception -> errback; no success within timeout= seconds -> errback; timeout=None forever
   [du-gather]  deferredutil.gatherResults docstring; _check_deferred_list comment (DeferredListShouldSucceed)
   [du-race]    deferredutil.race docstring and comments
   [du-timeout] deferredutil.timeout_call docstring
   [du-hook]    deferredutil.HookMixin docstrings
   [du-until]   deferredutil.until docstring
   [du-wait]    WaitForDelayedCallsMixin comments ("We're done when the only remaining DelayedCalls fire after threshold")
   [du-a2d]     async_to_deferred docstring ("Wrap an async function to return a Deferred instead") and test_deferredutil.py
   [du-ev]      eventually_callback / eventual_chain; _with_log docstring
   [cons]       util/consumer.py docstrings (MemoryConsumer.registerProducer comments, download_to_data)
   [dict]       util/dictutil.py docstrings (AuxValueDict, _TypedKeyDict); DictOfSets by its callers (a key is present
                iff its set is non-empty: mutable/servermap.py, immutable/upload.py) *)
EXTENDS Common

R(s, o) == [st |-> s, out |-> o]
Dev(s, o, cl) == [st |-> s, out |-> o, clause |-> cl]
Without(seq, x) == SelectSeq(seq, LAMBDA y : y # x)
AUFront(s) == SubSeq(s, 1, Len(s) - 1)
AULast(s) == s[Len(s)]
Has(seq, x) == \E i \in 1..Len(seq) : seq[i] = x
RECURSIVE SortedSeq(_)
SortedSeq(S) == IF S = {} THEN <<>> ELSE LET m == SetMin(S) IN <<m>> \o SortedSeq(S \ {m})
NoTimeout == -1
Put(f, k, v) == [x \in DOMAIN f \cup {k} |-> IF x = k THEN v ELSE f[x]]
Drop(f, k) == [x \in DOMAIN f \ {k} |-> f[x]]

Vals == {"a", "b"}
Errs == {"E1", "E2"}

(* ======================= OneShotObserverList / LazyOneShotObserverList [obs-os] [obs-ev] [obs-lazy] ============== *)
\* ws: watchers waiting for the event, q: notifications handed to the eventual-send queue, n: watchers created so far
\* (a watcher is named by its creation number), re: the watcher's callback subscribes one more watcher (as the unit
\* tests do); pmax / pneed: bounds of the number of calls of a lazy list's result producer.
OSInit(lazy) == [lazy |-> lazy, fired |-> FALSE, val |-> "", ws |-> <<>>, q |-> <<>>, n |-> 0, pmax |-> 0, pneed |-> FALSE]
OSOut(s, n) == [status |-> s, notified |-> n]
OSNote(w, v) == [w |-> w.id, v |-> v, re |-> w.re]
Lates == {"now", "turn"}

\* run the callbacks of the watchers in todo; a watcher created by a callback is a late subscriber: it is served
\* at once (late = "now") or by an eventual-send (in this turn if we are inside one, else queued)
RECURSIVE OSDeliver(_, _, _, _, _)
OSDeliver(S, todo, acc, late, inTurn) ==
  IF todo = <<>> THEN [st |-> S, notified |-> acc]
  ELSE LET w == Head(todo)
           acc1 == Append(acc, OSNote(w, S.val))
       IN IF ~w.re THEN OSDeliver(S, Tail(todo), acc1, late, inTurn)
          ELSE LET nw == [id |-> S.n + 1, re |-> FALSE]
                   S1 == [S EXCEPT !.n = S.n + 1, !.pmax = IF S.lazy THEN @ + 1 ELSE @]
               IN IF late = "now" THEN OSDeliver(S1, Tail(todo), Append(acc1, OSNote(nw, S.val)), late, inTurn)
                  ELSE IF inTurn THEN OSDeliver(S1, Append(Tail(todo), nw), acc1, late, inTurn)
                  ELSE OSDeliver([S1 EXCEPT !.q = Append(@, nw)], Tail(todo), acc1, late, inTurn)

OSFired(S, v) == [S EXCEPT !.fired = TRUE, !.val = v, !.ws = <<>>,
                           !.pmax = IF S.lazy /\ S.ws # <<>> THEN @ + 1 ELSE @, !.pneed = S.pneed \/ S.ws # <<>>]

OSSteps(S, c) ==
  CASE c.op = "sub" ->
         LET w == [id |-> S.n + 1, re |-> c.re]
             S1 == [S EXCEPT !.n = S.n + 1]
         IN IF ~S.fired THEN {R([S1 EXCEPT !.ws = Append(@, w)], OSOut("ok", <<>>))}
            ELSE LET S2 == [S1 EXCEPT !.pmax = IF S.lazy THEN @ + 1 ELSE @, !.pneed = TRUE] IN
                 {LET d == OSDeliver(S2, <<w>>, <<>>, "now", FALSE) IN R(d.st, OSOut("ok", d.notified))}
                 \cup {R([S2 EXCEPT !.q = Append(@, w)], OSOut("ok", <<>>))}
    [] c.op \in {"fire", "fire_if"} ->
         IF S.fired THEN {R(S, OSOut(IF c.op = "fire" THEN "refused" ELSE "ok", <<>>))}
         ELSE {R([OSFired(S, c.v) EXCEPT !.q = S.q \o S.ws], OSOut("ok", <<>>))}
    [] c.op = "turn" ->
         {LET d == OSDeliver([S EXCEPT !.q = <<>>], S.q, <<>>, late, TRUE) IN R(d.st, OSOut("ok", d.notified)) : late \in Lates}
    [] OTHER -> {}

\* the deviation of the code as it is: the watchers' callbacks run inside fire()
OSDevSteps(S, c) ==
  IF c.op \in {"fire", "fire_if"} /\ ~S.fired /\ S.ws # <<>>
  THEN {LET d == OSDeliver(OSFired(S, c.v), S.ws, <<>>, late, FALSE) IN Dev(d.st, OSOut("ok", d.notified), "OS_FireNotReentrant") : late \in Lates}
  ELSE {}

\* wide = FALSE: a smaller alphabet with the same rules (exhaustive MC), wide = TRUE: for -simulate
OSCmds(S, wide) == (IF S.n < (IF wide THEN 4 ELSE 3) THEN {[op |-> "sub", re |-> b] : b \in BOOLEAN} ELSE {})
             \cup (IF wide THEN {[op |-> o, v |-> v] : o \in {"fire", "fire_if"}, v \in Vals}
                           ELSE {[op |-> "fire", v |-> "a"], [op |-> "fire_if", v |-> "b"]})
             \cup {[op |-> "turn"]}

\* [obs-lazy] producer calls seen so far: none before somebody needs the result, at most one per delivery round
OSAuxOK(S, e) == ~S.lazy \/ (e.aux.pcalls >= (IF S.pneed THEN 1 ELSE 0) /\ e.aux.pcalls <= S.pmax)

(* ======================= ObserverList [obs-ol] ================================================================== *)
\* observers: "p" "q" record the call; "x" records and raises an Exception; "s" records and unsubscribes itself;
\* "k" records and raises KeyboardInterrupt
Observers == {"p", "q", "x", "s", "k"}
OLInit == [obs |-> <<>>]
OLOut(s, calls) == [status |-> s, calls |-> calls]
RECURSIVE OLRun(_, _, _, _)
OLRun(obs, todo, c, acc) ==
  IF todo = <<>> THEN [obs |-> obs, calls |-> acc, status |-> "ok"]
  ELSE LET o == Head(todo)
           acc1 == Append(acc, [o |-> o, v |-> c.v, kw |-> c.kw])
       IN IF o = "k" THEN [obs |-> obs, calls |-> acc1, status |-> "KeyboardInterrupt"]
          ELSE OLRun(IF o = "s" THEN Without(obs, "s") ELSE obs, Tail(todo), c, acc1)
OLSteps(S, c) ==
  CASE c.op = "sub" -> {R([S EXCEPT !.obs = Append(@, c.o)], OLOut("ok", <<>>))}
    [] c.op = "unsub" -> {R([S EXCEPT !.obs = Without(@, c.o)], OLOut("ok", <<>>))}
    [] c.op = "notify" -> {LET r == OLRun(S.obs, S.obs, c, <<>>) IN R([S EXCEPT !.obs = r.obs], OLOut(r.status, r.calls))}
    [] c.op = "turn" -> {R(S, OLOut("ok", <<>>))}     \* nothing is left for later
    [] OTHER -> {}
OLCmds(S, wide) == {[op |-> "sub", o |-> o] : o \in {x \in (IF wide THEN Observers ELSE Observers \ {"q"}) : ~Has(S.obs, x)}}
             \cup {[op |-> "unsub", o |-> o] : o \in ToSet(S.obs)}
             \cup (IF wide THEN {[op |-> "notify", v |-> v, kw |-> kw] : v \in {1, 2}, kw \in {"", "c"}}
                           ELSE {[op |-> "notify", v |-> 1, kw |-> ""], [op |-> "notify", v |-> 2, kw |-> "c"]})
             \cup {[op |-> "turn"]}

(* ======================= EventStreamObserver [obs-es] =========================================================== *)
\* und: events that arrived before subscribe(), q: eventual-send queue, canc: the canceller object ("unset", "alive",
\* "dead" = garbage collected), cnt: events so far (an event is named by its number)
ESInit == [sub |-> FALSE, tag |-> "", und |-> <<>>, q |-> <<>>, canc |-> "unset", cnt |-> 0]
ESOut(d, n) == [delivered |-> d, cancels |-> n]
ESMerge(ev, wtag) == [v |-> ev.v, tag |-> IF wtag # "" THEN wtag ELSE ev.tag]
ESSteps(S, c) ==
  CASE c.op = "notify" ->
         LET ev == [v |-> S.cnt + 1, tag |-> c.tag] S1 == [S EXCEPT !.cnt = @ + 1] IN
         {R(IF S.sub THEN [S1 EXCEPT !.q = Append(@, ESMerge(ev, S.tag))] ELSE [S1 EXCEPT !.und = Append(@, ev)], ESOut(<<>>, 0))}
    [] c.op = "subscribe" ->
         {R([S EXCEPT !.sub = TRUE, !.tag = c.tag, !.und = <<>>, !.q = S.q \o [i \in 1..Len(S.und) |-> ESMerge(S.und[i], c.tag)]], ESOut(<<>>, 0))}
    [] c.op = "turn" -> {R([S EXCEPT !.q = <<>>], ESOut(S.q, 0))}
    [] c.op = "set_canceler" -> {R([S EXCEPT !.canc = "alive"], ESOut(<<>>, 0))}
    [] c.op = "drop_canceler" -> {R([S EXCEPT !.canc = "dead"], ESOut(<<>>, 0))}
    [] c.op = "cancel" -> {R(S, ESOut(<<>>, IF S.canc = "alive" THEN 1 ELSE 0))}
    [] OTHER -> {}
ESCmds(S) == {[op |-> "notify", tag |-> t] : t \in {"", "t"}} \cup {[op |-> "turn"]}
             \cup (IF S.canc # "alive" THEN {[op |-> "set_canceler"]} ELSE {})
             \cup (IF S.sub THEN {} ELSE {[op |-> "subscribe", tag |-> t] : t \in {"", "w"}})
             \cup (IF S.canc = "alive" THEN {[op |-> "drop_canceler"]} ELSE {})
             \cup (IF S.canc # "unset" THEN {[op |-> "cancel"]} ELSE {})

(* ======================= PollMixin.poll [poll] ================================================================== *)
\* time in whole seconds; a tick is one second; every poll has its own check function whose answer ("false", "true",
\* "raise") the environment sets
PMInit == [now |-> 0, polls |-> <<>>]
PMPollOnce(p, now) ==
  IF p.status # "pending" THEN [p |-> p, called |-> 0]
  ELSE IF p.timeout # NoTimeout /\ now > p.start + p.timeout THEN [p |-> [p EXCEPT !.status = "TimeoutError"], called |-> 0]
  ELSE [p |-> [p EXCEPT !.status = CASE p.mode = "true" -> "ok" [] p.mode = "raise" -> "ValueError" [] OTHER -> "pending"], called |-> 1]
PMView(P, called) == [p \in DOMAIN P |-> [called |-> called[p], status |-> P[p].status]]
PMDue(p, now) == p.status = "pending" /\ (now - p.start) % p.interval = 0
PMSteps(S, c) ==
  CASE c.op = "start" ->
         LET r == PMPollOnce([start |-> S.now, interval |-> c.interval, timeout |-> c.timeout, mode |-> c.mode, status |-> "pending"], S.now)
             P == Put(S.polls, c.id, r.p)
         IN {R([S EXCEPT !.polls = P], PMView(P, [p \in DOMAIN P |-> IF p = c.id THEN r.called ELSE 0]))}
    [] c.op = "set" -> {R([S EXCEPT !.polls[c.id].mode = c.mode], PMView(S.polls, [p \in DOMAIN S.polls |-> 0]))}
    [] c.op = "tick" ->
         LET t == S.now + 1
             rr == [p \in DOMAIN S.polls |-> IF PMDue(S.polls[p], t) THEN PMPollOnce(S.polls[p], t) ELSE [p |-> S.polls[p], called |-> 0]]
             P == [p \in DOMAIN S.polls |-> rr[p].p]
         IN {R([S EXCEPT !.now = t, !.polls = P], PMView(P, [p \in DOMAIN P |-> rr[p].called]))}
    [] OTHER -> {}
PMCmds(S, wide) == LET nid == IF DOMAIN S.polls = {} THEN "p1" ELSE "p2" IN
             (IF Cardinality(DOMAIN S.polls) < 2
                THEN {[op |-> "start", id |-> nid, interval |-> i, timeout |-> t, mode |-> m] : i \in {1, 2},
                         t \in (IF wide THEN {NoTimeout, 0, 1, 2, 3} ELSE {NoTimeout, 0, 1, 2}), m \in (IF wide THEN {"false", "true", "raise"} ELSE {"false", "true"})}
                ELSE {})
             \cup {[op |-> "set", id |-> p, mode |-> m] : p \in {x \in DOMAIN S.polls : S.polls[x].status = "pending"}, m \in {"false", "true", "raise"}}
             \cup {[op |-> "tick"]}

(* ======================= gatherResults / DeferredListShouldSucceed [du-gather] ================================== *)
GAInit(flavor) == [flavor |-> flavor, made |-> FALSE, ins |-> <<>>, status |-> "pending", vals |-> <<>>, err |-> ""]
GAOut(S) == IF S.flavor = "gather" THEN [status |-> S.status, vals |-> S.vals, err |-> S.err, leaked |-> 0]
            ELSE [status |-> S.status, vals |-> S.vals, err |-> S.err]
GAAllOk(ins) == \A i \in 1..Len(ins) : ins[i].st = "ok"
GAAllDone(ins) == \A i \in 1..Len(ins) : ins[i].st # "p"
GAValsOf(ins) == [i \in 1..Len(ins) |-> ins[i].v]
GAFirstFail(ins) == ins[SetMin({i \in 1..Len(ins) : ins[i].st = "fail"})].v
GASettle(S) ==
  IF S.status # "pending" THEN S
  ELSE IF S.flavor = "gather"
    THEN IF GAAllOk(S.ins) THEN [S EXCEPT !.status = "ok", !.vals = GAValsOf(S.ins)] ELSE S
    ELSE IF ~GAAllDone(S.ins) THEN S
         ELSE IF GAAllOk(S.ins) THEN [S EXCEPT !.status = "ok", !.vals = GAValsOf(S.ins)]
         ELSE [S EXCEPT !.status = "fail", !.err = GAFirstFail(S.ins)]
GASteps(S, c) ==
  CASE c.op = "make" -> {LET S1 == GASettle([S EXCEPT !.made = TRUE, !.ins = [i \in 1..c.n |-> [st |-> "p", v |-> ""]]]) IN R(S1, GAOut(S1))}
    [] c.op = "cb" -> {LET S1 == GASettle([S EXCEPT !.ins[c.i] = [st |-> "ok", v |-> c.v]]) IN R(S1, GAOut(S1))}
    [] c.op = "eb" -> {LET S0 == [S EXCEPT !.ins[c.i] = [st |-> "fail", v |-> c.e]]
                           S1 == IF S.flavor = "gather" /\ S.status = "pending" THEN [S0 EXCEPT !.status = "fail", !.err = c.e] ELSE GASettle(S0)
                       IN R(S1, GAOut(S1))}
    [] OTHER -> {}
GACmds(S) == IF ~S.made THEN {[op |-> "make", n |-> n] : n \in 0..3}
             ELSE LET P == {i \in 1..Len(S.ins) : S.ins[i].st = "p"} IN
                  {[op |-> "cb", i |-> i, v |-> v] : i \in P, v \in Vals} \cup {[op |-> "eb", i |-> i, e |-> e] : i \in P, e \in Errs}

(* ======================= race [du-race] ========================================================================= *)
\* input kinds: "plain" (its canceller only counts, so the Deferred then fails with CancelledError), "stubborn" (its
\* canceller fires it with the success value "sv": "one of the input Deferreds has a cancellation function that fires
\* the Deferred with a success result")
RAInit == [made |-> FALSE, ins |-> <<>>, status |-> "pending", idx |-> 0, v |-> "", errs |-> <<>>]
RAOut(S) == [status |-> S.status, idx |-> S.idx, v |-> S.v, errs |-> S.errs, ncancel |-> [i \in 1..Len(S.ins) |-> S.ins[i].nc]]
RACancelOne(inp) == IF inp.st # "p" THEN inp
                    ELSE [inp EXCEPT !.nc = @ + 1, !.st = IF inp.kind = "stubborn" THEN "ok" ELSE "fail", !.e = IF inp.kind = "stubborn" THEN "" ELSE "CancelledError"]
RAAllFailed(ins) == \A i \in 1..Len(ins) : ins[i].st = "fail"
RAWin(S, i, v) == [S EXCEPT !.status = "ok", !.idx = i, !.v = v, !.ins = [j \in 1..Len(S.ins) |-> IF j = i THEN S.ins[j] ELSE RACancelOne(S.ins[j])]]
RALose(S) == IF S.status = "pending" /\ RAAllFailed(S.ins) THEN [S EXCEPT !.status = "MultiFailure", !.errs = [j \in 1..Len(S.ins) |-> S.ins[j].e]] ELSE S
\* cancelling the result cancels the inputs one after the other
RECURSIVE RACancelFrom(_, _)
RACancelFrom(S, i) ==
  IF i > Len(S.ins) THEN S
  ELSE IF S.ins[i].st # "p" THEN RACancelFrom(S, i + 1)
  ELSE LET S1 == [S EXCEPT !.ins[i] = RACancelOne(S.ins[i])] IN
       IF S.ins[i].kind = "stubborn" /\ S.status = "pending" THEN RACancelFrom(RAWin(S1, i, "sv"), i + 1)
       ELSE RACancelFrom(RALose(S1), i + 1)
RASteps(S, c) ==
  CASE c.op = "make" -> {LET S1 == [S EXCEPT !.made = TRUE, !.ins = [i \in 1..Len(c.kinds) |-> [kind |-> c.kinds[i], st |-> "p", nc |-> 0, e |-> ""]]] IN R(S1, RAOut(S1))}
    [] c.op = "cb" -> {LET S0 == [S EXCEPT !.ins[c.i].st = "ok"]
                           S1 == IF S.status = "pending" THEN RAWin(S0, c.i, c.v) ELSE S0 IN R(S1, RAOut(S1))}
    [] c.op = "eb" -> {LET S1 == RALose([S EXCEPT !.ins[c.i].st = "fail", !.ins[c.i].e = c.e]) IN R(S1, RAOut(S1))}
    [] c.op = "cancel" -> {LET S1 == IF S.status = "pending" THEN RACancelFrom(S, 1) ELSE S IN R(S1, RAOut(S1))}
    [] OTHER -> {}
RAKindSeqs == UNION {[1..n -> {"plain", "stubborn"}] : n \in 1..3}
RACmds(S) == IF ~S.made THEN {[op |-> "make", kinds |-> ks] : ks \in RAKindSeqs}
             ELSE LET P == {i \in 1..Len(S.ins) : S.ins[i].st = "p"} IN
                  {[op |-> "cb", i |-> i, v |-> v] : i \in P, v \in Vals} \cup {[op |-> "eb", i |-> i, e |-> e] : i \in P, e \in Errs}
                  \cup {[op |-> "cancel"]}

(* ======================= timeout_call [du-timeout] ============================================================== *)
TOInit == [made |-> FALSE, now |-> 0, T |-> 0, din |-> "p", status |-> "pending", v |-> "", timers |-> 0]
TOOut(S) == [status |-> S.status, v |-> S.v, timers |-> S.timers]
TOSteps(S, c) ==
  CASE c.op = "make" -> {LET S1 == [S EXCEPT !.made = TRUE, !.T = S.now + c.timeout, !.timers = 1] IN R(S1, TOOut(S1))}
    [] c.op \in {"cb", "eb"} ->
         {LET S0 == [S EXCEPT !.din = "done"]
              S1 == IF S.status = "pending" THEN [S0 EXCEPT !.status = IF c.op = "cb" THEN "ok" ELSE "fail", !.v = IF c.op = "cb" THEN c.v ELSE c.e, !.timers = 0] ELSE S0
          IN R(S1, TOOut(S1))}
    [] c.op = "tick" ->
         {LET S0 == [S EXCEPT !.now = @ + 1]
              S1 == IF S.status = "pending" /\ S0.now >= S.T THEN [S0 EXCEPT !.status = "TimeoutError", !.timers = 0] ELSE S0
          IN R(S1, TOOut(S1))}
    [] OTHER -> {}
TOCmds(S) == IF ~S.made THEN {[op |-> "make", timeout |-> t] : t \in {1, 2}}
             ELSE (IF S.din = "p" THEN {[op |-> "cb", v |-> v] : v \in Vals} \cup {[op |-> "eb", e |-> e] : e \in Errs} ELSE {})
                  \cup {[op |-> "tick"]}

(* ======================= HookMixin [du-hook] ==================================================================== *)
\* hooks "a" and "b" are valid names ("zz" is not); a hook is unset or holds (Deferred number, ignore_count)
HookNames == {"a", "b"}
HKInit == [hooks |-> [h \in HookNames |-> [set |-> FALSE, d |-> 0, ign |-> 0]], nd |-> 0, q |-> <<>>]
HKOut(s, ret, fired) == [status |-> s, ret |-> ret, fired |-> fired]
HKSteps(S, c) ==
  CASE c.op = "set" ->
         IF c.name \notin HookNames \/ c.ign < 0 \/ S.hooks[c.name].set THEN {R(S, HKOut("refused", "", <<>>))}
         ELSE {R([S EXCEPT !.hooks[c.name] = [set |-> TRUE, d |-> S.nd + 1, ign |-> c.ign], !.nd = @ + 1], HKOut("ok", "", <<>>))}
    [] c.op = "call" ->
         LET h == S.hooks[c.name] IN
         IF ~h.set THEN {R(S, HKOut("ok", c.res, <<>>))}
         ELSE IF h.ign > 0 THEN {R([S EXCEPT !.hooks[c.name].ign = @ - 1], HKOut("ok", c.res, <<>>))}
         ELSE LET S1 == [S EXCEPT !.hooks[c.name].set = FALSE] f == [d |-> h.d, res |-> c.res] IN
              IF c.async THEN {R([S1 EXCEPT !.q = Append(@, f)], HKOut("ok", c.res, <<>>))}
              ELSE {R(S1, HKOut("ok", c.res, <<f>>))}
    [] c.op = "turn" -> {R([S EXCEPT !.q = <<>>], HKOut("ok", "", S.q))}
    [] OTHER -> {}
HKCmds(S, wide) ==
  (IF wide THEN {[op |-> "set", name |-> n, ign |-> i] : n \in HookNames \cup {"zz"}, i \in {-1, 0, 1, 2}}
                \cup {[op |-> "call", name |-> n, res |-> r, async |-> a] : n \in HookNames, r \in {"a", "F:E1"}, a \in BOOLEAN}
           ELSE {[op |-> "set", name |-> "a", ign |-> i] : i \in {-1, 0, 1}} \cup {[op |-> "set", name |-> n, ign |-> 0] : n \in {"b", "zz"}}
                \cup {[op |-> "call", name |-> "a", res |-> "a", async |-> a] : a \in BOOLEAN}
                \cup {[op |-> "call", name |-> "a", res |-> "F:E1", async |-> FALSE], [op |-> "call", name |-> "b", res |-> "a", async |-> FALSE]})
  \cup {[op |-> "turn"]}

(* ======================= until [du-until] ======================================================================= *)
\* pat[k] says what the k-th call of the action does: "s" returns a plain value, "a" returns a Deferred (answered by
\* the environment), "x" raises E1; beyond the pattern "a".  The condition is "the action has been called K times".
UNInit == [made |-> FALSE, K |-> 0, pat |-> <<>>, calls |-> 0, waiting |-> FALSE, status |-> "pending"]
UNOut(S) == [calls |-> S.calls, status |-> S.status]
UNPat(S, k) == IF k <= Len(S.pat) THEN S.pat[k] ELSE "a"
RECURSIVE UNLoop(_)
UNLoop(S) ==   \* call the action
  LET k == S.calls + 1 S1 == [S EXCEPT !.calls = k] IN
  CASE UNPat(S, k) = "x" -> [S1 EXCEPT !.status = "E1"]
    [] UNPat(S, k) = "a" -> [S1 EXCEPT !.waiting = TRUE]
    [] OTHER -> IF k >= S.K THEN [S1 EXCEPT !.status = "ok"] ELSE UNLoop(S1)
UNSteps(S, c) ==
  CASE c.op = "start" -> {LET S1 == UNLoop([S EXCEPT !.made = TRUE, !.K = c.K, !.pat = c.pat]) IN R(S1, UNOut(S1))}
    [] c.op = "complete" ->
         {LET S0 == [S EXCEPT !.waiting = FALSE]
              S1 == IF ~c.ok THEN [S0 EXCEPT !.status = "E2"] ELSE IF S.calls >= S.K THEN [S0 EXCEPT !.status = "ok"] ELSE UNLoop(S0)
          IN R(S1, UNOut(S1))}
    [] OTHER -> {}
UNCmds(S) == IF ~S.made THEN {[op |-> "start", K |-> k, pat |-> p] : k \in 1..3, p \in [1..3 -> {"s", "a", "x"}]}
             ELSE IF S.waiting THEN {[op |-> "complete", ok |-> b] : b \in BOOLEAN} ELSE {}

(* ======================= eventually_callback / eventual_chain [du-ev] =========================================== *)
\* a source Deferred chained to a target: the target fires with the same result in a later turn, never inside the
\* source's callback chain; the source's own chain sees the result unchanged
ECInit == [src |-> "p", q |-> <<>>, tgt |-> "pending", tv |-> ""]
ECOut(S, pass) == [target |-> S.tgt, tv |-> S.tv, pass |-> pass]
ECSteps(S, c) ==
  CASE c.op \in {"cb", "eb"} -> {LET x == IF c.op = "cb" THEN c.v ELSE c.e
                                     S1 == [S EXCEPT !.src = "done", !.q = <<[st |-> IF c.op = "cb" THEN "ok" ELSE "fail", v |-> x]>>]
                                 IN R(S1, ECOut(S1, x))}
    [] c.op = "turn" -> {LET S1 == IF S.q = <<>> THEN S ELSE [S EXCEPT !.q = <<>>, !.tgt = S.q[1].st, !.tv = S.q[1].v] IN R(S1, ECOut(S1, ""))}
    [] OTHER -> {}
ECCmds(S) == (IF S.src = "p" THEN {[op |-> "cb", v |-> v] : v \in Vals} \cup {[op |-> "eb", e |-> e] : e \in Errs} ELSE {}) \cup {[op |-> "turn"]}

(* ======================= MemoryConsumer / download_to_data [cons] =============================================== *)
\* node: "push" (streaming producer: resumed once, writes on its own), "pull" (one chunk per resumeProducing),
\* "literal" (a real LiteralFileNode); size NoSize = None = to the end
NoSize == -1
CNInit == [n |-> 0]
CNSlice(data, off, size) == IF size = NoSize THEN ReadAt(data, off, Len(data)) ELSE ReadAt(data, off, size)
CNSteps(S, c) ==
  CASE c.op = "download" ->
         LET d == CNSlice(c.data, c.offset, c.size)
             chunks == DivCeil(Len(d), c.chunk)
         IN {R([S EXCEPT !.n = @ + 1], [status |-> "ok", data |-> d,
                                        resumes |-> CASE c.node = "push" -> 1 [] c.node = "pull" -> Max(1, chunks) [] OTHER -> 0])}
    [] OTHER -> {}
CNDatas == {<<>>, <<7>>, <<1, 2, 3>>, <<1, 2, 3, 4, 5>>}
CNCmds(S) == {[op |-> "download", node |-> nd, data |-> d, chunk |-> ch, offset |-> o, size |-> s] :
                nd \in {"push", "pull", "literal"}, d \in CNDatas, ch \in {1, 2}, o \in {0, 1, 3, 6}, s \in {NoSize, 0, 2, 9}}

(* ======================= DictOfSets [dict] ====================================================================== *)
\* two objects "d" and "o"; content = function key -> non-empty set
DSKeys == {"k1", "k2"}
DSVals == {1, 2, 3}
DSInit == [d |-> <<>>, o |-> <<>>]
DSView(D) == [k \in DOMAIN D |-> SortedSeq(D[k])]
DSOut(S) == [d |-> DSView(S.d), o |-> DSView(S.o)]
DSAdd(D, k, v) == Put(D, k, (IF k \in DOMAIN D THEN D[k] ELSE {}) \cup {v})
DSDiscard(D, k, v) == IF k \notin DOMAIN D THEN D ELSE IF D[k] \ {v} = {} THEN Drop(D, k) ELSE Put(D, k, D[k] \ {v})
DSUpdate(D, O) == [k \in DOMAIN D \cup DOMAIN O |-> (IF k \in DOMAIN D THEN D[k] ELSE {}) \cup (IF k \in DOMAIN O THEN O[k] ELSE {})]
DSOther(t) == IF t = "d" THEN "o" ELSE "d"
DSSteps(S, c) ==
  CASE c.op = "add" -> {LET S1 == [S EXCEPT ![c.t] = DSAdd(@, c.k, c.v)] IN R(S1, DSOut(S1))}
    [] c.op = "discard" -> {LET S1 == [S EXCEPT ![c.t] = DSDiscard(@, c.k, c.v)] IN R(S1, DSOut(S1))}
    [] c.op = "update" -> {LET S1 == [S EXCEPT ![c.t] = DSUpdate(@, S[DSOther(c.t)])] IN R(S1, DSOut(S1))}
    [] OTHER -> {}
DSCmds(S, wide) ==
  (IF wide THEN {[op |-> o, t |-> t, k |-> k, v |-> v] : o \in {"add", "discard"}, t \in {"d", "o"}, k \in DSKeys, v \in DSVals}
           ELSE {[op |-> o, t |-> "d", k |-> k, v |-> v] : o \in {"add", "discard"}, k \in DSKeys, v \in {1, 2}}
                \cup {[op |-> "add", t |-> "o", k |-> "k1", v |-> v] : v \in {1, 3}} \cup {[op |-> "discard", t |-> "o", k |-> "k1", v |-> 1]})
  \cup {[op |-> "update", t |-> t] : t \in {"d", "o"}}

(* ======================= AuxValueDict [dict] ==================================================================== *)
\* main: key -> value, aux: key -> auxvalue or "none"; ctor: keys that came in through the constructor and were not
\* assigned since (only needed to name the deviation of the code as it is)
AVKeys == {"k1", "k2"}
AVInit == [made |-> FALSE, main |-> <<>>, aux |-> <<>>, ctor |-> {}]
AVOut(S, s, res) == [status |-> s, res |-> res, main |-> S.main,
                     aux |-> [k \in AVKeys |-> IF k \in DOMAIN S.main THEN S.aux[k] ELSE "none"]]
AVSteps(S, c) ==
  CASE c.op = "new" -> {LET ks == ToSet(c.keys)
                            S1 == [S EXCEPT !.made = TRUE, !.main = [k \in ks |-> "v0"], !.aux = [k \in ks |-> "none"], !.ctor = ks] IN R(S1, AVOut(S1, "ok", ""))}
    [] c.op = "set" -> {LET S1 == [S EXCEPT !.main = Put(@, c.k, c.v), !.aux = Put(@, c.k, "none"), !.ctor = @ \ {c.k}] IN R(S1, AVOut(S1, "ok", ""))}
    [] c.op = "setaux" -> {LET S1 == [S EXCEPT !.main = Put(@, c.k, c.v), !.aux = Put(@, c.k, c.a), !.ctor = @ \ {c.k}] IN R(S1, AVOut(S1, "ok", ""))}
    [] c.op = "del" -> IF c.k \notin DOMAIN S.main THEN {R(S, AVOut(S, "KeyError", ""))}
                       ELSE {LET S1 == [S EXCEPT !.main = Drop(@, c.k), !.aux = Drop(@, c.k), !.ctor = @ \ {c.k}] IN R(S1, AVOut(S1, "ok", ""))}
    [] c.op = "get" -> IF c.k \notin DOMAIN S.main THEN {R(S, AVOut(S, "KeyError", ""))} ELSE {R(S, AVOut(S, "ok", S.main[c.k]))}
    [] c.op = "getaux" -> {R(S, AVOut(S, "ok", IF c.k \in DOMAIN S.main THEN S.aux[c.k] ELSE "none"))}
    [] OTHER -> {}
\* the code as it is: deleting a key that came in through the constructor removes the value and then raises KeyError
AVDevSteps(S, c) ==
  IF c.op = "del" /\ c.k \in S.ctor
  THEN {LET S1 == [S EXCEPT !.main = Drop(@, c.k), !.aux = Drop(@, c.k), !.ctor = @ \ {c.k}] IN Dev(S1, AVOut(S1, "KeyError", ""), "AV_DelBehavesLikeDict")}
  ELSE {}
AVCmds(S, wide) == IF ~S.made THEN {[op |-> "new", keys |-> ks] : ks \in (IF wide THEN {<<>>, <<"k1">>, <<"k2">>, <<"k1", "k2">>} ELSE {<<>>, <<"k1">>, <<"k1", "k2">>})}
             ELSE {[op |-> "set", k |-> k, v |-> v] : k \in AVKeys, v \in (IF wide THEN {"v1", "v2"} ELSE {"v2"})}
                  \cup {[op |-> "setaux", k |-> k, v |-> v, a |-> a] : k \in AVKeys, v \in {"v1"}, a \in {"x1", "x2"}}
                  \cup {[op |-> o, k |-> k] : o \in {"del", "get", "getaux"}, k \in AVKeys}

(* ======================= BytesKeyDict / UnicodeKeyDict [dict] =================================================== *)
\* keys "s1" "s2" stand for str keys, "b1" "b2" for bytes keys
TKKeys == {"s1", "s2", "b1"}
TKIsStr(k) == k \in {"s1", "s2"}
TKGood(S, k) == IF S.flavor = "unicode" THEN TKIsStr(k) ELSE ~TKIsStr(k)
TKInit == [made |-> FALSE, dead |-> FALSE, flavor |-> "", m |-> <<>>]
TKOut(S, s, res) == [status |-> s, res |-> res, content |-> S.m]
TKSteps(S, c) ==
  CASE c.op = "new" -> LET S0 == [S EXCEPT !.made = TRUE, !.flavor = c.flavor] IN
                       IF \A k \in ToSet(c.keys) : TKGood(S0, k) THEN {LET S1 == [S0 EXCEPT !.m = [k \in ToSet(c.keys) |-> "v0"]] IN R(S1, TKOut(S1, "ok", ""))}
                       ELSE {LET S1 == [S0 EXCEPT !.dead = TRUE] IN R(S1, TKOut(S1, "TypeError", ""))}
    [] ~TKGood(S, c.k) -> {R(S, TKOut(S, "TypeError", ""))}
    [] c.op = "set" -> {LET S1 == [S EXCEPT !.m = Put(@, c.k, c.v)] IN R(S1, TKOut(S1, "ok", ""))}
    [] c.op = "getitem" -> IF c.k \in DOMAIN S.m THEN {R(S, TKOut(S, "ok", S.m[c.k]))} ELSE {R(S, TKOut(S, "KeyError", ""))}
    [] c.op = "get" -> {R(S, TKOut(S, "ok", IF c.k \in DOMAIN S.m THEN S.m[c.k] ELSE "none"))}
    [] c.op = "setdefault" -> IF c.k \in DOMAIN S.m THEN {R(S, TKOut(S, "ok", S.m[c.k]))}
                              ELSE {LET S1 == [S EXCEPT !.m = Put(@, c.k, c.v)] IN R(S1, TKOut(S1, "ok", c.v))}
    [] c.op = "del" -> IF c.k \in DOMAIN S.m THEN {LET S1 == [S EXCEPT !.m = Drop(@, c.k)] IN R(S1, TKOut(S1, "ok", ""))}
                       ELSE {R(S, TKOut(S, "KeyError", ""))}
    [] OTHER -> {}
TKCmds(S) == IF ~S.made THEN {[op |-> "new", flavor |-> f, keys |-> ks] : f \in {"unicode", "bytes"}, ks \in {<<>>, <<"s1">>, <<"b1">>, <<"s1", "b1">>}}
             ELSE IF S.dead THEN {}
             ELSE {[op |-> o, k |-> k, v |-> v] : o \in {"set", "setdefault"}, k \in TKKeys, v \in {"v1", "v2"}}
                  \cup {[op |-> o, k |-> k] : o \in {"getitem", "get", "del"}, k \in TKKeys}

(* ======================= async_to_deferred [du-a2d] ============================================================= *)
\* the wrapped coroutine function: mode "ret" returns "r", "raise" raises E1, "await" awaits an input Deferred and returns
\* "r:" + its result (a failure of the input propagates).  The wrapper returns a Deferred, and the body starts at once.
A2Init == [made |-> FALSE, waiting |-> FALSE, status |-> "none", v |-> ""]
A2Out(S) == [isdeferred |-> TRUE, started |-> TRUE, status |-> S.status, v |-> S.v]
A2Steps(S, c) ==
  CASE c.op = "call" -> {LET S1 == CASE c.mode = "ret" -> [S EXCEPT !.made = TRUE, !.status = "ok", !.v = "r"]
                                     [] c.mode = "raise" -> [S EXCEPT !.made = TRUE, !.status = "fail", !.v = "E1"]
                                     [] OTHER -> [S EXCEPT !.made = TRUE, !.waiting = TRUE, !.status = "pending"]
                         IN R(S1, A2Out(S1))}
    [] c.op = "cb" -> {LET S1 == [S EXCEPT !.waiting = FALSE, !.status = "ok", !.v = "r:" \o c.v] IN R(S1, A2Out(S1))}
    [] c.op = "eb" -> {LET S1 == [S EXCEPT !.waiting = FALSE, !.status = "fail", !.v = c.e] IN R(S1, A2Out(S1))}
    [] OTHER -> {}
A2Cmds(S) == IF ~S.made THEN {[op |-> "call", mode |-> m] : m \in {"ret", "raise", "await"}}
             ELSE IF S.waiting THEN {[op |-> "cb", v |-> v] : v \in Vals} \cup {[op |-> "eb", e |-> e] : e \in Errs} ELSE {}

(* ======================= WaitForDelayedCallsMixin [du-wait] ===================================================== *)
\* time in whole seconds; calls: the times of the pending DelayedCalls; one wait_for_delayed_calls(res) at a time (its
\* poll runs every 0.01 s, i.e. "all the time" at this resolution).  "We're done when the only remaining DelayedCalls
\* fire after threshold" (now + 10 s).  Whether the poll hits a whole second exactly is left open (sure / maybe).
WDInit == [now |-> 0, calls |-> {}, w |-> "none", res |-> ""]
WDOut(S) == [status |-> S.w, v |-> IF S.w = "ok" THEN S.res ELSE IF S.w = "fail" THEN "E1" ELSE ""]
WDDone(S) == [S EXCEPT !.w = IF S.res = "F:E1" THEN "fail" ELSE "ok"]
WDFreeUnit(P, n) == \A c \in P : ~(n + 1 <= c /\ c <= n + 10)        \* every instant of (n, n+1] is free
WDFreeInstant(P, n) == \A c \in P : c <= n \/ c >= n + 10              \* the instant n is free
WDSteps(S, c) ==
  CASE c.op = "later" -> {LET S1 == [S EXCEPT !.calls = @ \cup {S.now + c.dt}] IN R(S1, WDOut(S1))}
    [] c.op = "wait" -> {LET S1 == [S EXCEPT !.res = c.res, !.w = "pending"]
                             S2 == IF \A x \in S.calls : x >= S.now + 10 THEN WDDone(S1) ELSE S1 IN R(S2, WDOut(S2))}
    [] c.op = "tick" ->
         LET t == S.now + c.dt
             S1 == [S EXCEPT !.now = t, !.calls = {x \in @ : x > t}]
             sure == \E n \in S.now..(t - 1) : WDFreeUnit(S.calls, n)
             maybe == \E n \in (S.now + 1)..t : WDFreeInstant(S.calls, n)
         IN IF S.w # "pending" THEN {R(S1, WDOut(S1))}
            ELSE (IF sure \/ maybe THEN {R(WDDone(S1), WDOut(WDDone(S1)))} ELSE {}) \cup (IF ~sure THEN {R(S1, WDOut(S1))} ELSE {})
    [] OTHER -> {}
WDCmds(S) == {[op |-> "later", dt |-> d] : d \in {3, 8, 12}} \cup {[op |-> "tick", dt |-> d] : d \in {1, 5}}
             \cup (IF S.w = "none" THEN {[op |-> "wait", res |-> r] : r \in {"a", "F:E1"}} ELSE {})

(* ======================= dispatch =============================================================================== *)
AllKinds == {"oneshot", "lazy", "obslist", "stream", "poll", "gather", "dlss", "race", "timeout", "hook", "until",
             "evchain", "a2d", "waitdc", "consumer", "dictofsets", "auxdict", "typedkeys"}
InitSt(k) ==
  CASE k = "oneshot" -> OSInit(FALSE) [] k = "lazy" -> OSInit(TRUE) [] k = "obslist" -> OLInit [] k = "stream" -> ESInit
    [] k = "poll" -> PMInit [] k = "gather" -> GAInit("gather") [] k = "dlss" -> GAInit("dlss") [] k = "race" -> RAInit
    [] k = "timeout" -> TOInit [] k = "hook" -> HKInit [] k = "until" -> UNInit [] k = "evchain" -> ECInit
    [] k = "a2d" -> A2Init [] k = "waitdc" -> WDInit
    [] k = "consumer" -> CNInit [] k = "dictofsets" -> DSInit [] k = "auxdict" -> AVInit [] k = "typedkeys" -> TKInit
Cmds(k, S, wide) ==
  CASE k \in {"oneshot", "lazy"} -> OSCmds(S, wide) [] k = "obslist" -> OLCmds(S, wide) [] k = "stream" -> ESCmds(S)
    [] k = "poll" -> PMCmds(S, wide) [] k \in {"gather", "dlss"} -> GACmds(S) [] k = "race" -> RACmds(S)
    [] k = "timeout" -> TOCmds(S) [] k = "hook" -> HKCmds(S, wide) [] k = "until" -> UNCmds(S) [] k = "evchain" -> ECCmds(S)
    [] k = "a2d" -> A2Cmds(S) [] k = "waitdc" -> WDCmds(S)
    [] k = "consumer" -> CNCmds(S) [] k = "dictofsets" -> DSCmds(S, wide) [] k = "auxdict" -> AVCmds(S, wide) [] k = "typedkeys" -> TKCmds(S)
Steps(k, S, c) ==
  CASE k \in {"oneshot", "lazy"} -> OSSteps(S, c) [] k = "obslist" -> OLSteps(S, c) [] k = "stream" -> ESSteps(S, c)
    [] k = "poll" -> PMSteps(S, c) [] k \in {"gather", "dlss"} -> GASteps(S, c) [] k = "race" -> RASteps(S, c)
    [] k = "timeout" -> TOSteps(S, c) [] k = "hook" -> HKSteps(S, c) [] k = "until" -> UNSteps(S, c) [] k = "evchain" -> ECSteps(S, c)
    [] k = "a2d" -> A2Steps(S, c) [] k = "waitdc" -> WDSteps(S, c)
    [] k = "consumer" -> CNSteps(S, c) [] k = "dictofsets" -> DSSteps(S, c) [] k = "auxdict" -> AVSteps(S, c) [] k = "typedkeys" -> TKSteps(S, c)
\* documented-behaviour deviations of the code as it is (reported as findings, the replay continues with them)
DevSteps(k, S, c) ==
  CASE k \in {"oneshot", "lazy"} -> OSDevSteps(S, c) [] k = "auxdict" -> AVDevSteps(S, c) [] OTHER -> {}
\* side conditions that are ranges rather than values
AuxOK(k, S, e) == IF k = "lazy" THEN OSAuxOK(S, e) ELSE TRUE
AuxClause(k) == IF k = "lazy" THEN "LZ_ProducerCalls" ELSE "aux"
=============================================================================
