------------------------------ MODULE GenCodec ------------------------------
(* GEN + design-level check for C36.  Every state is one case:
     kind "file":  a file of `size` bytes cut into segments of `seg` bytes (a
                   multiple of k), encoded k-of-n, decoded from the blocks `order`
                   (k distinct ids in presentation order);
     kind "codec": one call of the bare codec with a data size that need not be
                   a multiple of k.
   The case is printed with everything the Spec says about it (sizes, padding,
   piece layout, expected decoded ranges).  On every case TLC checks the
   property on the symbolic file. *)
EXTENDS Codec, Json, IOUtils, SequencesExt

CONSTANTS MaxN,        \* all 1 <= k <= n <= MaxN
          PermMaxN,    \* all presentation orders for n <= PermMaxN, ascending + descending subsets above
          SegMults     \* segment sizes k * m for m in SegMults

\* extra (seeded) parameter choices [k, n, order, seg, size] for large n: a JSON list in the file IOEnv.EXTRA_FILE
Extra == IF "EXTRA_FILE" \in DOMAIN IOEnv THEN ToSet(JsonDeserialize(IOEnv.EXTRA_FILE)) ELSE {}

RECURSIVE Asc(_)
Asc(S) == IF S = {} THEN <<>> ELSE LET m == CHOOSE x \in S : \A y \in S : x <= y IN <<m>> \o Asc(S \ {m})
Rev(s) == [i \in 1..Len(s) |-> s[Len(s) + 1 - i]]
KSubsets(k, n) == {S \in SUBSET (0..(n - 1)) : Cardinality(S) = k}
Orders(k, n) ==
  IF n <= PermMaxN THEN {o \in [1..k -> 0..(n - 1)] : Cardinality(ToSet(o)) = k}
  ELSE {Asc(S) : S \in KSubsets(k, n)} \cup {Rev(Asc(S)) : S \in {T \in KSubsets(k, n) : 0 \in T}}

KN == {kn \in (1..MaxN) \X (1..MaxN) : kn[1] <= kn[2]}
FileParams ==
  UNION {UNION {{[kind |-> "file", k |-> kn[1], n |-> kn[2], order |-> o, seg |-> kn[1] * m, size |-> sz] :
                    o \in Orders(kn[1], kn[2]), sz \in 1..(kn[1] * m + kn[1] + 1)} : m \in SegMults} : kn \in KN}
CodecParams ==
  UNION {{[kind |-> "codec", k |-> kn[1], n |-> kn[2], order |-> o, seg |-> 0, size |-> sz] :
             o \in Orders(kn[1], kn[2]), sz \in 1..(2 * kn[1] + 1)} : kn \in KN}
ExtraParams == {[kind |-> "file", k |-> e.k, n |-> e.n, order |-> e.order, seg |-> e.seg, size |-> e.size] : e \in Extra}

VARIABLE c
SegsOut(p) ==
  [s1 \in 1..NumSegments(p.size, p.seg) |->
     LET s == s1 - 1 IN
     [off |-> SegOffset(p.seg, s), len |-> SegLen(p.size, p.seg, s), tail |-> IsTail(p.size, p.seg, s),
      codec_size |-> SegCodecSize(p.size, p.seg, p.k, s), block_size |-> SegBlockSize(p.size, p.seg, p.k, s),
      pieces |-> [j1 \in 1..p.k |-> PieceDesc(p.size, p.seg, p.k, s, j1 - 1)]]]
CaseOut(p) ==
  IF p.kind = "file"
    THEN [kind |-> "file", k |-> p.k, n |-> p.n, order |-> p.order, seg |-> p.seg, size |-> p.size,
          num_segments |-> NumSegments(p.size, p.seg), tail_size |-> TailSize(p.size, p.seg),
          tail_padded |-> TailPadded(p.size, p.seg, p.k), block_size |-> BlockSize(p.seg, p.k),
          tail_block_size |-> BlockSize(TailPadded(p.size, p.seg, p.k), p.k), segs |-> SegsOut(p)]
    ELSE [kind |-> "codec", k |-> p.k, n |-> p.n, order |-> p.order, size |-> p.size,
          block_size |-> BlockSize(p.size, p.k), padding |-> CodecPadding(p.size, p.k)]

Init == /\ c \in FileParams \cup CodecParams \cup ExtraParams
        /\ PrintT(ToJson(CaseOut(c)))
Next == UNCHANGED c
Spec == Init /\ [][Next]_c

(* ---- the property on the symbolic file ------------------------------------------ *)
\* any k distinct blocks of a segment, in any order, give back exactly the segment (tail included)
C36_AnyKDecode ==
  c.kind = "file" =>
    /\ Decodable(c.order, c.k, c.n)
    /\ \A s \in 0..(NumSegments(c.size, c.seg) - 1) :
         DecodeSegment(c.size, c.seg, c.k, c.n, s, c.order) = Segment(c.size, c.seg, s)
\* the segments tile the file
C36_SegmentsTile ==
  c.kind = "file" =>
    LET ns == NumSegments(c.size, c.seg) IN
    /\ \A s \in 0..(ns - 1) : SegLen(c.size, c.seg, s) >= 1 /\ SegOffset(c.seg, s) + SegLen(c.size, c.seg, s) <= c.size
    /\ SegOffset(c.seg, ns - 1) + SegLen(c.size, c.seg, ns - 1) = c.size
\* block sizes: k pieces of the block size hold the segment with less than k bytes of padding (less than
\* one byte per piece), and the padding is zeros at the very end
C36_Sizes ==
  IF c.kind = "file" THEN
    \A s \in 0..(NumSegments(c.size, c.seg) - 1) :
      LET bs == SegBlockSize(c.size, c.seg, c.k, s)
          ps == SegPieces(c.size, c.seg, c.k, s)
          joined == Join(ps, c.k) IN
      /\ \A j \in 0..(c.k - 1) : Len(ps[j]) = bs
      /\ c.k * bs >= SegLen(c.size, c.seg, s) /\ c.k * bs - SegLen(c.size, c.seg, s) < c.k
      /\ Len(joined) = c.k * bs
      /\ \A x \in 1..(c.k * bs) : (joined[x] = 0) <=> (x > SegLen(c.size, c.seg, s))
  ELSE c.k * BlockSize(c.size, c.k) >= c.size /\ CodecPadding(c.size, c.k) < c.k /\ CodecPadding(c.size, c.k) >= 0
=============================================================================
