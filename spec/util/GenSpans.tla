------------------------------ MODULE GenSpans ------------------------------
(* State machine over Spans.tla whose transitions are the GEN cases of C37.
   kind "S": one Spans object A; ops add/remove(range), A = A + X, A - X, A & X,
             A += X, A -= X for every operand set X over the offsets.
   kind "D": one DataSpans object D; ops add(range, pattern), remove(range),
             pop(range).
   Every transition prints one case: the operations made so far and the new one,
   each with what the Spec expects the real object to show afterwards (iteration
   / chunks, len, which ranges are contained / what get returns for every
   range, the value returned by the operation).
   With `VIEW View` in the cfg the states are identified by the abstract value
   only, so the cases are: every operation from every reachable value, reached
   by one witness history.  Without VIEW: every history up to MaxDepth. *)
EXTENDS Spans, Json, IOUtils, SequencesExt

CONSTANTS MaxOff,      \* offsets 0..MaxOff
          Kinds,       \* subset of {"S", "D"}
          MaxDepth,    \* bound on the length of histories
          BinOps       \* subset of {"union", "diff", "inter", "iadd", "isub"}

Offs   == 0..MaxOff
Ranges == {r \in (Offs \X (1..(MaxOff + 1))) : r[1] + r[2] <= MaxOff + 1}
RECURSIVE OrderRanges(_)
OrderRanges(R) == IF R = {} THEN <<>>
                  ELSE LET m == CHOOSE p \in R : \A q \in R : (p[1] < q[1]) \/ (p[1] = q[1] /\ p[2] <= q[2])
                       IN <<m>> \o OrderRanges(R \ {m})
AllRanges == OrderRanges(Ranges)

\* data written by add(range, pattern p): bytes alternate 65/66, starting with 65+p
Pat(p, ln) == [i \in 1..ln |-> IF (i + p) % 2 = 1 THEN 65 ELSE 66]

VARIABLES kind, A, D, hist
vars == <<kind, A, D, hist>>
View == <<kind, A, D>>

(* ---- what the real objects must show ------------------------------------------ *)
ObsS(S) == [iter |-> RunsSeq(S), len |-> SLen(S), bool |-> SBool(S), each |-> Ascending(S),
            contains |-> [k \in 1..Len(AllRanges) |-> SContains(S, AllRanges[k][1], AllRanges[k][2])]]
ObsD(M) == [chunks |-> Chunks(M), len |-> DLen(M), spans |-> RunsSeq(DSpans(M)),
            gets |-> [k \in 1..Len(AllRanges) |-> DGet(M, AllRanges[k][1], AllRanges[k][2])]]

Init == /\ kind \in Kinds
        /\ A = SEmpty /\ D = DEmpty /\ hist = <<>>
        /\ PrintT(ToJson([header |-> kind, ranges |-> AllRanges,
                          obs |-> IF kind = "S" THEN ObsS(SEmpty) ELSE ObsD(DEmpty)]))

BinRes(S, op, X) == CASE op \in {"union", "iadd"} -> SUnion(S, X)
                      [] op \in {"diff", "isub"}  -> SDiff(S, X)
                      [] op = "inter"             -> SInter(S, X)

SOps ==
  \/ \E r \in Ranges :
       \/ /\ A' = SAdd(A, r[1], r[2])
          /\ hist' = Append(hist, [op |-> "add", start |-> r[1], len |-> r[2], obs |-> ObsS(A')])
       \/ /\ A' = SRemove(A, r[1], r[2])
          /\ hist' = Append(hist, [op |-> "remove", start |-> r[1], len |-> r[2], obs |-> ObsS(A')])
  \/ \E op \in BinOps, X \in SUBSET Offs :
       /\ A' = BinRes(A, op, X)
       /\ hist' = Append(hist, [op |-> op, operand |-> RunsSeq(X), obs |-> ObsS(A')])

DOps ==
  \E r \in Ranges :
    \/ \E p \in {0, 1} :
         /\ D' = DAdd(D, r[1], Pat(p, r[2]))
         /\ hist' = Append(hist, [op |-> "add", start |-> r[1], data |-> Pat(p, r[2]), obs |-> ObsD(D')])
    \/ /\ D' = DRemove(D, r[1], r[2])
       /\ hist' = Append(hist, [op |-> "remove", start |-> r[1], len |-> r[2], obs |-> ObsD(D')])
    \/ /\ D' = DPop(D, r[1], r[2])
       /\ hist' = Append(hist, [op |-> "pop", start |-> r[1], len |-> r[2], res |-> DGet(D, r[1], r[2]), obs |-> ObsD(D')])

Next == /\ Len(hist) < MaxDepth
        /\ \/ kind = "S" /\ SOps /\ UNCHANGED D
           \/ kind = "D" /\ DOps /\ UNCHANGED A
        /\ UNCHANGED kind
        /\ PrintT(ToJson([kind |-> kind, ops |-> hist']))

Spec == Init /\ [][Next]_vars

(* ---- sanity of the Spec's own observation functions (checked on every state) ---- *)
\* the iteration list is canonical (ascending, runs separated by a gap) and denotes the set
CanonicalRuns(rs) == \A i \in 1..Len(rs) : rs[i][2] >= 1 /\ (i > 1 => rs[i][1] > rs[i-1][1] + rs[i-1][2])
C37_RunsDenoteSet == CanonicalRuns(RunsSeq(A)) /\ SetOfRuns(RunsSeq(A)) = A
\* the chunk list denotes the map
C37_ChunksDenoteMap == MapOfChunks(Chunks(D)) = D /\ CanonicalRuns(RunsSeq(DSpans(D)))
\* later writes win, other offsets keep their byte (stated pointwise, not via DAdd)
C37_LaterWritesWin ==
  [][(kind = "D" /\ hist'[Len(hist')].op = "add") =>
       LET o == hist'[Len(hist')] IN
       \A x \in Offs : IF x \in Rng(o.start, Len(o.data))
                         THEN x \in DOMAIN D' /\ D'[x] = o.data[x - o.start + 1]
                         ELSE (x \in DOMAIN D' <=> x \in DOMAIN D) /\ (x \in DOMAIN D => D'[x] = D[x])]_vars
=============================================================================
