---------------------------- MODULE MCHashTree ----------------------------
(* Exhaustive check of C35 on HashTree.tla.  A verifier holds an incomplete tree
   seeded with the trusted root.  An adversary makes up to MaxCalls calls of
   set_hashes: it picks a leaf and, for the leaf and every node of its sibling
   chain, supplies the genuine hash ("g"), a forged one ("f"), the genuine hash
   of the sibling ("s", swapped) or nothing ("m").  Dup = how the leaf hash is
   passed: "no" = in `leaves` only, "same"/"diff" = also in `hashes` with the
   same / a different value. *)
EXTENDS HashTree

(* Two families of behaviours are explored in one run (variable `mode`):
     "adv": trees of AdvMin..AdvMax leaves, AdvCalls adversarial calls with every alternative; for trees of at most
            DupSmallMax leaves also the "same"/"diff" ways of passing the leaf hash;
     "ord": trees of 1..OrdMax leaves, OrdCalls calls with genuine-or-missing hashes only (validation orders). *)
CONSTANTS AdvMin, AdvMax, AdvCalls, DupSmallMax, OrdMax, OrdCalls

VARIABLES mode, n, tree, k, last
vars == <<mode, n, tree, k, last>>

Alts     == IF mode = "adv" THEN {"g", "f", "s", "m"} ELSE {"g", "m"}
Dups     == IF mode = "adv" /\ n <= DupSmallMax THEN {"no", "same", "diff"} ELSE {"no"}
MaxCalls == IF mode = "adv" THEN AdvCalls ELSE OrdCalls

Chain(nn, leaf) == {FirstLeaf(nn) + leaf} \cup NeededFor(FirstLeaf(nn) + leaf)
ChoicesAt(i) == IF i = 0 THEN Alts \ {"s"} ELSE Alts
ValueOf(nn, i, c) == CASE c = "g" -> Genuine(nn, i)
                       [] c = "s" -> Genuine(nn, Sibling(i))
                       [] c = "f" -> ForgedH(i)
\* the arguments of the call
HashesArg(nn, leaf, ch, dup) ==
  LET li == FirstLeaf(nn) + leaf
      dom == {i \in Chain(nn, leaf) \ {li} : ch[i] # "m"} \cup (IF dup # "no" /\ ch[li] # "m" THEN {li} ELSE {})
  IN [i \in dom |-> IF i = li /\ dup = "diff" THEN ForgedH(1000 + i) ELSE ValueOf(nn, i, ch[i])]
LeavesArg(nn, leaf, ch) ==
  LET li == FirstLeaf(nn) + leaf IN
  [l \in (IF ch[li] # "m" THEN {leaf} ELSE {}) |-> ValueOf(nn, li, ch[li])]

Init == /\ \/ mode = "adv" /\ n \in AdvMin..AdvMax
           \/ mode = "ord" /\ n \in 1..OrdMax
        /\ tree = RootOnly(n)
        /\ k = 0
        /\ last = [res |-> "init", leaf |-> 0, ch |-> <<>>, dup |-> "no"]

Call == /\ k < MaxCalls
        /\ \E leaf \in 0..(n - 1), dup \in Dups :
           \E ch \in [Chain(n, leaf) -> Alts] :
             /\ \A i \in Chain(n, leaf) : ch[i] \in ChoicesAt(i)
             /\ LET r == SetHashes(n, tree, HashesArg(n, leaf, ch, dup), LeavesArg(n, leaf, ch)) IN
                \E res \in r.res :
                  /\ tree' = r.tree
                  /\ last' = [res |-> res, leaf |-> leaf, ch |-> ch, dup |-> dup]
        /\ k' = k + 1
        /\ UNCHANGED <<n, mode>>

Next == Call
Spec == Init /\ [][Next]_vars

(* ---- the property, stated without the operators of SetHashes ---------------- *)
\* whatever the adversary supplied, every hash the verifier holds (in particular every leaf it accepted)
\* is the one of the tree that produced the trusted root
C35_Sound == \A i \in Nodes(n) : tree[i] # None => tree[i] = Genuine(n, i)

\* a rejected call leaves the tree exactly as it was
C35_Rollback == [][last'.res # "ok" => tree' = tree]_vars

\* the genuine hashes the tree asked for (needed_hashes(leaf, include_leaf)), possibly with more genuine ones,
\* are accepted whatever was validated before, and the leaf is then known
AskedAndGenuine(nn, t, leaf, ch) ==
  /\ \A i \in Chain(nn, leaf) : ch[i] \in {"g", "m"}
  /\ \A i \in NeededHashes(nn, t, leaf, TRUE) : ch[i] = "g"
C35_Complete ==
  [][(AskedAndGenuine(n, tree, last'.leaf, last'.ch) /\ last'.dup # "diff")
        => (last'.res = "ok" /\ tree'[FirstLeaf(n) + last'.leaf] = Genuine(n, FirstLeaf(n) + last'.leaf))]_vars

\* accepted calls only add: nothing already known is changed
C35_Monotone == [][\A i \in Nodes(n) : tree[i] # None => tree'[i] = tree[i]]_vars

\* an accepted call stored everything it was given
C35_Remembers ==
  [][last'.res = "ok" =>
        \A i \in Chain(n, last'.leaf) : last'.ch[i] # "m" => tree'[i] = ValueOf(n, i, last'.ch[i])]_vars

\* needed_hashes never asks for something it has, and what it asks for is sufficient (see C35_Complete)
NeededOK == \A leaf \in 0..(n - 1) :
              NeededHashes(n, tree, leaf, TRUE) = {i \in Chain(n, leaf) : i # 0 /\ tree[i] = None}
=============================================================================
