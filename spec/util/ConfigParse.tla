---------------------------- MODULE ConfigParse ----------------------------
(* What the duration, size and date values of tahoe.cfg mean
   (expire.override_lease_duration, reserved_space, expire.cutoff_date; parsed
   by allmydata.util.time_format.parse_duration / parse_date and
   allmydata.util.abbreviate.parse_abbreviated_size, read in client.py).

   A value is a sequence of characters (one-character strings).  The three
   grammars are recognisers over character sequences:

     duration  ws* digits+ ws* unit ws*      unit (any case) one of s, second, seconds (1),
                                             day, days (86400), mo, month, months (31 days),
                                             year, years (365 days)           [garbage-collection.rst,
                                             docstring of parse_duration]
     size      digits+ ws* [KMGTPE]? i? B?   any case; K..E = 1000^1..1000^6, with i 1024^1..1024^6;
                                             a space between number and suffix is allowed
                                             ("100 M", "1024 Ki", "1048576 B" in configuration.rst)
     date      dddd-dd-dd                    a day of the proleptic Gregorian calendar; the value is
                                             midnight UTC at the beginning of that day

   Everything else is rejected.  The configuration file reader strips the
   whitespace around a value before the parser sees it (ViaConfig).

   GEN: the Spec enumerates well-formed values (token templates) and every
   single-token mutation of them (delete / replace / insert a token of the
   alphabet), and writes each distinct text with the three expected results.
   Numbers are bounded (TLC integers are 32 bit): a size is given as
   n * base^exp, results that do not fit are marked "skip". *)
EXTENDS Common, Json, IOUtils, SequencesExt

CONSTANTS Tier,        \* "quick" | "thorough": size of the mutation alphabet
          SeedN        \* a number below 60 chosen by the run's seed: one more number token

(* ---- characters ----------------------------------------------------------- *)
Lowers == <<"a","b","c","d","e","g","h","i","k","m","n","o","p","r","s","t","w","x","y">>
Uppers == <<"A","B","C","D","E","G","H","I","K","M","N","O","P","R","S","T","W","X","Y">>
Digits == <<"0","1","2","3","4","5","6","7","8","9">>
DigitSet == {Digits[i] : i \in 1..10}
DigitMap == [d \in DigitSet |-> (CHOOSE i \in 1..10 : Digits[i] = d) - 1]
UpperSet == {Uppers[i] : i \in 1..Len(Uppers)}
LowerMap == [u \in UpperSet |-> Lowers[CHOOSE i \in 1..Len(Uppers) : Uppers[i] = u]]
IsDigit(c) == c \in DigitSet
DigitVal(c) == DigitMap[c]
IsWs(c) == c \in {" ", "\t"}
LowerCh(c) == IF c \in UpperSet THEN LowerMap[c] ELSE c
Lower(s) == [i \in 1..Len(s) |-> LowerCh(s[i])]

RECURSIVE LStrip(_), RStrip(_), DigitPrefixLen(_), Val(_)
LStrip(s) == IF s # <<>> /\ IsWs(Head(s)) THEN LStrip(Tail(s)) ELSE s
RStrip(s) == IF s # <<>> /\ IsWs(s[Len(s)]) THEN RStrip(SubSeq(s, 1, Len(s) - 1)) ELSE s
Strip(s) == RStrip(LStrip(s))
DigitPrefixLen(s) == IF s # <<>> /\ IsDigit(Head(s)) THEN 1 + DigitPrefixLen(Tail(s)) ELSE 0
Val(ds) == IF ds = <<>> THEN 0 ELSE 10 * Val(SubSeq(ds, 1, Len(ds) - 1)) + DigitVal(ds[Len(ds)])
TakeN(s, k) == SubSeq(s, 1, k)
DropN(s, k) == SubSeq(s, k + 1, Len(s))

RECURSIVE NumToChars(_)
NumToChars(n) == IF n < 10 THEN <<Digits[n + 1]>> ELSE NumToChars(n \div 10) \o <<Digits[(n % 10) + 1]>>
SeedNum == NumToChars(SeedN)

Reject == -1
Skip == -2           \* well-formed, but the number does not fit the 32-bit integers of this model: not judged
MaxDigits == 9

(* ---- durations ------------------------------------------------------------ *)
Units ==
  {[w |-> <<"s">>, mult |-> 1],
   [w |-> <<"s", "e", "c", "o", "n", "d">>, mult |-> 1],
   [w |-> <<"s", "e", "c", "o", "n", "d", "s">>, mult |-> 1],
   [w |-> <<"d", "a", "y">>, mult |-> 86400],
   [w |-> <<"d", "a", "y", "s">>, mult |-> 86400],
   [w |-> <<"m", "o">>, mult |-> 2678400],
   [w |-> <<"m", "o", "n", "t", "h">>, mult |-> 2678400],
   [w |-> <<"m", "o", "n", "t", "h", "s">>, mult |-> 2678400],
   [w |-> <<"y", "e", "a", "r">>, mult |-> 31536000],
   [w |-> <<"y", "e", "a", "r", "s">>, mult |-> 31536000]}
UnitOf(w) == {u \in Units : u.w = w}

Duration(txt) ==
  LET t == Lower(Strip(txt))
      k == DigitPrefixLen(t)
      rest == LStrip(DropN(t, k))
  IN IF k = 0 \/ UnitOf(rest) = {} THEN Reject
     ELSE IF k > 4 THEN Skip
     ELSE LET n == Val(TakeN(t, k))
              m == (CHOOSE u \in UnitOf(rest) : TRUE).mult
          IN IF n > 60 THEN Skip ELSE n * m

(* ---- sizes ---------------------------------------------------------------- *)
Scales == <<"k", "m", "g", "t", "p", "e">>
ScaleExp(c) == CHOOSE i \in 1..6 : Scales[i] = c
IsScale(c) == \E i \in 1..6 : Scales[i] = c
RejectSize == [n |-> Reject, base |-> 0, exp |-> 0, spaced |-> FALSE]

\* [scale]? i? b?  ->  <<ok, exp, binary>>
Suffix(r) ==
  LET hasS == r # <<>> /\ IsScale(r[1])
      r1 == IF hasS THEN Tail(r) ELSE r
      hasI == r1 # <<>> /\ r1[1] = "i"
      r2 == IF hasI THEN Tail(r1) ELSE r1
      hasB == r2 # <<>> /\ r2[1] = "b"
      r3 == IF hasB THEN Tail(r2) ELSE r2
  IN [ok |-> r3 = <<>>, exp |-> IF hasS THEN ScaleExp(r[1]) ELSE 0, binary |-> hasS /\ hasI]

Size(txt) ==
  LET t == Lower(txt)
      k == DigitPrefixLen(t)
      afterNum == DropN(t, k)
      rest == LStrip(afterNum)
      sf == Suffix(rest)
  IN IF k = 0 \/ ~sf.ok THEN RejectSize
     ELSE IF rest = <<>> /\ afterNum # <<>> THEN RejectSize         \* whitespace at the end is not a suffix
     ELSE IF k > MaxDigits THEN [n |-> Skip, base |-> 0, exp |-> 0, spaced |-> FALSE]
     ELSE [n |-> Val(TakeN(t, k)), base |-> IF sf.binary THEN 1024 ELSE 1000, exp |-> sf.exp,
           spaced |-> rest # afterNum]      \* number and suffix separated by whitespace

(* ---- dates ---------------------------------------------------------------- *)
IsLeap(y) == (y % 4 = 0 /\ y % 100 # 0) \/ y % 400 = 0
DaysIn(y, m) == IF m = 2 THEN (IF IsLeap(y) THEN 29 ELSE 28) ELSE IF m \in {4, 6, 9, 11} THEN 30 ELSE 31
\* days since 1970-01-01 (civil-from-days arithmetic, y >= 1970)
DaysFromCivil(y, m, d) ==
  LET y1 == IF m <= 2 THEN y - 1 ELSE y
      era == y1 \div 400
      yoe == y1 - era * 400
      mp == (m + 9) % 12
      doy == (153 * mp + 2) \div 5 + d - 1
      doe == yoe * 365 + yoe \div 4 - yoe \div 100 + doy
  IN era * 146097 + doe - 719468

WellFormedDate(t) ==
  /\ Len(t) = 10 /\ t[5] = "-" /\ t[8] = "-"
  /\ \A i \in {1, 2, 3, 4, 6, 7, 9, 10} : IsDigit(t[i])
\* dd:dd:dd after a separator T, _ or space (what iso_utc prints after the date)
IsTimeTail(r) ==
  /\ Len(r) >= 9 /\ r[1] \in {"T", "t", "_", " "}
  /\ \A i \in {2, 3, 5, 6, 8, 9} : IsDigit(r[i])
  /\ r[4] = ":" /\ r[7] = ":"
\* class of a text as a date:
\*   "ok"; "skip" (a day outside 1970..2037: not judged); "no_such_month", "no_such_day" (well-formed,
\*   but not a day of the calendar); "date_then_time" (a well-formed date followed by a time of day: a
\*   timestamp, not a date); "malformed" (anything else)
DateClass(t) ==
  IF Len(t) > 10 /\ WellFormedDate(SubSeq(t, 1, 10)) /\ IsTimeTail(SubSeq(t, 11, Len(t))) THEN "date_then_time"
  ELSE IF ~WellFormedDate(t) THEN "malformed"
  ELSE LET y == Val(SubSeq(t, 1, 4))  m == Val(SubSeq(t, 6, 7))  d == Val(SubSeq(t, 9, 10)) IN
       IF m < 1 \/ m > 12 THEN "no_such_month"
       ELSE IF y < 1 THEN "malformed"
       ELSE IF d < 1 \/ d > DaysIn(y, m) THEN "no_such_day"
       ELSE IF y < 1970 \/ y > 2037 THEN "skip"
       ELSE "ok"
Date(t) ==
  LET c == DateClass(t) IN
  IF c = "ok" THEN DaysFromCivil(Val(SubSeq(t, 1, 4)), Val(SubSeq(t, 6, 7)), Val(SubSeq(t, 9, 10))) * 86400
  ELSE IF c = "skip" THEN Skip ELSE Reject

(* ---- through the configuration file --------------------------------------- *)
ViaConfig(txt) == Strip(txt)
\* an empty reserved_space means that nothing is reserved
ConfigSize(v) == IF v = <<>> THEN [n |-> 0, base |-> 1000, exp |-> 0, spaced |-> FALSE] ELSE Size(v)

(* ---- GEN: templates and single-token mutations ----------------------------- *)
Tok(s) == s
QuickAlphabet ==
  {<<" ">>, <<"\t">>, <<"0">>, <<"7">>, <<"x">>, <<"-">>, <<".">>, <<"d", "a", "y", "s">>, <<"M", "O", "N", "T", "H", "S">>, <<"m", "o">>, <<"S">>, <<"d">>, <<"w", "e", "e", "k", "s">>, <<"m">>, <<"k">>, <<"M">>, <<"i">>, <<"b">>, <<"K", "i", "B">>, <<"2", "0", "0", "9">>, <<"0", "2">>, <<"3", "0">>, <<"1", "3">>, <<"0", "0">>}
MoreAlphabet ==
  {<<"0", "0", "7">>, <<"3", "1">>, <<"+">>, <<"D", "a", "y", "s">>, <<"m", "i", "n">>, <<"m", "o", "s">>, <<"I">>, <<"B">>, <<"m", "b">>, <<"1">>, <<" ", " ">>, <<"1", "0", "2", "4">>, <<"1", "0", "0">>, <<"_">>, <<":">>, <<"s", "e", "c", "o", "n", "d">>, <<"S", "e", "c", "o", "n", "d", "s">>, <<"D", "A", "Y">>, <<"m", "o", "n", "t", "h">>, <<"M", "o", "n", "t", "h">>, <<"y", "e", "a", "r">>, <<"Y", "E", "A", "R", "S">>, <<"y", "r">>, <<"h">>, <<"w">>, <<"d", "a">>, <<"a", "y", "s">>, <<"K">>, <<"m">>, <<"g">>, <<"G">>, <<"t">>, <<"T">>, <<"p">>, <<"P">>, <<"e">>, <<"E">>, <<"k", "b">>, <<"M", "i">>, <<"G", "i", "B">>, <<"k", "i", "b">>, <<"i", "b">>, <<"b", "b">>, <<"k", "i">>, <<"2", "0", "0", "8">>, <<"1", "9", "7", "0">>, <<"2", "0", "3", "7">>, <<"2", "0", "3", "8">>, <<"1", "9", "6", "9">>, <<"0", "1">>, <<"1", "2">>, <<"1", "6">>, <<"2", "8">>, <<"2", "9">>, <<"3", "1">>, <<"3", "2">>, <<"2">>, <<"9">>}
Alphabet == IF Tier = "quick" THEN QuickAlphabet \cup {SeedNum} ELSE QuickAlphabet \cup MoreAlphabet \cup {SeedNum}

Sp == <<" ">>
UnitWords == {u.w : u \in Units}
DurNums == IF Tier = "quick" THEN {<<"7">>} ELSE {<<"7">>, <<"3", "1">>, SeedNum}
DurationTemplates ==
  {<<n, u>> : n \in DurNums, u \in UnitWords} \cup {<<n, Sp, u>> : n \in DurNums, u \in UnitWords}
  \cup {<<Sp, n, u, Sp>> : n \in {<<"7">>}, u \in UnitWords}

SizeNums == IF Tier = "quick" THEN {<<"1", "0", "0">>} ELSE {<<"1", "0", "0">>, <<"1", "0", "2", "4">>, SeedNum}
ScaleToks == IF Tier = "quick" THEN {<<>>, <<"K">>, <<"M">>, <<"E">>}
                              ELSE {<<>>, <<"K">>, <<"M">>, <<"G">>, <<"T">>, <<"P">>, <<"E">>}
NonEmpty(seq) == SelectSeq(seq, LAMBDA x : x # <<>>)
SizeTemplates ==
  {NonEmpty(<<n, sp, s, i, b>>) : n \in SizeNums, sp \in {<<>>, Sp}, s \in ScaleToks, i \in {<<>>, <<"i">>}, b \in {<<>>, <<"B">>}}

DateTemplates ==
  {<<y, <<"-">>, md[1], <<"-">>, md[2]>> :
     y \in (IF Tier = "quick" THEN {<<"2","0","0","9">>, <<"2","0","0","8">>}
                             ELSE {<<"2","0","0","9">>, <<"2","0","0","8">>, <<"1","9","7","0">>, <<"2","0","3","7">>}),
     md \in {<< <<"0","1">>, <<"1","6">> >>, << <<"0","2">>, <<"2","9">> >>, << <<"1","2">>, <<"3","1">> >>, << <<"0","2">>, <<"2","8">> >>}}

Templates == DurationTemplates \cup SizeTemplates \cup DateTemplates

Delete(t, i) == SubSeq(t, 1, i - 1) \o SubSeq(t, i + 1, Len(t))
Replace(t, i, a) == [t EXCEPT ![i] = a]
Insert(t, i, a) == SubSeq(t, 1, i - 1) \o <<a>> \o SubSeq(t, i, Len(t))     \* before position i (i = Len+1: append)
Mutants(t) ==
  {t} \cup {Delete(t, i) : i \in 1..Len(t)}
      \cup {Replace(t, i, a) : i \in 1..Len(t), a \in Alphabet}
      \cup (IF Len(t) < 6 THEN {Insert(t, i, a) : i \in 1..(Len(t) + 1), a \in Alphabet} ELSE {})

RECURSIVE Flatten(_)
Flatten(t) == IF t = <<>> THEN <<>> ELSE Head(t) \o Flatten(Tail(t))

\* the examples of configuration.rst / garbage-collection.rst, verbatim
DocExamples ==
  {<<"1", "0", "0", "M", "B">>,
   <<"1", "0", "0", " ", "M">>,
   <<"1", "0", "0", "0", "0", "0", "0", "0", "0", "B">>,
   <<"1", "0", "0", "0", "0", "0", "0", "0", "0">>,
   <<"1", "0", "0", "0", "0", "0", "k", "b">>,
   <<"1", "M", "i", "B">>,
   <<"1", "0", "2", "4", "K", "i", "B">>,
   <<"1", "0", "2", "4", " ", "K", "i">>,
   <<"1", "0", "4", "8", "5", "7", "6", " ", "B">>,
   <<"1", "G">>,
   <<"7", "d", "a", "y", "s">>,
   <<"3", "1", "d", "a", "y">>,
   <<"6", "0", " ", "d", "a", "y", "s">>,
   <<"2", "m", "o">>,
   <<"3", " ", "m", "o", "n", "t", "h">>,
   <<"1", "2", " ", "m", "o", "n", "t", "h", "s">>,
   <<"2", "y", "e", "a", "r", "s">>,
   <<"2", "0", "0", "9", "-", "0", "1", "-", "1", "6">>,
   <<"2", "0", "0", "8", "-", "0", "2", "-", "0", "2">>,
   <<"2", "0", "0", "7", "-", "1", "2", "-", "2", "5">>}
\* further hand-picked texts (boundaries of the calendar, a date followed by a time, exact byte counts)
Extras ==
  {<<"2", "0", "0", "9", "-", "0", "1", "-", "1", "6", "T", "1", "1", ":", "1", "1", ":", "1", "1">>,
   <<"2", "0", "0", "9", "-", "0", "1", "-", "1", "6", " ", "0", "0", ":", "0", "0", ":", "0", "0">>,
   <<"2", "0", "0", "9", "-", "0", "1", "-", "1", "6", "_", "2", "3", ":", "5", "9", ":", "5", "9">>,
   <<"2", "0", "0", "9", "-", "0", "2", "-", "3", "0">>,
   <<"2", "0", "0", "9", "-", "0", "2", "-", "2", "9">>,
   <<"2", "0", "0", "8", "-", "0", "2", "-", "2", "9">>,
   <<"2", "0", "0", "9", "-", "0", "4", "-", "3", "1">>,
   <<"2", "0", "0", "9", "-", "0", "1", "-", "0", "0">>,
   <<"2", "0", "0", "9", "-", "1", "3", "-", "0", "1">>,
   <<"2", "0", "0", "9", "-", "0", "0", "-", "1", "0">>,
   <<"2", "0", "3", "7", "-", "1", "2", "-", "3", "1">>,
   <<"1", "9", "7", "0", "-", "0", "1", "-", "0", "1">>,
   <<"6", "0", " ", "y", "e", "a", "r", "s">>,
   <<"1", "s">>,
   <<"0", " ", "s">>,
   <<"5", "1", "2", " ", "B">>,
   <<"5", "1", "2", "B">>,
   <<"1", "0", "0", "0", "0", "0", "0", "0", "0", "0">>,
   <<"1", "0", "i">>,
   <<"1", "0", "i", "B">>,
   <<"1", "0", "i", "b">>,
   <<"1", "0", "K", "B">>,
   <<"1", "0", "k", "I", "b">>}

Texts == {Flatten(m) : m \in UNION {Mutants(t) : t \in Templates}} \cup DocExamples \cup Extras

SizeClass(sz) == IF sz.n = Reject THEN "reject" ELSE IF sz.spaced THEN "ok_spaced" ELSE "ok_tight"
Results(txt, sz) ==
  [txt |-> txt, dur |-> Duration(txt), size |-> [n |-> sz.n, base |-> sz.base, exp |-> sz.exp],
   sizeclass |-> SizeClass(sz), date |-> Date(txt), dateclass |-> DateClass(txt)]
Case(txt) ==
  LET direct == Results(txt, Size(txt))
      v == ViaConfig(txt)
  IN direct @@ [doc |-> txt \in DocExamples,
                cfg |-> IF v = txt /\ v # <<>> THEN direct ELSE Results(v, ConfigSize(v))]

TextSeq == SetToSeq(Texts)
Cases == [i \in 1..Len(TextSeq) |-> Case(TextSeq[i])]

ASSUME ndJsonSerialize(IOEnv.OUT_FILE, Cases)

\* one state per case: TLC's state count is the case count, and the tables are checked case by case
VARIABLE ci
c == Cases[ci]
Init == ci \in 1..Len(TextSeq)
Next == UNCHANGED ci
Spec == Init /\ [][Next]_ci

(* properties of the tables themselves, checked on every case *)
\* every example given in the documentation has a meaning under exactly one of the three grammars
C48_DocExamplesAccepted == c.doc => Cardinality({k \in {"dur", "size", "date"} :
                                        IF k = "dur" THEN c.dur >= 0 ELSE IF k = "size" THEN c.size.n >= 0 ELSE c.date >= 0}) = 1
\* every documented unit spelling of every template parses; a duration is a whole number of its unit
C48_DurationTable == c.dur >= 0 => \E u \in Units : c.dur % u.mult = 0
\* decimal and binary scales never coincide above exponent 0
C48_SizeTable == (c.size.n >= 0 /\ c.size.exp > 0) => c.size.base \in {1000, 1024}
\* a date is midnight: a multiple of one day
C48_DateTable == c.date >= 0 => c.date % 86400 = 0
=============================================================================
