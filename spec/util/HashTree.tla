------------------------------ MODULE HashTree ------------------------------
(* Merkle hash trees of allmydata/hashtree.py over SYMBOLIC hashes (C35).

   A hash is a term: LeafH(i) (hash of data block / leaf i), PadH(i) (the
   empty_leaf_hash(i) used to pad the bottom row to a power of two),
   NodeH(a, b) (pair_hash of two hashes) or ForgedH(j) (anything an adversary
   makes up).  Distinct terms are distinct hashes (collision freedom is the
   assumption under which the property is stated).

   The tree for n leaves is the complete binary tree with NextPow2(n) bottom
   nodes stored in a list indexed as in CompleteBinaryTreeMixin:
   node 0 = root, children of i = 2i+1, 2i+2.  A partially populated tree
   (IncompleteHashTree) is a function Nodes(n) -> term or None.

   SetHashes is shaped like IncompleteHashTree.set_hashes: merge `leaves`
   into `hashes` (argument conflict -> BadHashError), provisional insert
   (conflict with an existing value -> BadHashError), bottom-up check level by
   level (missing sibling -> NotEnoughHashesError, computed parent differs from
   an existing parent -> BadHashError, else the parent is added and checked one
   level up), rollback of everything added when an exception is raised.  The
   code pops the nodes of one level from a Python set, so when several nodes of
   the lowest failing level fail in different ways the exception class depends
   on the pop order: the Spec answers with the SET of classes allowed. *)
EXTENDS Common

LeafH(i)    == <<"L", i>>
PadH(i)     == <<"P", i>>
NodeH(a, b) == <<"N", a, b>>
ForgedH(j)  == <<"F", j>>
None        == <<"-">>

(* ---- shape (CompleteBinaryTreeMixin, HashTree.__init__) -------------------- *)
PadN(n)      == NextPow2(n)            \* roundup_pow2(len(L))
Size(n)      == 2 * PadN(n) - 1
FirstLeaf(n) == PadN(n) - 1
Nodes(n)     == 0..(Size(n) - 1)
Parent(i)    == (i - 1) \div 2
LChild(i)    == 2 * i + 1
RChild(i)    == 2 * i + 2
Sibling(i)   == IF i % 2 = 1 THEN i + 1 ELSE i - 1
LeftOf(i)    == IF i % 2 = 1 THEN i ELSE i - 1        \* the left node of the pair {i, sibling(i)}
RECURSIVE Depth(_)
Depth(i)     == IF i = 0 THEN 0 ELSE 1 + Depth(Parent(i))
MaxDepth(n)  == Depth(Size(n) - 1)

\* the tree HashTree(L) builds from n leaf hashes: bottom row padded with empty_leaf_hash(i)
RECURSIVE Genuine(_, _)
Genuine(n, i) ==
  IF i >= FirstLeaf(n)
    THEN (IF i - FirstLeaf(n) < n THEN LeafH(i - FirstLeaf(n)) ELSE PadH(i - FirstLeaf(n)))
    ELSE NodeH(Genuine(n, LChild(i)), Genuine(n, RChild(i)))

\* needed_for(i): the sibling chain from i to the root
RECURSIVE NeededFor(_)
NeededFor(i) == IF i = 0 THEN {} ELSE {Sibling(i)} \cup NeededFor(Parent(i))

EmptyTree(n) == [i \in Nodes(n) |-> None]
RootOnly(n)  == [i \in Nodes(n) |-> IF i = 0 THEN Genuine(n, 0) ELSE None]

\* HashTree.needed_hashes(leafnum, include_leaf)
NeededComplete(n, leaf, incl) ==
  NeededFor(FirstLeaf(n) + leaf) \cup (IF incl THEN {FirstLeaf(n) + leaf} ELSE {})
\* IncompleteHashTree.needed_hashes(leafnum, include_leaf): only what is not yet known
NeededHashes(n, t, leaf, incl) == {i \in NeededComplete(n, leaf, incl) : t[i] = None}

(* ---- set_hashes ------------------------------------------------------------ *)
\* hashes: function  node index -> term;  leaves: function  leaf number -> term
LeafIdx(n, leaves)  == {FirstLeaf(n) + l : l \in DOMAIN leaves}
ArgConflict(n, hashes, leaves) ==
  \E l \in DOMAIN leaves : (FirstLeaf(n) + l) \in DOMAIN hashes /\ hashes[FirstLeaf(n) + l] # leaves[l]
Merged(n, hashes, leaves) ==
  [i \in (DOMAIN hashes) \cup LeafIdx(n, leaves) |->
      IF i \in LeafIdx(n, leaves) THEN leaves[i - FirstLeaf(n)] ELSE hashes[i]]

Conflicts(t, new) == \E i \in DOMAIN new : t[i] # None /\ t[i] # new[i]
Added(t, new)     == {i \in DOMAIN new : t[i] = None}
Provisional(t, new) == [i \in DOMAIN t |-> IF i \in Added(t, new) THEN new[i] ELSE t[i]]

\* bottom-up check.  t: provisional tree, todo: the "red-dotted" nodes, lvl: current level.
\* answer: [res |-> set of allowed outcomes, tree |-> tree with the computed parents]
RECURSIVE Check(_, _, _)
Check(t, todo, lvl) ==
  IF lvl = 0 THEN [res |-> {"ok"}, tree |-> t]      \* the root cannot be checked, only accepted
  ELSE
    LET here == {i \in todo : Depth(i) = lvl} IN
    IF here = {} THEN Check(t, todo, lvl - 1)
    ELSE
      LET noSib       == {i \in here : t[Sibling(i)] = None}
          Computed(i) == NodeH(t[LeftOf(i)], t[LeftOf(i) + 1])
          badPar      == {i \in here \ noSib : t[Parent(i)] # None /\ t[Parent(i)] # Computed(i)}
          fails       == (IF noSib # {} THEN {"notenough"} ELSE {}) \cup (IF badPar # {} THEN {"bad"} ELSE {})
      IN IF fails # {} THEN [res |-> fails, tree |-> t]
         ELSE LET newp == {Parent(i) : i \in {j \in here : t[Parent(j)] = None}}
                  t2   == [x \in DOMAIN t |-> IF x \in newp THEN Computed(LChild(x)) ELSE t[x]]
              IN Check(t2, (todo \ here) \cup newp, lvl - 1)

\* [res |-> set of allowed outcomes ("ok" | "bad" | "notenough"), tree |-> tree afterwards]
\* numbers that name no node of this tree (a hash number >= the tree size, a leaf number beyond the padded leaves):
\* the call is refused ("range": IndexError in the code) and - like every refusal - changes nothing
OutOfRange(n, hashes, leaves) ==
  \/ \E i \in DOMAIN hashes : i \notin Nodes(n)
  \/ \E l \in DOMAIN leaves : FirstLeaf(n) + l \notin Nodes(n)
SetHashes(n, t, hashes, leaves) ==
  IF OutOfRange(n, hashes, leaves) THEN [res |-> {"range", "bad", "notenough"}, tree |-> t]   \* refused - under whichever name
  ELSE IF ArgConflict(n, hashes, leaves) THEN [res |-> {"bad"}, tree |-> t]
  ELSE LET new == Merged(n, hashes, leaves) IN
    IF Conflicts(t, new) THEN [res |-> {"bad"}, tree |-> t]
    ELSE LET r == Check(Provisional(t, new), Added(t, new), MaxDepth(n))
         IN IF r.res = {"ok"} THEN r ELSE [res |-> r.res, tree |-> t]      \* rollback

(* ---- compact external notation of hashes (GEN output / TRACE input) -------
   <<"G", k>> = "the genuine hash of node k" (= Genuine(n, k)); other terms stand for themselves,
   <<"-">> = no hash. *)
RECURSIVE Dec(_, _)
Dec(n, s) == IF s[1] = "G" THEN Genuine(n, s[2])
             ELSE IF s[1] = "N" THEN NodeH(Dec(n, s[2]), Dec(n, s[3]))
             ELSE s
\* index of the node whose genuine hash is h, -1 if h is not a hash of the genuine tree (structural, O(|h|))
RECURSIVE GIdx(_, _)
GIdx(n, h) ==
  IF h[1] = "L" THEN (IF h[2] < n THEN FirstLeaf(n) + h[2] ELSE -1)
  ELSE IF h[1] = "P" THEN (IF h[2] >= n /\ h[2] < PadN(n) THEN FirstLeaf(n) + h[2] ELSE -1)
  ELSE IF h[1] = "N" THEN
    LET a == GIdx(n, h[2]) IN
    IF a < 0 \/ a % 2 = 0 THEN -1
    ELSE IF GIdx(n, h[3]) = a + 1 THEN Parent(a) ELSE -1
  ELSE -1
Enc(n, h) == IF h = None THEN h ELSE LET k == GIdx(n, h) IN IF k >= 0 THEN <<"G", k>> ELSE h
\* one level of the genuine tree, in external notation
GenuineShape(n, i) ==
  IF i >= FirstLeaf(n) THEN Genuine(n, i) ELSE <<"N", <<"G", LChild(i)>>, <<"G", RChild(i)>>>>
=============================================================================
