--------------------------- MODULE TraceEncodings ---------------------------
(* Trace validation for C38: seeded, longer random values encoded and decoded by the
   real code (harness/encodings_driver.py --mode trace); every event is checked
   against Encodings.tla.  Base-32/62 text is abstracted by the driver to symbol
   values (index in the alphabet). *)
EXTENDS Encodings, Json, IOUtils, TLCExt

Traces == JsonDeserialize(IOEnv.TRACE_FILE)

VARIABLES tid, l, bad
tvars == <<tid, l, bad>>
Events == Traces[tid].events
Ev == Events[l]

RECURSIVE ConcatNS(_)
ConcatNS(es) == IF es = <<>> THEN <<>> ELSE Netstring(es[1]) \o ConcatNS(Tail(es))

Verdict(e) ==
  CASE e.ev = "b32" -> IF e.text # B32Encode(e.bytes) THEN "C38_base32_b2a"
                       ELSE IF B32Decode(e.text) # Accept(e.back) \/ e.back # e.bytes THEN "C38_base32_roundtrip" ELSE ""
    [] e.ev = "b62" -> IF e.text # B62Encode(e.bytes) THEN "C38_base62_b2a"
                       ELSE IF B62Decode(e.text) # Accept(e.back) \/ e.back # e.bytes THEN "C38_base62_roundtrip" ELSE ""
    [] e.ev = "net" -> LET s == SplitNetstring(e.enc, Len(e.elems), e.pos, TRUE, e.trailer) IN
                       IF e.enc # e.prefix \o ConcatNS(e.elems) \o e.trailer THEN "C38_netstring_encode"
                       ELSE IF ~e.split.ok \/ ~s.ok \/ e.split.val # s.val \/ e.split.pos # s.pos \/ s.val # e.elems THEN "C38_netstring_split"
                       ELSE ""
    [] e.ev = "netbad" -> \* a truncated / damaged encoding: the real verdict must be the Spec's
                       LET s == SplitNetstring(e.enc, e.num, 0, TRUE, <<>>) IN
                       IF e.split.ok # s.ok \/ (s.ok /\ (e.split.val # s.val \/ e.split.pos # s.pos)) THEN "C38_netstring_malformed" ELSE ""
    [] e.ev = "ueb" -> IF e.enc # PackExtension(e.items) THEN "C38_ueb_pack"
                       ELSE IF ~e.back.ok \/ UnpackExtension(e.enc) # Accept(e.back.items) THEN "C38_ueb_unpack" ELSE ""
    \* a share container of either on-disk version, written and then opened by a fresh reader: data and every lease record
    \* decode to what was encoded (the record answers to its secrets, carries its expiry), a renewal rewrites that record
    [] e.ev = "container" -> IF e.error # "" THEN "C38_container_raised"
                       ELSE IF ~e.data_ok THEN "C38_container_data_roundtrip"
                       ELSE IF ~e.count_ok \/ \E i \in 1..Len(e.leases) : ~(e.leases[i].renew_answers /\ e.leases[i].cancel_answers /\ e.leases[i].exp_ok)
                              THEN "C38_container_lease_roundtrip"
                       ELSE IF ~e.renew_ok THEN "C38_container_lease_rewrite" ELSE ""
    [] OTHER -> "unknown_event"

TraceInit == tid \in 1..Len(Traces) /\ l = 1 /\ bad = "none"
TraceNext ==
  /\ bad = "none" /\ l <= Len(Events)
  /\ LET c == Verdict(Ev) IN
     IF c = "" THEN /\ l' = l + 1 /\ bad' = "none" /\ (l = Len(Events) => PrintT(<<"VF_ACCEPT", tid, l>>))
               ELSE /\ bad' = c /\ UNCHANGED l /\ PrintT(<<"VF_REJECT", tid, l, c>>)
  /\ UNCHANGED tid
TraceSpec == TraceInit /\ [][TraceNext]_tvars
TraceOK == bad = "none"
=============================================================================
