------------------------------- MODULE Spans -------------------------------
(* Byte-range bookkeeping of allmydata/util/spans.py (C37), stated as what it
   is meant to be:
     Spans      = a set of natural numbers (offsets),
     DataSpans  = a partial map  offset -> byte  (a function whose DOMAIN is a
                  finite set of naturals); later writes win.
   The operators are the public API of the two classes.  What the real classes
   show of their state (iteration, get_chunks) is the canonical list of maximal
   runs in ascending order: RunsSeq / Chunks. *)
EXTENDS Common

Rng(start, len) == start..(start + len - 1)

(* ---- Spans ------------------------------------------------------------------ *)
SEmpty            == {}
SOf(start, len)   == Rng(start, len)                  \* Spans(start, length)
SAdd(S, st, ln)   == S \cup Rng(st, ln)               \* add
SRemove(S, st, ln) == S \ Rng(st, ln)                 \* remove
SUnion(S, X)      == S \cup X                         \* __add__ / __iadd__
SDiff(S, X)       == S \ X                            \* __sub__ / __isub__
SInter(S, X)      == S \cap X                         \* __and__
SContains(S, st, ln) == Rng(st, ln) \subseteq S       \* (start, length) in spans
SLen(S)           == Cardinality(S)                   \* len()
SBool(S)          == S # {}                           \* bool()

\* maximal runs <<start, length>> of a set of naturals
Runs(S) == {<<a, SetMin({y \in S : y >= a /\ (y + 1) \notin S}) - a + 1>> : a \in {x \in S : (x - 1) \notin S}}
\* ... in ascending order: what iteration over a Spans yields
RECURSIVE SeqOfRuns(_)
SeqOfRuns(R) == IF R = {} THEN <<>>
                ELSE LET m == CHOOSE p \in R : \A q \in R : p[1] <= q[1] IN <<m>> \o SeqOfRuns(R \ {m})
RunsSeq(S) == SeqOfRuns(Runs(S))
\* the set denoted by a list of <<start, length>> pairs (operands given as lists, observations)
SetOfRuns(seq) == UNION {Rng(seq[i][1], seq[i][2]) : i \in 1..Len(seq)}
\* each(): the offsets in ascending order
RECURSIVE Ascending(_)
Ascending(S) == IF S = {} THEN <<>> ELSE <<SetMin(S)>> \o Ascending(S \ {SetMin(S)})

(* ---- DataSpans ---------------------------------------------------------------- *)
DEmpty == <<>>                                        \* the function with empty domain
\* add(start, data): later writes win
DAdd(D, st, data) ==
  [x \in (DOMAIN D) \cup Rng(st, Len(data)) |-> IF x \in Rng(st, Len(data)) THEN data[x - st + 1] ELSE D[x]]
DRemove(D, st, ln) == [x \in (DOMAIN D) \ Rng(st, ln) |-> D[x]]
\* get(start, length): the bytes if every offset is held, else None
DHas(D, st, ln)    == Rng(st, ln) \subseteq DOMAIN D
DGet(D, st, ln)    == IF DHas(D, st, ln) THEN [present |-> TRUE, data |-> [i \in 1..ln |-> D[st + i - 1]]]
                                          ELSE [present |-> FALSE, data |-> <<>>]
\* pop(start, length) = get, and remove when something was returned
DPop(D, st, ln)    == IF DHas(D, st, ln) THEN DRemove(D, st, ln) ELSE D
DLen(D)            == Cardinality(DOMAIN D)
DSpans(D)          == DOMAIN D                        \* get_spans()
\* get_chunks(): maximal runs with their bytes, ascending
Chunks(D) == LET rs == RunsSeq(DOMAIN D) IN
  [k \in 1..Len(rs) |-> <<rs[k][1], [i \in 1..rs[k][2] |-> D[rs[k][1] + i - 1]]>>]
\* the map denoted by a list of <<start, bytes>> chunks (observations); later chunks win
RECURSIVE MapOfChunks(_)
MapOfChunks(seq) == IF seq = <<>> THEN DEmpty
                    ELSE DAdd(MapOfChunks(SubSeq(seq, 1, Len(seq) - 1)), seq[Len(seq)][1], seq[Len(seq)][2])
=============================================================================
