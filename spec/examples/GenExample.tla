---------------------------- MODULE GenExample ----------------------------
(* Template for GEN mode: the Spec enumerates abstract cases together with the
   result it expects, writes them as JSON (one object per line) to
   IOEnv.OUT_FILE, and the same set is the state space of a one-step machine so
   that TLC's state count equals the case count.  The adapter replays each case
   into the real code and compares. *)
EXTENDS Integers, Sequences, FiniteSets, TLC, Json, IOUtils, SequencesExt

CONSTANT MaxN
Expected(a, b) == IF b = 0 THEN "error" ELSE "ok"
Cases == {[a |-> a, b |-> b, expect |-> Expected(a, b), quot |-> IF b = 0 THEN 0 ELSE a \div b] : a \in 0..MaxN, b \in 0..MaxN}

ASSUME ndJsonSerialize(IOEnv.OUT_FILE, SetToSeq(Cases))

VARIABLE c
Init == c \in Cases
Next == UNCHANGED c
Spec == Init /\ [][Next]_c
\* properties of the table itself can be checked as invariants over all cases
TableOK == c.expect = "ok" => c.quot * c.b <= c.a
=============================================================================
