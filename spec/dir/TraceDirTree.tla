---------------------------- MODULE TraceDirTree ----------------------------
(* Trace validation of real directory trees (harness/dir_driver.py, mode c18trees)
   against DirPack.tla.  A trace is one tree of real directories (depth <= 3); its events are
     path   one descendant reached from the root opened through its write-cap (via "w") or its
            read-cap (via "r"): the links followed (each: what was handed to the parent when the
            child was linked) and the node that list() returned (or listed = FALSE)
     plain  one mutable directory: whether its plaintext, downloaded through the read-cap,
            contains a write-cap string or base32 writekey of one of its children
   The C18 clauses are evaluated on the observation itself, then the observation is
   compared with the node the Spec derives by folding Unpack over the path. *)
EXTENDS DirPack, Json, IOUtils, TLCExt

Traces == JsonDeserialize(IOEnv.TRACE_FILE)

VARIABLES tid, l, bad
tvars == <<tid, l, bad>>

Events == Traces[tid].events
Ev == Events[l]

NormCap(c) == [pfx |-> c.pfx, kind |-> c.kind, lvl |-> c.lvl, obj |-> c.obj]
NormNode(n) == [known |-> n.known, rw |-> NormCap(n.rw), ro |-> NormCap(n.ro), err |-> n.err, mutable |-> n.mutable, dir |-> n.dir]

Root(via) == LET k == Traces[tid].consts.root_kind IN
             KnownNode(Cap("", k, IF via = "w" /\ k \in MutKinds THEN "w" ELSE "r"))

RECURSIVE Walk(_, _, _)
Walk(cur, steps, i) ==
  IF i > Len(steps) THEN [ok |-> TRUE, n |-> cur]
  ELSE LET g == steps[i]
           n == CreateFromCap(NormCap(g.rw), NormCap(g.ro), FALSE)
           u == Unpack(PackEntry(n, "md", IF cur.mutable THEN "K" ELSE ""), ~IsNone(cur.rw), cur.mutable)
       IN IF ~(cur.known /\ cur.dir) \/ PackStatus(n, ~cur.mutable) # "ok" \/ ~u.kept THEN [ok |-> FALSE, n |-> cur]
          ELSE Walk(u.n, steps, i + 1)

VPath(e) ==
  LET w == Walk(Root(e.via), e.steps, 1) IN
  IF ~e.listed THEN (IF w.ok THEN "C18_child_missing" ELSE "")
  ELSE LET obs == NormNode(e.n) IN
       IF e.via = "r" /\ ~IsNone(obs.rw) THEN "C18_Transitive"
       ELSE IF e.via = "r" /\ obs.known /\ ~e.readonly THEN "C18_Transitive_is_readonly"
       ELSE IF ~w.ok THEN "C18_unexpected_child"
       ELSE IF obs.rw # w.n.rw THEN (IF e.via = "w" THEN "C18_WriterSees" ELSE "C18_reader_view_write_uri")
       ELSE IF obs # w.n THEN "C18_view"
       ELSE IF obs.known /\ e.readonly # IsNone(w.n.rw) THEN "C18_is_readonly"
       ELSE ""

VPlain(e) == IF e.leak THEN "C18_NoLeak" ELSE ""

Verdict(e) == CASE e.ev = "path" -> VPath(e) [] e.ev = "plain" -> VPlain(e) [] e.ev = "crash" -> "C18_Crash" [] OTHER -> "unknown_event"

TraceInit == tid \in 1..Len(Traces) /\ l = 1 /\ bad = "none"

TraceNext ==
  /\ bad = "none"
  /\ l <= Len(Events)
  /\ LET c == Verdict(Ev) IN
     IF c = ""
       THEN /\ l' = l + 1 /\ bad' = "none"
            /\ (l = Len(Events) => PrintT(<<"VF_ACCEPT", tid, l>>))
       ELSE /\ bad' = c /\ UNCHANGED l
            /\ PrintT(<<"VF_REJECT", tid, l, c>>)
  /\ UNCHANGED tid

TraceSpec == TraceInit /\ [][TraceNext]_tvars
TraceOK == bad = "none"
=============================================================================
