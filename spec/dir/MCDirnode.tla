----------------------------- MODULE MCDirnode -----------------------------
(* Model checking of the directory design (Dirnode.tla): every sequence of
   add / set_nodes / delete / set-metadata / move calls of bounded length over
   small constants, from several initial contents.  Each C20 clause is an
   action property over (contents before, contents after, call, outcome). *)
EXTENDS Dirnode

CONSTANTS Dirs, RawNames, Kids, Mds, MaxOps, Dts, WithBatch, WithRO

VARIABLES D, clock, nops, last
vars == <<D, clock, nops, last>>
\* `last` (the call just made and its outcome) only feeds the action properties; it is left out of
\* the state fingerprint (VIEW) so that the state space is the space of directory contents
View == <<D, clock, nops>>

File(i, w) == [id |-> i, type |-> "file", w |-> w]
Dir(i, w)  == [id |-> i, type |-> "dir", w |-> w]
Unk(i, w)  == [id |-> i, type |-> "unknown", w |-> w]

\* the children that calls may link: an immutable file, a mutable file by write-cap,
\* each directory by write-cap, an unknown cap by write-cap
KidSet == {File("f1", FALSE)}
          \cup (IF "g" \in Kids THEN {File("g1", TRUE)} ELSE {})
          \cup (IF "d" \in Kids THEN {Dir(d, TRUE) : d \in Dirs} ELSE {})
          \cup (IF "u" \in Kids THEN {Unk("u1", TRUE)} ELSE {})

OWs == {"true", "false", "only_files"}
D1 == CHOOSE d \in Dirs : TRUE
N1 == CHOOSE n \in RawNames : TRUE

AddOps == {[op |-> "add", d |-> d, via |-> "rw", name |-> n, child |-> c, md |-> m, ow |-> ow] :
             d \in Dirs, n \in RawNames, c \in KidSet, m \in Mds \cup {"keep"}, ow \in OWs}
\* batches of two entries with distinct raw names (a dict): the interesting ones collide after
\* normalisation or hit an existing name
BatchOps == IF ~WithBatch THEN {} ELSE UNION {
            {[op |-> "addmany", d |-> D1, via |-> "rw",
              items |-> <<[name |-> n1, child |-> File("f1", FALSE), md |-> "m1"], [name |-> n2, child |-> c2, md |-> "keep"]>>, ow |-> ow] :
             n2 \in RawNames \ {n1}, c2 \in {File("f1", FALSE), Dir(D1, TRUE)}, ow \in OWs} : n1 \in RawNames}
DelFlags == {<<TRUE, FALSE, FALSE>>, <<FALSE, FALSE, FALSE>>, <<TRUE, TRUE, FALSE>>, <<TRUE, FALSE, TRUE>>}
DelOps == {[op |-> "delete", d |-> d, via |-> "rw", name |-> n, must_exist |-> f[1], must_be_dir |-> f[2], must_be_file |-> f[3]] :
             d \in Dirs, n \in RawNames, f \in DelFlags}
SetOps == {[op |-> "setmd", d |-> d, via |-> "rw", name |-> n, md |-> m] : d \in Dirs, n \in RawNames, m \in Mds}
MoveOps == {[op |-> "move", d |-> d, via |-> "rw", name |-> n, dd |-> dd, dvia |-> "rw", newname |-> nn, ow |-> ow] :
             d \in Dirs, n \in RawNames, dd \in Dirs, nn \in RawNames \cup {""}, ow \in OWs}
\* calls through a read-only handle of the directory (one representative per entry point)
ROOps == IF ~WithRO THEN {} ELSE
         {[op |-> "add", d |-> D1, via |-> "ro", name |-> N1, child |-> File("f1", FALSE), md |-> "keep", ow |-> "true"],
          [op |-> "delete", d |-> D1, via |-> "ro", name |-> N1, must_exist |-> FALSE, must_be_dir |-> FALSE, must_be_file |-> FALSE],
          [op |-> "setmd", d |-> D1, via |-> "ro", name |-> N1, md |-> "m1"]}
         \cup {[op |-> "move", d |-> D1, via |-> v[1], name |-> N1, dd |-> dd, dvia |-> v[2], newname |-> "", ow |-> "true"] :
                 dd \in Dirs, v \in {<<"ro", "rw">>, <<"rw", "ro">>}}
Ops == AddOps \cup BatchOps \cup DelOps \cup SetOps \cup MoveOps \cup ROOps

Empty == [d \in Dirs |-> <<>>]
\* initial contents: empty; a pre-1.4 entry (ctime, no 'tahoe' part); a sub-directory and a no-write entry
Inits == {Empty,
          [Empty EXCEPT ![D1] = ("a" :> [child |-> File("f1", FALSE), md |-> "ct", hasT |-> FALSE, crt |-> 0, mot |-> 0])],
          [Empty EXCEPT ![D1] = ("e1" :> [child |-> Dir(D1, TRUE), md |-> "m1", hasT |-> TRUE, crt |-> 1, mot |-> 1])]}

Init == /\ D \in Inits /\ clock = 10 /\ nops = 0
        /\ last = [o |-> [op |-> "init", via |-> "rw"], st |-> "ok", now |-> 10]

Next == /\ nops < MaxOps
        /\ \E o \in Ops, dt \in Dts :
             LET now == clock + dt
                 r == Apply(D, o, now)
             IN /\ D' = r.D /\ clock' = now /\ nops' = nops + 1
                /\ last' = [o |-> o, st |-> r.st, now |-> now]

Spec == Init /\ [][Next]_vars

\* each clause over the step just taken (checked on every transition, also into states already seen)
C20_Normalized_     == [][C20_Normalized(D, D', last'.o, last'.st, last'.now)]_vars
C20_Frame_          == [][C20_Frame(D, D', last'.o, last'.st, last'.now)]_vars
C20_FailedNoChange_ == [][C20_FailedNoChange(D, D', last'.o, last'.st, last'.now)]_vars
C20_ReadOnlyHandle_ == [][C20_ReadOnlyHandle(D, D', last'.o, last'.st, last'.now)]_vars
C20_NoOverwrite_    == [][C20_NoOverwrite(D, D', last'.o, last'.st, last'.now)]_vars
C20_OnlyFiles_      == [][C20_OnlyFiles(D, D', last'.o, last'.st, last'.now)]_vars
C20_Move_           == [][C20_Move(D, D', last'.o, last'.st, last'.now)]_vars
C20_Effect_         == [][C20_Effect(D, D', last'.o, last'.st, last'.now)]_vars
C20_Times_          == [][C20_Times(D, D', last'.o, last'.st, last'.now)]_vars
C20_NoWriteDiminishes_ == [][C20_NoWriteDiminishes(D, D', last'.o, last'.st, last'.now)]_vars
\* link-modification times never run backwards, link-creation never after modification
C20_TimeOrder == \A d \in Dirs : \A n \in DOMAIN D[d] : D[d][n].hasT => D[d][n].crt <= D[d][n].mot /\ D[d][n].mot <= clock
=============================================================================
