------------------------------ MODULE Dirnode ------------------------------
(* Tahoe-LAFS directories (allmydata/dirnode.py) as a map from normalised
   names to (child, metadata), edited by the modifiers Adder / Deleter /
   MetadataSetter and by move_child_to.

   D          function  directory id -> partial function name -> Entry
              (DOMAIN D[d] = the names linked in d)
   Entry      [child, md, hasT, crt, mot]
                child  [id, type \in {"file","dir","unknown"}, w]   w = held as write-cap
                md     the user part of the metadata (an abstract value, see MdStored)
                hasT   the entry has metadata['tahoe'] with linkcrtime/linkmotime
                crt    tahoe.linkcrtime      mot   tahoe.linkmotime
   Names are abstract: "e2" is a name that is not NFC-normalised and whose NFC
   form is "e1" (the harness binds e1 = U+00E9, e2 = U+0065 U+0301, k1 = "K",
   k2 = U+212A KELVIN SIGN).

   Every public operation is an operator  Xxx(D, ..., now) = [st, D, out]:
   st the outcome the caller sees ("ok", "redundant" or the exception class),
   D the contents of all directories afterwards, out the node handed back
   (delete / move return the unlinked child).  MCDirnode turns them into
   actions, TraceDirnode judges recorded calls of real DirectoryNodes with them.
   The C20 clauses at the end are stated over (before, after, call, outcome)
   without using the operators. *)
EXTENDS Common

(* ------------------------------- names ---------------------------------- *)
NFC == [e2 |-> "e1", k2 |-> "k1"]
Norm(x) == IF x \in DOMAIN NFC THEN NFC[x] ELSE x        \* encodingutil.normalize
IsNormal(x) == Norm(x) = x

(* ------------------------------ children -------------------------------- *)
NoChild == [id |-> "none", type |-> "none", w |-> FALSE]
\* _create_readonly_node: the same object, held through its read-cap
RO(c) == [c EXCEPT !.w = FALSE]

(* ------------------------------ metadata -------------------------------- *)
\* user metadata values:  "m0" {}   "m1" {"k":1}   "m2" {"k":2}
\*   "nw" {"no-write":true}   "ct" {"ctime":7} (pre-1.4 creation time)
\*   "mt" {"k":1,"tahoe":{"linkcrtime":1,"linkmotime":1}}  -- a caller trying to set the system part
\*   "keep" stands for metadata=None (keep what is there)
CtimeVal == 7
MdStored(m) == IF m = "mt" THEN "m1" ELSE m       \* update_metadata: the caller's 'tahoe' key is dropped
NoWrite(m) == m = "nw"
HasCtime(m) == m = "ct"

Has(D, d, n) == n \in DOMAIN D[d]
Put(f, n, e) == [x \in (DOMAIN f) \cup {n} |-> IF x = n THEN e ELSE f[x]]
Del(f, n) == [x \in (DOMAIN f) \ {n} |-> f[x]]

\* update_metadata + the no-write rule of Adder.modify / MetadataSetter.modify
NewEntry(D, d, n, child, md, now) ==
  LET ex  == Has(D, d, n)
      umd == IF md = "keep" THEN (IF ex THEN D[d][n].md ELSE "m0") ELSE MdStored(md)
      crt == IF ex /\ D[d][n].hasT THEN D[d][n].crt
             ELSE IF ex /\ HasCtime(D[d][n].md) THEN CtimeVal
             ELSE now
  IN [child |-> IF NoWrite(umd) THEN RO(child) ELSE child,
      md |-> umd, hasT |-> TRUE, crt |-> crt, mot |-> now]

R(st, D, out) == [st |-> st, D |-> D, out |-> out]

(* ---------------------- Adder (set_node / set_nodes) --------------------- *)
\* one entry of Adder.modify
AddStatus(D, d, n, ow) ==
  IF ~Has(D, d, n) THEN "ok"
  ELSE IF ow = "false" THEN "ExistingChildError"
  ELSE IF ow = "only_files" /\ D[d][n].child.type = "dir" THEN "ExistingChildError"
  ELSE "ok"

Add(D, d, via, raw, child, md, ow, now) ==
  LET n == Norm(raw) IN
  IF via = "ro" THEN R("NotWriteableError", D, NoChild)
  ELSE IF AddStatus(D, d, n, ow) # "ok" THEN R(AddStatus(D, d, n, ow), D, NoChild)
  ELSE R("ok", [D EXCEPT ![d] = Put(D[d], n, NewEntry(D, d, n, child, md, now))], NoChild)

\* set_nodes: one modifier, the entries are applied in order to the same unpacked
\* contents; the first failure aborts the whole modification (nothing is written)
RECURSIVE AddFold(_, _, _, _, _, _, _)
AddFold(D0, D, d, items, i, ow, now) ==
  IF i > Len(items) THEN R("ok", D, NoChild)
  ELSE LET n == Norm(items[i].name) IN
       IF AddStatus(D, d, n, ow) # "ok" THEN R(AddStatus(D, d, n, ow), D0, NoChild)
       ELSE AddFold(D0, [D EXCEPT ![d] = Put(D[d], n, NewEntry(D, d, n, items[i].child, items[i].md, now))],
                    d, items, i + 1, ow, now)

AddMany(D, d, via, items, ow, now) ==
  IF via = "ro" THEN R("NotWriteableError", D, NoChild) ELSE AddFold(D, D, d, items, 1, ow, now)

(* ------------------------------- Deleter -------------------------------- *)
Delete(D, d, via, raw, mustExist, mustBeDir, mustBeFile) ==
  LET n == Norm(raw) IN
  IF via = "ro" THEN R("NotWriteableError", D, NoChild)
  ELSE IF ~Has(D, d, n) THEN (IF mustExist THEN R("NoSuchChildError", D, NoChild) ELSE R("ok", D, NoChild))
  ELSE IF mustBeDir /\ D[d][n].child.type = "file" THEN R("ChildOfWrongTypeError", D, NoChild)
  ELSE IF mustBeFile /\ D[d][n].child.type = "dir" THEN R("ChildOfWrongTypeError", D, NoChild)
  ELSE R("ok", [D EXCEPT ![d] = Del(D[d], n)], D[d][n].child)

(* ---------------------------- MetadataSetter ---------------------------- *)
SetMd(D, d, via, raw, md, now) ==
  LET n == Norm(raw) IN
  IF via = "ro" THEN R("NotWriteableError", D, NoChild)
  ELSE IF ~Has(D, d, n) THEN R("NoSuchChildError", D, NoChild)
  ELSE R("ok", [D EXCEPT ![d] = Put(D[d], n, NewEntry(D, d, n, D[d][n].child, md, now))], NoChild)

(* ----------------------------- move_child_to ---------------------------- *)
\* newraw = "" stands for new_child_namex=None
Move(D, sd, svia, raw, dd, dvia, newraw, ow, now) ==
  LET cur == Norm(raw)
      new == IF newraw = "" THEN cur ELSE Norm(newraw)
  IN IF svia = "ro" \/ dvia = "ro" THEN R("NotWriteableError", D, NoChild)
     ELSE IF sd = dd /\ new = cur THEN R("redundant", D, NoChild)
     ELSE IF ~Has(D, sd, cur) THEN R("NoSuchChildError", D, NoChild)
     ELSE LET e == D[sd][cur]
              a == Add(D, dd, "rw", new, e.child, e.md, ow, now)
          IN IF a.st # "ok" THEN R(a.st, D, NoChild)
             ELSE R("ok", [a.D EXCEPT ![sd] = Del(a.D[sd], cur)], e.child)

(* ------------------------------ dispatcher ------------------------------ *)
Apply(D, o, now) ==
  CASE o.op = "add"     -> Add(D, o.d, o.via, o.name, o.child, o.md, o.ow, now)
    [] o.op = "addmany" -> AddMany(D, o.d, o.via, o.items, o.ow, now)
    [] o.op = "delete"  -> Delete(D, o.d, o.via, o.name, o.must_exist, o.must_be_dir, o.must_be_file)
    [] o.op = "setmd"   -> SetMd(D, o.d, o.via, o.name, o.md, now)
    [] o.op = "move"    -> Move(D, o.d, o.via, o.name, o.dd, o.dvia, o.newname, o.ow, now)

(* =========================== C20, stated directly ========================
   over one call o made at time `now` on contents D that answered st and left
   contents D2.  Nothing below refers to the operators above. *)
Same(D, D2, d, n) == Has(D, d, n) = Has(D2, d, n) /\ (Has(D, d, n) => D[d][n] = D2[d][n])
AllNames(D, D2) == UNION {DOMAIN D[d] : d \in DOMAIN D} \cup UNION {DOMAIN D2[d] : d \in DOMAIN D2}

MoveNew(o) == IF o.newname = "" THEN Norm(o.name) ELSE Norm(o.newname)
Touched(o) ==
  CASE o.op = "addmany" -> {<<o.d, Norm(o.items[i].name)>> : i \in 1..Len(o.items)}
    [] o.op = "move"    -> {<<o.d, Norm(o.name)>>, <<o.dd, MoveNew(o)>>}
    [] OTHER            -> {<<o.d, Norm(o.name)>>}
IsOk(st) == st \in {"ok", "redundant"}

\* the contents are a map keyed by *normalised* names
C20_Normalized(D, D2, o, st, now) == \A d \in DOMAIN D2 : \A n \in DOMAIN D2[d] : IsNormal(n)
\* an operation changes no binding but the ones it names (after normalisation)
C20_Frame(D, D2, o, st, now) ==
  /\ DOMAIN D2 = DOMAIN D
  /\ \A d \in DOMAIN D : \A n \in AllNames(D, D2) : <<d, n>> \notin Touched(o) => Same(D, D2, d, n)
\* an operation that reports an error changed nothing
C20_FailedNoChange(D, D2, o, st, now) == ~IsOk(st) => D2 = D
\* through a read-only handle nothing can be edited
C20_ReadOnlyHandle(D, D2, o, st, now) ==
  (o.via = "ro" \/ (o.op = "move" /\ o.dvia = "ro")) => st = "NotWriteableError" /\ D2 = D
\* overwrite=False never replaces an entry
C20_NoOverwrite(D, D2, o, st, now) ==
  /\ (o.op = "add" /\ o.ow = "false" /\ Has(D, o.d, Norm(o.name))) => ~IsOk(st) /\ Same(D, D2, o.d, Norm(o.name))
  /\ (o.op = "addmany" /\ o.ow = "false" /\ \E i \in 1..Len(o.items) : Has(D, o.d, Norm(o.items[i].name))) => ~IsOk(st) /\ D2 = D
  /\ (o.op = "move" /\ o.ow = "false" /\ Has(D, o.dd, MoveNew(o))) => Same(D, D2, o.dd, MoveNew(o))
\* overwrite=ONLY_FILES never replaces a directory
C20_OnlyFiles(D, D2, o, st, now) ==
  /\ (o.op \in {"add"} /\ o.ow = "only_files" /\ Has(D, o.d, Norm(o.name)) /\ D[o.d][Norm(o.name)].child.type = "dir")
        => ~IsOk(st) /\ Same(D, D2, o.d, Norm(o.name))
  /\ (o.op = "addmany" /\ o.ow = "only_files") =>
        \A i \in 1..Len(o.items) : LET n == Norm(o.items[i].name) IN
           (Has(D, o.d, n) /\ D[o.d][n].child.type = "dir") => Same(D, D2, o.d, n)
  /\ (o.op = "move" /\ o.ow = "only_files" /\ Has(D, o.dd, MoveNew(o)) /\ D[o.dd][MoveNew(o)].child.type = "dir")
        => Same(D, D2, o.dd, MoveNew(o))
\* a rename that fails leaves the child linked under its old name; one that succeeds
\* links the same object under the new name and only there
C20_Move(D, D2, o, st, now) ==
  o.op = "move" =>
    LET cur == Norm(o.name) new == MoveNew(o) IN
    /\ (st # "ok" /\ Has(D, o.d, cur)) => Same(D, D2, o.d, cur)
    /\ (st = "ok") => /\ Has(D, o.d, cur)
                      /\ ~Has(D2, o.d, cur)
                      /\ Has(D2, o.dd, new)
                      /\ D2[o.dd][new].child.id = D[o.d][cur].child.id
                      /\ D2[o.dd][new].md = D[o.d][cur].md
    /\ (st = "redundant") => o.d = o.dd /\ cur = new
\* successful add / set-metadata / delete have the map effect
C20_Effect(D, D2, o, st, now) ==
  /\ (o.op = "add" /\ st = "ok") => /\ Has(D2, o.d, Norm(o.name))
                                    /\ D2[o.d][Norm(o.name)].child.id = o.child.id
                                    /\ (o.md # "keep" => D2[o.d][Norm(o.name)].md = MdStored(o.md))
                                    /\ ((o.md = "keep" /\ Has(D, o.d, Norm(o.name))) => D2[o.d][Norm(o.name)].md = D[o.d][Norm(o.name)].md)
  /\ (o.op = "addmany" /\ st = "ok") => \A i \in 1..Len(o.items) : Has(D2, o.d, Norm(o.items[i].name))
  /\ (o.op = "setmd" /\ st = "ok") => /\ Has(D, o.d, Norm(o.name)) /\ Has(D2, o.d, Norm(o.name))
                                      /\ D2[o.d][Norm(o.name)].child.id = D[o.d][Norm(o.name)].child.id
                                      /\ D2[o.d][Norm(o.name)].md = MdStored(o.md)
  /\ (o.op = "setmd" /\ ~Has(D, o.d, Norm(o.name)) /\ o.via = "rw") => st = "NoSuchChildError"
  /\ (o.op = "delete" /\ st = "ok") => ~Has(D2, o.d, Norm(o.name))
  /\ (o.op = "delete" /\ o.via = "rw" /\ ~Has(D, o.d, Norm(o.name))) => st = (IF o.must_exist THEN "NoSuchChildError" ELSE "ok")
\* link times: an updated entry keeps its link-creation time, its modification time is the
\* time of the update; a new link is created now
C20_Times(D, D2, o, st, now) ==
  \A p \in Touched(o) :
    LET d == p[1] n == p[2] IN
    (d \in DOMAIN D2 /\ Has(D2, d, n) /\ ~Same(D, D2, d, n)) =>
       /\ D2[d][n].hasT
       /\ D2[d][n].mot = now
       /\ (Has(D, d, n) /\ D[d][n].hasT) => D2[d][n].crt = D[d][n].crt
       /\ (Has(D, d, n) /\ ~D[d][n].hasT /\ HasCtime(D[d][n].md)) => D2[d][n].crt = CtimeVal
       /\ ~Has(D, d, n) => D2[d][n].crt = now
\* an entry whose metadata says no-write holds its child read-only
C20_NoWriteDiminishes(D, D2, o, st, now) ==
  \A p \in Touched(o) :
    LET d == p[1] n == p[2] IN
    (d \in DOMAIN D2 /\ Has(D2, d, n) /\ ~Same(D, D2, d, n) /\ NoWrite(D2[d][n].md)) => ~D2[d][n].child.w

\* name of the first clause that fails ("" = all hold)
C20_FirstFailing(D, D2, o, st, now) ==
  IF ~C20_Normalized(D, D2, o, st, now) THEN "C20_Normalized"
  ELSE IF ~C20_Frame(D, D2, o, st, now) THEN "C20_Frame"
  ELSE IF ~C20_ReadOnlyHandle(D, D2, o, st, now) THEN "C20_ReadOnlyHandle"
  ELSE IF ~C20_FailedNoChange(D, D2, o, st, now) THEN "C20_FailedNoChange"
  ELSE IF ~C20_NoOverwrite(D, D2, o, st, now) THEN "C20_NoOverwrite"
  ELSE IF ~C20_OnlyFiles(D, D2, o, st, now) THEN "C20_OnlyFiles"
  ELSE IF ~C20_Move(D, D2, o, st, now) THEN "C20_Move"
  ELSE IF ~C20_Effect(D, D2, o, st, now) THEN "C20_Effect"
  ELSE IF ~C20_Times(D, D2, o, st, now) THEN "C20_Times"
  ELSE IF ~C20_NoWriteDiminishes(D, D2, o, st, now) THEN "C20_NoWriteDiminishes"
  ELSE ""
=============================================================================
