--------------------------- MODULE TraceDeepResults ---------------------------
(* Trace validation of the result objects of checking and traversing against DeepResults.tla
   (harness/deepres_driver.py).  A trace is one graph of real objects (consts: type, kids, root, K, N) or, for
   family "agg", one sequence of synthetic per-object results.  Events:
     truth       what the harness measured on the servers' disks (T: per distributed object gn / bn / damaged share
                 files) and the sizes of files and serialised directories; after = build / damage / repair
     stats       start_deep_stats (node API) or t=start-deep-stats (JSON of /operations/$handle)
     deepsize    t=start-deep-size, output=text
     manifest    build_manifest (api), t=start-manifest (web_json, web_text), t=stream-manifest (stream)
     deepcheck   start_deep_check (api), t=start-deep-check + /operations/$handle?output=JSON (web),
                 t=stream-deep-check (stream)
     deeprepair  the same with repair
     webcheck    t=check&output=JSON of one object
     agg         synthetic records through DeepCheckResults / DeepCheckAndRepairResults and their web renderers
     manifest_keys, stats_doc    probes of documented field names / meanings
   For every event the clauses of DeepResults.tla are evaluated on the observation, and the observation is
   compared with what DeepResults.tla computes from the graph, the measured truth and the walk of
   DeepTraverse.tla.  The verdict is the name of the first clause that fails. *)
EXTENDS DeepResults, Json, IOUtils, TLCExt

Traces == JsonDeserialize(IOEnv.TRACE_FILE)

VARIABLES tid, l, S, bad
tvars == <<tid, l, S, bad>>

Events == Traces[tid].events
Ev == Events[l]
C == Traces[tid].consts

KidsFn(seq) == [nm \in {seq[i].name : i \in 1..Len(seq)} |->
                  LET i == CHOOSE k \in 1..Len(seq) : seq[k].name = nm IN [to |-> seq[i].to, lvl |-> seq[i].lvl]]
Graph == [type |-> [o \in DOMAIN C.type |-> C.type[o]], kids |-> [o \in DOMAIN C.type |-> KidsFn(C.kids[o])]]
Root == C.root
K == C.K
N == C.N

Walk(via) == Traverse(Graph, Root, via)
Checked(W) == {i \in 1..Len(W) : HasVC(Graph, W[i].obj)}
Mutable(o) == Graph.type[o] \in {"dir", "mfile"}

(* ------------------------------ ground truth ------------------------------ *)
TruthOf(e) == [o \in DOMAIN e.T |-> [gn |-> e.T[o].gn, bn |-> e.T[o].bn, bad |-> {[srv |-> x.srv, sh |-> x.sh] : x \in ToSet(e.T[o].bad)}]]
TT(o) == [gn |-> S.T[o].gn, bn |-> S.T[o].bn, nbad |-> Cardinality(S.T[o].bad)]
ExpPre(o, verify) == PreOf(TT(o), K, N, verify)
ExpGood(o, verify) == Visible(TT(o), verify)
BadShares(o) == {[obj |-> o, srv |-> x.srv, sh |-> x.sh] : x \in S.T[o].bad}
Fine == [h |-> TRUE, r |-> TRUE, nc |-> 0]

(* -------------------------------- deep-stats ------------------------------- *)
ObsStats(s) == [dirs |-> s.dirs, files |-> s.files, imm |-> s.imm, lit |-> s.lit, mut |-> s.mut, unk |-> s.unk, maxkids |-> s.maxkids,
                size_imm |-> s.size_imm, size_lit |-> s.size_lit, size_dirs |-> s.size_dirs, largest_dir |-> s.largest_dir,
                largest_imm |-> s.largest_imm, hist |-> {[lo |-> x.lo, hi |-> x.hi, n |-> x.n] : x \in ToSet(s.hist)}]
VStats(s, via) ==
  LET W == Walk(via)
      X == FullStats(W, Graph, S.Sz)
      O == ObsStats(s)
      sizes == SizesOf(W, S.Sz, IdxT(W, Graph, {"file", "lit"}))
  IN IF s.api # 1 THEN "DR_stats_api_version"
     ELSE IF <<O.dirs, O.imm, O.lit, O.mut, O.unk>> # <<X.dirs, X.imm, X.lit, X.mut, X.unk>> THEN "DR_stats_counts"
     ELSE IF O.files # O.imm + O.mut + O.lit THEN "DR_stats_count_files"
     ELSE IF <<O.size_imm, O.size_lit>> # <<X.size_imm, X.size_lit>> THEN "DR_stats_file_sizes"
     ELSE IF O.size_dirs # X.size_dirs THEN "DR_stats_directory_sizes"
     ELSE IF O.largest_imm # X.largest_imm THEN "DR_stats_largest_file"
     \* largest-directory-children is not documented: absent (-1) is fine
     ELSE IF O.maxkids \notin {X.maxkids, -1} THEN "DR_stats_largest_directory_children"
     \* largest-directory: documented as a number of children, implemented as a number of bytes; either reading is
     \* accepted here, the documented one is judged by the probe event stats_doc
     ELSE IF O.largest_dir \notin {X.largest_dir, X.maxkids} THEN "DR_stats_largest_directory"
     ELSE IF s.hist_rows # Cardinality(O.hist) THEN "DR_hist_rows"
     ELSE IF ~DR_HistBuckets(O.hist) THEN "DR_hist_buckets"
     ELSE IF ~DR_HistPartition(O.hist, sizes) THEN "DR_hist_partition"
     ELSE IF O.hist # X.hist THEN "DR_hist"
     ELSE IF ~DR_StatsRelations([O EXCEPT !.largest_dir = X.largest_dir]) THEN "DR_stats_relations"
     ELSE ""

VStatsEv(e) ==
  IF e.st # "ok" THEN "DR_deepstats_failed"
  ELSE IF ~e.finished THEN "DR_not_finished"
  ELSE VStats(e.stats, e.via)

VDeepSize(e) ==
  IF e.st # "ok" THEN "DR_deepsize_failed"
  ELSE IF ~e.finished THEN "DR_not_finished"
  ELSE IF e.size # DeepSizeOf(FullStats(Walk(e.via), Graph, S.Sz)) THEN "DR_deepsize"
  ELSE ""

(* --------------------------------- manifest -------------------------------- *)
UnitType(o) == IF IsDirT(Graph.type[o]) THEN "directory" ELSE "file"
VManifest(e) ==
  LET W == Walk(e.via)
      obs == {[path |-> e.vis[i].path, obj |-> e.vis[i].obj] : i \in 1..Len(e.vis)}
      want == {[path |-> W[i].path, obj |-> W[i].obj] : i \in 1..Len(W)}
      nvc == Cardinality({W[i].obj : i \in Checked(W)})
      LvlAt(p) == LET i == CHOOSE k \in 1..Len(W) : W[k].path = p IN W[i].lvl
  IN IF e.st # "ok" THEN "DR_manifest_failed"
     ELSE IF ~e.finished THEN "DR_not_finished"
     ELSE IF ~e.origin_ok THEN "DR_manifest_origin"
     ELSE IF obs # want \/ Len(e.vis) # Len(W) THEN "DR_manifest_walk"
     ELSE IF e.has_counts /\ e.nvc # nvc THEN "DR_manifest_verifycaps"
     ELSE IF e.has_counts /\ e.nsi # nvc THEN "DR_manifest_storage_index"
     \* t=stream-manifest: LIT files (and everything else that is not distributed) carry no verifycap / repaircap /
     \* storage-index; "repaircap": the weakest cap that can still be used to repair the object
     ELSE IF e.has_units /\ \E i \in 1..Len(e.vis) : Graph.type[e.vis[i].obj] # "unk" /\ e.vis[i].type # UnitType(e.vis[i].obj) THEN "DR_unit_type"
     ELSE IF e.has_units /\ \E i \in 1..Len(e.vis) : e.vis[i].vc # HasVC(Graph, e.vis[i].obj) THEN "DR_unit_verifycap"
     ELSE IF e.has_units /\ \E i \in 1..Len(e.vis) : e.vis[i].si # HasVC(Graph, e.vis[i].obj) THEN "DR_unit_storage_index"
     \* (not judged for immutable directories: get_repair_cap answers None for them although their repair works)
     ELSE IF e.has_units /\ \E i \in 1..Len(e.vis) : Graph.type[e.vis[i].obj] # "idir" /\
                e.vis[i].rc # (HasVC(Graph, e.vis[i].obj) /\ Repairable(Graph, e.vis[i].obj, LvlAt(e.vis[i].path))) THEN "DR_unit_repaircap"
     \* the weakest cap that can repair: the verify-cap of an immutable file, the write-cap of a mutable object
     ELSE IF e.has_units /\ \E i \in 1..Len(e.vis) : Graph.type[e.vis[i].obj] # "idir" /\ e.vis[i].rc /\
                e.vis[i].rck # (IF Mutable(e.vis[i].obj) THEN "w" ELSE "v") THEN "DR_unit_repaircap_kind"
     ELSE IF e.has_stats THEN VStats(e.stats, e.via)
     ELSE ""

(* -------------------------------- deep-check ------------------------------- *)
HR(x) == [h |-> x.h, r |-> x.r, nc |-> x.nc]
\* the records the Spec expects for a plain deep-check of the walk W
ExpCheckRecs(W, verify) ==
  [i \in 1..Len(W) |-> LET p == IF HasVC(Graph, W[i].obj) THEN ExpPre(W[i].obj, verify) ELSE Fine IN
                       [path |-> W[i].path, lit |-> ~HasVC(Graph, W[i].obj), pre |-> p, att |-> FALSE, succ |-> FALSE, post |-> p]]
PathObj(W, I) == {[path |-> W[i].path, obj |-> W[i].obj] : i \in I}
ObsC(c) == [checked |-> c.checked, healthy |-> c.healthy, unhealthy |-> c.unhealthy, unrec |-> c.unrec, ncorrupt |-> c.ncorrupt]
Locs(seq) == {[obj |-> x.obj, srv |-> x.srv, sh |-> x.sh] : x \in ToSet(seq)}
ExpCorrupt(W, verify) == IF verify THEN UNION {BadShares(W[i].obj) : i \in Checked(W)} ELSE {}

\* one reported per-object result x = [h, r, nc, good, k, n, listed] against the truth about object o
VObject(x, o, verify) ==
  IF HR(x) # ExpPre(o, verify) THEN "DR_object_result"
  \* (the encoding parameters of a mutable object are read from its shares: without any share they are not known)
  ELSE IF x.good # ExpGood(o, verify) \/ (ExpGood(o, verify) > 0 /\ <<x.k, x.n>> # <<K, N>>) THEN "DR_object_share_counts"
  ELSE IF x.listed # x.nc THEN "DR_object_corrupt_list"
  ELSE ""

VDeepCheck(e) ==
  LET W == Walk(e.via)
      I == Checked(W)
      L == ExpCheckRecs(W, e.verify)
      X == AggCheck(L)
      R == ObsC(e.c)
      res == e.results
      Lobs == [i \in 1..Len(res) |-> [path |-> res[i].path, lit |-> FALSE, pre |-> HR(res[i]), att |-> FALSE, succ |-> FALSE, post |-> HR(res[i])]]
      objv == {VObject(res[i], res[i].obj, e.verify) : i \in 1..Len(res)} \ {""}
      unhv == {VObject(e.unhealthy[i], e.unhealthy[i].obj, e.verify) : i \in 1..Len(e.unhealthy)} \ {""}
  IN IF e.st # "ok" THEN "DR_deepcheck_failed"
     ELSE IF ~e.finished THEN "DR_not_finished"
     ELSE IF ~e.root_ok THEN "DR_root_storage_index"
     ELSE IF e.nunits # -1 /\ e.nunits # Len(W) THEN "DR_stream_units"
     ELSE IF e.has_results /\ ({[path |-> res[i].path, obj |-> res[i].obj] : i \in 1..Len(res)} # PathObj(W, I) \/ Len(res) # Cardinality(I))
       THEN "DR_checked_objects"
     ELSE IF e.has_results /\ objv # {} THEN CHOOSE c \in objv : TRUE
     ELSE IF e.has_results /\ e.has_counters /\ ~DR_CheckCounters(Lobs, IF e.has_unrec THEN R ELSE [R EXCEPT !.unrec = AggCheck(Lobs).unrec])
       THEN "DR_counters_fold"
     ELSE IF e.has_counters /\ ~DR_CheckArith([R EXCEPT !.unrec = IF e.has_unrec THEN @ ELSE 0]) THEN "DR_counters_arith"
     ELSE IF e.has_counters /\ [R EXCEPT !.unrec = IF e.has_unrec THEN @ ELSE X.unrec] # X THEN "DR_counters"
     ELSE IF e.has_unhealthy /\ ({e.unhealthy[i].path : i \in 1..Len(e.unhealthy)} # UnhealthyPaths(L) \/ Len(e.unhealthy) # X.unhealthy)
       THEN "DR_unhealthy_list"
     ELSE IF e.has_unhealthy /\ unhv # {} THEN CHOOSE c \in unhv : TRUE
     ELSE IF e.has_corrupt /\ Locs(e.corrupt) # ExpCorrupt(W, e.verify) THEN "DR_corrupt_list"
     ELSE IF e.has_corrupt /\ e.has_counters /\ Len(e.corrupt) # R.ncorrupt THEN "DR_corrupt_count"
     ELSE IF e.has_stats THEN VStats(e.stats, e.via)
     ELSE ""

(* ------------------------------ deep-check-and-repair ------------------------------ *)
ObsR(c) == [checked |-> c.checked, healthy_pre |-> c.healthy_pre, unhealthy_pre |-> c.unhealthy_pre, unrec_pre |-> c.unrec_pre,
            healthy_post |-> c.healthy_post, unhealthy_post |-> c.unhealthy_post, unrec_post |-> c.unrec_post,
            att |-> c.att, succ |-> c.succ, unsucc |-> c.unsucc, ncorrupt_pre |-> c.ncorrupt_pre, ncorrupt_post |-> c.ncorrupt_post]
NoUnrec(R, Y) == [R EXCEPT !.unrec_pre = Y.unrec_pre, !.unrec_post = Y.unrec_post]
\* one reported per-object result x = [pre, att, succ, post] of the visit v = [path, obj, lvl]
VRepairObject(x, v, verify) ==
  LET o == v.obj
      pv == VObject(x.pre, o, verify)
      expatt == ~ExpPre(o, verify).h /\ Repairable(Graph, o, v.lvl)
  IN IF pv # "" THEN pv
     ELSE IF x.att # expatt THEN (IF expatt THEN "DR_repair_not_attempted" ELSE "DR_repair_attempted_needlessly")
     ELSE IF ~x.att /\ (HR(x.post) # HR(x.pre) \/ x.succ) THEN "DR_no_repair_post_is_pre"
     ELSE IF x.succ # (x.att /\ x.post.h) THEN "DR_repair_successful_flag"
     ELSE IF x.post.h /\ ~x.post.r THEN "DR_object_result_post"
     \* "During repair, any missing shares will be regenerated and uploaded to new servers": nothing but missing shares
     ELSE IF x.att /\ x.pre.r /\ TT(o).nbad = 0 /\ ~x.succ THEN "DR_repair_must_work"
     \* "Since immutable shares cannot be modified by clients, all corruption in immutable shares will be listed here"
     ELSE IF ~Mutable(o) /\ x.post.nc # x.pre.nc THEN "DR_immutable_corruption_remains"
     \* "mutable shares that were successfully repaired are not included"
     ELSE IF Mutable(o) /\ x.att /\ x.succ /\ x.post.nc # 0 THEN "DR_repaired_mutable_share_still_listed"
     ELSE ""

VDeepRepair(e) ==
  LET W == Walk(e.via)
      I == Checked(W)
      L == ExpCheckRecs(W, e.verify)
      X == AggCheck(L)
      R == ObsR(e.c)
      res == e.results
      VisitOf(p) == W[CHOOSE k \in 1..Len(W) : W[k].path = p]
      Lobs == [i \in 1..Len(res) |-> [path |-> res[i].path, lit |-> FALSE, pre |-> HR(res[i].pre), att |-> res[i].att, succ |-> res[i].succ,
                                       post |-> HR(res[i].post)]]
      objv == {VRepairObject(res[i], VisitOf(res[i].path), e.verify) : i \in 1..Len(res)} \ {""}
      unhv == {VObject(e.unhealthy[i], e.unhealthy[i].obj, e.verify) : i \in 1..Len(e.unhealthy)} \ {""}
      expatt == Cardinality({i \in I : ~L[i].pre.h /\ Repairable(Graph, W[i].obj, W[i].lvl)})
      immbad == {x \in ExpCorrupt(W, e.verify) : ~Mutable(x.obj)}
      \* the objects whose repair succeeded: reported one by one, or all that needed one when no repair failed
      repaired == IF e.has_results THEN {res[i].obj : i \in {j \in 1..Len(res) : res[j].att /\ res[j].succ}}
                  ELSE IF e.has_counters /\ R.unsucc = 0 THEN {W[i].obj : i \in {j \in I : ~L[j].pre.h /\ Repairable(Graph, W[j].obj, W[j].lvl)}}
                  ELSE {}
  IN IF e.st # "ok" THEN "DR_deeprepair_failed"
     ELSE IF ~e.finished THEN "DR_not_finished"
     ELSE IF ~e.root_ok THEN "DR_root_storage_index"
     ELSE IF e.nunits # -1 /\ e.nunits # Len(W) THEN "DR_stream_units"
     ELSE IF e.has_results /\ ({[path |-> res[i].path, obj |-> res[i].obj] : i \in 1..Len(res)} # PathObj(W, I) \/ Len(res) # Cardinality(I))
       THEN "DR_checked_objects"
     ELSE IF e.has_results /\ objv # {} THEN CHOOSE c \in objv : TRUE
     ELSE IF e.has_results /\ e.has_counters /\ ~DR_RepairCounters(Lobs, IF e.has_unrec THEN R ELSE NoUnrec(R, AggRepair(Lobs)))
       THEN "DR_counters_fold"
     ELSE IF e.has_counters /\ ~DR_RepairArith(IF e.has_unrec THEN R ELSE [R EXCEPT !.unrec_pre = 0, !.unrec_post = 0]) THEN "DR_counters_arith"
     ELSE IF e.has_counters /\ <<R.checked, R.healthy_pre, R.unhealthy_pre, R.ncorrupt_pre>> # <<X.checked, X.healthy, X.unhealthy, X.ncorrupt>>
       THEN "DR_counters_pre"
     ELSE IF e.has_counters /\ e.has_unrec /\ R.unrec_pre # X.unrec THEN "DR_counters_pre"
     ELSE IF e.has_counters /\ R.att # expatt THEN "DR_counters_repairs_attempted"
     ELSE IF e.has_counters /\ ~DR_RepairWellFormed(R) THEN "DR_counters_relations"
     \* list-unhealthy-files: the objects that were not healthy before the repair, with their pre-repair results
     ELSE IF e.has_unhealthy /\ ({e.unhealthy[i].path : i \in 1..Len(e.unhealthy)} # UnhealthyPaths(L) \/ Len(e.unhealthy) # X.unhealthy)
       THEN "DR_unhealthy_list"
     ELSE IF e.has_unhealthy /\ unhv # {} THEN CHOOSE c \in unhv : TRUE
     ELSE IF e.has_corrupt /\ Locs(e.corrupt) # ExpCorrupt(W, e.verify) THEN "DR_corrupt_list"
     ELSE IF e.has_corrupt /\ e.has_counters /\ Len(e.corrupt) # R.ncorrupt_pre THEN "DR_corrupt_count"
     ELSE IF e.has_corrupt /\ {x \in Locs(e.remaining) : ~Mutable(x.obj)} # immbad THEN "DR_remaining_immutable"
     ELSE IF e.has_corrupt /\ ~(Locs(e.remaining) \subseteq ExpCorrupt(W, e.verify)) THEN "DR_remaining_not_subset"
     ELSE IF e.has_corrupt /\ \E x \in Locs(e.remaining) : x.obj \in repaired /\ Mutable(x.obj) THEN "DR_repaired_mutable_share_still_listed"
     ELSE IF e.has_corrupt /\ e.has_counters /\ Len(e.remaining) # R.ncorrupt_post THEN "DR_remaining_count"
     ELSE IF e.has_stats THEN VStats(e.stats, e.via)
     ELSE ""

\* what the repair event leaves for the truth event that follows it
LastOf(e) ==
  LET res == e.results
      hp == IF e.has_counters THEN e.c.healthy_post ELSE Cardinality({i \in 1..Len(res) : res[i].post.h})
  IN [on |-> e.st = "ok", via |-> e.via, verify |-> e.verify, healthy_post |-> hp,
      post |-> IF e.has_results THEN {[obj |-> res[i].obj, h |-> res[i].post.h, r |-> res[i].post.r] : i \in 1..Len(res)} ELSE {}]
NoLast == [on |-> FALSE, via |-> "w", verify |-> FALSE, healthy_post |-> 0, post |-> {}]

\* the truth measured after a repair: the post-repair side of the report must be what is on the disks now
VTruth(e) ==
  IF e.after # "repair" \/ ~S.last.on THEN ""
  ELSE LET T2 == TruthOf(e)
           tt(o) == [gn |-> T2[o].gn, bn |-> T2[o].bn, nbad |-> Cardinality(T2[o].bad)]
           W == Walk(S.last.via)
           objs == {W[i].obj : i \in Checked(W)}
       IN IF \E o \in DOMAIN T2 : T2[o].gn < S.T[o].gn THEN "DR_repair_lost_shares"
          ELSE IF S.last.healthy_post # Cardinality({o \in objs : PreOf(tt(o), K, N, S.last.verify).h}) THEN "DR_post_repair_healthy_count"
          ELSE IF \E x \in S.last.post : LET p == PreOf(tt(x.obj), K, N, S.last.verify) IN x.h # p.h \/ x.r # p.r THEN "DR_post_repair_result"
          ELSE ""

VWebCheck(e) ==
  IF e.st # "ok" THEN "DR_check_failed"
  ELSE IF e.lit # ~HasVC(Graph, e.obj) THEN "DR_check_literal"
  ELSE IF e.lit THEN (IF e.rec.h THEN "" ELSE "DR_check_literal_healthy")     \* "this dictionary has only the 'healthy' key, which will always be True"
  ELSE IF ~e.si_ok THEN "DR_check_storage_index"
  ELSE VObject(e.rec, e.obj, e.verify)

(* --------------------------- synthetic records (family agg) --------------------------- *)
AggL(e) == [i \in 1..Len(e.L) |-> [path |-> e.L[i].path, lit |-> e.L[i].lit, pre |-> HR(e.L[i].pre), att |-> e.L[i].att, succ |-> e.L[i].succ,
                                    post |-> HR(e.L[i].post)]]
Ids(seq) == {[i |-> x.i, k |-> x.k, post |-> x.post] : x \in ToSet(seq)}
ExpIds(L, post) == UNION {{[i |-> L[i].path[1], k |-> k, post |-> post] : k \in 1..(IF post THEN L[i].post.nc ELSE L[i].pre.nc)} : i \in Dist(L)}
\* post-repair results that are the pre-repair results (nothing was repaired) name the same shares
ExpRemaining(L) == UNION {IF ~L[i].att /\ L[i].post = L[i].pre THEN {[i |-> L[i].path[1], k |-> k, post |-> FALSE] : k \in 1..L[i].pre.nc}
                          ELSE {[i |-> L[i].path[1], k |-> k, post |-> TRUE] : k \in 1..L[i].post.nc} : i \in Dist(L)}
VAgg(e) ==
  LET L == AggL(e)
      A == e.api
      Wb == e.web
      paths == {L[i].path : i \in Dist(L)}
      unh == Wb.unhealthy
      H3(x) == <<x.h, x.r, x.nc>>
      \* "repair-successful: True if repair was attempted and the file was fully healthy afterwards. False if no repair was
      \* attempted, or if a repair attempt failed"; LIT files: empty storage-index, nothing attempted, results = {healthy: true}
      DocOK(d) == LET x == L[d.i] IN
                  /\ d.code = 200 /\ d.lit = x.lit /\ d.si_ok
                  /\ (x.lit => d.pre.h /\ ~d.att /\ ~d.succ)
                  /\ (~x.lit => /\ H3(d.pre) = H3(x.pre) /\ d.pre.listed = d.pre.nc
                                /\ (e.repair => /\ d.att = x.att /\ d.succ = (x.att /\ x.succ)
                                                /\ H3(d.post) = H3(x.post) /\ d.post.listed = d.post.nc))
      EntryOK(x) == \E i \in Dist(L) : L[i].path = x.path /\ <<x.h, x.r, x.nc>> = <<L[i].pre.h, L[i].pre.r, L[i].pre.nc>> /\ x.listed = x.nc
  IN IF ~A.root_ok THEN "DR_root_storage_index"
     ELSE IF ToSet(A.paths) # paths \/ Len(A.paths) # Cardinality(paths) THEN "DR_all_results"
     ELSE IF ~A.by_si_ok THEN "DR_results_by_storage_index"
     ELSE IF ~A.stats_ok THEN "DR_stats_passed_on"
     ELSE IF ~e.repair /\ ~DR_CheckCounters(L, ObsC(A.c)) THEN "DR_counters"
     ELSE IF ~e.repair /\ ~DR_CheckArith(ObsC(A.c)) THEN "DR_counters_arith"
     ELSE IF e.repair /\ ~DR_RepairCounters(L, ObsR(A.c)) THEN "DR_counters"
     ELSE IF e.repair /\ ~DR_RepairArith(ObsR(A.c)) THEN "DR_counters_arith"
     ELSE IF Ids(A.corrupt) # ExpIds(L, FALSE) \/ Len(A.corrupt) # Cardinality(ExpIds(L, FALSE)) THEN "DR_corrupt_list"
     ELSE IF e.repair /\ (Ids(A.remaining) # ExpRemaining(L) \/ Len(A.remaining) # Cardinality(ExpRemaining(L))) THEN "DR_remaining_list"
     \* the JSON document
     ELSE IF Wb.code # 200 THEN "DR_web_failed"
     ELSE IF ~Wb.finished THEN "DR_not_finished"
     ELSE IF ~Wb.root_ok THEN "DR_web_root_storage_index"
     ELSE IF ~e.repair /\ ~DR_CheckCounters(L, [ObsC(Wb.c) EXCEPT !.unrec = AggCheck(L).unrec]) THEN "DR_web_counters"
     ELSE IF e.repair /\ ~DR_RepairCounters(L, [NoUnrec(ObsR(Wb.c), AggRepair(L)) EXCEPT !.ncorrupt_post = AggRepair(L).ncorrupt_post]) THEN "DR_web_counters"
     ELSE IF {unh[i].path : i \in 1..Len(unh)} # UnhealthyPaths(L) \/ Len(unh) # Cardinality(UnhealthyPaths(L)) THEN "DR_web_unhealthy_list"
     ELSE IF \E i \in 1..Len(unh) : ~EntryOK(unh[i]) THEN "DR_web_unhealthy_entry"
     ELSE IF Ids(Wb.corrupt) # ExpIds(L, FALSE) \/ Len(Wb.corrupt) # Cardinality(ExpIds(L, FALSE)) THEN "DR_web_corrupt_list"
     ELSE IF e.repair /\ (Ids(Wb.remaining) # ExpRemaining(L) \/ Len(Wb.remaining) # Cardinality(ExpRemaining(L))) THEN "DR_web_remaining_list"
     ELSE IF ~Wb.stats_ok THEN "DR_web_stats"
     \* the document of t=check / t=check&repair=true of every single object
     ELSE IF \E d \in ToSet(e.docs) : ~DocOK(d) THEN "DR_web_object_document"
     \* last (known deviation of the unchanged code: nothing else of the event is hidden by it)
     ELSE IF e.repair /\ Wb.c.ncorrupt_post # AggRepair(L).ncorrupt_post THEN "DR_web_corrupt_shares_post_repair"
     ELSE ""

(* ------------------------------- documented names ------------------------------ *)
\* webapi.rst t=start-manifest: "a JSON-formatted dictionary with six keys": finished, origin_si, manifest, verifycaps, storage-index, stats
VManifestKeys(e) ==
  IF e.st # "ok" THEN "DR_manifest_failed"
  ELSE IF ~({"finished", "origin_si", "manifest", "verifycaps", "storage-index", "stats"} \subseteq ToSet(e.keys)) THEN "DR_manifest_keys"
  ELSE ""
\* webapi.rst t=start-deep-stats: "largest-directory: number of children in the largest directory"
VStatsDoc(e) ==
  IF e.st # "ok" THEN "DR_deepstats_failed"
  ELSE IF e.largest_dir # FullStats(Walk(e.via), Graph, S.Sz).maxkids THEN "DR_stats_largest_directory_documented"
  ELSE ""

(* ---------------------------------- the machine --------------------------------- *)
After_(e) ==
  CASE e.ev = "truth"      -> [S EXCEPT !.T = TruthOf(e), !.Sz = [o \in DOMAIN e.size |-> e.size[o]], !.last = NoLast]
    [] e.ev = "deeprepair" -> [S EXCEPT !.last = LastOf(e)]
    [] OTHER               -> S

Verdict(e) ==
  CASE e.ev = "truth"         -> VTruth(e)
    [] e.ev = "stats"         -> VStatsEv(e)
    [] e.ev = "deepsize"      -> VDeepSize(e)
    [] e.ev = "manifest"      -> VManifest(e)
    [] e.ev = "deepcheck"     -> VDeepCheck(e)
    [] e.ev = "deeprepair"    -> VDeepRepair(e)
    [] e.ev = "webcheck"      -> VWebCheck(e)
    [] e.ev = "agg"           -> VAgg(e)
    [] e.ev = "manifest_keys" -> VManifestKeys(e)
    [] e.ev = "stats_doc"     -> VStatsDoc(e)
    [] e.ev = "crash"         -> "DR_harness_crash"
    [] OTHER                  -> "unknown_event"

TraceInit == /\ tid \in 1..Len(Traces) /\ l = 1 /\ bad = "none"
             /\ S = [T |-> <<>>, Sz |-> <<>>, last |-> NoLast]
TraceNext ==
  /\ bad = "none"
  /\ l <= Len(Events)
  /\ LET c == Verdict(Ev) IN
     IF c = ""
       THEN /\ S' = After_(Ev) /\ l' = l + 1 /\ bad' = "none"
            /\ (l = Len(Events) => PrintT(<<"VF_ACCEPT", tid, l>>))
       ELSE /\ bad' = c /\ UNCHANGED <<S, l>>
            /\ PrintT(<<"VF_REJECT", tid, l, c>>)
  /\ UNCHANGED tid
TraceSpec == TraceInit /\ [][TraceNext]_tvars
TraceOK == bad = "none"
=============================================================================
