----------------------------- MODULE MCDeepStats -----------------------------
(* deep-stats / deep-size of every graph of MCDeepTraverse.tla: the record FullStats computes from the traversal
   (DeepResults.tla) against the documented aggregate stated as a fold over the objects reachable from the root
   (objects with a verify-cap count once, literal files and unknown caps once per link of a visited directory).
   Sizes: a fixed table by object number (values around bucket boundaries); mutable files and unknown caps have
   no measured size. *)
EXTENDS MCDeepTraverse, DeepResults

SzTable == <<700, 3, 4, 100, 101, 0, 11, 1000>>
ObjNo(o) == CHOOSE i \in 1..MaxObjs : ObjId(i) = o
SzG == [o \in DOMAIN G.type |-> IF G.type[o] \in {"mfile", "unk"} THEN 0 ELSE SzTable[ObjNo(o)]]
St == FullStats(vis, G, SzG)
R == Reach(G, "o1")
RT(T) == {o \in R : G.type[o] \in T}
\* links of reachable directories that lead to an object of a type in T
Links(T) == {p \in RT({"dir"}) \X (1..MaxNames) : p[2] \in DOMAIN G.kids[p[1]] /\ G.type[G.kids[p[1]][p[2]].to] \in T}
LinkSz(T) == LET P == Links(T) IN SumOver([p \in P |-> SzG[G.kids[p[1]][p[2]].to]], P)

XS_Counts == /\ St.dirs = Cardinality(RT({"dir"})) /\ St.imm = Cardinality(RT({"file"})) /\ St.mut = Cardinality(RT({"mfile"}))
             /\ St.lit = Cardinality(Links({"lit"})) /\ St.unk = Cardinality(Links({"unk"}))
             /\ St.files = St.imm + St.mut + St.lit
             /\ St.maxkids = SetMax({Cardinality(DOMAIN G.kids[d]) : d \in RT({"dir"})})
XS_Sizes == /\ St.size_imm = SumOver(SzG, RT({"file"})) /\ St.size_dirs = SumOver(SzG, RT({"dir"}))
            /\ St.size_lit = LinkSz({"lit"})
            /\ St.largest_imm = SetMax({0} \cup {SzG[o] : o \in RT({"file"})})
            /\ St.largest_dir = SetMax({SzG[o] : o \in RT({"dir"})})
XS_DeepSize == DeepSizeOf(St) = SumOver(SzG, RT({"dir", "file"}))
XS_Relations == DR_StatsRelations(St)
XS_Hist == LET sizes == SizesOf(vis, SzG, IdxT(vis, G, {"file", "lit"})) IN
           DR_HistPartition(St.hist, sizes) /\ DR_HistBuckets(St.hist) /\ Len(sizes) = St.imm + St.lit
XS_ReadOnlySame == FullStats(Traverse(G, "o1", "r"), G, SzG) = St
=============================================================================
