-------------------------- MODULE TraceDirnodeMore --------------------------
(* Trace validation of real DirectoryNodes (harness/dirops_driver.py, mode ops)
   against DirnodeMore.tla.  One event = one call at a pinned time `now`:
     add / addmany / delete / setmd / move        (Dirnode.tla, C20)
     mkdir        create_subdirectory(name, initial children, overwrite, mutable, metadata)
     addfile      add_file(name, uploadable, metadata, overwrite)
     setchildren  set_children({name: (writecap, readcap[, metadata])}, overwrite)
     has / get / getmd / list / path              the read calls
   with what the caller saw: st ("ok", "redundant" or the exception class), out (node handed
   back), upl (storage servers were asked to allocate buckets during the call), has, emd
   (metadata answered), missing (the name a NoSuchChildError carries), listing; and
   obs = list() of every directory that exists afterwards, imm = the immutable ones.

   For every event first the clauses (those of C20 for the C20 calls, then the XM ones) are evaluated on the
   observed step, then the answer and the contents are compared with the operators.
   Verdict = the first clause that fails; a wrong outcome is named
   "XM_st_<call>_<expected>_got_<observed>" (outcomes abbreviated, TLC prints a verdict on one line). *)
EXTENDS DirnodeMore, Json, IOUtils, TLCExt

Traces == JsonDeserialize(IOEnv.TRACE_FILE)

VARIABLES tid, l, S, bad
tvars == <<tid, l, S, bad>>

Events == Traces[tid].events
Ev == Events[l]

NormChild(c) == [id |-> c.id, type |-> c.type, w |-> c.w]
NormDir(o) == [n \in DOMAIN o |-> [child |-> NormChild(o[n].child), md |-> o[n].md, hasT |-> o[n].hasT, crt |-> o[n].crt, mot |-> o[n].mot]]
NormD(o) == [d \in DOMAIN o |-> NormDir(o[d])]
NormMd(m) == [md |-> m.md, hasT |-> m.hasT, crt |-> m.crt, mot |-> m.mot]
NormKids(k) == [i \in 1..Len(k) |-> [name |-> k[i].name, child |-> NormChild(k[i].child), md |-> k[i].md]]

\* the call as the operators want it (children as Spec records)
Call(e) ==
  CASE e.op = "add"         -> [e EXCEPT !.child = NormChild(@)]
    [] e.op = "addmany"     -> [e EXCEPT !.items = NormKids(@)]
    [] e.op = "setchildren" -> [e EXCEPT !.items = NormKids(@)]
    [] e.op = "mkdir"       -> [e EXCEPT !.kids = NormKids(@)]
    [] OTHER                -> e

Observed(e) == [st |-> e.st, out |-> NormChild(e.out), upl |-> e.upl, has |-> e.has, emd |-> NormMd(e.emd),
                missing |-> e.missing, listing |-> NormDir(e.listing)]

Abbrev(st) == CASE st = "NotWriteableError" -> "NotWr" [] st = "NoSuchChildError" -> "NoChild"
                 [] st = "ExistingChildError" -> "Exists" [] st = "MustBeDeepImmutableError" -> "DeepImm"
                 [] st = "ChildOfWrongTypeError" -> "WrongType" [] OTHER -> st
Outcome(e, x) == "XM_st_" \o e.op \o "_" \o Abbrev(x.st) \o "_got_" \o Abbrev(e.st)

Verdict(e) ==
  LET o   == Call(e)
      W2  == [D |-> NormD(e.obs), imm |-> ToSet(e.imm)]
      r   == Observed(e)
      x   == ApplyMore(S, o, IF e.st = "ok" /\ e.op = "mkdir" THEN r.out.id ELSE "none", e.now)
      c20 == IF e.op \in C20Ops /\ DOMAIN W2.D = DOMAIN S.D THEN C20_FirstFailing(S.D, W2.D, AsC20(S, o), e.st, e.now) ELSE ""
      pc  == XM_FirstFailing(S, W2, o, r, e.now)
  IN IF e.st # x.st /\ (~IsOk(e.st) \/ ~IsOk(x.st)) /\ W2 = S THEN Outcome(e, x)
     ELSE IF c20 # "" THEN c20
     ELSE IF pc # "" THEN pc
     ELSE IF e.st # x.st THEN Outcome(e, x)
     ELSE IF r.out # x.out THEN "XM_returned_node"
     ELSE IF r.upl # x.upl /\ (e.op # "addfile" \/ UplAllowed(S, o, e.st) # BOOLEAN) THEN "XM_upload_side_effect"
     ELSE IF r.has # x.has THEN "XM_has_child"
     ELSE IF r.emd # x.emd THEN "XM_metadata_answer"
     ELSE IF r.missing # x.missing THEN "XM_missing_name"
     ELSE IF r.listing # x.listing THEN "XM_listing"
     ELSE IF W2 # x.W THEN "XM_contents"
     ELSE ""

TraceInit ==
  /\ tid \in 1..Len(Traces)
  /\ l = 1
  /\ S = [D |-> NormD(Traces[tid].consts.init), imm |-> {}]
  /\ bad = "none"

TraceNext ==
  /\ bad = "none"
  /\ l <= Len(Events)
  /\ LET c == Verdict(Ev) IN
     IF c = ""
       THEN /\ S' = [D |-> NormD(Ev.obs), imm |-> ToSet(Ev.imm)] /\ l' = l + 1 /\ bad' = "none"
            /\ (l = Len(Events) => PrintT(<<"VF_ACCEPT", tid, l>>))
       ELSE /\ bad' = c /\ UNCHANGED <<S, l>>
            /\ PrintT(<<"VF_REJECT", tid, l, c>>)
  /\ UNCHANGED tid

TraceSpec == TraceInit /\ [][TraceNext]_tvars
TraceOK == bad = "none"
=============================================================================
