------------------------------ MODULE DirPack ------------------------------
(* How a Tahoe-LAFS directory stores its children (allmydata/dirnode.py
   pack_children / _pack_normalized_children / DirectoryNode._unpack_contents,
   nodemaker.NodeMaker.create_from_cap, unknown.UnknownNode, uri.from_string).

   A capability string is modelled as a record
       [pfx, kind, lvl, obj]
     pfx   ""  | "ro." (ALLEGED_READONLY_PREFIX) | "imm." (ALLEGED_IMMUTABLE_PREFIX)
     kind  CHK LIT DIR2-CHK DIR2-LIT            immutable kinds (one form, lvl "r")
           SSK MDMF DIR2 DIR2-MDMF              mutable kinds: lvl "w" write-cap, "r" read-cap
           FUT                                   a cap of a future format (opaque to this version)
           FUTW FUTM                             x-tahoe-future-test-writeable: / -mutable: test caps
     obj   the object the cap designates
   NoCap stands for None / the empty string.

   A node (what create_from_cap returns) is
       [known, rw, ro, err, mutable, dir]
     rw = get_write_uri(), ro = get_readonly_uri(), err = the error an opaque
     UnknownNode records ("" = none).

   A stored entry is [name, ro, rwenc, md]: name / ro / md are plaintext for every
   holder of the directory's read-cap; rwenc = Enc(directory writekey, rw) can be
   opened only with the directory's write-cap.  Properties: C19 (round trip,
   immutable directories refuse mutable / write-capable children) and C18
   (read-only access is transitive, no write-cap leaks to read-cap holders). *)
EXTENDS Common

NoCap == [pfx |-> "", kind |-> "none", lvl |-> "", obj |-> ""]
IsNone(c) == c.kind = "none"
Strip(c) == [c EXCEPT !.pfx = ""]
WithPfx(c, p) == [c EXCEPT !.pfx = p]

ImmKinds == {"CHK", "LIT", "DIR2-CHK", "DIR2-LIT"}
MutKinds == {"SSK", "MDMF", "DIR2", "DIR2-MDMF"}
FutKinds == {"FUT", "FUTW", "FUTM"}
DirKinds == {"DIR2", "DIR2-MDMF", "DIR2-CHK", "DIR2-LIT"}

(* uri.from_string(u, deep_immutable): "known", "unknown" (UnknownURI without error) or the
   class of the error an UnknownURI carries *)
FromString(c, deepImm) ==
  LET canMut == ~deepImm /\ c.pfx # "imm."
      canWr  == ~deepImm /\ c.pfx = ""
      err    == IF ~canMut THEN "MustBeDeepImmutableError" ELSE "MustBeReadonlyError"
  IN IF c.kind \in ImmKinds THEN "known"
     ELSE IF c.kind \in MutKinds THEN
            (IF c.lvl = "w" THEN (IF canWr THEN "known" ELSE err) ELSE (IF canMut THEN "known" ELSE err))
     ELSE IF c.kind = "FUTW" /\ ~canWr THEN err
     ELSE IF c.kind = "FUTM" /\ ~canMut THEN err
     ELSE "unknown"

IsWriteCap(c) == c.kind \in MutKinds /\ c.lvl = "w"
\* the class of inputs on which the code under test deviates from the intent above: an unknown (or, in its
\* context, unacceptable) cap in the rw slot together with a known write-cap in the ro slot
RoSlotWriteCap(grw, gro, deepImm) ==
  /\ ~IsNone(grw) /\ ~IsNone(gro) /\ FromString(grw, deepImm) # "known"
  /\ IsWriteCap(gro) /\ FromString(gro, deepImm) = "known"

Node(known, rw, ro, err, mutable, dir) == [known |-> known, rw |-> rw, ro |-> ro, err |-> err, mutable |-> mutable, dir |-> dir]
Opaque(e) == Node(FALSE, NoCap, NoCap, e, FALSE, FALSE)

\* a node of a known kind: the prefix is consumed by the parser, the read-cap is derived
KnownNode(c) ==
  Node(TRUE, IF c.lvl = "w" THEN Strip(c) ELSE NoCap, [Strip(c) EXCEPT !.lvl = "r"], "",
       c.kind \in MutKinds, c.kind \in DirKinds)

\* unknown.UnknownNode.__init__(given_rw_uri, given_ro_uri, deep_immutable)
UnknownNode(grw, gro, deepImm) ==
  IF ~IsNone(grw) /\ deepImm /\ ~(grw.pfx = "imm." /\ IsNone(gro))
    THEN (IF IsNone(gro) THEN Opaque("MustNotBeUnknownRWError") ELSE Opaque("MustBeDeepImmutableError"))
  ELSE IF ~IsNone(grw) /\ IsNone(gro) /\ grw.pfx = "" THEN Opaque("MustNotBeUnknownRWError")
  ELSE IF ~IsNone(grw) /\ ~IsNone(gro) /\ gro.pfx = "imm." THEN Opaque("MustBeDeepImmutableError")
  ELSE LET single == ~IsNone(grw) /\ IsNone(gro)          \* a prefixed single cap is treated as given in the ro slot
           ro1 == IF single THEN grw ELSE gro
           rw1 == IF single THEN NoCap ELSE grw
           fs  == IF IsNone(ro1) THEN "unknown" ELSE FromString(ro1, deepImm)
       IN IF fs \notin {"known", "unknown"} THEN Opaque(fs)
          \* INTENT (interfaces.MustBeReadonlyError: "Known write caps cannot be specified in a ro_uri field"):
          \* a cap of a known kind in the ro slot must be a read-cap.  The code under test parses the ro slot
          \* without the read-only constraint and accepts it -- see RoSlotWriteCap and notes/C18.md.
          ELSE IF fs = "known" /\ IsWriteCap(ro1) THEN Opaque("MustBeReadonlyError")
          ELSE IF deepImm
                 THEN Node(FALSE, NoCap, IF IsNone(ro1) THEN NoCap ELSE WithPfx(ro1, "imm."), "", FALSE, FALSE)
                 ELSE Node(FALSE, rw1, IF IsNone(ro1) THEN NoCap ELSE IF ro1.pfx = "" THEN WithPfx(ro1, "ro.") ELSE ro1,
                           "", FALSE, FALSE)

\* nodemaker.NodeMaker.create_from_cap(writecap, readcap, deep_immutable)
CreateFromCap(rw, ro, deepImm) ==
  LET big == IF ~IsNone(rw) THEN rw ELSE ro IN
  IF IsNone(big) THEN Node(FALSE, NoCap, NoCap, "", FALSE, FALSE)
  ELSE IF FromString(big, deepImm) = "known" THEN KnownNode(big)
  ELSE UnknownNode(rw, ro, deepImm)

AllowedInImm(n) == IF n.known THEN ~n.mutable ELSE n.err = "" /\ IsNone(n.rw)

(* ------------------------------- packing -------------------------------- *)
\* unknown.strip_prefix_for_ro
StripForRO(c, deepImm) == IF c.pfx = "imm." THEN (IF deepImm THEN Strip(c) ELSE c) ELSE Strip(c)

\* _pack_normalized_children, one child: "ok" or the exception class
PackStatus(n, deepImm) ==
  IF n.err # "" THEN n.err
  ELSE IF deepImm /\ ~AllowedInImm(n) THEN "MustBeDeepImmutableError"
  ELSE "ok"

\* the stored entry; dirkey = identity of the directory's writekey ("" for immutable directories)
NoEnc == [key |-> "", plain |-> NoCap]
Enc(key, c) == [key |-> key, plain |-> c]
PackEntry(n, md, dirkey) ==
  [ro |-> StripForRO(n.ro, dirkey = ""), rwenc |-> IF dirkey = "" THEN NoEnc ELSE Enc(dirkey, n.rw), md |-> md]

\* _unpack_contents, one entry, by an opener who holds (writeable) or does not hold the writekey.
\* Result: [kept, n]; kept = FALSE when the entry is skipped (constraint violated in this context)
Unpack(e, writeable, mutableDir) ==
  LET rw == IF writeable /\ mutableDir THEN e.rwenc.plain ELSE NoCap
      n  == CreateFromCap(rw, e.ro, ~mutableDir)
  IN [kept |-> n.err = "" /\ (mutableDir \/ AllowedInImm(n)), n |-> n, md |-> e.md]

\* what a holder of the read-cap (readkey, no writekey) can derive from a stored entry
Knows(e) == {e.ro} \cup (IF e.rwenc.key = "" THEN {e.rwenc.plain} ELSE {})

(* ------------------- the ways of handing a child to a directory -------------------- *)
\* (rw slot, ro slot) combinations of caps of one kind, with every prefix; plus a known cap in the ro slot
\* next to an unknown cap in the rw slot
Pfx == {"", "ro.", "imm."}
Cap(p, k, l) == [pfx |-> p, kind |-> k, lvl |-> l, obj |-> "o"]

RwOpts(k) == {NoCap} \cup
  (IF k \in ImmKinds THEN {Cap(p, k, "r") : p \in Pfx}
   ELSE IF k \in MutKinds THEN {Cap(p, k, "w") : p \in Pfx}
   ELSE {Cap("", k, "w")} \cup {Cap(p, k, "r") : p \in {"ro.", "imm."}})     \* a prefixed unknown cap is alleged read-only
RoOpts(k) == {NoCap} \cup {Cap(p, k, "r") : p \in Pfx} \cup
  (IF k \in MutKinds THEN {Cap("", k, "w"), Cap("ro.", k, "w")}                \* a write-cap put in the ro slot
   ELSE IF k = "FUT" THEN {Cap("", "SSK", "w"), Cap("", "DIR2", "w"), Cap("", "SSK", "r"), Cap("", "CHK", "r")}   \* unknown rw + known ro
   ELSE {})

GivensOf(K) == UNION {{[rw |-> a, ro |-> b] : a \in RwOpts(k), b \in RoOpts(k)} : k \in K}

(* ------------------------------- names ---------------------------------- *)
\* "e2"/"k2" are not NFC-normalised; their NFC forms are "e1"/"k1" (see Dirnode.tla)
NFCp == [e2 |-> "e1", k2 |-> "k1"]
NormP(x) == IF x \in DOMAIN NFCp THEN NFCp[x] ELSE x
\* pack_children normalises the caller's names; _unpack_contents normalises what it reads
PackedName(raw, foreign) == IF foreign THEN raw ELSE NormP(raw)      \* foreign = written by a client that did not normalise
UnpackedName(stored) == NormP(stored)
=============================================================================
