--------------------------- MODULE MCDeepResults ---------------------------
(* The aggregation of per-object check / check-and-repair results (DeepResults.tla: AddCheck, AddRepair) over
   every sequence of at most MaxLen records of a small universe: pre / post in {healthy, unhealthy but
   recoverable, unrecoverable} x 0..MaxNc corrupt shares, repair attempted / successful in every combination
   (also combinations no checker produces: the aggregate is a plain fold; with WellFormedOnly
   only the first record of a sequence is arbitrary), and the record of a non-distributed
   object.  The XR invariants compare the fold with the documented meaning of each counter, stated over the
   records without the fold operators, and state the relations between the counters.

   In the same run (a second, independent branch of the state graph): the bucket function of
   size-files-histogram (Upper, Lower, WhichFrom, HistOf) over every sequence of at most MaxLen sizes taken at
   the bucket boundaries (each boundary, one below, one above) and, once, over every size 0..Scan.  The XH
   invariants state the documented behaviour without WhichFrom. *)
EXTENDS DeepResults

CONSTANTS MaxLen, MaxNc, WellFormedOnly, Scan

VARIABLES L, ss
vars == <<L, ss>>

HR == {x \in [h : BOOLEAN, r : BOOLEAN, nc : 0..MaxNc] : x.h => x.r}
Fine == [h |-> TRUE, r |-> TRUE, nc |-> 0]
LitRec == [lit |-> TRUE, pre |-> Fine, att |-> FALSE, succ |-> FALSE, post |-> Fine]
AllRecs == [lit : {FALSE}, pre : HR, att : BOOLEAN, succ : BOOLEAN, post : HR] \cup {LitRec}
WellFormed == {x \in AllRecs : x.lit \/ RecWellFormed(x)}
\* the first record is any record; with WellFormedOnly the further ones obey the rules of t=check&repair=true
Recs(n) == IF WellFormedOnly /\ n > 0 THEN WellFormed ELSE AllRecs

Edge == UNION {{Lower(i), Upper(i)} : i \in 0..MaxBucket}
Sizes == {s \in UNION {{e - 1, e, e + 1} : e \in Edge} : s >= 0 /\ s <= MaxSize}
\* the first size is a boundary or a neighbour of one, the further ones are boundaries
SizesAt(n) == IF n = 0 THEN Sizes ELSE Edge

Init == L = <<>> /\ ss = <<>>
MoreRecords == /\ ss = <<>> /\ Len(L) < MaxLen /\ UNCHANGED ss
               /\ \E x \in Recs(Len(L)) : L' = Append(L, [path |-> <<Len(L) + 1>>, lit |-> x.lit, pre |-> x.pre, att |-> x.att, succ |-> x.succ, post |-> x.post])
MoreSizes == /\ L = <<>> /\ Len(ss) < MaxLen /\ UNCHANGED L
             /\ \E s \in SizesAt(Len(ss)) : ss' = Append(ss, s)
Next == MoreRecords \/ MoreSizes
Spec == Init /\ [][Next]_vars

C == AggCheck(L)
R == AggRepair(L)
XR_CheckFold == DR_CheckCounters(L, C) /\ DR_CheckArith(C)
XR_RepairFold == DR_RepairCounters(L, R) /\ DR_RepairArith(R)
\* when every object obeys the rules of t=check&repair=true
XR_WellFormed == (\A i \in 1..Len(L) : L[i].lit \/ RecWellFormed(L[i])) => DR_RepairWellFormed(R)
\* deep-check and deep-check-and-repair agree on the state before any repair
XR_PreIsCheck == /\ R.checked = C.checked /\ R.healthy_pre = C.healthy /\ R.unhealthy_pre = C.unhealthy
                 /\ R.unrec_pre = C.unrec /\ R.ncorrupt_pre = C.ncorrupt
\* the order of the visits does not matter
XR_OrderFree == AggRepair(Reverse(L)) = R /\ AggCheck(Reverse(L)) = C
\* one entry of list-unhealthy-files per unhealthy object
XR_UnhealthyList == Cardinality(UnhealthyPaths(L)) = C.unhealthy
\* nothing was repaired: the post-repair side repeats the pre-repair side
XR_NoRepair == (\A i \in 1..Len(L) : ~L[i].att /\ L[i].post = L[i].pre) =>
                  /\ R.healthy_post = R.healthy_pre /\ R.unhealthy_post = R.unhealthy_pre /\ R.unrec_post = R.unrec_pre
                  /\ R.ncorrupt_post = R.ncorrupt_pre /\ R.att = 0 /\ R.succ = 0 /\ R.unsucc = 0

(* ------------------------------ the histogram ------------------------------ *)
H == HistOf(ss)
XH_Partition == DR_HistPartition(H, ss)
XH_Buckets == DR_HistBuckets(H)
XH_Total == SumOver([a \in H |-> a.n], H) = Len(ss)
\* the rest does not depend on the state: evaluated in the initial state only
Once(P) == (Len(ss) = 0 /\ Len(L) = 0) => P
\* the digits of sqrt(10): p = floor(sqrt(10^(2m-1))) where TLC can square it, one more digit each time after that
XH_Table == Once(/\ \A m \in 1..5 : LET p == Sqrt10Prefix[m] IN p * p <= Pow10(2 * m - 1) /\ (p + 1) * (p + 1) > Pow10(2 * m - 1)
                 /\ \A m \in 1..8 : Sqrt10Prefix[m + 1] \div 10 = Sqrt10Prefix[m]
                 /\ Len(UpperT) = MaxBucket /\ \A i \in 0..MaxBucket : Upper(i) = UpperRule(i))
\* "two per decade", "5dB/bucket": two buckets further everything is ten times as large; the bound of bucket i is floor(10^(i/2))
XH_TwoPerDecade == Once(/\ \A i \in 1..(MaxBucket - 2) : IF i % 2 = 0 THEN Upper(i + 2) = 10 * Upper(i) ELSE Upper(i + 2) \div 10 = Upper(i)
                        /\ \A i \in 1..9 : Upper(i) * Upper(i) <= Pow10(i) /\ (Upper(i) + 1) * (Upper(i) + 1) > Pow10(i)
                        /\ <<Upper(0), Upper(1), Upper(2), Upper(3), Upper(4), Upper(5), Upper(6)>> = <<0, 3, 10, 31, 100, 316, 1000>>)
\* the buckets are contiguous and every size lies in exactly one of them, the one which_bucket answers
XH_Scan == Once(/\ \A i \in 0..(MaxBucket - 1) : Lower(i + 1) = Upper(i) + 1 /\ Lower(i) <= Upper(i)
                /\ \A s \in 0..Scan : LET B == {i \in 0..MaxBucket : Lower(i) <= s /\ s <= Upper(i)} IN
                                        Cardinality(B) = 1 /\ WhichFrom(s, 0) \in B)
XH_Monotone == Once(\A s1, s2 \in Sizes : s1 <= s2 => WhichFrom(s1, 0) <= WhichFrom(s2, 0))
=============================================================================
