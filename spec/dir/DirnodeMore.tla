---------------------------- MODULE DirnodeMore ----------------------------
(* More of allmydata/dirnode.py than Dirnode.tla (C20) covers, in the same
   function style:

     create_subdirectory   new mutable / immutable child directory with initial
                           children, linked with the Adder's overwrite rules
     add_file              upload, then link (refused on read-only directories
                           before anything is uploaded)
     set_children          batch by caps; (writecap, readcap) pairs mean metadata=None
     has_child / get / get_metadata_for / list
     get_child_and_metadata_at_path   resolution through nested directories

   W = [D, imm]   D    contents of every directory that exists (Dirnode.tla's D),
                       mutable and immutable ones
                  imm  the immutable directories (DIR2-CHK / DIR2-LIT): never
                       writeable, identified by their contents
   Every operator answers a record
        [st, W, out, upl, has, emd, missing, listing]
   st outcome, W the world afterwards, out the node handed back, upl whether
   something was sent to storage servers as a file upload, has / emd / missing /
   listing the answers of the read calls.

   Where the sources of the intended behaviour are not the code:
     IDirectoryNode docstrings (allmydata/interfaces.py): NotWriteableError for
       read-only directories (set_uri; set_children "is equivalent to calling
       set_uri() multiple times"), NoSuchChildError for get / get_metadata_for /
       get_child_at_path "if the node could not be found";
     docs/frontends/webapi.rst (t=mkdir-with-children): "if the no-write field is
       set to true in the metadata of a link to a mutable child, it will cause the
       link to be diminished to read-only"  -> InitEntry. *)
EXTENDS Dirnode

(* ------------------------------ vocabulary ------------------------------- *)
\* contents that add_file uploads: "c1", "c2" become CHK files, "lit" is small
\* enough to become a literal file (nothing is sent to a server)
FileOf == [c1 |-> "fc1", c2 |-> "fc2", lit |-> "flit"]
FileNode(content) == [id |-> FileOf[content], type |-> "file", w |-> FALSE]
\* file objects that are immutable (LIT / CHK): the driver's f1, f2 and the uploads
ImmFileIds == {"f1", "f2", "fc1", "fc2", "flit"}

NoMd == [md |-> "none", hasT |-> FALSE, crt |-> 0, mot |-> 0]
MdOf(e) == [md |-> e.md, hasT |-> e.hasT, crt |-> e.crt, mot |-> e.mot]

\* is_allowed_in_immutable_directory
\* (unknown.py: "An UnknownNode consisting only of a ro_uri is allowed in an immutable directory")
DeepImm(W, c) == \/ (c.type = "file" /\ c.id \in ImmFileIds /\ ~c.w)
                 \/ (c.type = "dir" /\ c.id \in W.imm /\ ~c.w)
                 \/ (c.type = "unknown" /\ ~c.w)

\* the authority a handle gives: an immutable directory is read-only whatever the handle
EffVia(W, d, via) == IF d \in W.imm THEN "ro" ELSE via
\* what a reader holding `via` sees of a stored child (C18: read-only handles yield read-only children)
View(c, via) == IF via = "ro" THEN RO(c) ELSE c

RM(st, W, out) == [st |-> st, W |-> W, out |-> out, upl |-> FALSE, has |-> FALSE,
                   emd |-> NoMd, missing |-> "", listing |-> <<>>]

(* -------------------------- create_subdirectory -------------------------- *)
\* an initial child is stored with the metadata given (no link times are added);
\* a 'tahoe' part supplied by the caller is kept ("mt" = {"k":1,"tahoe":{1,1}})
InitEntry(c, m) ==
  [child |-> IF NoWrite(MdStored(m)) THEN RO(c) ELSE c,     \* webapi.rst, see above
   md |-> MdStored(m), hasT |-> (m = "mt"),
   crt |-> IF m = "mt" THEN 1 ELSE 0, mot |-> IF m = "mt" THEN 1 ELSE 0]

\* pack_children: names are normalised, of two spellings of one name the later wins
RECURSIVE InitFold(_, _, _)
InitFold(f, kids, i) ==
  IF i > Len(kids) THEN f
  ELSE InitFold(Put(f, Norm(kids[i].name), InitEntry(kids[i].child, kids[i].md)), kids, i + 1)
InitContents(kids) == InitFold(<<>>, kids, 1)
\* the entry of kids that survives under the normal form n
LastOf(kids, n) == CHOOSE i \in 1..Len(kids) : Norm(kids[i].name) = n /\ \A j \in (i + 1)..Len(kids) : Norm(kids[j].name) # n
Survivors(kids) == {LastOf(kids, n) : n \in {Norm(kids[i].name) : i \in 1..Len(kids)}}

\* an immutable directory is its contents (convergent CHK / literal cap): creating the
\* same contents again yields the same object
ImmTarget(W, contents, newid) ==
  IF \E x \in W.imm : W.D[x] = contents THEN CHOOSE x \in W.imm : W.D[x] = contents ELSE newid

WithDir(D, id, contents) == [x \in (DOMAIN D) \cup {id} |-> IF x = id THEN contents ELSE D[x]]

\* o = [d, via, name, kids, ow, mutable, md]; newid = the identity of a directory created now
Mkdir(W, o, newid, now) ==
  LET contents == InitContents(o.kids)
      id    == IF o.mutable THEN newid ELSE ImmTarget(W, contents, newid)
      child == [id |-> id, type |-> "dir", w |-> o.mutable]
  IN IF EffVia(W, o.d, o.via) = "ro" THEN RM("NotWriteableError", W, NoChild)
     \* only the entries that are packed are looked at
     ELSE IF ~o.mutable /\ \E i \in Survivors(o.kids) : ~DeepImm(W, o.kids[i].child)
       THEN RM("MustBeDeepImmutableError", W, NoChild)
     ELSE LET a == Add(W.D, o.d, "rw", o.name, child, o.md, o.ow, now) IN
          IF a.st # "ok" THEN RM(a.st, W, NoChild)          \* the new directory stays unlinked
          ELSE RM("ok", [D |-> WithDir(a.D, id, contents),
                         imm |-> IF o.mutable THEN W.imm ELSE W.imm \cup {id}], child)

(* -------------------------------- add_file ------------------------------- *)
\* o = [d, via, name, content, md, ow]
AddFile(W, o, now) ==
  IF EffVia(W, o.d, o.via) = "ro" THEN RM("NotWriteableError", W, NoChild)
  ELSE LET f == FileNode(o.content)
           a == Add(W.D, o.d, "rw", o.name, f, o.md, o.ow, now)
       IN [RM(a.st, [W EXCEPT !.D = a.D], IF a.st = "ok" THEN f ELSE NoChild)
             EXCEPT !.upl = (o.content # "lit")]

(* ------------------------------ set_children ----------------------------- *)
\* items[i].md = "none" stands for a (writecap, readcap) pair: metadata=None
SetChildren(W, o, now) ==
  LET its == [i \in 1..Len(o.items) |-> [name |-> o.items[i].name, child |-> o.items[i].child,
                                         md |-> IF o.items[i].md = "none" THEN "keep" ELSE o.items[i].md]]
      a == AddMany(W.D, o.d, EffVia(W, o.d, o.via), its, o.ow, now)
  IN RM(a.st, [W EXCEPT !.D = a.D], NoChild)

(* --------------------------------- reads --------------------------------- *)
HasChild(W, o) == [RM("ok", W, NoChild) EXCEPT !.has = Has(W.D, o.d, Norm(o.name))]

Get(W, o) ==
  LET n == Norm(o.name) IN
  IF ~Has(W.D, o.d, n) THEN [RM("NoSuchChildError", W, NoChild) EXCEPT !.missing = n]
  ELSE RM("ok", W, View(W.D[o.d][n].child, EffVia(W, o.d, o.via)))

GetMd(W, o) ==
  LET n == Norm(o.name) IN
  IF ~Has(W.D, o.d, n) THEN [RM("NoSuchChildError", W, NoChild) EXCEPT !.missing = n]
  ELSE [RM("ok", W, NoChild) EXCEPT !.emd = MdOf(W.D[o.d][n])]

List(W, o) ==
  LET v == EffVia(W, o.d, o.via) IN
  [RM("ok", W, NoChild) EXCEPT !.listing = [n \in DOMAIN W.D[o.d] |-> [W.D[o.d][n] EXCEPT !.child = View(@, v)]]]

\* get_child_and_metadata_at_path: at directory d held with authority via, look up path[i]
RECURSIVE PathFrom(_, _, _, _, _)
PathFrom(W, d, via, path, i) ==
  LET n == Norm(path[i]) IN
  IF ~Has(W.D, d, n) THEN [RM("NoSuchChildError", W, NoChild) EXCEPT !.missing = n]
  ELSE LET e == W.D[d][n]
           c == View(e.child, via)
       IN IF i = Len(path) THEN [RM("ok", W, c) EXCEPT !.emd = MdOf(e)]
          \* the rest of the path cannot be found below something that is not a directory
          ELSE IF c.type # "dir" THEN [RM("NoSuchChildError", W, NoChild) EXCEPT !.missing = Norm(path[i + 1])]
          ELSE PathFrom(W, c.id, IF c.w THEN "rw" ELSE "ro", path, i + 1)

\* o = [d, via, path]; the empty path is the directory itself with empty metadata
Path(W, o) ==
  LET v == EffVia(W, o.d, o.via) IN
  IF Len(o.path) = 0
    THEN [RM("ok", W, [id |-> o.d, type |-> "dir", w |-> (v = "rw")]) EXCEPT !.emd = [NoMd EXCEPT !.md = "m0"]]
    ELSE PathFrom(W, o.d, v, o.path, 1)

(* ------------------------------- dispatcher ------------------------------ *)
C20Ops == {"add", "addmany", "delete", "setmd", "move"}
WriteOps == C20Ops \cup {"mkdir", "addfile", "setchildren"}
ReadOps == {"has", "get", "getmd", "list", "path"}

\* the call of Dirnode.tla with the authority the handles really give
AsC20(W, o) == IF o.op = "move" THEN [o EXCEPT !.via = EffVia(W, o.d, o.via), !.dvia = EffVia(W, o.dd, o.dvia)]
               ELSE [o EXCEPT !.via = EffVia(W, o.d, o.via)]

ApplyMore(W, o, newid, now) ==
  CASE o.op \in C20Ops       -> LET r == Apply(W.D, AsC20(W, o), now) IN RM(r.st, [W EXCEPT !.D = r.D], r.out)
    [] o.op = "mkdir"        -> Mkdir(W, o, newid, now)
    [] o.op = "addfile"      -> AddFile(W, o, now)
    [] o.op = "setchildren"  -> SetChildren(W, o, now)
    [] o.op = "has"          -> HasChild(W, o)
    [] o.op = "get"          -> Get(W, o)
    [] o.op = "getmd"        -> GetMd(W, o)
    [] o.op = "list"         -> List(W, o)
    [] o.op = "path"         -> Path(W, o)

(* ===================== the behaviour, stated directly =====================
   over one call o made at time `now` on world W that answered r (a record
   shaped like RM without W) and left world W2.  Nothing below uses the
   operators above (Add, Mkdir, PathFrom ...). *)
ReadOnlyCall(W, o) == \/ EffVia(W, o.d, o.via) = "ro"
                      \/ (o.op = "move" /\ EffVia(W, o.dd, o.dvia) = "ro")

\* reads change nothing
XM_ReadsPure(W, W2, o, r, now) == o.op \in ReadOps => W2 = W
\* the set of directories only grows, by the directory a successful create_subdirectory returns;
\* mutable stays mutable, immutable stays immutable
XM_DirsKept(W, W2, o, r, now) ==
  /\ DOMAIN W.D \subseteq DOMAIN W2.D
  /\ (DOMAIN W2.D # DOMAIN W.D) => o.op = "mkdir" /\ r.st = "ok" /\ DOMAIN W2.D = (DOMAIN W.D) \cup {r.out.id}
  /\ \A d \in DOMAIN W.D : (d \in W2.imm) = (d \in W.imm)
  /\ W2.imm \subseteq DOMAIN W2.D
\* an immutable directory never changes
XM_Frozen(W, W2, o, r, now) == \A d \in W.imm : d \in DOMAIN W2.D /\ W2.D[d] = W.D[d]
\* nothing can be edited through a read-only handle or in an immutable directory, and
\* add_file does not even upload
XM_ReadOnly(W, W2, o, r, now) ==
  (o.op \in WriteOps /\ ReadOnlyCall(W, o)) => r.st = "NotWriteableError" /\ W2 = W /\ ~r.upl
XM_FailedNoChange(W, W2, o, r, now) == ~IsOk(r.st) => W2 = W
\* a call edits the directory it is made on (move: and the destination), a new directory aside
XM_Frame(W, W2, o, r, now) ==
  \A d \in DOMAIN W.D : (d # o.d /\ ~(o.op = "move" /\ d = o.dd)) => W2.D[d] = W.D[d]

XM_Mkdir(W, W2, o, r, now) ==
  o.op = "mkdir" =>
    /\ (~o.mutable /\ ~ReadOnlyCall(W, o) /\
          \E i \in 1..Len(o.kids) : ~DeepImm(W, o.kids[i].child) /\ \A j \in (i + 1)..Len(o.kids) : Norm(o.kids[j].name) # Norm(o.kids[i].name))
          => r.st = "MustBeDeepImmutableError"
    /\ r.st \in {"ok", "NotWriteableError", "ExistingChildError", "MustBeDeepImmutableError"}
    /\ (r.st = "ExistingChildError") => Has(W.D, o.d, Norm(o.name)) /\ o.ow # "true"
    /\ (r.st = "ok") =>
         LET n == Norm(o.name)  id == r.out.id IN
         /\ r.out.type = "dir" /\ r.out.w = o.mutable
         /\ id \in DOMAIN W2.D /\ (id \in W2.imm) = ~o.mutable
         /\ (o.mutable => id \notin DOMAIN W.D)                 \* a new object every time
         /\ Has(W2.D, o.d, n) /\ W2.D[o.d][n].child.id = id /\ W2.D[o.d][n].child.type = "dir"
         /\ (Has(W.D, o.d, n) => o.ow # "false" /\ (o.ow = "only_files" => W.D[o.d][n].child.type # "dir"))
         \* the new directory holds exactly the initial children, under normalised names
         /\ DOMAIN W2.D[id] = {Norm(o.kids[i].name) : i \in 1..Len(o.kids)}
         /\ \A n2 \in DOMAIN W2.D[id] :
              LET k == o.kids[LastOf(o.kids, n2)]  e == W2.D[id][n2] IN
              /\ e.child.id = k.child.id /\ e.child.type = k.child.type
              /\ e.md = MdStored(k.md)
              /\ (e.child.w => k.child.w)
\* immutable directories: deep-immutable read-only children; equal contents = the same object
XM_ImmDeep(W, W2, o, r, now) ==
  \A d \in W2.imm : \A n \in DOMAIN W2.D[d] : ~W2.D[d][n].child.w /\ DeepImm(W2, W2.D[d][n].child)
XM_ImmIdentity(W, W2, o, r, now) == \A a, b \in W2.imm : W2.D[a] = W2.D[b] => a = b
\* an entry whose metadata says no-write holds its child read-only -- in every directory,
\* however the entry got there (Dirnode's clause covers the Adder only)
XM_NoWriteEverywhere(W, W2, o, r, now) ==
  \A d \in DOMAIN W2.D : \A n \in DOMAIN W2.D[d] : NoWrite(W2.D[d][n].md) => ~W2.D[d][n].child.w
\* nothing is uploaded for a read-only directory (nor for a literal-size file); a file that got linked
\* was uploaded; whether a link that is refused for another reason was preceded by an upload is left open
UplAllowed(W, o, st) == IF ReadOnlyCall(W, o) \/ o.content = "lit" THEN {FALSE} ELSE IF st = "ok" THEN {TRUE} ELSE BOOLEAN
XM_AddFile(W, W2, o, r, now) ==
  o.op = "addfile" =>
    /\ r.upl \in UplAllowed(W, o, r.st)
    /\ r.st \in {"ok", "NotWriteableError", "ExistingChildError"}
    /\ (r.st = "ok") => /\ Has(W2.D, o.d, Norm(o.name))
                        /\ W2.D[o.d][Norm(o.name)].child = FileNode(o.content)
                        /\ r.out = FileNode(o.content)
    /\ (Has(W.D, o.d, Norm(o.name)) /\ o.ow = "false") => r.st # "ok"
\* a batch is linked completely or not at all
XM_Batch(W, W2, o, r, now) ==
  o.op \in {"setchildren", "addmany"} =>
    /\ (r.st = "ok") => \A i \in 1..Len(o.items) : Has(W2.D, o.d, Norm(o.items[i].name))
    /\ (r.st # "ok") => W2 = W
    /\ (o.ow = "false" /\ ~ReadOnlyCall(W, o) /\ \E i \in 1..Len(o.items) : Has(W.D, o.d, Norm(o.items[i].name)))
          => r.st = "ExistingChildError"
    \* metadata=None: a new link gets empty metadata, an existing one keeps its own
    /\ (o.op = "setchildren" /\ r.st = "ok") =>
          \A i \in 1..Len(o.items) :
            LET n == Norm(o.items[i].name) IN
            (o.items[i].md = "none" /\ \A j \in 1..Len(o.items) : j # i => Norm(o.items[j].name) # n)
               => W2.D[o.d][n].md = (IF Has(W.D, o.d, n) THEN W.D[o.d][n].md ELSE "m0")

XM_Reads(W, W2, o, r, now) ==
  LET v == EffVia(W, o.d, o.via) IN
  /\ (o.op = "has") => r.st = "ok" /\ r.has = (Norm(o.name) \in DOMAIN W.D[o.d])
  /\ (o.op \in {"get", "getmd"} /\ Norm(o.name) \notin DOMAIN W.D[o.d]) => r.st = "NoSuchChildError" /\ r.missing = Norm(o.name)
  /\ (o.op = "get" /\ Norm(o.name) \in DOMAIN W.D[o.d]) =>
        LET c == W.D[o.d][Norm(o.name)].child IN
        r.st = "ok" /\ r.out.id = c.id /\ r.out.type = c.type /\ r.out.w = (c.w /\ v = "rw")
  /\ (o.op = "getmd" /\ Norm(o.name) \in DOMAIN W.D[o.d]) => r.st = "ok" /\ r.emd = MdOf(W.D[o.d][Norm(o.name)])
  /\ (o.op = "list") => /\ r.st = "ok" /\ DOMAIN r.listing = DOMAIN W.D[o.d]
                        /\ \A n \in DOMAIN r.listing :
                             LET e == W.D[o.d][n]  g == r.listing[n] IN
                             /\ g.child.id = e.child.id /\ g.child.w = (e.child.w /\ v = "rw")
                             /\ MdOf(g) = MdOf(e)

\* path resolution, as the image of the link relation: the directories a prefix of the path leads to
RECURSIVE After(_, _, _, _)
After(W, d, path, k) ==
  IF k = 0 THEN {d}
  ELSE LET n == Norm(path[k]) IN
       {W.D[x][n].child.id : x \in {y \in After(W, d, path, k - 1) : y \in DOMAIN W.D /\ Has(W.D, y, n)}}
\* the links a successful resolution walks over
LinkAt(W, d, path, k) == LET x == CHOOSE y \in After(W, d, path, k - 1) : TRUE IN W.D[x][Norm(path[k])]
XM_Path(W, W2, o, r, now) ==
  o.op = "path" =>
    LET L == Len(o.path)  found == After(W, o.d, o.path, L) IN
    /\ r.st \in {"ok", "NoSuchChildError"}
    /\ (r.st = "ok") = (found # {})
    /\ (r.st = "ok") => /\ r.out.id \in found
                        \* writeable only if the handle and every link on the way are
                        /\ r.out.w = (EffVia(W, o.d, o.via) = "rw" /\ \A k \in 1..L : LinkAt(W, o.d, o.path, k).child.w)
                        /\ (L = 0) => r.out.type = "dir" /\ r.emd.md = "m0" /\ ~r.emd.hasT
                        /\ (L > 0) => r.emd = MdOf(LinkAt(W, o.d, o.path, L)) /\ r.out.type = LinkAt(W, o.d, o.path, L).child.type
    \* the error names the first element of the path that is not there
    /\ (r.st = "NoSuchChildError") =>
          LET k == CHOOSE j \in 1..L : After(W, o.d, o.path, j) = {} /\ After(W, o.d, o.path, j - 1) # {} IN
          r.missing = Norm(o.path[k])

XM_FirstFailing(W, W2, o, r, now) ==
  IF ~XM_ReadsPure(W, W2, o, r, now) THEN "XM_ReadsPure"
  ELSE IF ~XM_DirsKept(W, W2, o, r, now) THEN "XM_DirsKept"
  ELSE IF ~XM_Frozen(W, W2, o, r, now) THEN "XM_Frozen"
  ELSE IF ~XM_ReadOnly(W, W2, o, r, now) THEN "XM_ReadOnly"
  ELSE IF ~XM_FailedNoChange(W, W2, o, r, now) THEN "XM_FailedNoChange"
  ELSE IF ~XM_Frame(W, W2, o, r, now) THEN "XM_Frame"
  ELSE IF ~XM_Mkdir(W, W2, o, r, now) THEN "XM_Mkdir"
  ELSE IF ~XM_ImmDeep(W, W2, o, r, now) THEN "XM_ImmDeep"
  ELSE IF ~XM_ImmIdentity(W, W2, o, r, now) THEN "XM_ImmIdentity"
  ELSE IF ~XM_NoWriteEverywhere(W, W2, o, r, now) THEN "XM_NoWriteEverywhere"
  ELSE IF ~XM_AddFile(W, W2, o, r, now) THEN "XM_AddFile"
  ELSE IF ~XM_Batch(W, W2, o, r, now) THEN "XM_Batch"
  ELSE IF ~XM_Reads(W, W2, o, r, now) THEN "XM_Reads"
  ELSE IF ~XM_Path(W, W2, o, r, now) THEN "XM_Path"
  ELSE ""
=============================================================================
