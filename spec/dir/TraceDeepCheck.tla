--------------------------- MODULE TraceDeepCheck ---------------------------
(* Trace validation of a real gateway (a real _Client with its Blacklist and NodeMaker on
   SimGrid; harness/dirops_driver.py, mode graph) against DeepCheck.tla.  A trace is one
   graph built from real directories and real files (K-of-N encoded on N servers); events:
     blwrite    the blacklist file is rewritten: storage indexes of `ids`, mtime set to mt
     blremove   the file is removed
     damage     share files of obj are deleted on the servers until `left` remain
     access     create_node_from_uri(cap of obj): is it a ProhibitedNode, is it a directory node
     read       the contents of obj are read through the gateway
     list       list() of directory obj opened from its cap
     path       get_child_at_path from the root
     manifest   build_manifest() from the root
     deepcheck  start_deep_check() from the root: counters, per-path results, stats
   Every event but the first three starts by making a node from a cap, i.e. by
   BlRefresh.  First the DC clauses are evaluated on the observed walk / report, then it is
   compared with what DeepCheck.tla computes. *)
EXTENDS DeepCheck, Json, IOUtils, TLCExt

Traces == JsonDeserialize(IOEnv.TRACE_FILE)

VARIABLES tid, l, S, bad
tvars == <<tid, l, S, bad>>

Events == Traces[tid].events
Ev == Events[l]
C == Traces[tid].consts

KidsFn(seq) == [nm \in {seq[i].name : i \in 1..Len(seq)} |->
                  LET i == CHOOSE k \in 1..Len(seq) : seq[k].name = nm IN [to |-> seq[i].to, lvl |-> seq[i].lvl]]
Graph == [type |-> [o \in DOMAIN C.type |-> C.type[o]], kids |-> [o \in DOMAIN C.type |-> KidsFn(C.kids[o])]]
Root == C.root
K == C.K
N == C.N

ObsV(e) == [i \in 1..Len(e.vis) |-> Visit(e.vis[i].path, e.vis[i].obj, e.vis[i].lvl)]
ObsResults(e) == {[path |-> e.results[i].path, healthy |-> e.results[i].healthy, recoverable |-> e.results[i].recoverable] : i \in 1..Len(e.results)}
ObsReport(e) == [checked |-> e.checked, healthy |-> e.healthy, unhealthy |-> e.unhealthy, unrecoverable |-> e.unrecoverable,
                 results |-> ObsResults(e)]
NormStats(s) == [dirs |-> s.dirs, files |-> s.files, imm |-> s.imm, lit |-> s.lit, mut |-> s.mut, unk |-> s.unk, maxkids |-> s.maxkids]

VAccess(e, P) ==
  LET n == NodeOf(Graph, P, e.obj) IN
  IF e.proh # n.proh THEN (IF n.proh THEN "DC_listed_object_served" ELSE "DC_unlisted_object_prohibited")
  ELSE IF e.isdir # n.isdir THEN "DC_access_directory_node"
  ELSE ""
VRead(e, P) ==
  LET want == ReadSt(Graph, P, S.H, K, e.obj) IN
  IF want = "unrecoverable" THEN (IF e.st \in {"ok", "FileProhibited"} THEN "DC_read_unrecoverable_got_" \o e.st ELSE "")
  ELSE IF e.st # want THEN "DC_read_" \o want \o "_got_" \o e.st
  ELSE ""
VList(e, P) ==
  IF e.obj \in P THEN (IF e.st # "prohibited" THEN "DC_list_prohibited_got_" \o e.st ELSE "")
  ELSE IF e.st # "ok" THEN "DC_list_ok_got_" \o e.st
  ELSE IF {[name |-> e.entries[i].name, to |-> e.entries[i].to, proh |-> e.entries[i].proh] : i \in 1..Len(e.entries)} # ListB(Graph, P, e.obj)
    THEN "DC_listing"
  ELSE ""
VPath(e, P) ==
  IF Root \in P THEN (IF e.st # "prohibited" THEN "DC_path_prohibited_got_" \o e.st ELSE "")
  ELSE LET r == ResolveB(Graph, P, Root, e.path, 1) IN
       IF e.st # r.st THEN "DC_path_" \o r.st \o "_got_" \o e.st
       ELSE IF e.obj # r.obj THEN "DC_path_object"
       ELSE IF r.st = "ok" /\ e.proh # (r.obj \in P) THEN "DC_path_prohibited_flag"
       ELSE ""
VManifest(e, P) ==
  IF Root \in P THEN (IF e.st # "prohibited" THEN "DC_manifest_prohibited_got_" \o e.st ELSE "")
  ELSE IF e.st # "ok" THEN "DC_manifest_ok_got_" \o e.st
  ELSE LET V == ObsV(e)
           W == TraverseB(Graph, P, Root, e.via)
           pc == DC_WalkFirstFailing(Graph, P, Root, V)
       IN IF \E i \in 1..Len(V) : V[i].obj \notin DOMAIN Graph.type THEN "DC_reports_unknown_object"
          ELSE IF pc # "" THEN pc
          ELSE IF {V[i] : i \in 1..Len(V)} # {W[i] : i \in 1..Len(W)} THEN
                  (IF {[path |-> V[i].path, obj |-> V[i].obj] : i \in 1..Len(V)} = {[path |-> W[i].path, obj |-> W[i].obj] : i \in 1..Len(W)}
                     THEN "DC_reported_authority" ELSE "DC_reported_paths")
          ELSE ""
VDeepCheck(e, P) ==
  IF Root \in P THEN (IF e.st # "prohibited" THEN "DC_deepcheck_prohibited_got_" \o e.st ELSE "")
  ELSE IF e.st # "ok" THEN "DC_deepcheck_ok_got_" \o e.st
  ELSE LET R == ObsReport(e)
           X == DeepCheckOf(Graph, P, S.H, K, N, Root, e.via)
           pc == DC_CheckFirstFailing(Graph, P, S.H, K, N, Root, R)
       IN IF pc # "" THEN pc
          ELSE IF <<R.checked, R.healthy, R.unhealthy, R.unrecoverable>> # <<X.checked, X.healthy, X.unhealthy, X.unrecoverable>> THEN "DC_counters"
          ELSE IF R.results # X.results THEN "DC_results"
          ELSE IF NormStats(e.stats) # X.stats THEN "DC_stats"
          ELSE ""

\* state after the event (the verdict is about the observation only)
After_(e) ==
  CASE e.ev = "blwrite"  -> [S EXCEPT !.blf = BlWrite(S.blf, ToSet(e.ids), e.mt)]
    [] e.ev = "blremove" -> [S EXCEPT !.blf = BlRemove(S.blf)]
    [] e.ev = "damage"   -> [S EXCEPT !.H[e.obj] = e.left]
    [] OTHER             -> [S EXCEPT !.blc = BlRefresh(S.blc, S.blf)]

Verdict(e) ==
  LET P == BlRefresh(S.blc, S.blf).ids IN
  CASE e.ev \in {"blwrite", "blremove"} -> ""
    [] e.ev = "damage"    -> IF e.left > S.H[e.obj] THEN "DC_shares_reappeared" ELSE ""
    [] e.ev = "access"    -> VAccess(e, P)
    [] e.ev = "read"      -> VRead(e, P)
    [] e.ev = "list"      -> VList(e, P)
    [] e.ev = "path"      -> VPath(e, P)
    [] e.ev = "manifest"  -> VManifest(e, P)
    [] e.ev = "deepcheck" -> VDeepCheck(e, P)
    [] OTHER              -> "unknown_event"

TraceInit == /\ tid \in 1..Len(Traces) /\ l = 1 /\ bad = "none"
             /\ S = [blf |-> BlNone, blc |-> BlCold, H |-> [o \in DOMAIN Traces[tid].consts.type |-> Traces[tid].consts.H0[o]]]
TraceNext ==
  /\ bad = "none"
  /\ l <= Len(Events)
  /\ LET c == Verdict(Ev) IN
     IF c = ""
       THEN /\ S' = After_(Ev) /\ l' = l + 1 /\ bad' = "none"
            /\ (l = Len(Events) => PrintT(<<"VF_ACCEPT", tid, l>>))
       ELSE /\ bad' = c /\ UNCHANGED <<S, l>>
            /\ PrintT(<<"VF_REJECT", tid, l, c>>)
  /\ UNCHANGED tid
TraceSpec == TraceInit /\ [][TraceNext]_tvars
TraceOK == bad = "none"
=============================================================================
