---------------------------- MODULE MCBlacklist ----------------------------
(* The blacklist file and the gateway's memory of it (DeepCheck.tla: BlWrite,
   BlRemove, BlRefresh): every history of rewriting / removing the file with
   modification times from 1..MaxT and of accesses (each access re-reads the file
   when its mtime has grown).  The webapi.rst statements as invariants. *)
EXTENDS DeepCheck

CONSTANTS Objs_, MaxT, MaxSteps

VARIABLES blf, blc, steps,
          mono,      \* ghost: every rewrite so far carried an mtime larger than any mtime used before
          maxmt,     \* ghost: largest mtime ever given to the file
          ever       \* ghost: every object ever listed
vars == <<blf, blc, steps, mono, maxmt, ever>>

Init == blf = BlNone /\ blc = BlCold /\ steps = 0 /\ mono = TRUE /\ maxmt = 0 /\ ever = {}
BlW == \E ids \in SUBSET Objs_, mt \in 1..MaxT :
           /\ blf' = BlWrite(blf, ids, mt) /\ mono' = (mono /\ mt > maxmt) /\ maxmt' = Max(maxmt, mt)
           /\ ever' = ever \cup ids /\ UNCHANGED blc
BlR == blf.ex /\ blf' = BlRemove(blf) /\ UNCHANGED <<blc, mono, maxmt, ever>>
BlA == blc' = BlRefresh(blc, blf) /\ UNCHANGED <<blf, mono, maxmt, ever>>
Next == steps < MaxSteps /\ steps' = steps + 1 /\ (BlW \/ BlR \/ BlA)
Spec == Init /\ [][Next]_vars

Now == BlRefresh(blc, blf)
\* "no node restart is necessary when creating the initial blacklist, nor when adding second, third, or
\* additional entries": as long as every rewrite advances the mtime, an access sees the file as it is
BL_Fresh == (mono /\ blf.ex) => Now.ids = blf.ids
\* no file, no blacklist
BL_Removed == ~blf.ex => Now.ids = {}
\* nothing is prohibited that was never listed
BL_OnlyListed == Now.ids \subseteq ever
\* the mtime alone decides: what the gateway holds differs from the file only if the file's mtime has not grown
BL_StaleOnlyByMtime == (blf.ex /\ Now.ids # blf.ids) => blf.mt <= blc.last
\* accesses are idempotent
BL_Idempotent == BlRefresh(Now, blf) = Now
=============================================================================
