-------------------------- MODULE GenDeepHistogram --------------------------
(* GEN mode for size-files-histogram: lists of file sizes at and around every bucket boundary, each with the
   histogram DeepResults.tla expects (rows [lo, hi, n]).  The adapter makes one immutable file node per size
   (the size is part of the cap), feeds them to a real DeepStats and compares get_results()["size-files-histogram"]. *)
EXTENDS DeepResults, Json, IOUtils

Edge == UNION {{Lower(i), Upper(i)} : i \in 0..MaxBucket}
Sizes == {s \in UNION {{e - 1, e, e + 1} : e \in Edge} : s >= 0 /\ s <= MaxSize}
Case(kind, ss) == [kind |-> kind, sizes |-> ss, hist |-> SetToSeq(HistOf(ss))]
Cases ==
  LET S == SetToSortSeq(Sizes, LAMBDA a, b : a < b)
      n == Len(S)
      Singles == {Case("one", <<S[i]>>) : i \in 1..n}
      \* neighbours on both sides of a boundary, one of them twice, and a value from the other end of the table
      Windows == {Case("window", <<S[i], S[i + 1], S[i + 2], S[i], S[n + 1 - i]>>) : i \in 1..(n - 2)}
      Everything == {Case("all", S)}
  IN Singles \cup Windows \cup Everything

ASSUME ndJsonSerialize(IOEnv.OUT_FILE, SetToSeq(Cases))

VARIABLE c
Init == c \in Cases
Next == UNCHANGED c
Spec == Init /\ [][Next]_c
TableOK == DR_HistPartition(ToSet(c.hist), c.sizes) /\ DR_HistBuckets(ToSet(c.hist))
=============================================================================
