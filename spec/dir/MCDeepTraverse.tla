--------------------------- MODULE MCDeepTraverse ---------------------------
(* Every directory graph that can be built from a root directory by adding at most
   MaxLinks links, each to an existing object (shared sub-directories, cycles, self links,
   the same object through write- and read-cap) or to a new object of any type, with at
   most MaxObjs objects.  Each state is one graph; the C21 clauses are invariants on the
   traversal DeepTraverse.tla computes for it.  The states are dumped (-dump) and the
   graphs replayed on real directories. *)
EXTENDS DeepTraverse

CONSTANTS Types, MaxObjs, MaxLinks, MaxNames

VARIABLES G, nlinks,
          vis       \* what a deep traversal of G from the root (opened through its write-cap) reports
vars == <<G, nlinks, vis>>

ObjId(i) == "o" \o ToString(i)
NObj == Cardinality(DOMAIN G.type)

Init == /\ G = [type |-> ("o1" :> "dir"), kids |-> ("o1" :> <<>>)]
        /\ nlinks = 0
        /\ vis = Traverse(G, "o1", "w")

LinkLevels(t) == IF t \in {"dir", "mfile"} THEN {"w", "r"} ELSE {"r"}
AddKid(g, d, nm, to, lvl) ==
  [g EXCEPT !.kids[d] = [x \in (DOMAIN g.kids[d]) \cup {nm} |-> IF x = nm THEN [to |-> to, lvl |-> lvl] ELSE g.kids[d][x]]]

LinkExisting ==
  \E d \in {o \in DOMAIN G.type : G.type[o] = "dir"}, t \in DOMAIN G.type, nm \in (1..MaxNames) :
    /\ nm \notin DOMAIN G.kids[d]
    /\ \E lvl \in LinkLevels(G.type[t]) : G' = AddKid(G, d, nm, t, lvl)
LinkNew ==
  /\ NObj < MaxObjs
  /\ \E d \in {o \in DOMAIN G.type : G.type[o] = "dir"}, ty \in Types, nm \in (1..MaxNames) :
       /\ nm \notin DOMAIN G.kids[d]
       /\ \E lvl \in LinkLevels(ty) :
            LET id == ObjId(NObj + 1)
                g1 == [type |-> [x \in (DOMAIN G.type) \cup {id} |-> IF x = id THEN ty ELSE G.type[x]],
                       kids |-> [x \in (DOMAIN G.type) \cup {id} |-> IF x = id THEN <<>> ELSE G.kids[x]]]
            IN G' = AddKid(g1, d, nm, id, lvl)
Next == /\ nlinks < MaxLinks /\ nlinks' = nlinks + 1 /\ (LinkExisting \/ LinkNew)
        /\ vis' = Traverse(G', "o1", "w")
Spec == Init /\ [][Next]_vars

V == vis
C21_Complete_      == C21_Complete(G, "o1", V)
C21_Once_          == C21_Once(G, "o1", V)
C21_DistinctPaths_ == C21_DistinctPaths(G, "o1", V)
C21_LinkIdentity_  == C21_LinkIdentity(G, "o1", V)
C21_PathsResolve_  == C21_PathsResolve(G, "o1", V)
\* the read-only walk visits the same objects under the same paths
C21_ReadOnlyWalkSame == LET W == Traverse(G, "o1", "r") IN
   Len(W) = Len(V) /\ \A i \in 1..Len(V) : W[i].path = V[i].path /\ W[i].obj = V[i].obj /\ W[i].lvl = "r"
=============================================================================
