------------------------------ MODULE DeepCheck ------------------------------
(* Deep-check aggregation and the access blacklist, on the graphs of DeepTraverse.tla.

   allmydata/dirnode.py     start_deep_check -> deep_traverse(DeepChecker): every visited node is
                            checked, the results are aggregated in check_results.DeepCheckResults
   allmydata/blacklist.py   Blacklist (private file `access.blacklist`, one storage index + reason per
                            line, re-read when its mtime has grown), ProhibitedNode
   allmydata/nodemaker.py   create_from_cap wraps the node of a listed storage index in a ProhibitedNode

   G        graph [type, kids] of DeepTraverse.tla
   H        H[o] = number of shares of o that servers still hold; K of N shares are needed
   blf      the blacklist file   [ex, ids, mt]   exists / objects listed / modification time
   blc      what the gateway remembers of it   [ids, last]   (last = 0: never loaded)
   P        the objects the gateway prohibits right now = BlRefresh(blc, blf).ids
   Only objects with a storage index (HasVC: directories, CHK and mutable files) can be listed.

   Intended behaviour (docs/frontends/webapi.rst "Access Blacklist"): "The access.blacklist file will be
   checked each time a file or directory is accessed: the file's mtime is used to decide whether it need to
   be reloaded"; "If a directory is blacklisted, the gateway will refuse access to both that directory and
   any child files/directories underneath it"; "Users who go directly to the child file/dir will bypass the
   blacklist".  blacklist.py (comment in raise_error): a prohibited child is still listed. *)
EXTENDS DeepTraverse

(* ---------------------------- the blacklist file -------------------------- *)
BlNone == [ex |-> FALSE, ids |-> {}, mt |-> 0]
BlCold == [ids |-> {}, last |-> 0]
BlWrite(blf, ids, mt) == [ex |-> TRUE, ids |-> ids, mt |-> mt]
BlRemove(blf) == [blf EXCEPT !.ex = FALSE]
\* Blacklist.read_blacklist, run by check_storageindex for every node made from a cap
BlRefresh(blc, blf) ==
  IF ~blf.ex THEN [blc EXCEPT !.ids = {}]                 \* "unreadable blacklist file means no blacklist"
  ELSE IF blc.last = 0 \/ blf.mt > blc.last THEN [ids |-> blf.ids, last |-> blf.mt]
  ELSE blc

(* ------------------------------ nodes and reads --------------------------- *)
\* what create_from_cap hands out for object o: a ProhibitedNode is file-like whatever it wraps
NodeOf(G, P, o) == [proh |-> o \in P, isdir |-> IsDirT(G.type[o]) /\ o \notin P]
\* reading the contents of o through the gateway
ReadSt(G, P, H, K, o) ==
  IF o \in P THEN "FileProhibited"
  ELSE IF ~HasVC(G, o) \/ H[o] >= K THEN "ok"
  ELSE "unrecoverable"
\* list() of a directory that is not prohibited: every entry is shown, prohibited ones as such
ListB(G, P, d) == {[name |-> nm, to |-> G.kids[d][nm].to, proh |-> G.kids[d][nm].to \in P] : nm \in DOMAIN G.kids[d]}

\* get_child_at_path from directory o (held, not prohibited): look up path[i]
RECURSIVE ResolveB(_, _, _, _, _)
ResolveB(G, P, o, path, i) ==
  IF i > Len(path) THEN [st |-> "ok", obj |-> o]
  ELSE IF path[i] \notin DOMAIN G.kids[o] THEN [st |-> "NoSuchChildError", obj |-> "none"]
  ELSE LET c == G.kids[o][path[i]].to IN
       IF i = Len(path) THEN [st |-> "ok", obj |-> c]
       ELSE IF c \in P THEN [st |-> "FileProhibited", obj |-> "none"]      \* nothing underneath is served
       ELSE IF ~IsDirT(G.type[c]) THEN [st |-> "NoSuchChildError", obj |-> "none"]
       ELSE ResolveB(G, P, c, path, i + 1)

(* -------------------------- traversal with a blacklist --------------------- *)
\* TDir of DeepTraverse.tla, with one difference: a prohibited directory is not an IDirectoryNode,
\* so it goes with the file-like children and is never entered
RECURSIVE TDirB(_, _, _, _, _, _)
TDirB(G, P, o, path, lvl, found) ==
  LET names == Names(G, o)
      scan[i \in 0..Len(names)] ==
        IF i = 0 THEN [found |-> found, unk |-> <<>>, files |-> <<>>, dirs |-> <<>>]
        ELSE LET p == scan[i - 1]
                 c == G.kids[o][names[i]]
                 v == Visit(Append(path, names[i]), c.to, Eff(lvl, c.lvl))
             IN IF G.type[c.to] = "unk" THEN [p EXCEPT !.unk = Append(@, v)]
                ELSE IF HasVC(G, c.to) /\ c.to \in p.found THEN p
                ELSE LET p2 == [p EXCEPT !.found = @ \cup {Ident(G, c.to)}] IN
                     IF IsDirT(G.type[c.to]) /\ c.to \notin P THEN [p2 EXCEPT !.dirs = Append(@, v)]
                     ELSE [p2 EXCEPT !.files = Append(@, v)]
      s == scan[Len(names)]
      rec[j \in 0..Len(s.dirs)] ==
        IF j = 0 THEN [vis |-> <<>>, found |-> s.found]
        ELSE LET prev == rec[j - 1]
                 r == TDirB(G, P, s.dirs[j].obj, s.dirs[j].path, s.dirs[j].lvl, prev.found)
             IN [vis |-> prev.vis \o r.vis, found |-> r.found]
      last == rec[Len(s.dirs)]
  IN [vis |-> <<Visit(path, o, lvl)>> \o s.unk \o s.files \o last.vis, found |-> last.found]

\* root not prohibited (a prohibited root is no directory node: nothing can be started on it)
TraverseB(G, P, root, lvl) == TDirB(G, P, root, <<>>, lvl, {Ident(G, root)}).vis

\* DeepStats: a ProhibitedNode is neither a directory nor a file nor unknown to it: counted nowhere
StatsB(V, G, P) == Stats(SelectSeq(V, LAMBDA v : v.obj \notin P), G)

(* -------------------------------- deep-check ------------------------------ *)
\* check() of a node: LIT files, literal directories, unknown and prohibited nodes answer None
Checkable(G, P, o) == HasVC(G, o) /\ o \notin P
DeepCheckOf(G, P, H, K, N, root, lvl) ==
  LET V == TraverseB(G, P, root, lvl)
      I == {i \in 1..Len(V) : Checkable(G, P, V[i].obj)}
  IN [checked       |-> Cardinality(I),
      healthy       |-> Cardinality({i \in I : H[V[i].obj] = N}),
      unhealthy     |-> Cardinality({i \in I : H[V[i].obj] < N}),
      unrecoverable |-> Cardinality({i \in I : H[V[i].obj] < K}),
      results       |-> {[path |-> V[i].path, healthy |-> H[V[i].obj] = N, recoverable |-> H[V[i].obj] >= K] : i \in I},
      stats         |-> StatsB(V, G, P)]

(* ===================== the behaviour, stated directly =====================
   Nothing below uses TDirB / BlRefresh. *)
\* reachability that does not look into prohibited directories
StepB(G, P, R) == R \cup UNION {{G.kids[o][nm].to : nm \in DOMAIN G.kids[o]} : o \in {x \in R : IsDirT(G.type[x]) /\ x \notin P}}
RECURSIVE ReachFromB(_, _, _)
ReachFromB(G, P, R) == IF StepB(G, P, R) = R THEN R ELSE ReachFromB(G, P, StepB(G, P, R))
ReachB(G, P, root) == ReachFromB(G, P, {root})
\* the graph a gateway with blacklist P serves: a prohibited directory is an opaque leaf
Opaque(G, P) == [type |-> [o \in DOMAIN G.type |-> IF o \in P /\ IsDirT(G.type[o]) THEN "file" ELSE G.type[o]],
                 kids |-> [o \in DOMAIN G.kids |-> IF o \in P THEN <<>> ELSE G.kids[o]]]

\* V: a reported visit list of a walk from root with P prohibited
\* the walk sees exactly what is reachable without entering prohibited directories:
\* the entries are still listed, nothing underneath is
DC_Reach(G, P, root, V) == VisitedObjs(V) = ReachB(G, P, root)
\* a blacklist only hides
DC_Hides(G, P, root, V) == VisitedObjs(V) \subseteq Reach(G, root)
DC_Leaves(G, P, root, V) ==
  \A i, j \in 1..Len(V) : (V[i].obj \in P /\ i # j) => ~(Len(V[j].path) > Len(V[i].path) /\ SubSeq(V[j].path, 1, Len(V[i].path)) = V[i].path)
\* and the C21 clauses hold for the walk on the served graph
DC_C21(G, P, root, V) == C21_FirstFailing(Opaque(G, P), root, V) = ""

\* R: a deep-check report [checked, healthy, unhealthy, unrecoverable, results]
CheckSet(G, P, root) == {o \in ReachB(G, P, root) : HasVC(G, o) /\ o \notin P}
\* every distributed object of the traversal set is checked exactly once, nothing else is
DC_Checked(G, P, H, K, N, root, R) ==
  LET CS == CheckSet(G, P, root)
      GP == Opaque(G, P)
  IN /\ R.checked = Cardinality(CS)
     /\ Cardinality(R.results) = R.checked
     /\ {Resolve(GP, root, x.path, 1) : x \in R.results} = CS
\* the counters are the sums of the per-object verdicts
DC_Sums(G, P, H, K, N, root, R) ==
  LET CS == CheckSet(G, P, root)
      GP == Opaque(G, P)
  IN /\ R.healthy + R.unhealthy = R.checked
     /\ R.unrecoverable <= R.unhealthy
     /\ R.healthy = Cardinality({o \in CS : H[o] = N})
     /\ R.unrecoverable = Cardinality({o \in CS : H[o] < K})
     /\ \A x \in R.results : LET o == Resolve(GP, root, x.path, 1) IN
                             o \in CS /\ x.healthy = (H[o] = N) /\ x.recoverable = (H[o] >= K)

DC_WalkFirstFailing(G, P, root, V) ==
  IF ~DC_Hides(G, P, root, V) THEN "DC_Hides"
  ELSE IF ~DC_Reach(G, P, root, V) THEN "DC_Reach"
  ELSE IF ~DC_Leaves(G, P, root, V) THEN "DC_Leaves"
  ELSE IF ~DC_C21(G, P, root, V) THEN "DC_C21"
  ELSE ""
DC_CheckFirstFailing(G, P, H, K, N, root, R) ==
  IF ~DC_Checked(G, P, H, K, N, root, R) THEN "DC_Checked"
  ELSE IF ~DC_Sums(G, P, H, K, N, root, R) THEN "DC_Sums"
  ELSE ""
=============================================================================
