---------------------------- MODULE MCDeepCheck ----------------------------
(* DeepCheck.tla over every graph of MCDeepTraverse (each state is one graph): for
   every set P of prohibited objects (the root aside) and a family of share counts H,
   the walk with a blacklist and the deep-check report satisfy the DC clauses; with
   an empty blacklist the walk is the C21 traversal and the objects checked are
   the distributed objects of the C21 traversal set. *)
EXTENDS MCDeepTraverse, DeepCheck

K == 1
N == 2
Root == "o1"
Listable == {o \in DOMAIN G.type : HasVC(G, o)} \ {Root}
Ps == SUBSET Listable
\* share counts: all healthy, all degraded, all gone, one object degraded or gone
Hs == LET O == DOMAIN G.type IN
      {[o \in O |-> h] : h \in 0..N} \cup {[o \in O |-> IF o = x THEN h ELSE N] : x \in O, h \in 0..(N - 1)}

DC_Walk_ == \A P \in Ps, lvl \in {"w", "r"} : DC_WalkFirstFailing(G, P, Root, TraverseB(G, P, Root, lvl)) = ""
\* a prohibited directory behaves exactly like an opaque file in its place
DC_OpaqueFile_ == \A P \in Ps : TraverseB(G, P, Root, "w") = Traverse(Opaque(G, P), Root, "w")
DC_NoBlacklistIsC21_ == /\ TraverseB(G, {}, Root, "w") = V
                        /\ DeepCheckOf(G, {}, [o \in DOMAIN G.type |-> N], K, N, Root, "w").stats = Stats(V, G)
DC_Report_ == \A P \in Ps, H \in Hs : LET R == DeepCheckOf(G, P, H, K, N, Root, "w") IN DC_CheckFirstFailing(G, P, H, K, N, Root, R) = ""
\* "equal to the C21 traversal set": without a blacklist the objects checked are the distributed visited objects
DC_SameSetAsC21_ ==
  LET R == DeepCheckOf(G, {}, [o \in DOMAIN G.type |-> N], K, N, Root, "w") IN
  /\ R.checked = Cardinality({o \in VisitedObjs(V) : HasVC(G, o)})
  /\ R.healthy = R.checked /\ R.unhealthy = 0 /\ R.unrecoverable = 0
\* reads and paths: a prohibited object is never readable, nothing below a prohibited directory resolves
DC_Reads_ == \A P \in Ps : \A o \in DOMAIN G.type :
                /\ (o \in P) = (ReadSt(G, P, [x \in DOMAIN G.type |-> N], K, o) = "FileProhibited")
                /\ NodeOf(G, P, o).isdir => o \notin P
DC_Paths_ == \A P \in Ps : \A i \in 1..Len(V) :
                LET r == ResolveB(G, P, Root, V[i].path, 1) IN
                IF \E k \in 1..(Len(V[i].path) - 1) : Resolve(G, Root, SubSeq(V[i].path, 1, k), 1) \in P
                  THEN r.st = "FileProhibited"
                  ELSE r.st = "ok" /\ r.obj = V[i].obj
=============================================================================
