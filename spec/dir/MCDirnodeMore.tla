--------------------------- MODULE MCDirnodeMore ---------------------------
(* Model checking of DirnodeMore.tla: every sequence of at most MaxOps calls
   (create_subdirectory, add_file, set_children, delete, set_node, and after each
   of them every read call of a small universe) from two initial worlds.  The XM
   clauses are action properties over (world before, world after, call, answer);
   the read calls and path resolutions are judged in every state reached. *)
EXTENDS DirnodeMore

CONSTANTS RawNames,      \* raw names the calls use
          MaxOps, NFresh, \* NFresh: how many directories may be created during a run ("n1", "n2", ...)
          WithRO,
          Small          \* TRUE: the reduced call universe of the quick tier

VARIABLES W, clock, nops, last
vars == <<W, clock, nops, last>>
View_ == <<W, clock, nops>>

File(i, w) == [id |-> i, type |-> "file", w |-> w]
Dir(i, w)  == [id |-> i, type |-> "dir", w |-> w]
Unk(i, w)  == [id |-> i, type |-> "unknown", w |-> w]

Fresh(i) == "n" \o ToString(i)
NUsed == Cardinality({i \in 1..NFresh : Fresh(i) \in DOMAIN W.D})
NewId == Fresh(NUsed + 1)
CanCreate == NUsed < NFresh
Dirs == DOMAIN W.D
N1 == CHOOSE n \in RawNames : TRUE

\* initial children of a new directory
KidLists == {<<>>,
             <<[name |-> "a", child |-> File("f1", FALSE), md |-> "m1"]>>,
             <<[name |-> "e1", child |-> File("f1", FALSE), md |-> "m0"], [name |-> "e2", child |-> File("g1", TRUE), md |-> "mt"]>>,
             <<[name |-> "a", child |-> File("g1", TRUE), md |-> "nw"]>>,
             <<[name |-> "a", child |-> Dir("d1", TRUE), md |-> "m0"]>>,
             \* the spelling that loses is not packed, whatever it points to; an unknown cap held read-only
             <<[name |-> "e1", child |-> Dir("d1", TRUE), md |-> "m0"], [name |-> "e2", child |-> Unk("u1", FALSE), md |-> "m1"]>>}
             \cup {<<[name |-> "a", child |-> Dir(x, FALSE), md |-> "m0"]>> : x \in W.imm}
OWs == {"true", "false", "only_files"}

MkdirOps == {[op |-> "mkdir", d |-> d, via |-> "rw", name |-> n, kids |-> k, ow |-> ow, mutable |-> m, md |-> md] :
               d \in Dirs, n \in RawNames, k \in KidLists, ow \in OWs, m \in BOOLEAN,
               md \in IF Small THEN {"keep"} ELSE {"keep", "nw"}}
            \cup {[op |-> "mkdir", d |-> "d1", via |-> "rw", name |-> N1, kids |-> <<>>, ow |-> "true", mutable |-> TRUE, md |-> "nw"]}
AddFileOps == {[op |-> "addfile", d |-> d, via |-> "rw", name |-> n, content |-> c, md |-> md, ow |-> ow] :
                 d \in Dirs, n \in RawNames, c \in IF Small THEN {"c1", "lit"} ELSE DOMAIN FileOf,
                 md \in IF Small THEN {"keep"} ELSE {"keep", "m1"}, ow \in IF Small THEN {"true", "false"} ELSE OWs}
ItemLists == {<<[name |-> p[1], child |-> File("f1", FALSE), md |-> "none"], [name |-> p[2], child |-> File("g1", TRUE), md |-> m]>> :
                p \in {q \in RawNames \X RawNames : q[1] # q[2]}, m \in IF Small THEN {"none", "nw"} ELSE {"none", "m1", "nw"}}
SetChildrenOps == {[op |-> "setchildren", d |-> d, via |-> "rw", items |-> it, ow |-> ow] : d \in Dirs, it \in ItemLists, ow \in OWs}
OtherOps == {[op |-> "delete", d |-> d, via |-> "rw", name |-> n, must_exist |-> TRUE, must_be_dir |-> FALSE, must_be_file |-> FALSE] :
               d \in Dirs, n \in RawNames}
            \cup {[op |-> "add", d |-> d, via |-> "rw", name |-> n, child |-> Dir(c, c \notin W.imm), md |-> "keep", ow |-> "true"] :
                    d \in Dirs, n \in RawNames, c \in Dirs}
ROOps == IF ~WithRO THEN {} ELSE
         {[op |-> "mkdir", d |-> "d1", via |-> "ro", name |-> N1, kids |-> <<>>, ow |-> "true", mutable |-> TRUE, md |-> "keep"],
          [op |-> "addfile", d |-> "d1", via |-> "ro", name |-> N1, content |-> "c1", md |-> "keep", ow |-> "true"],
          [op |-> "setchildren", d |-> "d1", via |-> "ro", items |-> <<[name |-> N1, child |-> File("f1", FALSE), md |-> "none"]>>, ow |-> "true"]}
Ops == MkdirOps \cup AddFileOps \cup SetChildrenOps \cup OtherOps \cup ROOps

\* read calls judged in every state
Paths == {<<>>} \cup {<<a>> : a \in RawNames} \cup {<<a, b>> : a, b \in RawNames}
         \cup (IF Small THEN {<<N1, N1, N1>>} ELSE {<<a, b, c>> : a, b, c \in RawNames})
ReadCalls == {[op |-> "has", d |-> d, via |-> "rw", name |-> n] : d \in Dirs, n \in RawNames}
             \cup {[op |-> k, d |-> d, via |-> v, name |-> n] : k \in {"get", "getmd"}, d \in Dirs, v \in {"rw", "ro"}, n \in {"a", "e2"} \cap RawNames}
             \cup {[op |-> "list", d |-> d, via |-> v] : d \in Dirs, v \in {"rw", "ro"}}
             \cup {[op |-> "path", d |-> d, via |-> "rw", path |-> p] : d \in Dirs, p \in Paths}
             \cup {[op |-> "path", d |-> "d1", via |-> "ro", path |-> p] : p \in Paths}

NoW == [D |-> [d \in {"d1"} |-> <<>>], imm |-> {}]
Inits == {NoW,
          \* a sub-directory linked read-only, holding a mutable file by write-cap; a pre-1.4 entry
          [D |-> [d \in {"d1", "d2"} |->
                    IF d = "d1" THEN ("e1" :> [child |-> Dir("d2", FALSE), md |-> "m1", hasT |-> TRUE, crt |-> 1, mot |-> 2])
                    ELSE ("a" :> [child |-> File("g1", TRUE), md |-> "ct", hasT |-> FALSE, crt |-> 0, mot |-> 0])],
           imm |-> {}]}

Answer(x) == [st |-> x.st, out |-> x.out, upl |-> x.upl, has |-> x.has, emd |-> x.emd, missing |-> x.missing, listing |-> x.listing]

Init == /\ W \in Inits /\ clock = 10 /\ nops = 0
        /\ last = [o |-> [op |-> "has", d |-> "d1", via |-> "rw", name |-> N1], r |-> Answer(HasChild(W, [d |-> "d1", name |-> N1])), now |-> 10]

Next == /\ nops < MaxOps
        /\ \E o \in Ops :
             /\ (o.op = "mkdir" => CanCreate)
             /\ LET now == clock + 1
                    x == ApplyMore(W, o, IF CanCreate THEN NewId ELSE "none", now)
                IN /\ W' = x.W /\ clock' = now /\ nops' = nops + 1
                   /\ last' = [o |-> o, r |-> Answer(x), now |-> now]

Spec == Init /\ [][Next]_vars

XM_DirsKept_ == [][XM_DirsKept(W, W', last'.o, last'.r, last'.now)]_vars
XM_Frozen_ == [][XM_Frozen(W, W', last'.o, last'.r, last'.now)]_vars
XM_ReadOnly_ == [][XM_ReadOnly(W, W', last'.o, last'.r, last'.now)]_vars
XM_FailedNoChange_ == [][XM_FailedNoChange(W, W', last'.o, last'.r, last'.now)]_vars
XM_Frame_ == [][XM_Frame(W, W', last'.o, last'.r, last'.now)]_vars
XM_Mkdir_ == [][XM_Mkdir(W, W', last'.o, last'.r, last'.now)]_vars
XM_ImmDeep_ == [][XM_ImmDeep(W, W', last'.o, last'.r, last'.now)]_vars
XM_ImmIdentity_ == [][XM_ImmIdentity(W, W', last'.o, last'.r, last'.now)]_vars
XM_NoWriteEverywhere_ == [][XM_NoWriteEverywhere(W, W', last'.o, last'.r, last'.now)]_vars
XM_AddFile_ == [][XM_AddFile(W, W', last'.o, last'.r, last'.now)]_vars
XM_Batch_ == [][XM_Batch(W, W', last'.o, last'.r, last'.now)]_vars
\* the C20 clauses keep holding in worlds with created and immutable directories
XM_C20_ == [][last'.o.op \in C20Ops => C20_FirstFailing(W.D, [d \in DOMAIN W.D |-> W'.D[d]], AsC20(W, last'.o), last'.r.st, last'.now) = ""]_vars

\* every read call of the universe, in every reachable world; and what a read-only handle
\* yields is never writeable, at any depth
XM_ReadsEverywhere ==
  \A o \in ReadCalls : LET x == ApplyMore(W, o, "none", clock) IN
     /\ x.W = W
     /\ XM_Reads(W, W, o, Answer(x), clock)
     /\ XM_Path(W, W, o, Answer(x), clock)
     /\ (o.via = "ro" => ~x.out.w)
=============================================================================
