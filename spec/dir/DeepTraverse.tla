---------------------------- MODULE DeepTraverse ----------------------------
(* Deep traversal of a directory graph (allmydata/dirnode.py deep_traverse,
   _deep_traverse_dirnode, _deep_traverse_dirnode_children; walkers
   ManifestWalker and deep_stats.DeepStats).

   G == [type, kids]
     type[o]   "dir" mutable directory, "idir" immutable (CHK) directory, "litdir" literal
               directory, "file" CHK file, "mfile" mutable file, "lit" literal file, "unk"
               cap of an unknown format
     kids[o]   for directories: function  name -> [to, lvl]   (names are integers, listed in
               increasing order like sorted(children.items()); lvl "w"/"r": linked through
               its write-cap or its read-cap)
   The identity of an object is its verify-cap; literal files, literal directories and
   unknown caps have none and are identified by the link that leads to them (specified as
   intended: each such link is reported).

   TDir is shaped like the code: one call per directory visit, the found-set threaded
   through the depth-first recursion; unknown children are reported while the listing is
   scanned, then file-like children, then sub-directories.  The C21 clauses at the end
   are stated over a reported visit sequence without using TDir. *)
EXTENDS Common, SequencesExt

HasVC(G, o) == G.type[o] \in {"dir", "idir", "file", "mfile"}
IsDirT(t) == t \in {"dir", "idir", "litdir"}
Ident(G, o) == IF HasVC(G, o) THEN o ELSE "None"          \* what goes into `found`
Names(G, o) == SetToSortSeq(DOMAIN G.kids[o], LAMBDA a, b : a < b)
\* authority the walker has on a child: read-only handles only yield read-only children (C18)
Eff(plvl, link) == IF plvl = "r" THEN "r" ELSE link
Visit(path, o, lvl) == [path |-> path, obj |-> o, lvl |-> lvl]

RECURSIVE TDir(_, _, _, _, _)
TDir(G, o, path, lvl, found) ==
  LET names == Names(G, o)
      \* _deep_traverse_dirnode_children: the loop over sorted(children.items())
      scan[i \in 0..Len(names)] ==
        IF i = 0 THEN [found |-> found, unk |-> <<>>, files |-> <<>>, dirs |-> <<>>]
        ELSE LET p == scan[i - 1]
                 c == G.kids[o][names[i]]
                 v == Visit(Append(path, names[i]), c.to, Eff(lvl, c.lvl))
             IN IF G.type[c.to] = "unk" THEN [p EXCEPT !.unk = Append(@, v)]
                ELSE IF HasVC(G, c.to) /\ c.to \in p.found THEN p
                ELSE LET p2 == [p EXCEPT !.found = @ \cup {Ident(G, c.to)}] IN
                     IF IsDirT(G.type[c.to]) THEN [p2 EXCEPT !.dirs = Append(@, v)]
                     ELSE [p2 EXCEPT !.files = Append(@, v)]
      s == scan[Len(names)]
      \* the chain of _deep_traverse_dirnode calls for the sub-directories, sharing `found`
      rec[j \in 0..Len(s.dirs)] ==
        IF j = 0 THEN [vis |-> <<>>, found |-> s.found]
        ELSE LET prev == rec[j - 1]
                 r == TDir(G, s.dirs[j].obj, s.dirs[j].path, s.dirs[j].lvl, prev.found)
             IN [vis |-> prev.vis \o r.vis, found |-> r.found]
      last == rec[Len(s.dirs)]
  IN [vis |-> <<Visit(path, o, lvl)>> \o s.unk \o s.files \o last.vis, found |-> last.found]

\* deep_traverse(root): found = {root's verify-cap}
Traverse(G, root, lvl) == TDir(G, root, <<>>, lvl, {Ident(G, root)}).vis

\* the counters of DeepStats that depend on the traversal only
CountT(V, G, T) == Cardinality({i \in 1..Len(V) : G.type[V[i].obj] \in T})
Stats(V, G) ==
  [dirs |-> CountT(V, G, {"dir", "idir", "litdir"}), files |-> CountT(V, G, {"file", "mfile", "lit"}),
   imm |-> CountT(V, G, {"file"}), lit |-> CountT(V, G, {"lit"}), mut |-> CountT(V, G, {"mfile"}),
   unk |-> CountT(V, G, {"unk"}),
   maxkids |-> SetMax({0} \cup {Cardinality(DOMAIN G.kids[V[i].obj]) : i \in {k \in 1..Len(V) : IsDirT(G.type[V[k].obj])}})]

(* ============================ C21, stated directly ========================= *)
Objs(G) == DOMAIN G.type
Step(G, R) == R \cup UNION {{G.kids[o][nm].to : nm \in DOMAIN G.kids[o]} : o \in {x \in R : IsDirT(G.type[x])}}
RECURSIVE ReachFrom(_, _)
ReachFrom(G, R) == IF Step(G, R) = R THEN R ELSE ReachFrom(G, Step(G, R))
Reach(G, root) == ReachFrom(G, {root})

RECURSIVE Resolve(_, _, _, _)
\* follow a path of names from o; "nowhere" if it does not exist
Resolve(G, o, path, i) ==
  IF i > Len(path) THEN o
  ELSE IF ~IsDirT(G.type[o]) \/ path[i] \notin DOMAIN G.kids[o] THEN "nowhere"
  ELSE Resolve(G, G.kids[o][path[i]].to, path, i + 1)

VisitedObjs(V) == {V[i].obj : i \in 1..Len(V)}
\* every reachable object is visited and nothing else
C21_Complete(G, root, V) == VisitedObjs(V) = Reach(G, root)
\* an object with a verify-cap is visited exactly once, however many links or cycles lead to it
C21_Once(G, root, V) == \A o \in VisitedObjs(V) : HasVC(G, o) => Cardinality({i \in 1..Len(V) : V[i].obj = o}) = 1
\* no path is reported twice
C21_DistinctPaths(G, root, V) == \A i, j \in 1..Len(V) : i # j => V[i].path # V[j].path
\* objects without verify-cap are identified by their link: each link from a visited directory is reported
C21_LinkIdentity(G, root, V) ==
  \A i \in 1..Len(V) : IsDirT(G.type[V[i].obj]) =>
     \A nm \in DOMAIN G.kids[V[i].obj] :
        ~HasVC(G, G.kids[V[i].obj][nm].to) => \E j \in 1..Len(V) : V[j].path = Append(V[i].path, nm)
\* every reported path leads to the object reported for it
C21_PathsResolve(G, root, V) == \A i \in 1..Len(V) : Resolve(G, root, V[i].path, 1) = V[i].obj

C21_FirstFailing(G, root, V) ==
  IF ~C21_Complete(G, root, V) THEN "C21_Complete"
  ELSE IF ~C21_Once(G, root, V) THEN "C21_Once"
  ELSE IF ~C21_DistinctPaths(G, root, V) THEN "C21_DistinctPaths"
  ELSE IF ~C21_LinkIdentity(G, root, V) THEN "C21_LinkIdentity"
  ELSE IF ~C21_PathsResolve(G, root, V) THEN "C21_PathsResolve"
  ELSE ""
=============================================================================
