----------------------------- MODULE MCDirTree -----------------------------
(* C18 as an induction over paths (DirPack.tla): a walker holds a node, starting at a
   directory opened through its write-cap or its read-cap, and descends: the directory it
   stands in was written by a holder of its write-cap (PackEntry of any child the packing
   accepts), the walker unpacks the entry with the authority it has for this directory.
   Checked: once the walker holds no write-cap it never holds one again, whatever is linked
   below (C18_Transitive); a walker that came down through write-caps recovers the
   write-cap that was linked (C18_WriterSees). *)
EXTENDS DirPack

CONSTANTS Kinds, MaxDepth

VARIABLES cur,      \* the node the walker holds
          depth,
          ro,       \* ghost: somewhere on the path the walker held only a read-cap
          linked    \* ghost: the node that was linked under the name just followed
vars == <<cur, depth, ro, linked>>

Givens == GivensOf(Kinds)
Roots == {KnownNode(Cap("", k, l)) : k \in {"DIR2", "DIR2-MDMF"}, l \in {"w", "r"}} \cup {KnownNode(Cap("", "DIR2-CHK", "r"))}

Init == cur \in Roots /\ depth = 0 /\ ro = IsNone(cur.rw) /\ linked = cur

Descend ==
  /\ cur.known /\ cur.dir /\ depth < MaxDepth
  /\ \E g \in Givens :
       LET n == CreateFromCap(g.rw, g.ro, FALSE)
           e == PackEntry(n, "md", IF cur.mutable THEN "K" ELSE "")
           u == Unpack(e, ~IsNone(cur.rw), cur.mutable)
       IN /\ PackStatus(n, ~cur.mutable) = "ok"
          /\ u.kept
          /\ cur' = u.n /\ linked' = n
          /\ depth' = depth + 1
          /\ ro' = (ro \/ IsNone(u.n.rw))
Next == Descend
Spec == Init /\ [][Next]_vars

C18_Transitive == ro => IsNone(cur.rw)
C18_ReadOnlyNodes == (ro /\ cur.known) => IsNone(cur.rw)            \* is_readonly() of a known node = no write-cap
C18_WriterSees == ~ro => cur.rw = linked.rw
C18_SameObject == Strip(cur.ro) = Strip(linked.ro)
=============================================================================
