---------------------------- MODULE TraceDirnode ----------------------------
(* Trace validation of real DirectoryNodes (harness/dir_driver.py, mode c20)
   against Dirnode.tla.  One event = one call of set_node / set_nodes / delete /
   set_metadata_for / move_child_to at a pinned time `now`, with the outcome the
   caller saw (st: "ok", "redundant" or the exception class; out: the node handed
   back) and obs = list() of every directory afterwards.
   For every event, first the C20 clauses are evaluated on the *observed* step
   (contents before, contents after), then the step is compared with the
   operators of Dirnode.tla.  Verdict = name of the first clause that fails. *)
EXTENDS Dirnode, Json, IOUtils, TLCExt

Traces == JsonDeserialize(IOEnv.TRACE_FILE)

VARIABLES tid, l, S, bad
tvars == <<tid, l, S, bad>>

Events == Traces[tid].events
Ev == Events[l]

\* JSON objects arrive as records; make them functions over their key sets
NormDir(o) == [n \in DOMAIN o |-> [child |-> [id |-> o[n].child.id, type |-> o[n].child.type, w |-> o[n].child.w],
                                   md |-> o[n].md, hasT |-> o[n].hasT, crt |-> o[n].crt, mot |-> o[n].mot]]
NormD(o) == [d \in DOMAIN o |-> NormDir(o[d])]
NormChild(c) == [id |-> c.id, type |-> c.type, w |-> c.w]

\* A burst = calls requested back to back on one client (behind a listing that is still in flight) before the grid runs: they take
\* effect in request order.  Only the last call of a burst carries a listing; for the others (burst = "mid") the answer is judged
\* and the Spec's own state is carried forward.
Mid(e) == "burst" \in DOMAIN e /\ e.burst = "mid"
Verdict(e) ==
  LET obs == NormD(e.obs)
      r   == Apply(S, e, e.now)
      pc  == C20_FirstFailing(S, obs, e, e.st, e.now)
  IN IF Mid(e) THEN (IF e.st # r.st THEN "C20_outcome_in_burst" ELSE IF NormChild(e.out) # r.out THEN "C20_returned_node_in_burst" ELSE "")
     ELSE IF pc # "" THEN pc
     ELSE IF e.st # r.st THEN "C20_outcome"
     ELSE IF NormChild(e.out) # r.out THEN "C20_returned_node"
     ELSE IF obs # r.D THEN "C20_map_refinement"
     ELSE ""

TraceInit ==
  /\ tid \in 1..Len(Traces)
  /\ l = 1
  /\ S = NormD(Traces[tid].consts.init)
  /\ bad = "none"

TraceNext ==
  /\ bad = "none"
  /\ l <= Len(Events)
  /\ LET c == Verdict(Ev) IN
     IF c = ""
       THEN /\ S' = (IF Mid(Ev) THEN Apply(S, Ev, Ev.now).D ELSE NormD(Ev.obs)) /\ l' = l + 1 /\ bad' = "none"
            /\ (l = Len(Events) => PrintT(<<"VF_ACCEPT", tid, l>>))
       ELSE /\ bad' = c /\ UNCHANGED <<S, l>>
            /\ PrintT(<<"VF_REJECT", tid, l, c>>)
  /\ UNCHANGED tid

TraceSpec == TraceInit /\ [][TraceNext]_tvars
TraceOK == bad = "none"
=============================================================================
