------------------------- MODULE TraceDeepTraverse -------------------------
(* Trace validation of deep traversals of real directory graphs
   (harness/dir_driver.py, mode c21) against DeepTraverse.tla.  A trace is one
   graph built from real directories; its events are
     manifest  build_manifest() from the root opened through write-cap or read-cap: the
               reported (path, object, authority) list, and for each path the object that
               get_child_at_path(path) resolves to on the real directories
     stats     the counters of the manifest's stats and of start_deep_stats()
   First the C21 clauses are evaluated on the reported list itself, then the list is
   compared (as a set) with the traversal DeepTraverse.tla computes for the graph. *)
EXTENDS DeepTraverse, Json, IOUtils, TLCExt

Traces == JsonDeserialize(IOEnv.TRACE_FILE)

VARIABLES tid, l, bad
tvars == <<tid, l, bad>>

Events == Traces[tid].events
Ev == Events[l]

KidsFn(seq) == [nm \in {seq[i].name : i \in 1..Len(seq)} |->
                  LET i == CHOOSE k \in 1..Len(seq) : seq[k].name = nm IN [to |-> seq[i].to, lvl |-> seq[i].lvl]]
Graph == LET c == Traces[tid].consts IN
         [type |-> [o \in DOMAIN c.type |-> c.type[o]], kids |-> [o \in DOMAIN c.type |-> KidsFn(c.kids[o])]]
Root == Traces[tid].consts.root

ObsV(e) == [i \in 1..Len(e.vis) |-> Visit(e.vis[i].path, e.vis[i].obj, e.vis[i].lvl)]

VManifest(e) ==
  LET V == ObsV(e)
      W == Traverse(Graph, Root, e.via)
      pc == C21_FirstFailing(Graph, Root, V)
  IN IF \E i \in 1..Len(V) : V[i].obj \notin DOMAIN Graph.type THEN "C21_reports_unknown_object"
     ELSE IF pc # "" THEN pc
     ELSE IF \E i \in 1..Len(e.vis) : e.vis[i].res # e.vis[i].obj THEN "C21_PathsResolve_on_real_directories"
     ELSE IF {V[i] : i \in 1..Len(V)} # {W[i] : i \in 1..Len(W)} THEN
             (IF {[path |-> V[i].path, obj |-> V[i].obj] : i \in 1..Len(V)} = {[path |-> W[i].path, obj |-> W[i].obj] : i \in 1..Len(W)}
                THEN "C21_reported_authority" ELSE "C21_reported_paths")
     ELSE ""

NormStats(s) == [dirs |-> s.dirs, files |-> s.files, imm |-> s.imm, lit |-> s.lit, mut |-> s.mut, unk |-> s.unk, maxkids |-> s.maxkids]
VStats(e) ==
  LET want == Stats(Traverse(Graph, Root, e.via), Graph) IN
  IF NormStats(e.manifest_stats) # want THEN "C21_manifest_stats"
  ELSE IF NormStats(e.deep_stats) # want THEN "C21_deep_stats"
  ELSE ""

\* the walk streamed by the web API (POST ?t=stream-manifest): one unit per object, a final stats unit, or an "ERROR:" line
\* (docs/frontends/webapi.rst: "If any errors occur during the traversal ... an error indication is written to the response
\* body").  e.broken = the directories the harness made unrecoverable before the request.
PathObj(V) == {[path |-> V[i].path, obj |-> V[i].obj] : i \in 1..Len(V)}
VWebManifest(e) ==
  LET V == ObsV(e)
      W == Traverse(Graph, Root, e.via)
  IN IF e.code # 200 \/ e.junk # 0 THEN "C21_web_response_malformed"
     ELSE IF \E i \in 1..Len(V) : V[i].obj \notin DOMAIN Graph.type THEN "C21_web_reports_unknown_object"
     ELSE IF Len(V) # Cardinality(PathObj(V)) THEN "C21_web_unit_repeated"
     ELSE IF ~(PathObj(V) \subseteq PathObj(W)) THEN "C21_web_reported_paths"
     \* a response that does not say ERROR is a complete walk
     ELSE IF ~e.error /\ (~e.complete \/ PathObj(V) # PathObj(W)) THEN "C21_web_incomplete_without_error"
     ELSE IF Len(e.broken) = 0 /\ e.error THEN "C21_web_error_on_healthy_graph"
     ELSE ""

Verdict(e) == CASE e.ev = "web_manifest" -> VWebManifest(e) [] e.ev = "manifest" -> VManifest(e) [] e.ev = "stats" -> VStats(e) [] e.ev = "crash" -> "C21_Crash" [] OTHER -> "unknown_event"

TraceInit == tid \in 1..Len(Traces) /\ l = 1 /\ bad = "none"
TraceNext ==
  /\ bad = "none"
  /\ l <= Len(Events)
  /\ LET c == Verdict(Ev) IN
     IF c = ""
       THEN /\ l' = l + 1 /\ bad' = "none"
            /\ (l = Len(Events) => PrintT(<<"VF_ACCEPT", tid, l>>))
       ELSE /\ bad' = c /\ UNCHANGED l
            /\ PrintT(<<"VF_REJECT", tid, l, c>>)
  /\ UNCHANGED tid
TraceSpec == TraceInit /\ [][TraceNext]_tvars
TraceOK == bad = "none"
=============================================================================
