---------------------------- MODULE GenDirPack ----------------------------
(* GEN + MC for DirPack.tla: every way of handing one child to a directory
   (each kind of cap, in the rw slot, the ro slot or both, with and without the
   ro. / imm. prefixes) x kind of directory.  For each case the Spec computes the
   node the caller holds, whether packing accepts it, the stored plaintext
   read-cap field, and what an opener with / without the directory's writekey
   gets back.  The cases (with these expectations) are written to OUT_FILE for
   replay on the real code; the C19 / C18 clauses are invariants over all cases. *)
EXTENDS DirPack, Json, IOUtils, SequencesExt

CONSTANTS Kinds
Givens == GivensOf(Kinds)
DirKs == {"mut", "imm"}

Expect(g, dk) ==
  LET mutableDir == dk = "mut"
      n == CreateFromCap(g.rw, g.ro, FALSE)          \* the node the caller (web API, set_uri in a mutable directory) holds
      e == PackEntry(n, "md", IF mutableDir THEN "K" ELSE "")
  IN [g |-> g, dirkind |-> dk, n |-> n, pack |-> PackStatus(n, ~mutableDir), stored_ro |-> e.ro,
      w |-> Unpack(e, TRUE, mutableDir), r |-> Unpack(e, FALSE, mutableDir),
      knows_w |-> \E c \in Knows(e) : IsWriteCap(c),
      cls |-> IF RoSlotWriteCap(g.rw, g.ro, FALSE) THEN "ro_slot_known_writecap" ELSE "",
      test_kind |-> \E k \in {"FUTW", "FUTM"} : g.rw.kind = k \/ g.ro.kind = k]
Cases == {Expect(g, dk) : g \in Givens, dk \in DirKs}

\* names: what pack_children stores and what _unpack_contents lists
NameCases == {[raw |-> r, foreign |-> f, stored |-> PackedName(r, f), listed |-> UnpackedName(PackedName(r, f))] :
                r \in {"a", "s1", "e1", "e2", "k2"}, f \in BOOLEAN}
\* two raw names with one normal form handed to pack_children in this order: one entry, the later one wins
PairCases == {[first |-> p[1], second |-> p[2], listed |-> NormP(p[2]), winner |-> "second"] :
                p \in {<<"e1", "e2">>, <<"e2", "e1">>, <<"k2", "k1">>}}

ASSUME ndJsonSerialize(IOEnv.OUT_FILE, SetToSeq(Cases))
ASSUME ndJsonSerialize(IOEnv.NAME_FILE, SetToSeq(NameCases) \o SetToSeq(PairCases))

VARIABLE c
Init == c \in Cases
Next == UNCHANGED c
Spec == Init /\ [][Next]_c

(* ------------------------------- C19 ------------------------------------ *)
\* what packing accepts comes back: same write-cap, same read-cap (an unknown cap read from an immutable
\* directory comes back with the imm. prefix its context implies), same metadata
C19_RoundTrip ==
  (c.pack = "ok" /\ ~(c.test_kind /\ c.dirkind = "imm")) =>
    /\ c.w.kept
    /\ c.w.n.known = c.n.known
    /\ c.w.n.rw = c.n.rw
    /\ Strip(c.w.n.ro) = Strip(c.n.ro)
    /\ (c.dirkind = "mut" => c.w.n.ro = c.n.ro)
    /\ (c.w.n.ro # c.n.ro => ~c.n.known /\ c.w.n.ro.pfx = "imm.")
    /\ c.w.md = "md"
\* immutable directories refuse mutable or write-capable children
C19_ImmRefuses == (c.dirkind = "imm" /\ (c.n.mutable \/ ~IsNone(c.n.rw))) => c.pack = "MustBeDeepImmutableError"
\* ... and never yield one
C19_ImmYieldsImmutable == (c.dirkind = "imm" /\ c.w.kept) => ~c.w.n.mutable /\ IsNone(c.w.n.rw)
\* the x-tahoe-future-test-* caps stand for caps that a later version recognises as writeable / mutable:
\* an immutable directory that was given one (this version cannot tell) does not yield it
C19_TestCapsDropped == (c.test_kind /\ c.dirkind = "imm" /\ c.pack = "ok" /\ ~c.w.kept) => c.w.n.err = "MustBeDeepImmutableError"
\* a node that records a constraint error cannot be stored anywhere
C19_ErrorNodesRefused == c.n.err # "" => c.pack = c.n.err
(* ------------------------------- C18 ------------------------------------ *)
\* an opener without the writekey never obtains a write-cap, and gets the same object as the writer
C18_ReaderNoWrite == c.r.kept => IsNone(c.r.n.rw)
C18_ReaderSameObject == (c.pack = "ok" /\ c.r.kept) => Strip(c.r.n.ro) = Strip(c.w.n.ro)
C18_ReaderSeesAll == (c.pack = "ok" /\ c.w.kept /\ ~IsNone(c.w.n.ro)) => c.r.kept
\* nothing a read-cap holder can decrypt is a write-cap
C18_NoLeak == (c.pack = "ok" /\ c.dirkind = "mut") => ~c.knows_w
\* the writer recovers the write-cap
C18_WriterSees == (c.pack = "ok" /\ c.dirkind = "mut") => c.w.n.rw = c.n.rw
=============================================================================
