----------------------------- MODULE DeepResults -----------------------------
(* The result objects of checking and traversing, on the graphs of DeepTraverse.tla.

   allmydata/deep_stats.py     DeepStats: add_node / enter_directory / which_bucket / histogram / get_results
   allmydata/dirnode.py        ManifestWalker, DeepChecker (every visited node is checked, or checked and
                               repaired; the per-object results are handed to the aggregate)
   allmydata/check_results.py  CheckResults, CheckAndRepairResults, DeepCheckResults.add_check,
                               DeepCheckAndRepairResults.add_check_and_repair, get_counters
   allmydata/web/check_results.py, web/directory.py   the JSON documents of t=check, t=start-deep-check,
                               t=stream-deep-check, t=start-manifest, t=start-deep-stats, t=start-deep-size

   Sources of intent: docs/frontends/webapi.rst (the field-by-field descriptions of the JSON documents),
   the docstrings of IDeepCheckResults / IDeepCheckAndRepairResults / ICheckAndRepairResults in
   interfaces.py, the comment in DeepStats.which_bucket.

   G      graph [type, kids] of DeepTraverse.tla; V a visit list [path, obj, lvl] of a walk of G
   Sz     Sz[o] = size in bytes: of the contents of a CHK / literal file, of the serialised
          contents of a directory; 0 for mutable files and unknown caps (never measured)
   t      ground truth about the shares of one distributed object (K-of-N encoded):
          [gn, bn, nbad]   gn   = share numbers of which an intact copy exists
                           bn   = share numbers of which only damaged copies exist
                           nbad = damaged share files (block data damaged: seen by a verifying check only)
   rec    what checking one visited object yields:
          [lit, pre, att, succ, post]   lit = not distributed (LIT file, literal directory, unknown cap:
          check() answers None); pre / post = [h, r, nc] healthy, recoverable, corrupt shares found;
          att / succ = repair attempted / successful.  A plain check uses lit and pre only. *)
EXTENDS DeepTraverse

(* ======================= size-files-histogram: the buckets ====================
   webapi.rst: "size-files-histogram: list of (minsize, maxsize, count) buckets, with a histogram of
   filesizes, 5dB/bucket, for both literal and immutable files"; which_bucket: "values are from the set
   (0,0), (1,3), (4,10), (11,31), (32,100), (101,316), (317, 1000), etc: two per decade".
   5 dB = a factor of sqrt(10): the upper bound of bucket i >= 1 is floor(10^(i/2)).  TLC's integers are
   32 bits wide, so the table stops at 10^9 and the digits of sqrt(10) are written down
   (MCDeepResults checks the entries it can square). *)
Sqrt10Prefix == <<3, 31, 316, 3162, 31622, 316227, 3162277, 31622776, 316227766>>   \* floor(sqrt(10) * 10^(m-1))
MaxBucket == 18
RECURSIVE Pow10(_)
Pow10(n) == IF n = 0 THEN 1 ELSE 10 * Pow10(n - 1)
UpperRule(i) == IF i = 0 THEN 0 ELSE IF i % 2 = 0 THEN Pow10(i \div 2) ELSE Sqrt10Prefix[(i + 1) \div 2]
\* the same, written out (MCDeepResults: XH_Table compares)
UpperT == <<3, 10, 31, 100, 316, 1000, 3162, 10000, 31622, 100000, 316227, 1000000, 3162277, 10000000, 31622776, 100000000,
            316227766, 1000000000>>
Upper(i) == IF i = 0 THEN 0 ELSE UpperT[i]
Lower(i) == IF i = 0 THEN 0 ELSE Upper(i - 1) + 1
MaxSize == Upper(MaxBucket)

\* DeepStats.which_bucket: the first bucket of the (growing) list that holds the size
RECURSIVE WhichFrom(_, _)
WhichFrom(s, i) == IF Lower(i) <= s /\ s <= Upper(i) THEN i ELSE WhichFrom(s, i + 1)
WhichBucket(s) == LET i == WhichFrom(s, 0) IN [lo |-> Lower(i), hi |-> Upper(i)]

\* DeepStats.histogram + get_results: one row per bucket that holds at least one of the sizes ss (a sequence)
HistOf(ss) ==
  LET ix == {WhichFrom(ss[j], 0) : j \in 1..Len(ss)} IN
  {[lo |-> Lower(i), hi |-> Upper(i), n |-> Cardinality({j \in 1..Len(ss) : WhichFrom(ss[j], 0) = i})] : i \in ix}

(* ------ the histogram, stated directly (no WhichFrom): H a set of rows [lo, hi, n], ss the sizes ------ *)
\* the rows partition the sizes: each size lies in exactly one row, each row counts the sizes that lie in it
DR_HistPartition(H, ss) ==
  /\ \A a \in H : a.lo <= a.hi /\ a.n >= 1 /\ a.n = Cardinality({j \in 1..Len(ss) : a.lo <= ss[j] /\ ss[j] <= a.hi})
  /\ \A a, b \in H : a # b => (a.hi < b.lo \/ b.hi < a.lo)
  /\ \A j \in 1..Len(ss) : \E a \in H : a.lo <= ss[j] /\ ss[j] <= a.hi
\* every row is one of the documented buckets
DR_HistBuckets(H) == \A a \in H : \E i \in 0..MaxBucket : a.lo = Lower(i) /\ a.hi = Upper(i)

(* ================================= deep-stats =================================
   webapi.rst, t=start-deep-stats.  DeepStats.add_node classifies the node, enter_directory is called once
   per directory visit with the listing. *)
IdxT(V, G, T) == {i \in 1..Len(V) : G.type[V[i].obj] \in T}
RECURSIVE SumSz(_, _, _)
SumSz(V, Sz, I) == IF I = {} THEN 0 ELSE LET i == CHOOSE x \in I : TRUE IN Sz[V[i].obj] + SumSz(V, Sz, I \ {i})
MaxSz(V, Sz, I) == IF I = {} THEN 0 ELSE SetMax({Sz[V[i].obj] : i \in I})
SizesOf(V, Sz, I) == LET s == SetToSortSeq(I, LAMBDA a, b : a < b) IN [k \in 1..Len(s) |-> Sz[V[s[k]].obj]]
DirT == {"dir", "idir", "litdir"}

FullStats(V, G, Sz) ==
  LET c == Stats(V, G)
      imm == IdxT(V, G, {"file"})
      lit == IdxT(V, G, {"lit"})
      dirs == IdxT(V, G, DirT)
  IN [dirs |-> c.dirs, files |-> c.files, imm |-> c.imm, lit |-> c.lit, mut |-> c.mut, unk |-> c.unk, maxkids |-> c.maxkids,
      size_imm |-> SumSz(V, Sz, imm), size_lit |-> SumSz(V, Sz, lit), size_dirs |-> SumSz(V, Sz, dirs),
      largest_dir |-> MaxSz(V, Sz, dirs), largest_imm |-> MaxSz(V, Sz, imm),
      hist |-> HistOf(SizesOf(V, Sz, imm \cup lit))]

\* t=start-deep-size: "the sum of the filesize of all directories and immutable files reachable from the given
\* directory ... It does not include space consumed by mutable files"
DeepSizeOf(st) == st.size_imm + st.size_dirs

(* relations between the fields the documentation states, over a reported stats record st alone *)
DR_StatsRelations(st) ==
  /\ st.files = st.imm + st.mut + st.lit                   \* "count-files: sum of the above three"
  /\ st.largest_imm <= st.size_imm /\ (st.imm = 0 => st.size_imm = 0 /\ st.largest_imm = 0)
  /\ st.largest_dir <= st.size_dirs /\ st.dirs >= 1
  /\ (st.imm = 1 => st.largest_imm = st.size_imm)
  /\ LET rows == st.hist IN SumOver([a \in rows |-> a.n], rows) = st.imm + st.lit   \* "for both literal and immutable files"

(* ============================== one object's check ============================ *)
\* shares a check can count: a check that does not verify takes a damaged share for a good one
Visible(t, verify) == IF verify THEN t.gn ELSE t.gn + t.bn
\* webapi.rst t=check: "healthy: ... Healthy files have at least N good shares"; recoverable = at least k
PreOf(t, K, N, verify) ==
  [h |-> Visible(t, verify) >= N, r |-> Visible(t, verify) >= K, nc |-> IF verify THEN t.nbad ELSE 0]
\* a mutable object can only be repaired through its write-cap (mutable/checker.py: "ticket #625: we cannot yet
\* repair read-only mutable files"; webapi.rst: repaircap = "the weakest cap that can still be used to repair the
\* object"); an immutable one through its verify-cap, which every handle has
Repairable(G, o, lvl) == G.type[o] \in {"file", "idir"} \/ lvl = "w"

(* webapi.rst t=check&repair=true, per object:
     "if the checker determines that the object is not healthy ... it will perform a repair"
     "repair-successful: True if repair was attempted and the file was fully healthy afterwards. False if no
      repair was attempted, or if a repair attempt failed."
     "If no repair was performed, post-repair-results and pre-repair-results will be the same." *)
RecWellFormed(x) ==
  /\ (x.pre.h => x.pre.r) /\ (x.post.h => x.post.r)
  /\ (x.att => ~x.pre.h)
  /\ (~x.att => x.post = x.pre /\ ~x.succ)
  /\ (x.succ <=> x.att /\ x.post.h)

(* ================================ aggregation =================================
   L: the per-object records in visit order, L[i] = [path, lit, pre, att, succ, post].  The operators follow the code. *)
EmptyDC == [checked |-> 0, healthy |-> 0, unhealthy |-> 0, unrec |-> 0, ncorrupt |-> 0]
\* DeepCheckResults.add_check
AddCheck(R, x) ==
  IF x.lit THEN R                                             \* "non-distributed object, i.e. LIT file"
  ELSE [checked |-> R.checked + 1,
        healthy |-> R.healthy + (IF x.pre.h THEN 1 ELSE 0),
        unhealthy |-> R.unhealthy + (IF x.pre.h THEN 0 ELSE 1),
        unrec |-> R.unrec + (IF x.pre.r THEN 0 ELSE 1),
        ncorrupt |-> R.ncorrupt + x.pre.nc]
AggCheck(L) == LET f[i \in 0..Len(L)] == IF i = 0 THEN EmptyDC ELSE AddCheck(f[i - 1], L[i]) IN f[Len(L)]

EmptyDCR == [checked |-> 0, healthy_pre |-> 0, unhealthy_pre |-> 0, unrec_pre |-> 0, healthy_post |-> 0, unhealthy_post |-> 0,
             unrec_post |-> 0, att |-> 0, succ |-> 0, unsucc |-> 0, ncorrupt_pre |-> 0, ncorrupt_post |-> 0]
B2N(b) == IF b THEN 1 ELSE 0
\* DeepCheckAndRepairResults.add_check_and_repair
AddRepair(R, x) ==
  IF x.lit THEN R
  ELSE [checked |-> R.checked + 1,
        healthy_pre |-> R.healthy_pre + B2N(x.pre.h), unhealthy_pre |-> R.unhealthy_pre + B2N(~x.pre.h),
        unrec_pre |-> R.unrec_pre + B2N(~x.pre.r),
        healthy_post |-> R.healthy_post + B2N(x.post.h), unhealthy_post |-> R.unhealthy_post + B2N(~x.post.h),
        unrec_post |-> R.unrec_post + B2N(~x.post.r),
        att |-> R.att + B2N(x.att), succ |-> R.succ + B2N(x.att /\ x.succ), unsucc |-> R.unsucc + B2N(x.att /\ ~x.succ),
        ncorrupt_pre |-> R.ncorrupt_pre + x.pre.nc, ncorrupt_post |-> R.ncorrupt_post + x.post.nc]
AggRepair(L) == LET f[i \in 0..Len(L)] == IF i = 0 THEN EmptyDCR ELSE AddRepair(f[i - 1], L[i]) IN f[Len(L)]

(* ------------- the documented aggregate, stated directly over the records (without the fold) -------- *)
Dist(L) == {i \in 1..Len(L) : ~L[i].lit}
Cnt(L, P(_)) == Cardinality({i \in Dist(L) : P(L[i])})
RECURSIVE SumNc(_, _, _)
SumNc(L, I, post) == IF I = {} THEN 0 ELSE LET i == CHOOSE x \in I : TRUE IN
                        (IF post THEN L[i].post.nc ELSE L[i].pre.nc) + SumNc(L, I \ {i}, post)
\* IDeepCheckResults.get_counters / webapi.rst t=start-deep-check
DR_CheckCounters(L, R) ==
  /\ R.checked = Cardinality(Dist(L))                          \* "non-distributed objects ... are not checked"
  /\ R.healthy = Cnt(L, LAMBDA x : x.pre.h)                    \* "how many of those objects were completely healthy"
  /\ R.unhealthy = Cnt(L, LAMBDA x : ~x.pre.h)                 \* "how many were damaged in some way"
  /\ R.unrec = Cnt(L, LAMBDA x : ~x.pre.r)                     \* "how many were unrecoverable"
  /\ R.ncorrupt = SumNc(L, Dist(L), FALSE)                     \* "summed over all objects examined"
DR_CheckArith(R) == R.healthy + R.unhealthy = R.checked /\ R.unrec <= R.unhealthy
\* IDeepCheckAndRepairResults.get_counters / webapi.rst t=start-deep-check&repair=true
DR_RepairCounters(L, R) ==
  /\ R.checked = Cardinality(Dist(L))
  /\ R.healthy_pre = Cnt(L, LAMBDA x : x.pre.h) /\ R.unhealthy_pre = Cnt(L, LAMBDA x : ~x.pre.h)
  /\ R.unrec_pre = Cnt(L, LAMBDA x : ~x.pre.r)
  /\ R.healthy_post = Cnt(L, LAMBDA x : x.post.h) /\ R.unhealthy_post = Cnt(L, LAMBDA x : ~x.post.h)
  /\ R.unrec_post = Cnt(L, LAMBDA x : ~x.post.r)
  /\ R.att = Cnt(L, LAMBDA x : x.att)                          \* "repairs were attempted on this many objects"
  /\ R.succ = Cnt(L, LAMBDA x : x.att /\ x.succ)               \* "how many repairs resulted in healthy objects"
  /\ R.unsucc = Cnt(L, LAMBDA x : x.att /\ ~x.succ)
  /\ R.ncorrupt_pre = SumNc(L, Dist(L), FALSE) /\ R.ncorrupt_post = SumNc(L, Dist(L), TRUE)
DR_RepairArith(R) ==
  /\ R.healthy_pre + R.unhealthy_pre = R.checked /\ R.healthy_post + R.unhealthy_post = R.checked
  /\ R.unrec_pre <= R.unhealthy_pre /\ R.unrec_post <= R.unhealthy_post
  /\ R.att = R.succ + R.unsucc
\* what follows when every record obeys the per-object rules of t=check&repair=true
DR_RepairWellFormed(R) ==
  /\ R.att <= R.unhealthy_pre
  /\ R.healthy_post = R.healthy_pre + R.succ
  /\ R.unhealthy_post = R.unhealthy_pre - R.succ
\* "list-unhealthy-files: a list of (pathname, check-results) tuples, for each file that was not fully healthy"
UnhealthyPaths(L) == {L[i].path : i \in {j \in Dist(L) : ~L[j].pre.h}}
=============================================================================
