------------------------- MODULE TraceSftpConsumer -------------------------
(* Trace validation of a real OverwriteableFileConsumer (sftpd.py) against
   SftpConsumer.tla.  harness/sftp_driver.py records one event per call
   (Chunk = the download producer calling write(), Finish = download_done after
   the last chunk, Overwrite, SetSize, Read, Final = the moment the committed
   contents are taken from the temporary file, Close), each with
     obs   : downloaded, download_size, current_size, the overwrites heap, done,
             and the whole temporary file read back,
     reads : the read Deferreds that fired during the event with their answers.

   Every event must be a step of the Spec (clauses named conf_...), and the Spec's
   properties are evaluated on the state after every event (clauses named C39_...).

   The Spec is first followed with the intended merge rule ("max").  If an
   event is not a step under "max" but is exactly the step under the rule as
   written in the code ("code"), the trace goes on under "code" and any
   property clause that fails afterwards carries the suffix
   "@merge_rule": the cause of the failure is then known structurally (the
   execution is a behaviour of the code-shaped Spec and of nothing else).
   Clause names are kept short: TLC must print a verdict on one line. *)
EXTENDS SftpConsumer, Json, IOUtils, TLCExt

Traces == JsonDeserialize(IOEnv.TRACE_FILE)

VARIABLES tid, l, S, ideal, dirty, rule, bad
tvars == <<tid, l, S, ideal, dirty, rule, bad>>

Events == Traces[tid].events
Ev == Events[l]
Orig == Traces[tid].consts.orig
ConfOnly == Traces[tid].consts.confonly

StepS(T, e, r) ==
  CASE e.ev = "Chunk"     -> Chunk(T, e.data, r)
    [] e.ev = "Finish"    -> DownloadFinished(T)
    [] e.ev = "Overwrite" -> Overwrite(T, e.off, e.data)
    [] e.ev = "SetSize"   -> SetSize(T, e.n)
    [] e.ev = "Read"      -> ReadStart(T, e.rid, e.off, e.len)
    [] e.ev = "Final"     -> T
    [] e.ev = "Close"     -> Close(T)

\* Append: a write through a handle opened with FXF_APPEND lands at the end of the represented file
StepI(I, e) ==
  CASE e.ev = "Overwrite" -> IdealWrite(I, e.off, e.data)
    [] e.ev = "Append"    -> IdealWrite(I, Len(I), e.data)
    [] e.ev = "SetSize"   -> IdealSetSize(I, e.n)
    [] OTHER              -> I

StepD(D, I, e) ==
  CASE e.ev = "Overwrite" -> DirtyWrite(D, I, e.off, Len(e.data))
    [] e.ev = "SetSize"   -> DirtySetSize(D, I, e.n)
    [] OTHER              -> D

KnownEvent(e) == e.ev \in {"Chunk", "Finish", "Overwrite", "SetSize", "Read", "Final", "Close", "Append", "FStat"}
HandleOnly(e) == e.ev \in {"Append", "FStat"}         \* events of the handle leg (contract mode only)

\* the driver respects the caller contract of read(): no client action while a read is outstanding
ContractOK(T, e) == e.ev \in {"Overwrite", "SetSize", "Final", "Close"} => Quiescent(T)

ExpectedReads(T) == {[rid |-> r.rid, eof |-> r.eof, res |-> ReadResult(T, r), err |-> ""] : r \in T.fired}
ObsReads(e) == ToSet(e.reads)

FileMatches(f, of) == Len(f) = Len(of) /\ \A i \in 1..Len(f) : f[i] # G => f[i] = of[i]

\* a call of the real object raised.  One cause is recognised structurally: two reads wait at the same
\* milestone index, and the exception is the comparison of two Deferreds (the milestone heap holds
\* (index, Deferred) tuples, which Python 3 cannot order when the indexes are equal)
SameMilestoneTwice(T) == \E a, b \in T.waiting : a.rid # b.rid /\ a.idx = b.idx
RaisedClause(T0, T1, e) ==
  IF e.raised = "" THEN ""
  ELSE IF e.raised = "TypeError:deferred_compare" /\ (SameMilestoneTwice(T0) \/ SameMilestoneTwice(T1))
    THEN "C39_Read_raises@milestone_cmp"
  ELSE "conf_raised"

\* first observation that is not the Spec's ("" = the event is this step)
MatchClause(T, e) ==
  LET o == e.obs IN
  IF o.downloaded # T.downloaded THEN "conf_downloaded"
  ELSE IF o.dsize # T.dsize THEN "conf_download_size"
  ELSE IF o.csize # T.csize THEN "conf_current_size"
  ELSE IF ToSet(o.heap) # T.heap THEN "conf_overwrites_heap"
  ELSE IF o.done # T.done THEN "conf_done"
  ELSE IF {r.rid : r \in ObsReads(e)} # {r.rid : r \in T.fired} THEN "conf_reads_fired"
  ELSE IF ObsReads(e) # ExpectedReads(T) THEN "conf_read_result"
  ELSE IF ~T.closed /\ ~FileMatches(T.f, o.file) THEN "conf_tempfile"
  ELSE ""

\* first property that does not hold after the event ("" = all hold)
PropClause(T, I, D, e) ==
  IF \E p \in D : p < Len(I) /\ p < Len(T.f) /\ p < Len(Orig) /\ T.f[p + 1] # I[p + 1] /\ T.f[p + 1] = Orig[p + 1]
    THEN "C39_Precedence_dl_clobbers_write"
  ELSE IF ~ClientPrecedence(T, I, D) THEN "C39_ClientPrecedence"
  ELSE IF ~DownloadedIntact(T, I, D, Orig) THEN "C39_DownloadedIntact"
  ELSE IF ~SizeIsIdeal(T, I) THEN "C39_SizeIsIdeal"
  ELSE IF \E r \in T.fired : r.eof # IdealEOF(I, r.off) \/ (~r.eof /\ ReadResult(T, r) # IdealRead(I, r.off, r.reqlen))
    THEN "C39_ReadEqualsIdeal"
  ELSE IF ~FinalEqualsIdeal(T, I) THEN "C39_FinalEqualsIdeal"
  ELSE IF e.ev = "Final" /\ (~T.done \/ e.obs.file # I) THEN "C39_FinalEqualsIdeal"
  ELSE IF ~NoWaiterWhenDone(T) THEN "C39_NoWaiterWhenDone"
  ELSE IF ~SizesOK(T) THEN "Inv_SizesOK"
  ELSE ""

(* ---- contract mode -------------------------------------------------------------------------
   The conf_ clauses bind the Spec's implementation-shaped state (download pointer, sizes, the heap
   of overwrites, which read fires at which event, the temporary file) to the real object.  A
   legitimate refactoring may keep C39 and still change that internal shape (e.g. keep the
   overwrites as eagerly merged intervals instead of a heap).  A conf_ mismatch is therefore not a
   verdict: it is noted (VF_NOTE) and the rest of the history is judged in *contract mode*, from
   what the client can observe only: every read that fires returns the ideal slice, the committed
   file equals the ideal file, and no read is left waiting once the download has finished.  *)
ReadEv(rid) == CHOOSE i \in 1..Len(Events) : Events[i].ev = "Read" /\ Events[i].rid = rid
FiredUpTo(n) == UNION {{r.rid : r \in ToSet(Events[i].reads)} : i \in 1..n}
IssuedUpTo(n) == {Events[i].rid : i \in {j \in 1..n : Events[j].ev = "Read"}}
ContractClause(e, I, n) ==
  IF e.raised # "" THEN "C39_call_raised"
  ELSE IF \E r \in ToSet(e.reads) :
            LET q == Events[ReadEv(r.rid)] IN
            r.err # "" \/ r.eof # IdealEOF(I, q.off) \/ (~r.eof /\ r.res # IdealRead(I, q.off, q.len))
    THEN "C39_ReadEqualsIdeal"
  ELSE IF e.ev = "Final" /\ e.obs.file # I THEN "C39_FinalEqualsIdeal"
  ELSE IF e.ev = "FStat" /\ e.n # Len(I) THEN "C39_SizeIsIdeal"
  ELSE IF e.ev \in {"Final", "Close"} /\ IssuedUpTo(n) # FiredUpTo(n) THEN "C39_NoWaiterWhenDone"
  ELSE ""
InternalClause(c) == c \in {"conf_downloaded", "conf_download_size", "conf_current_size", "conf_overwrites_heap",
                            "conf_done", "conf_reads_fired", "conf_tempfile", "conf_read_result"}

TraceInit ==
  /\ tid \in 1..Len(Traces)
  /\ l = 1
  /\ S = InitState(Len(Orig))
  /\ ideal = Orig
  /\ dirty = {}
  /\ rule = (IF Traces[tid].consts.contract THEN "contract" ELSE "max")
  /\ bad = "none"

TraceNext ==
  /\ bad = "none"
  /\ l <= Len(Events)
  /\ LET e  == Ev
         \* (in contract mode S is no longer followed: quiescence is read off the trace)
         ok0 == KnownEvent(e) /\ (HandleOnly(e) => rule = "contract")
                              /\ (IF rule = "contract"
                                   THEN (e.ev \in {"Overwrite", "Append", "SetSize", "FStat", "Final", "Close"} => IssuedUpTo(l - 1) = FiredUpTo(l - 1))
                                   ELSE ContractOK(S, e))
         N1 == IF ok0 THEN StepS(S, e, rule) ELSE S
         c1 == IF ~KnownEvent(e) THEN "unknown_event" ELSE IF ~ok0 THEN "harness_contract"
               ELSE IF RaisedClause(S, N1, e) # "" THEN RaisedClause(S, N1, e) ELSE MatchClause(N1, e)
         N2 == IF ok0 /\ c1 # "" /\ rule = "max" THEN StepS(S, e, "code") ELSE N1
         c2 == IF ok0 /\ c1 # "" /\ rule = "max" THEN MatchClause(N2, e) ELSE c1
         sw == ok0 /\ e.raised = "" /\ c1 # "" /\ rule = "max" /\ c2 = ""          \* the event is a step of the code-shaped rule only
         N  == IF sw THEN N2 ELSE N1
         r2 == IF sw THEN "code" ELSE rule
         I2 == StepI(ideal, e)
         D2 == StepD(dirty, ideal, e)
         pc == IF ConfOnly THEN "" ELSE PropClause(N, I2, D2, e)
         c0 == IF c1 # "" /\ ~sw THEN c1
               ELSE IF pc # "" THEN (IF r2 = "code" THEN pc \o "@merge_rule" ELSE pc)
               ELSE ""
         \* an internal (conf_) mismatch switches to contract mode; in contract mode only ContractClause judges
         toContract == rule # "contract" /\ ~ConfOnly /\ InternalClause(c0)
         contract == rule = "contract" \/ toContract
         c  == IF contract THEN (IF ok0 THEN ContractClause(e, I2, l) ELSE c1) ELSE c0
     IN IF c = "" /\ contract
          THEN /\ S' = S /\ ideal' = I2 /\ dirty' = D2 /\ rule' = "contract"
               /\ l' = l + 1 /\ bad' = "none"
               /\ (toContract => PrintT(<<"VF_NOTE", tid, l, "internal_shape_differs_" \o c0>>))
               /\ (l = Len(Events) => PrintT(<<"VF_ACCEPT", tid, l>>))
        ELSE IF c = ""
          THEN /\ S' = [N EXCEPT !.fired = {}]
               /\ ideal' = I2 /\ dirty' = D2 /\ rule' = r2
               /\ l' = l + 1 /\ bad' = "none"
               /\ (l = Len(Events) => PrintT(<<"VF_ACCEPT", tid, l>>))
          ELSE /\ bad' = c /\ UNCHANGED <<S, ideal, dirty, rule, l>>
               /\ PrintT(<<"VF_REJECT", tid, l, c>>)
  /\ UNCHANGED tid

TraceSpec == TraceInit /\ [][TraceNext]_tvars
TraceOK == bad = "none"
=============================================================================
