---------------------------- MODULE TraceBackupDB ----------------------------
(* Trace validation of a real BackupDB_v2 (sqlite file, real local files whose
   size and mtime are set on disk; ctime, the clock and random.random are
   interposed) against BackupDB.tla.  harness/backupdb_driver.py records one
   event per call with the answer (FileResult.was_uploaded / should_check,
   DirectoryResult.was_created / should_check) and a dump of the four tables
   after the call.

   Clauses: C42_FileReuseOnlyUnchanged / C42_DirReuseOnlySameContents are the
   property as stated over the ghost record of the most recent uploads; the
   others say which answer or table differs from the Spec's. *)
EXTENDS BackupDB, Json, IOUtils, TLCExt

Traces == JsonDeserialize(IOEnv.TRACE_FILE)

VARIABLES tid, l, DB, resF, resD, upF, upD, bad
tvars == <<tid, l, DB, resF, resD, upF, upD, bad>>

Events == Traces[tid].events
Ev == Events[l]

St(e) == [size |-> e.st.size, mtime |-> e.st.mtime, ctime |-> e.st.ctime]
Key(c) == ToSet(c)            \* [[name, cap], ...] -> {<<name, cap>>, ...}

ObsDB(o) == [files |-> ToSet(o.files), caps |-> ToSet(o.caps), lu |-> ToSet(o.lu),
             dirs |-> {[key |-> Key(d.key), cap |-> d.cap, up |-> d.up, chk |-> d.chk] : d \in ToSet(o.dirs)}]

TablesClause(D, o) ==
  LET od == ObsDB(o) IN
  IF od.files # D.files THEN "conf_table_local_files"
  ELSE IF od.caps # D.caps THEN "conf_table_caps"
  ELSE IF od.lu # D.lu THEN "conf_table_last_upload"
  ELSE IF od.dirs # D.dirs THEN "conf_table_directories"
  ELSE ""

V(c, D, rf, rd, uf, ud) == [c |-> c, DB |-> D, resF |-> rf, resD |-> rd, upF |-> uf, upD |-> ud]
Same(c) == V(c, DB, resF, resD, upF, upD)

Has(f, k) == k \in DOMAIN f
Put(f, k, v) == (k :> v) @@ f

VCheckFile(e) ==
  LET st == St(e)
      want == CheckFileRes(DB, e.path, st, e.use_ts, e.now, e.rnd)
      D2 == CheckFile(DB, e.path, st, e.use_ts)
      rf == Put(resF, e.rid, [path |-> e.path, st |-> st, cap |-> e.res.cap])
  IN IF e.res.cap # "" /\ ~(e.use_ts /\ Has(upF, e.path) /\ upF[e.path].st = st /\ upF[e.path].cap = e.res.cap)
       THEN Same("C42_FileReuseOnlyUnchanged")
     ELSE IF e.res.cap # want.cap THEN Same(IF e.res.cap = "" THEN "C42_reuse_missed" ELSE "C42_reuse_wrong_cap")
     ELSE IF e.res.should # want.should THEN Same("conf_should_check")
     ELSE IF ObsDB(e.obs).files # D2.files THEN Same("C42_StaleRowDeleted")
     ELSE IF TablesClause(D2, e.obs) # "" THEN Same(TablesClause(D2, e.obs))
     ELSE V("", D2, rf, resD, upF, upD)

VDidUpload(e) ==
  LET r == resF[e.rid]
      D2 == DidUploadFile(DB, e.cap, r.path, r.st, e.now)
  IN IF TablesClause(D2, e.obs) # "" THEN Same(TablesClause(D2, e.obs))
     ELSE V("", D2, resF, resD, Put(upF, r.path, [st |-> r.st, cap |-> e.cap]), upD)

VDidCheckHealthy(e) ==
  LET r == resF[e.rid]
      D2 == DidCheckFileHealthy(DB, r.cap, e.now)
  IN IF TablesClause(D2, e.obs) # "" THEN Same(TablesClause(D2, e.obs))
     ELSE V("", D2, resF, resD, upF, upD)

VCheckDir(e) ==
  LET k == Key(e.contents)
      want == CheckDirectoryRes(DB, k, e.now, e.rnd)
      rd == Put(resD, e.did, [key |-> k, cap |-> e.res.cap])
  IN IF e.res.cap # "" /\ ~(Has(upD, k) /\ upD[k] = e.res.cap) THEN Same("C42_DirReuseOnlySameContents")
     ELSE IF e.res.cap # want.cap THEN Same(IF e.res.cap = "" THEN "C42_dir_reuse_missed" ELSE "C42_dir_reuse_wrong_cap")
     ELSE IF e.res.should # want.should THEN Same("conf_should_check_dir")
     ELSE IF TablesClause(DB, e.obs) # "" THEN Same(TablesClause(DB, e.obs))
     ELSE V("", DB, resF, rd, upF, upD)

VDidCreate(e) ==
  LET r == resD[e.did]
      D2 == DidCreateDirectory(DB, e.cap, r.key, e.now)
  IN IF TablesClause(D2, e.obs) # "" THEN Same(TablesClause(D2, e.obs))
     ELSE V("", D2, resF, resD, upF, Put(upD, r.key, e.cap))

VDidCheckDirHealthy(e) ==
  LET r == resD[e.did]
      D2 == DidCheckDirectoryHealthy(DB, r.cap, e.now)
  IN IF TablesClause(D2, e.obs) # "" THEN Same(TablesClause(D2, e.obs))
     ELSE V("", D2, resF, resD, upF, upD)

VForget(e) ==
  LET D2 == IF e.which = "cap" THEN ForgetCap(DB, e.cap) ELSE ForgetUpload(DB, e.cap)
  IN IF TablesClause(D2, e.obs) # "" THEN Same("harness_forget") ELSE V("", D2, resF, resD, upF, upD)

\* closing and reopening the database file changes nothing
VReopen(e) == IF TablesClause(DB, e.obs) # "" THEN Same("conf_persistence") ELSE Same("")

Verdict(e) ==
  CASE e.ev = "CheckFile"          -> VCheckFile(e)
    [] e.ev = "DidUpload"          -> VDidUpload(e)
    [] e.ev = "DidCheckHealthy"    -> VDidCheckHealthy(e)
    [] e.ev = "CheckDir"           -> VCheckDir(e)
    [] e.ev = "DidCreate"          -> VDidCreate(e)
    [] e.ev = "DidCheckDirHealthy" -> VDidCheckDirHealthy(e)
    [] e.ev = "Forget"             -> VForget(e)
    [] e.ev = "Reopen"             -> VReopen(e)
    [] OTHER                       -> Same("unknown_event")

TraceInit ==
  /\ tid \in 1..Len(Traces)
  /\ l = 1
  /\ DB = EmptyDB
  /\ resF = <<>> /\ resD = <<>> /\ upF = <<>> /\ upD = <<>>
  /\ bad = "none"

TraceNext ==
  /\ bad = "none"
  /\ l <= Len(Events)
  /\ LET v == Verdict(Ev)
         c == IF Ev.raised # "" THEN "conf_call_raised"
              ELSE IF v.c # "" THEN v.c
              ELSE IF v.DB.nextid # Ev.obs.nextid THEN "conf_autoincrement"
              ELSE IF ~DBOK(v.DB) THEN "Inv_DBOK" ELSE ""
     IN IF c = ""
          THEN /\ DB' = v.DB /\ resF' = v.resF /\ resD' = v.resD /\ upF' = v.upF /\ upD' = v.upD
               /\ l' = l + 1 /\ bad' = "none"
               /\ (l = Len(Events) => PrintT(<<"VF_ACCEPT", tid, l>>))
          ELSE /\ bad' = c /\ UNCHANGED <<DB, resF, resD, upF, upD, l>>
               /\ PrintT(<<"VF_REJECT", tid, l, c>>)
  /\ UNCHANGED tid

TraceSpec == TraceInit /\ [][TraceNext]_tvars
TraceOK == bad = "none"
=============================================================================
