--------------------------- MODULE WebAuthority ---------------------------
(* C41 -- the web API never exceeds the authority of the capability used.

   A small tree with mixed authority (the driver builds exactly this tree on real storage servers):

     ROOT --f--> IMM   --lit--> LIT   --m--> M1 (rw link)   --romut--> M2 (read-only link)
          --sub--> SUB (rw link)      --rosub--> D2 (read-only link)   --d2rw--> D2 (rw link to the same directory)
          --idir--> ID (immutable directory)
     SUB  --f--> SF    --m--> M3
     D2   --f--> DF    --m--> M4 (rw link)    --d--> D3 (rw link)
     D3   --f--> XF
     ID   --f--> IMM

   A request names a start capability [obj, auth] (auth = write | read | verify: the kind of cap put in the URL),
   a path of child names, an operation (method + t=) and its arguments.  Authority is computed the way capabilities
   work: the authority over the object reached by a path is the minimum of the start cap's authority and the
   authority of every link followed (a directory reached read-only cannot decrypt the write-caps of its children,
   so everything below a read-only step is read-only), clipped to what the kind of object admits (immutable
   files: read).  An operation modifies a set of objects Mod(req) (the directory whose link table is edited, or
   the mutable file whose contents are replaced); it is performed iff the request has write authority over every
   object in Mod, otherwise it must be refused and the grid must not change.  A response may reveal, about every
   object, at most the authority derivable from the capabilities presented in the request (Grant).

   GEN mode: every request with the outcome the property requires is written to IOEnv.OUT_FILE; the driver
   replays them through the real web Root.  The clauses of the property are stated again over the table,
   by explicit quantification over the steps of the access paths, independently of Walk/Mod/Grant. *)
EXTENDS Integers, Sequences, FiniteSets, TLC, Json, IOUtils, SequencesExt

(* ---- the tree --------------------------------------------------------------------------------------- *)
Objs == {"ROOT", "SUB", "D2", "D3", "ID", "IMM", "LIT", "SF", "DF", "XF", "M1", "M2", "M3", "M4", "SPARE"}
Kind == [o \in Objs |-> CASE o \in {"ROOT", "SUB", "D2", "D3", "ID"} -> "dir"
                          [] o \in {"M1", "M2", "M3", "M4", "SPARE"} -> "mut"
                          [] OTHER -> "imm"]
L(p, n, c, a) == [parent |-> p, name |-> n, child |-> c, auth |-> a]
Links == {L("ROOT", "f", "IMM", "read"), L("ROOT", "lit", "LIT", "read"), L("ROOT", "m", "M1", "write"),
          L("ROOT", "romut", "M2", "read"), L("ROOT", "sub", "SUB", "write"), L("ROOT", "rosub", "D2", "read"),
          L("ROOT", "d2rw", "D2", "write"),
          L("SUB", "f", "SF", "read"), L("SUB", "m", "M3", "write"),
          L("D2", "f", "DF", "read"), L("D2", "m", "M4", "write"), L("D2", "d", "D3", "write"),
          L("D3", "f", "XF", "read"),
          L("ROOT", "idir", "ID", "read"), L("ID", "f", "IMM", "read")}

Rank == [none |-> 0, verify |-> 1, read |-> 2, write |-> 3]
MinL(a, b) == IF Rank[a] <= Rank[b] THEN a ELSE b
MaxL(a, b) == IF Rank[a] >= Rank[b] THEN a ELSE b
\* what the kind of object admits
Immutable(o) == Kind[o] = "imm" \/ o = "ID"
Clip(o, a) == IF Immutable(o) THEN MinL(a, "read") ELSE a

HasLink(p, n) == \E l \in Links : l.parent = p /\ l.name = n
Link(p, n) == CHOOSE l \in Links : l.parent = p /\ l.name = n

(* ---- resolution of a path: the handler chain URIHandler.getChild -> DirectoryNodeHandler.getChild ... ---- *)
\* result: [st |-> "found", obj, auth, parent, pauth] | [st |-> "absent", missing |-> n (names that do not exist), parent, pauth]
\*         | [st |-> "bad"] (descends through a file, or below a missing name of a non-creating request)
RECURSIVE Walk(_, _, _, _, _)
Walk(obj, auth, pobj, pauth, path) ==
  IF path = <<>> THEN [st |-> "found", obj |-> obj, auth |-> auth, parent |-> pobj, pauth |-> pauth, missing |-> 0]
  ELSE IF Kind[obj] # "dir" THEN [st |-> "bad", obj |-> obj, auth |-> auth, parent |-> pobj, pauth |-> pauth, missing |-> 0]
  ELSE IF ~HasLink(obj, Head(path))
       THEN [st |-> "absent", obj |-> "none", auth |-> "none", parent |-> obj, pauth |-> auth, missing |-> Len(path)]
  ELSE LET l == Link(obj, Head(path))
       IN Walk(l.child, Clip(l.child, MinL(auth, l.auth)), obj, auth, Tail(path))

Resolve(start, path) == Walk(start.obj, Clip(start.obj, start.auth), "none", "none", path)

(* ---- authority derivable from a presented cap (what a response may reveal) ---------------------------- *)
Cap(o, a) == [obj |-> o, auth |-> a]
\* every existing path (depth <= d) from an object
RECURSIVE PathsFrom(_, _)
PathsFrom(o, d) ==
  {<<>>} \cup (IF d = 0 \/ Kind[o] # "dir" THEN {}
               ELSE UNION {{<<l.name>> \o p : p \in PathsFrom(l.child, d - 1)} : l \in {l2 \in Links : l2.parent = o}})
\* a directory can be listed only with read authority; what is reached below it carries the minimum along the path
Reach(cap) ==
  {LET r == Resolve(cap, p) IN
   <<r.obj, IF p # <<>> /\ Rank[r.pauth] < Rank["read"] THEN "none" ELSE r.auth>> : p \in PathsFrom(cap.obj, 4)}
GrantAll(caps) ==
  LET R == UNION {Reach(cp) : cp \in caps} IN
  [o \in Objs |-> LET lv == {"none"} \cup {x[2] : x \in {y \in R : y[1] = o}}
                  IN CHOOSE a \in lv : \A b \in lv : Rank[a] >= Rank[b]]

(* ---- requests ------------------------------------------------------------------------------------------ *)
Starts == {Cap("ROOT", "write"), Cap("ROOT", "read"), Cap("ROOT", "verify"),
           Cap("D2", "read"), Cap("D2", "write"), Cap("SUB", "write"), Cap("ID", "read"),
           Cap("M1", "write"), Cap("M1", "read"), Cap("M1", "verify"), Cap("M3", "read"), Cap("M3", "write")}

DirPaths(o) == {p \in PathsFrom(o, 3) : Kind[Resolve(Cap(o, "write"), p).obj] = "dir"}
SitePaths(start) ==
  IF start.auth = "verify" THEN {p \in PathsFrom(start.obj, 1) : Len(p) = 0 \/ Head(p) \in {"f", "m", "new"}} \cup
                                (IF Kind[start.obj] = "dir" THEN {<<"new">>} ELSE {})
  ELSE PathsFrom(start.obj, 3)
       \cup {p \o <<"new">> : p \in DirPaths(start.obj)}
       \cup {p \o <<"newa", "newb">> : p \in {p2 \in DirPaths(start.obj) : Len(p2) <= 1}}

\* operations on the slot named by the last path element / on the file itself
SlotOps == {"PUT_file", "PUT_file_sdmf", "PUT_file_offset", "PUT_uri", "PUT_mkdir", "POST_mkdir", "DELETE",
            "POST_upload", "POST_upload_sdmf"}
\* operations on the directory named by the path, with the child name in the arguments
DirOps == {"POST_mkdir_name", "POST_mkdir_children_name", "POST_mkdir_immutable_name", "POST_upload_name",
           "POST_uri_name", "POST_delete_name", "POST_unlink_name", "POST_rename", "POST_set_children"}
NoArgs == [name |-> "", from_name |-> "", to_name |-> "", to_start |-> Cap("ROOT", "none"), to_path |-> <<>>, t |-> ""]
DirArgs(op) ==
  CASE op \in {"POST_delete_name", "POST_unlink_name"} -> [NoArgs EXCEPT !.name = "f"]
    [] op = "POST_rename" -> [NoArgs EXCEPT !.from_name = "f", !.to_name = "renamed"]
    [] OTHER -> [NoArgs EXCEPT !.name = "nn"]
\* relink targets: a cap (+ path) naming the destination directory
RelinkTargets == {[to_start |-> Cap("SUB", "write"), to_path |-> <<>>], [to_start |-> Cap("D2", "read"), to_path |-> <<>>],
                  [to_start |-> Cap("ROOT", "write"), to_path |-> <<"rosub">>], [to_start |-> Cap("ROOT", "write"), to_path |-> <<"d2rw", "d">>],
                  [to_start |-> Cap("ROOT", "read"), to_path |-> <<"sub">>]}

\* which operation makes sense where (taken from docs/frontends/webapi.rst and the handlers' dispatch)
SlotApplicable(op, r, path) ==
  /\ path # <<>> \/ (r.st = "found" /\ Kind[r.obj] = "mut" /\ op \in {"PUT_file", "PUT_file_offset", "POST_upload"})
  /\ CASE r.st = "bad" -> FALSE
       [] r.st = "absent" -> IF r.missing = 1 THEN op \in {"PUT_file", "PUT_file_sdmf", "PUT_uri", "PUT_mkdir", "POST_mkdir"}
                             ELSE op \in {"PUT_file", "PUT_mkdir"}
       [] r.st = "found" ->
            CASE Kind[r.obj] = "dir" -> op \in {"DELETE", "PUT_uri"}
              [] Kind[r.obj] = "mut" -> op \in {"PUT_file", "PUT_file_offset", "POST_upload", "DELETE", "PUT_uri"}
              [] Kind[r.obj] = "imm" -> op \in {"PUT_file", "PUT_file_sdmf", "POST_upload", "POST_upload_sdmf", "DELETE", "PUT_uri"}

\* the objects an operation modifies, each with the authority the request has over it
\* (a set of [obj, auth] records)
SlotMod(op, r) ==
  IF r.st = "found" /\ Kind[r.obj] = "mut" /\ op \in {"PUT_file", "PUT_file_offset", "POST_upload"}
  THEN {[obj |-> r.obj, auth |-> r.auth]}                 \* contents of the mutable file
  ELSE {[obj |-> r.parent, auth |-> r.pauth]}             \* link table of the parent directory

Shape(start, path, r) ==
  IF start.auth = "verify" THEN "verify_cap"
  ELSE IF start.auth = "read" THEN (IF path = <<>> THEN "direct_ro_cap" ELSE "below_ro_cap")
  ELSE IF \E i \in 1..Len(path) : LET pr == Resolve(start, SubSeq(path, 1, i)) IN pr.st = "found" /\ Kind[pr.obj] # "imm" /\ pr.auth # "write"
       THEN "via_ro_link_inside_rw_dir"
  ELSE "rw_all_the_way"

Presented(start, op, args) ==
  {start} \cup (IF op \in {"PUT_uri", "POST_uri_name", "POST_set_children", "POST_mkdir_children_name"} THEN {Cap("SPARE", "read")} ELSE {})
          \cup (IF op = "POST_mkdir_immutable_name" THEN {Cap("IMM", "read")} ELSE {})
          \cup (IF op = "POST_relink" THEN {args.to_start} ELSE {})

Req(kind, op, start, path, args, mods, shape) ==
  LET allowed == \A m \in mods : m.auth = "write" IN
  [kind |-> kind, op |-> op, start |-> start, path |-> path, args |-> args, shape |-> shape,
   expect |-> IF allowed THEN "performed" ELSE "refused",
   changed |-> IF allowed THEN SetToSeq({m.obj : m \in mods}) ELSE <<>>,
   mods |-> SetToSeq(mods),
   may_appear |-> GrantAll(Presented(start, op, args))]

SlotReqs ==
  UNION {UNION {LET r == Resolve(s, p) IN
                {Req("modify", op, s, p, NoArgs, SlotMod(op, r), Shape(s, p, r)) : op \in {o \in SlotOps : SlotApplicable(o, r, p)}}
                : p \in SitePaths(s)} : s \in Starts}

DirSites(s) == {p \in SitePaths(s) : LET r == Resolve(s, p) IN r.st = "found" /\ Kind[r.obj] = "dir"}
DirReqs ==
  UNION {UNION {LET r == Resolve(s, p) IN
                {Req("modify", op, s, p, DirArgs(op), {[obj |-> r.obj, auth |-> r.auth]}, Shape(s, p, r)) : op \in DirOps}
                \cup {LET t == Resolve(tg.to_start, tg.to_path) IN
                      Req("modify", "POST_relink", s, p,
                          [NoArgs EXCEPT !.from_name = "f", !.to_name = "moved", !.to_start = tg.to_start, !.to_path = tg.to_path],
                          {[obj |-> r.obj, auth |-> r.auth], [obj |-> t.obj, auth |-> t.auth]},
                          IF r.auth = "write" /\ t.auth # "write" THEN "relink_into_ro_dir" ELSE Shape(s, p, r))
                      : tg \in {tg2 \in RelinkTargets : Resolve(tg2.to_start, tg2.to_path).obj # r.obj}}
                : p \in DirSites(s)} : s \in Starts}

\* reads: what may the response reveal
ReadTs(k) == IF k = "dir" THEN {"", "json", "info", "uri", "readonly-uri", "rename-form"} ELSE {"json", "info", "uri", "readonly-uri"}
ReadReqs ==
  UNION {UNION {LET r == Resolve(s, p) IN
                IF r.st # "found" THEN {}
                ELSE {[kind |-> "read", op |-> "GET", start |-> s, path |-> p, args |-> [NoArgs EXCEPT !.t = t], shape |-> Shape(s, p, r),
                       expect |-> IF s.auth = "verify" THEN "any" ELSE "ok", changed |-> <<>>, mods |-> <<>>,
                       may_appear |-> GrantAll({s})] : t \in ReadTs(Kind[r.obj])}
                     \cup {[kind |-> "read", op |-> op, start |-> s, path |-> p, args |-> NoArgs, shape |-> Shape(s, p, r),
                            expect |-> IF s.auth = "verify" THEN "any" ELSE "ok", changed |-> <<>>, mods |-> <<>>,
                            may_appear |-> GrantAll({s})]
                           : op \in (IF Kind[r.obj] = "dir" THEN {"POST_check", "POST_stream_manifest", "POST_stream_deep_check"} ELSE {"POST_check"})}
                : p \in SitePaths(s)} : s \in Starts}

\* the token-gated private area (web/private.py): no token / a wrong token must be refused
PrivateReqs ==
  {[kind |-> "private", op |-> "GET_private", start |-> Cap("ROOT", "none"), path |-> <<>>, args |-> [NoArgs EXCEPT !.t = tok],
    shape |-> "private_" \o tok, expect |-> IF tok = "right_token" THEN "admitted" ELSE "refused", changed |-> <<>>, mods |-> <<>>,
    may_appear |-> GrantAll({})] : tok \in {"no_token", "wrong_token", "right_token", "right_token_wrong_scheme"}}

Cases == SlotReqs \cup DirReqs \cup ReadReqs \cup PrivateReqs

ASSUME ndJsonSerialize(IOEnv.OUT_FILE, SetToSeq(Cases))

VARIABLE c
Init == c \in Cases
Next == UNCHANGED c
Spec == Init /\ [][Next]_c

(* ---- the property, over every row, by explicit quantification over the steps of the access path ---------- *)
\* the links followed by start/path up to position i (only defined for existing prefixes)
RECURSIVE ObjAt(_, _)
ObjAt(start, path) == IF path = <<>> THEN start.obj ELSE Link(ObjAt(start, SubSeq(path, 1, Len(path) - 1)), path[Len(path)]).child
RECURSIVE Exists(_, _)
Exists(start, path) ==
  IF path = <<>> THEN TRUE
  ELSE LET pre == SubSeq(path, 1, Len(path) - 1) IN
       Exists(start, pre) /\ Kind[ObjAt(start, pre)] = "dir" /\ HasLink(ObjAt(start, pre), path[Len(path)])
LinkAt(start, path, i) == Link(ObjAt(start, SubSeq(path, 1, i - 1)), path[i])
\* "write all the way": the start cap is a write cap and every link followed down to (and including) position n is a write link
WriteAllTheWay(start, path, n) == start.auth = "write" /\ \A i \in 1..n : LinkAt(start, path, i).auth = "write"

\* longest existing prefix of the request path
ExistingLen(start, path) == CHOOSE n \in 0..Len(path) : Exists(start, SubSeq(path, 1, n)) /\ (n = Len(path) \/ ~Exists(start, SubSeq(path, 1, n + 1)))

\* C41_Refused: a modifying request is performed only if every object it modifies is reached write-all-the-way
C41_PerformedOnlyWithWriteAuthority ==
  (c.kind = "modify" /\ c.expect = "performed") =>
     LET n == ExistingLen(c.start, c.path)
         target == ObjAt(c.start, SubSeq(c.path, 1, n)) IN
     /\ c.start.auth = "write"
     /\ \A m \in 1..Len(c.mods) :
          \* the modified object is the target itself, its parent on the path, or the relink destination
          \/ (c.mods[m].obj = target /\ WriteAllTheWay(c.start, c.path, n))
          \/ (n >= 1 /\ c.mods[m].obj = ObjAt(c.start, SubSeq(c.path, 1, n - 1)) /\ WriteAllTheWay(c.start, c.path, n - 1))
          \/ (c.op = "POST_relink" /\ Exists(c.args.to_start, c.args.to_path)
              /\ c.mods[m].obj = ObjAt(c.args.to_start, c.args.to_path)
              /\ WriteAllTheWay(c.args.to_start, c.args.to_path, Len(c.args.to_path)))
\* a read-only (or verify) start cap, or a read-only link anywhere on the path above the modified object, forces refusal
C41_ReadOnlyStartRefused == (c.kind = "modify" /\ c.start.auth # "write") => (c.expect = "refused" /\ c.changed = <<>>)
C41_ReadOnlyStepRefused ==
  (c.kind = "modify" /\ c.op # "POST_relink") =>
     LET n == ExistingLen(c.start, c.path) IN
     \* the modified object sits at position j of the path; a non-write link at or above it forces refusal
     \A m \in 1..Len(c.mods) : \A j \in 0..n :
        (c.mods[m].obj = ObjAt(c.start, SubSeq(c.path, 1, j)) /\ \E i \in 1..j : LinkAt(c.start, c.path, i).auth # "write")
          => (c.expect = "refused" /\ c.changed = <<>>)
C41_RefusedChangesNothing == (c.expect = "refused") => c.changed = <<>>
\* non-vacuity of the table itself: performed rows name at least one modified object
C41_PerformedChangesSomething == (c.expect = "performed") => Len(c.changed) >= 1
\* a response never reveals write authority unless a write cap was presented, and never more than what is reachable
C41_NoWriteCapThroughReadOnly ==
  (c.start.auth # "write" /\ (c.op # "POST_relink" \/ c.args.to_start.auth # "write")) => \A o \in Objs : c.may_appear[o] # "write"
C41_NothingThroughVerify == (c.start.auth = "verify" /\ c.kind = "read") => \A o \in Objs : Rank[c.may_appear[o]] <= Rank["verify"]
C41_RevealOnlyReachable ==
  \A o \in Objs : c.may_appear[o] = "write" =>
     \/ \E p \in PathsFrom(c.start.obj, 4) : Exists(c.start, p) /\ ObjAt(c.start, p) = o /\ WriteAllTheWay(c.start, p, Len(p))
     \/ (c.op = "POST_relink" /\ \E p \in PathsFrom(c.args.to_start.obj, 4) :
             Exists(c.args.to_start, p) /\ ObjAt(c.args.to_start, p) = o /\ WriteAllTheWay(c.args.to_start, p, Len(p)))
C41_PrivateNeedsToken == (c.kind = "private" /\ c.args.t # "right_token") => c.expect = "refused"
=============================================================================
