---------------------------- MODULE SftpHandles ----------------------------
(* The SFTP frontend as its client sees it: one user's namespace and file-handle table
   (allmydata/frontends/sftpd.py: SFTPUserHandler.openFile / renameFile / removeFile /
   removeDirectory / makeDirectory / openDirectory / getAttrs, GeneralSFTPFile and
   ShortReadOnlySFTPFile readChunk / writeChunk / getAttrs / setAttrs / close).
   The byte-level buffer of one open file is SftpConsumer.tla (property C39); here a handle's
   buffer is the IDEAL file of that module (IdealWrite / IdealSetSize / IdealRead).

   Sources of the rules (quoted where they are used):
     [doc]   docs/frontends/FTP-and-SFTP.rst, "Immutable and Mutable Files"
     [draft] draft-ietf-secsh-filexfer-02 as cited by the code (6.3 open flags, 6.4 read = EOF iff the
             offset is at or past the end, 6.5 rename "It is an error if there already exists a file with the
             name specified by newpath", 4/6 "requests relating to the same file [are processed] in the
             order in which they are received ... the results in the responses will be the same as if
             [the client] had sent the requests one at a time and waited for the response in each case")
     [code]  the comments of sftpd.py (openFile cases 1, 2a-2d; FXF_EXCL; "heisenfiles";
             _abandon_any_heisenfiles; _rename_heisenfiles; getAttrs "use the heisenfile that was most
             recently opened"; _convert_error)

   The contract is SEQUENTIAL: one operator pair per request, XxxRes(S, ...) = the answer,
   Xxx(S, ...) = the next state.  By [draft] a server that is sent overlapping requests about one file
   must answer as if they had been sent one at a time in that order, so the same operators judge
   pipelined histories of the real server (the heisenfile tables exist to make that true).

   State S:
     dir   name -> entry of the user's (writeable) root directory
     mut   fid  -> contents of mutable file fid (a mutable file is an object; links share it)
     ro    name -> entry of a fixed READ-ONLY sub-directory reached as "ro/<name>"
     uri   id   -> node reached as "/uri/<cap>" (no parent directory: "case 1" of openFile)
     h     handle id -> handle
     n     number of handles opened so far
   entry  [kind, c, fid, nw]: kind in none / imm (immutable file with contents c) / mut (write cap of
          mutable fid) / mro (read cap of mutable fid) / dir / unk; nw = the 'no-write' metadata of the link
   path   [t, n]: t = "name" (root-level name n) / "ro" (ro/n) / "uri" (/uri/n) / "nodir" (nodir/n: the
          parent does not exist) / "empty" (the root itself)
   handle [st free/open/closed, F (set of "R" "W" "A" "C" "T" "X"), bound (registered as a heisenfile: opened
          with W or C, neither closed nor unlinked), via (path type), name (the name it will be committed at),
          tgt link/mut, fid, buf, changed, szchg, abandoned, hasmd, nw, seq, moved] *)
EXTENDS SftpConsumer

NoEntry == [kind |-> "none", c |-> <<>>, fid |-> "", nw |-> FALSE]
ImmE(c, nw) == [kind |-> "imm", c |-> c, fid |-> "", nw |-> nw]
MutE(fid) == [kind |-> "mut", c |-> <<>>, fid |-> fid, nw |-> FALSE]
MroE(fid) == [kind |-> "mro", c |-> <<>>, fid |-> fid, nw |-> FALSE]
DirE == [kind |-> "dir", c |-> <<>>, fid |-> "", nw |-> FALSE]
UnkE == [kind |-> "unk", c |-> <<>>, fid |-> "", nw |-> FALSE]

FreeH == [st |-> "free", F |-> {}, bound |-> FALSE, via |-> "", name |-> "", tgt |-> "none", fid |-> "",
          buf |-> <<>>, changed |-> FALSE, szchg |-> FALSE, abandoned |-> FALSE, hasmd |-> FALSE, nw |-> FALSE,
          seq |-> 0, moved |-> FALSE]

InitSH(dir, mut, ro, uri, handles) ==
  [dir |-> dir, mut |-> mut, ro |-> ro, uri |-> uri, h |-> [x \in handles |-> FreeH], n |-> 0]

P(t, n) == [t |-> t, n |-> n]

IsFile(e) == e.kind \in {"imm", "mut", "mro"}
Content(S, e) == IF e.kind = "imm" THEN e.c ELSE IF e.kind \in {"mut", "mro"} THEN S.mut[e.fid] ELSE <<>>

Lookup(S, p) ==
  CASE p.t = "name" -> [parent |-> "rw", e |-> S.dir[p.n]]
    [] p.t = "ro"   -> [parent |-> "ro", e |-> IF p.n \in DOMAIN S.ro THEN S.ro[p.n] ELSE NoEntry]
    [] p.t = "uri"  -> [parent |-> "nop", e |-> S.uri[p.n]]
    [] OTHER        -> [parent |-> "missing", e |-> NoEntry]

\* _no_write(parent_readonly, child, metadata)  ([doc]: "If the 'no-write' field holds a true value, then a
\* permission error will occur when trying to write to the file, even if it is in a writeable directory")
NoWrite(parent, e) ==
  CASE e.kind = "unk" -> TRUE
    [] e.kind = "mut" -> FALSE
    [] e.kind = "mro" -> TRUE
    [] parent # "rw" \/ e.kind = "dir" -> TRUE
    [] OTHER -> e.nw

Writing(F) == F \cap {"W", "C"} # {}

\* the heisenfiles at a root-level name: handles opened for writing that will be committed there
WriteBound(S, n) == {x \in DOMAIN S.h : S.h[x].bound /\ S.h[x].via = "name" /\ S.h[x].name = n}

St(st) == [st |-> st]

(* Inputs whose outcome nothing documents: FXF_CREAT without FXF_WRITE where the eventual commit cannot
   work (no parent directory, read-only parent, read-only mutable file), and FXF_TRUNC on a handle that can
   neither write nor create ([draft] 6.3: FXF_TRUNC is defined for creating opens).  Never generated, never judged. *)
UnspecifiedOpen(S, p, F) ==
  \/ "C" \in F /\ "W" \notin F /\ (p.t \in {"ro", "uri"} \/ (p.t = "name" /\ S.dir[p.n].kind = "mro"))
  \/ "T" \in F /\ F \cap {"W", "C"} = {}

(* ---- openFile ------------------------------------------------------------------------------- *)
OpenRes(S, p, F) ==
  LET L  == Lookup(S, p)
      e  == L.e
  IN
  \* [code] "invalid file open flags: at least one of FXF_READ and FXF_WRITE must be set",
  \*        "FXF_EXCL cannot be set without FXF_CREAT", "path cannot be empty"
  IF F \cap {"R", "W"} = {} THEN St("badmsg")
  ELSE IF "X" \in F /\ "C" \notin F THEN St("badmsg")
  ELSE IF p.t = "empty" THEN St("nosuch")
  ELSE IF p.t = "uri" THEN
       \* [code] case 1: "If the FILECAP is mutable and writeable, then we can open it in write-only or
       \* read/write mode (non-exclusively), otherwise we can only open it in read-only mode"
       IF e.kind \in {"unk", "dir"} THEN St("denied")
       ELSE IF "W" \in F /\ e.kind # "mut" THEN St("denied")
       ELSE IF "X" \in F THEN St("failure")
       ELSE St("ok")
  ELSE IF L.parent = "missing" THEN St("nosuch")
  ELSE IF "X" \in F THEN
       \* [code] "FXF_EXCL means that the link to the file (not the file itself) must be created atomically";
       \* an existing child is FX_FAILURE (_convert_error: other servers return FX_FAILURE for EEXIST)
       IF L.parent = "ro" \/ e.kind # "none" THEN St("failure") ELSE St("ok")
  ELSE IF e.kind = "none" THEN
       \* [code] 2a "the child does not exist: FXF_CREAT must be set, and we must be able to write to the parent"
       IF "C" \notin F THEN St("nosuch") ELSE IF L.parent = "ro" THEN St("denied") ELSE St("ok")
  \* [code] 2b "the child exists but is not a valid known filecap: fail"
  ELSE IF e.kind \in {"unk", "dir"} THEN St("denied")
  \* [code] 2c/2d + [doc] no-write
  ELSE IF "W" \in F /\ NoWrite(L.parent, e) THEN St("denied")
  ELSE St("ok")

Open(S, p, F, h) ==
  IF OpenRes(S, p, F).st # "ok" THEN S
  ELSE LET L == Lookup(S, p)
           e == L.e
           isnew == e.kind = "none"
           hd == [st |-> "open", F |-> F, bound |-> Writing(F), via |-> p.t, name |-> p.n,
                  tgt |-> IF e.kind \in {"mut", "mro"} THEN "mut" ELSE "link", fid |-> e.fid,
                  \* "We're either truncating or creating the file, so we don't need the old contents"
                  buf |-> IF "T" \in F \/ isnew THEN <<>> ELSE Content(S, e),
                  \* "Creating or truncating the file is a change, but if FXF_EXCL is set, a zero-length
                  \*  file has already been created"
                  changed |-> (F \cap {"C", "T"} # {}) /\ "X" \notin F,
                  szchg |-> FALSE, abandoned |-> FALSE,
                  \* a file that did not exist has no metadata of its own (an EXCL open reads back the
                  \* metadata of the link it has just made)
                  hasmd |-> ~isnew \/ "X" \in F,
                  nw |-> IF isnew THEN FALSE ELSE NoWrite(L.parent, e),
                  seq |-> S.n + 1, moved |-> FALSE]
       IN [S EXCEPT !.h[h] = hd, !.n = @ + 1,
                    \* "We make the link initially point to a zero-length LIT file"
                    !.dir = IF "X" \in F THEN [@ EXCEPT ![p.n] = ImmE(<<>>, FALSE)] ELSE @]

(* ---- requests on a handle ------------------------------------------------------------------- *)
RD(st, data) == [st |-> st, data |-> data]

\* [draft] 6.4 / [code] "we respond with an EOF error iff offset is already at EOF"
ReadRes(S, h, off, len) ==
  LET hd == S.h[h] IN
  IF "R" \notin hd.F THEN RD("denied", <<>>)           \* "file handle was not opened for reading"
  ELSE IF hd.st # "open" THEN RD("badmsg", <<>>)        \* "cannot read from a closed file handle"
  ELSE IF IdealEOF(hd.buf, off) THEN RD("eof", <<>>)
  ELSE RD("ok", IdealRead(hd.buf, off, len))

WriteRes(S, h) ==
  LET hd == S.h[h] IN
  IF "W" \notin hd.F THEN St("denied") ELSE IF hd.st # "open" THEN St("badmsg") ELSE St("ok")

\* [code] "FXF_APPEND means that we should always write at the current end of file"
Write(S, h, off, data) ==
  IF WriteRes(S, h).st # "ok" THEN S
  ELSE [S EXCEPT !.h[h].buf = IF "A" \in S.h[h].F THEN @ \o data ELSE IdealWrite(@, off, data),
                 !.h[h].changed = TRUE]

\* setAttrs({"size": n}) on a handle: truncate / zero-extend.  A size that differs from the current one is a
\* change of the file like a write (szchg: a change made by size only).
FSetSize(S, h, n) ==
  IF WriteRes(S, h).st # "ok" THEN S
  ELSE [S EXCEPT !.h[h].buf = IdealSetSize(@, n),
                 !.h[h].szchg = @ \/ (~S.h[h].changed /\ n # Len(S.h[h].buf)),
                 \* setAttrs replaces the handle's metadata by what the request carries (no permissions = writeable):
                 \* from now on the close sets the link's metadata instead of keeping what the name has by then
                 !.h[h].hasmd = TRUE, !.h[h].nw = FALSE]

AT(st, type, size, w) == [st |-> st, type |-> type, size |-> size, w |-> w]
NoAttrs(st) == AT(st, "", -1, FALSE)

FStatRes(S, h) ==
  LET hd == S.h[h] IN
  IF hd.st # "open" THEN NoAttrs("badmsg")              \* "cannot get attributes for a closed file handle"
  ELSE AT("ok", "file", Len(hd.buf), ~hd.nw)

(* close.  [doc] "when the path of an immutable file is opened for writing by SFTP, the directory entry is
   relinked to another file with the newly written contents when the file handle is closed"; "If SFTP is
   used to write to an existing mutable file, it will publish a new version when the file handle is closed";
   "All files created via SFTP are immutable files".  [code] an abandoned (unlinked) file "will never be
   committed"; a renamed one "will be committed at the new direntry"; "has_changed ... it is correct to
   optimize out the commit if it is False at the close call".
   rule = "contract": a change of size alone is a change; rule = "code": sftpd.py's setAttrs does not set
   has_changed (see notes/X-sftp_handles.md). *)
Commits(hd, rule) ==
  hd.st = "open" /\ Writing(hd.F) /\ ~hd.abandoned /\ (hd.changed \/ (rule = "contract" /\ hd.szchg))

CloseHRes(S, h) == St("ok")        \* closing a closed handle is a no-op

CloseH(S, h, rule) ==
  LET hd == S.h[h]
      S1 == IF ~Commits(hd, rule) THEN S
            ELSE IF hd.tgt = "mut" THEN [S EXCEPT !.mut[hd.fid] = hd.buf]
            ELSE [S EXCEPT !.dir[hd.name] =
                     ImmE(hd.buf, IF hd.hasmd THEN hd.nw ELSE S.dir[hd.name].nw)]
  IN IF hd.st # "open" THEN S
     ELSE [S1 EXCEPT !.h[h].st = "closed", !.h[h].bound = FALSE]

(* ---- requests on a path --------------------------------------------------------------------- *)
AttrsOf(S, parent, e) ==
  CASE IsFile(e)       -> AT("ok", "file", Len(Content(S, e)), ~NoWrite(parent, e))
    [] e.kind = "dir"  -> AT("ok", "dir", -1, FALSE)
    [] OTHER           -> AT("ok", "unk", -1, FALSE)

(* getAttrs(path): the set of acceptable answers.  [code] "When asked about a specific file, report its
   current size"; a name that has no directory entry yet but a file opened for writing: "use the
   heisenfile that was most recently opened" (after a rename moved handles to the name any of them is accepted). *)
StatRes(S, p) ==
  LET L == Lookup(S, p) IN
  IF p.t = "empty" THEN {AT("ok", "dir", -1, FALSE)}
  ELSE IF L.parent = "missing" THEN {NoAttrs("nosuch")}
  ELSE IF L.e.kind # "none" THEN {AttrsOf(S, L.parent, L.e)}
  ELSE IF p.t # "name" \/ WriteBound(S, p.n) = {} THEN {NoAttrs("nosuch")}
  ELSE LET c == WriteBound(S, p.n)
           latest == CHOOSE x \in c : \A y \in c : S.h[y].seq <= S.h[x].seq
       IN {FStatRes(S, x) : x \in IF \E y \in c : S.h[y].moved THEN c ELSE {latest}}

(* renameFile(from, to) and the posix-rename@openssh.com extension (ow = TRUE).
   [draft] 6.5 / [code] "OpenSSH's SFTP server returns FX_PERMISSION_DENIED for this error"; a file open
   for writing at the destination counts as existing; "If there are heisenfiles to be written at the 'from'
   direntry, then ensure they will now be written at the 'to' direntry instead". *)
RenameRes(S, pf, pt, ow) ==
  IF {pf.t, pt.t} \cap {"uri", "empty", "nodir"} # {} THEN St("nosuch")
  ELSE IF pf.t = "ro" \/ pt.t = "ro" THEN St("denied")
  ELSE LET f == pf.n
           t == pt.n
       IN IF ~ow /\ (S.dir[t].kind # "none" \/ WriteBound(S, t) # {}) THEN St("denied")
          ELSE IF S.dir[f].kind = "none" /\ WriteBound(S, f) = {} THEN St("nosuch")
          ELSE St("ok")

Rename(S, pf, pt, ow) ==
  IF RenameRes(S, pf, pt, ow).st # "ok" \/ pf.n = pt.n THEN S
  ELSE LET f == pf.n
           t == pt.n
           mv == WriteBound(S, f)
       IN [S EXCEPT !.h = [x \in DOMAIN @ |-> IF x \in mv THEN [@[x] EXCEPT !.name = t, !.moved = TRUE] ELSE @[x]],
                    !.dir = IF S.dir[f].kind = "none" THEN @ ELSE [@ EXCEPT ![t] = S.dir[f], ![f] = NoEntry]]

(* removeFile.  [code] "mark all heisenfiles matching the userpath or direntry as abandoned ... it will
   never be committed"; a missing entry is not an error if a file open for writing was abandoned. *)
RemoveRes(S, p) ==
  IF p.t \in {"uri", "empty", "nodir"} THEN St("nosuch")
  ELSE IF p.t = "ro" THEN St("denied")
  ELSE IF S.dir[p.n].kind = "dir" THEN St("denied")
  ELSE IF S.dir[p.n].kind = "none" /\ WriteBound(S, p.n) = {} THEN St("nosuch")
  ELSE St("ok")

Remove(S, p) ==
  IF RemoveRes(S, p).st # "ok" THEN S
  ELSE LET ab == WriteBound(S, p.n) IN
       [S EXCEPT !.dir[p.n] = NoEntry,
                 !.h = [x \in DOMAIN @ |-> IF x \in ab THEN [@[x] EXCEPT !.abandoned = TRUE, !.bound = FALSE] ELSE @[x]]]

\* removeDirectory: files are refused ("delete required a directory, not a file"), unknown children can be removed
RmdirRes(S, p) ==
  IF p.t \in {"uri", "empty", "nodir"} THEN St("nosuch")
  ELSE IF p.t = "ro" THEN St("denied")
  ELSE IF S.dir[p.n].kind = "none" THEN St("nosuch")
  ELSE IF IsFile(S.dir[p.n]) THEN St("denied")
  ELSE St("ok")

Rmdir(S, p) == IF RmdirRes(S, p).st # "ok" THEN S ELSE [S EXCEPT !.dir[p.n] = NoEntry]

\* makeDirectory (_get_or_create_directories: an existing directory is returned; "cannot create directory
\* because there is a file in the way" is FX_FAILURE)
MkdirRes(S, p) ==
  IF p.t = "empty" THEN St("ok")
  ELSE IF p.t = "ro" THEN IF Lookup(S, p).e.kind = "none" THEN St("denied")
                          ELSE IF Lookup(S, p).e.kind = "dir" THEN St("ok") ELSE St("failure")
  ELSE IF p.t # "name" THEN St("unspecified")
  ELSE IF S.dir[p.n].kind \in {"none", "dir"} THEN St("ok")
  ELSE St("failure")

Mkdir(S, p) ==
  IF p.t = "name" /\ S.dir[p.n].kind = "none" THEN [S EXCEPT !.dir[p.n] = DirE] ELSE S

\* openDirectory: the answer is a listing name -> [type, size, w]; sizes are judged for immutable files only
\* ("The file size may be cached or absent")
OpendirRes(S, p) ==
  LET e == Lookup(S, p).e IN
  IF p.t = "empty" THEN St("ok")
  ELSE IF p.t = "nodir" THEN St("nosuch")
  ELSE IF e.kind = "none" THEN St("nosuch")
  ELSE IF e.kind = "dir" THEN St("ok")
  ELSE St("denied")          \* "cannot list a file as if it were a directory" / unknown cap

ListingOK(S, p, listing) ==
  IF p.t = "empty"
    THEN \A n \in DOMAIN S.dir :
           LET e == S.dir[n] IN
           IF e.kind = "none" THEN n \notin DOMAIN listing
           ELSE /\ n \in DOMAIN listing
                /\ listing[n].type = AttrsOf(S, "rw", e).type
                /\ (IsFile(e) => listing[n].w = AttrsOf(S, "rw", e).w)
                /\ (e.kind = "imm" => listing[n].size = Len(e.c))
  ELSE IF p.t = "name" THEN DOMAIN listing = {}         \* directories made in a history stay empty
  ELSE TRUE

(* ---- well-formedness ------------------------------------------------------------------------ *)
StateOK(S) ==
  /\ \A n \in DOMAIN S.dir : S.dir[n].kind \in {"mut", "mro"} => S.dir[n].fid \in DOMAIN S.mut
  /\ \A x \in DOMAIN S.h :
       LET hd == S.h[x] IN
       /\ hd.bound => (hd.st = "open" /\ Writing(hd.F) /\ ~hd.abandoned)
       /\ hd.tgt = "mut" => hd.fid \in DOMAIN S.mut
       /\ (hd.st = "open" /\ hd.via = "name" /\ ~hd.abandoned) => hd.name \in DOMAIN S.dir
=============================================================================
