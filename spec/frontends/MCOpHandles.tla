---------------------------- MODULE MCOpHandles ----------------------------
(* Model checking of the operation-handle life cycle (OpHandles.tla) with a
   virtual clock: every history (<= MaxOps steps) of start / status / cancel
   requests, completions of the traversals and clock advances over a few handle
   names (names are re-used after a handle is gone, and also while it is still
   there).

   The documented rules (docs/frontends/webapi.rst, "Slow Operations, Progress,
   and Cancelling") are stated again over ghost variables that only remember
   WHAT HAPPENED to a handle name (when it was registered, the latest request
   that carried retain-for, the latest GET that saw the finished operation,
   whether it was cancelled / released) and to each operation (start, end,
   cancelled) - no timers.  The life time a handle should have is computed from
   that history (Deadline) and compared with the table of the operators. *)
EXTENDS OpHandles

CONSTANTS Handles,      \* handle names
          KindsMC, Dirs, \* what can be started: every kind on every directory
          Retains,      \* values of retain-for= (seconds)
          Advances,     \* clock steps (seconds)
          MaxOps, MaxStarts

VARIABLES S,
          g,        \* ghost: handle -> what happened to this name since its latest registration
          gops,     \* ghost: sequence of [kind, dir, t0, t1, done, cancelled]
          last,     \* the latest request and its answer
          nops
vars == <<S, g, gops, last, nops>>

Infinity == 1000000000
NoG == [reg |-> FALSE, op |-> 0, gone |-> FALSE, loose |-> FALSE,
        rseq |-> 0, rat |-> 0, rsecs |-> 0,      \* latest request with retain-for: step number, time, seconds
        cseq |-> 0, cat |-> 0]                   \* latest GET without retain-for that saw the finished operation
NoLast == [op |-> "init", h |-> "", was |-> FALSE, res |-> NotFound, fin |-> FALSE, kind |-> "", dir |-> ""]

Targets == KindsMC \X Dirs
RetainArgs == {NoRetain} \cup {RetainFor(n) : n \in Retains}

(* ---- the documented life time, from the history alone ---------------------- *)
Deadline(G, ops, h) ==
  LET x == G[h]
      o == ops[x.op]
  IN IF x.rseq = 0 /\ x.cseq = 0
       THEN IF o.done THEN o.t1 + Max(4 * Day, o.t1 - o.t0) ELSE Infinity
     ELSE IF x.rseq > x.cseq THEN x.rat + x.rsecs
     ELSE x.cat + Day

ShouldBePresent(G, ops, now, h) == G[h].reg /\ ~G[h].gone /\ now < Deadline(G, ops, h)

\* a handle the history says is there (for a loose entry: as long as it has not vanished)
WasThere(h) == ShouldBePresent(g, gops, S.now, h) \/ (g[h].loose /\ S.tbl[h].present)

Init ==
  /\ S = InitOH(Handles)
  /\ g = [h \in Handles |-> NoG]
  /\ gops = <<>>
  /\ last = NoLast
  /\ nops = 0

Tick == nops < MaxOps /\ nops' = nops + 1

DoStart ==
  \E h \in Handles, t \in Targets, r \in RetainArgs :
    /\ Tick /\ Len(S.ops) < MaxStarts
    /\ LET live == WasThere(h) IN
       /\ S' = Start(S, h, t[1], t[2], TRUE, r)
       /\ gops' = Append(gops, [kind |-> t[1], dir |-> t[2], t0 |-> S.now, t1 |-> 0, done |-> FALSE, cancelled |-> FALSE])
       /\ g' = [g EXCEPT ![h] = [NoG EXCEPT !.reg = TRUE, !.op = Len(gops) + 1,
                                           !.loose = live /\ ~r.given,
                                           !.rseq = IF r.given THEN nops + 1 ELSE 0,
                                           !.rat = IF r.given THEN S.now ELSE 0,
                                           !.rsecs = r.secs]]
       /\ last' = [NoLast EXCEPT !.op = "Start", !.h = h, !.was = live,
                                 !.res = [NotFound EXCEPT !.cls = StartRes(S, h, t[1], t[2], TRUE, r).cls]]

\* a POST without ophandle=, or on a file: refused, nothing is registered
DoBadStart ==
  \E h \in Handles \cup {""}, isdir \in BOOLEAN :
    LET t == CHOOSE x \in Targets : TRUE
        r == NoRetain IN
    /\ Tick /\ (h = "" \/ ~isdir)
    /\ S' = Start(S, h, t[1], t[2], isdir, r)
    /\ last' = [NoLast EXCEPT !.op = "BadStart", !.h = h,
                              !.res = [NotFound EXCEPT !.cls = StartRes(S, h, t[1], t[2], isdir, r).cls]]
    /\ UNCHANGED <<g, gops>>

DoComplete ==
  \E o \in DOMAIN S.ops :
    /\ S.ops[o].st \in {"running", "cancelled"} /\ Tick
    /\ S' = Complete(S, o)
    /\ gops' = [gops EXCEPT ![o].done = ~gops[o].cancelled, ![o].t1 = S.now]
    /\ last' = [NoLast EXCEPT !.op = "Complete"]
    /\ UNCHANGED g

DoStatus ==
  \E h \in Handles, r \in RetainArgs, rel \in BOOLEAN :
    /\ Tick
    /\ LET was == WasThere(h)
           fin == was /\ gops[g[h].op].done
       IN
       /\ S' = Status(S, h, r, rel)
       /\ g' = IF ~was THEN g
               ELSE [g EXCEPT ![h].gone = @ \/ (fin /\ rel),
                              ![h].loose = @ /\ ~(r.given \/ fin),
                              ![h].rseq = IF r.given THEN nops + 1 ELSE @,
                              ![h].rat = IF r.given THEN S.now ELSE @,
                              ![h].rsecs = IF r.given THEN r.secs ELSE @,
                              ![h].cseq = IF ~r.given /\ fin THEN nops + 1 ELSE @,
                              ![h].cat = IF ~r.given /\ fin THEN S.now ELSE @]
       /\ last' = [op |-> "Status", h |-> h, was |-> was, res |-> StatusRes(S, h), fin |-> fin,
                   kind |-> IF was THEN gops[g[h].op].kind ELSE "", dir |-> IF was THEN gops[g[h].op].dir ELSE ""]
    /\ UNCHANGED gops

DoCancel ==
  \E h \in Handles :
    /\ Tick
    /\ LET was == WasThere(h)
           fin == was /\ gops[g[h].op].done
       IN
       /\ S' = Cancel(S, h, 0)
       /\ g' = IF was THEN [g EXCEPT ![h].gone = TRUE, ![h].loose = FALSE] ELSE g
       /\ gops' = IF was /\ ~fin THEN [gops EXCEPT ![g[h].op].cancelled = TRUE] ELSE gops
       /\ last' = [op |-> "Cancel", h |-> h, was |-> was, res |-> CancelRes(S, h), fin |-> fin,
                   kind |-> IF was THEN gops[g[h].op].kind ELSE "", dir |-> IF was THEN gops[g[h].op].dir ELSE ""]

DoAdvance ==
  \E dt \in Advances :
    /\ Tick
    /\ S' = Advance(S, dt)
    /\ last' = [NoLast EXCEPT !.op = "Advance"]
    /\ UNCHANGED <<g, gops>>

\* the lifetime of a handle re-registered while still present is not specified: it may go at any time
LooseVanish ==
  \E h \in Handles :
    /\ S.tbl[h].present /\ S.tbl[h].loose
    /\ S' = [S EXCEPT !.tbl[h] = Gone("loose")]
    /\ g' = [g EXCEPT ![h].gone = TRUE, ![h].loose = FALSE]
    /\ last' = [NoLast EXCEPT !.op = "LooseVanish"]
    /\ UNCHANGED <<gops, nops>>

Next == DoStart \/ DoBadStart \/ DoComplete \/ DoStatus \/ DoCancel \/ DoAdvance \/ LooseVanish
Spec == Init /\ [][Next]_vars

(* ---- properties (docs/frontends/webapi.rst) -------------------------------- *)
Strict(h) == g[h].reg /\ ~g[h].gone /\ ~g[h].loose
GOp(h) == gops[g[h].op]

\* "handles will remain valid at least until their operation finishes" (no retain-for used)
OH_ValidWhileRunning ==
  \A h \in Handles : (Strict(h) /\ g[h].rseq = 0 /\ ~GOp(h).done) => S.tbl[h].present

\* "uncollected handles for finished operations ... will remain valid for four days, or for the total
\* time consumed by the operation, whichever is greater" - and not longer
OH_UncollectedFourDays ==
  \A h \in Handles : (Strict(h) /\ g[h].rseq = 0 /\ g[h].cseq = 0 /\ GOp(h).done) =>
      (S.tbl[h].present <=> S.now < GOp(h).t1 + Max(4 * Day, GOp(h).t1 - GOp(h).t0))

\* "collected handles (i.e. the GET page has been retrieved at least once since the operation completed)
\* will remain valid for one day" - counted from the latest such GET
OH_CollectedOneDay ==
  \A h \in Handles : (Strict(h) /\ g[h].cseq > g[h].rseq) => (S.tbl[h].present <=> S.now < g[h].cat + Day)

\* "the handle will remain active for 600 seconds (10 minutes) after the GET was received"
OH_RetainFor ==
  \A h \in Handles : (Strict(h) /\ g[h].rseq > g[h].cseq) => (S.tbl[h].present <=> S.now < g[h].rat + g[h].rsecs)

\* cancel and release-after-complete release the handle at once; a name never registered is unknown
OH_ReleasedIsGone == \A h \in Handles : (~g[h].reg \/ g[h].gone) => ~S.tbl[h].present

\* all of the above in one
OH_Presence == \A h \in Handles : ~g[h].loose => (S.tbl[h].present <=> ShouldBePresent(g, gops, S.now, h))

\* unknown / expired handle -> 404, and only then
OH_Unknown404 == last.op \in {"Status", "Cancel"} => (last.res.cls = "notfound" <=> ~last.was)
                                                       /\ (last.res.cls = "ok" <=> last.was)

\* the page says "finished" exactly when the operation named by the handle is complete
OH_FinishedFlag == (last.op \in {"Status", "Cancel"} /\ last.was) => last.res.finished = last.fin

\* "the full results will not be available until the operation is complete", and then they are
OH_ResultsIffFinished == (last.op \in {"Status", "Cancel"} /\ last.was) => last.res.full = last.fin

\* the page is that of the operation most recently started under this name
OH_PageOfNamedOperation == (last.op \in {"Status", "Cancel"} /\ last.was) => last.res.kind = last.kind /\ last.res.dir = last.dir

OH_StartRedirects == last.op = "Start" => last.res.cls = "redirect"

\* "(must add &ophandle=XYZ)", "An error (400 BAD_REQUEST) will be signalled if it is invoked on a file":
\* refused, and nothing is registered or changed
OH_BadStartRefused == last.op = "BadStart" => last.res.cls = "badrequest"
OH_BadStartChangesNothing == [][last'.op = "BadStart" => S' = S]_vars

\* "This terminates the operation": a cancelled operation never completes, a completed one stays complete
OH_CancelStops ==
  [][\A o \in DOMAIN S.ops : /\ S.ops[o].st \in {"cancelled", "stopped"} => S'.ops[o].st \in {"cancelled", "stopped"}
                             /\ S.ops[o].st = "done" => S'.ops[o] = S.ops[o]]_vars

\* after a cancel the handle is unknown until it is registered again
OH_CancelReleases == last.op = "Cancel" => ~S.tbl[last.h].present

OH_TimeMonotone == [][S'.now >= S.now]_vars

Inv_StateOK == StateOK(S)
=============================================================================
