------------------------------ MODULE BackupDB ------------------------------
(* The backup database of `tahoe backup`
   (allmydata/scripts/backupdb.py, BackupDB_v2): four tables and the
   decisions taken from them.

     files : rows [path, size, mtime, ctime, fileid]          (local_files, key path)
     caps  : rows [id, cap]                                   (caps, key id AUTOINCREMENT, cap UNIQUE)
     lu    : rows [id, up, chk]                               (last_upload, key id)
     dirs  : rows [key, cap, up, chk]                         (directories, key = hash of the contents)
     nextid: the next fileid AUTOINCREMENT hands out (ids are never reused)

   A directory's key is modelled as the exact contents: the set of <<name, cap>>
   pairs (the code hashes netstring-encoded sorted pairs; collisions of the
   hash are outside the model).  Times are in days.

   One operator pair per method: XxxRes(DB, args) is the answer, Xxx(DB, args)
   the next database. *)
EXTENDS Common

NoCheckBefore == 30       \* NO_CHECK_BEFORE  = 1 month of 30 days
AlwaysCheckAfter == 60    \* ALWAYS_CHECK_AFTER = 2 months

EmptyDB == [files |-> {}, caps |-> {}, lu |-> {}, dirs |-> {}, nextid |-> 1]

None == [cap |-> "", should |-> FALSE]

\* random.random() < probability, rnd = random.random() in thousandths
ShouldCheck(age, rnd) ==
  IF age <= NoCheckBefore THEN FALSE
  ELSE IF age >= AlwaysCheckAfter THEN TRUE
  ELSE rnd * (AlwaysCheckAfter - NoCheckBefore) < (age - NoCheckBefore) * 1000

FileRows(DB, path) == {r \in DB.files : r.path = path}
CapOfId(DB, id) == {c \in DB.caps : c.id = id}
LuOfId(DB, id) == {u \in DB.lu : u.id = id}

\* the row of `path` may be used for the file whose stat is st
Fresh(DB, row, st, use_ts) ==
  /\ row.size = st.size /\ use_ts /\ row.mtime = st.mtime /\ row.ctime = st.ctime
  /\ CapOfId(DB, row.fileid) # {} /\ LuOfId(DB, row.fileid) # {}      \* we still know where we put it

\* check_file(path, use_timestamps) with os.stat(path) = st
CheckFileRes(DB, path, st, use_ts, now, rnd) ==
  IF FileRows(DB, path) = {} THEN None
  ELSE LET row == CHOOSE r \in FileRows(DB, path) : TRUE IN
       IF ~Fresh(DB, row, st, use_ts) THEN None
       ELSE LET c == CHOOSE x \in CapOfId(DB, row.fileid) : TRUE
                u == CHOOSE x \in LuOfId(DB, row.fileid) : TRUE
            IN [cap |-> c.cap, should |-> ShouldCheck(now - u.chk, rnd)]

CheckFile(DB, path, st, use_ts) ==
  IF FileRows(DB, path) = {} THEN DB
  ELSE LET row == CHOOSE r \in FileRows(DB, path) : TRUE IN
       IF ~Fresh(DB, row, st, use_ts) THEN [DB EXCEPT !.files = @ \ {row}]    \* the stale row is deleted
       ELSE DB

\* get_or_allocate_fileid_for_cap
IdOfCap(DB, cap) == IF \E c \in DB.caps : c.cap = cap THEN (CHOOSE c \in DB.caps : c.cap = cap).id ELSE DB.nextid
WithCap(DB, cap) == IF \E c \in DB.caps : c.cap = cap THEN DB
                    ELSE [DB EXCEPT !.caps = @ \cup {[id |-> DB.nextid, cap |-> cap]}, !.nextid = @ + 1]

\* did_upload_file(filecap, path, mtime, ctime, size): st is the stat taken by the check_file
\* that produced the FileResult
DidUploadFile(DB, cap, path, st, now) ==
  LET id == IdOfCap(DB, cap)
      D1 == WithCap(DB, cap)
  IN [D1 EXCEPT !.lu = (@ \ LuOfId(D1, id)) \cup {[id |-> id, up |-> now, chk |-> now]},
                !.files = (@ \ FileRows(D1, path)) \cup
                          {[path |-> path, size |-> st.size, mtime |-> st.mtime, ctime |-> st.ctime, fileid |-> id]}]

\* did_check_file_healthy(filecap, results)
DidCheckFileHealthy(DB, cap, now) ==
  LET id == IdOfCap(DB, cap)
      D1 == WithCap(DB, cap)
  IN [D1 EXCEPT !.lu = {IF u.id = id THEN [u EXCEPT !.chk = now] ELSE u : u \in @}]

DirRows(DB, key) == {d \in DB.dirs : d.key = key}

\* check_directory(contents)
CheckDirectoryRes(DB, key, now, rnd) ==
  IF DirRows(DB, key) = {} THEN None
  ELSE LET d == CHOOSE x \in DirRows(DB, key) : TRUE IN [cap |-> d.cap, should |-> ShouldCheck(now - d.chk, rnd)]

\* did_create_directory(dircap, dirhash): REPLACE
DidCreateDirectory(DB, cap, key, now) ==
  [DB EXCEPT !.dirs = (@ \ DirRows(DB, key)) \cup {[key |-> key, cap |-> cap, up |-> now, chk |-> now]}]

\* did_check_directory_healthy(dircap, results): every row with that dircap
DidCheckDirectoryHealthy(DB, cap, now) ==
  [DB EXCEPT !.dirs = {IF d.cap = cap THEN [d EXCEPT !.chk = now] ELSE d : d \in @}]

\* the environment loses rows ("we somehow forgot where we put the file last time")
ForgetCap(DB, cap) == [DB EXCEPT !.caps = {c \in @ : c.cap # cap}]
ForgetUpload(DB, cap) == [DB EXCEPT !.lu = {u \in @ : \A c \in DB.caps : c.cap = cap => u.id # c.id}]

\* keys of the tables
DBOK(DB) ==
  /\ \A a, b \in DB.files : a.path = b.path => a = b
  /\ \A a, b \in DB.caps : (a.id = b.id \/ a.cap = b.cap) => a = b
  /\ \A a, b \in DB.lu : a.id = b.id => a = b
  /\ \A a, b \in DB.dirs : a.key = b.key => a = b
  /\ \A c \in DB.caps : c.id < DB.nextid
=============================================================================
