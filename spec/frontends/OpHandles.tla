------------------------------ MODULE OpHandles ------------------------------
(* The web API's operation handles ("Slow Operations, Progress, and Cancelling",
   docs/frontends/webapi.rst; allmydata/web/operations.py OphandleTable,
   allmydata/web/directory.py _POST_start_manifest / _start_deep_size /
   _start_deep_stats / _start_deep_check).

   A client names a slow operation with a handle of its own choice
   (POST $DIRURL?t=start-...&ophandle=H), polls GET /operations/H, may cancel it
   (POST /operations/H?t=cancel) and the gateway forgets the handle after a
   while.  The state is a value

     S = [now |-> seconds on the gateway's clock,
          ops |-> sequence of the operations ever started (id = position):
                    [st  |-> "running" | "done" | "cancelled" | "stopped",
                     kind, dir  |-> what was started on which directory,
                     t0, t1     |-> start time, end time,
                     tc         |-> directories reached when the operation was cancelled],
          tbl |-> handle -> [present, op (id), timer [set, at], loose]]

   and there is one operator pair per request: XxxRes(S, args) is the answer,
   Xxx(S, args) the next state.  The environment contributes Complete (an
   operation's traversal comes to its end) and Advance (time passes).

   Lifetime rules (webapi.rst, "The operation handle will eventually expire ..."):
     * retain-for=N on the starting POST or on a GET: the handle stays for N seconds
       after that request (this overrides every default below);
     * otherwise a handle stays at least until its operation finishes,
     * then four days, or as long as the operation took, whichever is greater, while
       nobody has fetched the status page since completion ("uncollected"),
     * one day after a status GET that saw the finished operation ("collected");
     * GET with release-after-complete=true on a finished operation releases the handle at once;
     * POST t=cancel answers like the GET and releases the handle at once;
     * a request for a handle that is not (or no longer) there is answered 404.
   `timer` is the pending expiry (the callLater of OphandleTable._set_timer); expiry is
   applied eagerly (Expire) after every step, as a reactor would fire the timer.

   Not specified by the documentation: starting an operation under a handle that is
   still present.  The Spec lets the handle name the NEW operation (as the code does) and
   marks the entry `loose` when the POST carried no retain-for: its lifetime is then left
   open (the code keeps the timer of the earlier registration) until a request fixes the
   timer again; conformance follows the observation for loose entries and MC lets them vanish
   at any time.  Every documented rule is stated for entries that are not loose. *)
EXTENDS Common

Minute == 60
Hour == 60 * Minute
Day == 24 * Hour
UncollectedLifetime == 4 * Day      \* OphandleTable.UNCOLLECTED_HANDLE_LIFETIME
CollectedLifetime == 1 * Day        \* OphandleTable.COLLECTED_HANDLE_LIFETIME

OpKinds == {"manifest", "deep-size", "deep-stats", "deep-check"}

\* `why` only names the rule behind a timer / behind the absence of an entry (it is used to name the
\* clause when an execution of the real code disagrees); it does not influence any decision
NoTimer == [set |-> FALSE, at |-> 0, why |-> "running"]
Timer(t, why) == [set |-> TRUE, at |-> t, why |-> why]
NoRetain == [given |-> FALSE, secs |-> 0]
RetainFor(n) == [given |-> TRUE, secs |-> n]

Gone(why) == [present |-> FALSE, op |-> 0, timer |-> [NoTimer EXCEPT !.why = why], loose |-> FALSE]
AbsentE == Gone("never")

InitOH(H) == [now |-> 0, ops |-> <<>>, tbl |-> [h \in H |-> AbsentE]]

Present(S, h) == S.tbl[h].present
OpOf(S, h) == S.ops[S.tbl[h].op]
IsDone(S, o) == S.ops[o].st = "done"
Active(S) == {o \in DOMAIN S.ops : S.ops[o].st \in {"running", "cancelled"}}

\* the reactor fires every expiry timer that is due
Expire(S) ==
  LET T == S.tbl IN
  [S EXCEPT !.tbl = [h \in DOMAIN T |->
        IF T[h].present /\ ~T[h].loose /\ T[h].timer.set /\ T[h].timer.at <= S.now THEN Gone("expired_" \o T[h].timer.why) ELSE T[h]]]

(* ---- POST $URL?t=start-<kind>&ophandle=h[&retain-for=n] ------------------ *)
\* "The response to this POST will be a redirect to the corresponding /operations/$HANDLE page";
\* "(must add &ophandle=XYZ)"; "can only be invoked on a directory. An error (400 BAD_REQUEST) will be
\* signalled if it is invoked on a file."   h = "" stands for a POST without ophandle=.
StartAccepted(h, isdir) == h # "" /\ isdir
StartRes(S, h, kind, dir, isdir, retain) ==
  IF StartAccepted(h, isdir) THEN [cls |-> "redirect", h |-> h] ELSE [cls |-> "badrequest", h |-> ""]

Start(S, h, kind, dir, isdir, retain) ==
  IF ~StartAccepted(h, isdir) THEN S ELSE
  LET o == Len(S.ops) + 1
      e == [present |-> TRUE, op |-> o,
            timer |-> IF retain.given THEN Timer(S.now + retain.secs, "retain") ELSE NoTimer,
            loose |-> S.tbl[h].present /\ ~retain.given]
  IN Expire([S EXCEPT !.ops = Append(@, [st |-> "running", kind |-> kind, dir |-> dir,
                                           t0 |-> S.now, t1 |-> 0, tc |-> 0]),
                      !.tbl[h] = e])

(* ---- the traversal of operation o comes to its end ------------------------ *)
\* OphandleTable._operation_complete: "uncollected handles for finished operations ... will remain
\* valid for four days, or for the total time consumed by the operation, whichever is greater",
\* unless the client has chosen a lifetime itself.  A cancelled operation ends without a result.
Complete(S, o) ==
  LET op == S.ops[o]
      T == S.tbl
      life == Max(UncollectedLifetime, S.now - op.t0)
      arm(e) == IF e.present /\ e.op = o /\ ~e.timer.set /\ ~e.loose
                  THEN [e EXCEPT !.timer = Timer(S.now + life, "uncollected")] ELSE e
  IN IF op.st = "running"
       THEN Expire([S EXCEPT !.ops[o].st = "done", !.ops[o].t1 = S.now,
                             !.tbl = [h \in DOMAIN T |-> arm(T[h])]])
     ELSE IF op.st = "cancelled"
       THEN [S EXCEPT !.ops[o].st = "stopped", !.ops[o].t1 = S.now]
     ELSE S

(* ---- GET /operations/h?t=status&output=...[&retain-for=n][&release-after-complete=true] ---- *)
NotFound == [cls |-> "notfound", finished |-> FALSE, kind |-> "", dir |-> "", full |-> FALSE]

\* what a status page shows: which operation, whether it is complete, and the complete results
\* (those of the synchronous traversal of the same directory) exactly when it is complete
Page(op) == [cls |-> "ok", finished |-> op.st = "done", kind |-> op.kind, dir |-> op.dir,
             full |-> op.st = "done"]

StatusRes(S, h) == IF Present(S, h) THEN Page(OpOf(S, h)) ELSE NotFound

Status(S, h, retain, release) ==
  IF ~Present(S, h) THEN S
  ELSE LET e == S.tbl[h]
           fin == IsDone(S, e.op)
           t == IF retain.given THEN Timer(S.now + retain.secs, "retain")          \* "reset at any time"
                ELSE IF fin THEN Timer(S.now + CollectedLifetime, "collected")         \* this GET collects the handle
                ELSE e.timer
           e2 == IF fin /\ release THEN Gone("released")                          \* release-after-complete
                 ELSE [e EXCEPT !.timer = t, !.loose = e.loose /\ ~(retain.given \/ fin)]
       IN Expire([S EXCEPT !.tbl[h] = e2])

(* ---- POST /operations/h?t=cancel ------------------------------------------ *)
\* "The response body will be the same as a GET /operations/$HANDLE on this operation handle, and
\* the handle will be expired immediately afterwards."
CancelRes(S, h) == StatusRes(S, h)

Cancel(S, h, reached) ==
  IF ~Present(S, h) THEN S
  ELSE LET o == S.tbl[h].op IN
       [S EXCEPT !.tbl[h] = Gone("cancelled"),
                 !.ops[o] = IF @.st = "running" THEN [@ EXCEPT !.st = "cancelled", !.tc = reached] ELSE @]

(* ---- time ------------------------------------------------------------------ *)
Advance(S, dt) == Expire([S EXCEPT !.now = @ + dt])

(* ---- well-formedness -------------------------------------------------------- *)
StateOK(S) ==
  /\ \A h \in DOMAIN S.tbl :
        LET e == S.tbl[h] IN
        /\ e.present => e.op \in DOMAIN S.ops
        /\ (e.present /\ ~e.loose /\ e.timer.set) => e.timer.at > S.now          \* due timers have fired
        /\ ~e.present => e = Gone(e.timer.why)
        \* a handle never names a cancelled operation (cancelling releases it)
        /\ e.present => S.ops[e.op].st \in {"running", "done"}
        \* a finished operation's handle always has an expiry ("to avoid consuming an unbounded amount of memory")
        /\ (e.present /\ ~e.loose /\ S.ops[e.op].st = "done") => e.timer.set
  /\ \A o \in DOMAIN S.ops : S.ops[o].t0 <= S.now /\ (S.ops[o].st \in {"done", "stopped"} => S.ops[o].t1 >= S.ops[o].t0)
=============================================================================
