----------------------------- MODULE CliCommands -----------------------------
(* X-cli_aliases -- from a command line to web-API requests: tahoe ls / get / put / unlink (rm) / mkdir / mv / ln.

   Sources: docs/frontends/CLI.rst "Command Examples" ("tahoe ls", "tahoe ls /", "tahoe ls tahoe:", "tahoe ls tahoe:/":
   "All four list the root directory of the default tahoe: alias"; "tahoe mkdir" unlinked, "tahoe mkdir subdir" and
   "tahoe mkdir /subdir": "creates a new empty directory and attaches it below the root directory of the default tahoe:
   alias with the name subdir"; put forms incl. DIRCAP/foo.txt, DIRCAP:./foo.txt, MUTABLE-FILE-WRITECAP, --mutable; "tahoe
   unlink"; "tahoe mv uploaded.txt fun:" = "tahoe mv tahoe:uploaded.txt fun:" = "tahoe mv tahoe:uploaded.txt
   fun:uploaded.txt"), scripts/cli.py descriptions (mv / ln: "tahoe mv tahoe:file1 tahoe:dir/" is shorthand for
   "tahoe:dir/file1"), comments of tahoe_put.py ("/oops/subdir/foo : DISALLOWED"), tahoe_mv.py ("mv foo.txt bar/" ==
   "mv foo.txt bar/foo.txt"), tahoe_unlink.py ("can only unlink directory entries, so a path must be given") and
   docs/frontends/webapi.rst for the URL of each operation (GET|PUT|DELETE /uri/$DIRCAP/[SUBDIRS../]FILENAME, ?t=json,
   POST /uri?t=mkdir, POST /uri/$DIRCAP/[SUBDIRS../]SUBDIR?t=mkdir, PUT ...?t=uri&replace=only-files, PUT /uri,
   mutable=true, format=).

   A request is [method, root (CliNames root record; t = "none": /uri itself), segs (the path components below the
   root, each a token sequence), query (set of "k=v"), body ("none" | "file" | "cap_rw" | "cap_ro")].
   An outcome is [rc |-> "zero" | "nonzero" | "any", reqs, out |-> "none" | "body" (the response body is what the
   command prints), open |-> "" or why the documents do not decide (then only `no crash` is judged)].
   sc: 0 = every request is answered 2xx; k = the k-th request is answered 500; 10 + k = the k-th is answered 404. *)
EXTENDS CliNames

Req(m, root, segs, q, body) == [method |-> m, root |-> root, segs |-> segs, query |-> q, body |-> body]
Failed(sc, i) == sc = i \/ sc = 10 + i
Outcome(rc, reqs, out, open) == [rc |-> rc, reqs |-> reqs, out |-> out, open |-> open]
Refused == Outcome("nonzero", <<>>, "none", "")
OpenOutcome(why) == Outcome("any", <<>>, "none", why)
One(req, sc, out) == IF Failed(sc, 1) THEN Outcome("nonzero", <<req>>, "none", "") ELSE Outcome("zero", <<req>>, out, "")

Segs(path) == IF path = <<>> THEN <<>> ELSE Split(path)
DropTrail(p) == IF EndsWith(p, "/") THEN Upto(p, Len(p) - 1) ELSE p        \* "trailing slashes indicate directories, but are not required"
DropLead(p)  == IF StartsWith(p, <<"/">>) THEN From(p, 2) ELSE p           \* "tahoe mkdir /subdir" = "tahoe mkdir subdir"
IsErr(r) == r.kind \in {"unknown_alias", "no_default"}
Here(arg, tbl) == Resolve(arg, tbl, "tahoe", FALSE)      \* these commands take no local paths: default alias tahoe:
FmtQ(fmt) == CASE fmt = "" -> {} [] fmt = "SDMF" -> {"format=SDMF"} [] fmt = "MDMF" -> {"format=MDMF"} [] fmt = "CHK" -> {"format=CHK"}

\* Spaces at the ends of an argument are not part of it (CliNames); whether a space that only the dropped slash kept away
\* from the end ("tahoe ls 'dir /'") belongs to the name is not decided by any document
SpaceBared(r, p) == (p # r.path /\ EndsWith(p, " ")) \/ (r.path = <<>> /\ r.root.t = "lit" /\ EndsWith(r.root.lit, " "))

Ls(arg, tbl, sc) ==
  LET r == Here(arg, tbl)  p == DropTrail(r.path) IN
  IF IsErr(r) THEN Refused
  ELSE IF SpaceBared(r, p) THEN OpenOutcome("space_before_the_trailing_slash")
  ELSE IF ~Clean(p) THEN OpenOutcome("empty_path_component")
  ELSE One(Req("GET", r.root, Segs(p), {"t=json"}, "none"), sc, "none")

Get(arg, tbl, sc) ==
  LET r == Here(arg, tbl) IN
  IF IsErr(r) THEN Refused
  ELSE IF ~Clean(r.path) THEN OpenOutcome("empty_path_component")
  ELSE One(Req("GET", r.root, Segs(r.path), {}, "none"), sc, "body")

Unlink(arg, tbl, sc) ==
  LET r == Here(arg, tbl) IN
  IF IsErr(r) THEN Refused
  ELSE IF r.path = <<>> THEN Refused                       \* "can only unlink directory entries, so a path must be given"
  ELSE IF ~Clean(r.path) THEN OpenOutcome("empty_path_component")
  ELSE One(Req("DELETE", r.root, Segs(r.path), {}, "none"), sc, "none")

\* given = FALSE: "tahoe mkdir" (a new unlinked directory, its write-cap printed)
Mkdir(given, arg, fmt, tbl, sc) ==
  LET r == Here(arg, tbl)  p == DropLead(DropTrail(r.path)) IN
  IF ~given \/ arg = <<>> THEN One(Req("POST", NoRoot, <<>>, {"t=mkdir"} \cup FmtQ(fmt), "none"), sc, "body")
  ELSE IF IsErr(r) THEN Refused
  ELSE IF SpaceBared(r, DropTrail(r.path)) THEN OpenOutcome("space_before_the_trailing_slash")
  ELSE IF p = <<>> THEN OpenOutcome("mkdir_of_a_root")      \* "tahoe mkdir fun:": the documents name no such form
  ELSE IF ~Clean(p) THEN OpenOutcome("empty_path_component")
  ELSE One(Req("POST", r.root, Segs(p), {"t=mkdir"} \cup FmtQ(fmt), "none"), sc, "body")

\* given = FALSE: unlinked upload; arg = <<"M">>: a mutable file write-cap, modified in place
Put(given, arg, mutable, fmt, tbl, sc) ==
  LET r == Here(arg, tbl)
      q == (IF mutable THEN {"mutable=true"} ELSE {}) \cup FmtQ(fmt) IN
  IF ~given \/ arg = <<>> THEN One(Req("PUT", NoRoot, <<>>, q, "file"), sc, "body")
  ELSE IF arg = <<"M">> THEN One(Req("PUT", LitRoot(arg), <<>>, q, "file"), sc, "body")
  ELSE IF IsErr(r) THEN Refused
  ELSE IF StartsWith(r.path, <<"/">>) THEN Refused          \* "The remote filename must not start with a slash"
  ELSE IF r.path = <<>> THEN OpenOutcome("put_onto_a_root")
  ELSE IF ~Clean(r.path) THEN OpenOutcome("empty_path_component")
  ELSE One(Req("PUT", r.root, Segs(r.path), q, "file"), sc, "body")

\* mv (mode "move") and ln (mode "link"); jk = "rw" | "ro": does the source's t=json have an rw_uri
Mv(from, to, mode, jk, tbl, sc) ==
  LET rf == Here(from, tbl)
      rt == Here(to, tbl)
      comps == Split(rf.path)
      base == comps[Len(comps)]
      dest == IF rt.path = <<>> \/ EndsWith(rt.path, "/") THEN rt.path \o base ELSE rt.path   \* into a directory: keeps its name
      q1 == Req("GET", rf.root, Segs(rf.path), {"t=json"}, "none")
      q2 == Req("PUT", rt.root, Segs(dest), {"t=uri", "replace=only-files"}, IF jk = "rw" THEN "cap_rw" ELSE "cap_ro")
      q3 == Req("DELETE", rf.root, Segs(rf.path), {}, "none") IN
  IF IsErr(rf) THEN Refused
  ELSE IF rf.path = <<>> THEN OpenOutcome("move_of_a_root")
  ELSE IF ~Clean(rf.path) THEN OpenOutcome("empty_path_component")
  ELSE IF Failed(sc, 1) THEN Outcome("nonzero", <<q1>>, "none", "")
  ELSE IF IsErr(rt) THEN Outcome("nonzero", <<q1>>, "none", "")
  ELSE IF ~Clean(dest) THEN OpenOutcome("empty_path_component")
  ELSE IF Failed(sc, 2) THEN Outcome("nonzero", <<q1, q2>>, "none", "")          \* "NOT removing the original"
  ELSE IF mode = "link" THEN Outcome("zero", <<q1, q2>>, "none", "")
  ELSE IF Failed(sc, 3) THEN Outcome("nonzero", <<q1, q2, q3>>, "none", "")
  ELSE Outcome("zero", <<q1, q2, q3>>, "none", "")

(* one invocation: [cmd, given, arg, arg2, flag (format / mutable / mode+jk), sc] *)
Invoke(i, tbl) ==
  CASE i.cmd = "ls"     -> Ls(i.arg, tbl, i.sc)
    [] i.cmd = "get"    -> Get(i.arg, tbl, i.sc)
    [] i.cmd = "unlink" -> Unlink(i.arg, tbl, i.sc)
    [] i.cmd = "mkdir"  -> Mkdir(i.given, i.arg, i.fmt, tbl, i.sc)
    [] i.cmd = "put"    -> Put(i.given, i.arg, i.mutable, i.fmt, tbl, i.sc)
    [] i.cmd = "mv"     -> Mv(i.arg, i.arg2, "move", i.jk, tbl, i.sc)
    [] i.cmd = "ln"     -> Mv(i.arg, i.arg2, "link", i.jk, tbl, i.sc)
=============================================================================
