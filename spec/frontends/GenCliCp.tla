----------------------------- MODULE GenCliCp -----------------------------
(* X-cli_cp, GEN mode: worlds x argument lists of `tahoe cp` with the answer of CliCp!Cp, written to IOEnv.OUT_FILE for
   harness/clicp_driver.py (which builds the two trees for real -- a temporary directory and directories / files on a grid
   behind the real web API -- and runs the real allmydata.scripts.tahoe_cp.Copier on them).  The same rows are the state
   space, so that TLC evaluates the CP_ clauses of CliCp.tla (the documents' rules, stated without the operators) on every row.

   World "big" (both sides the same shape; grid: d/m, t/m, t/d/x are mutable files):
       f                 a file                      t/            the usual target
       d/  x m s/y e/    a directory with a sub-     t/x t/m       files that get overwritten (t/m: in place on the grid)
                         directory and an empty one  t/d/x         is merged into by `cp -r d t`
       g/  x d/x d/z     same names as d/x, d: name  t/f/  t/g     a directory named like the file f, a file named like
                         collisions                                the directory g ("in the way")
       (u1 stands for a non-ASCII name in the driver's table; q, n do not exist)
   World "fresh": an empty grid directory (a new alias) and a small local tree; world "flat": files only.
   Worlds "tiny<i>" (TinyMod > 0): every pair (local tree, grid tree) of the trees with at most two entries -- nothing, a, a
   and b, a and a/a, a and a/b, every entry a file or a directory (on the grid also a mutable file) -- with every path of
   either tree (and q, n, a/n, which are missing) as source and as target: small worlds in which sources, targets and
   what is in the way share names.

   Lists of one source: every source x target x flags (one in Mod1); lists of two and three sources: every first source x
   target x flags (one in Mod2 / Mod3), the other sources chosen by a fixed arithmetic of the indices rotated by Seed.  The
   spelling of every argument (`form`) is chosen by the same arithmetic. *)
EXTENDS CliCp, Json, IOUtils, SequencesExt

CONSTANTS Seed, Mod1, Mod2, Mod3, WorldNames, TinyMod

P1(x) == <<x>>
P2(x, y) == <<x, y>>
P3(x, y, z) == <<x, y, z>>

Tree(entries) == [p \in {e[1] : e \in entries} |-> (CHOOSE e \in entries : e[1] = p)[2]]

\* pfx distinguishes the contents of the two sides; mut: whether this side has mutable files
BigTree(pfx, mut) ==
  LET F(n) == FileNode(pfx \o n)
      M(n, o) == IF mut THEN MutNode(pfx \o n, o) ELSE FileNode(pfx \o n)
  IN Tree({<<P1("f"), F("1")>>,
           <<P1("d"), DirNode>>, <<P2("d", "x"), F("2")>>, <<P2("d", "m"), M("3", "m1")>>, <<P2("d", "s"), DirNode>>,
           <<P3("d", "s", "u1"), F("4")>>, <<P2("d", "e"), DirNode>>,
           <<P1("g"), DirNode>>, <<P2("g", "x"), F("5")>>, <<P2("g", "d"), DirNode>>, <<P3("g", "d", "x"), F("6")>>,
           <<P3("g", "d", "z"), F("7")>>,
           <<P1("t"), DirNode>>, <<P2("t", "x"), F("8")>>, <<P2("t", "m"), M("9", "m2")>>, <<P2("t", "d"), DirNode>>,
           <<P3("t", "d", "x"), M("10", "m3")>>, <<P2("t", "f"), DirNode>>, <<P2("t", "g"), F("11")>>})

SmallTree(pfx) ==
  Tree({<<P1("f"), FileNode(pfx \o "1")>>, <<P1("d"), DirNode>>, <<P2("d", "x"), FileNode(pfx \o "2")>>,
        <<P2("d", "e"), DirNode>>, <<P2("d", "s"), DirNode>>, <<P3("d", "s", "u1"), FileNode(pfx \o "4")>>})

FlatTree(pfx, mut) ==
  Tree({<<P1("f"), FileNode(pfx \o "1")>>, <<P1("x"), FileNode(pfx \o "2")>>,
        <<P1("m"), IF mut THEN MutNode(pfx \o "3", "m1") ELSE FileNode(pfx \o "3")>>})

\* a world with the paths its arguments are taken from
Worlds ==
  [big |-> [W |-> [L |-> BigTree("l", FALSE), G |-> BigTree("g", TRUE)],
            src |-> {P1("f"), P1("d"), P2("d", "x"), P2("d", "m"), P2("d", "s"), P3("d", "s", "u1"), P2("d", "e"),
                     P1("g"), P2("g", "x"), P2("g", "d"), P1("q")},
            slashed |-> {P1("f"), P1("d"), P2("d", "x"), P2("g", "d")},
            unnamed |-> {<<>>, P1("d"), P2("g", "d"), P1("f"), P2("d", "m"), P2("d", "e")},
            tgt |-> {<<>>, P1("n"), P1("t"), P2("t", "x"), P2("t", "m"), P2("t", "d"), P2("t", "n")}],
   fresh |-> [W |-> [L |-> SmallTree("l"), G |-> Tree({})],
              src |-> {P1("f"), P1("d"), P2("d", "x"), P2("d", "s"), P2("d", "e"), P1("q")},
              slashed |-> {P1("f"), P1("d")},
              unnamed |-> {<<>>},
              tgt |-> {<<>>, P1("n"), P1("d"), P1("f")}],
   flat |-> [W |-> [L |-> FlatTree("l", FALSE), G |-> FlatTree("g", TRUE)],
             src |-> {P1("f"), P1("x"), P1("m"), P1("q")},
             slashed |-> {P1("m")},
             unnamed |-> {<<>>, P1("f"), P1("m")},
             tgt |-> {<<>>, P1("n"), P1("x"), P1("m")}]]

\* ---- the enumerated small worlds ----
Shapes == {{}, {P1("a")}, {P1("a"), P1("b")}, {P1("a"), P2("a", "a")}, {P1("a"), P2("a", "b")}}
IsLeaf(S, p) == ~\E q \in S : Len(q) > Len(p) /\ IsPrefixOf(p, q)
TinyTrees(pfx, mut) ==
  UNION {{[p \in S |-> CASE kinds[p] = "dir" -> DirNode
                          [] kinds[p] = "mfile" -> MutNode(pfx \o PathStr(p), "m" \o PathStr(p))
                          [] OTHER -> FileNode(pfx \o PathStr(p))] :
            kinds \in {k \in [S -> IF mut THEN {"file", "dir", "mfile"} ELSE {"file", "dir"}] :
                         \A p \in S : ~IsLeaf(S, p) => k[p] = "dir"}} : S \in Shapes}
TinyWorlds ==
  SetToSeq({[W |-> [L |-> l, G |-> g],
             src |-> DOMAIN l \cup DOMAIN g \cup {P1("q")},
             slashed |-> DOMAIN l \cup DOMAIN g,
             unnamed |-> {<<>>} \cup DOMAIN g,
             tgt |-> {<<>>, P1("n"), P2("a", "n")} \cup DOMAIN l \cup DOMAIN g] :
               l \in TinyTrees("l", FALSE), g \in TinyTrees("g", TRUE)})
TinyName(i) == "tiny" \o ToString(i)

LocalForms == <<"abs", "dot", "bare">>
GridForms == <<"alias", "parentcap", "dotcap">>
Flags == <<[r |-> FALSE, caps |-> FALSE], [r |-> TRUE, caps |-> FALSE], [r |-> FALSE, caps |-> TRUE], [r |-> TRUE, caps |-> TRUE]>>

\* source points and target points of a world (record wr of Worlds), in TLC's fixed order (form filled in per row)
SrcPtsOf(wr) ==
  SetToSeq({[side |-> sd, p |-> p, named |-> TRUE, slash |-> FALSE] : sd \in {"local", "grid"}, p \in wr.src}
           \cup {[side |-> sd, p |-> p, named |-> TRUE, slash |-> TRUE] : sd \in {"local", "grid"}, p \in wr.slashed}
           \cup {[side |-> "grid", p |-> p, named |-> FALSE, slash |-> FALSE] : p \in wr.unnamed})
TgtPtsOf(wr) == SetToSeq({[side |-> sd, p |-> p, slash |-> sl] : sd \in {"local", "grid"}, p \in wr.tgt, sl \in BOOLEAN})

\* the tables of one world, computed once per world (TLC evaluates a LET definition once)
\*   adm:   targets whose parent is a directory that exists (deeper missing paths: not modelled)
\*   plain: sources of the lists of three: the ones that exist, written without a slash
Tables(wr) ==
  LET S == SrcPtsOf(wr)
      T == TgtPtsOf(wr)
  IN [W |-> wr.W, S |-> S, T |-> T,
      adm |-> {t \in 1..Len(T) : T[t].p = <<>> \/ KindAt(Side(wr.W, T[t].side), Parent(T[t].p)) = "dir"},
      plain |-> SetToSeq({i \in 1..Len(S) : ~S[i].slash /\ SrcKind(wr.W, S[i]) # "missing"})]

SrcForm(s, h) == IF s.side = "local" THEN LocalForms[(h % 3) + 1]
                 ELSE IF s.named THEN GridForms[(h % 3) + 1]
                 ELSE IF s.p = <<>> /\ h % 2 = 0 THEN "alias" ELSE "rawcap"
TgtForm(t, h) == IF t.side = "local" THEN LocalForms[(h % 3) + 1] ELSE GridForms[(h % 3) + 1]

Hash(i, t, f) == f * 43 + t * 41 + i * 31
Pick(n, h) == (h % n) + 1

Row(w, tb, ix, t, f) ==
  LET h == Hash(ix[1], t, f) + Seed
      a == [srcs |-> [k \in 1..Len(ix) |-> tb.S[ix[k]] @@ [form |-> SrcForm(tb.S[ix[k]], h + k)]],
            tgt |-> tb.T[t] @@ [form |-> TgtForm(tb.T[t], h \div 3)],
            r |-> Flags[f].r, caps |-> Flags[f].caps]
  IN [world |-> w, W |-> tb.W, a |-> a, res |-> Cp(tb.W, a)]

RowsOf(w, tb, seed, m1, m2, m3) ==
  LET NS == Len(tb.S)
      NP == Len(tb.plain)
      Sel(I, F, m) == {y \in I \X tb.adm \X F : (Hash(y[1], y[2], y[3]) + seed) % m = 0}
      H(x, m) == (Hash(x[1], x[2], x[3]) + seed) \div m
  IN \* one source: every (source, target, flags), thinned to one in Mod1
     {Row(w, tb, <<x[1]>>, x[2], x[3]) : x \in Sel(1..NS, 1..4, m1)}
     \* two sources: every (first source, target, flags), thinned to one in Mod2; the second source follows from the arithmetic
     \cup {Row(w, tb, <<x[1], Pick(NS, H(x, m2))>>, x[2], x[3]) : x \in Sel(1..NS, 1..4, m2)}
     \* three sources (of the plain ones), without --caps-only
     \cup {Row(w, tb, <<x[1], tb.plain[Pick(NP, H(x, m3))], tb.plain[Pick(NP, H(x, m3) \div NP)]>>, x[2], x[3]) :
             x \in Sel(ToSet(tb.plain), 1..2, m3)}

Rows == LET WS == Worlds
            TW == IF TinyMod = 0 THEN <<>> ELSE TinyWorlds
        IN UNION {RowsOf(w, Tables(WS[w]), Seed, Mod1, Mod2, Mod3) : w \in WorldNames}
           \cup UNION {RowsOf(TinyName(i), Tables(TW[i]), Seed + 7 * i, TinyMod, 2 * TinyMod, 2 * TinyMod) : i \in 1..Len(TW)}

(* ---- output ------------------------------------------------------------------------------------------- *)
TreeOut(T) == {[p |-> PathStr(q), k |-> T[q].k, c |-> T[q].c, mu |-> T[q].mu, o |-> T[q].o] : q \in DOMAIN T}
ArgOut(s) == [side |-> s.side, p |-> PathStr(s.p), named |-> s.named, slash |-> s.slash, form |-> s.form]
\* the tree of the target side afterwards (the other side: unchanged, CP_Frame)
Out(row) ==
  [world |-> row.world,
   srcs |-> [k \in 1..Len(row.a.srcs) |-> ArgOut(row.a.srcs[k])],
   tgt |-> [side |-> row.a.tgt.side, p |-> PathStr(row.a.tgt.p), slash |-> row.a.tgt.slash, form |-> row.a.tgt.form],
   r |-> row.a.r, caps |-> row.a.caps,
   expect |-> row.res.expect, errs |-> row.res.errs, why |-> row.res.why,
   maydirs |-> {PathStr(d) : d \in row.res.maydirs},
   T1 |-> TreeOut(Side(row.res, row.a.tgt.side))]
WorldOut(w, wr) == [world |-> w, expect |-> "WORLD", L0 |-> TreeOut(wr.W.L), G0 |-> TreeOut(wr.W.G)]

ASSUME LET WS == Worlds IN \A w \in WorldNames : WellFormed(WS[w].W.L) /\ WellFormed(WS[w].W.G)
ASSUME LET WS == Worlds
           TW == IF TinyMod = 0 THEN <<>> ELSE TinyWorlds
       IN ndJsonSerialize(IOEnv.OUT_FILE, SetToSeq({WorldOut(w, WS[w]) : w \in WorldNames})
                                          \o [i \in 1..Len(TW) |-> WorldOut(TinyName(i), TW[i])]
                                          \o SetToSeq({Out(row) : row \in Rows}))
ASSUME TinyMod = 0 \/ \A i \in 1..Len(TinyWorlds) : WellFormed(TinyWorlds[i].W.L) /\ WellFormed(TinyWorlds[i].W.G)

VARIABLE c
Init == c \in Rows
Next == UNCHANGED c
Spec == Init /\ [][Next]_c

W_ == c.W
CP_NeedsRecursive_ == CP_NeedsRecursive(W_, c.a, c.res)
CP_MissingSource_ == CP_MissingSource(W_, c.a, c.res)
CP_ErrorChangesNothing_ == CP_ErrorChangesNothing(W_, c.a, c.res)
CP_MissingTargetOneFile_ == CP_MissingTargetOneFile(W_, c.a, c.res)
CP_MissingTargetElseDirectory_ == CP_MissingTargetElseDirectory(W_, c.a, c.res)
CP_ManyNeedDirectory_ == CP_ManyNeedDirectory(W_, c.a, c.res)
CP_FileTargetOneFile_ == CP_FileTargetOneFile(W_, c.a, c.res)
CP_UnnamedFileIntoDirectory_ == CP_UnnamedFileIntoDirectory(W_, c.a, c.res)
CP_SlashOnFile_ == CP_SlashOnFile(W_, c.a, c.res)
CP_SlashOnDirectoryIgnored_ == CP_SlashOnDirectoryIgnored(W_, c.a, c.res)
CP_EverythingArrives_ == Judged(c.res) => CP_EverythingArrives(W_, c.a, c.res)
CP_Frame_ == CP_Frame(W_, c.a, c.res)
CP_MutableInPlace_ == CP_MutableInPlace(W_, c.a, c.res)
CP_LocalFilesArePlain_ == CP_LocalFilesArePlain(W_, c.a, c.res)
CP_CapsOnlyLocalTarget_ == CP_CapsOnlyLocalTarget(W_, c.a, c.res)
CP_CapsOnlyOnlyLocalTargets_ == CP_CapsOnlyOnlyLocalTargets(W_, c.a, c.res)
CP_Collisions_ == CP_Collisions(W_, c.a, c.res)
=============================================================================
