----------------------------- MODULE GenCliCp -----------------------------
(* X-cli_cp, GEN mode: worlds x argument lists of `tahoe cp` with the answer of CliCp!Cp, written to IOEnv.OUT_FILE for
   harness/clicp_driver.py (which builds the two trees for real -- a temporary directory and directories / files on a grid
   behind the real web API -- and runs the real allmydata.scripts.tahoe_cp.Copier on them).  The same rows are the state
   space, so that TLC evaluates the CP_ clauses of CliCp.tla (the documents' rules, stated without the operators) on every row.

   World "big" (both sides the same shape; grid: d/m, t/m, t/d/x are mutable files):
       f                 a file                      t/            the usual target
       d/  x m s/y e/    a directory with a sub-     t/x t/m       files that get overwritten (t/m: in place on the grid)
                         directory and an empty one  t/d/x         is merged into by `cp -r d t`
       g/  x d/x d/z     same names as d/x, d: name  t/f/  t/g     a directory named like the file f, a file named like
                         collisions                                the directory g ("in the way")
       (u1 stands for a non-ASCII name in the driver's table; q, n do not exist)
   World "fresh": an empty grid directory (a new alias) and a small local tree; world "flat": files only.

   Lists of one source: every source x target x flags (one in Mod1); lists of two and three sources: every first source x
   target x flags (one in Mod2 / Mod3), the other sources chosen by a fixed arithmetic of the indices rotated by Seed.  The
   spelling of every argument (`form`) is chosen by the same arithmetic. *)
EXTENDS CliCp, Json, IOUtils, SequencesExt

CONSTANTS Seed, Mod1, Mod2, Mod3, WorldNames

P1(x) == <<x>>
P2(x, y) == <<x, y>>
P3(x, y, z) == <<x, y, z>>

Tree(entries) == [p \in {e[1] : e \in entries} |-> (CHOOSE e \in entries : e[1] = p)[2]]

\* pfx distinguishes the contents of the two sides; mut: whether this side has mutable files
BigTree(pfx, mut) ==
  LET F(n) == FileNode(pfx \o n)
      M(n, o) == IF mut THEN MutNode(pfx \o n, o) ELSE FileNode(pfx \o n)
  IN Tree({<<P1("f"), F("1")>>,
           <<P1("d"), DirNode>>, <<P2("d", "x"), F("2")>>, <<P2("d", "m"), M("3", "m1")>>, <<P2("d", "s"), DirNode>>,
           <<P3("d", "s", "u1"), F("4")>>, <<P2("d", "e"), DirNode>>,
           <<P1("g"), DirNode>>, <<P2("g", "x"), F("5")>>, <<P2("g", "d"), DirNode>>, <<P3("g", "d", "x"), F("6")>>,
           <<P3("g", "d", "z"), F("7")>>,
           <<P1("t"), DirNode>>, <<P2("t", "x"), F("8")>>, <<P2("t", "m"), M("9", "m2")>>, <<P2("t", "d"), DirNode>>,
           <<P3("t", "d", "x"), M("10", "m3")>>, <<P2("t", "f"), DirNode>>, <<P2("t", "g"), F("11")>>})

SmallTree(pfx) ==
  Tree({<<P1("f"), FileNode(pfx \o "1")>>, <<P1("d"), DirNode>>, <<P2("d", "x"), FileNode(pfx \o "2")>>,
        <<P2("d", "e"), DirNode>>, <<P2("d", "s"), DirNode>>, <<P3("d", "s", "u1"), FileNode(pfx \o "4")>>})

FlatTree(pfx, mut) ==
  Tree({<<P1("f"), FileNode(pfx \o "1")>>, <<P1("x"), FileNode(pfx \o "2")>>,
        <<P1("m"), IF mut THEN MutNode(pfx \o "3", "m1") ELSE FileNode(pfx \o "3")>>})

\* a world with the paths its arguments are taken from
Worlds ==
  [big |-> [W |-> [L |-> BigTree("l", FALSE), G |-> BigTree("g", TRUE)],
            src |-> {P1("f"), P1("d"), P2("d", "x"), P2("d", "m"), P2("d", "s"), P3("d", "s", "u1"), P2("d", "e"),
                     P1("g"), P2("g", "x"), P2("g", "d"), P1("q")},
            slashed |-> {P1("f"), P1("d"), P2("d", "x"), P2("g", "d")},
            unnamed |-> {<<>>, P1("d"), P2("g", "d"), P1("f"), P2("d", "m"), P2("d", "e")},
            tgt |-> {<<>>, P1("n"), P1("t"), P2("t", "x"), P2("t", "m"), P2("t", "d"), P2("t", "n")}],
   fresh |-> [W |-> [L |-> SmallTree("l"), G |-> Tree({})],
              src |-> {P1("f"), P1("d"), P2("d", "x"), P2("d", "s"), P2("d", "e"), P1("q")},
              slashed |-> {P1("f"), P1("d")},
              unnamed |-> {<<>>},
              tgt |-> {<<>>, P1("n"), P1("d"), P1("f")}],
   flat |-> [W |-> [L |-> FlatTree("l", FALSE), G |-> FlatTree("g", TRUE)],
             src |-> {P1("f"), P1("x"), P1("m"), P1("q")},
             slashed |-> {P1("m")},
             unnamed |-> {<<>>, P1("f"), P1("m")},
             tgt |-> {<<>>, P1("n"), P1("x"), P1("m")}]]

LocalForms == <<"abs", "dot", "bare">>
GridForms == <<"alias", "parentcap", "dotcap">>
Flags == <<[r |-> FALSE, caps |-> FALSE], [r |-> TRUE, caps |-> FALSE], [r |-> FALSE, caps |-> TRUE], [r |-> TRUE, caps |-> TRUE]>>

\* source points and target points of a world, in TLC's fixed order (form filled in per row)
SrcPtsOf(w) ==
  SetToSeq({[side |-> sd, p |-> p, named |-> TRUE, slash |-> FALSE] : sd \in {"local", "grid"}, p \in Worlds[w].src}
           \cup {[side |-> sd, p |-> p, named |-> TRUE, slash |-> TRUE] : sd \in {"local", "grid"}, p \in Worlds[w].slashed}
           \cup {[side |-> "grid", p |-> p, named |-> FALSE, slash |-> FALSE] : p \in Worlds[w].unnamed})
TgtPtsOf(w) == SetToSeq({[side |-> sd, p |-> p, slash |-> sl] : sd \in {"local", "grid"}, p \in Worlds[w].tgt, sl \in BOOLEAN})
\* constant-level tables (evaluated once)
SrcSeq == [w \in DOMAIN Worlds |-> SrcPtsOf(w)]
TgtSeq == [w \in DOMAIN Worlds |-> TgtPtsOf(w)]
SrcPts(w) == SrcSeq[w]
TgtPts(w) == TgtSeq[w]
\* the parent of the target must be a directory that exists (deeper missing paths: not modelled)
AdmSet == [w \in DOMAIN Worlds |-> {t \in 1..Len(TgtSeq[w]) :
             LET tp == TgtSeq[w][t] IN tp.p = <<>> \/ KindAt(Side(Worlds[w].W, tp.side), Parent(tp.p)) = "dir"}]
\* sources of the lists of three: the ones that exist, written without a slash
PlainSet == [w \in DOMAIN Worlds |-> {i \in 1..Len(SrcSeq[w]) :
               ~SrcSeq[w][i].slash /\ SrcKind(Worlds[w].W, SrcSeq[w][i]) # "missing"}]

SrcForm(s, h) == IF s.side = "local" THEN LocalForms[(h % 3) + 1]
                 ELSE IF s.named THEN GridForms[(h % 3) + 1]
                 ELSE IF s.p = <<>> /\ h % 2 = 0 THEN "alias" ELSE "rawcap"
TgtForm(t, h) == IF t.side = "local" THEN LocalForms[(h % 3) + 1] ELSE GridForms[(h % 3) + 1]

Hash(ix, t, f) == f * 43 + t * 41 + (IF Len(ix) >= 1 THEN ix[1] * 31 ELSE 0) + (IF Len(ix) >= 2 THEN ix[2] * 37 ELSE 0)
                  + (IF Len(ix) >= 3 THEN ix[3] * 47 ELSE 0)

Row(w, ix, t, f) ==
  LET S == SrcPts(w)
      h == Hash(ix, t, f) + Seed
      a == [srcs |-> [k \in 1..Len(ix) |-> S[ix[k]] @@ [form |-> SrcForm(S[ix[k]], h + k)]],
            tgt |-> TgtPts(w)[t] @@ [form |-> TgtForm(TgtPts(w)[t], h \div 3)],
            r |-> Flags[f].r, caps |-> Flags[f].caps]
  IN [world |-> w, a |-> a, res |-> Cp(Worlds[w].W, a)]

\* one source: every (source, target, flags), thinned to one in Mod1
Rows1(w) == {Row(w, <<x[1]>>, x[2], x[3]) :
               x \in {y \in (1..Len(SrcSeq[w])) \X AdmSet[w] \X (1..4) : (Hash(<<y[1]>>, y[2], y[3]) + Seed) % Mod1 = 0}}
\* two sources: every (first source, target, flags), thinned to one in Mod2; the second source follows from the same arithmetic
Pick(n, h) == (h % n) + 1
Rows2(w) ==
  LET NS == Len(SrcSeq[w]) IN
  {Row(w, <<x[1], Pick(NS, (Hash(<<x[1]>>, x[2], x[3]) + Seed) \div Mod2)>>, x[2], x[3]) :
     x \in {y \in (1..NS) \X AdmSet[w] \X (1..4) : (Hash(<<y[1]>>, y[2], y[3]) + Seed) % Mod2 = 0}}
\* three sources (of the ones that exist, written without a slash), without --caps-only
PlainSeq == [w \in DOMAIN Worlds |-> SetToSeq(PlainSet[w])]
Rows3(w) ==
  LET PS == PlainSeq[w] NP == Len(PS) IN
  {LET h == (Hash(<<x[1]>>, x[2], x[3]) + Seed) \div Mod3 IN Row(w, <<x[1], PS[Pick(NP, h)], PS[Pick(NP, h \div NP)]>>, x[2], x[3]) :
     x \in {y \in PlainSet[w] \X AdmSet[w] \X (1..2) : (Hash(<<y[1]>>, y[2], y[3]) + Seed) % Mod3 = 0}}

Rows == UNION {Rows1(w) \cup Rows2(w) \cup Rows3(w) : w \in WorldNames}

(* ---- output ------------------------------------------------------------------------------------------- *)
TreeOut(T) == {[p |-> PathStr(q), k |-> T[q].k, c |-> T[q].c, mu |-> T[q].mu, o |-> T[q].o] : q \in DOMAIN T}
ArgOut(s) == [side |-> s.side, p |-> PathStr(s.p), named |-> s.named, slash |-> s.slash, form |-> s.form]
\* the tree of the target side afterwards (the other side: unchanged, CP_Frame)
Out(row) ==
  [world |-> row.world,
   srcs |-> [k \in 1..Len(row.a.srcs) |-> ArgOut(row.a.srcs[k])],
   tgt |-> [side |-> row.a.tgt.side, p |-> PathStr(row.a.tgt.p), slash |-> row.a.tgt.slash, form |-> row.a.tgt.form],
   r |-> row.a.r, caps |-> row.a.caps,
   expect |-> row.res.expect, errs |-> row.res.errs, why |-> row.res.why,
   maydirs |-> {PathStr(d) : d \in row.res.maydirs},
   T1 |-> TreeOut(Side(row.res, row.a.tgt.side))]
WorldOut(w) == [world |-> w, expect |-> "WORLD", L0 |-> TreeOut(Worlds[w].W.L), G0 |-> TreeOut(Worlds[w].W.G)]

ASSUME \A w \in WorldNames : WellFormed(Worlds[w].W.L) /\ WellFormed(Worlds[w].W.G)
ASSUME ndJsonSerialize(IOEnv.OUT_FILE, SetToSeq({WorldOut(w) : w \in WorldNames}) \o SetToSeq({Out(row) : row \in Rows}))

VARIABLE c
Init == c \in Rows
Next == UNCHANGED c
Spec == Init /\ [][Next]_c

W_ == Worlds[c.world].W
CP_NeedsRecursive_ == CP_NeedsRecursive(W_, c.a, c.res)
CP_MissingSource_ == CP_MissingSource(W_, c.a, c.res)
CP_ErrorChangesNothing_ == CP_ErrorChangesNothing(W_, c.a, c.res)
CP_MissingTargetOneFile_ == CP_MissingTargetOneFile(W_, c.a, c.res)
CP_MissingTargetElseDirectory_ == CP_MissingTargetElseDirectory(W_, c.a, c.res)
CP_ManyNeedDirectory_ == CP_ManyNeedDirectory(W_, c.a, c.res)
CP_FileTargetOneFile_ == CP_FileTargetOneFile(W_, c.a, c.res)
CP_UnnamedFileIntoDirectory_ == CP_UnnamedFileIntoDirectory(W_, c.a, c.res)
CP_SlashOnFile_ == CP_SlashOnFile(W_, c.a, c.res)
CP_SlashOnDirectoryIgnored_ == CP_SlashOnDirectoryIgnored(W_, c.a, c.res)
CP_EverythingArrives_ == Judged(c.res) => CP_EverythingArrives(W_, c.a, c.res)
CP_Frame_ == CP_Frame(W_, c.a, c.res)
CP_MutableInPlace_ == CP_MutableInPlace(W_, c.a, c.res)
CP_LocalFilesArePlain_ == CP_LocalFilesArePlain(W_, c.a, c.res)
CP_CapsOnlyLocalTarget_ == CP_CapsOnlyLocalTarget(W_, c.a, c.res)
CP_CapsOnlyOnlyLocalTargets_ == CP_CapsOnlyOnlyLocalTargets(W_, c.a, c.res)
CP_Collisions_ == CP_Collisions(W_, c.a, c.res)
=============================================================================
