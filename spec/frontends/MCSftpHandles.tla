--------------------------- MODULE MCSftpHandles ---------------------------
(* Model checking of SftpHandles.tla: every history (<= MaxOps requests) of one SFTP user over the names
   of the root directory and the handles in Handles: open with the flag sets of FlagSets, read / write /
   set size / fstat / close on the handles, stat / rename (plain and posix-rename) / remove / rmdir / mkdir
   on the names.

   What a client must observe is stated here INDEPENDENTLY of the operators of SftpHandles, over a
   client-side ghost (what the client has been told, not what the server keeps):
     gst[h]   free / open / closed          gF[h]    the flags the handle was opened with
     gbuf[h]  the contents the client has built through handle h (what it read at open + its own writes)
     gchg[h]  the client changed the file through h (created / truncated / wrote / changed the size)
     gname[h] where the client knows the file of h to be: the name it opened, moved by its successful
              renames ("" for a path that is not a name of the root directory)
     gunl[h]  the client has removed the name of h since it opened it (the file is unlinked)
     gfid[h]  the mutable file h was opened on ("" = a directory entry that is relinked on close)
     gone     names the client removed or renamed away and has not asked to create again
   `last` is the request of the latest step with its answer. *)
EXTENDS SftpHandles

CONSTANTS Names, Handles, FlagSets, WorldIds, OtherIds, Offs, Sizes, MaxOps, SizeRule, WithRo

VARIABLES S, last, gst, gF, gbuf, gchg, gname, gunl, gfid, gone, nops
vars == <<S, last, gst, gF, gbuf, gchg, gname, gunl, gfid, gone, nops>>

Datas == {<<7>>, <<8, 9>>}
ReadLens == {1, 9}

NameA == CHOOSE n \in Names : TRUE
\* initial worlds: the first name holds the entry, the other names are absent or a second immutable file
EntryOf(i) ==
  CASE i = 1 -> NoEntry
    [] i = 2 -> ImmE(<<1, 2>>, FALSE)
    [] i = 3 -> MutE("M1")
    [] i = 4 -> DirE
    [] i = 5 -> ImmE(<<1, 2>>, TRUE)         \* no-write link
    [] i = 6 -> MroE("M1")
    [] OTHER -> UnkE
OtherOf(i) == IF i % 2 = 0 THEN ImmE(<<3>>, FALSE) ELSE NoEntry

RoDir == [i |-> ImmE(<<4, 5>>, FALSE), m |-> MroE("M1")]
UriTab == [M1 |-> MutE("M1"), I |-> ImmE(<<6>>, FALSE)]

R0(st) == [st |-> st, data |-> <<>>, type |-> "", size |-> -1, w |-> FALSE]
RData(r) == [st |-> r.st, data |-> r.data, type |-> "", size |-> -1, w |-> FALSE]
RAttr(r) == [st |-> r.st, data |-> <<>>, type |-> r.type, size |-> r.size, w |-> r.w]
Req(op, p, p2, F, h, off, data, num, ow, res) ==
  [op |-> op, p |-> p, p2 |-> p2, F |-> F, h |-> h, off |-> off, data |-> data, num |-> num, ow |-> ow, res |-> res]
NoP == P("", "")

Init ==
  /\ \E i \in WorldIds, j \in OtherIds :
       S = InitSH([n \in Names |-> IF n = NameA THEN EntryOf(i) ELSE OtherOf(j)],
                  [M1 |-> <<5, 6, 7>>], RoDir, UriTab, Handles)
  /\ last = Req("init", NoP, NoP, {}, "", 0, <<>>, 0, FALSE, R0("ok"))
  /\ gst = [h \in Handles |-> "free"]
  /\ gF = [h \in Handles |-> {}]
  /\ gbuf = [h \in Handles |-> <<>>]
  /\ gchg = [h \in Handles |-> FALSE]
  /\ gname = [h \in Handles |-> ""]
  /\ gunl = [h \in Handles |-> FALSE]
  /\ gfid = [h \in Handles |-> ""]
  /\ gone = {}
  /\ nops = 0

Tick == nops < MaxOps /\ nops' = nops + 1

Paths == {P("name", n) : n \in Names} \cup (IF WithRo THEN {P("ro", "i"), P("ro", "x"), P("uri", "M1")} ELSE {})
NamePaths == {P("name", n) : n \in Names}

\* handles are interchangeable: a new file takes the first handle that is not open
FirstFree == IF \E h \in Handles : gst[h] # "open" THEN {CHOOSE h \in Handles : gst[h] # "open"} ELSE {}

DoOpen ==
  \E p \in Paths, F \in FlagSets, h \in FirstFree :
    LET r == OpenRes(S, p, F)
        e == Lookup(S, p).e
    IN /\ Tick
       /\ ~UnspecifiedOpen(S, p, F)
       /\ S' = Open(S, p, F, h)
       /\ last' = Req("open", p, NoP, F, h, 0, <<>>, 0, FALSE, R0(r.st))
       /\ IF r.st = "ok"
            THEN /\ gst' = [gst EXCEPT ![h] = "open"]
                 /\ gF' = [gF EXCEPT ![h] = F]
                 /\ gbuf' = [gbuf EXCEPT ![h] = IF "T" \in F \/ ~IsFile(e) THEN <<>> ELSE Content(S, e)]
                 /\ gchg' = [gchg EXCEPT ![h] = (F \cap {"C", "T"} # {}) /\ "X" \notin F]
                 /\ gname' = [gname EXCEPT ![h] = IF p.t = "name" THEN p.n ELSE ""]
                 /\ gunl' = [gunl EXCEPT ![h] = FALSE]
                 /\ gfid' = [gfid EXCEPT ![h] = IF e.kind \in {"mut", "mro"} THEN e.fid ELSE ""]
                 /\ gone' = IF "C" \in F /\ p.t = "name" THEN gone \ {p.n} ELSE gone
            ELSE UNCHANGED <<gst, gF, gbuf, gchg, gname, gunl, gfid, gone>>

Used == {h \in Handles : gst[h] # "free"}

DoRead ==
  \E h \in Used, off \in Offs, len \in ReadLens :
    /\ Tick
    /\ S' = S
    /\ last' = Req("read", NoP, NoP, {}, h, off, <<>>, len, FALSE, RData(ReadRes(S, h, off, len)))
    /\ UNCHANGED <<gst, gF, gbuf, gchg, gname, gunl, gfid, gone>>

DoWrite ==
  \E h \in Used, off \in Offs, data \in Datas :
    LET r == WriteRes(S, h) IN
    /\ Tick
    /\ S' = Write(S, h, off, data)
    /\ last' = Req("write", NoP, NoP, {}, h, off, data, 0, FALSE, R0(r.st))
    /\ IF r.st = "ok"
         THEN /\ gbuf' = [gbuf EXCEPT ![h] = IF "A" \in gF[h] THEN @ \o data ELSE WriteAt(@, off, data)]
              /\ gchg' = [gchg EXCEPT ![h] = TRUE]
         ELSE UNCHANGED <<gbuf, gchg>>
    /\ UNCHANGED <<gst, gF, gname, gunl, gfid, gone>>

DoSetSize ==
  \E h \in Used, n \in Sizes :
    LET r == WriteRes(S, h) IN
    /\ Tick
    /\ S' = FSetSize(S, h, n)
    /\ last' = Req("setsize", NoP, NoP, {}, h, 0, <<>>, n, FALSE, R0(r.st))
    /\ IF r.st = "ok"
         THEN /\ gbuf' = [gbuf EXCEPT ![h] = IF n <= Len(@) THEN SubSeq(@, 1, n) ELSE @ \o Zeros(n - Len(@))]
              /\ gchg' = [gchg EXCEPT ![h] = @ \/ n # Len(gbuf[h])]
         ELSE UNCHANGED <<gbuf, gchg>>
    /\ UNCHANGED <<gst, gF, gname, gunl, gfid, gone>>

DoFStat ==
  \E h \in Used :
    /\ Tick
    /\ S' = S
    /\ last' = Req("fstat", NoP, NoP, {}, h, 0, <<>>, 0, FALSE, RAttr(FStatRes(S, h)))
    /\ UNCHANGED <<gst, gF, gbuf, gchg, gname, gunl, gfid, gone>>

DoClose ==
  \E h \in Used :
    /\ Tick
    /\ S' = CloseH(S, h, SizeRule)
    /\ last' = Req("close", NoP, NoP, {}, h, 0, <<>>, 0, FALSE, R0(CloseHRes(S, h).st))
    /\ gst' = [gst EXCEPT ![h] = "closed"]
    /\ UNCHANGED <<gF, gbuf, gchg, gname, gunl, gfid, gone>>

DoStat ==
  \E p \in Paths : \E r \in StatRes(S, p) :
    /\ Tick
    /\ S' = S
    /\ last' = Req("stat", p, NoP, {}, "", 0, <<>>, 0, FALSE, RAttr(r))
    /\ UNCHANGED <<gst, gF, gbuf, gchg, gname, gunl, gfid, gone>>

OpenW(h) == gst[h] = "open" /\ Writing(gF[h])
\* the client is writing a file that it knows to be at root-level name n
At(h, n) == OpenW(h) /\ ~gunl[h] /\ gname[h] = n

DoRename ==
  \E pf \in Paths, pt \in Paths, ow \in BOOLEAN :
    LET r == RenameRes(S, pf, pt, ow) IN
    /\ Tick
    /\ S' = Rename(S, pf, pt, ow)
    /\ last' = Req("rename", pf, pt, {}, "", 0, <<>>, 0, ow, R0(r.st))
    /\ IF r.st = "ok" /\ pf.n # pt.n
         THEN /\ gname' = [h \in Handles |-> IF At(h, pf.n) THEN pt.n ELSE gname[h]]
              /\ gone' = (gone \cup {pf.n}) \ {pt.n}
         ELSE UNCHANGED <<gname, gone>>
    /\ UNCHANGED <<gst, gF, gbuf, gchg, gunl, gfid>>

DoRemove ==
  \E p \in Paths :
    LET r == RemoveRes(S, p) IN
    /\ Tick
    /\ S' = Remove(S, p)
    /\ last' = Req("remove", p, NoP, {}, "", 0, <<>>, 0, FALSE, R0(r.st))
    /\ IF r.st = "ok"
         THEN /\ gunl' = [h \in Handles |-> gunl[h] \/ (OpenW(h) /\ ~gunl[h] /\ gname[h] = p.n)]
              /\ gone' = gone \cup {p.n}
         ELSE UNCHANGED <<gunl, gone>>
    /\ UNCHANGED <<gst, gF, gbuf, gchg, gname, gfid>>

DoRmdir ==
  \E p \in NamePaths :
    /\ Tick
    /\ S' = Rmdir(S, p)
    /\ last' = Req("rmdir", p, NoP, {}, "", 0, <<>>, 0, FALSE, R0(RmdirRes(S, p).st))
    /\ UNCHANGED <<gst, gF, gbuf, gchg, gname, gunl, gfid, gone>>

DoMkdir ==
  \E p \in NamePaths :
    LET r == MkdirRes(S, p) IN
    /\ Tick
    /\ S' = Mkdir(S, p)
    /\ last' = Req("mkdir", p, NoP, {}, "", 0, <<>>, 0, FALSE, R0(r.st))
    /\ gone' = IF r.st = "ok" THEN gone \ {p.n} ELSE gone
    /\ UNCHANGED <<gst, gF, gbuf, gchg, gname, gunl, gfid>>

\* A request that only asks (read, fstat, stat) or that is refused leaves everything but `last` as it was: the
\* histories that continue after it are the histories that continue without it, so such a step is a leaf.
Live == last.res.st = "ok" /\ last.op \notin {"read", "fstat", "stat"}

Next == Live /\ (DoOpen \/ DoRead \/ DoWrite \/ DoSetSize \/ DoFStat \/ DoClose \/ DoStat \/ DoRename \/ DoRemove
                 \/ DoRmdir \/ DoMkdir)
Spec == Init /\ [][Next]_vars

(* ---- what the client must observe ----------------------------------------------------------- *)
L == last'
Is(op) == L.op = op
Ok == L.res.st = "ok"
NamespaceSame == S'.dir = S.dir /\ S'.mut = S.mut
IsName(p) == p.t = "name"

\* [doc] contents written through a handle are what the name (or the mutable file) holds once the handle
\* has been closed - at the name the file has been renamed to ([code] _rename_heisenfiles)
SH_CloseCommits ==
  [][(Is("close") /\ OpenW(L.h) /\ gchg[L.h] /\ ~gunl[L.h])
       => /\ Ok
          /\ IF gfid[L.h] # "" THEN S'.mut[gfid[L.h]] = gbuf[L.h]
             ELSE S'.dir[gname[L.h]].kind = "imm" /\ S'.dir[gname[L.h]].c = gbuf[L.h]]_vars

\* a close that has nothing to commit (read handle, nothing changed, file removed meanwhile) changes nothing:
\* "open handles on a removed file stay usable but the file does not come back"
SH_CloseWithoutCommit ==
  [][(Is("close") /\ ~(OpenW(L.h) /\ gchg[L.h] /\ ~gunl[L.h])) => NamespaceSame]_vars

\* [draft] 6.4: a read answers the bytes of the file as the client has built it through this handle; EOF iff
\* the offset is at or past its end; other handles and later changes of the name do not leak into an open handle
SH_ReadOwnView ==
  [][(Is("read") /\ gst[L.h] = "open" /\ "R" \in gF[L.h])
       => IF L.off >= Len(gbuf[L.h]) THEN L.res.st = "eof"
          ELSE Ok /\ L.res.data = ReadAt(gbuf[L.h], L.off, L.num)]_vars

SH_FStatOwnSize ==
  [][(Is("fstat") /\ gst[L.h] = "open") => (Ok /\ L.res.size = Len(gbuf[L.h]) /\ L.res.type = "file")]_vars

\* [code] "file handle was not opened for reading / writing" = FX_PERMISSION_DENIED; a closed handle = FX_BAD_MESSAGE
SH_HandleModes ==
  [][/\ (Is("read") /\ "R" \notin gF[L.h]) => L.res.st = "denied"
     /\ (L.op \in {"write", "setsize"} /\ "W" \notin gF[L.h]) => L.res.st = "denied"
     /\ (Is("read") /\ "R" \in gF[L.h] /\ gst[L.h] = "closed") => L.res.st = "badmsg"
     /\ (L.op \in {"write", "setsize"} /\ "W" \in gF[L.h] /\ gst[L.h] = "closed") => L.res.st = "badmsg"
     /\ (L.op \in {"write", "setsize"} /\ "W" \in gF[L.h] /\ gst[L.h] = "open") => Ok
     /\ (Is("fstat") /\ gst[L.h] = "closed") => L.res.st = "badmsg"]_vars

\* a name the client removed (or renamed away) stays absent until the client asks for it to exist again
SH_NothingReappears == \A n \in gone : S.dir[n].kind = "none"

\* a request that is refused changes nothing
SH_RefusedChangesNothing ==
  [][(L.res.st \notin {"ok"} /\ ~Is("close")) => (NamespaceSame /\ S'.h = S.h)]_vars

\* requests that only ask change nothing; data stays in the handle until close ([doc] "... when the file handle
\* is closed"); an open without FXF_EXCL touches no directory entry
SH_OnlyCloseCommits ==
  [][/\ L.op \in {"read", "fstat", "stat"} => S' = S
     /\ L.op \in {"write", "setsize"} => NamespaceSame
     /\ (Is("open") /\ "X" \notin L.F) => NamespaceSame]_vars

\* [code] FXF_EXCL: fails (FX_FAILURE) on an existing name and changes nothing; else the link exists at once
SH_Excl ==
  [][(Is("open") /\ "X" \in L.F /\ "C" \in L.F /\ L.F \cap {"R", "W"} # {} /\ IsName(L.p))
       => IF S.dir[L.p.n].kind # "none" THEN L.res.st = "failure" /\ NamespaceSame
          ELSE Ok /\ S'.dir[L.p.n] = ImmE(<<>>, FALSE)]_vars

\* [code] cases 2a-2d of openFile and [doc] no-write
SH_OpenRefusals ==
  [][(Is("open") /\ IsName(L.p) /\ L.F \cap {"R", "W"} # {} /\ "X" \notin L.F)
       => LET e == S.dir[L.p.n] IN
          /\ (e.kind = "none" /\ "C" \notin L.F) => L.res.st = "nosuch"
          /\ (e.kind = "none" /\ "C" \in L.F) => Ok
          /\ e.kind \in {"dir", "unk"} => L.res.st = "denied"
          /\ ("W" \in L.F /\ (e.kind = "mro" \/ (e.kind = "imm" /\ e.nw))) => L.res.st = "denied"
          /\ ("W" \notin L.F /\ IsFile(e)) => Ok
          /\ (e.kind = "mut" \/ (e.kind = "imm" /\ ~e.nw)) => Ok]_vars

\* [draft] 6.5: plain rename never replaces anything - neither an entry nor a file being written at the destination
SH_RenameNoClobber ==
  [][(Is("rename") /\ ~L.ow /\ IsName(L.p) /\ IsName(L.p2)
      /\ (S.dir[L.p2.n].kind # "none" \/ \E h \in Handles : At(h, L.p2.n)))
       => L.res.st = "denied"]_vars

\* a successful rename moves the entry; nothing is left under the old name
SH_RenameMoves ==
  [][(Is("rename") /\ Ok /\ L.p.n # L.p2.n)
       => /\ S'.dir[L.p.n] = NoEntry
          /\ S.dir[L.p.n].kind # "none" => S'.dir[L.p2.n] = S.dir[L.p.n]
          /\ S'.mut = S.mut]_vars

SH_RenameSource ==
  [][(Is("rename") /\ IsName(L.p) /\ IsName(L.p2) /\ S.dir[L.p.n].kind = "none" /\ ~\E h \in Handles : At(h, L.p.n))
       => L.res.st \in {"nosuch", "denied"}]_vars

\* the server's binding of a file being written is where the client knows it to be
SH_BindingFollowsClient ==
  \A h \in Handles :
    (OpenW(h) /\ S.h[h].via = "name") =>
      IF gunl[h] THEN ~S.h[h].bound ELSE S.h[h].bound /\ S.h[h].name = gname[h]

SH_RemoveRules ==
  [][(Is("remove") /\ IsName(L.p))
       => LET e == S.dir[L.p.n] IN
          /\ (IsFile(e) \/ e.kind = "unk") => Ok /\ S'.dir[L.p.n] = NoEntry
          /\ e.kind = "dir" => L.res.st = "denied"
          /\ (e.kind = "none" /\ ~\E h \in Handles : At(h, L.p.n)) => L.res.st = "nosuch"
          /\ Ok => S'.mut = S.mut /\ \A n \in Names \ {L.p.n} : S'.dir[n] = S.dir[n]]_vars

\* [code] getAttrs: an entry answers its current size; a name without entry answers iff a file is being
\* written there, with the size built through one of those handles
SH_StatRules ==
  [][(Is("stat") /\ IsName(L.p))
       => LET e == S.dir[L.p.n]
              hs == {h \in Handles : At(h, L.p.n)}
          IN /\ IsFile(e) => Ok /\ L.res.type = "file" /\ L.res.size = Len(Content(S, e))
             /\ e.kind = "dir" => Ok /\ L.res.type = "dir"
             /\ (e.kind = "none" /\ hs = {}) => L.res.st = "nosuch"
             /\ (e.kind = "none" /\ hs # {}) => Ok /\ \E h \in hs : L.res.size = Len(gbuf[h])]_vars

SH_DirRules ==
  [][/\ (Is("mkdir") /\ S.dir[L.p.n].kind = "none") => Ok /\ S'.dir[L.p.n].kind = "dir"
     /\ (Is("mkdir") /\ (IsFile(S.dir[L.p.n]) \/ S.dir[L.p.n].kind = "unk")) => L.res.st = "failure"
     /\ (Is("rmdir") /\ IsFile(S.dir[L.p.n])) => L.res.st = "denied"
     /\ (Is("rmdir") /\ S.dir[L.p.n].kind = "none") => L.res.st = "nosuch"
     /\ (Is("rmdir") /\ S.dir[L.p.n].kind = "dir") => Ok /\ S'.dir[L.p.n] = NoEntry]_vars

\* the read-only directory and cap paths never change anything in the user's directory except through a
\* mutable file opened by its write cap
SH_ReadOnlyParent ==
  [][(L.op \in {"open", "remove", "rename"} /\ (L.p.t = "ro" \/ L.p2.t = "ro"))
       => /\ NamespaceSame
          /\ (Is("open") /\ Writing(L.F)) => ~Ok
          /\ ~Is("open") => L.res.st \in {"denied", "nosuch"}]_vars

Inv_StateOK == StateOK(S)
=============================================================================
