--------------------------- MODULE MCSftpConsumer ---------------------------
(* Model checking of the SFTP open-file buffer (SftpConsumer.tla): every
   interleaving of the background download (chunks of any size, completion)
   with client writes, size changes, reads and the delivery of read answers.
   The properties compare the implementation-shaped state with the ideal file;
   they are stated over ghost variables (ideal, dirty), independently
   of the operators of SftpConsumer.

   MergeRule = "max": the intended design (must satisfy every property).
   MergeRule = "code": the loop as written in sftpd.py (`end = end1`).

   With KeepHist the behaviour so far is kept in `hist` and printed (the
   adapter keeps the maximal ones), so that TLC behaviours can be replayed into the real class. *)
EXTENDS SftpConsumer

CONSTANTS N,          \* size of the original file
          MaxPos,     \* offsets / sizes range over 0..MaxPos
          MaxLen,     \* client writes have 0..MaxLen bytes
          MaxWrites, MaxSizes, MaxReads, MaxOps,
          MergeRule, KeepHist

Original == [i \in 1..N |-> 100 + i]

VARIABLES S, ideal, dirty, produced, nw, ns, nr, nops, hist
vars == <<S, ideal, dirty, produced, nw, ns, nr, nops, hist>>

Init ==
  /\ S = InitState(N)
  /\ ideal = Original
  /\ dirty = {}
  /\ produced = 0 /\ nw = 0 /\ ns = 0 /\ nr = 0 /\ nops = 0
  /\ hist = <<>>

\* the step counter and the history exist only in the replay-generation configurations;
\* a step is <<action, n, off, len, v>> with action 1 = chunk(n), 2 = finish, 3 = overwrite(off, len bytes of
\* value v), 4 = set size(n), 5 = read(off, len), 6 = close
Log(rec) == IF KeepHist THEN /\ nops < MaxOps
                             /\ nops' = nops + 1
                             /\ hist' = Append(hist, rec)
                        ELSE UNCHANGED <<nops, hist>>

DoChunk ==
  \E n \in 1..(N - produced) :
    /\ ~S.closed
    /\ Log(<<1, n, 0, 0, 0>>)
    /\ S' = Chunk(S, SubSeq(Original, produced + 1, produced + n), MergeRule)
    /\ produced' = produced + n
    /\ UNCHANGED <<ideal, dirty, nw, ns, nr>>

DoFinish ==
  /\ produced = N /\ ~S.done
  /\ Log(<<2, 0, 0, 0, 0>>)
  /\ S' = DownloadFinished(S)
  /\ UNCHANGED <<ideal, dirty, produced, nw, ns, nr>>

DoOverwrite ==
  \E off \in 0..MaxPos, len \in 0..MaxLen :
    /\ Quiescent(S) /\ ~S.closed /\ nw < MaxWrites
    /\ off + len <= MaxPos + 1
    /\ Log(<<3, 0, off, len, nw + 1>>)
    /\ LET data == [i \in 1..len |-> nw + 1] IN
       /\ S' = Overwrite(S, off, data)
       /\ ideal' = IdealWrite(ideal, off, data)
       /\ dirty' = DirtyWrite(dirty, ideal, off, len)
    /\ nw' = nw + 1
    /\ UNCHANGED <<produced, ns, nr>>

DoSetSize ==
  \E n \in 0..MaxPos :
    /\ Quiescent(S) /\ ~S.closed /\ ns < MaxSizes /\ n # S.csize
    /\ Log(<<4, n, 0, 0, 0>>)
    /\ S' = SetSize(S, n)
    /\ ideal' = IdealSetSize(ideal, n)
    /\ dirty' = DirtySetSize(dirty, ideal, n)
    /\ ns' = ns + 1
    /\ UNCHANGED <<produced, nw, nr>>

\* (when behaviours are generated for replay, fewer read lengths: -simulate picks uniformly among successors)
DoRead ==
  \E off \in 0..MaxPos, len \in (IF KeepHist THEN {1, 2, MaxPos + 1} ELSE 1..(MaxPos + 1)) :
    /\ ~S.closed /\ nr < MaxReads
    /\ off + len <= MaxPos + 2
    /\ Log(<<5, 0, off, len, nr + 1>>)
    /\ S' = ReadStart(S, nr + 1, off, len)
    /\ nr' = nr + 1
    /\ UNCHANGED <<ideal, dirty, produced, nw, ns>>

\* the eventual-send turn in which a read's callback runs
DoDeliver ==
  \E r \in S.fired :
    /\ nops' = nops /\ hist' = hist
    /\ S' = Deliver(S, r)
    /\ UNCHANGED <<ideal, dirty, produced, nw, ns, nr>>

DoClose ==
  /\ Quiescent(S) /\ S.done /\ ~S.closed
  /\ Log(<<6, 0, 0, 0, 0>>)
  /\ S' = Close(S)
  /\ UNCHANGED <<ideal, dirty, produced, nw, ns, nr>>

Next == DoChunk \/ DoFinish \/ DoOverwrite \/ DoSetSize \/ DoRead \/ DoDeliver \/ DoClose
Spec == Init /\ [][Next]_vars

(* ---- properties ---------------------------------------------------------- *)
\* whenever the callback of a read runs (any moment at which it is queued), it answers the ideal bytes
C39_ReadEqualsIdeal    == \A r \in S.fired : /\ r.eof = IdealEOF(ideal, r.off)
                                              /\ ~r.eof => ReadResult(S, r) = IdealRead(ideal, r.off, r.reqlen)
C39_FinalEqualsIdeal   == FinalEqualsIdeal(S, ideal)
C39_ClientPrecedence   == ClientPrecedence(S, ideal, dirty)
C39_DownloadedIntact   == DownloadedIntact(S, ideal, dirty, Original)
C39_SizeIsIdeal        == SizeIsIdeal(S, ideal)
C39_NoWaiterWhenDone   == NoWaiterWhenDone(S)
\* a download that has delivered everything and reported completion leaves the file done
C39_DoneAtEnd          == (produced = N /\ S.downloaded >= S.dsize) => S.done
Inv_SizesOK            == SizesOK(S)

\* replayable behaviours (simulation / counterexample search)
\* (printed as one string: TLC breaks long tuples over several lines)
EmitHist == (KeepHist /\ nops >= 1) => PrintT("H" \o ToString(hist))
=============================================================================
