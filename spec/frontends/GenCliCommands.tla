--------------------------- MODULE GenCliCommands ---------------------------
(* GEN table of CliCommands: for ls / get / unlink / mkdir / put every argument of at most ArgLen tokens (and at most
   ArgLen - 1 behind a whole directory cap) plus the longer shapes below, for mv / ln a set of sources x every
   destination of at most DestLen tokens plus longer shapes, the shorter ones also with the empty alias table, with
   failing answers (k-th request answered 500 / 404) and read-only sources; each row
   carries the requests the documents require (method, root, path components, query, body) and the exit status class.
   The driver runs the real command functions (options parsed by the real twisted.python.usage classes of
   scripts/cli.py) on a node directory with that aliases file, with allmydata.scripts.common_http.do_http replaced by a
   recorder that answers from the scenario.  CC clauses: documented equivalences and rules over the rows. *)
EXTENDS CliCommands, Json, IOUtils, SequencesExt

CONSTANTS ArgLen,      \* one-argument commands: every argument of at most ArgLen tokens, all answered 2xx, full table
          ShortLen,    \* ... of at most ShortLen tokens also with the empty table and with failing answers
          DestLen,     \* mv / ln: every destination of at most DestLen tokens
          ShortDest    \* ... of at most ShortDest tokens also with failing answers, read-only sources and the empty table

Inv(cmd, given, arg, arg2, fmt, mutable, jk, sc, tbl) ==
  [cmd |-> cmd, given |-> given, arg |-> arg, arg2 |-> arg2, fmt |-> fmt, mutable |-> mutable, jk |-> jk, sc |-> sc, tbl |-> tbl]
Inv1(cmd, arg, sc, tbl) == Inv(cmd, TRUE, arg, <<>>, "", FALSE, "", sc, tbl)

UpTo(n) == SeqsUpTo(Base, n) \cup {<<CapTok>> \o r : r \in SeqsUpTo(Base, n - 1)}
LongArgs == {<<"a", ":", "a", "/", "e">>, <<"a", "/", "a", "/", "a">>, <<"K", "/", "a", "/", "e">>, <<"K", ":", ".", "/", "a", "/", "a">>,
             <<"a", "/", "/", "a">>, <<"/", "a", "/", "a">>, <<"a", ":", "/", "a">>, <<"a", "e", ":", "e">>,
             <<"a", "/", "e", ":", "a">>, <<".", "/", "a", ":", "e">>, <<"a", ":", "a", "/", "e", "/">>, <<" ", "a", "/", "e", " ">>, <<"K", ":", ".", "/">>}
Args == UpTo(ArgLen) \cup LongArgs
ShortArgs == UpTo(ShortLen) \cup LongArgs
Cmds1 == {"ls", "get", "unlink", "mkdir", "put"}

Single ==
       {Inv1(cmd, a, 0, "T2") : cmd \in Cmds1, a \in Args}
  \cup {Inv1(cmd, a, sc, "T2") : cmd \in Cmds1, a \in ShortArgs, sc \in {1, 11}}
  \cup {Inv1(cmd, a, 0, "T0") : cmd \in Cmds1, a \in ShortArgs}
  \cup {Inv("mkdir", g, a, <<>>, f, FALSE, "", sc, "T2") : g \in BOOLEAN, a \in {<<>>, <<"a">>, <<"a", ":", "e", "/">>}, f \in {"", "MDMF"}, sc \in {0, 1}}
  \cup {Inv("put", g, a, <<>>, f, m, "", sc, "T2") : g \in BOOLEAN, a \in {<<"e">>, <<"a", ":", "a", "/", "e">>, <<"M">>, <<"K", "/", "a">>},
                                                    f \in {"", "MDMF"}, m \in BOOLEAN, sc \in {0, 1}}

Froms == {<<"a">>, <<"a", "/", "e">>, <<"t", ":", "a">>, <<"a", ":", "e">>, <<"K", "/", "a">>, <<"K", ":", ".", "/", "a", "/", "e">>,
          <<"e", ":", "a">>, <<"t", ":">>, <<"a", "/">>, <<"U", ":", "a", "/", "e">>}
LongDests == {<<"a", ":", "e", "/">>, <<"a", ":", "e", "/", "a">>, <<"e", "/", "a", "/">>, <<"K", "/", "e", "/">>, <<"K", ":", ".", "/", "e">>,
              <<"a", ":", "/">>, <<"a", "e", ":">>, <<"a", "e", ":", "e">>}
Dests == UpTo(DestLen) \cup LongDests
ShortDests == UpTo(ShortDest) \cup LongDests
Moves == {Inv(cmd, TRUE, f, d, "", FALSE, "rw", 0, "T2") : cmd \in {"mv", "ln"}, f \in Froms, d \in Dests}
    \cup {Inv(cmd, TRUE, f, d, "", FALSE, "rw", sc, "T2") : cmd \in {"mv", "ln"}, f \in Froms, d \in ShortDests, sc \in {1, 2, 3, 11}}
    \cup {Inv(cmd, TRUE, f, d, "", FALSE, "ro", 0, tb) : cmd \in {"mv", "ln"}, f \in Froms, d \in ShortDests, tb \in {"T2", "T0"}}

\* sets are written as sequences (JSON arrays)
ReqRow(q) == [q EXCEPT !.query = SetToSeq(q.query)]
OutRow(o) == [o EXCEPT !.reqs = [k \in 1..Len(o.reqs) |-> ReqRow(o.reqs[k])]]
Cases == {[inv |-> i, exp |-> OutRow(Invoke(i, TableOf(i.tbl)))] : i \in Single \cup Moves}

ASSUME ndJsonSerialize(IOEnv.OUT_FILE, SetToSeq(Cases))

(* the documented examples, as equations between invocations (checked once, on the operators) *)
TT == T2
SameReq(x, y) == x.method = y.method /\ x.root.t = y.root.t /\ x.root.cap = y.root.cap /\ x.root.lit = y.root.lit /\ x.segs = y.segs
                 /\ x.query = y.query /\ x.body = y.body
Same(o1, o2) == o1.rc = o2.rc /\ o1.open = "" /\ o2.open = "" /\ Len(o1.reqs) = Len(o2.reqs) /\ \A k \in 1..Len(o1.reqs) : SameReq(o1.reqs[k], o2.reqs[k])
RootOfDefault == AliasRoot(TT, DefaultName, "default")
ASSUME /\ Same(Ls(<<>>, TT, 0), Ls(<<"/">>, TT, 0)) /\ Same(Ls(<<>>, TT, 0), Ls(<<"t", ":">>, TT, 0)) /\ Same(Ls(<<>>, TT, 0), Ls(<<"t", ":", "/">>, TT, 0))
       /\ Ls(<<>>, TT, 0).reqs = <<Req("GET", RootOfDefault, <<>>, {"t=json"}, "none")>>
       /\ Same(Mkdir(TRUE, <<"a">>, "", TT, 0), Mkdir(TRUE, <<"/", "a">>, "", TT, 0))
       /\ Mkdir(TRUE, <<"a">>, "", TT, 0).reqs = <<Req("POST", RootOfDefault, <<<<"a">>>>, {"t=mkdir"}, "none")>>
       /\ Mkdir(FALSE, <<>>, "", TT, 0).reqs = <<Req("POST", NoRoot, <<>>, {"t=mkdir"}, "none")>>
       /\ Same(Put(TRUE, <<"K", "/", "a", "/", "e">>, FALSE, "", TT, 0), Put(TRUE, <<"K", ":", ".", "/", "a", "/", "e">>, FALSE, "", TT, 0))
       /\ Same(Put(TRUE, <<"e">>, FALSE, "", TT, 0), Put(TRUE, <<"t", ":", "e">>, FALSE, "", TT, 0))
       /\ Same(Unlink(<<"e">>, TT, 0), Unlink(<<"t", ":", "e">>, TT, 0))
       /\ Same(Mv(<<"e">>, <<"a", ":">>, "move", "rw", TT, 0), Mv(<<"t", ":", "e">>, <<"a", ":">>, "move", "rw", TT, 0))
       /\ Same(Mv(<<"e">>, <<"a", ":">>, "move", "rw", TT, 0), Mv(<<"t", ":", "e">>, <<"a", ":", "e">>, "move", "rw", TT, 0))
       /\ Mv(<<"e">>, <<"a", ":">>, "move", "rw", TT, 0).reqs[2].segs = <<<<"e">>>>
       /\ Same(Mv(<<"e">>, <<"a", "/">>, "move", "rw", TT, 0), Mv(<<"e">>, <<"a", "/", "e">>, "move", "rw", TT, 0))
       /\ Same(Mv(<<"e">>, <<"a">>, "move", "rw", TT, 0), Mv(<<"t", ":", "e">>, <<"t", ":", "a">>, "move", "rw", TT, 0))

VARIABLE c
Init == c \in Cases
Next == UNCHANGED c
Spec == Init /\ [][Next]_c

I == c.inv
E == c.exp
Tbl == TableOf(I.tbl)
Judged == E.open = ""
Reqs == {E.reqs[k] : k \in 1..Len(E.reqs)}
Mutating(q) == q.method # "GET"
A1 == Resolve(I.arg, Tbl, "tahoe", FALSE)

\* the default alias: NAME and tahoe:NAME are the same command ("has the same effect as")
CC_DefaultIsTahoe ==
  (I.given /\ I.arg # <<"M">> /\ ~Has(StripSp(I.arg), ":") /\ ~UriPrefix(StripSp(I.arg)) /\ Known(Tbl, DefaultName) /\ I.cmd \notin {"mv", "ln"}) =>
      LET o == OutRow(Invoke([I EXCEPT !.arg = <<"t", ":">> \o StripSp(I.arg)], Tbl)) IN
      (Judged /\ o.open = "") => (o.rc = E.rc /\ Len(o.reqs) = Len(E.reqs) /\
                                   \A k \in 1..Len(o.reqs) : o.reqs[k].segs = E.reqs[k].segs /\ o.reqs[k].root.cap = E.reqs[k].root.cap)
\* an argument that names no directory the node knows reaches no server: exit status not 0 and no request other than reads
CC_UnknownAlias ==
  (I.given /\ I.arg # <<"M">> /\ ~(I.cmd \in {"mkdir", "put"} /\ I.arg = <<>>) /\ A1.kind \in {"unknown_alias", "no_default"}) => (E.rc = "nonzero" /\ E.reqs = <<>>)
\* every request of a one-argument command goes to the root the argument names, below it to the path it names
CC_Addressed ==
  (Judged /\ I.given /\ I.arg # <<"M">> /\ I.arg # <<>> /\ I.cmd \notin {"mv", "ln"}) =>
      \A q \in Reqs : /\ q.root = A1.root
                      /\ \A k \in 1..Len(q.segs) : q.segs[k] # <<>> /\ ~Has(q.segs[k], "/")
                      /\ LET p == DropLead(DropTrail(A1.path)) IN q.segs = Segs(p) \/ q.segs = Segs(DropTrail(A1.path)) \/ q.segs = Segs(A1.path)
\* an answer that is not 2xx makes the exit status not 0, and nothing is printed as a result
CC_FailureShows == (Judged /\ I.sc # 0 /\ Len(E.reqs) >= (I.sc % 10)) => (E.rc = "nonzero" /\ E.out = "none")
\* mv: the source is unlinked last and only after the new link was made; ln never unlinks
CC_MoveOrder ==
  (Judged /\ I.cmd \in {"mv", "ln"}) =>
     /\ \A k \in 1..Len(E.reqs) : E.reqs[k].method = "DELETE" => (I.cmd = "mv" /\ k = Len(E.reqs) /\ k = 3 /\ E.reqs[2].method = "PUT" /\ ~Failed(I.sc, 2))
     /\ E.rc = "zero" => Len(E.reqs) = (IF I.cmd = "mv" THEN 3 ELSE 2)
     /\ \A k \in 1..Len(E.reqs) : E.reqs[k].method = "PUT" => {"t=uri", "replace=only-files"} = {E.reqs[k].query[j] : j \in 1..Len(E.reqs[k].query)}
\* never a request with an empty path component when judged (the web API refuses them)
CC_NoEmptyComponent == Judged => \A q \in Reqs : \A k \in 1..Len(q.segs) : q.segs[k] # <<>>
=============================================================================
