----------------------------- MODULE GenCliE2E -----------------------------
(* The commands of CliCommands against a file store: what a command line does to the directories behind the
   aliases.  A world is a set of entries [alias, path (sequence of names, each a token sequence), kind "dir" | "file"];
   a request of CliCommands!Invoke is answered from the world the way docs/frontends/webapi.rst describes the
   operation (GET / DELETE of something missing: 404; PUT / mkdir through a file: error; PUT onto a directory:
   error; t=uri&replace=only-files onto a directory: 409; missing intermediate directories are created by PUT and
   mkdir) and changes it; the k-th request failing is scenario sc = k of Invoke.  GEN: from the world W0 every
   invocation of Universe and every pair of them whose first command is in PairFirst, with exit status class and the world after each command.
   The driver builds W0 with the real commands on a real gateway (web server + client + storage servers in one
   process), runs the command lines, and lists both aliases recursively after each. *)
EXTENDS CliCommands, Json, IOUtils, SequencesExt

CONSTANT PairFirst     \* the commands that may come first in a script of two

TE == {[name |-> <<"t">>, cap |-> "ET"], [name |-> <<"a">>, cap |-> "EA"]}
AliasNames == {<<"t">>, <<"a">>}
Ent(al, path, kind) == [alias |-> al, path |-> path, kind |-> kind]
W0 == {Ent(<<"t">>, <<<<"e">>>>, "file"), Ent(<<"t">>, <<<<"a">>>>, "dir"), Ent(<<"t">>, <<<<"a">>, <<"e">>>>, "file"),
       Ent(<<"a">>, <<<<"U">>>>, "dir")}

At(W, al, p) == {x \in W : x.alias = al /\ x.path = p}
KindAt(W, al, p) == IF p = <<>> THEN "dir" ELSE IF At(W, al, p) = {} THEN "none" ELSE (CHOOSE x \in At(W, al, p) : TRUE).kind
ProperPrefixes(p) == {SubSeq(p, 1, k) : k \in 1..(Len(p) - 1)}
StartsWithPath(p, q) == Len(p) <= Len(q) /\ SubSeq(q, 1, Len(p)) = p
WayClear(W, al, p) == \A pre \in ProperPrefixes(p) : KindAt(W, al, pre) \in {"dir", "none"}
WithDirs(W, al, ps) == W \cup {Ent(al, pre, "dir") : pre \in {x \in ps : KindAt(W, al, x) = "none"}}

\* does the gateway answer 2xx, and the world afterwards
Answer(W, q) ==
  LET al == q.root.name  p == q.segs IN
  IF q.root.t = "none" THEN [ok |-> TRUE, W |-> W]                                   \* POST /uri?t=mkdir, PUT /uri: nothing is linked
  ELSE IF q.method = "GET" THEN [ok |-> KindAt(W, al, p) # "none", W |-> W]
  ELSE IF q.method = "DELETE" THEN [ok |-> p # <<>> /\ KindAt(W, al, p) # "none", W |-> {x \in W : ~(x.alias = al /\ StartsWithPath(p, x.path))}]
  ELSE IF q.method = "POST" THEN                                                      \* t=mkdir
       [ok |-> WayClear(W, al, p) /\ KindAt(W, al, p) # "file", W |-> WithDirs(W, al, ProperPrefixes(p) \cup {p})]
  ELSE [ok |-> p # <<>> /\ WayClear(W, al, p) /\ KindAt(W, al, p) # "dir",           \* PUT of a file, PUT ?t=uri&replace=only-files of a file cap
        W |-> (WithDirs(W, al, ProperPrefixes(p)) \ At(W, al, p)) \cup {Ent(al, p, "file")}]

\* the first request (in the order the command makes them) that the gateway refuses: 0 if none
RECURSIVE FirstRefused(_, _, _)
FirstRefused(W, reqs, k) ==
  IF k > Len(reqs) THEN 0
  ELSE LET a == Answer(W, reqs[k]) IN IF a.ok THEN FirstRefused(a.W, reqs, k + 1) ELSE k
RECURSIVE Apply(_, _, _)
Apply(W, reqs, n) == IF n = 0 THEN W ELSE Answer(Apply(W, reqs, n - 1), reqs[n]).W

E2EStep(W, i) ==
  LET plan == Invoke([i EXCEPT !.sc = 0], TE)
      k == FirstRefused(W, plan.reqs, 1)
      o == IF k = 0 THEN plan ELSE Invoke([i EXCEPT !.sc = k], TE) IN
  [rc |-> o.rc, open |-> plan.open, refused |-> k, W |-> IF plan.open # "" THEN W ELSE Apply(W, plan.reqs, IF k = 0 THEN Len(plan.reqs) ELSE k - 1)]

Inv(cmd, given, arg, arg2) == [cmd |-> cmd, given |-> given, arg |-> arg, arg2 |-> arg2, fmt |-> "", mutable |-> FALSE, jk |-> "ro", sc |-> 0, tbl |-> "TE"]
I1(cmd, arg) == Inv(cmd, TRUE, arg, <<>>)
Universe ==
       {Inv("ls", FALSE, <<>>, <<>>), Inv("mkdir", FALSE, <<>>, <<>>), Inv("put", FALSE, <<>>, <<>>)}
  \cup {I1("ls", x) : x \in {<<"/">>, <<"t", ":">>, <<"t", ":", "/">>, <<"a">>, <<"a", "/">>, <<"a", "/", "e">>, <<"t", ":", "a", "/", "e">>, <<"a", ":">>,
                             <<"a", ":", "U">>, <<"e", ":">>, <<"U">>}}
  \cup {I1("mkdir", x) : x \in {<<"U">>, <<"/", "U">>, <<"a", "/", "t">>, <<"a", ":", "e", "/", "a">>, <<"a", ":", "U", "/">>, <<"e", "/", "a">>, <<"t", ":", "t", "/">>}}
  \cup {I1("put", x) : x \in {<<"U">>, <<"t", ":", "U">>, <<"a", "/", "U">>, <<"a", ":", "e">>, <<"/", "U">>, <<"e">>, <<"a">>, <<"a", ":", "t", "/", "e">>}}
  \cup {I1("get", x) : x \in {<<"e">>, <<"t", ":", "a", "/", "e">>, <<"U">>, <<"e", ":", "e">>}}
  \cup {I1("unlink", x) : x \in {<<"e">>, <<"t", ":", "a", "/", "e">>, <<"a">>, <<"t", ":">>, <<"U">>, <<"a", ":", "U">>}}
  \cup {Inv(cmd, TRUE, f, d) : cmd \in {"mv", "ln"}, f \in {<<"e">>, <<"t", ":", "a", "/", "e">>},
                               d \in {<<"a", ":">>, <<"a", ":", "e">>, <<"a", ":", "U", "/">>, <<"a">>, <<"U">>, <<"a", "/">>, <<"a", ":", "t", "/", "U">>}}
  \cup {Inv("mv", TRUE, <<"U">>, <<"a", ":">>), Inv("mv", TRUE, <<"e">>, <<"e", ":", "a">>)}

RECURSIVE RunAll(_, _)
RunAll(W, is) == IF is = <<>> THEN <<>> ELSE LET s == E2EStep(W, Head(is)) IN <<[s EXCEPT !.W = SetToSeq(s.W)]>> \o RunAll(s.W, Tail(is))
Scripts == {<<x>> : x \in Universe} \cup {<<x, y>> : x \in {u \in Universe : u.cmd \in PairFirst}, y \in Universe}
Cases == {[world |-> [aliases |-> SetToSeq(AliasNames), entries |-> SetToSeq(W0)], cmds |-> is, steps |-> RunAll(W0, is)] : is \in Scripts}

ASSUME ndJsonSerialize(IOEnv.OUT_FILE, SetToSeq(Cases))

VARIABLE c
Init == c \in Cases
Next == UNCHANGED c
Spec == Init /\ [][Next]_c

SetOf(sq) == {sq[i] : i \in 1..Len(sq)}
WBefore(k) == IF k = 1 THEN W0 ELSE SetOf(c.steps[k - 1].W)
WAfter(k) == SetOf(c.steps[k].W)
Judged(k) == c.steps[k].open = ""
Ks == 1..Len(c.steps)
\* a world is a tree: every entry hangs in directories
EE_Tree == \A k \in Ks : \A x \in WAfter(k) : \A pre \in ProperPrefixes(x.path) : KindAt(WAfter(k), x.alias, pre) = "dir"
\* a command that fails changes nothing, except that a move may have made the new link before failing to remove the old one
EE_FailureKeeps == \A k \in Ks : (Judged(k) /\ c.steps[k].rc = "nonzero" /\ ~(c.cmds[k].cmd = "mv" /\ c.steps[k].refused = 3)) => WAfter(k) = WBefore(k)
\* ls and get change nothing
EE_ReadsPure == \A k \in Ks : c.cmds[k].cmd \in {"ls", "get"} => WAfter(k) = WBefore(k)
\* mv: the number of files stays, ln adds one link, unlink never adds, mkdir / put never remove
EE_Counts ==
  \A k \in Ks : (Judged(k) /\ c.steps[k].rc = "zero") =>
     LET files(W) == Cardinality({x \in W : x.kind = "file"}) IN
     CASE c.cmds[k].cmd = "mv" -> files(WAfter(k)) <= files(WBefore(k))
       [] c.cmds[k].cmd = "ln" -> files(WAfter(k)) \in {files(WBefore(k)), files(WBefore(k)) + 1}
       [] c.cmds[k].cmd = "unlink" -> WAfter(k) \subseteq WBefore(k) /\ WAfter(k) # WBefore(k)
       [] c.cmds[k].cmd \in {"mkdir", "put"} -> WBefore(k) \subseteq WAfter(k) \/ c.cmds[k].cmd = "put"
       [] OTHER -> TRUE
\* the documented spellings of one command do one thing
ASSUME /\ E2EStep(W0, I1("mkdir", <<"U">>)).W = E2EStep(W0, I1("mkdir", <<"/", "U">>)).W
       /\ Ent(<<"t">>, <<<<"U">>>>, "dir") \in E2EStep(W0, I1("mkdir", <<"/", "U">>)).W
       /\ E2EStep(W0, Inv("mv", TRUE, <<"e">>, <<"a", ":">>)).W = E2EStep(W0, Inv("mv", TRUE, <<"t", ":", "e">>, <<"a", ":", "e">>)).W
       /\ E2EStep(W0, Inv("mv", TRUE, <<"e">>, <<"a", ":">>)).W = (W0 \ {Ent(<<"t">>, <<<<"e">>>>, "file")}) \cup {Ent(<<"a">>, <<<<"e">>>>, "file")}
=============================================================================
