------------------------- MODULE TraceSftpHandles -------------------------
(* Trace validation of the real SFTP frontend (allmydata.frontends.sftpd.SFTPUserHandler with its
   GeneralSFTPFile / ShortReadOnlySFTPFile handles on a real directory tree, driven by
   harness/sftp_handles_driver.py) against SftpHandles.tla.

   One event = one SFTP request with its (abstracted) answer, in the order in which the requests were SENT.
   `piped` says that an earlier request had not been answered yet when this one was sent; by the draft's
   ordering rule the answers must be those of the one-at-a-time history, so both kinds of histories are judged
   by the same sequential operators.  An event may carry `obs`: the user's directory and the mutable files as
   read back from the grid (not through SFTP) at a moment when no request was outstanding.

     Open p F h            res [st]
     Read h off len        res [st, data]           Write h off data   res [st]
     SetSize h n           res [st]                 FStat h            res [st, type, size, w]
     Close h               res [st]
     Stat p                res [st, type, size, w]  Opendir p          res [st, listing]
     Rename p p2 ow        Remove p / Rmdir p / Mkdir p                res [st]

   st: ok / eof / nosuch / denied / failure / badmsg / unsupported / hang (never answered) / exc:<type>.
   The verdict of an event is the name of the first clause that fails ("" = accepted).
   consts.sizerule = "contract" | "code": see SftpHandles!Commits (a trace rejected with the suffix
   @setsize_not_a_change is validated a second time under "code" so that its remainder is still checked).
   consts.tolerate: clause names that a second pass steps over (the deviation has been reported by the first
   pass; the trace goes on from the state the Spec expects, so a known answer-only deviation cannot hide a
   later one). *)
EXTENDS SftpHandles, Json, IOUtils, TLCExt

Traces == JsonDeserialize(IOEnv.TRACE_FILE)

VARIABLES tid, l, S, bad
tvars == <<tid, l, S, bad>>

Consts == Traces[tid].consts
Events == Traces[tid].events
Ev == Events[l]

\* verdict: c = clause ("" = accepted), s = the state to go on with, t = the state the Spec expects after the
\* request (used when a second pass tolerates clause c, see TraceNext)
V(c, s) == [c |-> c, s |-> s, t |-> s]
VT(c, s, t) == [c |-> c, s |-> s, t |-> t]

\* clause names stay short: TLC prints the verdict tuple on one line only up to 80 characters
StClause(ev, exp, got) == "SH_" \o ev \o ":exp_" \o exp \o ":got_" \o got

\* the grid as read back, against the state the Spec expects
EntryDiff(x, y) ==
  IF x.kind # y.kind THEN "exp_" \o x.kind \o "_got_" \o y.kind
  ELSE IF x.fid # y.fid THEN "other_mutable_file"
  ELSE IF x.c # y.c THEN "contents"
  ELSE "no_write_flag"

ObsClause(ev, s, obs) ==
  IF \E n \in DOMAIN s.dir : s.dir[n] # obs.dir[n]
    THEN LET n == CHOOSE m \in DOMAIN s.dir : s.dir[m] # obs.dir[m]
         IN "SH_" \o ev \o "_ns:" \o n \o ":" \o EntryDiff(s.dir[n], obs.dir[n])
  ELSE IF \E f \in DOMAIN s.mut : s.mut[f] # obs.mut[f] THEN "SH_" \o ev \o "_ns:" \o (CHOOSE f \in DOMAIN s.mut : s.mut[f] # obs.mut[f]) \o ":mutable_contents"
  ELSE ""

ObsOK(s, obs) == ObsClause("x", s, obs) = ""

\* accept the next state if the answer is the expected one and the grid (when observed) is as expected
Judge(ev, e, exp, s1) ==
  IF e.res.st # exp THEN VT(StClause(ev, exp, e.res.st), S, s1)
  ELSE IF e.obs.present /\ ~ObsOK(s1, e.obs) THEN VT(ObsClause(ev, s1, e.obs), S, s1)
  ELSE V("", s1)

VOpen(e) ==
  LET F == ToSet(e.F) IN
  IF UnspecifiedOpen(S, e.p, F) THEN V("harness_unspecified_input", S)
  ELSE IF S.h[e.h].st = "open" THEN V("harness_handle_reused", S)
  ELSE Judge("Open", e, OpenRes(S, e.p, F).st, Open(S, e.p, F, e.h))

VRead(e) ==
  LET exp == ReadRes(S, e.h, e.off, e.len) IN
  IF e.res.st # exp.st THEN V(StClause("Read", exp.st, e.res.st), S)
  ELSE IF exp.st = "ok" /\ e.res.data # exp.data THEN V("SH_Read_data", S)
  ELSE V("", S)

VWrite(e) == Judge("Write", e, WriteRes(S, e.h).st, Write(S, e.h, e.off, e.data))
VSetSize(e) == Judge("SetSize", e, WriteRes(S, e.h).st, FSetSize(S, e.h, e.n))

AttrOf(r) == AT(r.st, r.type, r.size, r.w)

VFStat(e) ==
  LET exp == FStatRes(S, e.h) IN
  IF e.res.st # exp.st THEN V(StClause("FStat", exp.st, e.res.st), S)
  ELSE IF exp.st = "ok" /\ AttrOf(e.res) # exp
         THEN V(IF e.res.size # exp.size THEN "SH_FStat_size" ELSE "SH_FStat_attrs", S)
  ELSE V("", S)

(* close: under "contract" a change of size alone must be committed; if the grid shows exactly the state in
   which it was not (and the handle's only change was its size), the cause is named in the clause *)
VClose(e) ==
  LET s1 == CloseH(S, e.h, Consts.sizerule)
      sc == CloseH(S, e.h, "code")
      v  == Judge("Close", e, CloseHRes(S, e.h).st, s1)
  IN IF v.c # "" /\ e.res.st = "ok" /\ e.obs.present /\ Consts.sizerule = "contract"
        /\ S.h[e.h].szchg /\ ~S.h[e.h].changed /\ ObsOK(sc, e.obs)
       THEN V("SH_Close_ns:lost@setsize_not_a_change", S)
     ELSE v

VStat(e) ==
  LET exp == StatRes(S, e.p)
      sts == {x.st : x \in exp}
      one == CHOOSE x \in exp : TRUE
  IN IF e.res.st \notin sts THEN V(StClause("Stat", one.st, e.res.st), S)
     ELSE IF e.res.st = "ok" /\ AttrOf(e.res) \notin exp
            THEN V(IF e.res.type # one.type THEN "SH_Stat_type"
                   ELSE IF e.res.size \notin {x.size : x \in exp} THEN "SH_Stat_size" ELSE "SH_Stat_writable", S)
     ELSE V("", S)

VRename(e) == Judge(IF e.ow THEN "PosixRename" ELSE "Rename", e, RenameRes(S, e.p, e.p2, e.ow).st, Rename(S, e.p, e.p2, e.ow))
VRemove(e) == Judge("Remove", e, RemoveRes(S, e.p).st, Remove(S, e.p))
VRmdir(e) == Judge("Rmdir", e, RmdirRes(S, e.p).st, Rmdir(S, e.p))
VMkdir(e) ==
  IF MkdirRes(S, e.p).st = "unspecified" THEN V("harness_unspecified_input", S)
  ELSE Judge("Mkdir", e, MkdirRes(S, e.p).st, Mkdir(S, e.p))

VOpendir(e) ==
  LET exp == OpendirRes(S, e.p) IN
  IF e.res.st # exp.st THEN V(StClause("Opendir", exp.st, e.res.st), S)
  ELSE IF exp.st = "ok" /\ ~ListingOK(S, e.p, e.res.listing) THEN V("SH_Opendir_listing", S)
  ELSE V("", S)

\* the observation that comes with a request that must not change anything
VQuiet(v, ev, e) ==
  IF v.c = "" /\ e.obs.present /\ ~ObsOK(S, e.obs) THEN V(ObsClause(ev, S, e.obs), S) ELSE v

Verdict(e) ==
  CASE e.ev = "Open"    -> VOpen(e)
    [] e.ev = "Read"    -> VQuiet(VRead(e), "Read", e)
    [] e.ev = "Write"   -> VWrite(e)
    [] e.ev = "SetSize" -> VSetSize(e)
    [] e.ev = "FStat"   -> VQuiet(VFStat(e), "FStat", e)
    [] e.ev = "Close"   -> VClose(e)
    [] e.ev = "Stat"    -> VQuiet(VStat(e), "Stat", e)
    [] e.ev = "Rename"  -> VRename(e)
    [] e.ev = "Remove"  -> VRemove(e)
    [] e.ev = "Rmdir"   -> VRmdir(e)
    [] e.ev = "Mkdir"   -> VMkdir(e)
    [] e.ev = "Opendir" -> VQuiet(VOpendir(e), "Opendir", e)
    [] OTHER            -> V("unknown_event", S)

TraceInit ==
  /\ tid \in 1..Len(Traces)
  /\ l = 1
  /\ S = InitSH(Traces[tid].consts.dir, Traces[tid].consts.mut, Traces[tid].consts.ro, Traces[tid].consts.uri,
                ToSet(Traces[tid].consts.handles))
  /\ bad = "none"

TraceNext ==
  /\ bad = "none"
  /\ l <= Len(Events)
  /\ LET v == Verdict(Ev)
         c == IF v.c # "" THEN v.c
              ELSE IF ~StateOK(v.s) THEN "StateOK"
              ELSE ""
     IN IF c = "" \/ c \in ToSet(Consts.tolerate)
          THEN /\ S' = IF c = "" THEN v.s ELSE v.t
               /\ l' = l + 1 /\ bad' = "none"
               /\ (c # "" => PrintT(<<"VF_NOTE", tid, l, "tolerated_in_second_pass">>))
               /\ (l = Len(Events) => PrintT(<<"VF_ACCEPT", tid, l>>))
          ELSE /\ bad' = c /\ UNCHANGED <<S, l>>
               /\ PrintT(<<"VF_REJECT", tid, l, c>>)
  /\ UNCHANGED tid

TraceSpec == TraceInit /\ [][TraceNext]_tvars
TraceOK == bad = "none"
=============================================================================
