------------------------------- MODULE CliCp -------------------------------
(* X-cli_cp -- what `tahoe cp` does to the two file systems it copies between.

   Sources of the statement:
     [CLI]   docs/frontends/CLI.rst, "tahoe cp" examples and the five bullets below them ("Trailing slashes indicate
             directories, but are not required" ... "It is not possible to copy an unnamed file (e.g. a raw filecap) into a
             directory"), and "tahoe cp -r unlinks the previous version from the grid directory and links the new version
             into place".
     [HELP]  scripts/cli.py CpOptions (the text of `tahoe cp --help`): "-r Copy source directory recursively", "--caps-only
             When copying to local files, write out filecaps instead of actual data", "Arguments should not have trailing
             slashes (they are ignored for directory arguments, but trigger errors for file arguments)", "source directories
             with names are referring to the directory as a whole, and source directories without names (e.g. a raw dircap)
             are referring to the contents".
     [CODE]  the comments of scripts/tahoe_cp.py: try_copy ("if any source is a directory, must use -r ... if target is
             directory, sources must be named or a dir"), copy_things_to_directory ("step one: if the target is missing, we
             should mkdir it ... target name collisions are an error"), TahoeDirectoryTarget.put_file ("Check to see if we
             already have a mutable file by this name.  If so, overwrite that file in place" / "this always creates immutable
             files"), need_to_copy_bytes ("mutable tahoe files, and local files"), and the list at the end of the file
             ("error cases that need improvement" = a file in the way of a directory).

   The two file systems are trees: a function from non-empty paths (sequences of names) to nodes; the root (<<>>) is a
   directory that always exists (local: the directory the command is run in; grid: the directory of the alias `tahoe:`).
   A node is a directory or a file with a content identifier; a grid file may be mutable, then it also has an identity `o`
   (writing it "in place" keeps `o`).  A world is [L |-> local tree, G |-> grid tree].

   An argument is [side, p, named, slash, form]: the object at path p of that side; `named` = the argument gives the object a
   name (a local path, ALIAS:path, DIRCAP/path), not named = a bare capability or a bare `ALIAS:`; `slash` = written with a
   trailing slash; `form` = which of the equivalent spellings is used (no influence here).

   Cp(W, a) = [expect, errs, L, G, maydirs, why]:
     expect = "ok"      the command succeeds and the world afterwards is [L, G];
              "error"   the command fails with one of the error classes `errs` (every documented rule the arguments break:
                        which one is reported first is not part of the statement) and no file changes; directories `maydirs`
                        of the target side may have been made (name collisions are found after "step one" and "step three");
              "unspec"  the documents do not say (a file where a directory is needed or the reverse, copying a tree into
                        itself or a file onto itself): executed, not judged (`why`).
   The operators follow the code's steps: TgtKind / SrcKind (get_target_info, get_source_info), UsageErrs (try_copy),
   FileToFile (copy_file_to_file), Items (build_targetmap / assign_targets), Collide,
   ThingsToDirectory (copy_things_to_directory / copy_to_targetmap). *)
EXTENDS Common

DirNode == [k |-> "dir", c |-> "", mu |-> FALSE, o |-> ""]
FileNode(c) == [k |-> "file", c |-> c, mu |-> FALSE, o |-> ""]
MutNode(c, o) == [k |-> "file", c |-> c, mu |-> TRUE, o |-> o]

Parent(p) == SubSeq(p, 1, Len(p) - 1)
LastName(p) == p[Len(p)]
Rel(p, q) == SubSeq(q, Len(p) + 1, Len(q))
KindAt(T, p) == IF p = <<>> THEN "dir" ELSE IF p \in DOMAIN T THEN T[p].k ELSE "missing"
NodeAt(T, p) == IF p = <<>> THEN DirNode ELSE T[p]
Below(T, p) == {q \in DOMAIN T : Len(q) > Len(p) /\ IsPrefixOf(p, q)}
WellFormed(T) == \A p \in DOMAIN T : p # <<>> /\ KindAt(T, Parent(p)) = "dir"
                                     /\ (T[p].k = "dir" => T[p] = DirNode) /\ (T[p].mu <=> T[p].o # "")
Side(W, s) == IF s = "local" THEN W.L ELSE W.G
WithSide(W, s, T) == IF s = "local" THEN [W EXCEPT !.L = T] ELSE [W EXCEPT !.G = T]

RECURSIVE PathStr(_)
PathStr(p) == IF p = <<>> THEN "" ELSE IF Len(p) = 1 THEN p[1] ELSE p[1] \o "/" \o PathStr(Tail(p))

(* ---- classification ---------------------------------------------------------------------------------- *)
TgtKind(W, t) == KindAt(Side(W, t.side), t.p)           \* "dir" | "file" | "missing"   (get_target_info)
SrcKind(W, s) == KindAt(Side(W, s.side), s.p)           \* "dir" | "file" | "missing"   (get_source_info)
SrcKinds(W, a) == [i \in 1..Len(a.srcs) |-> SrcKind(W, a.srcs[i])]

\* try_copy: "if target is missing: if source is a single file, target will be a file, else target will be a directory"
TargetIsFile(W, a) ==
  LET tk == TgtKind(W, a.tgt) IN
  tk = "file" \/ (tk = "missing" /\ Len(a.srcs) = 1 /\ SrcKind(W, a.srcs[1]) = "file")

(* ---- what goes where when the target is a directory (build_targetmap / assign_targets) ------------------ *)
\* an item: source number, side and path it is read from, path of the target side it goes to, the node
ItemsOf(W, a, i) ==
  LET s == a.srcs[i]
      ST == Side(W, s.side)
      T == a.tgt.p
      it(sp, dp) == [i |-> i, side |-> s.side, sp |-> sp, dp |-> dp, n |-> NodeAt(ST, sp)]
  IN CASE KindAt(ST, s.p) = "file" -> IF s.named THEN {it(s.p, T \o <<LastName(s.p)>>)} ELSE {}
       [] KindAt(ST, s.p) = "dir" ->
            \* "named sources get a new directory", "unnamed sources have their contents copied directly"
            LET base == IF s.named THEN T \o <<LastName(s.p)>> ELSE T
            IN (IF s.named THEN {it(s.p, base)} ELSE {}) \cup {it(q, base \o Rel(s.p, q)) : q \in Below(ST, s.p)}
       [] OTHER -> {}
Items(W, a) == UNION {ItemsOf(W, a, i) : i \in 1..Len(a.srcs)}
\* (the operators below take the set of items `its` = Items(W, a), so that it is computed once)
FilesOf(its) == {x \in its : x.n.k = "file"}
DirDestsOf(its) == {x.dp : x \in {y \in its : y.n.k = "dir"}}

\* "target name collisions are an error": two files that would get the same name in the same target directory
Collide(its) == LET FI == FilesOf(its) IN Cardinality({x.dp : x \in FI}) # Cardinality(FI)

(* ---- the rules the arguments can break (try_copy; [CLI] bullets) ---------------------------------------- *)
UsageErrs(W, a) ==
  LET n == Len(a.srcs)
      sk == SrcKinds(W, a)
      tk == TgtKind(W, a.tgt)
      tf == TargetIsFile(W, a)
      missing == IF \E i \in 1..n : sk[i] = "missing" THEN {"E_MISSING"} ELSE {}
      srcslash == IF \E i \in 1..n : sk[i] = "file" /\ a.srcs[i].slash THEN {"E_SRCSLASH"} ELSE {}
      filetgtslash == IF tk = "file" /\ a.tgt.slash THEN {"E_TGTSLASH"} ELSE {}
  IN IF missing # {} THEN missing \cup srcslash \cup filetgtslash     \* nothing else can be said about a source that does not exist
     ELSE srcslash
          \cup (IF ~a.r /\ \E i \in 1..n : sk[i] = "dir" THEN {"E_NEEDR"} ELSE {})
          \cup (IF tf /\ a.tgt.slash THEN {"E_TGTSLASH"} ELSE {})
          \cup (IF tf /\ n > 1 THEN {"E_MANYONE"} ELSE {})
          \cup (IF tf /\ n = 1 /\ sk[1] = "dir" THEN {"E_DIRTOFILE"} ELSE {})
          \cup (IF ~tf /\ \E i \in 1..n : sk[i] = "file" /\ ~a.srcs[i].named THEN {"E_UNNAMED"} ELSE {})

(* ---- contents that arrive ---------------------------------------------------------------------------- *)
\* --caps-only: "When copying to local files, write out filecaps instead of actual data"
CapOf(n) == "cap:" \o (IF n.mu THEN n.o ELSE n.c)
Arrives(a, fromside, n) == IF a.caps /\ a.tgt.side = "local" /\ fromside = "grid" THEN CapOf(n) ELSE n.c

\* one file written at path q of tree T: an existing mutable file of the grid is overwritten in place, anything else becomes
\* (is replaced by) a new immutable file
Written(T, q, c) == IF q \in DOMAIN T /\ T[q].k = "file" /\ T[q].mu THEN [T[q] EXCEPT !.c = c] ELSE FileNode(c)

(* ---- the undocumented corners ------------------------------------------------------------------------- *)
\* reading and writing the same file, or making the target inside a directory that is being copied
OverlapFile(W, a) == a.srcs[1].side = a.tgt.side /\ a.srcs[1].p = a.tgt.p
OverlapDir(W, a, its) ==
  \/ LET FI == FilesOf(its) dests == {y.dp : y \in FI} IN \E x \in FI : x.side = a.tgt.side /\ x.sp \in dests
  \/ \E i \in 1..Len(a.srcs) : /\ a.srcs[i].side = a.tgt.side /\ SrcKind(W, a.srcs[i]) = "dir"
                               /\ IsPrefixOf(a.srcs[i].p, a.tgt.p)
\* a file where a directory is needed, a directory where a file is to be written
InTheWay(W, a, its) ==
  LET TT == Side(W, a.tgt.side) DD == DirDestsOf(its) IN
  \/ \E x \in FilesOf(its) : x.dp \in DD \/ KindAt(TT, x.dp) = "dir"
  \/ \E d \in DD : KindAt(TT, d) = "file"

(* ---- the two ways of copying ---------------------------------------------------------------------------- *)
FileToFile(W, a) ==           \* copy_file_to_file: the target is (or becomes) a file
  LET s == a.srcs[1]
      TT == Side(W, a.tgt.side)
      c == Arrives(a, s.side, NodeAt(Side(W, s.side), s.p))
  IN [q \in DOMAIN TT \cup {a.tgt.p} |-> IF q = a.tgt.p THEN Written(TT, q, c) ELSE TT[q]]

NewDirs(W, a, its) ==         \* maybe_create_target + get_child_target
  LET TT == Side(W, a.tgt.side) IN {d \in {a.tgt.p} \cup DirDestsOf(its) : KindAt(TT, d) = "missing"}

ThingsToDirectory(W, a, its) ==    \* copy_things_to_directory
  LET TT == Side(W, a.tgt.side)
      FI == FilesOf(its)
      fdest == {x.dp : x \in FI}
      src(q) == CHOOSE x \in FI : x.dp = q
  IN [q \in DOMAIN TT \cup NewDirs(W, a, its) \cup fdest |->
        IF q \in fdest THEN Written(TT, q, Arrives(a, src(q).side, src(q).n))
        ELSE IF q \in DOMAIN TT THEN TT[q] ELSE DirNode]

Answer(ex, errs, W, maydirs, why) == [expect |-> ex, errs |-> errs, L |-> W.L, G |-> W.G, maydirs |-> maydirs, why |-> why]

Cp(W, a) ==
  LET ue == UsageErrs(W, a)
      ts == a.tgt.side
  IN IF ue # {} THEN Answer("error", ue, W, {}, "")
     ELSE IF TargetIsFile(W, a)
          THEN IF OverlapFile(W, a) THEN Answer("unspec", {}, W, {}, "file onto itself")
               ELSE Answer("ok", {}, WithSide(W, ts, FileToFile(W, a)), {}, "")
     ELSE LET its == Items(W, a) IN
          IF InTheWay(W, a, its) THEN Answer("unspec", {}, W, {}, "file or directory in the way")
          ELSE IF OverlapDir(W, a, its) THEN Answer("unspec", {}, W, {}, "source and target overlap")
          ELSE IF Collide(its) THEN Answer("error", {"E_COLLIDE"}, W, NewDirs(W, a, its), "")
          ELSE Answer("ok", {}, WithSide(W, ts, ThingsToDirectory(W, a, its)), {}, "")

(* ======================================================================================================== *)
(* The documented rules again, over (world, arguments, answer) -- without the operators above.               *)
(* r = Cp(W, a); each clause names its source.                                                               *)
(* ======================================================================================================== *)
AllExist(W, a) == \A i \in 1..Len(a.srcs) : KindAt(Side(W, a.srcs[i].side), a.srcs[i].p) # "missing"
IsDirSrc(W, s) == KindAt(Side(W, s.side), s.p) = "dir"
IsFileSrc(W, s) == KindAt(Side(W, s.side), s.p) = "file"
After(r, side) == IF side = "local" THEN r.L ELSE r.G
Judged(r) == r.expect # "unspec"

\* [HELP] -r "Copy source directory recursively"; [CODE] "if any source is a directory, must use -r"
CP_NeedsRecursive(W, a, r) ==
  (AllExist(W, a) /\ ~a.r /\ \E i \in 1..Len(a.srcs) : IsDirSrc(W, a.srcs[i])) => r.expect = "error"

\* a source that does not exist cannot be copied
CP_MissingSource(W, a, r) == ~AllExist(W, a) => r.expect = "error"

\* an error (and an unjudged corner) never describes a changed world
CP_ErrorChangesNothing(W, a, r) == r.expect # "ok" => (r.L = W.L /\ r.G = W.G)

\* [CLI] "If the target object does not already exist: and if the source is a single file, it will be copied into the target"
CP_MissingTargetOneFile(W, a, r) ==
  LET s == a.srcs[1] TT == Side(W, a.tgt.side) IN
  (Len(a.srcs) = 1 /\ IsFileSrc(W, s) /\ ~s.slash /\ ~a.tgt.slash /\ KindAt(TT, a.tgt.p) = "missing")
  => /\ r.expect = "ok"
     /\ KindAt(After(r, a.tgt.side), a.tgt.p) = "file"
     /\ (~a.caps => After(r, a.tgt.side)[a.tgt.p].c = NodeAt(Side(W, s.side), s.p).c)
     /\ \A q \in DOMAIN TT : After(r, a.tgt.side)[q] = TT[q]
     /\ DOMAIN After(r, a.tgt.side) = DOMAIN TT \cup {a.tgt.p}

\* [CLI] "otherwise, the target will be created as a directory"
CP_MissingTargetElseDirectory(W, a, r) ==
  (r.expect = "ok" /\ KindAt(Side(W, a.tgt.side), a.tgt.p) = "missing" /\ ~(Len(a.srcs) = 1 /\ IsFileSrc(W, a.srcs[1])))
  => KindAt(After(r, a.tgt.side), a.tgt.p) = "dir"

\* [CLI] "If there are multiple sources, the target must be a directory."
CP_ManyNeedDirectory(W, a, r) ==
  (Len(a.srcs) > 1 /\ KindAt(Side(W, a.tgt.side), a.tgt.p) = "file") => r.expect = "error"

\* [CLI] "If the target is a pre-existing file, the source must be a single file."
CP_FileTargetOneFile(W, a, r) ==
  (KindAt(Side(W, a.tgt.side), a.tgt.p) = "file" /\ ~(Len(a.srcs) = 1 /\ IsFileSrc(W, a.srcs[1]))) => r.expect = "error"

\* [CLI] "It is not possible to copy an unnamed file (e.g. a raw filecap) into a directory"
CP_UnnamedFileIntoDirectory(W, a, r) ==
  (KindAt(Side(W, a.tgt.side), a.tgt.p) = "dir" /\ \E i \in 1..Len(a.srcs) : IsFileSrc(W, a.srcs[i]) /\ ~a.srcs[i].named)
  => r.expect = "error"

\* [HELP] trailing slashes "are ignored for directory arguments, but trigger errors for file arguments";
\* [CLI] "Trailing slashes indicate directories, but are not required."
NoDirSlash(W, a) ==
  [a EXCEPT !.srcs = [i \in 1..Len(a.srcs) |-> IF IsDirSrc(W, a.srcs[i]) THEN [a.srcs[i] EXCEPT !.slash = FALSE] ELSE a.srcs[i]],
            !.tgt = IF KindAt(Side(W, a.tgt.side), a.tgt.p) = "dir" THEN [a.tgt EXCEPT !.slash = FALSE] ELSE a.tgt]
CP_SlashOnFile(W, a, r) ==
  (AllExist(W, a) /\ (\/ \E i \in 1..Len(a.srcs) : IsFileSrc(W, a.srcs[i]) /\ a.srcs[i].slash
                      \/ KindAt(Side(W, a.tgt.side), a.tgt.p) = "file" /\ a.tgt.slash)) => r.expect = "error"
CP_SlashOnDirectoryIgnored(W, a, r) == Cp(W, NoDirSlash(W, a)) = r

\* [HELP] "source directories with names are referring to the directory as a whole, and source directories without names
\* (e.g. a raw dircap) are referring to the contents"; [CLI] "all source arguments which are directories will be copied into
\* new subdirectories of the target"; a named file goes under its own name; empty directories are copied too
Dest(a, s, q) == IF s.named THEN a.tgt.p \o <<LastName(s.p)>> \o Rel(s.p, q) ELSE a.tgt.p \o Rel(s.p, q)
CP_EverythingArrives(W, a, r) ==
  (r.expect = "ok" /\ KindAt(After(r, a.tgt.side), a.tgt.p) = "dir") =>
    \A i \in 1..Len(a.srcs) :
      LET s == a.srcs[i] ST == Side(W, s.side) A == After(r, a.tgt.side) IN
      \A q \in {s.p} \cup Below(ST, s.p) :
        (q # <<>> /\ (q = s.p => s.named)) =>
          /\ KindAt(A, Dest(a, s, q)) = ST[q].k
          /\ (ST[q].k = "file" /\ ~a.caps) => A[Dest(a, s, q)].c = ST[q].c

\* nothing is ever removed, nothing outside the target changes, a copy does not change its sources
CP_Frame(W, a, r) ==
  r.expect = "ok" =>
    LET ts == a.tgt.side TT == Side(W, ts) A == After(r, ts) other == IF ts = "local" THEN "grid" ELSE "local" IN
    /\ After(r, other) = Side(W, other)
    /\ DOMAIN TT \subseteq DOMAIN A
    /\ \A q \in DOMAIN TT : (~IsPrefixOf(a.tgt.p, q) \/ TT[q].k = "dir") => A[q] = TT[q]
    /\ \A q \in DOMAIN A \ DOMAIN TT : IsPrefixOf(a.tgt.p, q)
    /\ \A i \in 1..Len(a.srcs) : a.srcs[i].side = ts =>
         \A q \in ({a.srcs[i].p} \ {<<>>}) \cup Below(TT, a.srcs[i].p) : A[q] = TT[q]
    /\ WellFormed(A)

\* [CODE] "Check to see if we already have a mutable file by this name.  If so, overwrite that file in place." /
\* "this always creates immutable files"; [CLI] "unlinks the previous version from the grid directory and links the new
\* version into place"
CP_MutableInPlace(W, a, r) ==
  (r.expect = "ok" /\ a.tgt.side = "grid") =>
    \A q \in DOMAIN r.G :
      \/ q \in DOMAIN W.G /\ r.G[q] = W.G[q]                                                       \* untouched
      \/ q \in DOMAIN W.G /\ W.G[q].mu /\ r.G[q].mu /\ r.G[q].o = W.G[q].o /\ r.G[q].k = "file"    \* in place
      \/ ~(q \in DOMAIN W.G /\ W.G[q].mu) /\ ~r.G[q].mu                                            \* new: immutable (or a directory)
CP_LocalFilesArePlain(W, a, r) == \A q \in DOMAIN r.L : ~r.L[q].mu

\* [HELP] --caps-only "When copying to local files, write out filecaps instead of actual data"
CP_CapsOnlyLocalTarget(W, a, r) ==
  (r.expect = "ok" /\ a.caps /\ a.tgt.side = "local") =>
    \A i \in 1..Len(a.srcs) :
      LET s == a.srcs[i] ST == Side(W, s.side) IN
      \A q \in ({s.p} \ {<<>>}) \cup Below(ST, s.p) :
        ST[q].k = "file" =>
          LET d == IF KindAt(r.L, a.tgt.p) = "file" THEN a.tgt.p ELSE Dest(a, s, q) IN
          r.L[d].c = IF s.side = "grid" THEN CapOf(ST[q]) ELSE ST[q].c
CP_CapsOnlyOnlyLocalTargets(W, a, r) ==
  (a.caps /\ a.tgt.side = "grid") => Cp(W, [a EXCEPT !.caps = FALSE]) = r

\* [CODE] "target name collisions are an error" (test_cp.py: "name collisions should cause errors, not overwrites")
CP_Collisions(W, a, r) ==
  (AllExist(W, a) /\ KindAt(Side(W, a.tgt.side), a.tgt.p) # "file" /\ Len(a.srcs) > 1 /\
   \E i, j \in 1..Len(a.srcs) : i # j /\ IsFileSrc(W, a.srcs[i]) /\ IsFileSrc(W, a.srcs[j]) /\ a.srcs[i].named /\ a.srcs[j].named
                                /\ LastName(a.srcs[i].p) = LastName(a.srcs[j].p))
  => r.expect # "ok"
=============================================================================
