----------------------------- MODULE TraceWebOps -----------------------------
(* Trace validation of the real web server (allmydata.web: Root / URIHandler /
   DirectoryNodeHandler / FileNodeHandler / PlaceHolderNodeHandler inside a real
   WebishServer on a real _Client on the SimGrid; harness/webops_driver.py)
   against WebOps.tla.  One event = one HTTP request served at a pinned time:

     q      the request in WebOps.tla's vocabulary (the driver renders it as HTTP)
     fresh  the identities the driver gives to directories / mutable files it has not
            seen before, in the order it meets them along the request's path
     code, out, redir, kind, body   the response: status, the object whose cap the body
            (or the Location of a redirect) carries, whether it redirects to when_done=,
            the first element of a t=json answer, the contents served by a GET
     obs    GET ?t=json of every directory known afterwards, imm the immutable ones,
     mf     contents (GET) and format (GET ?t=json) of every mutable file known afterwards

   Verdict per event = the first WO clause that fails on the observed step; then the
   status against the set the operator allows ("WO_code_<request>_<allowed>_got_<seen>"),
   the rest of the answer, and the listings / file contents against the operator's world. *)
EXTENDS WebOps, Json, IOUtils, TLCExt

Traces == JsonDeserialize(IOEnv.TRACE_FILE)

VARIABLES tid, l, S, bad
tvars == <<tid, l, S, bad>>

Events == Traces[tid].events
Ev == Events[l]

NormChild(c) == [id |-> c.id, type |-> c.type, w |-> c.w]
NormDir(o) == [n \in DOMAIN o |-> [child |-> NormChild(o[n].child), md |-> o[n].md, hasT |-> o[n].hasT, crt |-> o[n].crt, mot |-> o[n].mot]]
NormD(o) == [d \in DOMAIN o |-> NormDir(o[d])]
NormKids(k) == [i \in 1..Len(k) |-> [name |-> k[i].name, child |-> NormChild(k[i].child), md |-> k[i].md]]
NormMf(o) == [g \in DOMAIN o |-> [c |-> o[g].c, fmt |-> o[g].fmt]]
WorldOfJson(obs, imm, mf) == [D |-> NormD(obs), imm |-> ToSet(imm), mf |-> NormMf(mf)]

Req(q) == [op |-> q.op, method |-> q.method, d |-> q.d, via |-> q.via, path |-> q.path, name |-> q.name, replace |-> q.replace,
           overwrite |-> q.overwrite, format |-> q.format, content |-> q.content, kids |-> NormKids(q.kids), json |-> q.json,
           cap |-> NormChild(q.cap), to_d |-> q.to_d, to_via |-> q.to_via, to_path |-> q.to_path, to_name |-> q.to_name,
           when_done |-> q.when_done]
Observed(e) == [code |-> e.code, out |-> NormChild(e.out), redir |-> e.redir, kind |-> e.kind, body |-> e.body]

CodeName(codes) == CASE codes = OK -> "200" [] codes = Created -> "201" [] codes = Success -> "2xx" [] codes = Redirect -> "3xx"
                     [] codes = BadRequest -> "400" [] codes = NotFound -> "404" [] codes = Conflict -> "409" [] codes = Gone -> "410"
                     [] codes = ClientError -> "4xx" [] OTHER -> "other"

Verdict(e, W2) ==
  LET q  == Req(e.q)
      r  == Observed(e)
      x  == Serve(S, q, e.fresh, e.now)
      c  == WO_FirstFailing(S, W2, q, r, e.now)
  IN IF c # "" THEN c
     ELSE IF r.code \notin x.codes THEN "WO_code_" \o q.op \o "_" \o CodeName(x.codes) \o "_got_" \o ToString(r.code)
     ELSE IF r.redir # x.redir THEN "WO_redirect"
     ELSE IF r.out # x.out THEN "WO_returned_cap"
     ELSE IF r.kind # x.kind THEN "WO_json_kind"
     ELSE IF r.body # x.body THEN "WO_file_contents_served"
     ELSE IF W2.mf # x.W.mf THEN "WO_mutable_file_contents"
     ELSE IF W2.imm # x.W.imm THEN "WO_immutable_directories"
     ELSE IF DOMAIN W2.D # DOMAIN x.W.D THEN "WO_directories"
     ELSE IF W2.D # x.W.D THEN "WO_listing"
     ELSE ""

TraceInit ==
  /\ tid \in 1..Len(Traces)
  /\ l = 1
  /\ S = WorldOfJson(Traces[tid].consts.init.obs, Traces[tid].consts.init.imm, Traces[tid].consts.init.mf)
  /\ bad = "none"

TraceNext ==
  /\ bad = "none"
  /\ l <= Len(Events)
  /\ LET W2 == WorldOfJson(Ev.obs, Ev.imm, Ev.mf)
         c == Verdict(Ev, W2) IN
     IF c = ""
       THEN /\ S' = W2 /\ l' = l + 1 /\ bad' = "none"
            /\ (l = Len(Events) => PrintT(<<"VF_ACCEPT", tid, l>>))
       ELSE /\ bad' = c /\ UNCHANGED <<S, l>>
            /\ PrintT(<<"VF_REJECT", tid, l, c>>)
  /\ UNCHANGED tid

TraceSpec == TraceInit /\ [][TraceNext]_tvars
TraceOK == bad = "none"
=============================================================================
