------------------------ MODULE TraceSftpSessions ------------------------
(* C18 through the SFTP frontend: two sessions on one gateway share a directory - session A was
   logged in with the directory's write cap, session B with its read cap only.  Whatever B asks
   for that would change the directory (remove, rename, posix-rename, mkdir, open for writing,
   setAttrs) is refused AND changes nothing: in particular not the files that A has open for
   writing and has not closed yet (the gateway keeps those in a table shared by all sessions).

   The Spec is the ideal name map: D = name -> contents; A's handles H = h -> [name, buf];
     AOpen(h, name)      a new name (CREAT|WRITE|TRUNC): buf = <<>>; an existing mutable child (WRITE): buf = its contents
     AWrite(h, off, d)   buf := buf with d at off (a gap is filled with zeros)
     AClose(h)           D[name] := buf
     BOp(...)            no effect; its status must not be "ok"
     Final(listing)      the directory read back through a fresh node = D
   harness/sftp_sessions_driver.py records one event per request with its status class. *)
EXTENDS Common, Json, IOUtils, TLCExt

Traces == JsonDeserialize(IOEnv.TRACE_FILE)

VARIABLES tid, l, D, H, bops, bad
tvars == <<tid, l, D, H, bops, bad>>

Events == Traces[tid].events
Ev == Events[l]
Names == ToSet(Traces[tid].consts.names)

\* (WriteAt of Common.tla: a gap is filled with zeros)
Listing(o) == [n \in {x \in Names : x \in DOMAIN o} |-> o[n]]
Present(d) == [n \in {x \in DOMAIN d : d[x] # <<-1>>} |-> d[n]]

\* family c39 (no second session): pipelined requests of one session on one path - close, then open again without waiting
\* for the answer; requests take effect in the order sent.  A deviation there is a write lost (C39), not an authority matter
Fam == Traces[tid].consts.family
Name(c) == IF Fam = "c39" THEN (IF c = "conf_final_listing" THEN "C39_pipelined_reopen_lost_write"
                                 ELSE IF c = "conf_writer_request_failed" THEN "C39_pipelined_request_failed" ELSE c)
           ELSE c
V(c, d, h, b) == [c |-> Name(c), D |-> d, H |-> h, bops |-> b]

Verdict(e) ==
  CASE e.ev = "AOpen" ->
         IF e.st # "ok" THEN V(IF bops > 0 THEN "C18_ro_session_disturbed_writer" ELSE "conf_writer_request_failed", D, H, bops)
         ELSE V("", D, [x \in (DOMAIN H) \cup {e.h} |-> IF x = e.h THEN [name |-> e.name, buf |-> IF e.kind = "new" THEN <<>> ELSE D[e.name]] ELSE H[x]], bops)
    [] e.ev = "AWrite" ->
         IF e.st # "ok" THEN V(IF bops > 0 THEN "C18_ro_session_disturbed_writer" ELSE "conf_writer_request_failed", D, H, bops)
         ELSE V("", D, [H EXCEPT ![e.h].buf = WriteAt(@, e.off, e.data)], bops)
    [] e.ev = "AClose" ->
         IF e.st # "ok" THEN V(IF bops > 0 THEN "C18_ro_session_disturbed_writer" ELSE "conf_writer_request_failed", D, H, bops)
         ELSE V("", [D EXCEPT ![H[e.h].name] = H[e.h].buf], H, bops)
    [] e.ev = "BOp" ->
         IF e.st = "ok" THEN V("C18_ro_session_request_granted", D, H, bops)
         ELSE V("", D, H, bops + 1)
    [] e.ev = "Final" ->
         IF Listing(e.listing) # Present(D)
           THEN V(IF bops > 0 THEN "C18_ro_session_changed_directory" ELSE "conf_final_listing", D, H, bops)
           ELSE V("", D, H, bops)
    [] OTHER -> V("unknown_event", D, H, bops)

TraceInit ==
  /\ tid \in 1..Len(Traces)
  /\ l = 1
  /\ D = [n \in Names |-> IF n \in DOMAIN Traces[tid].consts.init THEN Traces[tid].consts.init[n] ELSE <<-1>>]
  /\ H = <<>>
  /\ bops = 0
  /\ bad = "none"

TraceNext ==
  /\ bad = "none"
  /\ l <= Len(Events)
  /\ LET v == Verdict(Ev) IN
     IF v.c = ""
       THEN /\ D' = v.D /\ H' = v.H /\ bops' = v.bops /\ l' = l + 1 /\ bad' = "none"
            /\ (l = Len(Events) => PrintT(<<"VF_ACCEPT", tid, l>>))
       ELSE /\ bad' = v.c /\ UNCHANGED <<D, H, bops, l>>
            /\ PrintT(<<"VF_REJECT", tid, l, v.c>>)
  /\ UNCHANGED tid

TraceSpec == TraceInit /\ [][TraceNext]_tvars
TraceOK == bad = "none"
=============================================================================
