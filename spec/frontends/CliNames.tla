------------------------------ MODULE CliNames ------------------------------
(* X-cli_aliases -- the command line's naming layer: how an argument like `work:path/to/x`, a bare path, a
   `URI:...` cap with a trailing path or `C:\x` on Windows becomes (root cap, path below it).

   Sources (the rules are transcribed from these, not from the code's control flow):
     docs/frontends/CLI.rst "CLI Command Overview" (drive letters, "./" for names with colons), "Starting
     Directories" (aliases, default alias `tahoe:`), "Command Syntax Summary":
         [SUBDIRS/]FILENAME            a path relative to the default tahoe: alias
         ALIAS:[SUBDIRS/]FILENAME      a path relative to another alias
         DIRCAP/[SUBDIRS/]FILENAME or DIRCAP:./[SUBDIRS/]FILENAME   a path relative to a directory cap
     scripts/common.py get_alias docstring ("Transform u"work:path/filename" into (aliases[u"work"],
     u"path/filename") ... If default=None, then an empty alias is indicated by returning DefaultAliasMarker ...
     If the transformed alias is either not found in aliases, or is blank and default is not found in aliases,
     an UnknownAliasError is raised") and its comments ("no alias, but there's a colon in a dirname/filename,
     like foo/bar:7"; "treat C:\why\must\windows\be\so\weird as a local path").

   A string is a sequence of TOKENS (TLC cannot compare strings with sequences, so one-character strings):
       "a"  one ASCII letter            "e"  one non-ASCII letter (U+00E9)
       "t"  the word `tahoe`            "U"  the word `URI`
       "K"  a whole directory cap `URI:DIR2:...:...` (colons inside, no slash; generated in first position only)
       ":"  "/"  " "  "."  "#"          themselves
   The driver renders tokens to text; the Spec needs to know only which tokens are single ASCII letters (drive
   letters), which contain colons (K) and which form the `URI:` prefix (K, or U followed by ":"). *)
EXTENDS Integers, Sequences, FiniteSets, TLC

AsciiLetter == {"a"}
NameTok     == {"a", "e", "t", "U"}
Base        == NameTok \cup {":", "/", " ", "."}
CapTok      == "K"
DefaultName == <<"t">>                     \* DEFAULT_ALIAS = u"tahoe"

SeqsUpTo(S, n) == UNION {[1..k -> S] : k \in 0..n}

(* ---- strings ------------------------------------------------------------------------------------------- *)
Upto(s, i) == SubSeq(s, 1, i)
From(s, i) == SubSeq(s, i, Len(s))
Has(s, x)  == \E i \in 1..Len(s) : s[i] = x
IndexOf(s, x) ==                          \* first position of token x, 0 if none
  IF Has(s, x) THEN CHOOSE i \in 1..Len(s) : s[i] = x /\ \A j \in 1..(i - 1) : s[j] # x ELSE 0
MatchAt(s, i, pat) == i + Len(pat) - 1 <= Len(s) /\ \A k \in 1..Len(pat) : s[i + k - 1] = pat[k]
IndexOfSeq(s, pat) ==
  IF \E i \in 1..Len(s) : MatchAt(s, i, pat)
  THEN CHOOSE i \in 1..Len(s) : MatchAt(s, i, pat) /\ \A j \in 1..(i - 1) : ~MatchAt(s, j, pat) ELSE 0
StartsWith(s, pat) == MatchAt(s, 1, pat)
EndsWith(s, x) == Len(s) > 0 /\ s[Len(s)] = x
\* spaces at both ends are not part of the argument (common.py: path_unicode.encode('utf-8').strip(b" "))
StripSp(s) ==
  IF \A i \in 1..Len(s) : s[i] = " " THEN <<>>
  ELSE LET lo == CHOOSE i \in 1..Len(s) : s[i] # " " /\ \A j \in 1..(i - 1) : s[j] = " "
           hi == CHOOSE i \in 1..Len(s) : s[i] # " " /\ \A j \in (i + 1)..Len(s) : s[j] = " "
       IN SubSeq(s, lo, hi)
\* "a/b//c" -> << <<a>>, <<b>>, <<>>, <<c>> >>   (like str.split("/"): the empty string gives one empty component)
RECURSIVE Split(_)
Split(s) == LET j == IndexOf(s, "/") IN IF j = 0 THEN <<s>> ELSE <<Upto(s, j - 1)>> \o Split(From(s, j + 1))
\* no empty pathname component (the web API refuses them: "The webapi does not allow empty pathname components")
Clean(path) == path = <<>> \/ \A i \in 1..Len(Split(path)) : Split(path)[i] # <<>>

(* ---- alias tables: sets of [name |-> token sequence, cap |-> cap id] with distinct names ------------------- *)
Known(tbl, n)  == \E r \in tbl : r.name = n
CapOf(tbl, n)  == (CHOOSE r \in tbl : r.name = n).cap
Names(tbl)     == {r.name : r \in tbl}

(* ---- the answer ------------------------------------------------------------------------------------------
   kind: "ok" (root, path) | "local" (no alias and no default: a local path, DefaultAliasMarker)
         | "unknown_alias" | "no_default"  (both UnknownAliasError)
   root: [t |-> "alias", via |-> "named" | "default", name, cap]  or  [t |-> "lit", lit |-> the cap text as written]  *)
NoRoot == [t |-> "none", via |-> "", name |-> <<>>, cap |-> "", lit |-> <<>>]
AliasRoot(tbl, n, via) == [t |-> "alias", via |-> via, name |-> n, cap |-> CapOf(tbl, n), lit |-> <<>>]
LitRoot(lit) == [t |-> "lit", via |-> "", name |-> <<>>, cap |-> "", lit |-> lit]
Ans(kind, root, path) == [kind |-> kind, root |-> root, path |-> path]

\* "We special-case strings with a recognized cap URI prefix"
UriPrefix(p) == Len(p) >= 1 /\ (p[1] = CapTok \/ StartsWith(p, <<"U", ":">>))
\* DIRCAP/[SUBDIRS/]FILENAME or DIRCAP:./[SUBDIRS/]FILENAME: a cap contains neither "/" nor ":./", so it ends where the
\* first of the two separators begins (the slash of ":./" is that first slash exactly when the ":./" form is meant)
UriCase(p) ==
  LET j == IndexOf(p, "/") IN
  IF j = 0 THEN Ans("ok", LitRoot(p), <<>>)
  ELSE IF j >= 3 /\ MatchAt(p, j - 2, <<":", ".", "/">>) THEN Ans("ok", LitRoot(Upto(p, j - 3)), From(p, j + 1))
  ELSE Ans("ok", LitRoot(Upto(p, j - 1)), From(p, j + 1))

\* no ALIAS: prefix: the default alias, or (commands that take local paths pass default = none) a local path
NoAliasCase(p, tbl, dflt) ==
  IF dflt = "none" THEN Ans("local", NoRoot, p)
  ELSE IF Known(tbl, DefaultName) THEN Ans("ok", AliasRoot(tbl, DefaultName, "default"), p)
  ELSE Ans("no_default", NoRoot, <<>>)

\* "On Windows, a single letter followed by a colon is treated as a drive specification rather than an alias
\*  (and is invalid unless a local path is allowed in that context)"
DriveLike(p) == Len(p) >= 2 /\ p[1] \in AsciiLetter /\ p[2] = ":"

\* p: the argument without the spaces at its ends
ResolveP(p, tbl, dflt, win) ==
  LET c == IndexOf(p, ":") IN
  IF UriPrefix(p) THEN UriCase(p)
  ELSE IF c = 0 THEN NoAliasCase(p, tbl, dflt)
  ELSE IF win /\ DriveLike(p) THEN (IF dflt = "none" THEN Ans("local", NoRoot, p) ELSE Ans("unknown_alias", NoRoot, <<>>))
  ELSE IF Has(Upto(p, c - 1), "/") THEN NoAliasCase(p, tbl, dflt)          \* "foo/bar:7": the colon is inside a later component
  ELSE IF Known(tbl, Upto(p, c - 1)) THEN Ans("ok", AliasRoot(tbl, Upto(p, c - 1), "named"), From(p, c + 1))
  ELSE Ans("unknown_alias", NoRoot, <<>>)
Resolve(s, tbl, dflt, win) == ResolveP(StripSp(s), tbl, dflt, win)

(* Inputs on which the documents do not decide (not judged, the code's answer is only recorded):
   - Windows, one character that is not an ASCII letter before the colon (".:x", U+00E9 ":x"): "a single letter"
   - Windows, a context without local paths, and the table has a one-letter alias ("On Windows, aliases cannot be a
     single character": such a table is outside the documented domain) *)
OpenResolveP(p, tbl, dflt, win) ==
  IF ~win \/ UriPrefix(p) \/ Len(p) < 2 \/ p[2] # ":" THEN ""
  ELSE IF p[1] \in {"e", "."} /\ dflt = "none" THEN "windows_one_nonletter_before_colon"
  ELSE IF p[1] \in {"e", "."} /\ dflt # "none" /\ ~Known(tbl, <<p[1]>>) THEN ""
  ELSE IF dflt # "none" /\ Known(tbl, <<p[1]>>) THEN "windows_one_character_alias_in_table"
  ELSE ""
OpenResolve(s, tbl, dflt, win) == OpenResolveP(StripSp(s), tbl, dflt, win)

(* ---- the alias tables of the GEN modules (fixtures; written out for the driver by GenCliResolve) ------------- *)
T0 == {}
T1 == {[name |-> <<"t">>, cap |-> "R0"]}
T2 == {[name |-> <<"t">>, cap |-> "R0"], [name |-> <<"a">>, cap |-> "R1"], [name |-> <<"a", "e">>, cap |-> "Q2"]}
TableOf(id) == CASE id = "T0" -> T0 [] id = "T1" -> T1 [] id = "T2" -> T2
=============================================================================
