---------------------------- MODULE SftpConsumer ----------------------------
(* The open-file buffer of the SFTP frontend
   (allmydata/frontends/sftpd.py, OverwriteableFileConsumer).

   Two descriptions of one open file:

   * the IDEAL file: the original contents with the client's writes and size
     changes applied in order (IdealWrite / IdealSetSize / IdealRead);
   * the IMPLEMENTATION-SHAPED state S, one operator per method of the class:
     the temporary file `f`, the download pointer `downloaded`, `dsize`
     (download_size), `csize` (current_size), the heap of overwritten regions
     that the download has not reached yet, the read milestones (`waiting`),
     the reads whose callback has been queued (`fired`), `done`, `closed`.

   Contents are sequences of integers.  G marks a position of the temporary
   file whose content is unspecified (a hole of the EncryptedTemporaryFile, or
   a region neither downloaded nor overwritten).

   The merge rule of the download-side write loop is a parameter: "max" is
   the intended rule (a merged region ends at the maximum of the ends), "code"
   is the rule as written in sftpd.py (`end = end1`). *)
EXTENDS Common

G == -1

(* ---- the ideal file ----------------------------------------------------- *)
IdealWrite(I, off, data) == WriteAt(I, off, data)     \* a gap is filled with zeros
IdealSetSize(I, n) == IF n <= Len(I) THEN SubSeq(I, 1, n) ELSE I \o Zeros(n - Len(I))
IdealEOF(I, off) == off >= Len(I)
IdealRead(I, off, len) == ReadAt(I, off, len)

\* positions (0-based) whose content was decided by the client: written, zero-filled, or
\* created by an extension; a truncation forgets the positions it removes
DirtyWrite(D, I, off, len) == D \cup {p \in 0..(off + len - 1) : p >= Min(off, Len(I))}
DirtySetSize(D, I, n) == IF n <= Len(I) THEN {p \in D : p < n} ELSE D \cup (Len(I)..(n - 1))

(* ---- the temporary file (seek + write, truncate, seek + read) ----------- *)
Garbage(n) == [i \in 1..n |-> G]
FPut(f, pos, data) ==
  IF data = <<>> THEN f
  ELSE LET pre  == IF pos <= Len(f) THEN SubSeq(f, 1, pos) ELSE f \o Garbage(pos - Len(f))
           endw == pos + Len(data)
           post == IF endw < Len(f) THEN SubSeq(f, endw + 1, Len(f)) ELSE <<>>
       IN pre \o data \o post
FTruncate(f, n) == IF n <= Len(f) THEN SubSeq(f, 1, n) ELSE f \o Garbage(n - Len(f))
FRead(f, off, len) == ReadAt(f, off, len)

Take(s, k) == SubSeq(s, 1, Max(0, Min(k, Len(s))))            \* s[:k]
Drop(s, k) == SubSeq(s, Max(0, Min(k, Len(s))) + 1, Len(s))   \* s[k:]

(* ---- state -------------------------------------------------------------- *)
InitState(size) ==
  [f |-> <<>>, downloaded |-> 0, dsize |-> size, csize |-> size, heap |-> {},
   waiting |-> {}, fired |-> {}, done |-> FALSE, closed |-> FALSE]

\* heapq order on (start, end) tuples
HeapLE(a, b) == a[1] < b[1] \/ (a[1] = b[1] /\ a[2] <= b[2])
HeapMin(h) == CHOOSE m \in h : \A x \in h : HeapLE(m, x)

FiredOf(w) == [rid |-> w.rid, off |-> w.off, len |-> w.len, reqlen |-> w.reqlen, eof |-> FALSE]

\* download_done(res): only the first call counts; every milestone is called back
DownloadDone(S) ==
  IF S.done THEN S
  ELSE [S EXCEPT !.done = TRUE, !.fired = @ \cup {FiredOf(w) : w \in S.waiting}, !.waiting = {}]

\* _update_downloaded(new)
UpdateDownloaded(S, new) ==
  LET ms == IF S.heap # {} /\ HeapMin(S.heap)[1] <= new /\ HeapMin(S.heap)[2] > new
              THEN HeapMin(S.heap)[2] ELSE new
      reached == {w \in S.waiting : w.idx <= ms}
      S1 == [S EXCEPT !.downloaded = new, !.waiting = @ \ reached,
                      !.fired = @ \cup {FiredOf(w) : w \in reached}]
  IN IF S1.waiting # {} THEN S1          \* `return` inside the milestone loop: no completion test
     ELSE IF ms >= S1.dsize THEN DownloadDone(S1) ELSE S1

RECURSIVE MergeTail(_, _, _)
\* pop the following overwrites that start at or before `end`, merging them
MergeTail(end, h, rule) ==
  IF h = {} THEN <<end, h>>
  ELSE LET m == HeapMin(h) IN
       IF m[1] > end THEN <<end, h>>
       ELSE MergeTail(IF rule = "max" THEN Max(end, m[2]) ELSE m[2], h \ {m}, rule)

RECURSIVE WriteLoop(_, _, _, _)
\* the `while len(self.overwrites) > 0` loop of write(); data = what is left of the chunk,
\* nd = next_downloaded
WriteLoop(S, data, nd, rule) ==
  LET plain == UpdateDownloaded([S EXCEPT !.f = FPut(S.f, S.downloaded, data)], nd) IN
  IF S.heap = {} THEN plain
  ELSE LET m == HeapMin(S.heap) IN
    IF m[1] >= nd THEN plain
    ELSE
      LET f1  == IF m[1] > S.downloaded THEN FPut(S.f, S.downloaded, Take(data, m[1] - S.downloaded)) ELSE S.f
          mt  == MergeTail(m[2], S.heap \ {m}, rule)
          end == mt[1]
          h1  == mt[2]
      IN IF end >= nd
           THEN UpdateDownloaded([S EXCEPT !.f = f1, !.heap = h1 \cup {<<nd, end>>}], nd)
         ELSE IF end >= S.downloaded
           THEN WriteLoop(UpdateDownloaded([S EXCEPT !.f = f1, !.heap = h1], end),
                          Drop(data, end - S.downloaded), nd, rule)
         ELSE WriteLoop([S EXCEPT !.f = f1, !.heap = h1], data, nd, rule)

\* write(data): the producer of the background download delivers the next chunk
Chunk(S, data, rule) ==
  IF S.closed \/ S.downloaded >= S.dsize THEN S
  ELSE LET nd == S.downloaded + Len(data)
           d0 == IF nd > S.dsize THEN Take(data, S.dsize - S.downloaded) ELSE data
       IN WriteLoop(S, d0, nd, rule)

\* overwrite(offset, data)   (caller: not closed)
Overwrite(S, off, data) ==
  LET f1    == IF off > S.csize THEN FPut(FPut(S.f, S.csize, Zeros(off - S.csize)), off, data)
                                ELSE FPut(S.f, off, data)
      start == IF off > S.csize THEN S.csize ELSE off
      end   == off + Len(data)
  IN [S EXCEPT !.f = f1, !.csize = Max(S.csize, end),
               !.heap = IF end > S.downloaded THEN @ \cup {<<start, end>>} ELSE @]

\* set_current_size(size)
SetSize(S, n) ==
  LET S1 == IF n < S.csize \/ n < S.downloaded THEN [S EXCEPT !.f = FTruncate(S.f, n)] ELSE S
      S2 == IF n > S1.csize THEN Overwrite(S1, S1.csize, Zeros(n - S1.csize)) ELSE S1
      S3 == [S2 EXCEPT !.csize = n, !.dsize = IF n < S2.dsize THEN n ELSE S2.dsize]
  IN IF S3.downloaded >= S3.dsize THEN DownloadDone(S3) ELSE S3

\* read(offset, length): the answer is produced when the milestone `needed` has been
\* reached (or the download is over); an answer that is available at once is queued too
ReadStart(S, rid, off, len) ==
  IF off >= S.csize
    THEN [S EXCEPT !.fired = @ \cup {[rid |-> rid, off |-> off, len |-> 0, reqlen |-> len, eof |-> TRUE]}]
  ELSE LET len1   == IF off + len > S.csize THEN S.csize - off ELSE len
           needed == Min(off + len1, S.dsize)
           w      == [rid |-> rid, idx |-> needed, off |-> off, len |-> len1, reqlen |-> len]
       IN IF S.done \/ needed <= S.downloaded
            THEN [S EXCEPT !.fired = @ \cup {FiredOf(w)}]
            ELSE [S EXCEPT !.waiting = @ \cup {w}]

\* the queued callback of a read runs: _reached_in_read
ReadResult(S, r) == IF r.eof THEN <<>> ELSE FRead(S.f, r.off, r.len)
Deliver(S, r) == [S EXCEPT !.fired = @ \ {r}]

\* the download Deferred fired: download_done("download finished")
DownloadFinished(S) == DownloadDone(S)

\* close()
Close(S) == DownloadDone([S EXCEPT !.closed = TRUE])

\* the client may act only when no read is outstanding (docstring of read())
Quiescent(S) == S.waiting = {} /\ S.fired = {}

(* ---- what must hold, stated over (S, ideal, dirty, original) ------------- *)
\* the class's own invariant
SizesOK(S) == S.dsize <= S.csize
SizeIsIdeal(S, I) == S.csize = Len(I)
\* whenever the download is over the temporary file IS the ideal file (this is what is uploaded)
FinalEqualsIdeal(S, I) == (S.done /\ ~S.closed) => S.f = I
\* a position decided by the client holds the client's value from then on
ClientPrecedence(S, I, D) == \A p \in D : p < Len(I) => (p < Len(S.f) /\ S.f[p + 1] = I[p + 1])
\* a position that the download has settled and the client never touched holds the original byte
DownloadedIntact(S, I, D, orig) ==
  \A p \in 0..(Min(Min(S.downloaded, S.dsize), Len(I)) - 1) :
     p \notin D => (p < Len(S.f) /\ p < Len(orig) /\ S.f[p + 1] = orig[p + 1])
\* nobody waits for a download that is over
NoWaiterWhenDone(S) == S.done => S.waiting = {}
=============================================================================
