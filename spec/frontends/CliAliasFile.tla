---------------------------- MODULE CliAliasFile ----------------------------
(* X-cli_aliases -- the aliases file (NODEDIR/private/aliases) and the commands that maintain it.

   Sources: docs/frontends/CLI.rst "Starting Directories" ("aliases ... are short Unicode strings that stand in for a
   directory read- or write- cap. They are stored (encoded as UTF-8) in the file NODEDIR/private/aliases"; "if the
   tahoe: alias is not found in ~/.tahoe/private/aliases, the CLI will use the contents of ~/.tahoe/private/root_dir.cap
   instead ... once you've set a tahoe: alias ... that will override anything in the old root_dir.cap file"; "you can edit
   the NODEDIR/private/aliases file directly, by adding a line like this:  fun: URI:DIR2:..."; "Once you've added an
   alias, you can use that alias as an argument to commands"), "Command Examples" (add-alias ALIAS[:] DIRCAP: "the alias
   name can be given with or without the trailing colon"; create-alias "combines tahoe mkdir and tahoe add-alias into a
   single step"; list-aliases "displays a table of all configured aliases"), the messages of tahoe_add_alias.py ("Alias
   names cannot contain colons." / "spaces.", "Alias ... already exists!") and the comment lines / blank lines that
   get_aliases skips.

   A file is [lines, nl, root]: the lines (records below), whether the last line is terminated, and the contents of
   private/root_dir.cap ("absent", "empty" or a cap id).  Caps are ids ("R0", ...); the driver owns the texts. *)
EXTENDS CliNames

Entry(n, cap, pre, mid, post) == [k |-> "entry", name |-> n, cap |-> cap, pre |-> pre, mid |-> mid, post |-> post]
                                 \* pre spaces, name, ":", mid spaces, cap, post spaces
Other(k) == [k |-> k, name |-> <<>>, cap |-> "", pre |-> 0, mid |-> 0, post |-> 0]   \* "blank" | "spaces" | "comment"
CEntry(n, cap) == [k |-> "centry", name |-> n, cap |-> cap, pre |-> 0, mid |-> 1, post |-> 0]   \* "#name: cap"

EntryIdx(F) == {i \in 1..Len(F.lines) : F.lines[i].k = "entry"}
FileEntries(F) == {[name |-> F.lines[i].name, cap |-> F.lines[i].cap] : i \in EntryIdx(F)}
\* what the commands see: the file's entries; root_dir.cap stands in for tahoe: only while the file has no tahoe: entry
AliasTable(F) ==
  FileEntries(F) \cup (IF F.root \notin {"absent", "empty"} /\ ~Known(FileEntries(F), DefaultName)
                       THEN {[name |-> DefaultName, cap |-> F.root]} ELSE {})

\* ALIAS[:] -- "the alias name can be given with or without the trailing colon"
NameOfArg(arg) == IF EndsWith(arg, ":") THEN Upto(arg, Len(arg) - 1) ELSE arg
\* A name that can be used afterwards as ALIAS:path: no colon, no space (the two messages), no slash (a colon after a
\* slash is never an alias separator: CliNames!Resolve); and not one the *file* already has (root_dir.cap does not count:
\* setting tahoe: is how it gets overridden)
AddCheck(F, name) ==
  CASE Has(name, ":") -> "colon"
    [] Has(name, " ") -> "space"
    [] Has(name, "/") -> "slash"
    [] Known(FileEntries(F), name) -> "exists"
    [] OTHER -> "ok"
Appended(F, name, cap) == [F EXCEPT !.lines = Append(@, Entry(name, cap, 0, 1, 0)), !.nl = TRUE]

(* operations: [op |-> "add", arg, cap] | [op |-> "create", arg, ok (the node's answer to POST /uri?t=mkdir), cap (the
   fresh cap it answers)] | [op |-> "list", mode |-> "plain" | "ro" | "json"]; uniform record, unused fields empty *)
Op(op, arg, cap, ok, mode) == [op |-> op, arg |-> arg, cap |-> cap, ok |-> ok, mode |-> mode]
\* orRefuse: the documents name no comment syntax for the file, so a name that begins with the "#" of the lines get_aliases
\* skips may as well be refused (exit status not 0, nothing changed, no POST); what must not happen is "added" and not there
Out(rc, F, posts, listing) == [rc |-> rc, F |-> F, posts |-> posts, listing |-> listing, orRefuse |-> FALSE]
MayRefuse(name, out) == IF out.rc = "zero" /\ StartsWith(name, <<"#">>) THEN [out EXCEPT !.orRefuse = TRUE] ELSE out
Step(F, o) ==
  CASE o.op = "add" ->
         IF AddCheck(F, NameOfArg(o.arg)) = "ok" THEN MayRefuse(NameOfArg(o.arg), Out("zero", Appended(F, NameOfArg(o.arg), o.cap), 0, {}))
         ELSE Out("nonzero", F, 0, {})
    [] o.op = "create" ->
         IF AddCheck(F, NameOfArg(o.arg)) # "ok" THEN Out("nonzero", F, 0, {})          \* refused before anything is created
         ELSE IF o.ok THEN MayRefuse(NameOfArg(o.arg), Out("zero", Appended(F, NameOfArg(o.arg), o.cap), 1, {}))
         ELSE Out("nonzero", F, 1, {})
    [] o.op = "list" -> Out("zero", F, 0, AliasTable(F))
RECURSIVE Run(_, _)
Run(F, ops) == IF ops = <<>> THEN <<>> ELSE LET r == Step(F, Head(ops)) IN <<r>> \o Run(r.F, Tail(ops))
=============================================================================
