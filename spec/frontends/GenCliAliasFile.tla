--------------------------- MODULE GenCliAliasFile ---------------------------
(* GEN table of CliAliasFile: (1) every aliases file of at most MaxLines lines over LineShapes (entries with and
   without spaces around the cap, a non-ASCII name, blank / whitespace / comment / commented-out lines) x last line
   terminated or not x root_dir.cap absent / empty / a cap, with the alias table the commands must see; (2) from the
   files of at most OpLines lines, every sequence of at most MaxOps operations of add-alias / create-alias /
   list-aliases over the argument universe below, with exit status, number of POSTs and table after every step.
   The driver writes the file into a node directory and runs the real get_aliases / add_alias / create_alias /
   list_aliases (through their twisted.python.usage Options classes) on it.  AF clauses: the documented rules over
   the rows, without Step. *)
EXTENDS CliAliasFile, Json, IOUtils, SequencesExt

CONSTANTS MaxLines, OpLines, MaxOps,
          Small      \* TRUE: the operation sequences start from half of the files (unterminated last line only with
                     \* root_dir.cap) and the operations after the first come from SecondOps

LineShapes == {Entry(<<"a">>, "R1", 0, 1, 0), Entry(<<"a">>, "R1", 1, 2, 1), Entry(<<"t">>, "R0", 0, 1, 0),
               Entry(<<"t">>, "R0", 0, 0, 0), Entry(<<"a", "e">>, "Q2", 0, 1, 1),
               Other("blank"), Other("spaces"), Other("comment"), CEntry(<<"a">>, "R2")}
OpLineShapes == {Entry(<<"a">>, "R1", 0, 1, 0), Entry(<<"t">>, "R0", 0, 0, 0), Other("comment")}
Distinct(ls) == \A i, j \in 1..Len(ls) : (i < j /\ ls[i].k = "entry" /\ ls[j].k = "entry") => ls[i].name # ls[j].name
FilesOver(shapes, n, roots) ==
  {[lines |-> ls, nl |-> b, root |-> r] : ls \in {x \in SeqsUpTo(shapes, n) : Distinct(x)}, b \in BOOLEAN, r \in roots}
ParseFiles == FilesOver(LineShapes, MaxLines, {"absent", "empty", "R3"})
OpFiles    == {F \in FilesOver(OpLineShapes, OpLines, {"absent", "R3"}) : Small => (F.nl = (F.root = "absent"))}

AddArgs == {<<"a">>, <<"a", ":">>, <<"e">>, <<"t">>, <<"a", ":", "a">>, <<"a", " ", "e">>, <<"#", "a">>, <<"a", "/", "e">>,
            <<"a", ":", ":">>}
CreateArgs == {<<"a">>, <<"e", ":">>, <<"t">>, <<"a", ":", "a">>}
OpShapes == {Op("add", x, "R2", FALSE, "") : x \in AddArgs} \cup {Op("add", <<"e", ":">>, "Q2", FALSE, "")}
            \cup {Op("create", x, "", ok, "") : x \in CreateArgs, ok \in BOOLEAN}
            \cup {Op("list", <<>>, "", FALSE, m) : m \in {"plain", "ro", "json"}}
NCap(i) == CASE i = 1 -> "N1" [] i = 2 -> "N2" [] OTHER -> "N3"
Fresh(ops) == [i \in 1..Len(ops) |-> IF ops[i].op = "create" THEN [ops[i] EXCEPT !.cap = NCap(i)] ELSE ops[i]]
SecondOps == {Op("list", <<>>, "", FALSE, "plain"), Op("list", <<>>, "", FALSE, "json"), Op("add", <<"a">>, "R2", FALSE, ""),
              Op("add", <<"a", ":">>, "R2", FALSE, ""), Op("add", <<"t">>, "R2", FALSE, ""), Op("add", <<"e", ":">>, "Q2", FALSE, ""),
              Op("create", <<"a">>, "", TRUE, ""), Op("create", <<"e", ":">>, "", TRUE, "")}
OpSeqs == {Fresh(x) : x \in {y \in SeqsUpTo(OpShapes, MaxOps) \ {<<>>} : Small => \A k \in 2..Len(y) : y[k] \in SecondOps}}

Tab(F) == SetToSeq(AliasTable(F))
StepRow(r) == [rc |-> r.rc, posts |-> r.posts, table |-> Tab(r.F), listing |-> SetToSeq(r.listing), orRefuse |-> r.orRefuse]
Rows(F, ops) == LET rs == Run(F, ops) IN [i \in 1..Len(rs) |-> StepRow(rs[i])]
Cases == {[F |-> F, table0 |-> Tab(F), ops |-> <<>>, steps |-> <<>>] : F \in ParseFiles}
         \cup {[F |-> F, table0 |-> Tab(F), ops |-> ops, steps |-> Rows(F, ops)] : F \in OpFiles, ops \in OpSeqs}

ASSUME ndJsonSerialize(IOEnv.OUT_FILE, SetToSeq(Cases))

VARIABLE c
Init == c \in Cases
Next == UNCHANGED c
Spec == Init /\ [][Next]_c

SetOf(sq) == {sq[i] : i \in 1..Len(sq)}
Before(i) == IF i = 1 THEN SetOf(c.table0) ELSE SetOf(c.steps[i - 1].table)
After(i)  == SetOf(c.steps[i].table)
Steps == 1..Len(c.steps)
\* ALIAS[:] read here without CliAliasFile!NameOfArg / EntryIdx, so that the clauses do not lean on the operators they judge
NameGiven(i) == LET a == c.ops[i].arg IN IF Len(a) > 0 /\ a[Len(a)] = ":" THEN SubSeq(a, 1, Len(a) - 1) ELSE a
EntryLines == {i \in 1..Len(c.F.lines) : c.F.lines[i].k = "entry"}
Changing(i) == c.ops[i].op \in {"add", "create"}

\* the table is a function of the entry lines: comments, commented-out entries, blank lines and the spaces around a cap
\* contribute nothing; root_dir.cap gives tahoe: exactly while no line does
AF_Parse ==
  LET named == {c.F.lines[i].name : i \in EntryLines} IN
  /\ \A r \in SetOf(c.table0) : r.name \in named \/ (r.name = DefaultName /\ r.cap = c.F.root)
  /\ \A i \in EntryLines : [name |-> c.F.lines[i].name, cap |-> c.F.lines[i].cap] \in SetOf(c.table0)
  /\ (c.F.root \notin {"absent", "empty"} /\ DefaultName \notin named) => [name |-> DefaultName, cap |-> c.F.root] \in SetOf(c.table0)
  /\ Cardinality({r.name : r \in SetOf(c.table0)}) = Cardinality(SetOf(c.table0))
\* "Once you've added an alias, you can use that alias as an argument to commands": after a successful add / create the
\* argument NAME:a means (the cap given / created, "a")
AF_Readback ==
  \A i \in Steps : (Changing(i) /\ c.steps[i].rc = "zero") =>
     LET q == Resolve(NameGiven(i) \o <<":", "a">>, After(i), "tahoe", FALSE) IN
     q.kind = "ok" /\ q.root.t = "alias" /\ q.root.cap = c.ops[i].cap /\ q.path = <<"a">>
\* nothing else changes: other aliases keep their caps, a refused command changes nothing, list-aliases changes nothing
AF_Frame ==
  \A i \in Steps :
     /\ \A r \in Before(i) : r \in After(i) \/ (c.steps[i].rc = "zero" /\ Changing(i) /\ r.name = NameGiven(i) /\ r.cap = c.F.root)
     /\ \A r \in After(i) : r \in Before(i) \/ (c.steps[i].rc = "zero" /\ Changing(i) /\ r.name = NameGiven(i))
     /\ Cardinality({r.name : r \in After(i)}) = Cardinality(After(i))
\* "Alias names cannot contain colons." / "spaces." / "already exists!": refused, exit status not 0
AF_Refused ==
  \A i \in Steps : Changing(i) =>
     /\ (Has(NameGiven(i), ":") \/ Has(NameGiven(i), " ")) => c.steps[i].rc = "nonzero"
     /\ (\E r \in Before(i) : r.name = NameGiven(i) /\ ~(r.name = DefaultName /\ r.cap = c.F.root)) => c.steps[i].rc = "nonzero"
\* ... and nothing else is refused: a new name without colon, space or slash - given with or without the trailing colon - is
\* accepted (create-alias: if the node made the directory)
AF_Accepted ==
  \A i \in Steps : (Changing(i) /\ ~Has(NameGiven(i), ":") /\ ~Has(NameGiven(i), " ") /\ ~Has(NameGiven(i), "/")
                    /\ ~(\E r \in Before(i) : r.name = NameGiven(i)) /\ (c.ops[i].op = "add" \/ c.ops[i].ok)) => c.steps[i].rc = "zero"
\* create-alias = mkdir + add-alias: one POST exactly when the name is acceptable, the alias exactly when it succeeded
AF_Create ==
  \A i \in Steps : c.ops[i].op = "create" =>
     /\ c.steps[i].posts \in {0, 1}
     /\ c.steps[i].rc = "zero" <=> (c.steps[i].posts = 1 /\ c.ops[i].ok)
     /\ c.steps[i].posts = 0 => After(i) = Before(i)
\* list-aliases shows all configured aliases
AF_List == \A i \in Steps : c.ops[i].op = "list" => (SetOf(c.steps[i].listing) = Before(i) /\ c.steps[i].rc = "zero")
=============================================================================
