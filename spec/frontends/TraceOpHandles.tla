--------------------------- MODULE TraceOpHandles ---------------------------
(* Trace validation of the real web gateway (allmydata.web.root.Root with its
   OphandleTable, driven over HTTP by harness/ophandle_driver.py) against
   OpHandles.tla.  One event = one HTTP request with the abstracted answer, a
   clock advance, or a slice of grid work (with the operations that came to their
   end in it and the number of directories each operation has reached so far).

     Start   h ("" = no ophandle=) kind dir isdir retain     res [cls, loc]
     Status  h retain release                  res [cls, finished, kind, dir, full, listed]
     Cancel  h reached (as in Work)            res (as Status)
     Advance dt
     Work    quiet (sequence of op ids)  reached (sequence: op id -> directories reached)

   `kind` of an answer is the shape of the page, `dir` the directory it reveals ("" if it
   reveals none), `full` says that the page carries results equal to those of the
   synchronous traversal (t=stream-manifest / t=stream-deep-check) of directory `dir`, `listed`
   that a JSON manifest page carries its manifest / verifycaps / storage-index lists.
   The verdict of an event is the name of the first clause that fails ("" = accepted). *)
EXTENDS OpHandles, Json, IOUtils, TLCExt

Traces == JsonDeserialize(IOEnv.TRACE_FILE)

VARIABLES tid, l, S, bad
tvars == <<tid, l, S, bad>>

Events == Traces[tid].events
Ev == Events[l]

V(c, s) == [c |-> c, s |-> s]
Ret(r) == [given |-> r.given, secs |-> r.secs]

\* an entry whose lifetime the documentation leaves open follows the observation
LooseGone(h, cls) == S.tbl[h].present /\ S.tbl[h].loose /\ cls = "notfound"
Adopt(h, cls) == IF LooseGone(h, cls) THEN [S EXCEPT !.tbl[h] = Gone("loose")] ELSE S

\* webapi.rst, POST $DIRURL?t=start-manifest, output=JSON: finished, origin_si, manifest, verifycaps, storage-index,
\* stats; "the full results will not be available until the operation is complete"
ManifestJsonKeys(fin) == IF fin THEN {"finished", "origin_si", "manifest", "verifycaps", "storage-index", "stats"}
                         ELSE {"finished"}

\* compare a status / cancel answer with the page the Spec expects
PageVerdict(S1, h, r) ==
  LET exp == StatusRes(S1, h) IN
  IF r.cls \notin {"ok", "notfound"} THEN "OH_StatusCode"
  ELSE IF exp.cls = "ok" /\ r.cls = "notfound" THEN "OH_Lost_" \o S1.tbl[h].timer.why
  ELSE IF exp.cls = "notfound" /\ r.cls = "ok" THEN "OH_Outlived_" \o S1.tbl[h].timer.why
  ELSE IF exp.cls = "notfound" THEN ""
  ELSE IF r.finished # exp.finished THEN "OH_FinishedFlag"
  ELSE IF r.kind # exp.kind THEN "OH_PageOfNamedOperation"
  ELSE IF r.dir # "" /\ r.dir # exp.dir THEN "OH_PageOfNamedOperation"
  ELSE IF exp.finished /\ ~(r.full /\ r.dir = exp.dir) THEN "OH_ResultsEqualSynchronous"
  \* "the full results will not be available until the operation is complete" (documented for the manifest)
  ELSE IF ~exp.finished /\ (r.full \/ r.listed) /\ exp.kind = "manifest" THEN "OH_ResultsBeforeFinished"
  \* "a JSON-formatted dictionary with six keys" (only some histories record the keys of the page)
  ELSE IF "keys" \in DOMAIN r /\ exp.kind = "manifest" /\ ~(ManifestJsonKeys(exp.finished) \subseteq ToSet(r.keys))
       THEN "OH_ManifestJsonKeys"
  ELSE ""

VStart(e) ==
  LET exp == StartRes(S, e.h, e.kind, e.dir, e.isdir, Ret(e.retain)) IN
  IF e.res.cls # exp.cls THEN V(IF exp.cls = "redirect" THEN "OH_StartRedirects" ELSE "OH_BadStartRefused", S)
  ELSE IF exp.cls = "redirect" /\ ~e.res.loc THEN V("OH_StartRedirectTarget", S)
  ELSE V("", Start(S, e.h, e.kind, e.dir, e.isdir, Ret(e.retain)))

VStatus(e) ==
  LET S1 == Adopt(e.h, e.res.cls)
      c == PageVerdict(S1, e.h, e.res)
  IN IF c # "" THEN V(c, S)
     ELSE IF LooseGone(e.h, e.res.cls) /\ PrintT(<<"VF_NOTE", tid, l, "loose_handle_found_gone">>) THEN V("", S1)
     ELSE V("", Status(S1, e.h, Ret(e.retain), e.release))

VCancel(e) ==
  LET S1 == Adopt(e.h, e.res.cls)
      c == PageVerdict(S1, e.h, e.res)
  IN IF Len(e.reached) # Len(S.ops) THEN V("harness_reached_shape", S)
     ELSE IF c # "" THEN V(c, S)
     ELSE V("", Cancel(S1, e.h, IF Present(S1, e.h) THEN e.reached[S1.tbl[e.h].op] ELSE 0))

VAdvance(e) == V("", Advance(S, e.dt))

RECURSIVE CompleteAll(_, _)
CompleteAll(T, q) == IF q = <<>> THEN T ELSE CompleteAll(Complete(T, Head(q)), Tail(q))

\* "This terminates the operation": once cancelled, an operation reaches no further directory
Frozen(e) == \A o \in DOMAIN S.ops : S.ops[o].st \in {"cancelled", "stopped"} => e.reached[o] = S.ops[o].tc

VWork(e) ==
  IF Len(e.reached) # Len(S.ops) THEN V("harness_reached_shape", S)
  ELSE IF ~(ToSet(e.quiet) \subseteq Active(S)) THEN V("harness_quiet_inactive", S)
  ELSE IF ~Frozen(e) THEN V("OH_CancelStops", S)
  ELSE V("", CompleteAll(S, e.quiet))

Verdict(e) ==
  CASE e.ev = "Start"   -> VStart(e)
    [] e.ev = "Status"  -> VStatus(e)
    [] e.ev = "Cancel"  -> VCancel(e)
    [] e.ev = "Advance" -> VAdvance(e)
    [] e.ev = "Work"    -> VWork(e)
    [] OTHER            -> V("unknown_event", S)

TraceInit ==
  /\ tid \in 1..Len(Traces)
  /\ l = 1
  /\ S = InitOH(ToSet(Traces[tid].consts.handles))
  /\ bad = "none"

TraceNext ==
  /\ bad = "none"
  /\ l <= Len(Events)
  /\ LET v == Verdict(Ev)
         c == IF v.c # "" THEN v.c
              ELSE IF ~StateOK(v.s) THEN "StateOK"
              ELSE ""
     IN IF c = ""
          THEN /\ S' = v.s /\ l' = l + 1 /\ bad' = "none"
               /\ (l = Len(Events) => PrintT(<<"VF_ACCEPT", tid, l>>))
          ELSE /\ bad' = c /\ UNCHANGED <<S, l>>
               /\ PrintT(<<"VF_REJECT", tid, l, c>>)
  /\ UNCHANGED tid

TraceSpec == TraceInit /\ [][TraceNext]_tvars
TraceOK == bad = "none"
=============================================================================
