------------------------------- MODULE WebOps -------------------------------
(* The write side of the web API (docs/frontends/webapi.rst, "Programmatic
   Operations" and "Browser Operations") as operators over the directory world
   of spec/dir/Dirnode.tla + DirnodeMore.tla.  Every request is an operator

        Serve(WW, q, fresh, now) = [codes, W, out, redir, kind, body]

   WW = [D, imm, mf]   D, imm  the directories (DirnodeMore's world W = [D, imm])
                       mf      the mutable files: id -> [c, fmt] (contents, SDMF / MDMF)
   q      the request (one record shape for all of them, see Req below)
   fresh  [dirs, files]  identities for objects created now, consumed in path order
   codes  the set of HTTP status codes the document allows for this answer
   W      the world afterwards
   out    the object whose cap is the response body ([id, type, w]; NoChild = none)
   redir  the response redirects to the when_done= URL
   kind / body  answers of the two read requests (t=json: "dirnode" / "filenode"; GET: contents)

   Sources of the intended behaviour: webapi.rst for every effect and every status
   code that it names (201 / 200 for PUT, 409 for replace conflicts, 404 for a
   missing child, 400 for invalid parameters, "an error" = some 400-series code:
   "When an error occurs, the HTTP response code will be set to an appropriate
   400-series code"); allmydata/web/common.py humanize_exception for 410 (a file
   whose shares are gone).  Where the document is silent the operator says what
   the code does and is marked (code).  Deliberate deviations of the code from
   the document are NOT modelled here: the extra's probes show them (notes/X-webapi_ops.md).

   The WO clauses at the end state the behaviour over (world before, world after,
   request, answer) without using the operators. *)
EXTENDS DirnodeMore

(* ------------------------------- the world -------------------------------- *)
DW(WW) == [D |-> WW.D, imm |-> WW.imm]
WithDW(WW, W) == [D |-> W.D, imm |-> W.imm, mf |-> WW.mf]

MutableFormats == {"sdmf", "mdmf", "mutable"}       \* format=SDMF, format=MDMF, mutable=true
FmtOf(f) == IF f = "mdmf" THEN "mdmf" ELSE "sdmf"   \* mutable=true: the node's default mutable format (SDMF)
Mut(id) == [id |-> id, type |-> "file", w |-> TRUE]
IsMutFile(WW, c) == c.type = "file" /\ c.id \in DOMAIN WW.mf
\* immutable files are their contents (convergent CHK / literal caps): FileNode of DirnodeMore
ContentOfImm == [fc1 |-> "c1", fc2 |-> "c2", flit |-> "lit"]
\* files whose shares are not on the grid (the driver's f2)
GoneIds == {"f2"}
ContentOf(WW, c) == IF c.id \in DOMAIN WW.mf THEN WW.mf[c.id].c
                    ELSE IF c.id \in DOMAIN ContentOfImm THEN ContentOfImm[c.id] ELSE "?"

(* ------------------------------ status codes ------------------------------ *)
OK == {200}
Created == {201}
Success == 200..299
Redirect == 300..399
BadRequest == {400}
NotFound == {404}
Conflict == {409}
Gone == {410}
ClientError == 400..499
IsSuccessCode(c) == c \in 200..399
IsErrorCode(c) == c >= 400

WR(codes, WW, out) == [codes |-> codes, W |-> WW, out |-> out, redir |-> FALSE, kind |-> "", body |-> ""]

\* exceptions of the directory layer as the document's status codes
ErrOf(st) == CASE st = "ExistingChildError" -> Conflict
               [] st = "NoSuchChildError" -> NotFound
               [] st = "MustBeDeepImmutableError" -> BadRequest
               [] OTHER -> ClientError                       \* NotWriteableError ...: "an appropriate 400-series code"

(* ------------------------------- requests ---------------------------------
   Req = [op, method, d, via, path, name, replace, overwrite, format, content, kids, json, cap,
          to_d, to_via, to_path, to_name, when_done]
     d, via     the cap the URL starts with: directory d held read-write ("rw") or read-only ("ro")
     path       the names after the cap
     name       name= / from_name=
     replace    "none" (not given) | "true" | "false" | "only_files" | "bad"
     overwrite  the same for t=set_children's overwrite=
     format     "none" | "chk" | "sdmf" | "mdmf" | "mutable" (mutable=true) | "bad"
     kids       children of the JSON body; json = "junk": the body is not JSON
     cap        the child cap of t=uri ([id, type, w]; type "junk": not a cap)
     to_d ...   t=relink's to_dir= ($CAP/path) and to_name= ("" = not given)            *)
UnlinkedOps == {"put_unlinked", "post_unlinked", "mkdir_unlinked", "mkdirc_unlinked", "mkdiri_unlinked"}
\* requests that name their target slot by the last element of the URL path
PathSlotOps == {"put_file", "put_uri", "mkdir", "mkdirc", "mkdiri", "upload_at", "delete", "get", "get_json"}
\* requests whose URL is the parent directory and whose slot is name=
NameSlotOps == {"mkdir_named", "mkdirc_named", "mkdiri_named", "upload", "post_uri", "post_delete"}
MoveOps == {"rename", "relink"}
ReadReqs == {"get", "get_json"}
\* "This will create additional intermediate directories as necessary"
CreatingOps == {"put_file", "put_uri", "mkdir", "mkdirc", "mkdiri", "upload_at",
                "mkdir_named", "mkdirc_named", "mkdiri_named", "upload", "post_uri"}
StoreOps == {"put_file", "upload", "upload_at"}

Rep(q) == IF q.replace = "none" THEN "true" ELSE q.replace
\* t=set_children: the document's argument is overwrite=; replace= is what the code reads (accepted as a synonym)
Ow(q) == IF q.overwrite # "none" THEN q.overwrite ELSE Rep(q)
\* mkdir&name= and t=upload take a boolean replace= only
BoolReplaceOps == {"mkdir_named", "upload", "upload_at"}

BadArgs(q) ==
  \/ q.op = "bad_t"
  \/ q.replace = "bad" \/ q.overwrite = "bad" \/ q.format = "bad"
  \/ (q.op \in BoolReplaceOps /\ q.replace = "only_files")
  \/ q.json = "junk"
  \/ (q.op \in {"put_uri", "post_uri"} /\ q.cap.type = "junk")
  \/ (q.op = "rename" /\ (q.to_name = "" \/ q.to_d # ""))       \* to_name= is required, to_dir= is not valid
  \/ (q.op = "mkdir_unlinked" /\ q.format = "chk")               \* (code)
  \/ (q.op \in PathSlotOps \ ReadReqs /\ Len(q.path) = 0)        \* no child name in the URL
  \* t=mkdir-immutable: "A non-empty request body is mandatory, since after the directory is created, it will
  \* not be possible to add more children to it."
  \/ (q.op \in {"mkdiri", "mkdiri_named", "mkdiri_unlinked"} /\ Len(q.kids) = 0)

ParentPath(q) == IF q.op \in PathSlotOps THEN SubSeq(q.path, 1, Len(q.path) - 1) ELSE q.path
SlotName(q) == IF q.op \in PathSlotOps THEN (IF Len(q.path) = 0 THEN "" ELSE q.path[Len(q.path)]) ELSE q.name
FullPath(q) == IF q.op \in PathSlotOps THEN q.path ELSE q.path \o <<q.name>>

(* --------------------------- walking the URL path -------------------------
   DirectoryNodeHandler.getChild: one name after the other; with `create` a
   missing name becomes a new empty mutable directory.  Answers
   [st, W, d, via, k]: the directory reached, the authority held over it, how
   many fresh identities were used. *)
RECURSIVE WalkFrom(_, _, _, _, _, _, _, _, _)
WalkFrom(W, d, via, path, i, create, fd, k, now) ==
  IF i > Len(path) THEN [st |-> "ok", W |-> W, d |-> d, via |-> via, k |-> k]
  ELSE LET n == Norm(path[i]) IN
    IF Has(W.D, d, n)
      THEN LET c == View(W.D[d][n].child, EffVia(W, d, via)) IN
           IF c.type = "dir" THEN WalkFrom(W, c.id, IF c.w THEN "rw" ELSE "ro", path, i + 1, create, fd, k, now)
           ELSE [st |-> IF create THEN "blocked" ELSE "notdir", W |-> W, d |-> d, via |-> via, k |-> k]
    ELSE IF ~create THEN [st |-> "notfound", W |-> W, d |-> d, via |-> via, k |-> k]
    ELSE LET m == Mkdir(W, [d |-> d, via |-> via, name |-> path[i], kids |-> <<>>, ow |-> "true",
                            mutable |-> TRUE, md |-> "keep"], fd[k + 1], now) IN
         IF m.st # "ok" THEN [st |-> "notwriteable", W |-> W, d |-> d, via |-> via, k |-> k]
         ELSE WalkFrom(m.W, fd[k + 1], "rw", path, i + 1, create, fd, k + 1, now)

Resolve(WW, q, path, create, fresh, now) == WalkFrom(DW(WW), q.d, q.via, path, 1, create, fresh.dirs, 0, now)

\* "This operation will return an error if a blocking file is present at any of the parent names"
WalkErr(q, st) == CASE st = "notfound" -> NotFound
                    \* t=relink: "HTTP 400 if any entry in the source or destination paths is not a directory"
                    [] st = "notdir" /\ q.op = "relink" -> BadRequest
                    [] OTHER -> ClientError

\* an answer that reports an error leaves the world as it was
Atomic(WW, r) == IF r.codes \subseteq ClientError THEN [r EXCEPT !.W = WW] ELSE r
\* when_done=URL: "the HTTP response will cause the web browser to redirect to the given URL"
Done(q, r) == IF q.when_done /\ ~(r.codes \subseteq ClientError) THEN [r EXCEPT !.codes = Redirect, !.redir = TRUE, !.out = NoChild] ELSE r

(* ------------------------------ storing a file ----------------------------
   PUT .../FILENAME and POST ?t=upload on the slot P / n.
   put:    "If the target file is a writeable mutable file, that file's contents will be overwritten in-place.
            If it is a read-cap for a mutable file, an error will occur.  If it is an immutable file, the old
            file will be discarded, and a new one will be put in its place." ... "If a new file was created by
            this method, the HTTP response code will be set to 201 CREATED.  If an existing file was replaced or
            modified, the response code will be 200 OK."
   upload: "If there is already a child with that name, and it is a mutable file, then its contents are
            replaced with the data being uploaded.  If it is not a mutable file, the default behavior is to
            remove the existing child before creating a new one. ... With replace=false, this operation will
            return an HTTP 409 "Conflict" error if there is already an object at the given location" *)
NewFile(WW, c, f, ff) ==
  IF f \in MutableFormats
    THEN [child |-> Mut(ff[1]), mf |-> Put(WW.mf, ff[1], [c |-> c, fmt |-> FmtOf(f)])]
    ELSE [child |-> FileNode(c), mf |-> WW.mf]

StoreAt(WW, P, via, n, c, f, rp, mode, ff, now) ==
  LET ev == EffVia(DW(WW), P, via)
      nn == Norm(n)
      nf == NewFile(WW, c, f, ff)
      a  == Add(WW.D, P, ev, n, nf.child, "keep", rp, now)
      linked == IF a.st # "ok" THEN WR(ErrOf(a.st), WW, NoChild)
                ELSE WR(IF mode = "put" THEN (IF Has(WW.D, P, nn) THEN OK ELSE Created) ELSE Success,
                        [WW EXCEPT !.D = a.D, !.mf = nf.mf], nf.child)
  IN IF ~Has(WW.D, P, nn) THEN linked
     ELSE LET c0 == View(WW.D[P][nn].child, ev) IN
          \* PUT with a directory in the slot (code: "PUT to a directory", whatever replace= says; the document is silent)
          IF c0.type = "dir" /\ mode = "put" THEN WR(ClientError, WW, NoChild)
          ELSE IF rp = "false" THEN WR(Conflict, WW, NoChild)
          ELSE IF IsMutFile(WW, c0)
            THEN IF c0.w THEN WR(IF mode = "put" THEN OK ELSE Success, [WW EXCEPT !.mf[c0.id].c = c], c0)
                 ELSE WR(ClientError, WW, NoChild)
          ELSE linked

KidsOf(q) == [i \in 1..Len(q.kids) |-> [q.kids[i] EXCEPT !.md = IF @ = "none" THEN "m0" ELSE @]]

(* ------------------------------- the requests ----------------------------- *)
\* PUT /uri, POST /uri?t=upload: "No directories will be modified by this operation."
Unlinked(WW, q, fresh, now) ==
  CASE q.op \in {"put_unlinked", "post_unlinked"} ->
         LET nf == NewFile(WW, q.content, q.format, fresh.files) IN
         \* POST answers with a page describing the upload; with when_done= it redirects, "%(uri)s" replaced by the cap
         IF q.op = "post_unlinked" /\ q.when_done THEN [WR(Redirect, [WW EXCEPT !.mf = nf.mf], nf.child) EXCEPT !.redir = TRUE]
         ELSE WR(Success, [WW EXCEPT !.mf = nf.mf], nf.child)
    [] q.op = "mkdir_unlinked" ->
         WR(Success, [WW EXCEPT !.D = WithDir(WW.D, fresh.dirs[1], <<>>)], [id |-> fresh.dirs[1], type |-> "dir", w |-> TRUE])
    [] q.op = "mkdirc_unlinked" ->
         WR(Success, [WW EXCEPT !.D = WithDir(WW.D, fresh.dirs[1], InitContents(KidsOf(q)))], [id |-> fresh.dirs[1], type |-> "dir", w |-> TRUE])
    [] q.op = "mkdiri_unlinked" ->
         LET kids == KidsOf(q)
             contents == InitContents(kids)
             id == ImmTarget(DW(WW), contents, fresh.dirs[1])
         IN IF \E i \in Survivors(kids) : ~DeepImm(DW(WW), kids[i].child) THEN WR(BadRequest, WW, NoChild)
            ELSE WR(Success, [WW EXCEPT !.D = WithDir(WW.D, id, contents), !.imm = @ \cup {id}], [id |-> id, type |-> "dir", w |-> FALSE])

\* the requests whose URL is walked with directory creation
Creating(WW, q, fresh, now) ==
  LET wk == Resolve(WW, q, ParentPath(q), TRUE, fresh, now)
      W1 == WithDW(WW, wk.W)
      n  == SlotName(q)
      nn == Norm(n)
      ev == EffVia(wk.W, wk.d, wk.via)
      present == Has(wk.W.D, wk.d, nn)
      mk(kids, ow, mutable) ==
        LET m == Mkdir(wk.W, [d |-> wk.d, via |-> wk.via, name |-> n, kids |-> kids, ow |-> ow, mutable |-> mutable, md |-> "keep"],
                       fresh.dirs[wk.k + 1], now)
        IN IF m.st = "ok" THEN WR(Success, WithDW(WW, m.W), m.out) ELSE WR(ErrOf(m.st), WW, NoChild)
      link(child) ==
        LET a == Add(wk.W.D, wk.d, ev, n, child, "keep", Rep(q), now)
        IN IF a.st = "ok" THEN WR(Success, [W1 EXCEPT !.D = a.D], child) ELSE WR(ErrOf(a.st), WW, NoChild)
  IN IF wk.st # "ok" THEN WR(WalkErr(q, wk.st), WW, NoChild)
     ELSE CASE q.op \in StoreOps ->
                 StoreAt(W1, wk.d, wk.via, n, q.content, q.format, Rep(q), IF q.op = "put_file" THEN "put" ELSE "upload", fresh.files, now)
            \* "The read- or write- cap of the child is provided in the body ... and this same cap is returned"
            [] q.op \in {"put_uri", "post_uri"} -> link(q.cap)
            \* "make sure that the named target is a directory ... If the named target directory already exists,
            \*  this will make no changes to it."
            [] q.op = "mkdir" ->
                 IF present THEN LET c == View(wk.W.D[wk.d][nn].child, ev) IN
                                 IF c.type = "dir" THEN WR(Success, W1, c) ELSE WR(ClientError, WW, NoChild)
                 ELSE mk(<<>>, "true", TRUE)
            \* "Create a new empty mutable directory and attach it to the given existing directory."
            [] q.op = "mkdir_named" -> mk(<<>>, Rep(q), TRUE)
            \* "an error ... if the immediate parent directory already has a child named SUBDIR / NAME"
            [] q.op \in {"mkdirc", "mkdirc_named"} -> IF present THEN WR(ClientError, WW, NoChild) ELSE mk(KidsOf(q), "false", TRUE)
            [] q.op \in {"mkdiri", "mkdiri_named"} -> IF present THEN WR(ClientError, WW, NoChild) ELSE mk(KidsOf(q), "false", FALSE)

\* the requests on things that must exist
Existing(WW, q, fresh, now) ==
  LET wk == Resolve(WW, q, ParentPath(q), FALSE, fresh, now)
      n  == SlotName(q)
      nn == Norm(n)
      ev == EffVia(wk.W, wk.d, wk.via)
      dirop(r, out) == IF IsOk(r.st) THEN WR(Success, [WW EXCEPT !.D = r.D], out) ELSE WR(ErrOf(r.st), WW, NoChild)
  IN IF wk.st # "ok" THEN WR(WalkErr(q, wk.st), WW, NoChild)
     ELSE CASE q.op = "set_children" ->
                 LET r == SetChildren(wk.W, [d |-> wk.d, via |-> wk.via, items |-> q.kids, ow |-> Ow(q)], now)
                 IN IF r.st = "ok" THEN WR(Success, WithDW(WW, r.W), NoChild) ELSE WR(ErrOf(r.st), WW, NoChild)
            \* "This method returns the file- or directory- cap of the object that was just removed."
            [] q.op = "delete" ->
                 LET r == Delete(WW.D, wk.d, ev, n, TRUE, FALSE, FALSE) IN dirop(r, View(r.out, ev))
            [] q.op = "post_delete" ->
                 LET r == Delete(WW.D, wk.d, ev, n, TRUE, FALSE, FALSE) IN dirop(r, NoChild)
            [] q.op = "rename" ->
                 dirop(Move(WW.D, wk.d, ev, n, wk.d, ev, q.to_name, Rep(q), now), NoChild)
            [] q.op = "relink" ->
                 LET tk == WalkFrom(DW(WW), q.to_d, q.to_via, q.to_path, 1, FALSE, <<>>, 0, now) IN
                 IF tk.st # "ok" THEN WR(WalkErr(q, tk.st), WW, NoChild)
                 ELSE dirop(Move(WW.D, wk.d, ev, n, tk.d, EffVia(DW(WW), tk.d, tk.via), q.to_name, Rep(q), now), NoChild)
            [] q.op \in ReadReqs ->
                 IF Len(q.path) = 0
                   THEN [WR(OK, WW, [id |-> q.d, type |-> "dir", w |-> (EffVia(DW(WW), q.d, q.via) = "rw")]) EXCEPT !.kind = "dirnode"]
                 ELSE IF ~Has(WW.D, wk.d, nn) THEN WR(NotFound, WW, NoChild)
                 ELSE LET c == View(WW.D[wk.d][nn].child, ev) IN
                      IF q.op = "get_json"
                        THEN [WR(OK, WW, c) EXCEPT !.kind = IF c.type = "dir" THEN "dirnode" ELSE IF c.type = "file" THEN "filenode" ELSE "unknown"]
                      \* GET of a file: its contents; 410 when its shares are gone (humanize_exception)
                      ELSE IF c.type # "file" THEN WR(Success, WW, NoChild)
                      ELSE IF c.id \in GoneIds THEN WR(Gone, WW, NoChild)
                      ELSE [WR(OK, WW, NoChild) EXCEPT !.body = ContentOf(WW, c)]

Serve(WW, q, fresh, now) ==
  IF BadArgs(q) THEN WR(BadRequest, WW, NoChild)
  ELSE IF q.op \in UnlinkedOps THEN Unlinked(WW, q, fresh, now)
  ELSE IF q.op \in CreatingOps THEN Done(q, Atomic(WW, Creating(WW, q, fresh, now)))
  ELSE Done(q, Existing(WW, q, fresh, now))

(* ==================== the behaviour, stated directly =======================
   over one request q served at time `now` in world WW, answered with
   r = [code, out, redir, kind, body] and leaving world WW2.  Nothing below uses
   the operators above; paths are resolved as the image of the link relation
   (After of DirnodeMore.tla).  (LET-bound values are evaluated once by TLC.) *)
\* the directory the prefix of length k of path p leads to from d ({} = nowhere)
Reach(WW, d, p, k) == After(WW, d, p, k)
TheOne(S) == CHOOSE x \in S : TRUE
\* the slot a (directory path, name) addresses in world WW: [ok, d, n, present, child]
SlotOf(WW, d, p, name) ==
  LET S == {x \in Reach(WW, d, p, Len(p)) : x \in DOMAIN WW.D}
      n == Norm(name) IN
  IF S = {} THEN [ok |-> FALSE, d |-> "none", n |-> n, present |-> FALSE, child |-> NoChild]
  ELSE LET P == TheOne(S) IN
       [ok |-> TRUE, d |-> P, n |-> n, present |-> Has(WW.D, P, n), child |-> IF Has(WW.D, P, n) THEN WW.D[P][n].child ELSE NoChild]
Slot(WW, q) == SlotOf(WW, q.d, ParentPath(q), SlotName(q))
\* t=rename / t=relink: the destination slot
DestName(q) == IF q.to_name = "" THEN q.name ELSE q.to_name
Dest(WW, q) == IF q.op = "rename" THEN SlotOf(WW, q.d, q.path, DestName(q)) ELSE SlotOf(WW, q.to_d, q.to_path, DestName(q))
SameSlot(s, t) == s.ok /\ t.ok /\ s.d = t.d /\ s.n = t.n
\* some entry on the way is not a directory
ThroughNonDir(WW, d, p) == \E k \in 1..Len(p) : \E x \in Reach(WW, d, p, k) : x \notin DOMAIN WW.D
WellFormed(q) == ~BadArgs(q)
\* the writes below are made with write authority all the way (read-only caps are the subject of C41)
WriteableAt(WW, d, via, pp) ==
  via = "rw" /\ \A k \in 0..Len(pp) :
     \A x \in Reach(WW, d, pp, k) : x \in DOMAIN WW.D /\ x \notin WW.imm /\
        ((k < Len(pp) /\ Has(WW.D, x, Norm(pp[k + 1]))) => WW.D[x][Norm(pp[k + 1])].child.w)
Writeable(WW, q) == WriteableAt(WW, q.d, q.via, ParentPath(q))
DestWriteable(WW, q) == IF q.op = "rename" THEN Writeable(WW, q) ELSE WriteableAt(WW, q.to_d, q.to_via, q.to_path)
\* the path does not walk over the link it is about to set (a directory reachable from itself): otherwise
\* the URL names something else afterwards and the document's promises about "the same URL" are void
Simple(WW, q) ==
  LET s == Slot(WW, q)  pp == ParentPath(q) IN
  s.ok => \A k \in 1..Len(pp) : ~(Norm(pp[k]) = s.n /\ s.d \in Reach(WW, q.d, pp, k - 1))

\* "Unusual exceptions may result in a 500": none of the requests of this model is unusual
WO_Status(WW, WW2, q, r, now) == r.code \in 200..499
\* an error answer changes nothing
WO_ErrorNoChange(WW, WW2, q, r, now) == IsErrorCode(r.code) => WW2 = WW
\* "GET operations are required to have no side-effects"
WO_ReadsPure(WW, WW2, q, r, now) == q.op \in ReadReqs => WW2 = WW
\* invalid parameters: 400 Bad Request, nothing happens
WO_BadRequest(WW, WW2, q, r, now) == BadArgs(q) => r.code = 400 /\ WW2 = WW
\* PUT /uri, POST /uri?t=upload, /uri?t=mkdir...: "No directories will be modified"; the body is the cap of the new object
WO_Unlinked(WW, WW2, q, r, now) ==
  (q.op \in UnlinkedOps /\ WellFormed(q)) =>
     /\ \A x \in DOMAIN WW.D : x \in DOMAIN WW2.D /\ WW2.D[x] = WW.D[x]
     /\ IsSuccessCode(r.code) =>
          /\ (q.op \in {"put_unlinked", "post_unlinked"}) =>
                /\ r.out.type = "file" /\ DOMAIN WW2.D = DOMAIN WW.D
                /\ ContentOf(WW2, r.out) = q.content
                /\ (r.out.id \in DOMAIN WW2.mf) = (q.format \in MutableFormats)
                /\ (q.format \in MutableFormats) => r.out.w /\ r.out.id \notin DOMAIN WW.mf /\ WW2.mf[r.out.id].fmt = FmtOf(q.format)
          /\ (q.op \in {"mkdir_unlinked", "mkdirc_unlinked", "mkdiri_unlinked"}) =>
                /\ r.out.type = "dir" /\ r.out.id \in DOMAIN WW2.D
                /\ r.out.w = (q.op # "mkdiri_unlinked") /\ (r.out.id \in WW2.imm) = (q.op = "mkdiri_unlinked")
                /\ (q.op # "mkdiri_unlinked" => r.out.id \notin DOMAIN WW.D)            \* "the returned write-cap is the only reference to it"
                /\ DOMAIN WW2.D[r.out.id] = {Norm(q.kids[i].name) : i \in 1..Len(q.kids)}
\* replace=false never replaces: 409 Conflict; replace=only-files never replaces a directory
\* (for requests made with write authority: what a read-only directory answers first is not the subject)
Replacing == {"put_file", "put_uri", "mkdir_named", "upload", "upload_at", "post_uri"}
WO_Replace(WW, WW2, q, r, now) ==
  (WellFormed(q) /\ Writeable(WW, q)) =>
   LET s == Slot(WW, q) IN
   /\ (q.op \in Replacing /\ Rep(q) = "false" /\ s.present) =>
         IsErrorCode(r.code) /\ WW2 = WW /\ (~(q.op = "put_file" /\ s.child.type = "dir") => r.code = 409)
   /\ (q.op \in {"put_uri", "post_uri"} /\ Rep(q) = "only_files" /\ s.present /\ s.child.type = "dir") => r.code = 409 /\ WW2 = WW
   \* mkdir-with-children / mkdir-immutable: an error if the parent already has a child of that name
   /\ (q.op \in {"mkdirc", "mkdirc_named", "mkdiri", "mkdiri_named"} /\ s.present) => IsErrorCode(r.code) /\ WW2 = WW
   /\ (q.op \in MoveOps) =>
        LET t == Dest(WW, q) IN
        (s.present /\ t.present /\ ~SameSlot(s, t) /\ DestWriteable(WW, q) /\
           (Rep(q) = "false" \/ (Rep(q) = "only_files" /\ t.child.type = "dir"))) => r.code = 409 /\ WW2 = WW
   \* t=set_children with overwrite=false: "an attempt to replace an existing child will instead cause an error"
   /\ (q.op = "set_children" /\ Ow(q) = "false" /\ s.ok /\
         \E i \in 1..Len(q.kids) : Has(WW.D, s.d, Norm(q.kids[i].name))) => IsErrorCode(r.code) /\ WW2 = WW
\* PUT of a file: 201 Created for a new file, 200 OK for a replaced or modified one
WO_PutCode(WW, WW2, q, r, now) ==
  (q.op = "put_file" /\ r.code \in 200..299) => r.code = (IF Slot(WW, q).present THEN 200 ELSE 201)
\* "Once this operation succeeds, a GET on the same URL will retrieve the same contents that were just uploaded."
WO_ReadBack(WW, WW2, q, r, now) ==
  (q.op \in StoreOps /\ IsSuccessCode(r.code) /\ Simple(WW, q)) =>
     LET s == Slot(WW2, q) IN
     /\ s.ok /\ s.present /\ s.child.type = "file" /\ ContentOf(WW2, s.child) = q.content
     /\ ~q.when_done => r.out.id = s.child.id /\ r.out.type = "file"
\* a writeable mutable file in the slot is overwritten in place: the link stays, only its contents change
WO_InPlace(WW, WW2, q, r, now) ==
  (q.op \in StoreOps /\ IsSuccessCode(r.code)) =>
     LET s == Slot(WW, q) IN
     (s.present /\ IsMutFile(WW, s.child) /\ s.child.w) =>
        /\ WW2.D = WW.D
        /\ WW2.mf = [WW.mf EXCEPT ![s.child.id].c = q.content]
\* a new file is mutable iff the request says so, and of the format it names; existing mutable files keep
\* their contents unless they are the target
WO_Files(WW, WW2, q, r, now) ==
  LET s == Slot(WW, q) IN
  /\ \A g \in DOMAIN WW.mf : g \in DOMAIN WW2.mf /\ WW2.mf[g].fmt = WW.mf[g].fmt /\
        (WW2.mf[g].c # WW.mf[g].c => q.op \in StoreOps /\ s.present /\ s.child.id = g /\ s.child.w)
  /\ \A g \in DOMAIN WW2.mf \ DOMAIN WW.mf :
        /\ q.op \in StoreOps \cup {"put_unlinked", "post_unlinked"} /\ q.format \in MutableFormats
        /\ WW2.mf[g] = [c |-> q.content, fmt |-> FmtOf(q.format)]
  /\ (q.op \in StoreOps /\ IsSuccessCode(r.code) /\ Simple(WW, q) /\ ~(s.present /\ IsMutFile(WW, s.child))) =>
        (Slot(WW2, q).child.id \in DOMAIN WW2.mf) = (q.format \in MutableFormats)
\* mkdir: afterwards the URL names a directory; one that was there is left alone; a new one holds the initial children
MkdirOps == {"mkdir", "mkdir_named", "mkdirc", "mkdirc_named", "mkdiri", "mkdiri_named"}
WO_Mkdir(WW, WW2, q, r, now) ==
  (q.op \in MkdirOps /\ IsSuccessCode(r.code) /\ Simple(WW, q)) =>
     LET s == Slot(WW2, q)  s0 == Slot(WW, q) IN
     /\ s.ok /\ s.present /\ s.child.type = "dir" /\ s.child.id \in DOMAIN WW2.D
     /\ ~q.when_done => r.out.id = s.child.id /\ r.out.type = "dir"
     /\ (q.op = "mkdir" /\ s0.present) => WW2 = WW /\ s0.child.type = "dir"
     /\ (q.op # "mkdir" \/ ~s0.present) =>
           /\ s.child.id \notin DOMAIN WW.D \/ s.child.id \in WW2.imm
           /\ (s.child.id \in WW2.imm) = (q.op \in {"mkdiri", "mkdiri_named"})
           \* held read-write, unless the link kept "no-write" metadata ("it will cause the link to be diminished to read-only")
           /\ s.child.w = (q.op \notin {"mkdiri", "mkdiri_named"} /\ ~NoWrite(WW2.D[s.d][s.n].md))
           /\ DOMAIN WW2.D[s.child.id] = {Norm(q.kids[i].name) : i \in 1..Len(q.kids)}
\* directories appear only on the path of a creating request, each under the name the path gives it, and only
\* where nothing was; what was on the path stays
WO_Intermediate(WW, WW2, q, r, now) ==
  LET new == DOMAIN WW2.D \ DOMAIN WW.D
      p == IF q.op \in UnlinkedOps \/ q.op \in MoveOps \/ q.op = "bad_t" THEN <<>> ELSE FullPath(q) IN
  /\ DOMAIN WW.D \subseteq DOMAIN WW2.D
  /\ (new # {} /\ q.op \notin UnlinkedOps) =>
        /\ q.op \in CreatingOps /\ IsSuccessCode(r.code)
        /\ Simple(WW, q) => \A x \in new : \E k \in 1..Len(p) : x \in Reach(WW2, q.d, p, k) /\ (k = Len(p) \/ Reach(WW, q.d, p, k) = {})
  /\ (q.op \in CreatingOps /\ IsSuccessCode(r.code) /\ Simple(WW, q)) =>
        \A k \in 1..(Len(p) - 1) :
           LET before == Reach(WW, q.d, p, k) IN
           /\ before # {} => Reach(WW2, q.d, p, k) = before
           \* an intermediate directory made now is mutable and holds nothing but the next name
           /\ before = {} => \A x \in Reach(WW2, q.d, p, k) :
                 x \in new /\ x \notin WW2.imm /\ DOMAIN WW2.D[x] = {Norm(p[k + 1])}
\* a request edits the slot it names (t=relink: and the destination; t=set_children: the names of the body)
\* and the missing part of its path; every other link stays as it is
SlotsTouched(WW, q) ==
  IF q.op \in UnlinkedOps \cup {"bad_t"} THEN {}
  ELSE IF q.op = "set_children" THEN {<<x, Norm(q.kids[i].name)>> : x \in Reach(WW, q.d, q.path, Len(q.path)), i \in 1..Len(q.kids)}
  ELSE LET p == FullPath(q) IN
       UNION {{<<x, Norm(p[k])>> : x \in {y \in Reach(WW, q.d, p, k - 1) : y \in DOMAIN WW.D /\ (k = Len(p) \/ ~Has(WW.D, y, Norm(p[k])))}} : k \in 1..Len(p)}
       \cup (IF q.op \in MoveOps THEN LET t == Dest(WW, q) IN IF t.ok THEN {<<t.d, t.n>>} ELSE {} ELSE {})
WO_Frame(WW, WW2, q, r, now) ==
  LET T == SlotsTouched(WW, q) IN
  \A x \in DOMAIN WW.D : x \in DOMAIN WW2.D /\
     (WW2.D[x] # WW.D[x] => \A m \in (DOMAIN WW.D[x]) \cup (DOMAIN WW2.D[x]) : <<x, m>> \notin T => Same(WW.D, WW2.D, x, m))
\* DELETE / t=delete / t=unlink: 404 for a name that is not there; afterwards the name is gone; DELETE answers
\* with the cap of what was unlinked
DeleteOps == {"delete", "post_delete"}
WO_Delete(WW, WW2, q, r, now) ==
  (q.op \in DeleteOps /\ WellFormed(q)) =>
     LET s == Slot(WW, q) IN
     /\ (s.ok /\ ~s.present /\ Writeable(WW, q)) => r.code = 404
     /\ (~s.ok /\ ~ThroughNonDir(WW, q.d, ParentPath(q))) => r.code = 404
     /\ IsSuccessCode(r.code) => /\ s.present /\ ~Has(WW2.D, s.d, s.n)
                                 /\ (q.op = "delete") => r.out.id = s.child.id /\ r.out.type = s.child.type
     /\ (s.present /\ Writeable(WW, q)) => IsSuccessCode(r.code)
\* t=rename / t=relink: "a similar effect to removing the child, then adding the same child-cap under the new
\* name, except that it preserves metadata"; 404 when the child or the destination directory does not exist;
\* "If the destination link is the same as the source link, the operation has no effect."
WO_Move(WW, WW2, q, r, now) ==
  (q.op \in MoveOps /\ WellFormed(q)) =>
     LET s == Slot(WW, q)  t == Dest(WW, q)  same == SameSlot(s, t) IN
     /\ same => WW2 = WW
     /\ (s.ok /\ t.ok /\ ~s.present /\ ~same /\ Writeable(WW, q) /\ DestWriteable(WW, q)) => r.code = 404
     /\ ((~s.ok /\ ~ThroughNonDir(WW, q.d, q.path)) \/ (s.ok /\ q.op = "relink" /\ ~t.ok /\ ~ThroughNonDir(WW, q.to_d, q.to_path))) => r.code = 404
     /\ (q.op = "relink" /\ (ThroughNonDir(WW, q.d, q.path) \/ (s.ok /\ ThroughNonDir(WW, q.to_d, q.to_path)))) => r.code = 400
     /\ (IsSuccessCode(r.code) /\ ~same) =>
           /\ s.present /\ t.ok
           /\ ~Has(WW2.D, s.d, s.n)
           /\ Has(WW2.D, t.d, t.n) /\ WW2.D[t.d][t.n].child.id = s.child.id /\ WW2.D[t.d][t.n].md = WW.D[s.d][s.n].md
\* t=uri: afterwards the slot holds the cap that was given, and the answer is that cap
WO_Attach(WW, WW2, q, r, now) ==
  (q.op \in {"put_uri", "post_uri"} /\ IsSuccessCode(r.code) /\ Simple(WW, q)) =>
     LET s == Slot(WW2, q) IN
     /\ s.ok /\ s.present /\ s.child.id = q.cap.id /\ s.child.type = q.cap.type /\ (s.child.w => q.cap.w)
     /\ ~q.when_done => r.out.id = q.cap.id /\ r.out.w = q.cap.w
\* t=set_children: afterwards every name of the body is linked to the cap given for it; "if the JSON data does not
\* contain a "metadata" key, the old child's metadata is preserved"
WO_SetChildren(WW, WW2, q, r, now) ==
  (q.op = "set_children" /\ IsSuccessCode(r.code)) =>
     LET P == Slot(WW, q) IN          \* the directory the URL named when the request was made
     /\ P.ok
     /\ \A i \in 1..Len(q.kids) :
          LET n == Norm(q.kids[i].name) IN
          (\A j \in 1..Len(q.kids) : j # i => Norm(q.kids[j].name) # n) =>
             /\ Has(WW2.D, P.d, n) /\ WW2.D[P.d][n].child.id = q.kids[i].child.id
             /\ (q.kids[i].md = "none") => WW2.D[P.d][n].md = (IF Has(WW.D, P.d, n) THEN WW.D[P.d][n].md ELSE "m0")
             /\ (q.kids[i].md # "none") => WW2.D[P.d][n].md = MdStored(q.kids[i].md)
\* when_done=URL redirects after success, and only then
WO_WhenDone(WW, WW2, q, r, now) ==
  /\ r.redir => q.when_done /\ r.code \in 300..399
  /\ (q.when_done /\ IsSuccessCode(r.code) /\ WellFormed(q)) => r.redir
\* a missing thing is 404, a file whose shares are gone 410; t=json says what the URL names and whether it is held read-write
WO_Reads(WW, WW2, q, r, now) ==
  (q.op \in ReadReqs /\ Len(q.path) > 0) =>
     LET s == Slot(WW, q)  nondir == ThroughNonDir(WW, q.d, ParentPath(q)) IN
     /\ ((s.ok /\ ~s.present) \/ (~s.ok /\ ~nondir)) => r.code = 404
     /\ (~s.ok /\ nondir) => IsErrorCode(r.code)
     /\ (s.ok /\ s.present) =>
          /\ (q.op = "get_json") => /\ r.code = 200 /\ r.out.id = s.child.id
                                    /\ r.kind = (IF s.child.type = "dir" THEN "dirnode" ELSE IF s.child.type = "file" THEN "filenode" ELSE "unknown")
                                    /\ r.out.w => s.child.w /\ q.via = "rw"
          /\ (q.op = "get" /\ s.child.type = "file") =>
                IF s.child.id \in GoneIds THEN r.code = 410 ELSE r.code = 200 /\ r.body = ContentOf(WW, s.child)
\* whatever the request, the directory layer's invariants hold afterwards (DirnodeMore.tla)
WO_DirInvariants(WW, WW2, q, r, now) ==
  WW2 # WW =>
    /\ \A x \in DOMAIN WW2.D : \A n \in DOMAIN WW2.D[x] : IsNormal(n)
    /\ \A x \in WW.imm : x \in WW2.imm /\ WW2.D[x] = WW.D[x]
    /\ \A x \in WW2.imm : \A n \in DOMAIN WW2.D[x] : ~WW2.D[x][n].child.w
\* linkmotime "is updated whenever a link to a child is set", linkcrtime "whenever a link to a child is created"
WO_LinkTimes(WW, WW2, q, r, now) ==
  \A x \in DOMAIN WW.D : (x \in DOMAIN WW2.D /\ WW2.D[x] # WW.D[x] /\ x \notin WW2.imm) =>
     \A m \in DOMAIN WW2.D[x] :
        ~Same(WW.D, WW2.D, x, m) =>
           /\ WW2.D[x][m].hasT /\ WW2.D[x][m].mot = now
           /\ (Has(WW.D, x, m) /\ WW.D[x][m].hasT) => WW2.D[x][m].crt = WW.D[x][m].crt
           /\ ~Has(WW.D, x, m) => WW2.D[x][m].crt = now

WO_FirstFailing(WW, WW2, q, r, now) ==
  IF ~WO_Status(WW, WW2, q, r, now) THEN "WO_Status"
  ELSE IF ~WO_ReadsPure(WW, WW2, q, r, now) THEN "WO_ReadsPure"
  ELSE IF ~WO_BadRequest(WW, WW2, q, r, now) THEN "WO_BadRequest"
  ELSE IF ~WO_ErrorNoChange(WW, WW2, q, r, now) THEN "WO_ErrorNoChange"
  ELSE IF ~WO_Unlinked(WW, WW2, q, r, now) THEN "WO_Unlinked"
  ELSE IF ~WO_Replace(WW, WW2, q, r, now) THEN "WO_Replace"
  ELSE IF ~WO_PutCode(WW, WW2, q, r, now) THEN "WO_PutCode"
  ELSE IF ~WO_ReadBack(WW, WW2, q, r, now) THEN "WO_ReadBack"
  ELSE IF ~WO_InPlace(WW, WW2, q, r, now) THEN "WO_InPlace"
  ELSE IF ~WO_Files(WW, WW2, q, r, now) THEN "WO_Files"
  ELSE IF ~WO_Mkdir(WW, WW2, q, r, now) THEN "WO_Mkdir"
  ELSE IF ~WO_Intermediate(WW, WW2, q, r, now) THEN "WO_Intermediate"
  ELSE IF ~WO_Frame(WW, WW2, q, r, now) THEN "WO_Frame"
  ELSE IF ~WO_Delete(WW, WW2, q, r, now) THEN "WO_Delete"
  ELSE IF ~WO_Move(WW, WW2, q, r, now) THEN "WO_Move"
  ELSE IF ~WO_Attach(WW, WW2, q, r, now) THEN "WO_Attach"
  ELSE IF ~WO_SetChildren(WW, WW2, q, r, now) THEN "WO_SetChildren"
  ELSE IF ~WO_WhenDone(WW, WW2, q, r, now) THEN "WO_WhenDone"
  ELSE IF ~WO_Reads(WW, WW2, q, r, now) THEN "WO_Reads"
  ELSE IF ~WO_DirInvariants(WW, WW2, q, r, now) THEN "WO_DirInvariants"
  ELSE IF ~WO_LinkTimes(WW, WW2, q, r, now) THEN "WO_LinkTimes"
  ELSE ""
=============================================================================
