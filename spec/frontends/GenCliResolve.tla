---------------------------- MODULE GenCliResolve ----------------------------
(* GEN table of CliNames!Resolve: every string of at most MaxLen tokens over the base alphabet, and every such
   string of at most MaxLen - 1 tokens behind a whole directory cap, the strings of MaxLen + 1 tokens over {a : / .} alone
   and behind a cap, x 10 combinations of 3 alias tables, {default alias tahoe, no
   default (commands that accept local paths)} and {Unix, Windows}; each row carries the answer the documents
   require.  The driver replays every row into the real allmydata.scripts.common.get_alias.

   The GA clauses below state the documented rules again, over the rows, without going through Resolve's case
   analysis (they reassemble the argument from the answer, or compare two spellings of the same thing). *)
EXTENDS CliNames, Json, IOUtils, SequencesExt

CONSTANT MaxLen

RowKeys == {<<tb, d, w>> : tb \in {"T0", "T2"}, d \in {"tahoe", "none"}, w \in BOOLEAN} \cup {<<"T1", "tahoe", FALSE>>, <<"T1", "none", TRUE>>}

\* ... and, one token longer, the strings over the narrow alphabet
Narrow == {"a", ":", "/", "."}
Strings == SeqsUpTo(Base, MaxLen) \cup {<<CapTok>> \o r : r \in SeqsUpTo(Base, MaxLen - 1)}
           \cup [1..(MaxLen + 1) -> Narrow] \cup {<<CapTok>> \o r : r \in [1..(MaxLen + 1) -> Narrow]}

Row(p, k) == [tbl |-> k[1], dflt |-> k[2], win |-> k[3], exp |-> ResolveP(p, TableOf(k[1]), k[2], k[3]),
              open |-> OpenResolveP(p, TableOf(k[1]), k[2], k[3])]
Cases == {LET p == StripSp(s) IN [s |-> s, rows |-> SetToSeq({Row(p, k) : k \in RowKeys})] : s \in Strings}

ASSUME ndJsonSerialize(IOEnv.OUT_FILE, SetToSeq(Cases))
ASSUME JsonSerialize(IOEnv.TABLES_FILE, [T0 |-> SetToSeq(T0), T1 |-> SetToSeq(T1), T2 |-> SetToSeq(T2)])

VARIABLE c
Init == c \in Cases
Next == UNCHANGED c
Spec == Init /\ [][Next]_c

Rows == {c.rows[i] : i \in 1..Len(c.rows)}
P == StripSp(c.s)
Judged(r) == r.open = ""

\* the answer, put together again, is the argument: nothing is lost, nothing invented
GA_Reassemble ==
  \A r \in Rows : Judged(r) =>
    CASE r.exp.kind = "local" -> r.exp.path = P
      [] r.exp.kind = "ok" /\ r.exp.root.t = "alias" /\ r.exp.root.via = "default" -> r.exp.path = P
      [] r.exp.kind = "ok" /\ r.exp.root.t = "alias" /\ r.exp.root.via = "named" -> r.exp.root.name \o <<":">> \o r.exp.path = P
      [] r.exp.kind = "ok" /\ r.exp.root.t = "lit" ->
            \/ r.exp.path = <<>> /\ r.exp.root.lit = P /\ ~Has(P, "/")
            \/ r.exp.root.lit \o <<"/">> \o r.exp.path = P
            \/ r.exp.root.lit \o <<":", ".", "/">> \o r.exp.path = P
      [] OTHER -> r.exp.path = <<>>
\* a named alias answers with the cap the table has for exactly that name; a cap written out is never looked up
GA_TableCap ==
  \A r \in Rows : (r.exp.kind = "ok" /\ r.exp.root.t = "alias") =>
      [name |-> r.exp.root.name, cap |-> r.exp.root.cap] \in TableOf(r.tbl)
\* DIRCAP: exactly the arguments with the URI: prefix are answered with the cap as written, which has no slash
\* ("a cap"); such arguments never fail and never consult the table
GA_CapForms ==
  \A r \in Rows : /\ (r.exp.kind = "ok" /\ r.exp.root.t = "lit") => (UriPrefix(P) /\ ~Has(r.exp.root.lit, "/"))
                  /\ UriPrefix(P) => (r.exp.kind = "ok" /\ r.exp.root.t = "lit")
\* DIRCAP:./x is x below DIRCAP (the older form, still allowed): the ":." never stays on the cap
GA_ColonDotSlash ==
  \A r \in Rows : (r.exp.kind = "ok" /\ r.exp.root.t = "lit") =>
      LET n == Len(r.exp.root.lit) IN ~(n >= 2 /\ r.exp.root.lit[n - 1] = ":" /\ r.exp.root.lit[n] = "." /\ Len(P) > n /\ P[n + 1] = "/")
\* "tahoe ls" = "tahoe ls tahoe:"; "REMOTE_FILE is assumed to start with tahoe: unless otherwise specified"
GA_DefaultIsTahoe ==
  \A r \in Rows : (Judged(r) /\ r.dflt = "tahoe" /\ ~Has(P, ":") /\ ~UriPrefix(P)) =>
      LET q == Resolve(DefaultName \o <<":">> \o P, TableOf(r.tbl), r.dflt, r.win) IN
      IF Known(TableOf(r.tbl), DefaultName) THEN r.exp.kind = "ok" /\ q.kind = "ok" /\ r.exp.path = q.path /\ r.exp.root.cap = q.root.cap
      ELSE r.exp.kind = "no_default" /\ q.kind = "unknown_alias"
\* UnknownAliasError exactly when the alias that is meant is not in the table
GA_Errors ==
  \A r \in Rows : Judged(r) =>
      /\ r.exp.kind = "no_default" => (~Known(TableOf(r.tbl), DefaultName) /\ r.dflt # "none")
      /\ r.exp.kind = "unknown_alias" => (Has(P, ":") /\ (~Known(TableOf(r.tbl), Upto(P, IndexOf(P, ":") - 1)) \/ (r.win /\ DriveLike(P))))
      /\ r.exp.kind = "local" => r.dflt = "none"
\* a colon inside a later path component is not an alias separator ("./name:with:colons", "foo/bar:7")
GA_ColonInLaterComponent ==
  \A r \in Rows : (Judged(r) /\ ~UriPrefix(P) /\ Has(P, "/") /\ Has(P, ":") /\ IndexOf(P, "/") < IndexOf(P, ":")) =>
      (r.exp.kind \in {"local", "ok", "no_default"} /\ (r.exp.kind # "no_default" => r.exp.path = P) /\ (r.exp.kind = "ok" => r.exp.root.via = "default"))
\* Windows drive letters: local where local paths are allowed, invalid elsewhere; no effect on Unix
GA_Drive ==
  \A r \in Rows : (Judged(r) /\ DriveLike(P)) =>
      IF r.win THEN (IF r.dflt = "none" THEN r.exp.kind = "local" /\ r.exp.path = P ELSE r.exp.kind = "unknown_alias")
      ELSE r.exp.kind \in {"ok", "unknown_alias"} /\ (r.exp.kind = "ok" => r.exp.root.via = "named")
=============================================================================
