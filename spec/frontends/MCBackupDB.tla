----------------------------- MODULE MCBackupDB -----------------------------
(* Model checking of the backup database design (BackupDB.tla): every history
   of check_file / did_upload / did_check_healthy / check_directory /
   did_create / did_check_healthy calls, clock advances and lost rows, over
   small constants.  The properties are stated over ghost variables that
   record what was really uploaded last for each path / for each exact
   directory contents, independently of the tables. *)
EXTENDS BackupDB

CONSTANTS Paths, Caps, DirCaps, Names, StatVals, MaxOps, Rnd

VARIABLES DB, now,
          resF,     \* path -> the latest FileResult handed out for it ([present, st, cap])
          resD,     \* the latest DirectoryResult ([present, key, cap])
          upF,      \* ghost: path -> the most recent upload recorded for it ([present, st, cap])
          upD,      \* ghost: contents -> the most recent directory creation recorded ([present, cap])
          last,     \* ghost: the last decision
          nops
vars == <<DB, now, resF, resD, upF, upD, last, nops>>

Stats == [size : StatVals, mtime : StatVals, ctime : StatVals]
\* directory contents: a name is absent or bound to a cap
Contents == {c \in SUBSET (Names \X Caps) : \A a, b \in c : a[1] = b[1] => a = b}
NoStat == [size |-> 0, mtime |-> 0, ctime |-> 0]

Init ==
  /\ DB = EmptyDB /\ now = 0
  /\ resF = [p \in Paths |-> [present |-> FALSE, st |-> NoStat, cap |-> ""]]
  /\ resD = [present |-> FALSE, key |-> {}, cap |-> ""]
  /\ upF = [p \in Paths |-> [present |-> FALSE, st |-> NoStat, cap |-> ""]]
  /\ upD = [k \in Contents |-> [present |-> FALSE, cap |-> ""]]
  /\ last = [op |-> "init", path |-> "", st |-> NoStat, use_ts |-> FALSE, key |-> {}, cap |-> ""]
  /\ nops = 0

Tick == nops < MaxOps /\ nops' = nops + 1

DoCheckFile ==
  \E p \in Paths, st \in Stats, use_ts \in BOOLEAN :
    LET r == CheckFileRes(DB, p, st, use_ts, now, Rnd) IN
    /\ Tick
    /\ DB' = CheckFile(DB, p, st, use_ts)
    /\ resF' = [resF EXCEPT ![p] = [present |-> TRUE, st |-> st, cap |-> r.cap]]
    /\ last' = [op |-> "CheckFile", path |-> p, st |-> st, use_ts |-> use_ts, key |-> {}, cap |-> r.cap]
    /\ UNCHANGED <<now, resD, upF, upD>>

\* r.did_upload(filecap) on the latest result of a path
DoDidUpload ==
  \E p \in Paths, cap \in Caps :
    /\ resF[p].present /\ Tick
    /\ DB' = DidUploadFile(DB, cap, p, resF[p].st, now)
    /\ upF' = [upF EXCEPT ![p] = [present |-> TRUE, st |-> resF[p].st, cap |-> cap]]
    /\ last' = [last EXCEPT !.op = "DidUpload"]
    /\ UNCHANGED <<now, resF, resD, upD>>

\* r.did_check_healthy(results) on a result that named a cap
DoDidCheckHealthy ==
  \E p \in Paths :
    /\ resF[p].present /\ resF[p].cap # "" /\ Tick
    /\ DB' = DidCheckFileHealthy(DB, resF[p].cap, now)
    /\ last' = [last EXCEPT !.op = "DidCheckHealthy"]
    /\ UNCHANGED <<now, resF, resD, upF, upD>>

DoCheckDir ==
  \E k \in Contents :
    LET r == CheckDirectoryRes(DB, k, now, Rnd) IN
    /\ Tick
    /\ resD' = [present |-> TRUE, key |-> k, cap |-> r.cap]
    /\ last' = [op |-> "CheckDir", path |-> "", st |-> NoStat, use_ts |-> FALSE, key |-> k, cap |-> r.cap]
    /\ UNCHANGED <<DB, now, resF, upF, upD>>

DoDidCreate ==
  \E cap \in DirCaps :
    /\ resD.present /\ Tick
    /\ DB' = DidCreateDirectory(DB, cap, resD.key, now)
    /\ upD' = [upD EXCEPT ![resD.key] = [present |-> TRUE, cap |-> cap]]
    /\ last' = [last EXCEPT !.op = "DidCreate"]
    /\ UNCHANGED <<now, resF, resD, upF>>

DoDidCheckDirHealthy ==
  /\ resD.present /\ resD.cap # "" /\ Tick
  /\ DB' = DidCheckDirectoryHealthy(DB, resD.cap, now)
  /\ last' = [last EXCEPT !.op = "DidCheckDirHealthy"]
  /\ UNCHANGED <<now, resF, resD, upF, upD>>

DoAdvance ==
  /\ now < 80 /\ Tick
  /\ now' = now + 40
  /\ last' = [last EXCEPT !.op = "Advance"]
  /\ UNCHANGED <<DB, resF, resD, upF, upD>>

DoForget ==
  \E cap \in Caps, which \in {"cap", "upload"} :
    /\ Tick
    /\ DB' = IF which = "cap" THEN ForgetCap(DB, cap) ELSE ForgetUpload(DB, cap)
    /\ DB' # DB
    /\ last' = [last EXCEPT !.op = "Forget"]
    /\ UNCHANGED <<now, resF, resD, upF, upD>>

Next == DoCheckFile \/ DoDidUpload \/ DoDidCheckHealthy \/ DoCheckDir \/ DoDidCreate
        \/ DoDidCheckDirHealthy \/ DoAdvance \/ DoForget
Spec == Init /\ [][Next]_vars

(* ---- properties ---------------------------------------------------------- *)
\* a file cap is offered for reuse only if timestamps are trusted and the most recent upload
\* recorded for that path was of a file with the same size, mtime and ctime, and produced that cap
C42_FileReuseOnlyUnchanged ==
  (last.op = "CheckFile" /\ last.cap # "") =>
     /\ last.use_ts
     /\ upF[last.path].present /\ upF[last.path].st = last.st /\ upF[last.path].cap = last.cap

\* a directory cap is offered only for exactly the contents it was last created for
C42_DirReuseOnlySameContents ==
  (last.op = "CheckDir" /\ last.cap # "") =>
     upD[last.key].present /\ upD[last.key].cap = last.cap

\* a row that could not be used is gone afterwards (a stale record never comes back to life)
C42_StaleRowDeleted ==
  [][ \A p \in Paths : (last'.op = "CheckFile" /\ last'.path = p /\ last'.cap = "") => FileRows(DB', p) = {} ]_vars

Inv_DBOK == DBOK(DB)
=============================================================================
