------------------------------ MODULE MCWebOps ------------------------------
(* Model checking of WebOps.tla: 2 directories x 2 names, every slot absent / an
   immutable file / a directory (the other one: the worlds include directories
   reachable from themselves) / a writeable mutable file, and every sequence of at
   most MaxOps requests of a universe that has every request kind of WebOps.tla
   with every replace= / format= / path shape (the slot itself, below an existing
   directory, below a missing one, below a file).  The WO clauses are action
   properties over (world, world', request, answer); idempotence of PUT and DELETE
   ("performing the same operation multiple times must have the same side-effects
   as only performing it once", webapi.rst) is an invariant over every PUT / DELETE
   of the universe in every reachable world. *)
EXTENDS WebOps

CONSTANTS RawNames,     \* names used in URLs, e.g. {"a", "e2"} ("e2" is stored as "e1")
          SlotKinds,    \* what an initial slot may hold: subset of {"absent", "file", "dir", "mfile", "rodir"}
          StartDirs,    \* the directories whose caps the URLs start with (the worlds are symmetric under d1 <-> d2)
          MaxOps,
          Small         \* TRUE: the reduced request universe (for MaxOps > 1)

VARIABLES WW, nops, last
vars == <<WW, nops, last>>
View_ == <<WW, nops>>

Dirs0 == {"d1", "d2"}
Other(d) == IF d = "d1" THEN "d2" ELSE "d1"
StoredNames == {Norm(n) : n \in RawNames}
N1 == CHOOSE n \in RawNames : IsNormal(n)
N2 == CHOOSE n \in RawNames : n # N1

File(i, w) == [id |-> i, type |-> "file", w |-> w]
Dir(i, w)  == [id |-> i, type |-> "dir", w |-> w]

InitEntryOf(d, kind) ==
  \* "rodir": the other directory linked read-only by a link whose metadata says no-write
  [child |-> CASE kind = "file" -> File("fc1", FALSE) [] kind = "mfile" -> File("g1", TRUE) [] kind = "dir" -> Dir(Other(d), TRUE)
               [] kind = "rodir" -> Dir(Other(d), FALSE),
   md |-> IF kind = "rodir" THEN "nw" ELSE "m1", hasT |-> TRUE, crt |-> 1, mot |-> 2]
\* an assignment slot -> kind
Assignments == [Dirs0 \X StoredNames -> SlotKinds]
WorldOf(asg) ==
  [D |-> [d \in Dirs0 |-> [n \in {m \in StoredNames : asg[<<d, m>>] # "absent"} |-> InitEntryOf(d, asg[<<d, n>>])]],
   imm |-> {},
   mf |-> [g \in {"g1"} |-> [c |-> "c1", fmt |-> "sdmf"]]]

(* ------------------------------ identities -------------------------------- *)
AllFreshDirs == <<"n1", "n2", "n3", "n4", "n5", "n6", "n7", "n8", "n9">>
AllFreshFiles == <<"h1", "h2", "h3", "h4">>
FreshOf(W) == [dirs |-> SelectSeq(AllFreshDirs, LAMBDA x : x \notin DOMAIN W.D),
               files |-> SelectSeq(AllFreshFiles, LAMBDA x : x \notin DOMAIN W.mf)]
Room(W) == Len(FreshOf(W).dirs) >= 4 /\ Len(FreshOf(W).files) >= 1

(* --------------------------- the request universe -------------------------- *)
Q0 == [op |-> "bad_t", method |-> "GET", d |-> "d1", via |-> "rw", path |-> <<>>, name |-> "", replace |-> "none",
       overwrite |-> "none", format |-> "none", content |-> "c1", kids |-> <<>>, json |-> "ok", cap |-> NoChild,
       to_d |-> "", to_via |-> "rw", to_path |-> <<>>, to_name |-> "", when_done |-> FALSE]

P1 == {<<a>> : a \in RawNames}
P2 == {<<a, b>> : a, b \in RawNames}
P3 == {<<N1, N1, N1>>, <<N1, N2, N1>>}
SlotPaths == IF Small THEN P1 \cup {<<N1, N1>>, <<N1, N2>>} ELSE P1 \cup P2 \cup P3
DirPaths == IF Small THEN {<<>>, <<N1>>} ELSE {<<>>} \cup P1 \cup {<<N1, N2>>}
Reps == IF Small THEN {"none", "false"} ELSE {"none", "false", "only_files"}
Caps == {File("fc2", FALSE), Dir("d2", TRUE)} \cup (IF Small THEN {} ELSE {Dir("d1", TRUE), File("g1", FALSE)})
Contents == IF Small THEN {"c2"} ELSE {"c1", "c2"}
Formats == {"none", "sdmf"} \cup (IF Small THEN {} ELSE {"mdmf"})
KidLists == {<<[name |-> "e2", child |-> File("fc2", FALSE), md |-> "m1"]>>}
            \cup (IF Small THEN {} ELSE {<<>>, <<[name |-> "a", child |-> File("fc1", FALSE), md |-> "none"],
                                                [name |-> "e2", child |-> Dir("d2", TRUE), md |-> "mt"]>>})
ImmKidLists == {<<[name |-> "a", child |-> File("fc1", FALSE), md |-> "m1"]>>}
               \cup (IF Small THEN {} ELSE {<<[name |-> "a", child |-> Dir("d2", TRUE), md |-> "m0"]>>})
ItemLists == {<<[name |-> N1, child |-> File("fc2", FALSE), md |-> "none"]>>,
              <<[name |-> N1, child |-> File("fc2", FALSE), md |-> "m2"], [name |-> N2, child |-> Dir("d2", TRUE), md |-> "none"]>>}

Requests ==
     {[Q0 EXCEPT !.op = "put_file", !.method = "PUT", !.d = d, !.path = p, !.replace = rp, !.format = f, !.content = c] :
        d \in StartDirs, p \in SlotPaths, rp \in Reps, f \in Formats, c \in Contents}
  \cup {[Q0 EXCEPT !.op = "put_uri", !.method = "PUT", !.d = d, !.path = p, !.replace = rp, !.cap = cp] :
        d \in StartDirs, p \in SlotPaths, rp \in Reps, cp \in Caps}
  \cup {[Q0 EXCEPT !.op = "mkdir", !.method = m, !.d = d, !.path = p] : d \in StartDirs, p \in SlotPaths, m \in {"PUT", "POST"}}
  \cup {[Q0 EXCEPT !.op = "mkdir_named", !.method = "POST", !.d = d, !.path = p, !.name = n, !.replace = rp, !.when_done = wd] :
        d \in StartDirs, p \in DirPaths, n \in RawNames, rp \in {"none", "false"}, wd \in BOOLEAN}
  \cup {[Q0 EXCEPT !.op = "mkdirc", !.method = "POST", !.d = d, !.path = p, !.kids = k] : d \in StartDirs, p \in SlotPaths, k \in KidLists}
  \cup {[Q0 EXCEPT !.op = "mkdirc_named", !.method = "POST", !.d = d, !.path = p, !.name = n, !.kids = k] :
        d \in StartDirs, p \in DirPaths, n \in RawNames, k \in KidLists}
  \cup {[Q0 EXCEPT !.op = "mkdiri", !.method = "POST", !.d = d, !.path = p, !.kids = k] : d \in StartDirs, p \in SlotPaths, k \in ImmKidLists}
  \cup {[Q0 EXCEPT !.op = "mkdiri_named", !.method = "POST", !.d = d, !.path = p, !.name = n, !.kids = k] :
        d \in StartDirs, p \in DirPaths, n \in RawNames, k \in ImmKidLists}
  \cup {[Q0 EXCEPT !.op = "upload", !.method = "POST", !.d = d, !.path = p, !.name = n, !.replace = rp, !.format = f, !.content = c, !.when_done = wd] :
        d \in StartDirs, p \in DirPaths, n \in RawNames, rp \in {"none", "false"}, f \in Formats, c \in Contents, wd \in IF Small THEN {FALSE} ELSE BOOLEAN}
  \cup {[Q0 EXCEPT !.op = "upload_at", !.method = "POST", !.d = d, !.path = p, !.replace = rp, !.content = c] :
        d \in StartDirs, p \in SlotPaths, rp \in {"none", "false"}, c \in Contents}
  \cup {[Q0 EXCEPT !.op = "post_uri", !.method = "POST", !.d = d, !.path = p, !.name = n, !.replace = rp, !.cap = cp] :
        d \in StartDirs, p \in DirPaths, n \in RawNames, rp \in Reps, cp \in Caps}
  \cup {[Q0 EXCEPT !.op = "set_children", !.method = "POST", !.d = d, !.path = p, !.kids = it, !.overwrite = ow] :
        d \in StartDirs, p \in DirPaths, it \in ItemLists, ow \in {"none", "false"}}
  \cup {[Q0 EXCEPT !.op = "delete", !.method = "DELETE", !.d = d, !.path = p] : d \in StartDirs, p \in SlotPaths}
  \cup {[Q0 EXCEPT !.op = "post_delete", !.method = "POST", !.d = d, !.path = p, !.name = n] : d \in StartDirs, p \in DirPaths, n \in RawNames}
  \cup {[Q0 EXCEPT !.op = "rename", !.method = "POST", !.d = d, !.path = p, !.name = n, !.to_name = t, !.replace = rp] :
        d \in StartDirs, p \in DirPaths, n \in RawNames, t \in RawNames \cup (IF Small THEN {} ELSE {""}), rp \in Reps}
  \cup {[Q0 EXCEPT !.op = "relink", !.method = "POST", !.d = d, !.path = p, !.name = n, !.to_d = td, !.to_path = tp, !.to_name = t, !.replace = rp] :
        d \in StartDirs, p \in IF Small THEN {<<>>} ELSE {<<>>, <<N1>>}, n \in RawNames, td \in Dirs0, tp \in {<<>>, <<N1>>},
        t \in {"", N2}, rp \in Reps}
  \cup {[Q0 EXCEPT !.op = o, !.method = "GET", !.d = d, !.path = p] : o \in ReadReqs, d \in StartDirs, p \in {<<>>} \cup SlotPaths}
  \cup {[Q0 EXCEPT !.op = "put_unlinked", !.method = "PUT", !.format = f, !.content = c] : f \in Formats \cup {"mutable", "bad"}, c \in Contents}
  \cup {[Q0 EXCEPT !.op = "post_unlinked", !.method = "POST", !.format = f, !.when_done = wd] : f \in Formats, wd \in BOOLEAN}
  \cup {[Q0 EXCEPT !.op = "mkdir_unlinked", !.method = m, !.format = f] : m \in {"PUT", "POST"}, f \in {"none", "mdmf", "chk"}}
  \cup {[Q0 EXCEPT !.op = "mkdirc_unlinked", !.method = "POST", !.kids = k] : k \in KidLists}
  \cup {[Q0 EXCEPT !.op = "mkdiri_unlinked", !.method = "POST", !.kids = k] : k \in ImmKidLists}
  \* invalid parameters
  \cup {[Q0 EXCEPT !.op = "bad_t", !.method = m, !.d = d] : m \in {"GET", "POST"}, d \in StartDirs}
  \cup {[Q0 EXCEPT !.op = "put_file", !.method = "PUT", !.path = <<N1>>, !.replace = "bad"],
        [Q0 EXCEPT !.op = "put_file", !.method = "PUT", !.path = <<N1>>, !.format = "bad"],
        [Q0 EXCEPT !.op = "set_children", !.method = "POST", !.json = "junk"],
        [Q0 EXCEPT !.op = "mkdirc_named", !.method = "POST", !.name = N1, !.json = "junk"],
        [Q0 EXCEPT !.op = "put_uri", !.method = "PUT", !.path = <<N1>>, !.cap = [id |-> "junk", type |-> "junk", w |-> FALSE]],
        [Q0 EXCEPT !.op = "rename", !.method = "POST", !.name = N1],
        [Q0 EXCEPT !.op = "delete", !.method = "DELETE"],
        [Q0 EXCEPT !.op = "upload", !.method = "POST", !.name = N1, !.replace = "only_files"]}

\* codes TLC tries for an answer whose documented status is a class: the smallest and the largest of these that
\* the class allows, the smallest only in the reduced universe (599 = the operator allows no code at all: reported by WO_Status)
RepCodes == {200, 201, 302, 400, 404, 409, 410}
Try(codes) == LET S == codes \cap RepCodes IN IF S = {} THEN {599} ELSE IF Small THEN {SetMin(S)} ELSE {SetMin(S), SetMax(S)}
Answer(x, code) == [code |-> code, out |-> x.out, redir |-> x.redir, kind |-> x.kind, body |-> x.body]

Init == /\ WW \in {WorldOf(a) : a \in Assignments}
        /\ nops = 0
        /\ last = [q |-> Q0, r |-> Answer(WR(BadRequest, WW, NoChild), 400), now |-> 10, idem |-> TRUE]

\* "Both PUT and DELETE are required to be idempotent": the same request again leaves the same links and the same
\* file contents (link times aside); a PUT that created a mutable file overwrites that file the second time.
\* (Premise: the path does not walk over the link it sets -- PUT d/a/a?t=uri where d/a is d itself names another
\* slot the second time.)
StripT(W) == [D |-> [d \in DOMAIN W.D |-> [n \in DOMAIN W.D[d] |-> [W.D[d][n] EXCEPT !.crt = 0, !.mot = 0]]], imm |-> W.imm, mf |-> W.mf]
Idempotent(W, q) == q.method \in {"PUT", "DELETE"} /\ q.op \notin UnlinkedOps /\ ~BadArgs(q) /\ Simple(W, q)
Again(W, q, x, now) == ~Idempotent(W, q) \/ (Room(x.W) => StripT(Serve(x.W, q, FreshOf(x.W), now).W) = StripT(x.W))

\* (the singleton quantifiers make TLC evaluate Serve once per request)
Next == /\ nops < MaxOps
        /\ Room(WW)
        /\ \E q \in Requests : \E now \in {11 + nops} : \E x \in {Serve(WW, q, FreshOf(WW), now)} :
             \E code \in Try(x.codes) :
                /\ WW' = x.W /\ nops' = nops + 1
                /\ last' = [q |-> q, r |-> Answer(x, code), now |-> now, idem |-> Again(WW, q, x, now)]

Spec == Init /\ [][Next]_vars

WO_Status_ == [][WO_Status(WW, WW', last'.q, last'.r, last'.now)]_vars
WO_ReadsPure_ == [][WO_ReadsPure(WW, WW', last'.q, last'.r, last'.now)]_vars
WO_BadRequest_ == [][WO_BadRequest(WW, WW', last'.q, last'.r, last'.now)]_vars
WO_ErrorNoChange_ == [][WO_ErrorNoChange(WW, WW', last'.q, last'.r, last'.now)]_vars
WO_Unlinked_ == [][WO_Unlinked(WW, WW', last'.q, last'.r, last'.now)]_vars
WO_Replace_ == [][WO_Replace(WW, WW', last'.q, last'.r, last'.now)]_vars
WO_PutCode_ == [][WO_PutCode(WW, WW', last'.q, last'.r, last'.now)]_vars
WO_ReadBack_ == [][WO_ReadBack(WW, WW', last'.q, last'.r, last'.now)]_vars
WO_InPlace_ == [][WO_InPlace(WW, WW', last'.q, last'.r, last'.now)]_vars
WO_Files_ == [][WO_Files(WW, WW', last'.q, last'.r, last'.now)]_vars
WO_Mkdir_ == [][WO_Mkdir(WW, WW', last'.q, last'.r, last'.now)]_vars
WO_Intermediate_ == [][WO_Intermediate(WW, WW', last'.q, last'.r, last'.now)]_vars
WO_Frame_ == [][WO_Frame(WW, WW', last'.q, last'.r, last'.now)]_vars
WO_Delete_ == [][WO_Delete(WW, WW', last'.q, last'.r, last'.now)]_vars
WO_Move_ == [][WO_Move(WW, WW', last'.q, last'.r, last'.now)]_vars
WO_Attach_ == [][WO_Attach(WW, WW', last'.q, last'.r, last'.now)]_vars
WO_SetChildren_ == [][WO_SetChildren(WW, WW', last'.q, last'.r, last'.now)]_vars
WO_WhenDone_ == [][WO_WhenDone(WW, WW', last'.q, last'.r, last'.now)]_vars
WO_Reads_ == [][WO_Reads(WW, WW', last'.q, last'.r, last'.now)]_vars
WO_DirInvariants_ == [][WO_DirInvariants(WW, WW', last'.q, last'.r, last'.now)]_vars
WO_LinkTimes_ == [][WO_LinkTimes(WW, WW', last'.q, last'.r, last'.now)]_vars
\* the directory layer's own clauses (C20 / XM of Dirnode.tla, DirnodeMore.tla) that do not depend on a call keep holding
WO_DirLayer_ == [][/\ XM_ImmDeep(DW(WW), DW(WW'), last'.q, last'.r, last'.now)
                   /\ XM_ImmIdentity(DW(WW), DW(WW'), last'.q, last'.r, last'.now)
                   /\ XM_NoWriteEverywhere(DW(WW), DW(WW'), last'.q, last'.r, last'.now)]_vars

WO_Idempotent_ == [][last'.idem]_vars
=============================================================================
