----------------------------- MODULE WebRange -----------------------------
(* C40 -- Web API byte-range downloads follow RFC 7233.

   What the web API owes a client that sends `Range:` with a GET or HEAD of a
   file of `size` bytes (web/filenode.py FileDownloader.parse_range_header and
   FileDownloader.render), written from RFC 7233 sections 2.1, 3.1, 4.1-4.4 and
   docs/frontends/webapi.rst ("an attempt to begin a read past the end of the
   file will provoke a 416 ... normal overruns are simply truncated"; "only a
   single bytes range, never multipart/byteranges").

   A header is abstracted to a record
       [cls |-> "none"]                               no Range header
       [cls |-> "fl",  first |-> a, last |-> b]       "bytes=a-b"
       [cls |-> "open", first |-> a]                  "bytes=a-"
       [cls |-> "suffix", n |-> n]                    "bytes=-n"
       [cls |-> "multi", first, last, first2, last2]  "bytes=a-b,c-d"
       [cls |-> "garbage", text |-> s]                literal header s (no byte-range-set)
       [cls |-> "unit", text |-> s]                   a range unit other than bytes
   Numbers are rendered in decimal by the driver; a negative number therefore
   yields text that is not a byte-range-spec ("bytes=-1-5", "bytes=3--1", "bytes=--2")
   and the header must be ignored.

   The module has the shape of the code: Parse (parse_range_header) gives
   "ignore" or the first range, Respond (render) turns it into the response.
   GEN mode: the Spec writes every case with the response it requires; the
   driver replays them through the real web Root.  The property clauses are
   stated again, independently of Parse/Respond, as invariants over the table. *)
EXTENDS Integers, Sequences, FiniteSets, TLC, Json, IOUtils, SequencesExt

Min2(a, b) == IF a <= b THEN a ELSE b
Max2(a, b) == IF a >= b THEN a ELSE b

CONSTANTS Sizes,        \* file sizes
          DenseMax,     \* sizes <= DenseMax get every value in -1..DenseMax+2
          SegSize       \* segment size of the files used (extra boundary values)

(* ---- values tried for a file of `size` bytes ------------------------------ *)
Vals(size) ==
  IF size <= DenseMax THEN (0 - 1)..(DenseMax + 2)
  ELSE {v \in ({0 - 1, 0, 1, SegSize - 1, SegSize, SegSize + 1, size \div 2}
               \cup ((size - 2)..(size + 2)) \cup {size + 40, 2 * size}) : v >= 0 - 1}

GarbageTexts == {"bytes", "bytes=", "bytes=-", "bytes=5", "5-7", "bytes=a-b", "bytes=1-2-3", "bytes=1-x",
                 "bytes 1-2", "bytes=,", "bytes=0-1,x", "=0-1", "bytes==0-1", "bytes=0.5-2",
                 "bytes=1;2"}
UnitTexts == {"items=0-5", "octets=0-1", "none", "bytes2=0-1", "byte=0-1"}

Headers(size) ==
       {[cls |-> "none"]}
  \cup {[cls |-> "fl", first |-> a, last |-> b] : a \in Vals(size), b \in Vals(size)}
  \cup {[cls |-> "open", first |-> a] : a \in Vals(size)}
  \cup {[cls |-> "suffix", n |-> n] : n \in Vals(size)}
  \cup {[cls |-> "multi", first |-> a, last |-> b, first2 |-> c, last2 |-> c + 1] :
            a \in {0, size - 1, size} \cap Vals(size), b \in {1, size + 1} \cap Vals(size), c \in {0, 2, size + 3}}
  \cup {[cls |-> "garbage", text |-> s] : s \in GarbageTexts}
  \cup {[cls |-> "unit", text |-> s] : s \in UnitTexts}

(* ---- parse_range_header --------------------------------------------------- *)
\* RFC 7233 2.1: byte-range-spec = first-byte-pos "-" [last-byte-pos]; invalid if last < first;
\* "a recipient of a byte-range-set that includes one or more syntactically invalid
\*  byte-range-spec values MUST ignore the header field that includes that byte-range-set".
\* Result: [ok |-> FALSE] (ignore the header)  or  [ok |-> TRUE, kind, first, last | n]
SpecOK(kind, a, b) ==
  CASE kind = "fl"     -> a >= 0 /\ b >= 0 /\ b >= a
    [] kind = "open"   -> a >= 0
    [] kind = "suffix" -> a >= 0

Parse(h) ==
  CASE h.cls = "none"    -> [ok |-> FALSE]
    [] h.cls = "garbage" -> [ok |-> FALSE]
    [] h.cls = "unit"    -> [ok |-> FALSE]        \* only the bytes unit is supported: ignored (RFC 7233 3.1)
    [] h.cls = "fl"      -> IF SpecOK("fl", h.first, h.last) THEN [ok |-> TRUE, kind |-> "fl", first |-> h.first, last |-> h.last]
                            ELSE [ok |-> FALSE]
    [] h.cls = "open"    -> IF SpecOK("open", h.first, 0) THEN [ok |-> TRUE, kind |-> "open", first |-> h.first, last |-> 0]
                            ELSE [ok |-> FALSE]
    [] h.cls = "suffix"  -> IF SpecOK("suffix", h.n, 0) THEN [ok |-> TRUE, kind |-> "suffix", first |-> h.n, last |-> 0]
                            ELSE [ok |-> FALSE]
    [] h.cls = "multi"   -> IF SpecOK("fl", h.first, h.last) /\ SpecOK("fl", h.first2, h.last2)
                            THEN [ok |-> TRUE, kind |-> "fl", first |-> h.first, last |-> h.last]   \* documented: first range only
                            ELSE [ok |-> FALSE]

(* ---- render ----------------------------------------------------------------- *)
\* A response: status, body = bytes [lo, hi) of the file ("whole" flag for clarity), Content-Range
\* (present, first, last, total), Content-Length (-1 = not specified by the property: error page).
\* crfree: Content-Range not compared (only in one alternative of an open case, see Alts).
NoCR == [present |-> FALSE, first |-> 0, last |-> 0, total |-> 0]
Full(size)  == [status |-> 200, lo |-> 0, hi |-> size, cr |-> NoCR, clen |-> size, crfree |-> FALSE]
Partial(size, f, l) == [status |-> 206, lo |-> f, hi |-> l + 1,
                        cr |-> [present |-> TRUE, first |-> f, last |-> l, total |-> size], clen |-> l - f + 1,
                        crfree |-> FALSE]
Unsat(size) == [status |-> 416, lo |-> 0, hi |-> 0, cr |-> NoCR, clen |-> 0 - 1, crfree |-> FALSE]

Respond(size, p) ==
  IF ~p.ok THEN Full(size)
  ELSE CASE p.kind = "fl"     -> IF p.first >= size THEN Unsat(size) ELSE Partial(size, p.first, Min2(p.last, size - 1))
         [] p.kind = "open"   -> IF p.first >= size THEN Unsat(size) ELSE Partial(size, p.first, size - 1)
         [] p.kind = "suffix" -> Partial(size, Max2(0, size - p.first), size - 1)

WebRange(size, h) == Respond(size, Parse(h))

(* ---- what the statement leaves open ------------------------------------------ *)
\* suffix of length 0 (RFC: unsatisfiable), suffix on an empty file (RFC 7233 is ambiguous: "satisfiable" but no
\* byte to send), several ranges (webapi.rst: only the first is served; RFC: any satisfiable one suffices).
OpenCase(size, h) ==
  CASE h.cls = "suffix" /\ h.n = 0              -> "suffix_of_length_zero"
    [] h.cls = "suffix" /\ h.n > 0 /\ size = 0  -> "suffix_on_empty_file"
    [] h.cls = "multi"                          -> "multi_range"
    [] OTHER                                    -> ""

\* Accepted alternatives of an open case (each a documented / RFC-sanctioned behaviour).
\* crfree: the Content-Range of an empty 206 cannot be written in RFC syntax and is not compared.
Alts(size, h) ==
  LET oc == OpenCase(size, h) IN
  CASE oc = "" -> {WebRange(size, h)}
    [] oc = "suffix_of_length_zero" -> {Full(size), Unsat(size)}
    [] oc = "suffix_on_empty_file"  -> {Full(size), Unsat(size), [Partial(size, 0, 0 - 1) EXCEPT !.cr = NoCR, !.crfree = TRUE]}
    [] oc = "multi_range" ->
         {WebRange(size, h), Full(size)}
         \cup (IF h.first >= size THEN {Unsat(size)} ELSE {})

\* Structural class of a case (used in finding keys and in the non-triviality rule).
Class(size, h) ==
  CASE h.cls = "none"    -> "no_header"
    [] h.cls = "garbage" -> "garbage_header"
    [] h.cls = "unit"    -> "other_range_unit"
    [] h.cls = "multi"   -> "multi_range"
    [] h.cls = "fl" ->
         (IF h.first < 0 \/ h.last < 0 THEN "first_last_not_a_number"
          ELSE IF h.last < h.first THEN "first_last_inverted"
          ELSE IF h.first >= size THEN "first_last_at_or_past_eof"
          ELSE IF h.last >= size THEN "first_last_clipped_at_eof"
          ELSE "first_last_inside")
    [] h.cls = "open" ->
         (IF h.first < 0 THEN "open_ended_not_a_number"
          ELSE IF h.first >= size THEN "open_ended_range_at_or_past_eof"
          ELSE "open_ended_range_inside")
    [] h.cls = "suffix" ->
         (IF h.n < 0 THEN "suffix_not_a_number"
          ELSE IF h.n = 0 THEN "suffix_of_length_zero"
          ELSE IF size = 0 THEN "suffix_on_empty_file"
          ELSE IF h.n >= size THEN "suffix_covers_whole_file"
          ELSE "suffix_inside")

Methods == {"GET", "HEAD"}

\* HEAD: same status and headers, no body (body interval empty)
ForMethod(m, r) == IF m = "HEAD" THEN [r EXCEPT !.lo = 0, !.hi = 0] ELSE r

Cases ==
  UNION {{[size |-> s, method |-> m, header |-> h, class |-> Class(s, h), open |-> OpenCase(s, h),
           alts |-> SetToSeq({ForMethod(m, r) : r \in Alts(s, h)})] : m \in Methods, h \in Headers(s)} : s \in Sizes}

ASSUME ndJsonSerialize(IOEnv.OUT_FILE, SetToSeq(Cases))

VARIABLE c
Init == c \in Cases
Next == UNCHANGED c
Spec == Init /\ [][Next]_c

(* ---- the property, stated independently of Parse/Respond, over every judged case ---- *)
Judged == c.open = ""
R == c.alts[1]
\* the set of byte positions a *valid single* range asks for, straight from RFC 7233 2.1
Asked(size, h) ==
  CASE h.cls = "fl"     -> {i \in 0..(size - 1) : h.first <= i /\ i <= h.last}
    [] h.cls = "open"   -> {i \in 0..(size - 1) : h.first <= i}
    [] h.cls = "suffix" -> {i \in 0..(size - 1) : i >= size - h.n}
    [] OTHER            -> {}
ValidSingle(h) ==
  CASE h.cls = "fl"     -> h.first >= 0 /\ h.last >= h.first
    [] h.cls = "open"   -> h.first >= 0
    [] h.cls = "suffix" -> h.n >= 0
    [] OTHER            -> FALSE
Sent == {i \in 0..(c.size - 1) : R.lo <= i /\ i < R.hi}

C40_OneAltWhenJudged == Judged => Len(c.alts) = 1
\* 206 with exactly the requested bytes clipped at end-of-file and a matching Content-Range
C40_PartialExact ==
  (Judged /\ ValidSingle(c.header) /\ Asked(c.size, c.header) # {}) =>
     /\ R.status = 206
     /\ (c.method = "GET" => Sent = Asked(c.size, c.header))
     /\ R.cr.present /\ R.cr.total = c.size
     /\ {i \in 0..(c.size - 1) : R.cr.first <= i /\ i <= R.cr.last} = Asked(c.size, c.header)
     /\ R.clen = Cardinality(Asked(c.size, c.header))
\* 416 when the range starts at or beyond the end
C40_Unsatisfiable ==
  (Judged /\ ValidSingle(c.header) /\ c.header.cls \in {"fl", "open"} /\ c.header.first >= c.size) => R.status = 416
C40_416OnlyThen ==
  (Judged /\ R.status = 416) => (ValidSingle(c.header) /\ Asked(c.size, c.header) = {})
\* the full file when the header cannot be parsed (or is absent)
C40_IgnoredHeader ==
  (Judged /\ ~ValidSingle(c.header)) =>
     /\ R.status = 200 /\ ~R.cr.present /\ R.clen = c.size
     /\ (c.method = "GET" => Sent = 0..(c.size - 1))
\* HEAD never has a body
C40_HeadNoBody == c.method = "HEAD" => \A i \in 1..Len(c.alts) : c.alts[i].lo = c.alts[i].hi
=============================================================================
