---------------------------- MODULE SerializerCore ----------------------------
(* The control skeleton of the abstract serializer of spec/mutable/Serializer.tla
   (MutableFileNode._do_serialized as seen by trace validation: Request / Start /
   Finish / Return with the clauses ARequestClause, AStartClause, AFinishClause,
   AReturnClause), re-stated without the contents layer:

     queue    = A.queue          requested, not yet started (request order)
     running  = A.running        0 or the id of the operation in progress
     known    = DOMAIN A.ops     every requested operation
     fin      = DOMAIN A.fin     finished operations
     ret      = A.ret            results handed to the caller
     reqd, started               ghost: the order of the Request / Start events

   Why a re-statement: Serializer.tla keeps ops/fin/smapwr as functions grown from
   `<<>>` with Ext() and operation records of seven different shapes (Apalache's
   type system has neither), and it EXTENDS Common.tla (RECURSIVE operators:
   tlapm aborts).  An action below is enabled exactly when the corresponding
   clause of Serializer.tla is "" as far as queue / running / ops / fin / ret are
   concerned; the contents clauses of AFinishClause (C13_NoLostEdit_read, ...) can
   only reject more, so every step the original accepts is a step of this machine.
   AgreeSerializer.tla (TLC) checks both statements against the original operators.

   Properties (C13): Mutex - at most one operation is in progress; FIFO - operations
   start in request order.  The `@type` comments are Apalache's annotations. *)
EXTENDS Integers, Sequences

CONSTANTS
  \* @type: Set(Int);
  Ids            \* operation ids; 0 is "nothing is running"

ASSUME IdsOK == Ids \subseteq Int /\ 0 \notin Ids

VARIABLES
  \* @type: Seq(Int);
  queue,
  \* @type: Int;
  running,
  \* @type: Set(Int);
  known,
  \* @type: Set(Int);
  fin,
  \* @type: Set(Int);
  ret,
  \* @type: Seq(Int);
  reqd,
  \* @type: Seq(Int);
  started
vars == <<queue, running, known, fin, ret, reqd, started>>

\* @type: Seq(Int) => Set(Int);
ToSet(s) == {s[i] : i \in DOMAIN s}          \* = Common.tla's ToSet (DOMAIN s = 1..Len(s)); Apalache wants DOMAIN

Init == queue = <<>> /\ running = 0 /\ known = {} /\ fin = {} /\ ret = {} /\ reqd = <<>> /\ started = <<>>

(* guards: exactly "the clause of Serializer.tla is empty" *)
RequestOK(id) == id \notin known                                        \* ARequestClause
StartOK(id)   == running = 0 /\ queue # <<>> /\ Head(queue) = id        \* AStartClause: C13_Mutex, C13_FIFO
FinishOK(id)  == running = id                                           \* AFinishClause, control part
ReturnOK(id)  == id \in fin /\ id \notin ret                            \* AReturnClause, control part

Request(id) ==
  /\ RequestOK(id)
  /\ queue' = Append(queue, id) /\ known' = known \cup {id} /\ reqd' = Append(reqd, id)
  /\ UNCHANGED <<running, fin, ret, started>>
Start(id) ==
  /\ StartOK(id)
  /\ running' = id /\ queue' = Tail(queue) /\ started' = Append(started, id)
  /\ UNCHANGED <<known, fin, ret, reqd>>
Finish(id) ==
  /\ FinishOK(id)
  /\ running' = 0 /\ fin' = fin \cup {id}
  /\ UNCHANGED <<queue, known, ret, reqd, started>>
Return(id) ==
  /\ ReturnOK(id)
  /\ ret' = ret \cup {id}
  /\ UNCHANGED <<queue, running, known, fin, reqd, started>>

Next == \E id \in Ids : Request(id) \/ Start(id) \/ Finish(id) \/ Return(id)
Spec == Init /\ [][Next]_vars

(* ---- properties, stated over the ghost history only ---- *)
InProgress == {i \in ToSet(started) : i \notin fin}
\* at most one operation runs at a time  (MCSerializer: Cardinality(InProgress) <= 1)
Mutex == \A i \in InProgress : \A j \in InProgress : i = j
\* operations start in request order      (MCSerializer: IsPrefixOf(started, reqd))
FIFO == Len(started) <= Len(reqd) /\ \A i \in DOMAIN started : started[i] = reqd[i]
\* a result is only handed out for a finished operation
ReturnAfterFinish == ret \subseteq fin

(* ---- the inductive invariant ---- *)
TypeOK ==
  /\ queue \in Seq(Ids) /\ reqd \in Seq(Ids) /\ started \in Seq(Ids)
  /\ running \in Ids \cup {0}
  /\ known \subseteq Ids /\ fin \subseteq Ids /\ ret \subseteq Ids
\* what has been requested is what has been started followed by what waits
Split == reqd = started \o queue
KnownAll == known = ToSet(reqd)
NoDup == \A i \in DOMAIN reqd : \A j \in DOMAIN reqd : reqd[i] = reqd[j] => i = j
FinStarted == fin \subseteq ToSet(started) /\ ret \subseteq fin
Idle == running = 0 => ToSet(started) \subseteq fin
Busy == running # 0 => /\ Len(started) > 0
                       /\ started[Len(started)] = running
                       /\ running \notin fin
                       /\ \A i \in DOMAIN started : i < Len(started) => started[i] \in fin

IndInv == TypeOK /\ Split /\ KnownAll /\ NoDup /\ FinStarted /\ Idle /\ Busy

\* the part of it that carries Mutex alone (used by the TLAPS proof)
MutexInv == InProgress \subseteq (IF running = 0 THEN {} ELSE {running})
=============================================================================
