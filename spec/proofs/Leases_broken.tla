----------------------------- MODULE Leases_broken -----------------------------
(* The lease operators of spec/storage/Storage.tla (HasLease, Lease, RenewIn,
   AddOrRenew, LeasesMonotone: lease.py / immutable.py add_or_renew_lease and
   renew_lease, mutable.py likewise), re-stated VERBATIM in a module of their
   own, and the lease set of ONE share as a state machine.

   Why a re-statement: Storage.tla EXTENDS Common.tla, which has RECURSIVE
   operators and a polymorphic Range(f); Apalache 0.58 cannot type it and
   tlapm 1.6 aborts on RECURSIVE.  AgreeLeases.tla (TLC) checks that the five
   operators below are equal to Storage.tla's on a bounded domain and that
   every lease step of MCStorage-style calls is a step of this machine.

   The machine: the share's lease set L, the server's clock (it may jump in
   either direction: time.time() is not monotone), and the ghost set `granted`
   of every promise the server ever made ("the lease of renew secret rs is
   valid until exp").  add_lease / renew_lease promise clock + Duration.

   The comments `@type` are Apalache's annotations; TLC and TLAPS ignore them. *)
EXTENDS Integers

CONSTANTS
  \* @type: Set(Str);
  Secrets,      \* renew and cancel secrets
  \* @type: Int;
  Duration      \* the lease period added to the clock (31 days in the code)

ASSUME DurationIsInt == Duration \in Int

VARIABLES
  \* @type: Set({rs: Str, cs: Str, exp: Int});
  L,
  \* @type: Int;
  clock,
  \* @type: Set({rs: Str, exp: Int});
  granted
vars == <<L, clock, granted>>

(* ---- Storage.tla, section "leases", verbatim ---- *)
\* @type: (Set({rs: Str, cs: Str, exp: Int}), Str) => Bool;
HasLease(LL, rs) == \E l \in LL : l.rs = rs
\* @type: (Str, Str, Int) => {rs: Str, cs: Str, exp: Int};
Lease(rs, cs, exp) == [rs |-> rs, cs |-> cs, exp |-> exp]
\* renew_lease: the expiry only ever moves forward (no backdating)
\* @type: (Set({rs: Str, cs: Str, exp: Int}), Str, Int) => Set({rs: Str, cs: Str, exp: Int});
RenewIn(LL, rs, exp) == {IF l.rs = rs THEN [l EXCEPT !.exp = exp] ELSE l : l \in LL}      \* BROKEN: the new expiry is taken unconditionally
\* @type: (Set({rs: Str, cs: Str, exp: Int}), Str, Str, Int) => Set({rs: Str, cs: Str, exp: Int});
AddOrRenew(LL, rs, cs, exp) == IF HasLease(LL, rs) THEN RenewIn(LL, rs, exp) ELSE LL \cup {Lease(rs, cs, exp)}
\* C25 as a relation between consecutive states: no lease disappears, no expiry moves back
\* @type: (Set({rs: Str, cs: Str, exp: Int}), Set({rs: Str, cs: Str, exp: Int})) => Bool;
LeasesMonotone(L1, L2) == \A l \in L1 : \E m \in L2 : m.rs = l.rs /\ m.cs = l.cs /\ m.exp >= l.exp

(* ---- the machine ---- *)
Init == L = {} /\ clock = 0 /\ granted = {}

\* remote_add_lease / the lease part of allocate_buckets and of a mutable write
Add(rs, cs) ==
  /\ L' = AddOrRenew(L, rs, cs, clock + Duration)
  /\ granted' = granted \cup {[rs |-> rs, exp |-> clock + Duration]}
  /\ UNCHANGED clock
\* remote_renew_lease: only for a secret the share knows (otherwise an error and no change)
Renew(rs) ==
  /\ HasLease(L, rs)
  /\ L' = RenewIn(L, rs, clock + Duration)
  /\ granted' = granted \cup {[rs |-> rs, exp |-> clock + Duration]}
  /\ UNCHANGED clock
\* time passes, or the clock is set back
Tick == clock' \in Int /\ UNCHANGED <<L, granted>>

Next == (\E rs \in Secrets : \E cs \in Secrets : Add(rs, cs)) \/ (\E rs \in Secrets : Renew(rs)) \/ Tick
Spec == Init /\ [][Next]_vars

(* ---- properties ---- *)
\* no backdating: every promise ever made is still honoured by the lease that carries the secret
Honoured == \A g \in granted : \E l \in L : l.rs = g.rs /\ l.exp >= g.exp
\* an add with a known renew secret does not add a second lease
NoSecondLease == \A l1 \in L : \A l2 \in L : l1.rs = l2.rs => l1 = l2
\* the same, as a relation between consecutive states (the form MCStorage's C25_NoBackdate uses)
MonotoneStep == LeasesMonotone(L, L')

TypeOK ==
  /\ L \subseteq [rs : Secrets, cs : Secrets, exp : Int]
  /\ clock \in Int
  /\ granted \subseteq [rs : Secrets, exp : Int]

\* the inductive invariant
IndInv == TypeOK /\ NoSecondLease /\ Honoured
=============================================================================
