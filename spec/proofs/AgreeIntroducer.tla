--------------------------- MODULE AgreeIntroducer ---------------------------
(* TLC agreement run: IntroducerCore (the module Apalache works on) against
   spec/net/Introducer.tla as exercised by MCIntroducer (the module C34 uses), with
   MCIntroducer's own constants, transitions and complete item alphabet:

     OperatorsAgree     in every reachable store, for every item: Verifies, Duplicate,
                        Fresh, Accepts, Process are equal, and the original's
                        Receive(S, <<it>>).S is the core's Process(S, it)
     BatchIsFold        Receive over a batch of two is Process after Process
     MonotoneAgree      MonotoneStep is the same relation on every transition
     StepsAreCoreSteps  every MCIntroducer transition with MaxStep = 1 is a core step
                        on S (the core's ghost variables are not part of the original) *)
EXTENDS MCIntroducer

Core == INSTANCE IntroducerCore WITH seen <- {}, verified <- {}

OperatorsAgree ==
  \A it \in Items :
    /\ Core!Verifies(it) = Verifies(it)
    /\ Core!Duplicate(S.store[Idx(it)], it) = Duplicate(S.store[Idx(it)], it)
    /\ Core!Fresh(S.store[Idx(it)], it) = Fresh(S.store[Idx(it)], it)
    /\ Core!Accepts(S, it) = Accepts(S, it)
    /\ Core!Process(S, it) = Process(S, it)
    /\ Receive(S, <<it>>).S = Core!Process(S, it)
    /\ Core!Entry(it) = Entry(it) /\ Core!Idx(it) = Idx(it)
  
BatchIsFold ==
  \A i1 \in Items : \A i2 \in Items : Receive(S, <<i1, i2>>).S = Core!Process(Core!Process(S, i1), i2)

SubscribeAgrees == \A svc \in Services : Core!Subscribe(S, svc) = Subscribe(S, svc)
ConstantsAgree == Core!Absent = Absent /\ Core!NoSeq = NoSeq

MonotoneAgree == [][Core!MonotoneStep(S, S') = MonotoneStep(S, S')]_vars
\* S' = S for an empty or ignored batch; otherwise one item was processed, or a subscription was added
StepsAreCoreSteps ==
  [][\/ \E it \in Items : S' = Core!Process(S, it)
     \/ \E svc \in Services : S' = Core!Subscribe(S, svc)]_vars
=============================================================================
