--------------------------- MODULE IntroducerProof ---------------------------
(* TLAPS proof that the announcement store of IntroducerCore never replaces an
   announcement by an older one - for ANY sets of services, keys and bodies, unbounded
   integer sequence numbers and any number of announcements:

     THEOREM Spec => []NInv                 (NInv = PType /\ NeverOlder)
     THEOREM Spec => []NeverOlder
     THEOREM Spec => [][Monotone]_vars      (Introducer.tla's MonotoneStep on every step)

   PType is the typing TLAPS needs (the store is a function over Services \X Keys whose
   entries carry an integer n).  Same NeverOlder as in MC_Introducer_apa's IndInv;
   Authentic and SubscribedOnly are checked by Apalache only.
   Checked with `tlapm IntroducerProof.tla`. *)
EXTENDS IntroducerCore, TLAPS

EntryT == [present : BOOLEAN, seq : [k : SeqKinds, n : Int], body : Bodies \cup {""}]
ItemT == [svc : Services, key : Keys, origin : Keys \cup {"none"}, wellformed : BOOLEAN,
          seq : [k : SeqKinds, n : Int], body : Bodies]
PType ==
  /\ S \in [store : [Services \X Keys -> EntryT], subs : SUBSET Services]
  /\ seen \subseteq [svc : Services, key : Keys, n : Int]
NInv == PType /\ NeverOlder

LEMMA InitOK == Init => NInv
  <1> SUFFICES ASSUME Init PROVE NInv OBVIOUS
  <1>1. PICK subs \in SUBSET Services : S = [store |-> [i \in Services \X Keys |-> Absent], subs |-> subs]
    BY DEF Init
  <1>2. seen = {} BY DEF Init
  <1>3. Absent \in EntryT BY DEF Absent, NoSeq, EntryT, SeqKinds
  <1> QED BY <1>1, <1>2, <1>3 DEF NInv, PType, NeverOlder

(* one item: what Process does to the store *)
LEMMA ProcessFacts ==
  ASSUME NEW T \in [store : [Services \X Keys -> EntryT], subs : SUBSET Services], NEW it \in ItemT
  PROVE  /\ Process(T, it) \in [store : [Services \X Keys -> EntryT], subs : SUBSET Services]
         /\ ~Accepts(T, it) => Process(T, it) = T
         /\ Accepts(T, it) =>
              /\ Process(T, it).store[Idx(it)] = Entry(it)
              /\ \A i \in Services \X Keys : i # Idx(it) => Process(T, it).store[i] = T.store[i]
              /\ Fresh(T.store[Idx(it)], it) /\ ~Duplicate(T.store[Idx(it)], it)
  <1>1. Idx(it) \in Services \X Keys BY DEF Idx, ItemT
  <1>2. Entry(it) \in EntryT BY DEF Entry, EntryT, ItemT
  <1>3. CASE ~Accepts(T, it) BY <1>3 DEF Process
  <1>4. CASE Accepts(T, it)
    <2>1. Process(T, it) = [T EXCEPT !.store[Idx(it)] = Entry(it)] BY <1>4 DEF Process
    <2>2. Process(T, it).store = [T.store EXCEPT ![Idx(it)] = Entry(it)] /\ Process(T, it).subs = T.subs BY <2>1
    <2>3. Process(T, it).store \in [Services \X Keys -> EntryT] BY <2>2, <1>1, <1>2
    <2>4. Process(T, it) \in [store : [Services \X Keys -> EntryT], subs : SUBSET Services] BY <2>1, <2>3, <2>2
    <2>5. Process(T, it).store[Idx(it)] = Entry(it) BY <2>2, <1>1
    <2>6. \A i \in Services \X Keys : i # Idx(it) => Process(T, it).store[i] = T.store[i] BY <2>2
    <2>7. Fresh(T.store[Idx(it)], it) /\ ~Duplicate(T.store[Idx(it)], it) BY <1>4 DEF Accepts
    <2> QED BY <1>4, <2>4, <2>5, <2>6, <2>7
  <1> QED BY <1>3, <1>4

LEMMA Step == NInv /\ [Next]_vars => NInv' /\ Monotone
  <1> SUFFICES ASSUME NInv, [Next]_vars PROVE NInv' /\ Monotone OBVIOUS
  <1>0. /\ S \in [store : [Services \X Keys -> EntryT], subs : SUBSET Services]
        /\ seen \subseteq [svc : Services, key : Keys, n : Int]
        /\ \A r \in seen : S.store[<<r.svc, r.key>>].present /\ S.store[<<r.svc, r.key>>].seq.k = "int"
                           /\ S.store[<<r.svc, r.key>>].seq.n >= r.n
    BY DEF NInv, PType, NeverOlder
  <1>1. ASSUME S' = S, seen' = seen PROVE NInv' /\ Monotone
    BY <1>0, <1>1 DEF NInv, PType, NeverOlder, Monotone, MonotoneStep
  <1>2. ASSUME NEW it \in ItemT, ReceiveItem(it) PROVE NInv' /\ Monotone
    <2>1. S' = Process(S, it) BY <1>2 DEF ReceiveItem
    <2>2. CASE ~Accepts(S, it)
      <3>1. S' = S BY <2>1, <2>2, <1>0, ProcessFacts
      <3>2. seen' = seen BY <1>2, <2>2 DEF ReceiveItem
      <3> QED BY <3>1, <3>2, <1>1
    <2>3. CASE Accepts(S, it)
      <3> DEFINE ix == Idx(it)
                 old == S.store[ix]
      <3>1. /\ S' \in [store : [Services \X Keys -> EntryT], subs : SUBSET Services]
            /\ S'.store[ix] = Entry(it)
            /\ \A i \in Services \X Keys : i # ix => S'.store[i] = S.store[i]
            /\ Fresh(old, it) /\ ~Duplicate(old, it)
        BY <2>1, <2>3, <1>0, ProcessFacts
      <3>2. ix \in Services \X Keys /\ ix = <<it.svc, it.key>> BY DEF Idx, ItemT
      <3>3. old \in EntryT /\ it.seq.n \in Int /\ it.seq.k \in SeqKinds BY <1>0, <3>2 DEF ItemT
      <3>4. Entry(it).present /\ Entry(it).seq = it.seq BY DEF Entry
      <3>5. seen' = IF it.seq.k = "int" THEN seen \cup {[svc |-> it.svc, key |-> it.key, n |-> it.seq.n]} ELSE seen
        BY <1>2, <2>3 DEF ReceiveItem
      <3>6. seen' \subseteq [svc : Services, key : Keys, n : Int] BY <3>5, <3>3, <1>0 DEF ItemT
      \* an index that carried an integer seqnum gets a larger one
      <3>7. (old.present /\ old.seq.k = "int") => (it.seq.k = "int" /\ it.seq.n > old.seq.n)
        BY <3>1 DEF Fresh
      <3>8. NeverOlder'
        <4> SUFFICES ASSUME NEW r \in seen'
                     PROVE  S'.store[<<r.svc, r.key>>].present /\ S'.store[<<r.svc, r.key>>].seq.k = "int"
                            /\ S'.store[<<r.svc, r.key>>].seq.n >= r.n
          BY DEF NeverOlder
        <4>0. <<r.svc, r.key>> \in Services \X Keys /\ r.n \in Int BY <3>6
        <4>1. CASE r \in seen /\ <<r.svc, r.key>> # ix
          BY <4>1, <4>0, <3>1, <1>0
        <4>2. CASE r \in seen /\ <<r.svc, r.key>> = ix
          <5>1. old.present /\ old.seq.k = "int" /\ old.seq.n >= r.n BY <4>2, <1>0
          <5>2. it.seq.k = "int" /\ it.seq.n > old.seq.n BY <5>1, <3>7
          <5>3. old.seq.n \in Int BY <3>3 DEF EntryT
          <5>4. it.seq.n >= r.n BY <5>1, <5>2, <5>3, <3>3, <4>0
          <5> QED BY <4>2, <5>2, <5>4, <3>1, <3>4
        <4>3. CASE r \notin seen
          <5>1. it.seq.k = "int" /\ r = [svc |-> it.svc, key |-> it.key, n |-> it.seq.n] BY <4>3, <3>5
          <5>2. <<r.svc, r.key>> = ix /\ r.n = it.seq.n BY <5>1, <3>2
          <5> QED BY <5>1, <5>2, <3>1, <3>4, <3>3
        <4> QED BY <4>1, <4>2, <4>3
      <3>9. Monotone
        <4> SUFFICES ASSUME NEW i \in DOMAIN S.store
                     PROVE  /\ S.store[i].present => S'.store[i].present
                            /\ (S.store[i].present /\ S.store[i].seq.k = "int" /\ S'.store[i] # S.store[i])
                                  => (S'.store[i].seq.k = "int" /\ S'.store[i].seq.n > S.store[i].seq.n)
          BY DEF Monotone, MonotoneStep
        <4>0. i \in Services \X Keys BY <1>0
        <4>1. CASE i # ix BY <4>1, <4>0, <3>1
        <4>2. CASE i = ix BY <4>2, <3>1, <3>4, <3>7
        <4> QED BY <4>1, <4>2
      <3> QED BY <3>1, <3>6, <3>8, <3>9 DEF NInv, PType
    <2> QED BY <2>2, <2>3
  <1>3. ASSUME Receive PROVE NInv' /\ Monotone
    <2>1. PICK svc \in Services, key \in Keys, origin \in Keys \cup {"none"}, wf \in BOOLEAN, k \in SeqKinds, n \in Int, body \in Bodies :
            ReceiveItem([svc |-> svc, key |-> key, origin |-> origin, wellformed |-> wf,
                         seq |-> [k |-> k, n |-> IF k = "int" THEN n ELSE 0], body |-> body])
      BY <1>3 DEF Receive
    <2>2. [svc |-> svc, key |-> key, origin |-> origin, wellformed |-> wf,
           seq |-> [k |-> k, n |-> IF k = "int" THEN n ELSE 0], body |-> body] \in ItemT
      BY DEF ItemT
    <2> QED BY <2>1, <2>2, <1>2
  <1>4. ASSUME DoSubscribe PROVE NInv' /\ Monotone
    <2>1. PICK svc \in Services : S' = Subscribe(S, svc) /\ seen' = seen BY <1>4 DEF DoSubscribe
    <2>2. S' = [S EXCEPT !.subs = S.subs \cup {svc}] BY <2>1 DEF Subscribe
    <2>3. S'.store = S.store /\ S' \in [store : [Services \X Keys -> EntryT], subs : SUBSET Services] BY <2>2, <1>0
    <2> QED BY <2>1, <2>3, <1>0 DEF NInv, PType, NeverOlder, Monotone, MonotoneStep
  <1>5. ASSUME UNCHANGED vars PROVE NInv' /\ Monotone
    BY <1>1, <1>5 DEF vars
  <1> QED BY <1>3, <1>4, <1>5 DEF Next

THEOREM Inductive == Spec => []NInv
  <1>1. NInv /\ [Next]_vars => NInv' BY Step
  <1> QED BY InitOK, <1>1, PTL DEF Spec

THEOREM OlderNeverReplacesNewer == Spec => []NeverOlder
  <1>1. NInv => NeverOlder BY DEF NInv
  <1> QED BY Inductive, <1>1, PTL

THEOREM MonotoneSteps == Spec => [][Monotone]_vars
  <1>1. NInv /\ [Next]_vars => Monotone BY Step
  <1> QED BY Inductive, <1>1, PTL DEF Spec
=============================================================================
