--------------------------- MODULE GridManagerCore ---------------------------
(* Grid-manager certificate validity, spec/net/GridManager.tla (grid_manager.py
   validate_grid_manager_certificate / create_grid_manager_verifier): SigOK,
   ValidCerts, Validate, Permitted re-stated VERBATIM, and the clauses of C33 (stated
   in GenGridManager.tla over its enumerated case set) as formulas over a client's
   configured keys, the certificates a server announced, the server and the time.

   Why a re-statement: GridManager.tla EXTENDS Common.tla (which it does not use);
   Apalache 0.58 cannot type Common.tla and tlapm 1.6 aborts on its RECURSIVE
   operators.  AgreeGridManager.tla (TLC) checks the operators and the clauses
   against GridManager.tla / GenGridManager.tla's on GenGridManager's case domain.

   There is no behaviour here: the operators are functions of their arguments, the
   "state" is one arbitrary choice of arguments and Next leaves it alone.  Apalache
   checks the clauses for every choice with at most 4 certificates and 3 keys
   (times are unbounded integers); GridManagerProof.tla proves them for all.
   The `@type` comments are Apalache's annotations. *)
EXTENDS Integers

VARIABLES
  \* @type: Set(Str);
  keys,        \* the grid-manager keys the client has configured
  \* @type: Set({signer: Str, subject: Str, expires: Int, tamper: Str});
  certs,       \* the certificates a storage server presents
  \* @type: Str;
  server,      \* the server they are presented for
  \* @type: Int;
  now,
  \* @type: Int;
  later        \* another instant, for the clause about time
vars == <<keys, certs, server, now, later>>

(* ---- GridManager.tla, verbatim ---- *)
\* validate_grid_manager_certificate(key, cert): the signature verifies for this key
\* @type: (Str, {signer: Str, subject: Str, expires: Int, tamper: Str}) => Bool;
SigOK(key, c) == c.signer = key /\ c.tamper = "none"

\* create_grid_manager_verifier: at creation, keep the certificates that verify for one of the configured keys
\* @type: (Set(Str), Set({signer: Str, subject: Str, expires: Int, tamper: Str})) => Set({signer: Str, subject: Str, expires: Int, tamper: Str});
ValidCerts(ks, cs) == {c \in cs : \E k \in ks : SigOK(k, c)}

\* the predicate validate(): some kept certificate names this server and has not expired
\* @type: (Set({signer: Str, subject: Str, expires: Int, tamper: Str}), Str, Int) => Bool;
Validate(valid, srv, t) == \E c \in valid : c.subject = srv /\ t < c.expires

\* "if we have zero grid-manager keys then everything is valid"
\* @type: (Set(Str), Set({signer: Str, subject: Str, expires: Int, tamper: Str}), Str, Int) => Bool;
Permitted(ks, cs, srv, t) == ks = {} \/ Validate(ValidCerts(ks, cs), srv, t)

(* ---- the clauses of C33 (GenGridManager.tla), for arbitrary arguments ---- *)
\* @type: ({signer: Str, subject: Str, expires: Int, tamper: Str}, Int) => Bool;
Good(c, t) == c.signer \in keys /\ c.tamper = "none" /\ c.subject = server /\ t < c.expires
\* permission exactly when some certificate is signed by a configured key, names this server and is unexpired
Exact == Permitted(keys, certs, server, now) <=> (keys = {} \/ \E c \in certs : Good(c, now))
\* tampered, expired, wrong-key and other-server certificates never grant anything: dropping them changes nothing
BadCertsIrrelevant == Permitted(keys, certs, server, now) = Permitted(keys, {c \in certs : Good(c, now)}, server, now)
NoKeysPermitsAll == keys = {} => Permitted(keys, certs, server, now)
\* permission only ever ends with time, and more certificates never revoke
ExpiryMonotone == (now <= later /\ Permitted(keys, certs, server, later)) => Permitted(keys, certs, server, now)
MoreCertsNeverRevoke == \A c \in certs : Permitted(keys, certs \ {c}, server, now) => Permitted(keys, certs, server, now)

Clauses == Exact /\ BadCertsIrrelevant /\ NoKeysPermitsAll /\ ExpiryMonotone /\ MoreCertsNeverRevoke

TypeOK == now \in Int /\ later \in Int /\ \A c \in certs : c.expires \in Int
Init == TypeOK
Next == UNCHANGED vars
Spec == Init /\ [][Next]_vars
=============================================================================
