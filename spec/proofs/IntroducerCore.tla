---------------------------- MODULE IntroducerCore ----------------------------
(* The announcement store of an introducer client, spec/net/Introducer.tla
   (IntroducerClient._process_announcement): Verifies, Duplicate, Fresh, Accepts,
   Process re-stated VERBATIM, and the store as a state machine that is handed one
   item at a time (got_announcements looks at every item of a batch in turn, whatever
   happened to the items before it: Introducer.tla's ReceiveFrom is the fold of
   Process over the batch).

   Why a re-statement: Introducer.tla EXTENDS Common.tla and defines ReceiveFrom
   RECURSIVEly; Apalache 0.58 cannot type Common.tla and has no recursive operators.
   AgreeIntroducer.tla (TLC) checks, over the reachable stores of MCIntroducer and
   its complete item alphabet, that the operators below equal the original ones and
   that Receive(S, <<it>>).S = Process(S, it).

   Ghost variables: `seen` - every integer sequence number that was ever stored,
   `verified` - every entry that came in with a signature that verifies.
   The `@type` comments are Apalache's annotations. *)
EXTENDS Integers

CONSTANTS
  \* @type: Set(Str);
  Services,
  \* @type: Set(Str);
  Keys,
  \* @type: Set(Str);
  Bodies

VARIABLES
  \* @type: {store: <<Str, Str>> -> {present: Bool, seq: {k: Str, n: Int}, body: Str}, subs: Set(Str)};
  S,
  \* @type: Set({svc: Str, key: Str, n: Int});
  seen,
  \* @type: Set({svc: Str, key: Str, seq: {k: Str, n: Int}, body: Str});
  verified
vars == <<S, seen, verified>>

(* ---- Introducer.tla, verbatim ---- *)
NoSeq == [k |-> "none", n |-> 0]
Absent == [present |-> FALSE, seq |-> NoSeq, body |-> ""]
\* @type: {svc: Str, key: Str, origin: Str, wellformed: Bool, seq: {k: Str, n: Int}, body: Str} => {present: Bool, seq: {k: Str, n: Int}, body: Str};
Entry(it) == [present |-> TRUE, seq |-> it.seq, body |-> it.body]
\* @type: {svc: Str, key: Str, origin: Str, wellformed: Bool, seq: {k: Str, n: Int}, body: Str} => <<Str, Str>>;
Idx(it) == <<it.svc, it.key>>

\* unsign_from_foolscap: the signature verifies for the claimed key
\* @type: {svc: Str, key: Str, origin: Str, wellformed: Bool, seq: {k: Str, n: Int}, body: Str} => Bool;
Verifies(it) == it.wellformed /\ it.origin = it.key

\* _process_announcement: "is this announcement a duplicate?"
\* @type: ({present: Bool, seq: {k: Str, n: Int}, body: Str}, {svc: Str, key: Str, origin: Str, wellformed: Bool, seq: {k: Str, n: Int}, body: Str}) => Bool;
Duplicate(old, it) == old.present /\ old.seq = it.seq /\ old.body = it.body

\* _process_announcement: "must beat previous sequence number to replace".
\* A stored non-integer seqnum cannot be beaten (no order is defined).
\* @type: ({present: Bool, seq: {k: Str, n: Int}, body: Str}, {svc: Str, key: Str, origin: Str, wellformed: Bool, seq: {k: Str, n: Int}, body: Str}) => Bool;
Fresh(old, it) ==
  \/ ~old.present
  \/ old.seq.k = "none"
  \/ (old.seq.k = "int" /\ it.seq.k = "int" /\ it.seq.n > old.seq.n)

\* @type: ({store: <<Str, Str>> -> {present: Bool, seq: {k: Str, n: Int}, body: Str}, subs: Set(Str)}, {svc: Str, key: Str, origin: Str, wellformed: Bool, seq: {k: Str, n: Int}, body: Str}) => Bool;
Accepts(T, it) ==
  /\ Verifies(it)
  /\ it.svc \in T.subs                       \* "announcement for a service we don't care about"
  /\ ~Duplicate(T.store[Idx(it)], it)
  /\ Fresh(T.store[Idx(it)], it)

\* @type: ({store: <<Str, Str>> -> {present: Bool, seq: {k: Str, n: Int}, body: Str}, subs: Set(Str)}, {svc: Str, key: Str, origin: Str, wellformed: Bool, seq: {k: Str, n: Int}, body: Str}) => {store: <<Str, Str>> -> {present: Bool, seq: {k: Str, n: Int}, body: Str}, subs: Set(Str)};
Process(T, it) == IF Accepts(T, it) THEN [T EXCEPT !.store[Idx(it)] = Entry(it)] ELSE T

\* @type: ({store: <<Str, Str>> -> {present: Bool, seq: {k: Str, n: Int}, body: Str}, subs: Set(Str)}, Str) => {store: <<Str, Str>> -> {present: Bool, seq: {k: Str, n: Int}, body: Str}, subs: Set(Str)};
Subscribe(T, svc) == [T EXCEPT !.subs = @ \cup {svc}]

\* an index is never forgotten; an integer seqnum is only ever replaced by a larger integer seqnum
\* @type: ({store: <<Str, Str>> -> {present: Bool, seq: {k: Str, n: Int}, body: Str}, subs: Set(Str)}, {store: <<Str, Str>> -> {present: Bool, seq: {k: Str, n: Int}, body: Str}, subs: Set(Str)}) => Bool;
MonotoneStep(T, U) ==
  \A i \in DOMAIN T.store :
     /\ T.store[i].present => U.store[i].present
     /\ (T.store[i].present /\ T.store[i].seq.k = "int" /\ U.store[i] # T.store[i])
           => (U.store[i].seq.k = "int" /\ U.store[i].seq.n > T.store[i].seq.n)

(* ---- the machine ---- *)
SeqKinds == {"none", "nonint", "int"}
Init ==
  /\ \E subs \in SUBSET Services : S = [store |-> [i \in Services \X Keys |-> Absent], subs |-> subs]
  /\ seen = {} /\ verified = {}

\* one item of a batch: any service, claimed key, signer (or nobody), encoding, seqnum (any integer), body
ReceiveItem(it) ==
  /\ S' = Process(S, it)
  /\ seen' = IF Accepts(S, it) /\ it.seq.k = "int"
               THEN seen \cup {[svc |-> it.svc, key |-> it.key, n |-> it.seq.n]} ELSE seen
  /\ verified' = IF Verifies(it)
                   THEN verified \cup {[svc |-> it.svc, key |-> it.key, seq |-> it.seq, body |-> it.body]} ELSE verified
Receive ==
  \E svc \in Services : \E key \in Keys : \E origin \in Keys \cup {"none"} : \E wf \in BOOLEAN :
  \E k \in SeqKinds : \E n \in Int : \E body \in Bodies :
    ReceiveItem([svc |-> svc, key |-> key, origin |-> origin, wellformed |-> wf,
                 seq |-> [k |-> k, n |-> IF k = "int" THEN n ELSE 0], body |-> body])
DoSubscribe == \E svc \in Services : S' = Subscribe(S, svc) /\ UNCHANGED <<seen, verified>>

Next == Receive \/ DoSubscribe
Spec == Init /\ [][Next]_vars

(* ---- properties ---- *)
\* an older announcement never replaces a newer one: whatever integer seqnum was once stored for
\* (service, key), the stored seqnum is an integer that is at least as large
NeverOlder ==
  \A r \in seen : LET e == S.store[<<r.svc, r.key>>] IN e.present /\ e.seq.k = "int" /\ e.seq.n >= r.n
\* the same as a relation between consecutive states (MCIntroducer's C34_Monotone)
Monotone == MonotoneStep(S, S')
\* everything in the store came in with a signature that verifies for the key it is filed under
Authentic ==
  \A i \in DOMAIN S.store : S.store[i].present =>
     [svc |-> i[1], key |-> i[2], seq |-> S.store[i].seq, body |-> S.store[i].body] \in verified
\* nothing is stored for a service nobody subscribed to
SubscribedOnly == \A i \in DOMAIN S.store : S.store[i].present => i[1] \in S.subs

TypeOK ==
  /\ DOMAIN S.store = Services \X Keys
  /\ S.subs \subseteq Services
  /\ \A i \in DOMAIN S.store :
        /\ S.store[i].seq.k \in SeqKinds
        /\ ~S.store[i].present => S.store[i] = Absent
  /\ \A r \in seen : r.svc \in Services /\ r.key \in Keys

IndInv == TypeOK /\ NeverOlder /\ Authentic /\ SubscribedOnly
=============================================================================
