----------------------------- MODULE LeasesProof -----------------------------
(* TLAPS proof that the lease machine of LeasesCore never backdates a lease and
   never holds two leases for one renew secret, for ANY set of secrets, any
   integer Duration, unbounded clock values and lease sets of any size:

     THEOREM Spec => []IndInv        (IndInv = TypeOK /\ NoSecondLease /\ Honoured)
     THEOREM Spec => []Honoured      (no backdating, over the ghost set of promises)
     THEOREM Spec => []NoSecondLease
     THEOREM Spec => [][MonotoneStep]_vars   (C25's LeasesMonotone on every step)

   Checked with `tlapm LeasesProof.tla` (SMT, Zenon, Isabelle back ends, PTL for
   the temporal steps).  Same inductive invariant as MC_Leases_apa.tla. *)
EXTENDS LeasesCore, TLAPS

LEMMA InitOK == Init => IndInv
  BY DEF Init, IndInv, TypeOK, NoSecondLease, Honoured

(* the two operators keep the shape of a lease set *)
LEMMA RenewInType ==
  ASSUME NEW LL \in SUBSET [rs : Secrets, cs : Secrets, exp : Int], NEW rs \in Secrets, NEW e \in Int
  PROVE  RenewIn(LL, rs, e) \in SUBSET [rs : Secrets, cs : Secrets, exp : Int]
  BY DEF RenewIn

LEMMA AddOrRenewType ==
  ASSUME NEW LL \in SUBSET [rs : Secrets, cs : Secrets, exp : Int], NEW rs \in Secrets, NEW cs \in Secrets, NEW e \in Int
  PROVE  AddOrRenew(LL, rs, cs, e) \in SUBSET [rs : Secrets, cs : Secrets, exp : Int]
  BY RenewInType DEF AddOrRenew, Lease

(* what a renewal does to the individual leases: every old lease has an image ... *)
LEMMA RenewInImage ==
  ASSUME NEW LL \in SUBSET [rs : Secrets, cs : Secrets, exp : Int], NEW rs \in Secrets, NEW e \in Int
  PROVE  \A l \in LL : \E m \in RenewIn(LL, rs, e) :
                m.rs = l.rs /\ m.cs = l.cs /\ m.exp >= l.exp /\ (l.rs = rs => m.exp >= e)
  <1> TAKE l \in LL
  <1> DEFINE m == IF l.rs = rs /\ e > l.exp THEN [l EXCEPT !.exp = e] ELSE l
  <1>1. m \in RenewIn(LL, rs, e) BY DEF RenewIn
  <1>2. l.exp \in Int OBVIOUS
  <1>3. m.rs = l.rs /\ m.cs = l.cs /\ m.exp >= l.exp /\ (l.rs = rs => m.exp >= e) BY <1>2
  <1> QED BY <1>1, <1>3

(* ... and every new lease is the image of an old one *)
LEMMA RenewInPre ==
  ASSUME NEW LL \in SUBSET [rs : Secrets, cs : Secrets, exp : Int], NEW rs \in Secrets, NEW e \in Int,
         NEW m \in RenewIn(LL, rs, e)
  PROVE  \E l \in LL : m.rs = l.rs /\ m.cs = l.cs
                        /\ m = (IF l.rs = rs /\ e > l.exp THEN [l EXCEPT !.exp = e] ELSE l)
  <1>1. PICK l \in LL : m = (IF l.rs = rs /\ e > l.exp THEN [l EXCEPT !.exp = e] ELSE l) BY DEF RenewIn
  <1>2. m.rs = l.rs /\ m.cs = l.cs BY <1>1
  <1> QED BY <1>1, <1>2

LEMMA RenewInNoSecond ==
  ASSUME NEW LL \in SUBSET [rs : Secrets, cs : Secrets, exp : Int], NEW rs \in Secrets, NEW e \in Int,
         \A l1 \in LL : \A l2 \in LL : l1.rs = l2.rs => l1 = l2
  PROVE  \A m1 \in RenewIn(LL, rs, e) : \A m2 \in RenewIn(LL, rs, e) : m1.rs = m2.rs => m1 = m2
  <1> TAKE m1 \in RenewIn(LL, rs, e)
  <1> TAKE m2 \in RenewIn(LL, rs, e)
  <1> HAVE m1.rs = m2.rs
  <1>1. PICK l1 \in LL : m1.rs = l1.rs /\ m1 = (IF l1.rs = rs /\ e > l1.exp THEN [l1 EXCEPT !.exp = e] ELSE l1)
    BY RenewInPre
  <1>2. PICK l2 \in LL : m2.rs = l2.rs /\ m2 = (IF l2.rs = rs /\ e > l2.exp THEN [l2 EXCEPT !.exp = e] ELSE l2)
    BY RenewInPre
  <1>3. l1 = l2 BY <1>1, <1>2
  <1> QED BY <1>1, <1>2, <1>3

LEMMA Step == IndInv /\ [Next]_vars => IndInv' /\ MonotoneStep
  <1> SUFFICES ASSUME IndInv, [Next]_vars PROVE IndInv' /\ MonotoneStep
    OBVIOUS
  <1> USE DurationIsInt
  <1>0. /\ L \in SUBSET [rs : Secrets, cs : Secrets, exp : Int]
        /\ clock \in Int /\ clock + Duration \in Int
        /\ granted \in SUBSET [rs : Secrets, exp : Int]
    BY DEF IndInv, TypeOK
  <1> DEFINE e == clock + Duration
  <1>1. ASSUME NEW rs \in Secrets, HasLease(L, rs), L' = RenewIn(L, rs, e),
               granted' = granted \cup {[rs |-> rs, exp |-> e]}, clock' = clock
        PROVE  IndInv' /\ MonotoneStep
    <2>1. TypeOK'
      BY <1>0, <1>1, RenewInType DEF TypeOK
    <2>2. NoSecondLease'
      BY <1>0, <1>1, RenewInNoSecond DEF IndInv, NoSecondLease
    <2>3. MonotoneStep
      BY <1>0, <1>1, RenewInImage DEF MonotoneStep, LeasesMonotone
    <2>4. Honoured'
      <3> SUFFICES ASSUME NEW g \in granted' PROVE \E m \in L' : m.rs = g.rs /\ m.exp >= g.exp
        BY DEF Honoured
      <3>1. CASE g \in granted
        <4>1. PICK l \in L : l.rs = g.rs /\ l.exp >= g.exp BY <3>1 DEF IndInv, Honoured
        <4>2. PICK m \in RenewIn(L, rs, e) : m.rs = l.rs /\ m.exp >= l.exp BY <1>0, RenewInImage
        <4>3. l.exp \in Int /\ m.exp \in Int /\ g.exp \in Int BY <1>0, <2>1, <3>1, <1>1 DEF TypeOK
        <4> QED BY <4>1, <4>2, <4>3, <1>1
      <3>2. CASE g = [rs |-> rs, exp |-> e]
        <4>1. PICK l \in L : l.rs = rs BY <1>1 DEF HasLease
        <4>2. PICK m \in RenewIn(L, rs, e) : m.rs = l.rs /\ (l.rs = rs => m.exp >= e) BY <1>0, RenewInImage
        <4> QED BY <4>1, <4>2, <3>2, <1>1
      <3> QED BY <3>1, <3>2, <1>1
    <2> QED BY <2>1, <2>2, <2>3, <2>4 DEF IndInv
  <1>2. ASSUME NEW rs \in Secrets, NEW cs \in Secrets, Add(rs, cs) PROVE IndInv' /\ MonotoneStep
    <2>1. CASE HasLease(L, rs)
      BY <1>1, <1>2, <2>1 DEF Add, AddOrRenew
    <2>2. CASE ~HasLease(L, rs)
      <3>1. L' = L \cup {Lease(rs, cs, e)} /\ granted' = granted \cup {[rs |-> rs, exp |-> e]} /\ clock' = clock
        BY <1>2, <2>2 DEF Add, AddOrRenew
      <3>2. Lease(rs, cs, e) \in [rs : Secrets, cs : Secrets, exp : Int] BY <1>0 DEF Lease
      <3>3. TypeOK' BY <1>0, <3>1, <3>2 DEF TypeOK
      <3>4. NoSecondLease'
        BY <2>2, <3>1 DEF IndInv, NoSecondLease, HasLease, Lease
      <3>5. MonotoneStep
        <4>1. \A l \in L : l.exp \in Int BY <1>0
        <4> QED BY <3>1, <4>1 DEF MonotoneStep, LeasesMonotone
      <3>6. Honoured'
        <4> SUFFICES ASSUME NEW g \in granted' PROVE \E m \in L' : m.rs = g.rs /\ m.exp >= g.exp
          BY DEF Honoured
        <4>1. CASE g \in granted
          BY <4>1, <3>1 DEF IndInv, Honoured
        <4>2. CASE g = [rs |-> rs, exp |-> e]
          <5>1. Lease(rs, cs, e) \in L' BY <3>1
          <5>2. Lease(rs, cs, e).rs = rs /\ Lease(rs, cs, e).exp = e BY DEF Lease
          <5> QED BY <5>1, <5>2, <4>2, <1>0
        <4> QED BY <4>1, <4>2, <3>1
      <3> QED BY <3>3, <3>4, <3>5, <3>6 DEF IndInv
    <2> QED BY <2>1, <2>2
  <1>3. ASSUME NEW rs \in Secrets, Renew(rs) PROVE IndInv' /\ MonotoneStep
    BY <1>1, <1>3 DEF Renew
  <1>4. ASSUME Tick PROVE IndInv' /\ MonotoneStep
    <2>1. L' = L /\ granted' = granted /\ clock' \in Int BY <1>4 DEF Tick
    <2>2. \A l \in L : l.exp \in Int BY <1>0
    <2> QED BY <2>1, <2>2 DEF IndInv, TypeOK, NoSecondLease, Honoured, MonotoneStep, LeasesMonotone
  <1>5. ASSUME UNCHANGED vars PROVE IndInv' /\ MonotoneStep
    <2>1. L' = L /\ granted' = granted /\ clock' = clock BY <1>5 DEF vars
    <2>2. \A l \in L : l.exp \in Int BY <1>0
    <2> QED BY <2>1, <2>2 DEF IndInv, TypeOK, NoSecondLease, Honoured, MonotoneStep, LeasesMonotone
  <1> QED BY <1>2, <1>3, <1>4, <1>5 DEF Next

THEOREM Inductive == Spec => []IndInv
  <1>1. IndInv /\ [Next]_vars => IndInv' BY Step
  <1> QED BY InitOK, <1>1, PTL DEF Spec

THEOREM NoBackdating == Spec => []Honoured
  <1>1. IndInv => Honoured BY DEF IndInv
  <1> QED BY Inductive, <1>1, PTL

THEOREM AtMostOneLeasePerSecret == Spec => []NoSecondLease
  <1>1. IndInv => NoSecondLease BY DEF IndInv
  <1> QED BY Inductive, <1>1, PTL

THEOREM NoBackdatingStep == Spec => [][MonotoneStep]_vars
  <1>1. IndInv /\ [Next]_vars => MonotoneStep BY Step
  <1> QED BY Inductive, <1>1, PTL DEF Spec
=============================================================================
