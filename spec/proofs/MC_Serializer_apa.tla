-------------------------- MODULE MC_Serializer_apa --------------------------
(* Apalache wrapper of SerializerCore.  Ids = 1..5; the induction step starts from
   an arbitrary state with sequences of length <= 4 and sets of at most 5 elements
   (Gen) that satisfies IndInv.

     base  apalache-mc check --init=Init    --inv=IndInvA --length=0 MC_Serializer_apa.tla
     step  apalache-mc check --init=IndInit --inv=IndInvA,Props --length=1 MC_Serializer_apa.tla
   (Props at state 0 of the step query is IndInv => Mutex /\ FIFO /\ ReturnAfterFinish) *)
EXTENDS Integers, Sequences, Apalache

VARIABLES
  \* @type: Seq(Int);
  queue,
  \* @type: Int;
  running,
  \* @type: Set(Int);
  known,
  \* @type: Set(Int);
  fin,
  \* @type: Set(Int);
  ret,
  \* @type: Seq(Int);
  reqd,
  \* @type: Seq(Int);
  started

INSTANCE SerializerCore WITH Ids <- 1..5

\* TypeOK without the infinite set Seq(Ids)
TypeOKa ==
  /\ \A i \in DOMAIN queue : queue[i] \in 1..5
  /\ \A i \in DOMAIN reqd : reqd[i] \in 1..5
  /\ \A i \in DOMAIN started : started[i] \in 1..5
  /\ running \in 0..5
  /\ known \subseteq 1..5 /\ fin \subseteq 1..5 /\ ret \subseteq 1..5
IndInvA == TypeOKa /\ Split /\ KnownAll /\ NoDup /\ FinStarted /\ Idle /\ Busy

IndInit ==
  /\ queue = Gen(4) /\ reqd = Gen(4) /\ started = Gen(4)
  /\ running = Gen(1) /\ known = Gen(5) /\ fin = Gen(5) /\ ret = Gen(5)
  /\ IndInvA
\* base case and induction step in one query (quick tier): state 0 is an initial state or any IndInv state
BaseOrIndInit == Init \/ IndInit
Props == Mutex /\ FIFO /\ ReturnAfterFinish /\ MutexInv
=============================================================================
