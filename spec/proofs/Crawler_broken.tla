----------------------------- MODULE Crawler_broken -----------------------------
(* The share crawler of spec/storage/Crawler.tla (crawler.py ShareCrawler: time
   slices, state file, SIGKILL and restart from the state file, share directories
   that come and go while the crawler sleeps), re-stated action by action with ONE
   representation change: the bucket cache `clist` (a sorted sequence, built by the
   RECURSIVE SortedSeq) is the set `cset` of its elements, and "the first bucket of
   Todo" is "the smallest bucket of Todo".  Everything else - the state file
   `saved`, the volatile object V, pc, the guards and updates of the ten actions - is
   Crawler.tla's.  The event variable `ev` of Crawler.tla (an observation for trace
   validation) is dropped.

   Why a re-statement: Crawler.tla EXTENDS Common.tla and uses RECURSIVE SortedSeq
   and SelectSeq with a LAMBDA (no recursive operators in Apalache 0.58, Common.tla
   cannot be typed).  AgreeCrawler.tla (TLC) runs MCCrawler itself and checks that
   every one of its steps is a step of this machine under  cset <- ToSet(V.clist).

   Ghost variables (C27): `must` - the buckets that have existed ever since the
   cycle in progress started (MCCrawler's thr[cycle]), `done` - the buckets
   process_bucket was called with since then.

   NP >= 2 is assumed: with a single prefix directory the bucket cache of the last
   prefix of one cycle would be taken for the listing of the first prefix of the
   next (bucket_cache is keyed by the prefix index only).  The real crawler has 1024.
   The `@type` comments are Apalache's annotations. *)
EXTENDS Integers

CONSTANTS
  \* @type: Int;
  NP,
  \* @type: Set(Int);
  Universe       \* bucket names that may exist; bucket b lives in prefix directory b \div 10

NoCycle == -1
\* @type: Int => Int;
PrefixOf(b) == b \div 10

ASSUME ConstOK == NP \in Int /\ NP >= 2 /\ Universe \subseteq Int /\ \A b \in Universe : b > 0 /\ PrefixOf(b) >= 1 /\ PrefixOf(b) <= NP

VARIABLES
  \* @type: Set(Int);
  disk,
  \* @type: {lcf: Int, cur: Int, lcp: Int, lcb: Int};
  saved,
  \* @type: {lcf: Int, cur: Int, lcpi: Int, lcb: Int, cidx: Int, cset: Set(Int), at: Str};
  V,
  \* @type: Str;
  pc,
  \* @type: Set(Int);
  must,
  \* @type: Set(Int);
  done
vars == <<disk, saved, V, pc, must, done>>

DefaultSaved == [lcf |-> NoCycle, cur |-> NoCycle, lcp |-> 0, lcb |-> 0]
DeadV == [lcf |-> NoCycle, cur |-> NoCycle, lcpi |-> 0, lcb |-> 0, cidx |-> 0, cset |-> {}, at |-> "top"]
\* load_state(): the object a new process builds from the state file
\* @type: {lcf: Int, cur: Int, lcp: Int, lcb: Int} => {lcf: Int, cur: Int, lcpi: Int, lcb: Int, cidx: Int, cset: Set(Int), at: Str};
Load(s) == [lcf |-> s.lcf, cur |-> s.cur, lcpi |-> s.lcp, lcb |-> s.lcb, cidx |-> 0, cset |-> {}, at |-> "top"]
\* save_state(): what the state file holds afterwards
\* @type: {lcf: Int, cur: Int, lcpi: Int, lcb: Int, cidx: Int, cset: Set(Int), at: Str} => {lcf: Int, cur: Int, lcp: Int, lcb: Int};
Persist(W) == [lcf |-> W.lcf, cur |-> W.cur, lcp |-> W.lcpi, lcb |-> W.lcb]

\* start_current_prefix: `if i == self.bucket_cache[0]: buckets = cache else: listdir+sort`
Listing == IF V.cidx = V.lcpi + 1 THEN V.cset ELSE {b \in disk : PrefixOf(b) = V.lcpi + 1}
\* process_prefixdir: buckets not skipped by `bucket <= last_complete`
Todo == {b \in Listing : V.lcb = 0 \/ b > V.lcb}

Init ==
  /\ disk \in SUBSET Universe
  /\ saved = DefaultSaved /\ V = Load(DefaultSaved) /\ pc = "sleep"
  /\ must = {} /\ done = {}

\* start_slice + head of start_current_prefix: a new cycle is numbered last-cycle-finished + 1
StartSlice ==
  /\ pc = "sleep"
  /\ IF V.cur = NoCycle
       THEN V' = [V EXCEPT !.cur = V.lcf + 1, !.at = "top"] /\ must' = disk /\ done' = {}
       ELSE V' = [V EXCEPT !.at = "top"] /\ UNCHANGED <<must, done>>
  /\ pc' = "run" /\ UNCHANGED <<disk, saved>>

\* the guards, named as in Crawler.tla
CanProcess == V.lcpi < NP /\ Todo # {}
CanFinishPrefix == V.lcpi < NP      \* BROKEN: a prefix directory is declared complete although buckets of it are still to do
CanSliceEnd == V.at = "check"
CanFinishCycle == V.lcpi = NP

ProcessBucket ==
  /\ pc = "run" /\ CanProcess
  /\ \E b \in Todo :
       /\ \A c \in Todo : b <= c                            \* Head of the sorted Todo
       /\ V' = [V EXCEPT !.lcb = b, !.cidx = V.lcpi + 1, !.cset = Listing, !.at = "check"]
       /\ done' = done \cup {b}
  /\ UNCHANGED <<disk, saved, pc, must>>

FinishPrefix ==
  /\ pc = "run" /\ CanFinishPrefix
  /\ V' = [V EXCEPT !.lcpi = V.lcpi + 1, !.cidx = V.lcpi + 1, !.cset = Listing, !.at = "check"]
  /\ UNCHANGED <<disk, saved, pc, must, done>>

\* TimeSliceExceeded -> start_slice: save_state(), sleep
SliceEnd ==
  /\ pc = "run" /\ CanSliceEnd
  /\ V' = [V EXCEPT !.at = "top"] /\ saved' = Persist(V)
  /\ pc' = "sleep" /\ UNCHANGED <<disk, must, done>>

\* tail of start_current_prefix before its save_state(): finished_cycle(cycle) is called here
FinishCycle ==
  /\ pc = "run" /\ CanFinishCycle
  /\ V' = [V EXCEPT !.lcpi = 0, !.lcb = 0, !.lcf = V.cur, !.cur = NoCycle, !.at = "top"]
  /\ pc' = "finishing" /\ UNCHANGED <<disk, saved, must, done>>

SaveCycle ==
  /\ pc = "finishing"
  /\ saved' = Persist(V)
  /\ pc' = "sleep" /\ UNCHANGED <<disk, V, must, done>>

\* SIGKILL: everything but the state file and the share directories is lost
Kill ==
  /\ pc # "dead"
  /\ pc' = "dead" /\ V' = DeadV
  /\ UNCHANGED <<disk, saved, must, done>>

\* a new process: ShareCrawler.__init__ -> load_state
Restart ==
  /\ pc = "dead"
  /\ pc' = "sleep" /\ V' = Load(saved)
  /\ UNCHANGED <<disk, saved, must, done>>

\* the rest of the server changes the share directories only while the crawler has yielded
AddBucket(b) ==
  /\ (pc = "sleep" \/ pc = "dead") /\ b \notin disk
  /\ disk' = disk \cup {b}
  /\ UNCHANGED <<saved, V, pc, must, done>>
RemoveBucket(b) ==
  /\ (pc = "sleep" \/ pc = "dead") /\ b \in disk
  /\ disk' = disk \ {b} /\ must' = must \ {b}
  /\ UNCHANGED <<saved, V, pc, done>>

Next == \/ StartSlice \/ ProcessBucket \/ FinishPrefix \/ SliceEnd \/ FinishCycle \/ SaveCycle
        \/ Kill \/ Restart \/ (\E b \in Universe : AddBucket(b) \/ RemoveBucket(b))
Spec == Init /\ [][Next]_vars

(* ---- properties ---- *)
\* C27_Cover: when finished_cycle is called, every bucket that existed throughout the cycle was processed -
\* whatever the placement of slice ends, kills and restarts
Cover == pc = "finishing" => must \subseteq done
\* C27_CycleNums_Inv, the part about the state: the cycle in progress is the successor of the last finished one
CycleNums ==
  /\ (V.cur # NoCycle => V.cur = V.lcf + 1)
  /\ (saved.cur # NoCycle => saved.cur = saved.lcf + 1)
  /\ ((pc = "sleep" \/ pc = "run") /\ V.cur # NoCycle => V.cur = saved.lcf + 1)

(* ---- the inductive invariant ---- *)
Awake == pc = "sleep" \/ pc = "run"
\* the buckets of `must` that lie before the position (p complete prefixes, last complete bucket lb) are done
\* @type: (Int, Int) => Bool;
CoveredAt(p, lb) ==
  \A b \in must : (PrefixOf(b) <= p \/ (PrefixOf(b) = p + 1 /\ lb # 0 /\ b <= lb)) => b \in done

TypeOK ==
  /\ disk \subseteq Universe /\ must \subseteq Universe /\ done \subseteq Universe /\ V.cset \subseteq Universe
  /\ pc \in {"sleep", "run", "finishing", "dead"} /\ V.at \in {"top", "check"}
  /\ V.lcpi >= 0 /\ V.lcpi <= NP /\ saved.lcp >= 0 /\ saved.lcp <= NP /\ V.cidx >= 0 /\ V.cidx <= NP
  /\ V.lcf >= NoCycle /\ V.cur >= NoCycle /\ saved.lcf >= NoCycle /\ saved.cur >= NoCycle
  /\ (V.lcb = 0 \/ V.lcb \in Universe) /\ (saved.lcb = 0 \/ saved.lcb \in Universe)
MustOnDisk == must \subseteq disk
PcShape ==
  /\ pc = "run" => V.cur # NoCycle
  /\ (pc = "sleep" /\ V.cur = NoCycle) => (V.lcpi = 0 /\ V.lcb = 0 /\ saved.cur = NoCycle /\ (V.cidx = 0 \/ V.cidx = NP))
  /\ pc = "finishing" => (V.cur = NoCycle /\ V.lcpi = 0 /\ V.lcb = 0 /\ (V.cidx = 0 \/ V.cidx = NP))
  /\ (Awake /\ V.lcpi = NP) => (V.cidx = 0 \/ V.cidx = NP)
  /\ pc = "dead" => V = DeadV
  /\ saved.cur = NoCycle => (saved.lcp = 0 /\ saved.lcb = 0)
  /\ Awake => V.lcf = saved.lcf
LcbLow ==
  /\ V.lcb # 0 => PrefixOf(V.lcb) <= V.lcpi + 1
  /\ saved.lcb # 0 => PrefixOf(saved.lcb) <= saved.lcp + 1
CachePrefix == \A b \in V.cset : PrefixOf(b) = V.cidx
CacheCovers == (Awake /\ V.cur # NoCycle /\ V.cidx = V.lcpi + 1) => \A b \in must : PrefixOf(b) = V.cidx => b \in V.cset
CovV == (Awake /\ V.cur # NoCycle) => CoveredAt(V.lcpi, V.lcb)
CovS == saved.cur # NoCycle => CoveredAt(saved.lcp, saved.lcb)

IndInv == TypeOK /\ MustOnDisk /\ PcShape /\ LcbLow /\ CachePrefix /\ CacheCovers /\ CovV /\ CovS /\ Cover /\ CycleNums
=============================================================================
