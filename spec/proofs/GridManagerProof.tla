-------------------------- MODULE GridManagerProof --------------------------
(* TLAPS proof of the clauses of C33 for GridManagerCore's operators - any sets of
   keys and certificates (finite or not), any server, any integer times:

     THEOREM ClausesHold == TypeOK => Clauses
     THEOREM Spec => []Clauses

   Checked with `tlapm GridManagerProof.tla`. *)
EXTENDS GridManagerCore, TLAPS

LEMMA PermittedIs ==
  ASSUME NEW ks, NEW cs, NEW srv, NEW t
  PROVE  Permitted(ks, cs, srv, t) <=> (ks = {} \/ \E c \in cs : c.signer \in ks /\ c.tamper = "none" /\ c.subject = srv /\ t < c.expires)
  BY DEF Permitted, Validate, ValidCerts, SigOK

THEOREM ClausesHold == TypeOK => Clauses
  <1> SUFFICES ASSUME TypeOK PROVE Clauses OBVIOUS
  <1>1. Exact BY PermittedIs DEF Exact, Good
  <1>2. BadCertsIrrelevant
    <2> DEFINE G == {c \in certs : Good(c, now)}
    <2>1. Permitted(keys, certs, server, now) <=> (keys = {} \/ \E c \in certs : Good(c, now)) BY PermittedIs DEF Good
    <2>2. Permitted(keys, G, server, now) <=> (keys = {} \/ \E c \in G : Good(c, now)) BY PermittedIs DEF Good
    <2>3. (\E c \in G : Good(c, now)) <=> (\E c \in certs : Good(c, now)) OBVIOUS
    <2>4. Permitted(keys, certs, server, now) <=> Permitted(keys, G, server, now) BY <2>1, <2>2, <2>3
    <2>5. Permitted(keys, certs, server, now) \in BOOLEAN /\ Permitted(keys, G, server, now) \in BOOLEAN BY DEF Permitted, Validate
    <2> QED BY <2>4, <2>5 DEF BadCertsIrrelevant
  <1>3. NoKeysPermitsAll BY DEF NoKeysPermitsAll, Permitted
  <1>4. ExpiryMonotone
    <2> SUFFICES ASSUME now <= later, Permitted(keys, certs, server, later) PROVE Permitted(keys, certs, server, now)
      BY DEF ExpiryMonotone
    <2>1. CASE keys = {} BY <2>1 DEF Permitted
    <2>2. CASE keys # {}
      <3>1. PICK c \in certs : c.signer \in keys /\ c.tamper = "none" /\ c.subject = server /\ later < c.expires
        BY <2>2, PermittedIs
      <3>2. now \in Int /\ later \in Int /\ c.expires \in Int BY DEF TypeOK
      <3>3. now < c.expires BY <3>1, <3>2
      <3> QED BY <3>1, <3>3, PermittedIs
    <2> QED BY <2>1, <2>2
  <1>5. MoreCertsNeverRevoke
    <2> SUFFICES ASSUME NEW c \in certs, Permitted(keys, certs \ {c}, server, now) PROVE Permitted(keys, certs, server, now)
      BY DEF MoreCertsNeverRevoke
    <2>1. keys = {} \/ \E d \in certs \ {c} : d.signer \in keys /\ d.tamper = "none" /\ d.subject = server /\ now < d.expires
      BY PermittedIs
    <2>2. keys = {} \/ \E d \in certs : d.signer \in keys /\ d.tamper = "none" /\ d.subject = server /\ now < d.expires
      BY <2>1
    <2> QED BY <2>2, PermittedIs
  <1> QED BY <1>1, <1>2, <1>3, <1>4, <1>5 DEF Clauses

THEOREM Always == Spec => []Clauses
  <1>1. Init => TypeOK BY DEF Init
  <1>2. TypeOK /\ [Next]_vars => TypeOK' BY DEF TypeOK, Next, vars
  <1>3. Spec => []TypeOK BY <1>1, <1>2, PTL DEF Spec
  <1> QED BY <1>3, ClausesHold, PTL
=============================================================================
