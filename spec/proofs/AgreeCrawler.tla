----------------------------- MODULE AgreeCrawler -----------------------------
(* TLC agreement run: CrawlerCore (the module Apalache works on) against
   spec/storage/Crawler.tla as exercised by MCCrawler (the module C27 uses), with
   MCCrawler's own constants and transitions.  This module adds the core's two ghost
   variables to MCCrawler's behaviours (driven by MCCrawler's event variable ev, the
   way MCCrawler drives its own ghosts) and maps
        cset <- ToSet(V.clist)         (the one representation change of the core)
   TLC checks
     StepsAreCoreSteps  every MCCrawler step is a step of CrawlerCore!Next
     ListingAgrees      Listing / Todo / the next bucket / CanProcess / CanFinishPrefix are the same in both
     GuardsAgree        CanSliceEnd / CanFinishCycle are the same in both
     GhostsAgree        must = MCCrawler's thr[cycle], done = the buckets with proc[cycle] >= 1
                        since the cycle (re)started, so Cover is C27_Cover's statement
     the core's IndInv, Cover, CycleNums in every reachable state. *)
EXTENDS MCCrawler

VARIABLES mustG, doneG
avars == <<disk, saved, V, pc, ev, proc, thr, killedIn, fin, kills, changes, killSinceFin, mustG, doneG>>

CoreV == [lcf |-> V.lcf, cur |-> V.cur, lcpi |-> V.lcpi, lcb |-> V.lcb, cidx |-> V.cidx, cset |-> ToSet(V.clist), at |-> V.at]
Core == INSTANCE CrawlerCore WITH V <- CoreV, must <- mustG, done <- doneG

AInit == Init /\ mustG = {} /\ doneG = {}
GhostCore ==
  /\ mustG' = IF ev'.a = "StartSlice" /\ V.cur = NoCycle THEN disk
              ELSE IF ev'.a = "RemoveBucket" THEN mustG \ {ev'.b} ELSE mustG
  /\ doneG' = IF ev'.a = "StartSlice" /\ V.cur = NoCycle THEN {}
              ELSE IF ev'.a = "ProcessBucket" THEN doneG \cup {ev'.b} ELSE doneG
ANext == Next /\ GhostCore
ASpec == AInit /\ [][ANext]_avars

StepsAreCoreSteps == [][Core!Next]_<<disk, saved, CoreV, pc, mustG, doneG>>

GuardsAgree == pc = "run" => (CanSliceEnd(V) = Core!CanSliceEnd /\ CanFinishCycle(V) = Core!CanFinishCycle)
ListingAgrees ==
  (pc = "run" /\ V.lcpi < NP) =>
     /\ ToSet(Listing(disk, V)) = Core!Listing
     /\ ToSet(Todo(disk, V)) = Core!Todo
     /\ (Todo(disk, V) # <<>>) => (\A c \in Core!Todo : Head(Todo(disk, V)) <= c)
     /\ CanProcess(disk, V) = Core!CanProcess
     /\ CanFinishPrefix(disk, V) = Core!CanFinishPrefix

\* the cycle the ghosts talk about: the one in progress, or the one that just finished
GhostsAgree ==
  /\ (pc \in {"sleep", "run"} /\ V.cur # NoCycle /\ V.cur < MaxCycles) =>
        /\ mustG = thr[V.cur]
        /\ \A b \in doneG : proc[V.cur][b] >= 1
  /\ (pc = "finishing" /\ V.lcf < MaxCycles) =>
        /\ mustG = thr[V.lcf]
        /\ \A b \in doneG : proc[V.lcf][b] >= 1

CoreIndInv == Core!IndInv
CoreCover == Core!Cover
CoreCycleNums == Core!CycleNums
ConstAgree == Core!DefaultSaved = DefaultSaved /\ Core!NoCycle = NoCycle /\ \A b \in Universe : Core!PrefixOf(b) = PrefixOf(b)
=============================================================================
