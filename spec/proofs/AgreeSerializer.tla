--------------------------- MODULE AgreeSerializer ---------------------------
(* TLC agreement run: SerializerCore (the module Apalache and TLAPS work on) against
   the abstract serializer of spec/mutable/Serializer.tla (the operators that trace
   validation of the real MutableFileNode uses, and that MCSerializer's code-shaped
   Deferred chain is shown to refine: C13_Refines).

   The machine below is driven by the ORIGINAL operators, the way TraceSerializer
   applies them: an event is accepted when its clause is "", then A' = AXxx(A, ...).
   Operations come from MCSerializer's file catalogue; a Finish may report any
   status, fault flag and read result.  With
       queue <- A.queue, running <- A.running, known <- DOMAIN A.ops,
       fin <- DOMAIN A.fin, ret <- A.ret
   TLC checks
     StepsAreCoreSteps  every accepted event is a step of SerializerCore!Next
     GuardsAgree        a core action is enabled exactly when the original clause
                        is "" (Finish: for some outcome)
     the core's IndInv, Mutex, FIFO in every reachable state, and that the core's
     forms of Mutex / FIFO / ToSet equal the forms MCSerializer and Common.tla use. *)
EXTENDS Serializer

CONSTANTS N, Faulty

VARIABLES A, reqd, started
avars == <<A, reqd, started>>

Ids == 1..N
Core == INSTANCE SerializerCore WITH Ids <- Ids, queue <- A.queue, running <- A.running,
                                     known <- DOMAIN A.ops, fin <- DOMAIN A.fin, ret <- A.ret

Catalog(id) ==
  {[kind |-> "read"], [kind |-> "over", data |-> <<id>>],
   [kind |-> "mod", fn |-> "append", tok |-> id], [kind |-> "mod", fn |-> "raise", tok |-> id]}
C0 == <<0>>
\* what a finished read may claim to have seen: any possible contents, or something else
Results == A.poss \cup {<<99>>}
Stats == {"ok", "err"}

AgInit == A = AInit(C0) /\ reqd = <<>> /\ started = <<>>
DoRequest == \E id \in Ids : \E o \in Catalog(id) :
  /\ ARequestClause(A, id) = ""
  /\ A' = ARequest(A, id, o) /\ reqd' = Append(reqd, id) /\ UNCHANGED started
DoStart == \E id \in DOMAIN A.ops :
  /\ AStartClause(A, id) = ""
  /\ A' = AStart(A, id) /\ started' = Append(started, id) /\ UNCHANGED reqd
DoFinish == \E id \in DOMAIN A.ops : \E st \in Stats : \E f \in Faulty : \E res \in Results :
  /\ AFinishClause(A, id, st, f, res) = ""
  /\ A' = AFinish(A, id, st, f, res) /\ UNCHANGED <<reqd, started>>
DoReturn == \E id \in DOMAIN A.ops : \E st \in Stats :
  /\ AReturnClause(A, id, st) = ""
  /\ A' = AReturn(A, id) /\ UNCHANGED <<reqd, started>>
AgNext == DoRequest \/ DoStart \/ DoFinish \/ DoReturn
AgSpec == AgInit /\ [][AgNext]_avars

StepsAreCoreSteps == [][Core!Next]_avars

GuardsAgree ==
  /\ \A id \in Ids : (ARequestClause(A, id) = "") <=> Core!RequestOK(id)
  /\ \A id \in DOMAIN A.ops :
       /\ (AStartClause(A, id) = "") <=> Core!StartOK(id)
       /\ (\E st \in Stats : \E f \in Faulty : \E res \in Results : AFinishClause(A, id, st, f, res) = "") <=> Core!FinishOK(id)
       /\ (\E st \in Stats : AReturnClause(A, id, st) = "") <=> Core!ReturnOK(id)
  \* an id that was never requested: TraceSerializer rejects its Start (C13_FIFO) before looking at AStartClause
  /\ \A id \in Ids \ DOMAIN A.ops : ~Core!StartOK(id) /\ ~Core!FinishOK(id) /\ ~Core!ReturnOK(id)

CoreIndInv == Core!IndInv
CoreMutex == Core!Mutex
CoreFIFO == Core!FIFO
CoreMutexInv == Core!MutexInv

\* the forms of the properties: on the reachable states, and on arbitrary small histories (initial state only)
SmallSeqs == UNION {[1..n -> 1..3] : n \in 0..3}
FormsAgree ==
  /\ Core!ToSet(started) = ToSet(started) /\ Core!ToSet(reqd) = ToSet(reqd)
  /\ (Cardinality(Core!InProgress) <= 1) <=> Core!Mutex
  /\ IsPrefixOf(started, reqd) <=> Core!FIFO
  /\ (reqd = <<>>) =>
       /\ \A s \in SmallSeqs : Core!ToSet(s) = ToSet(s)
       /\ \A s \in SmallSeqs : \A r \in SmallSeqs :
            IsPrefixOf(s, r) <=> (Len(s) <= Len(r) /\ \A i \in DOMAIN s : s[i] = r[i])
       /\ \A X \in SUBSET (1..3) : (Cardinality(X) <= 1) <=> (\A i \in X : \A j \in X : i = j)
=============================================================================
