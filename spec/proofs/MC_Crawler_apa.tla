---------------------------- MODULE MC_Crawler_apa ----------------------------
(* Apalache wrapper of CrawlerCore: NP = 3 prefix directories with 3 possible
   buckets each; cycle numbers are unbounded integers; the induction step starts
   from an arbitrary state over these buckets (Gen) that satisfies IndInv.

     base  apalache-mc check --init=Init    --inv=IndInv --length=0 MC_Crawler_apa.tla
     step  apalache-mc check --init=IndInit --inv=IndInv,Props --length=1 MC_Crawler_apa.tla *)
EXTENDS Integers, Apalache

VARIABLES
  \* @type: Set(Int);
  disk,
  \* @type: {lcf: Int, cur: Int, lcp: Int, lcb: Int};
  saved,
  \* @type: {lcf: Int, cur: Int, lcpi: Int, lcb: Int, cidx: Int, cset: Set(Int), at: Str};
  V,
  \* @type: Str;
  pc,
  \* @type: Set(Int);
  must,
  \* @type: Set(Int);
  done

INSTANCE CrawlerCore WITH NP <- 3, Universe <- {10, 11, 12, 20, 21, 22, 30, 31, 32}

IndInit ==
  /\ disk = Gen(9) /\ saved = Gen(1) /\ V = Gen(9) /\ pc = Gen(1) /\ must = Gen(9) /\ done = Gen(9)
  /\ IndInv
\* base case and induction step in one query (quick tier): state 0 is an initial state or any IndInv state
BaseOrIndInit == Init \/ IndInit
Props == Cover /\ CycleNums
=============================================================================
