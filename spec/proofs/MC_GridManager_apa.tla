-------------------------- MODULE MC_GridManager_apa --------------------------
(* Apalache wrapper of GridManagerCore: every choice of at most 3 configured keys,
   at most 4 certificates (any signer / subject / tamper strings, any integer expiry),
   any server and any two instants; one query, no transition is needed:

     apalache-mc check --init=AnyState --inv=Clauses --length=0 MC_GridManager_apa.tla *)
EXTENDS Integers, Apalache

VARIABLES
  \* @type: Set(Str);
  keys,
  \* @type: Set({signer: Str, subject: Str, expires: Int, tamper: Str});
  certs,
  \* @type: Str;
  server,
  \* @type: Int;
  now,
  \* @type: Int;
  later

INSTANCE GridManagerCore

AnyState == keys = Gen(3) /\ certs = Gen(4) /\ server = Gen(1) /\ now = Gen(1) /\ later = Gen(1)
=============================================================================
