-------------------------- MODULE MC_Introducer_apa --------------------------
(* Apalache wrapper of IntroducerCore: 2 services x 2 keys, 3 bodies; sequence
   numbers are unbounded integers; the induction step starts from an arbitrary
   store over the four indices and ghost sets of at most 4 elements (Gen).

     base  apalache-mc check --init=Init    --inv=IndInv --length=0 MC_Introducer_apa.tla
     step  apalache-mc check --init=IndInit --inv=IndInv,Monotone --length=1 MC_Introducer_apa.tla *)
EXTENDS Integers, Apalache

VARIABLES
  \* @type: {store: <<Str, Str>> -> {present: Bool, seq: {k: Str, n: Int}, body: Str}, subs: Set(Str)};
  S,
  \* @type: Set({svc: Str, key: Str, n: Int});
  seen,
  \* @type: Set({svc: Str, key: Str, seq: {k: Str, n: Int}, body: Str});
  verified

INSTANCE IntroducerCore WITH Services <- {"storage", "other"}, Keys <- {"k1", "k2"}, Bodies <- {"a", "b", "c"}

IndInit == S = Gen(4) /\ seen = Gen(4) /\ verified = Gen(4) /\ IndInv
\* base case and induction step in one query (quick tier): state 0 is an initial state or any IndInv state
BaseOrIndInit == Init \/ IndInit
Props == NeverOlder /\ Authentic /\ SubscribedOnly
=============================================================================
