---------------------------- MODULE MC_Leases_apa ----------------------------
(* Apalache wrapper of LeasesCore: constants as definitions, an arbitrary state
   of bounded SIZE (Gen) as the start of the induction step.  Integers (clock,
   expiry times, Duration is fixed) are unbounded in the SMT encoding; the bounds
   are on cardinalities only: |L| <= 4, |granted| <= 4, 3 secrets.

     base   apalache-mc check --init=Init    --inv=IndInvA --length=0 MC_Leases_apa.tla
     step   apalache-mc check --init=IndInit --inv=IndInvA,Props,MonotoneStep --length=1 MC_Leases_apa.tla
   (Props at state 0 of the step query is IndInv => Honoured /\ NoSecondLease; MonotoneStep is an action invariant) *)
EXTENDS Integers, Apalache

VARIABLES
  \* @type: Set({rs: Str, cs: Str, exp: Int});
  L,
  \* @type: Int;
  clock,
  \* @type: Set({rs: Str, exp: Int});
  granted

INSTANCE LeasesCore WITH Secrets <- {"r0", "r1", "r2"}, Duration <- 2678400

\* TypeOK with Apalache-friendly membership tests (no infinite record set is built)
TypeOKa ==
  /\ \A l \in L : l.rs \in {"r0", "r1", "r2"} /\ l.cs \in {"r0", "r1", "r2"}
  /\ \A g \in granted : g.rs \in {"r0", "r1", "r2"}
IndInvA == TypeOKa /\ NoSecondLease /\ Honoured

IndInit == L = Gen(4) /\ clock = Gen(1) /\ granted = Gen(4) /\ IndInvA
\* base case and induction step in one query (quick tier): state 0 is an initial state or any IndInv state
BaseOrIndInit == Init \/ IndInit
Props == Honoured /\ NoSecondLease
=============================================================================
