-------------------------- MODULE AgreeGridManager --------------------------
(* TLC agreement run: GridManagerCore (the module Apalache and TLAPS work on) against
   spec/net/GridManager.tla (the module C33 and the extra grid_manager_tool use), on
   the case domain of GenGridManager.tla: every set of at most MaxCerts certificates
   over Signers x Subjects x Expiries x {none, cert, sig}, every set of configured
   keys, every pair of instants of Nows, both servers.

     OperatorsAgree  SigOK, ValidCerts, Validate, Permitted are equal
     ClausesAgree    the core's clauses are GenGridManager's C33_* clauses (re-stated
                     here with GenGridManager's text, since that module writes a case
                     file when it is loaded), instant by instant
     CoreClauses     the core's clauses hold on every case *)
EXTENDS GridManager

CONSTANTS Signers, Configurable, Subjects, Expiries, Nows, MaxCerts

VARIABLES keys, cs, server, now, later
gvars == <<keys, cs, server, now, later>>

Core == INSTANCE GridManagerCore WITH certs <- cs

Tampers == {"none", "cert", "sig"}
Certs == [signer : Signers, subject : Subjects, expires : Expiries, tamper : Tampers]
CertSets == {X \in SUBSET Certs : Cardinality(X) <= MaxCerts}

GInit == keys \in SUBSET Configurable /\ cs \in CertSets /\ server \in Subjects /\ now \in Nows /\ later \in Nows
GNext == UNCHANGED gvars
GSpec == GInit /\ [][GNext]_gvars

OperatorsAgree ==
  /\ \A k \in Signers : \A c \in cs : Core!SigOK(k, c) = SigOK(k, c)
  /\ Core!ValidCerts(keys, cs) = ValidCerts(keys, cs)
  /\ Core!Validate(ValidCerts(keys, cs), server, now) = Validate(ValidCerts(keys, cs), server, now)
  /\ Core!Validate(cs, server, now) = Validate(cs, server, now)
  /\ Core!Permitted(keys, cs, server, now) = Permitted(keys, cs, server, now)

\* GenGridManager.tla's clauses for one instant (there: \A now \in Nows, Self = the server)
GGood(c, t) == c.signer \in keys /\ c.tamper = "none" /\ c.subject = server /\ t < c.expires
ClausesAgree ==
  /\ Core!Exact = (Permitted(keys, cs, server, now) <=> (keys = {} \/ \E c \in cs : GGood(c, now)))
  /\ Core!BadCertsIrrelevant = (Permitted(keys, cs, server, now) = Permitted(keys, {c \in cs : GGood(c, now)}, server, now))
  /\ Core!NoKeysPermitsAll = (keys = {} => GMVerdict(keys, cs, server, now) = "permit")
  /\ Core!ExpiryMonotone = ((now <= later /\ Permitted(keys, cs, server, later)) => Permitted(keys, cs, server, now))
  /\ Core!MoreCertsNeverRevoke = (\A c \in cs : Permitted(keys, cs \ {c}, server, now) => Permitted(keys, cs, server, now))
CoreClauses == Core!Clauses
=============================================================================
