----------------------------- MODULE AgreeLeases -----------------------------
(* TLC agreement run: LeasesCore (the module Apalache and TLAPS work on) against
   spec/storage/Storage.tla (the module the registered checks C22-C25, C28 use).

   1. OperatorsAgree: HasLease, Lease, RenewIn, AddOrRenew, LeasesMonotone of the
      two modules are equal on every lease set over RS x CS x Exps and every argument.
   2. The machine below is driven by Storage.tla's operators (the way AddLease / Renew
      of Storage.tla use them: expiry = clock + LeaseDuration, clock moving both ways);
      StepsAreCoreSteps: each of its steps is a step of LeasesCore!Next;
      the core's IndInv and properties hold in every reachable state. *)
EXTENDS Storage

CONSTANTS RS, CS, Clocks, MaxGranted

VARIABLES L, clock, granted
avars == <<L, clock, granted>>

Core == INSTANCE LeasesCore WITH Secrets <- RS \cup CS, Duration <- LeaseDuration

AInit == L = {} /\ clock = 0 /\ granted = {}
AAdd == \E rs \in RS : \E cs \in CS :
  /\ L' = AddOrRenew(L, rs, cs, clock + LeaseDuration)
  /\ granted' = granted \cup {[rs |-> rs, exp |-> clock + LeaseDuration]}
  /\ UNCHANGED clock
ARenew == \E rs \in RS :
  /\ HasLease(L, rs)
  /\ L' = RenewIn(L, rs, clock + LeaseDuration)
  /\ granted' = granted \cup {[rs |-> rs, exp |-> clock + LeaseDuration]}
  /\ UNCHANGED clock
ATick == \E t \in Clocks : clock' = t /\ UNCHANGED <<L, granted>>
ANext == AAdd \/ ARenew \/ ATick
ASpec == AInit /\ [][ANext]_avars

Exps == {t + LeaseDuration : t \in Clocks}
LeaseSets == SUBSET [rs : RS, cs : CS, exp : Exps]
SmallSets == {X \in LeaseSets : Cardinality(X) <= 2}      \* pairs of lease sets: up to two leases each
\* constant-level; guarded so that TLC evaluates it in the initial state only
OperatorsAgree == (granted = {} /\ clock = 0) =>
  /\ \A LL \in LeaseSets : \A rs \in RS :
       /\ Core!HasLease(LL, rs) = HasLease(LL, rs)
       /\ \A e \in Exps : /\ Core!RenewIn(LL, rs, e) = RenewIn(LL, rs, e)
                          /\ \A cs \in CS : /\ Core!AddOrRenew(LL, rs, cs, e) = AddOrRenew(LL, rs, cs, e)
                                            /\ Core!Lease(rs, cs, e) = Lease(rs, cs, e)
  /\ \A L1 \in SmallSets : \A L2 \in SmallSets : Core!LeasesMonotone(L1, L2) = LeasesMonotone(L1, L2)

StepsAreCoreSteps == [][Core!Next]_avars
CoreIndInv == Core!IndInv
CoreHonoured == Core!Honoured
CoreNoSecondLease == Core!NoSecondLease
CoreMonotone == [][Core!MonotoneStep]_avars
Bound == Cardinality(granted) <= MaxGranted
=============================================================================
