--------------------------- MODULE SerializerProof ---------------------------
(* TLAPS proof of mutual exclusion for the serializer machine of SerializerCore,
   for ANY set of operation ids (0 excluded) and histories of any length:

     THEOREM Spec => []MInv          (MInv = started \in Seq(Ids) /\ MutexInv)
     THEOREM Spec => []Mutex         (at most one operation is in progress)

     THEOREM Spec => []FInv          (FInv = the three sequences are in Seq(Ids) /\ Split)
     THEOREM Spec => []FIFO          (operations start in request order)

   MutexInv (InProgress is empty when nothing runs, {running} otherwise) and Split
   (reqd = started \o queue) are the parts of MC_Serializer_apa's IndInv that carry
   Mutex and FIFO; Apalache checks, within its bounds, the full IndInv and that it
   implies MutexInv (Props).
   Checked with `tlapm SerializerProof.tla`. *)
EXTENDS SerializerCore, SequenceTheorems, TLAPS

MInv == started \in Seq(Ids) /\ MutexInv

LEMMA ToSetAppend ==
  ASSUME NEW S, NEW s \in Seq(S), NEW x \in S
  PROVE  ToSet(Append(s, x)) = ToSet(s) \cup {x}
  <1>1. Append(s, x) \in Seq(S) /\ Len(Append(s, x)) = Len(s) + 1
        /\ \A i \in 1..Len(s) : Append(s, x)[i] = s[i]
        /\ Append(s, x)[Len(s) + 1] = x
    BY AppendProperties
  <1>2. DOMAIN s = 1..Len(s) /\ DOMAIN Append(s, x) = 1..(Len(s) + 1) /\ Len(s) \in Nat
    BY <1>1, LenProperties
  <1>3. ASSUME NEW y \in ToSet(Append(s, x)) PROVE y \in ToSet(s) \cup {x}
    <2>1. PICK i \in 1..(Len(s) + 1) : y = Append(s, x)[i] BY <1>2 DEF ToSet
    <2>2. CASE i \in 1..Len(s)
      <3>1. y = s[i] BY <2>1, <2>2, <1>1
      <3> QED BY <3>1, <2>2, <1>2 DEF ToSet
    <2>3. CASE i = Len(s) + 1
      BY <2>1, <2>3, <1>1
    <2> QED BY <2>2, <2>3, <1>2
  <1>4. ASSUME NEW y \in ToSet(s) \cup {x} PROVE y \in ToSet(Append(s, x))
    <2>1. CASE y \in ToSet(s)
      <3>1. PICK i \in 1..Len(s) : y = s[i] BY <2>1, <1>2 DEF ToSet
      <3>2. i \in 1..(Len(s) + 1) /\ y = Append(s, x)[i] BY <3>1, <1>1, <1>2
      <3> QED BY <3>2, <1>2 DEF ToSet
    <2>2. CASE y = x
      <3>1. Len(s) + 1 \in 1..(Len(s) + 1) BY <1>2
      <3> QED BY <3>1, <2>2, <1>1, <1>2 DEF ToSet
    <2> QED BY <2>1, <2>2
  <1> QED BY <1>3, <1>4

LEMMA InitOK == Init => MInv
  <1> SUFFICES ASSUME Init PROVE MInv OBVIOUS
  <1>1. started = <<>> /\ running = 0 /\ fin = {} BY DEF Init
  <1>2. started \in Seq(Ids) BY <1>1, EmptySeq
  <1>3. DOMAIN started = {} BY <1>1
  <1>4. ToSet(started) = {} BY <1>3 DEF ToSet
  <1> QED BY <1>1, <1>2, <1>4 DEF MInv, MutexInv, InProgress

LEMMA Step == MInv /\ [Next]_vars => MInv'
  <1> SUFFICES ASSUME MInv, [Next]_vars PROVE MInv' OBVIOUS
  <1> USE IdsOK
  <1>0. started \in Seq(Ids) /\ InProgress \subseteq (IF running = 0 THEN {} ELSE {running})
    BY DEF MInv, MutexInv
  <1>1. ASSUME started' = started, fin' = fin, running' = running PROVE MInv'
    BY <1>0, <1>1 DEF MInv, MutexInv, InProgress
  <1>2. ASSUME NEW id \in Ids, Request(id) PROVE MInv'
    BY <1>1, <1>2 DEF Request
  <1>3. ASSUME NEW id \in Ids, Return(id) PROVE MInv'
    BY <1>1, <1>3 DEF Return
  <1>4. ASSUME NEW id \in Ids, Start(id) PROVE MInv'
    <2>1. running = 0 /\ running' = id /\ started' = Append(started, id) /\ fin' = fin
      BY <1>4 DEF Start, StartOK
    <2>2. ToSet(started') = ToSet(started) \cup {id} BY <1>0, <2>1, ToSetAppend
    <2>3. started' \in Seq(Ids) BY <1>0, <2>1, AppendProperties
    <2>4. InProgress = {} BY <1>0, <2>1
    <2>5. \A i \in ToSet(started) : i \in fin BY <2>4 DEF InProgress
    <2>6. InProgress' \subseteq {id} BY <2>1, <2>2, <2>5 DEF InProgress
    <2>7. id # 0 OBVIOUS
    <2> QED BY <2>1, <2>3, <2>6, <2>7 DEF MInv, MutexInv
  <1>5. ASSUME NEW id \in Ids, Finish(id) PROVE MInv'
    <2>1. running = id /\ running' = 0 /\ started' = started /\ fin' = fin \cup {id}
      BY <1>5 DEF Finish, FinishOK
    <2>2. id # 0 OBVIOUS
    <2>3. InProgress \subseteq {id} BY <1>0, <2>1, <2>2
    <2>4. InProgress' = {i \in ToSet(started) : i \notin fin \cup {id}} BY <2>1 DEF InProgress
    <2>5. InProgress' = {} BY <2>3, <2>4 DEF InProgress
    <2> QED BY <1>0, <2>1, <2>5 DEF MInv, MutexInv
  <1>6. ASSUME UNCHANGED vars PROVE MInv'
    BY <1>1, <1>6 DEF vars
  <1> QED BY <1>2, <1>3, <1>4, <1>5, <1>6 DEF Next

THEOREM Inductive == Spec => []MInv
  <1> QED BY InitOK, Step, PTL DEF Spec

THEOREM MutualExclusion == Spec => []Mutex
  <1>1. MInv => Mutex BY DEF MInv, MutexInv, Mutex
  <1> QED BY Inductive, <1>1, PTL
(* ------------------------------- FIFO ------------------------------------- *)
\* the part of IndInv that carries FIFO: what was requested is what was started followed by what waits
FInv == queue \in Seq(Ids) /\ started \in Seq(Ids) /\ reqd \in Seq(Ids) /\ Split

LEMMA SingletonSeq == ASSUME NEW S, NEW x \in S PROVE <<x>> \in Seq(S) /\ Len(<<x>>) = 1 /\ <<x>>[1] = x
  OBVIOUS

LEMMA AppendConcat ==
  ASSUME NEW S, NEW s \in Seq(S), NEW q \in Seq(S), NEW x \in S
  PROVE  Append(s \o q, x) = s \o Append(q, x)
  <1>1. <<x>> \in Seq(S) BY SingletonSeq
  <1>2. s \o q \in Seq(S) BY ConcatProperties
  <1>3. Append(s \o q, x) = (s \o q) \o <<x>> BY <1>2, AppendIsConcat
  <1>4. (s \o q) \o <<x>> = s \o (q \o <<x>>) BY <1>1, ConcatAssociative
  <1>5. Append(q, x) = q \o <<x>> BY AppendIsConcat
  <1> QED BY <1>3, <1>4, <1>5

LEMMA HeadConsTail ==
  ASSUME NEW S, NEW q \in Seq(S), q # <<>>
  PROVE  <<Head(q)>> \o Tail(q) = q
  <1> DEFINE h == <<Head(q)>>
  <1>1. Head(q) \in S /\ Tail(q) \in Seq(S) /\ Len(Tail(q)) = Len(q) - 1
        /\ \A i \in 1..Len(Tail(q)) : Tail(q)[i] = q[i + 1]
    BY HeadTailProperties
  <1>2. h \in Seq(S) /\ Len(h) = 1 /\ h[1] = Head(q) BY <1>1, SingletonSeq
  <1>3. Len(q) \in Nat /\ Len(q) > 0 BY LenProperties, EmptySeq
  <1>4. h \o Tail(q) \in Seq(S) /\ Len(h \o Tail(q)) = Len(q)
        /\ \A i \in 1..Len(q) : (h \o Tail(q))[i] = IF i <= 1 THEN h[i] ELSE Tail(q)[i - 1]
    BY <1>1, <1>2, <1>3, ConcatProperties
  <1>5. Head(q) = q[1] OBVIOUS
  <1>6. \A i \in 1..Len(q) : (h \o Tail(q))[i] = q[i]
    <2> TAKE i \in 1..Len(q)
    <2>1. CASE i = 1 BY <2>1, <1>2, <1>4, <1>5
    <2>2. CASE i > 1
      <3>1. i - 1 \in 1..Len(Tail(q)) BY <2>2, <1>1, <1>3
      <3>2. Tail(q)[i - 1] = q[(i - 1) + 1] BY <3>1, <1>1
      <3>3. (i - 1) + 1 = i BY <1>3
      <3> QED BY <2>2, <3>2, <3>3, <1>4
    <2> QED BY <2>1, <2>2, <1>3
  <1> QED BY <1>4, <1>6, SeqEqual

LEMMA AppendHeadTail ==
  ASSUME NEW S, NEW s \in Seq(S), NEW q \in Seq(S), q # <<>>
  PROVE  Append(s, Head(q)) \o Tail(q) = s \o q
  <1>1. Head(q) \in S /\ Tail(q) \in Seq(S) BY HeadTailProperties
  <1>2. <<Head(q)>> \in Seq(S) BY <1>1, SingletonSeq
  <1>3. Append(s, Head(q)) = s \o <<Head(q)>> BY <1>1, AppendIsConcat
  <1>4. (s \o <<Head(q)>>) \o Tail(q) = s \o (<<Head(q)>> \o Tail(q)) BY <1>1, <1>2, ConcatAssociative
  <1>5. <<Head(q)>> \o Tail(q) = q BY HeadConsTail
  <1> QED BY <1>3, <1>4, <1>5

LEMMA FInitOK == Init => FInv
  <1> SUFFICES ASSUME Init PROVE FInv OBVIOUS
  <1>1. queue = <<>> /\ started = <<>> /\ reqd = <<>> BY DEF Init
  <1>2. <<>> \in Seq(Ids) BY EmptySeq
  <1>3. <<>> \o <<>> = <<>> BY <1>2, ConcatEmptySeq
  <1> QED BY <1>1, <1>2, <1>3 DEF FInv, Split

LEMMA FStep == FInv /\ [Next]_vars => FInv'
  <1> SUFFICES ASSUME FInv, [Next]_vars PROVE FInv' OBVIOUS
  <1>0. queue \in Seq(Ids) /\ started \in Seq(Ids) /\ reqd \in Seq(Ids) /\ reqd = started \o queue
    BY DEF FInv, Split
  <1>1. ASSUME queue' = queue, started' = started, reqd' = reqd PROVE FInv'
    BY <1>0, <1>1 DEF FInv, Split
  <1>2. ASSUME NEW id \in Ids, Request(id) PROVE FInv'
    <2>1. queue' = Append(queue, id) /\ reqd' = Append(reqd, id) /\ started' = started BY <1>2 DEF Request
    <2>2. queue' \in Seq(Ids) /\ reqd' \in Seq(Ids) BY <1>0, <2>1, AppendProperties
    <2>3. Append(started \o queue, id) = started \o Append(queue, id) BY <1>0, AppendConcat
    <2> QED BY <1>0, <2>1, <2>2, <2>3 DEF FInv, Split
  <1>3. ASSUME NEW id \in Ids, Start(id) PROVE FInv'
    <2>1. queue # <<>> /\ Head(queue) = id /\ queue' = Tail(queue) /\ started' = Append(started, id) /\ reqd' = reqd
      BY <1>3 DEF Start, StartOK
    <2>2. queue' \in Seq(Ids) BY <1>0, <2>1, HeadTailProperties
    <2>3. started' \in Seq(Ids) BY <1>0, <2>1, AppendProperties
    <2>4. Append(started, Head(queue)) \o Tail(queue) = started \o queue BY <1>0, <2>1, AppendHeadTail
    <2> QED BY <1>0, <2>1, <2>2, <2>3, <2>4 DEF FInv, Split
  <1>4. ASSUME NEW id \in Ids, Finish(id) PROVE FInv'
    BY <1>1, <1>4 DEF Finish
  <1>5. ASSUME NEW id \in Ids, Return(id) PROVE FInv'
    BY <1>1, <1>5 DEF Return
  <1>6. ASSUME UNCHANGED vars PROVE FInv'
    BY <1>1, <1>6 DEF vars
  <1> QED BY <1>2, <1>3, <1>4, <1>5, <1>6 DEF Next

LEMMA FInvGivesFIFO == FInv => FIFO
  <1> SUFFICES ASSUME FInv PROVE FIFO OBVIOUS
  <1>0. queue \in Seq(Ids) /\ started \in Seq(Ids) /\ reqd = started \o queue BY DEF FInv, Split
  <1>1. /\ Len(started \o queue) = Len(started) + Len(queue)
        /\ \A i \in 1..(Len(started) + Len(queue)) : (started \o queue)[i] = IF i <= Len(started) THEN started[i] ELSE queue[i - Len(started)]
    BY <1>0, ConcatProperties
  <1>2. Len(started) \in Nat /\ Len(queue) \in Nat /\ DOMAIN started = 1..Len(started) BY <1>0, LenProperties
  <1>3. Len(started) <= Len(reqd) BY <1>0, <1>1, <1>2
  <1>4. \A i \in DOMAIN started : started[i] = reqd[i]
    <2> TAKE i \in DOMAIN started
    <2>1. i \in 1..(Len(started) + Len(queue)) /\ i <= Len(started) BY <1>2
    <2> QED BY <2>1, <1>0, <1>1
  <1> QED BY <1>3, <1>4 DEF FIFO

THEOREM FifoInductive == Spec => []FInv
  <1> QED BY FInitOK, FStep, PTL DEF Spec

THEOREM StartInRequestOrder == Spec => []FIFO
  <1> QED BY FifoInductive, FInvGivesFIFO, PTL
=============================================================================
