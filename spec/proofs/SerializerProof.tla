--------------------------- MODULE SerializerProof ---------------------------
(* TLAPS proof of mutual exclusion for the serializer machine of SerializerCore,
   for ANY set of operation ids (0 excluded) and histories of any length:

     THEOREM Spec => []MInv          (MInv = started \in Seq(Ids) /\ MutexInv)
     THEOREM Spec => []Mutex         (at most one operation is in progress)

   MutexInv (InProgress is empty when nothing runs, {running} otherwise) is the
   part of MC_Serializer_apa's IndInv that carries Mutex; Apalache checks, within
   its bounds, that the full IndInv implies it (Props).  FIFO is proved by Apalache
   only (bounded lengths): see notes/X-proofs.md.
   Checked with `tlapm SerializerProof.tla`. *)
EXTENDS SerializerCore, SequenceTheorems, TLAPS

MInv == started \in Seq(Ids) /\ MutexInv

LEMMA ToSetAppend ==
  ASSUME NEW S, NEW s \in Seq(S), NEW x \in S
  PROVE  ToSet(Append(s, x)) = ToSet(s) \cup {x}
  <1>1. Append(s, x) \in Seq(S) /\ Len(Append(s, x)) = Len(s) + 1
        /\ \A i \in 1..Len(s) : Append(s, x)[i] = s[i]
        /\ Append(s, x)[Len(s) + 1] = x
    BY AppendProperties
  <1>2. DOMAIN s = 1..Len(s) /\ DOMAIN Append(s, x) = 1..(Len(s) + 1) /\ Len(s) \in Nat
    BY <1>1, LenProperties
  <1>3. ASSUME NEW y \in ToSet(Append(s, x)) PROVE y \in ToSet(s) \cup {x}
    <2>1. PICK i \in 1..(Len(s) + 1) : y = Append(s, x)[i] BY <1>2 DEF ToSet
    <2>2. CASE i \in 1..Len(s)
      <3>1. y = s[i] BY <2>1, <2>2, <1>1
      <3> QED BY <3>1, <2>2, <1>2 DEF ToSet
    <2>3. CASE i = Len(s) + 1
      BY <2>1, <2>3, <1>1
    <2> QED BY <2>2, <2>3, <1>2
  <1>4. ASSUME NEW y \in ToSet(s) \cup {x} PROVE y \in ToSet(Append(s, x))
    <2>1. CASE y \in ToSet(s)
      <3>1. PICK i \in 1..Len(s) : y = s[i] BY <2>1, <1>2 DEF ToSet
      <3>2. i \in 1..(Len(s) + 1) /\ y = Append(s, x)[i] BY <3>1, <1>1, <1>2
      <3> QED BY <3>2, <1>2 DEF ToSet
    <2>2. CASE y = x
      <3>1. Len(s) + 1 \in 1..(Len(s) + 1) BY <1>2
      <3> QED BY <3>1, <2>2, <1>1, <1>2 DEF ToSet
    <2> QED BY <2>1, <2>2
  <1> QED BY <1>3, <1>4

LEMMA InitOK == Init => MInv
  <1> SUFFICES ASSUME Init PROVE MInv OBVIOUS
  <1>1. started = <<>> /\ running = 0 /\ fin = {} BY DEF Init
  <1>2. started \in Seq(Ids) BY <1>1, EmptySeq
  <1>3. DOMAIN started = {} BY <1>1
  <1>4. ToSet(started) = {} BY <1>3 DEF ToSet
  <1> QED BY <1>1, <1>2, <1>4 DEF MInv, MutexInv, InProgress

LEMMA Step == MInv /\ [Next]_vars => MInv'
  <1> SUFFICES ASSUME MInv, [Next]_vars PROVE MInv' OBVIOUS
  <1> USE IdsOK
  <1>0. started \in Seq(Ids) /\ InProgress \subseteq (IF running = 0 THEN {} ELSE {running})
    BY DEF MInv, MutexInv
  <1>1. ASSUME started' = started, fin' = fin, running' = running PROVE MInv'
    BY <1>0, <1>1 DEF MInv, MutexInv, InProgress
  <1>2. ASSUME NEW id \in Ids, Request(id) PROVE MInv'
    BY <1>1, <1>2 DEF Request
  <1>3. ASSUME NEW id \in Ids, Return(id) PROVE MInv'
    BY <1>1, <1>3 DEF Return
  <1>4. ASSUME NEW id \in Ids, Start(id) PROVE MInv'
    <2>1. running = 0 /\ running' = id /\ started' = Append(started, id) /\ fin' = fin
      BY <1>4 DEF Start, StartOK
    <2>2. ToSet(started') = ToSet(started) \cup {id} BY <1>0, <2>1, ToSetAppend
    <2>3. started' \in Seq(Ids) BY <1>0, <2>1, AppendProperties
    <2>4. InProgress = {} BY <1>0, <2>1
    <2>5. \A i \in ToSet(started) : i \in fin BY <2>4 DEF InProgress
    <2>6. InProgress' \subseteq {id} BY <2>1, <2>2, <2>5 DEF InProgress
    <2>7. id # 0 OBVIOUS
    <2> QED BY <2>1, <2>3, <2>6, <2>7 DEF MInv, MutexInv
  <1>5. ASSUME NEW id \in Ids, Finish(id) PROVE MInv'
    <2>1. running = id /\ running' = 0 /\ started' = started /\ fin' = fin \cup {id}
      BY <1>5 DEF Finish, FinishOK
    <2>2. id # 0 OBVIOUS
    <2>3. InProgress \subseteq {id} BY <1>0, <2>1, <2>2
    <2>4. InProgress' = {i \in ToSet(started) : i \notin fin \cup {id}} BY <2>1 DEF InProgress
    <2>5. InProgress' = {} BY <2>3, <2>4 DEF InProgress
    <2> QED BY <1>0, <2>1, <2>5 DEF MInv, MutexInv
  <1>6. ASSUME UNCHANGED vars PROVE MInv'
    BY <1>1, <1>6 DEF vars
  <1> QED BY <1>2, <1>3, <1>4, <1>5, <1>6 DEF Next

THEOREM Inductive == Spec => []MInv
  <1> QED BY InitOK, Step, PTL DEF Spec

THEOREM MutualExclusion == Spec => []Mutex
  <1>1. MInv => Mutex BY DEF MInv, MutexInv, Mutex
  <1> QED BY Inductive, <1>1, PTL
=============================================================================
