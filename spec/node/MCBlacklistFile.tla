--------------------------- MODULE MCBlacklistFile ---------------------------
(* The operator edits access.blacklist line by line (append an entry / a comment / a blank line, comment an
   entry out, delete a line), the file system stamps each rewrite with an mtime, requests arrive in between.
   The sentences of webapi.rst "Access Blacklist" as invariants over a small tree
       r/ { f : file, s/ { g : file, t/ { h : mutable file } } }                                   *)
EXTENDS BlacklistFile, TLC

CONSTANTS MaxLines, MaxT, MaxSteps, Reasons

G0 == [type |-> [r |-> "dir", f |-> "file", s |-> "dir", g |-> "file", t |-> "dir", h |-> "mfile"],
       kids |-> [r |-> [f |-> [to |-> "f", lvl |-> "w"], s |-> [to |-> "s", lvl |-> "w"]],
                 s |-> [g |-> [to |-> "g", lvl |-> "w"], t |-> [to |-> "t", lvl |-> "w"]],
                 t |-> [h |-> [to |-> "h", lvl |-> "w"]], f |-> <<>>, g |-> <<>>, h |-> <<>>]]
Objs0 == {"s", "g", "h", "f"}                       \* what the operator may list
Paths == {<<>>, <<"f">>, <<"s">>, <<"s", "g">>, <<"s", "t">>, <<"s", "t", "h">>, <<"g">>, <<"t", "h">>, <<"nope">>}

VARIABLES lines, blf, blc, steps, mono, maxmt
vars == <<lines, blf, blc, steps, mono, maxmt>>
Init == lines = <<>> /\ blf = BlNone /\ blc = BlCold /\ steps = 0 /\ mono = TRUE /\ maxmt = 0

DropLine(s, i) == SubSeq(s, 1, i - 1) \o SubSeq(s, i + 1, Len(s))
Edits ==
  {Append(lines, Entry(o, w, sp)) : o \in Objs0 \ Prohibited(Entries(lines)), w \in Reasons, sp \in {" "}}
  \cup {Append(lines, Comment(" a remark")), Append(lines, Blank), <<Blank>> \o lines}
  \cup {[lines EXCEPT ![i] = Comment(lines[i].o \o lines[i].sep \o lines[i].why)] : i \in {j \in DOMAIN lines : IsEntry(lines[j])}}
  \cup {DropLine(lines, i) : i \in DOMAIN lines}
Rewrite == \E new \in Edits, mt \in 1..MaxT :
             /\ Len(new) <= MaxLines
             /\ lines' = new /\ blf' = FileWrite(blf, new, mt)
             /\ mono' = (mono /\ mt > maxmt) /\ maxmt' = Max(maxmt, mt) /\ UNCHANGED blc
Unlink == blf.ex /\ blf' = BlRemove(blf) /\ lines' = <<>> /\ UNCHANGED <<blc, mono, maxmt>>
Access == blc' = Now(blc, blf) /\ UNCHANGED <<lines, blf, mono, maxmt>>
Next == steps < MaxSteps /\ steps' = steps + 1 /\ (Rewrite \/ Unlink \/ Access)
Spec == Init /\ [][Next]_vars

E == Now(blc, blf).ids                       \* what a request arriving now is judged by
P == Prohibited(E)
OnlyEntries == SelectSeq(lines, IsEntry)
\* "Comment lines (starting with #) are ignored", and so are blank lines; commenting an entry out lifts the ban
BF_CommentsIgnored == Entries(lines) = Entries(OnlyEntries) /\ WellFormed(lines)
BF_CommentedOutIsFree == \A o \in Objs0 : (\A i \in DOMAIN lines : IsEntry(lines[i]) => lines[i].o # o) => o \notin Prohibited(Entries(lines))
\* "no node restart is necessary when creating the initial blacklist, nor when adding second, third, or additional entries"
BF_Fresh == mono /\ blf.ex => E = Entries(lines)
BF_NoFileNoBlacklist == ~blf.ex => E = {}
\* "returning a 403 Forbidden error" with the entry's own reason; nothing else is refused
Starts == {<<"r", p>> : p \in Paths} \cup {<<"s", p>> : p \in {<<>>, <<"g">>, <<"t", "h">>}} \cup {<<"g", <<>>>>, <<"h", <<>>>>, <<"t", <<"h">>>>}
BF_403IffBlocked == \A op \in Starts : LET o == op[1]  p == op[2] IN
                      LET x == WebGet(G0, E, o, p, "") IN
                        /\ (x.code = 403 <=> \E i \in 0..Len(p) : Resolve(G0, o, SubSeq(p, 1, i), 1) \in P /\
                                                \A j \in 0..(i - 1) : Resolve(G0, o, SubSeq(p, 1, j), 1) \notin P \cup {"nowhere"})
                        /\ (x.code = 403 => \E e \in E : x.msg = Message(e.why))
\* "If a directory is blacklisted, the gateway will refuse access to both that directory and any child files/directories
\* underneath it, when accessed via DIRCAP/SUBDIR/FILENAME -style URLs. Users who go directly to the child ... bypass"
BF_Underneath == "s" \in P => /\ WebGet(G0, E, "r", <<"s", "t", "h">>, "").code = 403 /\ WebGet(G0, E, "s", <<"g">>, "").code = 403
                              /\ ("g" \notin P => WebGet(G0, E, "g", <<>>, "").code = 200)
                              /\ ("h" \notin P => WebGet(G0, E, "t", <<"h">>, "").code = 200)
\* a listed child is still listed by its (unlisted) parent
BF_StillListed == "r" \notin P => WebGet(G0, E, "r", <<>>, "json").names = {"f", "s"}
\* agreement with dirnode_ops' path resolution (ResolveB judges get_child_at_path: the last element is not read)
BF_WalkIsResolveB == \A o \in {"r", "s", "t"} \ P, p \in Paths \ {<<>>} :
                       LET w == Walk(G0, P, o, p, 1)
                           b == ResolveB(G0, P, o, p, 1) IN
                       /\ (w.st = "blocked" <=> b.st = "FileProhibited" \/ (b.st = "ok" /\ b.obj \in P))
                       /\ (w.st = "ok" => b.st = "ok" /\ b.obj = w.obj)
=============================================================================
