---------------------------- MODULE BlacklistFile ----------------------------
(* The access blacklist as the operator writes it and as web clients meet it
   (allmydata/blacklist.py, nodemaker.create_from_cap, web/common.py humanize_exception,
   web/filenode.py, web/directory.py; docs/frontends/webapi.rst "Access Blacklist").

   EXTENDS DeepCheck (extra dirnode_ops): the file / gateway-memory pair blf, blc with BlWrite, BlRemove,
   BlRefresh (re-read when the mtime has grown) and ResolveB are reused; here `ids` is the set of
   ENTRIES [o, why] instead of bare objects, the file is a sequence of text lines, and the accesses are
   HTTP requests.

   A line:  [k |-> "blank"]                          empty
            [k |-> "comment", txt]                   "#" \o txt        "Comment lines (starting with #) are ignored"
            [k |-> "entry", o, why, sep]             SI(o) \o sep \o why   "the storage-index ..., followed by
                                                     whitespace, followed by a reason string" (sep: spaces / tabs;
                                                     the reason may contain spaces: "my puppy told me to")
   "one blocked file per line".  Files that list an object twice are not driven (WellFormed).

   G == [type, kids] as in DeepTraverse.tla (names are strings here). *)
EXTENDS DeepCheck

Blank == [k |-> "blank"]
Comment(txt) == [k |-> "comment", txt |-> txt]
Entry(o, why, sep) == [k |-> "entry", o |-> o, why |-> why, sep |-> sep]
IsEntry(ln) == ln.k = "entry"
Entries(lines) == {[o |-> lines[i].o, why |-> lines[i].why] : i \in {j \in DOMAIN lines : IsEntry(lines[j])}}
WellFormed(lines) == \A i, j \in DOMAIN lines : IsEntry(lines[i]) /\ IsEntry(lines[j]) /\ lines[i].o = lines[j].o => i = j
Prohibited(E) == {e.o : e \in E}
Why(E, o) == (CHOOSE e \in E : e.o = o).why

\* the operator rewrites the file (the mtime is whatever the file system gives it) / removes it
FileWrite(blf, lines, mt) == BlWrite(blf, Entries(lines), mt)
\* every node made from a cap consults the blacklist first: check_storageindex -> read_blacklist
Now(blc, blf) == BlRefresh(blc, blf)

(* ----------------------------- what a request meets ------------------------ *)
\* /uri/CAP(o)/path[1]/../path[n]: the first prohibited object on the way, the target included
RECURSIVE Walk(_, _, _, _, _)
Walk(G, Pr, o, path, i) ==
  IF o \in Pr THEN [st |-> "blocked", obj |-> o]
  ELSE IF i > Len(path) THEN [st |-> "ok", obj |-> o]
  ELSE IF ~IsDirT(G.type[o]) THEN [st |-> "notdir", obj |-> o]
  ELSE IF path[i] \notin DOMAIN G.kids[o] THEN [st |-> "nochild", obj |-> o]
  ELSE Walk(G, Pr, G.kids[o][path[i]].to, path, i + 1)

Message(why) == "Access Prohibited: " \o why           \* "a reason string, which will be included in the 403 error message"
NoAnswer == [code |-> 0, msg |-> "", served |-> "nothing", names |-> {}]
\* GET, t = "" (the object itself) or "json" (for a directory: its listing)
WebGet(G, E, o, path, t) ==
  LET w == Walk(G, Prohibited(E), o, path, 1) IN
  IF w.st = "blocked" THEN [NoAnswer EXCEPT !.code = 403, !.msg = Message(Why(E, w.obj))]    \* "returning a 403 Forbidden error instead"
  ELSE IF w.st = "nochild" THEN [NoAnswer EXCEPT !.code = 404]
  ELSE IF w.st = "notdir" THEN [NoAnswer EXCEPT !.code = 400]
  ELSE IF IsDirT(G.type[w.obj])
    \* a prohibited child does not hide itself or its siblings: the directory is served, every entry listed
    \* (blacklist.py: "We don't raise an exception here because that would prevent the node from being listed")
    THEN [NoAnswer EXCEPT !.code = 200, !.served = IF t = "json" THEN "listing" ELSE "page", !.names = DOMAIN G.kids[w.obj]]
    ELSE [NoAnswer EXCEPT !.code = 200, !.served = IF t = "json" THEN "metadata" ELSE "contents"]

\* the same through the Python API (client.create_node_from_uri, then read the node)
ApiNode(G, E, o) ==
  IF o \in Prohibited(E) THEN [proh |-> TRUE, isdir |-> FALSE, read |-> "FileProhibited", msg |-> Message(Why(E, o))]
  ELSE [proh |-> FALSE, isdir |-> IsDirT(G.type[o]), read |-> "ok", msg |-> ""]

\* class of a listing for structural keys: is one of the listed children a prohibited mutable object?
MutableT(t) == t \in {"dir", "mfile"}
HasProhibitedMutableChild(G, E, d) == \E nm \in DOMAIN G.kids[d] : G.kids[d][nm].to \in Prohibited(E) /\ MutableT(G.type[G.kids[d][nm].to])
=============================================================================
