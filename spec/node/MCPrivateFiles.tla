--------------------------- MODULE MCPrivateFiles ---------------------------
(* Every history of MaxSteps helper calls / outside edits on a node directory with Names files and
   Texts contents; the docstrings' promises as invariants and action properties, stated over ghost
   variables that do not go through the operators' case analysis. *)
EXTENDS PrivateFiles, TLC

CONSTANTS Names, Texts, MaxSteps, FullPad

Contents == {Content(t, l, tr) : t \in Texts, l \in BOOLEAN, tr \in BOOLEAN} \ (IF FullPad THEN {} ELSE {Content(t, b, ~b) : t \in Texts, b \in BOOLEAN})
VARIABLES D, steps,
          last,      \* ghost: the last event and its outcome
          secret     \* ghost: name -> the value get_or_create last returned for it, "" when the file was touched since
vars == <<D, steps, last, secret>>

Events ==
  {[op |-> "create_node_dir", name |-> "README", c |-> Plain("readme")]}
  \cup {[op |-> "write_private", name |-> n, c |-> c] : n \in Names, c \in Contents}
  \cup {[op |-> "get_private", name |-> n, dflt |-> d] : n \in Names, d \in {[given |-> FALSE, v |-> ""], [given |-> TRUE, v |-> "dflt"]}}
  \cup {[op |-> "get_or_create", name |-> n, gdflt |-> [kind |-> k, c |-> c]] : n \in Names, k \in {"none", "str", "call"}, c \in Contents}
  \cup {[op |-> "ext_write", name |-> Priv(n), c |-> c] : n \in Names, c \in Contents}
  \cup {[op |-> "ext_remove", name |-> Priv(n)] : n \in Names}

Init == D = EmptyDir /\ steps = 0 /\ last = [e |-> [op |-> "none"], st |-> "", v |-> "", called |-> FALSE, before |-> EmptyDir]
        /\ secret = [n \in Names |-> ""]
Next == /\ steps < MaxSteps /\ steps' = steps + 1
        /\ \E e \in Events :
             /\ (e.op # "create_node_dir" => D.priv)            \* the helpers are used on an existing node directory
             /\ LET x == Apply(D, e) IN
                  /\ D' = x.D
                  /\ last' = [e |-> e, st |-> x.st, v |-> x.v, called |-> x.called, before |-> D]
                  /\ secret' = IF e.op = "get_or_create" /\ x.st = "ok" THEN [secret EXCEPT ![e.name] = x.v]
                               ELSE IF e.op \in {"write_private"} THEN [secret EXCEPT ![e.name] = ""]
                               ELSE IF e.op \in {"ext_write", "ext_remove"} THEN [n \in Names |-> IF Priv(n) = e.name THEN "" ELSE secret[n]]
                               ELSE secret
Spec == Init /\ [][Next]_vars

\* readers never change the directory; get_or_create changes it only by creating the file it was asked for
PF_ReadersPure == last.e.op \in {"get_private", "get_config_from_file"} => D = last.before
PF_CreateOnlyMissing == last.e.op = "get_or_create" =>
                           /\ (Priv(last.e.name) \in DOMAIN last.before.f => D = last.before /\ ~last.called)
                           /\ \A p \in DOMAIN last.before.f : p \in DOMAIN D.f /\ D.f[p] = last.before.f[p]
                           /\ DOMAIN D.f \subseteq DOMAIN last.before.f \cup {Priv(last.e.name)}
\* "return the value that was written": what get_or_create answers is what a later read gives, and it never has
\* surrounding whitespace; a generated secret stays the same from call to call until somebody touches the file
PF_ReturnsWhatIsStored == last.e.op = "get_or_create" /\ last.st = "ok" => GetPrivate(D, last.e.name, [given |-> FALSE, v |-> ""]).v = last.v
PF_SecretStable == [][\A n \in Names : secret[n] # "" /\ secret'[n] # "" => secret'[n] = secret[n]]_vars
\* a missing file with no default is an error, never an empty answer; with a default it is never an error
PF_MissingIsError == last.e.op \in {"get_private", "get_or_create"} /\ Priv(last.e.name) \notin DOMAIN last.before.f =>
                        (last.st = "MissingConfigEntry" <=> (IF last.e.op = "get_private" THEN ~last.e.dflt.given ELSE last.e.gdflt.kind = "none"))
\* read-after-write: the stripped text
PF_ReadBack == last.e.op = "write_private" => GetPrivate(D, last.e.name, [given |-> FALSE, v |-> ""]).v = last.e.c.core
\* create_node_dir never touches an existing private directory
PF_CreateDirKeeps == last.e.op = "create_node_dir" /\ last.before.priv => D = [last.before EXCEPT !.base = TRUE]
=============================================================================
