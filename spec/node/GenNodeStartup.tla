--------------------------- MODULE GenNodeStartup ---------------------------
(* GEN: every combination of the decision tables of NodeStartup.tla with the expected
   outcome, written to IOEnv.OUT_FILE; harness/nodemisc_driver.py replays each case into the
   real functions of allmydata/node.py.  The NS_ invariants state the documented rules over
   the generated table without going through the operators' case analysis. *)
EXTENDS NodeStartup, Json, IOUtils

CONSTANTS Tier,      \* "quick" | "thorough"
          P1, P2,    \* two port numbers chosen by the run's seed
          PAlloc     \* the port the (fake) kernel allocates

Thorough == Tier = "thorough"
Seq2(S) == {<<a>> : a \in S} \cup {<<a, b>> : a \in S, b \in S}

(* ------------------------------------------------------------------ tub.port / tub.location *)
PortSingles == {Bare(P1), Tcp(P1), TcpIf(P1), TcpIfFirst(P1), Listen("tor"), Bare(0), Tcp(0), TcpKw(0)}
                 \cup (IF Thorough THEN {Listen("i2p"), TcpIf(0)} ELSE {})
PortPairs == {<<Tcp(P1), Tcp(P2)>>, <<Tcp(P1), Listen("tor")>>, <<Tcp(P1), Tcp(0)>>}
               \cup (IF Thorough THEN {<<Bare(P1), Bare(P2)>>, <<TcpIf(P1), TcpIfFirst(P2)>>, <<Listen("i2p"), Listen("tor")>>, <<Bare(0), Tcp(P1)>>} ELSE {})
PortValues == {Absent, Given(<<>>), Given(<<DisabledItem>>)} \cup {Given(<<p>>) : p \in PortSingles} \cup {Given(pp) : pp \in PortPairs}
PFileValues == {Absent, Given(<<Tcp(P2)>>), Given(<<Bare(P2)>>), Given(<<Tcp(0)>>)}
                 \cup (IF Thorough THEN {Given(<<TcpIf(P2)>>), Given(<<Listen("tor")>>)} ELSE {})

HTcpName == Hint("tcp", "tcp:tahoe.example.com:8098")
HTcpAddr == Hint("tcp", "tcp:123.45.67.89:8098")
HLegacy  == Hint("legacy", "tahoe.example.com:8098")
HTor     == Hint("tor", "tor:ualhejtq2p7ohfbb.onion:29212")
HI2p     == Hint("i2p", "i2p:c2ng2pbrmxmlwpijn")
HLower   == Hint("other", "auto")                   \* only "the uppercase string AUTO" is replaced
LocSingles == {AUTO, HTcpName, HLegacy, HTor, HI2p, HLower}
LocPairs == {<<HTcpName, AUTO>>, <<HTor, AUTO>>, <<HTor, HI2p>>, <<HTor, HLegacy>>}
              \cup (IF Thorough THEN {<<AUTO, HTcpAddr>>, <<HTcpAddr, HTcpName>>, <<AUTO, AUTO>>, <<HI2p, HLower>>, <<HTor, HTcpName>>} ELSE {})
LocValues == {Absent, Given(<<>>), Given(<<Hint("disabled", "disabled")>>)} \cup {Given(<<h>>) : h \in LocSingles} \cup {Given(hh) : hh \in LocPairs}
AddrLists == {<<"127.0.0.1">>, <<"127.0.0.1", "10.0.0.5">>} \cup (IF Thorough THEN {<<>>, <<"192.168.1.7", "127.0.0.1", "10.0.0.5">>} ELSE {})
\* reveal: the boolean and whether the key is written at all ("defaults to True")
Reveals == {[given |-> FALSE, v |-> TRUE], [given |-> TRUE, v |-> TRUE], [given |-> TRUE, v |-> FALSE]}

ValTxt(v) == [given |-> v.given, txt |-> JoinStr(Txts(v.items), ",")]
PortCase(i) ==
  LET cc == [port |-> i.pf[1], pfile |-> i.pf[2], loc |-> i.loc, reveal |-> i.r.v, addrs |-> i.addrs, alloc |-> PAlloc]
      rgiven == i.r.given
      x == TubPortLocation(cc) IN
  [table |-> "port", class |-> PortClass(cc),
   port |-> ValTxt(cc.port), pfile |-> ValTxt(cc.pfile), loc |-> ValTxt(cc.loc), reveal |-> [given |-> rgiven, v |-> cc.reveal],
   addrs |-> cc.addrs, alloc |-> cc.alloc,
   res |-> x.res, errs |-> SetToSeq(x.errs), xport |-> x.port, xloc |-> x.loc,
   xraw |-> ValTxt(x.pfile),
   xalloc |-> x.alloc, xprobe |-> x.probe,
   \* for the invariants below (not used by the adapter)
   in |-> cc]
\* the port file is consulted only when tahoe.cfg has no tub.port: with a tub.port, one file (or none) is enough to see
\* that it is left alone
PortAndFile == {<<p, f>> : p \in PortValues \ {Absent}, f \in {Absent, Given(<<Tcp(P2)>>)}} \cup {<<Absent, f>> : f \in PFileValues}
\* the local addresses only matter where AUTO is (or is implied)
LocAndAddrs == {<<l, a>> : l \in LocValues, a \in AddrLists} \ (IF Thorough THEN {} ELSE
                 {<<l, a>> \in LocValues \X AddrLists : l.given /\ (\A i \in DOMAIN l.items : l.items[i].k # "AUTO") /\ a # <<"127.0.0.1">>})
PortInputs == {[table |-> "port", pf |-> pf, loc |-> la[1], r |-> r, addrs |-> la[2]] : pf \in PortAndFile, la \in LocAndAddrs, r \in Reveals}


(* ------------------------------------------------------------------ [connections] tcp *)
TcpValues == {[given |-> FALSE, txt |-> "", name |-> "tcp"]} \cup
             {[given |-> TRUE, txt |-> t[1], name |-> t[2]] :
                t \in {<<"tcp", "tcp">>, <<"TCP", "tcp">>, <<"tor", "tor">>, <<"Tor", "tor">>, <<"i2p", "i2p">>,
                       <<"disabled", "disabled">>, <<"Disabled", "disabled">>, <<"socks", "socks">>, <<"", "">>}}
\* "boolean: one of (True, yes, on, 1, False, off, no, 0), case-insensitive"
BoolSpellings == {<<"True", TRUE>>, <<"yes", TRUE>>, <<"on", TRUE>>, <<"1", TRUE>>, <<"TRUE", TRUE>>,
                  <<"False", FALSE>>, <<"off", FALSE>>, <<"no", FALSE>>, <<"0", FALSE>>, <<"false", FALSE>>, <<"No", FALSE>>}
RevealTexts == {[given |-> FALSE, txt |-> "", v |-> TRUE]} \cup {[given |-> TRUE, txt |-> b[1], v |-> b[2]] : b \in BoolSpellings}
ConnCase(i) ==
  LET t == i.v[1]  tor == i.v[2]  i2p == i.v[3]  r == i.v[4]
      c == [tcp |-> t, tor |-> tor, i2p |-> i2p, reveal |-> r.v]
      x == ConnHandlers(c) IN
  [table |-> "conn", class |-> ConnClass(c), tcp |-> t, tor |-> tor, i2p |-> i2p, reveal |-> r,
   res |-> x.res, errs |-> SetToSeq(x.errs), xtcp |-> x.tcp, xtor |-> x.tor, xi2p |-> x.i2p]
ConnInputs == {[table |-> "conn", v |-> v] : v \in TcpValues \X BOOLEAN \X BOOLEAN \X RevealTexts}

(* ------------------------------------------------------------------ timeouts *)
IntVal(n) == [given |-> TRUE, ok |-> TRUE, n |-> n, txt |-> ToString(n)]
TimeoutValues == {[given |-> FALSE, ok |-> TRUE, n |-> 0, txt |-> ""], [given |-> TRUE, ok |-> TRUE, n |-> 0, txt |-> ""],
                  IntVal(240), IntVal(60 + (P1 % 50)), IntVal(1800), [given |-> TRUE, ok |-> FALSE, n |-> 0, txt |-> "soon"]}
OptCase(i) ==
  LET ka == i.v[1]  dc == i.v[2]
      x == TubOptions(ka, dc) IN
  [table |-> "opts", class |-> "timeouts", ka |-> ka, dc |-> dc, res |-> x.res, errs |-> SetToSeq(x.errs),
   xka |-> x.ka, xdc |-> x.dc, xkaset |-> x.kaset, xdcset |-> x.dcset]
OptInputs == {[table |-> "opts", v |-> v] : v \in TimeoutValues \X TimeoutValues}

(* ------------------------------------------------------------------ paths *)
PathWords == {"a", "b", "..", ".", "private"}
ArgLists == {<<>>} \cup {<<a>> : a \in PathWords} \cup {<<a, b>> : a \in PathWords, b \in PathWords}
              \cup {<<a, b, c>> : a \in PathWords, b \in PathWords, c \in PathWords}
PathCase(i) ==
  LET args == i.v
      x == ConfigPath(args)
      y == PrivatePath(args) IN
  [table |-> "path", class |-> "config_path", args |-> args, xup |-> x.up, xcomps |-> x.comps,
   plain |-> (\A j \in DOMAIN args : args[j] \notin {"..", "."}), pcomps |-> y.comps]
PathInputs == {[table |-> "path", v |-> v] : v \in ArgLists}

(* ------------------------------------------------------------------ old configuration files *)
OtherFiles == {"client.port", "my_nodeid", "introducer.port", "node.url"}
Presents == {{}} \cup {{f} : f \in OldFiles \cup OtherFiles} \cup {{f, g} : f \in OldFiles, g \in OldFiles \cup OtherFiles}
OldCase(i) ==
  LET nt == i.v[1]  present == i.v[2]
      x == OldConfig(nt, present) IN
  [table |-> "old", class |-> nt, nodetype |-> nt, present |-> SetToSeq(present), res |-> x.res, files |-> SetToSeq(x.files),
   xportfile |-> PortFileName(nt)]
OldInputs == {[table |-> "old", v |-> v] : v \in {"client", "introducer"} \X Presents}

CaseOf(i) == CASE i.table = "port" -> PortCase(i) [] i.table = "conn" -> ConnCase(i) [] i.table = "opts" -> OptCase(i)
               [] i.table = "path" -> PathCase(i) [] i.table = "old" -> OldCase(i)
Strip(x) == IF x.table = "port" THEN [f \in (DOMAIN x) \ {"in"} |-> x[f]] ELSE x
\* every case is computed once: the sequence is written out and kept (TLCSet) for Init
CaseSeq(S) == LET s == SetToSeq(S) IN [k \in DOMAIN s |-> CaseOf(s[k])]
AllCases == CaseSeq(PortInputs) \o CaseSeq(ConnInputs) \o CaseSeq(OptInputs) \o CaseSeq(PathInputs) \o CaseSeq(OldInputs)
ASSUME LET cs == AllCases IN TLCSet(7, cs) /\ ndJsonSerialize(IOEnv.OUT_FILE, [k \in DOMAIN cs |-> Strip(cs[k])])

VARIABLE c           \* one state per case: TLC's state count is the case count
Init == \E k \in DOMAIN TLCGet(7) : c = TLCGet(7)[k]
Next == UNCHANGED c
Spec == Init /\ [][Next]_c

(* ------------------------------------------------------------------ the documented rules, over the table *)
IsPort == c.table = "port"
\* "If tub.port is disabled, then tub.location must also be disabled, and vice versa"
NS_DisabledTogether == IsPort => /\ (IsDisabled(c.in.port) # IsDisabled(c.in.loc) => c.res = "refuse")
                                 /\ (c.res = "none" <=> IsDisabled(c.in.port) /\ IsDisabled(c.in.loc))
\* "tub.port cannot be 0 or tcp:0": a listening node never has such an endpoint, wherever the port came from
NS_NoZeroPort == IsPort /\ c.res = "listen" => ~ZeroPort(EffPort(c.in))
\* reveal-IP-address = false: "refuse to start if any of the other configuration options would reveal the node's IP address"
NS_Privacy == IsPort /\ c.res = "listen" /\ ~c.in.reveal =>
                 /\ ~c.xprobe
                 /\ \A i \in DOMAIN EffLoc(c.in) : EffLoc(c.in)[i].k \in {"tor", "i2p", "other"}
\* the port file is written only when neither tahoe.cfg nor the file names a port, and then with the allocated port
NS_PortFile == IsPort /\ c.res \in {"listen", "none"} =>
                 /\ (c.xraw # ValTxt(c.in.pfile) => ~c.in.port.given /\ ~c.in.pfile.given /\ c.xalloc)
                 /\ (c.xalloc => c.xport = "tcp:" \o ToString(PAlloc) /\ c.xraw.txt = c.xport)
\* "tahoe.cfg overrides the individual file"
NS_CfgOverridesFile == IsPort /\ c.res = "listen" /\ c.in.port.given => c.xport = PortText(c.in.port.items) /\ ~c.xalloc
\* one location hint per configured hint, AUTO replaced by one per local address
NS_LocationLength == IsPort /\ c.res = "listen" =>
                       Len(c.xloc) = Len(EffLoc(c.in)) + (Len(c.in.addrs) - 1) * Cardinality({i \in DOMAIN EffLoc(c.in) : EffLoc(c.in)[i].k = "AUTO"})
\* connections: private mode never leaves tcp hints on the plain TCP handler; a usable configuration serves tor / i2p
\* hints only with their own handler
NS_ConnPrivacy == c.table = "conn" /\ c.res = "ok" /\ ~c.reveal.v => c.xtcp # "tcp"
NS_ConnOwnHandlers == c.table = "conn" /\ c.res = "ok" => c.xtor \in {"tor", "none"} /\ c.xi2p \in {"i2p", "none"} /\ c.xtcp \in {"tcp", "tor", "none"}
\* old files: the start-up is refused exactly when one of the table's files is there (introducer.furl is the introducer's own)
NS_OldFiles == c.table = "old" => (c.res = "refuse" <=> \E i \in DOMAIN c.present : c.present[i] \in OldFiles /\ ~(c.nodetype = "introducer" /\ c.present[i] = "introducer.furl"))
\* paths: the result has no "." / ".." left
NS_PathNormal == c.table = "path" => \A i \in DOMAIN c.xcomps : c.xcomps[i] \notin {".", ".."}
=============================================================================
