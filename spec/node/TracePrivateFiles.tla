-------------------------- MODULE TracePrivateFiles --------------------------
(* Histories of the real helpers on a real directory (harness/nodemisc_driver.py --mode priv)
   against PrivateFiles.tla.  One event = one call with its answer (st, v, called = how often the
   default factory ran) and the complete directory afterwards (dir = [base, priv, f]). *)
EXTENDS PrivateFiles, Json, IOUtils, TLCExt, TLC

Traces == JsonDeserialize(IOEnv.TRACE_FILE)
VARIABLES tid, l, D, bad
tvars == <<tid, l, D, bad>>
Events == Traces[tid].events
Ev == Events[l]

NormC(c) == [core |-> c.core, lead |-> c.lead, trail |-> c.trail]
NormDir(o) == [base |-> o.base, priv |-> o.priv, f |-> [p \in DOMAIN o.f |-> NormC(o.f[p])]]
NormEv(e) ==
  CASE e.op \in {"create_node_dir", "write_private", "write_config_file", "ext_write"} -> [op |-> e.op, name |-> e.name, c |-> NormC(e.c)]
    [] e.op = "get_private" -> [op |-> e.op, name |-> e.name, dflt |-> [given |-> e.dflt.given, v |-> e.dflt.v]]
    [] e.op = "get_or_create" -> [op |-> e.op, name |-> e.name, gdflt |-> [kind |-> e.gdflt.kind, c |-> NormC(e.gdflt.c)]]
    [] e.op = "get_config_from_file" -> [op |-> e.op, name |-> e.name, required |-> e.required]
    [] e.op = "ext_remove" -> [op |-> e.op, name |-> e.name]

Verdict(e) ==
  LET x == Apply(D, NormEv(e))
      d2 == NormDir(e.dir) IN
  IF e.st # x.st THEN "PF_status_" \o e.op
  ELSE IF e.v # x.v THEN "PF_value_" \o e.op
  ELSE IF (e.called > 0) # x.called \/ e.called > 1 THEN "PF_default_factory_calls"
  ELSE IF d2.base # x.D.base \/ d2.priv # x.D.priv THEN "PF_directories_" \o e.op
  ELSE IF DOMAIN d2.f # DOMAIN x.D.f THEN "PF_files_" \o e.op
  ELSE IF d2.f # x.D.f THEN "PF_contents_" \o e.op
  ELSE ""

TraceInit == /\ tid \in 1..Len(Traces) /\ l = 1 /\ bad = "none"
             /\ D = [base |-> Traces[tid].consts.init.base, priv |-> Traces[tid].consts.init.priv, f |-> <<>>]
TraceNext ==
  /\ bad = "none" /\ l <= Len(Events)
  /\ LET c == Verdict(Ev) IN
       IF c = "" THEN /\ D' = NormDir(Ev.dir) /\ l' = l + 1 /\ bad' = "none"
                      /\ (l = Len(Events) => PrintT(<<"VF_ACCEPT", tid, l>>))
                 ELSE /\ bad' = c /\ UNCHANGED <<D, l>> /\ PrintT(<<"VF_REJECT", tid, l, c>>)
  /\ UNCHANGED tid
TraceSpec == TraceInit /\ [][TraceNext]_tvars
TraceOK == bad = "none"
=============================================================================
