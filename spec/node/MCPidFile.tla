------------------------------ MODULE MCPidFile ------------------------------
(* Node instances started against ONE configuration directory, on a machine that recycles process
   ids: every interleaving of start-ups (check_pid_process under the lock), clean exits
   (cleanup_pidfile), crashes (the file stays behind) and unrelated processes that come and go. *)
EXTENDS PidFile, FiniteSets, TLC

CONSTANTS Nodes, Pids, MaxTime

VARIABLES P, st, me, now
\* st[n] : "off" | "starting" | "running" | "refused";  me[n] = [pid, start] while the instance is a process
vars == <<P, st, me, now>>
None == [pid |-> 0, start |-> 0]
Init == P = [file |-> NoFile, procs |-> <<>>, lock |-> FALSE] /\ st = [n \in Nodes |-> "off"] /\ me = [n \in Nodes |-> None] /\ now = 1
Spawned(pid) == [q \in DOMAIN P.procs \cup {pid} |-> IF q = pid THEN now ELSE P.procs[q]]
Died(pid) == [q \in DOMAIN P.procs \ {pid} |-> P.procs[q]]

\* `tahoe run` is launched: a new process
Launch(n) == /\ st[n] = "off" /\ now < MaxTime
             /\ \E pid \in Pids \ DOMAIN P.procs :
                  /\ P' = [P EXCEPT !.procs = Spawned(pid)] /\ me' = [me EXCEPT ![n] = [pid |-> pid, start |-> now]]
             /\ st' = [st EXCEPT ![n] = "starting"] /\ now' = now + 1
\* check_pid_process (atomic: it runs under the file lock)
DoCheck(n) == /\ st[n] = "starting"
              /\ LET x == Check(P, me[n]) IN
                   /\ P' = x.P
                   /\ st' = [st EXCEPT ![n] = IF x.r = "ok" THEN "running" ELSE "refused"]
              /\ UNCHANGED <<me, now>>
\* a refused instance prints the error and exits; it does not touch the file
GiveUp(n) == /\ st[n] = "refused" /\ P' = [P EXCEPT !.procs = Died(me[n].pid)]
             /\ st' = [st EXCEPT ![n] = "off"] /\ me' = [me EXCEPT ![n] = None] /\ UNCHANGED now
\* clean shutdown: cleanup_pidfile, then the process ends
Exit(n) == /\ st[n] = "running" /\ P' = [Cleanup(P).P EXCEPT !.procs = Died(me[n].pid)]
           /\ st' = [st EXCEPT ![n] = "off"] /\ me' = [me EXCEPT ![n] = None] /\ UNCHANGED now
\* kill -9 / power loss: the file stays
Crash(n) == /\ st[n] \in {"starting", "running", "refused"} /\ P' = [P EXCEPT !.procs = Died(me[n].pid)]
            /\ st' = [st EXCEPT ![n] = "off"] /\ me' = [me EXCEPT ![n] = None] /\ UNCHANGED now
\* unrelated processes, possibly getting a recycled pid
Other == /\ now < MaxTime /\ UNCHANGED <<st, me>>
         /\ \/ \E pid \in Pids \ DOMAIN P.procs : P' = [P EXCEPT !.procs = Spawned(pid)] /\ now' = now + 1
            \/ \E pid \in DOMAIN P.procs \ {me[n].pid : n \in Nodes} : P' = [P EXCEPT !.procs = Died(pid)] /\ UNCHANGED now
Next == Other \/ \E n \in Nodes : Launch(n) \/ DoCheck(n) \/ GiveUp(n) \/ Exit(n) \/ Crash(n)
Spec == Init /\ [][Next]_vars

Running == {n \in Nodes : st[n] = "running"}
\* "Running multiple instances against the same configuration directory isn't supported ... We attempt to avoid this"
PID_Mutex == Cardinality(Running) <= 1
\* the file of a running instance names it: "it contains the PID and the creation-time of the process"
PID_FileNamesRunning == \A n \in Running : P.file = FileOf(me[n].pid, me[n].start)
\* running.rst's reading of the file is right about running instances ...
PID_ReadingRunning == (Reading(P) = "running") <=> (Running # {})
\* ... "When no such file exists, there is no other process running on this configuration"
PID_NoFileNobody == ~P.file.ex => Running = {}
\* a start-up is refused only while something is alive at the recorded pid (or the file is unreadable / locked)
PID_RefusedForAReason == [][\A n \in Nodes : st[n] = "starting" /\ st'[n] = "refused" =>
                              P.lock \/ (P.file.ex /\ (~P.file.valid \/ Alive(P, P.file.pid)))]_vars
\* a stale file whose pid is gone never blocks: the instance starts and the file is its own
PID_StaleReplaced == [][\A n \in Nodes : st[n] = "starting" /\ st'[n] # "starting" /\ P.file.ex /\ P.file.valid /\ ~Alive(P, P.file.pid) /\ ~P.lock
                          /\ me'[n] # None => st'[n] = "running" /\ P'.file = FileOf(me[n].pid, me[n].start)]_vars
=============================================================================
