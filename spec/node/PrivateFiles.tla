---------------------------- MODULE PrivateFiles ----------------------------
(* The node directory and its small configuration files (allmydata/node.py):
   create_node_dir and the helpers of _Config - write_private_config, get_private_config,
   get_or_create_private_config, write_config_file, get_config_from_file - as operators over
   an explicit directory value.  Sources: the docstrings of those functions.

   D == [base, priv : BOOLEAN,            the node directory / its private sub-directory exist
         f : path -> content]             the files: "private/<name>" and "<name>"
   content == [core, lead, trail]         the text without surrounding whitespace, and whether the file
                                          has leading whitespace / a trailing newline: readers return
                                          the text "stripped" ("Any leading or trailing whitespace will
                                          be stripped from the data")
   Every operator gives [D |-> directory afterwards, st, v |-> result, called |-> the default factory ran]. *)
EXTENDS Common

Content(core, lead, trail) == [core |-> core, lead |-> lead, trail |-> trail]
Plain(core) == Content(core, FALSE, FALSE)
Has(D, p) == p \in DOMAIN D.f
Put(D, p, c) == [D EXCEPT !.f = [q \in DOMAIN D.f \cup {p} |-> IF q = p THEN c ELSE D.f[q]]]
Del(D, p) == [D EXCEPT !.f = [q \in DOMAIN D.f \ {p} |-> D.f[q]]]
Priv(name) == "private/" \o name
Out(D, st, v, called) == [D |-> D, st |-> st, v |-> v, called |-> called]
EmptyDir == [base |-> FALSE, priv |-> FALSE, f |-> <<>>]

\* "Create new 'node directory' at 'basedir'. This includes a 'private' subdirectory. If basedir (and privdir)
\* already exists, nothing is done."  The README is written when the private directory is made.
CreateNodeDir(D, readme) ==
  IF D.priv THEN Out([D EXCEPT !.base = TRUE], "ok", "", FALSE)
  ELSE Out(Put([D EXCEPT !.base = TRUE, !.priv = TRUE], Priv("README"), readme), "ok", "", FALSE)

\* "Write the (string) contents of a private config file"
WritePrivate(D, name, c) == Out(Put(D, Priv(name), c), "ok", "", FALSE)

\* "Read the ... contents of a private config file ... Return a default, or raise an error if one was not given."
\* dflt == [given, v]
GetPrivate(D, name, dflt) ==
  IF Has(D, Priv(name)) THEN Out(D, "ok", D.f[Priv(name)].core, FALSE)
  ELSE IF dflt.given THEN Out(D, "ok", dflt.v, FALSE)
  ELSE Out(D, "MissingConfigEntry", "", FALSE)

\* "If the file does not exist, and default is not given, report an error. If the file does not exist and a
\* default is specified, try to create it using that default, and then return the value that was written. If
\* 'default' is a string, use it as a default value. If not, treat it as a zero-argument callable"
\* dflt == [kind : "none" | "str" | "call", c : content]
GetOrCreatePrivate(D, name, dflt) ==
  IF Has(D, Priv(name)) THEN Out(D, "ok", D.f[Priv(name)].core, FALSE)
  ELSE IF dflt.kind = "none" THEN Out(D, "MissingConfigEntry", "", FALSE)
  ELSE Out(Put(D, Priv(name), dflt.c), "ok", dflt.c.core, dflt.kind = "call")

\* "writes the given 'value' into a file called 'name' in the config directory"
WriteConfigFile(D, name, c) == Out(Put(D, name, c), "ok", "", FALSE)

\* "Get the (string) contents of a config file, or None if the file did not exist. If required=True, raise an
\* exception rather than returning None."
GetConfigFromFile(D, name, required) ==
  IF Has(D, name) THEN Out(D, "ok", D.f[name].core, FALSE)
  ELSE IF required THEN Out(D, "error", "", FALSE)
  ELSE Out(D, "none", "", FALSE)

\* the operator's hand: edits from outside the node
ExtWrite(D, p, c) == Out(Put(D, p, c), "ok", "", FALSE)
ExtRemove(D, p) == Out(Del(D, p), "ok", "", FALSE)

\* one event e = [op, name, c, dflt...] applied to D
Apply(D, e) ==
  CASE e.op = "create_node_dir"   -> CreateNodeDir(D, e.c)
    [] e.op = "write_private"     -> WritePrivate(D, e.name, e.c)
    [] e.op = "get_private"       -> GetPrivate(D, e.name, e.dflt)
    [] e.op = "get_or_create"     -> GetOrCreatePrivate(D, e.name, e.gdflt)
    [] e.op = "write_config_file" -> WriteConfigFile(D, e.name, e.c)
    [] e.op = "get_config_from_file" -> GetConfigFromFile(D, e.name, e.required)
    [] e.op = "ext_write"         -> ExtWrite(D, e.name, e.c)
    [] e.op = "ext_remove"        -> ExtRemove(D, e.name)
=============================================================================
