------------------------------- MODULE PidFile -------------------------------
(* The "pidfile"-style file BASEDIR/running.process (allmydata/util/pid.py, docs/running.rst
   "Multiple Instances"; used by `tahoe run`: check_pid_process before the node starts,
   cleanup_pidfile after the reactor has shut down - only when the check succeeded).

   P == [file : [ex, valid, pid, start],   the file: exists / holds "PID creation-time" / the two numbers
         procs : pid -> creation time,     the processes alive on the machine
         lock : BOOLEAN]                   running.process.lock is held by somebody else right now

   docstring of check_pid_process: "If another instance appears to be running already, raise an exception.
   Otherwise, write our PID + start time to the pidfile ... :raises ProcessInTheWay: if a running process
   exists at our PID"; a file whose PID is not running "must be a stale file" and is replaced; a file that is
   not "PID creation-time" raises InvalidPidFile; a lock that stays held counts as a process in the way.
   cleanup_pidfile: "Remove the pidfile specified (respecting locks). If anything at all goes wrong,
   CannotRemovePidFile is raised." *)
EXTENDS Common

NoFile == [ex |-> FALSE, valid |-> FALSE, pid |-> 0, start |-> 0]
FileOf(pid, start) == [ex |-> TRUE, valid |-> TRUE, pid |-> pid, start |-> start]
Garbage == [ex |-> TRUE, valid |-> FALSE, pid |-> 0, start |-> 0]
Alive(P, pid) == pid \in DOMAIN P.procs
Ans(P, r) == [P |-> P, r |-> r]

\* me = [pid, start]: the process that runs the check (it is alive itself)
Check(P, me) ==
  IF P.lock THEN Ans(P, "ProcessInTheWay")
  ELSE IF P.file.ex /\ ~P.file.valid THEN Ans(P, "InvalidPidFile")
  ELSE IF P.file.ex /\ Alive(P, P.file.pid) THEN Ans(P, "ProcessInTheWay")     \* "let the user decide"
  ELSE Ans([P EXCEPT !.file = FileOf(me.pid, me.start)], "ok")

Cleanup(P) ==
  IF P.file.ex THEN Ans([P EXCEPT !.file = NoFile], "ok") ELSE Ans(P, "CannotRemovePidFile")

\* docs/running.rst, for whoever reads the file: "determine if the PID in the file exists currently. If it does,
\* check the creation-time of the process versus the one in the file. If these match, there is another process
\* currently running and using this config. Otherwise, the file is stale"
Reading(P) ==
  IF ~P.file.ex THEN "no-other-process"
  ELSE IF ~P.file.valid THEN "invalid"
  ELSE IF Alive(P, P.file.pid) /\ P.procs[P.file.pid] = P.file.start THEN "running" ELSE "stale"
=============================================================================
